import PromModel.Tsdb.CrashFs
import PromModel.Tsdb.CrashTear
/-
  Suite `crash` (C03). The op lines carry *observations* of the real system (the harness cannot be
  predicted by a model here: which syscall is the n-th depends on the run), the implementation column
  is `-`, and so is the model's. Everything is decided by the judge:
    trace <wseed> <a1|a2|…>   the abstracted syscall trace of an untampered run must satisfy the
                              crash-safety discipline (`CrashFs.run`), the hypothesis of the theorems;
    kill <wseed> <kind> <n> open=… acked=… inflight=… gone=… deleted=… delinflight=… present=… killed=…
                              C03's statement on the state recovered after a kill at that syscall:
                              the directory reopens, every acknowledged (and not deleted) sample is
                              present with its value, nothing is present that was not acknowledged or in
                              flight (samples inside a deletion that had started but not returned
                              count as in flight), and samples removed by an acknowledged deletion
                              stay absent.
    stage <wseed> <stage> acked=… inflight=… live=… wal=<seg>|<end>:<k+k…>;… wbl=… chunks=…
                              the on-disk state at a kill point between two transactions: what was
                              acknowledged, what a live query returned just before, and the layout of
                              the newest WAL / WBL segment and chunks_head file as read back from disk.
                              Every acknowledged sample must have been visible before the crash.
    tear <wseed> <stage> <none|chunks|wal|wbl> <seg> <off> open=… present=… repaired=… post=… open2=… present2=…
                              that state with one file torn at <off> (head-chunk file: zeroed from
                              there, log segment: truncated), reopened and queried. C03's statement
                              (`tearHolds`): the directory reopens, every acknowledged sample not
                              carried by a destroyed log record (`CrashTear.owed`) is present, nothing
                              is present that was neither acknowledged nor in flight; and the
                              same again (with the second session's commits `post` acknowledged)
                              after a second session and a clean restart.
-/
namespace Prom.CrashFs

def model (ops : List String) : List String := ops.map fun _ => "-"

/-! ### Parsing the harness' action strings into classified actions (string level, not proved) -/

def splitPath (s : String) : List String := (s.splitOn "/").filter (· ≠ "")

def creationSuffix := ".tmp-for-creation"
def deletionSuffix := ".tmp-for-deletion"

def blockNo? (s : String) : Option Nat :=
  if s.startsWith "B" then (s.drop 1).toString.toNat? else none

def stripSuffix? (s suf : String) : Option String :=
  if s.endsWith suf then some (s.dropEnd suf.length).toString else none

def logOf? (s : String) : Option Log := if s = "wal" then some .wal else if s = "wbl" then some .wbl else none

/-- Interning table for file paths inside block directories. -/
abbrev Tab := List String

def intern (t : Tab) (key : String) : Tab × Nat :=
  match t.idxOf? key with
  | some i => (t, i + 1)
  | none => (t ++ [key], t.length + 1)

def classify (t : Tab) (p : List String) : Tab × Loc :=
  match p with
  | [] => (t, .other)
  | d :: rest =>
    match logOf? d with
    | some l =>
      match rest with
      | [f] =>
        if f.all Char.isDigit ∧ f.length > 0 then (t, match f.toNat? with | some k => .seg l k | none => .other)
        else if f.startsWith "checkpoint." then
          match stripSuffix? f ".tmp" with
          | some g => (t, match (g.drop "checkpoint.".length).toString.toNat? with | some k => .cpTmp l k false | none => .other)
          | none => (t, match (f.drop "checkpoint.".length).toString.toNat? with | some k => .cp l k false | none => .other)
        else (t, .other)
      | f :: _ :: _ =>
        if f.startsWith "checkpoint." then
          match stripSuffix? f ".tmp" with
          | some g => (t, match (g.drop "checkpoint.".length).toString.toNat? with | some k => .cpTmp l k true | none => .other)
          | none => (t, match (f.drop "checkpoint.".length).toString.toNat? with | some k => .cp l k true | none => .other)
        else (t, .other)
      | [] => (t, .other)
    | none =>
      let fileId := fun (t : Tab) (b : Nat) => if rest.isEmpty then (t, 0) else intern t (s!"{b}/" ++ "/".intercalate rest)
      match stripSuffix? d creationSuffix with
      | some n => match blockNo? n with
        | some b => let (t, f) := fileId t b; (t, .blockTmp b f)
        | none => (t, .other)
      | none =>
        match stripSuffix? d deletionSuffix with
        | some n => (t, match blockNo? n with | some b => .blockDel b | none => .other)
        | none =>
          match blockNo? d with
          | some b =>
            let (t, f) := fileId t b
            (t, .block b f (match rest.getLast? with | some x => x.endsWith ".tmp" | none => false))
          | none => (t, .other)

def parseAct (t : Tab) (s : String) : Tab × Option Act :=
  let body := (s.drop 2).toString
  if s.startsWith "r:" then
    match body.splitOn ">" with
    | [a, b] =>
      let pa := splitPath a
      let pb := splitPath b
      let (t, la) := classify t pa
      let (t, lb) := classify t pb
      let over := match pa.getLast?, pb.getLast? with
        | some fa, some fb => fa == fb ++ ".tmp" && pa.dropLast == pb.dropLast
        | _, _ => false
      (t, some (.rename la lb over))
    | _ => (t, none)
  else
    let (t', l) := classify t (splitPath body)
    if s.startsWith "w:" then (t', some (.write l))
    else if s.startsWith "f:" then (t', some (.fsync l))
    else if s.startsWith "t:" then (t', some (.trunc l))
    else if s.startsWith "m:" then (t', some (.mkdir l))
    else if s.startsWith "u:" then (t', some (.unlink l))
    else (t, none)

def parseTrace (tr : String) : List Act :=
  let rec go (t : Tab) : List String → List Act
    | [] => []
    | a :: rest => match parseAct t a with
      | (t', some x) => x :: go t' rest
      | (t', none) => go t' rest
  go [] (tr.splitOn "|")

def field (fs : List String) (name : String) : Option String :=
  (fs.find? (·.startsWith (name ++ "="))).map fun f => (f.drop (name.length + 1)).toString

def setOf (s : String) : List String := if s = "-" then [] else s.splitOn ","

/-- C03's statement on one recovered state. -/
def killHolds (open_ : String) (acked inflight gone present : List String) : Option String :=
  if open_ ≠ "ok" then some s!"reopen-failed {open_}"
  else match acked.find? (fun a => !present.contains a) with
    | some a => some s!"acked-sample-lost {a}"
    | none =>
      match present.find? (fun p => !(acked.contains p || inflight.contains p)) with
      | some p => if gone.contains p then some s!"deleted-sample-back {p}" else some s!"unacknowledged-sample-present {p}"
      | none => none

/-! ### Torn-file ops -/

open Prom.CrashTear in
/-- C03's statement on a state recovered from a torn file: `killHolds` with the owed samples as the
    acknowledged set and the samples of the destroyed records as additional in-flight ones. -/
def tearHolds (open_ : String) (acked inflight present : List String) (off : Nat) (recs : List Rec) :
    Option String :=
  killHolds open_ (owed acked off recs) (inflight ++ lost off recs) [] present

structure Stage where
  acked : List String := []
  inflight : List String := []
  live : List String := []
  wal : List CrashTear.Rec := []
  wbl : List CrashTear.Rec := []
  chunks : List (Nat × Nat × Bool) := []   -- start, end, out-of-order
deriving Inhabited

/-- `<seg>|<item>;<item>…` → items. -/
def layoutItems (s : String) : List String :=
  match s.splitOn "|" with
  | [_, body] => if body = "-" then [] else body.splitOn ";"
  | _ => []

def parseRec (r : String) : Option CrashTear.Rec :=
  match r.splitOn ":" with
  | e :: rest =>
    match e.toNat? with
    | some n => some (n, if rest = ["-"] then [] else (":".intercalate rest).splitOn "+")
    | none => none
  | [] => none

def parseChunk (r : String) : Option (Nat × Nat × Bool) :=
  match r.splitOn ":" with
  | a :: b :: k :: _ =>
    match a.toNat?, b.toNat? with
    | some x, some y => some (x, y, k == "o")
    | _, _ => none
  | _ => none

def parseStage (fs : List String) : Option Stage :=
  match field fs "acked", field fs "inflight", field fs "live", field fs "wal", field fs "wbl", field fs "chunks" with
  | some a, some i, some l, some wa, some wb, some ch =>
    some { acked := setOf a, inflight := setOf i, live := setOf l,
           wal := (layoutItems wa).filterMap parseRec, wbl := (layoutItems wb).filterMap parseRec,
           chunks := (layoutItems ch).filterMap parseChunk }
  | _, _, _, _, _, _ => none

/-- Where in the head-chunk file the tear point lies: `chunk=<i>/<n>:<o|i>+<rel>` (inside chunk i, rel
    bytes behind its start; rel = 0 is a chunk boundary), `end` behind the last chunk. -/
def whereInChunks (off : Nat) (cs : List (Nat × Nat × Bool)) : String :=
  let rec go (i : Nat) : List (Nat × Nat × Bool) → String
    | [] => "end"
    | (a, b, o) :: rest =>
      if off < b then s!"chunk={i}/{cs.length}:{if o then "o" else "i"}+{off - a}" else go (i + 1) rest
  go 1 cs

/-- Verdict of one `tear` op (`none` = holds), `session` = 1 (right after the crash) or 2 (after a
    second session and a clean restart; `acked` then includes what the second session committed). The
    loss of out-of-order samples, and only of those, after a torn WAL record is the documented finding
    F18 (the WBL is not replayed in the session that repairs the WAL) and gets its own signature; so
    does finding C03-F1: the WBL was cut right behind an m-map marker record (its last complete record
    carries no samples), the first session serves everything, and after the second session + restart
    out-of-order samples of complete WBL records are gone (the stale marker is honoured once
    `lastMmapRef` has moved past it; `C03.stale_marker_after_restart_witness`). -/
def judgeTear1 (ws stage cls seg : String) (off : Nat) (st : Stage) (session : Nat) (acked : List String)
    (o : String) (present : List String) : Option (Bool × String) :=
  let recs := if cls = "wal" then st.wal else if cls = "wbl" then st.wbl else []
  match tearHolds o acked st.inflight present off recs with
  | none => none
  | some why =>
    let missing := (CrashTear.owed acked off recs).filter fun a => !present.contains a
    let wblSamples := st.wbl.flatMap (·.2)
    let extra := present.filter fun p => !(acked.contains p || st.inflight.contains p)
    if session = 1 && cls = "wal" && o = "ok" && !CrashTear.atBoundary off recs && !missing.isEmpty && extra.isEmpty
        && missing.all wblSamples.contains then
      some (true, s!"violation wbl-skipped-after-wal-repair wseed={ws} stage={stage} tear=wal:{seg}:{off} missing-ooo={missing.length}")
    else if session = 2 && cls = "wbl" && o = "ok" && !missing.isEmpty && extra.isEmpty
        && (match (recs.filter fun r => decide (r.1 ≤ off)).getLast? with | some r => r.2.isEmpty | none => false)
        && missing.all ((recs.filter fun r => decide (r.1 ≤ off)).flatMap (·.2)).contains then
      some (true, s!"violation stale-mmap-marker-after-restart wseed={ws} stage={stage} tear=wbl:{seg}:{off} missing-ooo={missing.length}")
    else
      let wh := if cls = "chunks" then " " ++ whereInChunks off st.chunks
                else if cls = "none" then "" else (if CrashTear.atBoundary off recs then " record-boundary" else " mid-record")
      some (false, s!"violation crash-unsafe wseed={ws} stage={stage} tear={cls}:{seg}:{off}{wh} session={session} {why} missing={missing.length}")

def judgeTear (ws stage cls seg : String) (off : Nat) (st : Stage) (fs : List String) : Option (Bool × String) :=
  match field fs "open", field fs "present" with
  | some o, some p =>
    match judgeTear1 ws stage cls seg off st 1 st.acked o (setOf p) with
    | some v => some v
    | none =>
      match field fs "post", field fs "open2", field fs "present2" with
      | some post, some o2, some p2 =>
        if o2 = "-" then none else judgeTear1 ws stage cls seg off st 2 (st.acked ++ setOf post) o2 (setOf p2)
      | _, _, _ => none
  | _, _ => some (false, s!"violation unparsable tear wseed={ws} stage={stage}")

/-- Deletions that had started but not returned when the process was killed: `s:mint:maxt;…`. -/
def parseDels (s : String) : List (String × Int × Int) :=
  if s = "-" then [] else (s.splitOn ";").filterMap fun d =>
    match d.splitOn ":" with
    | [sr, a, b] => match a.toInt?, b.toInt? with
      | some x, some y => some (sr, x, y)
      | _, _ => none
    | _ => none

/-- Is the sample `s:t:v` inside one of the deletions? Such a sample is neither owed (the tombstone
    may already be in the WAL) nor forbidden (it may not): it counts as in flight. -/
def inDels (dels : List (String × Int × Int)) (key : String) : Bool :=
  match key.splitOn ":" with
  | sr :: t :: _ => match t.toInt? with
    | some tt => dels.any fun d => d.1 == sr && decide (d.2.1 ≤ tt) && decide (tt ≤ d.2.2)
    | none => false
  | _ => false

def judge (ops _outs : List String) : String :=
  -- `known`: the first verdict with the signature of a documented finding; any other violation wins
  let rec go (ops : List String) (k : Nat) (stages : List (String × Stage)) (known : Option String) : String :=
    match ops with
    | [] => known.getD "ok"
    | op :: rest =>
      match toks op with
      | "trace" :: _ :: [tr] =>
        if tr = "notrace" then s!"violation no-trace op={k}" else
        let acts := parseTrace tr
        match run {} acts 0 with
        | .ok _ => go rest (k + 1) stages known
        | .error i => s!"violation discipline op={k} step={i} action={(tr.splitOn "|")[i]?.getD "?"}"
      | "kill" :: ws :: kind :: n :: fs =>
        match field fs "open", field fs "acked", field fs "inflight", field fs "gone", field fs "present" with
        | some o, some a, some i, some g, some p =>
          let dels := parseDels ((field fs "delinflight").getD "-")
          let acked := (setOf a).filter fun x => !inDels dels x
          let infl := setOf i ++ (setOf a).filter (inDels dels)
          match killHolds o acked infl (setOf g) (setOf p) with
          | some why => s!"violation crash-unsafe wseed={ws} kill={kind}:{n} {why}"
          | none => go rest (k + 1) stages known
        | _, _, _, _, _ => s!"violation unparsable op={k}"
      | "stage" :: ws :: stage :: fs =>
        match parseStage fs with
        | some st =>
          match st.acked.find? (fun a => !st.live.contains a) with
          | some a => s!"violation acked-sample-not-visible-before-crash wseed={ws} stage={stage} {a}"
          | none => go rest (k + 1) ((ws ++ "/" ++ stage, st) :: stages) known
        | none => s!"violation unparsable op={k}"
      | "tear" :: ws :: stage :: cls :: seg :: off :: fs =>
        match stages.find? (·.1 == ws ++ "/" ++ stage), off.toNat? with
        | some (_, st), some offN =>
          match judgeTear ws stage cls seg offN st fs with
          | none => go rest (k + 1) stages known
          | some (true, v) => go rest (k + 1) stages (known.or (some v))
          | some (false, v) => v
        | _, _ => s!"violation unparsable op={k}"
      | _ => go rest (k + 1) stages known
  go ops 0 [] none

def suite : Suite := { name := "crash", model := model, judge := judge }

end Prom.CrashFs
