import PromModel.Tsdb.CrashFs
/-
  Suite `crash` (C03). The op lines carry *observations* of the real system (the harness cannot be
  predicted by a model here: which syscall is the n-th depends on the run), the implementation column
  is `-`, and so is the model's. Everything is decided by the judge:
    trace <wseed> <a1|a2|…>   the abstracted syscall trace of an untampered run must satisfy the
                              crash-safety discipline (`CrashFs.run`), the hypothesis of the theorems;
    kill <wseed> <kind> <n> open=… acked=… inflight=… gone=… deleted=… delinflight=… present=… killed=…
                              C03's statement on the state recovered after a kill at that syscall:
                              the directory reopens, every acknowledged (and not deleted) sample is
                              present with its value, nothing is present that was not acknowledged or in
                              flight, and samples removed by an acknowledged deletion stay absent.
-/
namespace Prom.CrashFs

def model (ops : List String) : List String := ops.map fun _ => "-"

/-! ### Parsing the harness' action strings into classified actions (string level, not proved) -/

def splitPath (s : String) : List String := (s.splitOn "/").filter (· ≠ "")

def creationSuffix := ".tmp-for-creation"
def deletionSuffix := ".tmp-for-deletion"

def blockNo? (s : String) : Option Nat :=
  if s.startsWith "B" then (s.drop 1).toString.toNat? else none

def stripSuffix? (s suf : String) : Option String :=
  if s.endsWith suf then some (s.dropEnd suf.length).toString else none

def logOf? (s : String) : Option Log := if s = "wal" then some .wal else if s = "wbl" then some .wbl else none

/-- Interning table for file paths inside block directories. -/
abbrev Tab := List String

def intern (t : Tab) (key : String) : Tab × Nat :=
  match t.idxOf? key with
  | some i => (t, i + 1)
  | none => (t ++ [key], t.length + 1)

def classify (t : Tab) (p : List String) : Tab × Loc :=
  match p with
  | [] => (t, .other)
  | d :: rest =>
    match logOf? d with
    | some l =>
      match rest with
      | [f] =>
        if f.all Char.isDigit ∧ f.length > 0 then (t, match f.toNat? with | some k => .seg l k | none => .other)
        else if f.startsWith "checkpoint." then
          match stripSuffix? f ".tmp" with
          | some g => (t, match (g.drop "checkpoint.".length).toString.toNat? with | some k => .cpTmp l k false | none => .other)
          | none => (t, match (f.drop "checkpoint.".length).toString.toNat? with | some k => .cp l k false | none => .other)
        else (t, .other)
      | f :: _ :: _ =>
        if f.startsWith "checkpoint." then
          match stripSuffix? f ".tmp" with
          | some g => (t, match (g.drop "checkpoint.".length).toString.toNat? with | some k => .cpTmp l k true | none => .other)
          | none => (t, match (f.drop "checkpoint.".length).toString.toNat? with | some k => .cp l k true | none => .other)
        else (t, .other)
      | [] => (t, .other)
    | none =>
      let fileId := fun (t : Tab) (b : Nat) => if rest.isEmpty then (t, 0) else intern t (s!"{b}/" ++ "/".intercalate rest)
      match stripSuffix? d creationSuffix with
      | some n => match blockNo? n with
        | some b => let (t, f) := fileId t b; (t, .blockTmp b f)
        | none => (t, .other)
      | none =>
        match stripSuffix? d deletionSuffix with
        | some n => (t, match blockNo? n with | some b => .blockDel b | none => .other)
        | none =>
          match blockNo? d with
          | some b =>
            let (t, f) := fileId t b
            (t, .block b f (match rest.getLast? with | some x => x.endsWith ".tmp" | none => false))
          | none => (t, .other)

def parseAct (t : Tab) (s : String) : Tab × Option Act :=
  let body := (s.drop 2).toString
  if s.startsWith "r:" then
    match body.splitOn ">" with
    | [a, b] =>
      let pa := splitPath a
      let pb := splitPath b
      let (t, la) := classify t pa
      let (t, lb) := classify t pb
      let over := match pa.getLast?, pb.getLast? with
        | some fa, some fb => fa == fb ++ ".tmp" && pa.dropLast == pb.dropLast
        | _, _ => false
      (t, some (.rename la lb over))
    | _ => (t, none)
  else
    let (t', l) := classify t (splitPath body)
    if s.startsWith "w:" then (t', some (.write l))
    else if s.startsWith "f:" then (t', some (.fsync l))
    else if s.startsWith "t:" then (t', some (.trunc l))
    else if s.startsWith "m:" then (t', some (.mkdir l))
    else if s.startsWith "u:" then (t', some (.unlink l))
    else (t, none)

def parseTrace (tr : String) : List Act :=
  let rec go (t : Tab) : List String → List Act
    | [] => []
    | a :: rest => match parseAct t a with
      | (t', some x) => x :: go t' rest
      | (t', none) => go t' rest
  go [] (tr.splitOn "|")

def field (fs : List String) (name : String) : Option String :=
  (fs.find? (·.startsWith (name ++ "="))).map fun f => (f.drop (name.length + 1)).toString

def setOf (s : String) : List String := if s = "-" then [] else s.splitOn ","

/-- C03's statement on one recovered state. -/
def killHolds (open_ : String) (acked inflight gone present : List String) : Option String :=
  if open_ ≠ "ok" then some s!"reopen-failed {open_}"
  else match acked.find? (fun a => !present.contains a) with
    | some a => some s!"acked-sample-lost {a}"
    | none =>
      match present.find? (fun p => !(acked.contains p || inflight.contains p)) with
      | some p => if gone.contains p then some s!"deleted-sample-back {p}" else some s!"unacknowledged-sample-present {p}"
      | none => none

def judge (ops _outs : List String) : String :=
  let rec go (ops : List String) (k : Nat) : String :=
    match ops with
    | [] => "ok"
    | op :: rest =>
      match toks op with
      | "trace" :: _ :: [tr] =>
        if tr = "notrace" then s!"violation no-trace op={k}" else
        let acts := parseTrace tr
        match run {} acts 0 with
        | .ok _ => go rest (k + 1)
        | .error i => s!"violation discipline op={k} step={i} action={(tr.splitOn "|")[i]?.getD "?"}"
      | "kill" :: ws :: kind :: n :: fs =>
        match field fs "open", field fs "acked", field fs "inflight", field fs "gone", field fs "present" with
        | some o, some a, some i, some g, some p =>
          match killHolds o (setOf a) (setOf i) (setOf g) (setOf p) with
          | some why => s!"violation crash-unsafe wseed={ws} kill={kind}:{n} {why}"
          | none => go rest (k + 1)
        | _, _, _, _, _ => s!"violation unparsable op={k}"
      | _ => go rest (k + 1)
  go ops 0

def suite : Suite := { name := "crash", model := model, judge := judge }

end Prom.CrashFs
