import PromModel.Prelude.Line
import PromModel.Tsdb.Record
/-
  Suite `record` (property C14): WAL record codecs, byte-exact.

  Item syntax (lists: items joined by `;`, `-` = empty list; strings hex, `-` = empty string;
  floats = 16 hex digits of the bit pattern; refs unsigned decimal; timestamps signed decimal):
    labels    `-` | `<name>=<value>,…`
    series    `<ref>:<labels>`
    sample    `<ref>:<st>:<t>:<vbits>`
    stone     `<ref>:<mint>/<maxt>,…`          (`-` = no interval)
    exemplar  `<ref>:<t>:<vbits>:<labels>`
    metadata  `<ref>:<type>:<unit>:<help>`
    mmap      `<ref>:<mmapref>`
    hist      `<ref>:<st>:<t>:<hint>:<schema>:<zt>:<zc>:<c>:<sum>:<pspans>:<nspans>:<pbuckets>:<nbuckets>:<custom>`
              spans `<off>/<len>,…`; int histograms: zc,c,buckets decimal; float histograms: 16-hex bits.
  Ops / outputs:
    enc_series|enc_tomb|enc_exemplars|enc_meta|enc_mmap <items>      → `<hex>`
    enc_samples <1|2> <items>                                        → `<hex>`      (2 = EnableSTStorage)
    enc_hist|enc_fhist <1|2> <items>                                 → `<hex> <leftover items>`
    enc_chist|enc_cfhist <1|2> <items>                               → `<hex>`
    dec_<series|samples|tomb|exemplars|meta|mmap|hist|fhist> <hex>   → `ok <items>` | `err type` | `err` | `panic`
    decu_<…> <hex>   same for untrusted (damaged / random) bytes; histograms that come out with schema 8
                     print spans/buckets as `*` (they may be the result of `ReduceResolution`, which the
                     model does not compute). The harness runs risky inputs in a watchdog child and drops
                     the op when the real decoder spins / over-allocates on a huge decoded count.
    type <hex>                                                       → `<n>`
-/
namespace Prom.RecordSuite
open Prom Prom.Enc Prom.Record

/-! ### rendering -/

def joinOr (sep : String) (xs : List String) : String :=
  if xs.isEmpty then "-" else sep.intercalate xs

def showBits (n : Nat) : String := hexOfNat n 16

def showLabels (ls : Labels) : String :=
  joinOr "," (ls.map fun l => hexEncBytes l.name ++ "=" ++ hexEncBytes l.value)

def showSeries (s : RefSeries) : String := s!"{s.ref}:{showLabels s.labels}"
def showSample (s : RefSample) : String := s!"{s.ref}:{s.st}:{s.t}:{showBits s.v}"
def showStone (s : Stone) : String :=
  s!"{s.ref}:" ++ joinOr "," (s.intervals.map fun iv => s!"{iv.1}/{iv.2}")
def showExemplar (e : RefExemplar) : String := s!"{e.ref}:{e.t}:{showBits e.v}:{showLabels e.labels}"
def showMeta (m : RefMetadata) : String := s!"{m.ref}:{m.typ}:{hexEncBytes m.unit}:{hexEncBytes m.help}"
def showMmap (m : RefMmapMarker) : String := s!"{m.ref}:{m.mmapRef}"
def showSpans (xs : List Span) : String := joinOr "," (xs.map fun s => s!"{s.offset}/{s.length}")

def showHist (fl opaque8 : Bool) (x : RefHist) : String :=
  let h := x.h
  let cnt (n : Nat) : String := if fl then showBits n else toString n
  let bk (b : Int) : String := if fl then showBits b.toNat else toString b
  let star := opaque8 && h.schema == 8
  let lst (s : String) := if star then "*" else s
  s!"{x.ref}:{x.st}:{x.t}:{h.hint}:{h.schema}:{showBits h.zt}:{cnt h.zc}:{cnt h.c}:{showBits h.sum}:" ++
    lst (showSpans h.ps) ++ ":" ++ lst (showSpans h.ns) ++ ":" ++
    lst (joinOr "," (h.pb.map bk)) ++ ":" ++ lst (joinOr "," (h.nb.map bk)) ++ ":" ++
    joinOr "," (h.cv.map showBits)

def showItems (f : α → String) (xs : List α) : String := joinOr ";" (xs.map f)

/-! ### parsing -/

def splitList (sep : String) (s : String) : List String :=
  if s = "-" then [] else s.splitOn sep

def parseBits? (s : String) : Option Nat :=
  if s.length = 16 then natOfHex? s else none

def parseLabels? (s : String) : Option Labels :=
  (splitList "," s).mapM fun p =>
    match p.splitOn "=" with
    | [n, v] => do pure ⟨← bytesOfHex? n, ← bytesOfHex? v⟩
    | _ => none

def parseSeries? (s : String) : Option RefSeries :=
  match s.splitOn ":" with
  | [r, ls] => do pure ⟨← r.toNat?, ← parseLabels? ls⟩
  | _ => none

def parseSample? (s : String) : Option RefSample :=
  match s.splitOn ":" with
  | [r, st, t, v] => do pure ⟨← r.toNat?, ← st.toInt?, ← t.toInt?, ← parseBits? v⟩
  | _ => none

def parseStone? (s : String) : Option Stone :=
  match s.splitOn ":" with
  | [r, ivs] => do
    let ivs ← (splitList "," ivs).mapM fun p =>
      match p.splitOn "/" with
      | [a, b] => do pure (← a.toInt?, ← b.toInt?)
      | _ => none
    pure ⟨← r.toNat?, ivs⟩
  | _ => none

def parseExemplar? (s : String) : Option RefExemplar :=
  match s.splitOn ":" with
  | [r, t, v, ls] => do pure ⟨← r.toNat?, ← t.toInt?, ← parseBits? v, ← parseLabels? ls⟩
  | _ => none

def parseMeta? (s : String) : Option RefMetadata :=
  match s.splitOn ":" with
  | [r, ty, u, h] => do pure ⟨← r.toNat?, ← ty.toNat?, ← bytesOfHex? u, ← bytesOfHex? h⟩
  | _ => none

def parseMmap? (s : String) : Option RefMmapMarker :=
  match s.splitOn ":" with
  | [r, m] => do pure ⟨← r.toNat?, ← m.toNat?⟩
  | _ => none

def parseSpans? (s : String) : Option (List Span) :=
  (splitList "," s).mapM fun p =>
    match p.splitOn "/" with
    | [a, b] => do pure ⟨← a.toInt?, ← b.toNat?⟩
    | _ => none

def parseHist? (fl : Bool) (s : String) : Option RefHist :=
  let cnt (x : String) : Option Nat := if fl then parseBits? x else x.toNat?
  let bk (x : String) : Option Int := if fl then (parseBits? x).map Int.ofNat else x.toInt?
  match s.splitOn ":" with
  | [r, st, t, hint, schema, zt, zc, c, sum, ps, ns, pb, nb, cv] => do
    pure ⟨← r.toNat?, ← st.toInt?, ← t.toInt?,
      ⟨← hint.toNat?, ← schema.toInt?, ← parseBits? zt, ← cnt zc, ← cnt c, ← parseBits? sum,
        ← parseSpans? ps, ← parseSpans? ns, ← (splitList "," pb).mapM bk, ← (splitList "," nb).mapM bk,
        ← (splitList "," cv).mapM parseBits?⟩⟩
  | _ => none

def parseItems? (f : String → Option α) (s : String) : Option (List α) := (splitList ";" s).mapM f

/-! ### model -/

def showDec (f : α → String) : Except RecErr (List α) → String
  | .ok xs => "ok " ++ showItems f xs
  | .error .badType => "err type"
  | .error .decode => "err"
  | .error .panic => "panic"

def decOp (kind : String) (untrusted : Bool) (bs : Bytes) : String :=
  match kind with
  | "series" => showDec showSeries (decSeries bs)
  | "samples" => showDec showSample (decSamples bs)
  | "tomb" => showDec showStone (decTombstones bs)
  | "exemplars" => showDec showExemplar (decExemplars bs)
  | "meta" => showDec showMeta (decMetadata bs)
  | "mmap" => showDec showMmap (decMmapMarkers bs)
  | "hist" => showDec (showHist false untrusted) (decHists false bs)
  | "fhist" => showDec (showHist true untrusted) (decHists true bs)
  | _ => "bad-op"

def enc1 (parse : String → Option α) (enc : List α → Bytes) (items : String) : String :=
  match parseItems? parse items with
  | some xs => hexEncBytes (enc xs)
  | none => "bad-op"

def stepModel (line : String) : String :=
  match toks line with
  | ["enc_series", x] => enc1 parseSeries? encSeries x
  | ["enc_tomb", x] => enc1 parseStone? encTombstones x
  | ["enc_exemplars", x] => enc1 parseExemplar? encExemplars x
  | ["enc_meta", x] => enc1 parseMeta? encMetadata x
  | ["enc_mmap", x] => enc1 parseMmap? encMmapMarkers x
  | ["enc_samples", v, x] => enc1 parseSample? (encSamples (v == "2")) x
  | ["enc_hist", v, x] =>
    match parseItems? (parseHist? false) x with
    | some xs => let (b, left) := encHists (v == "2") false xs
                 hexEncBytes b ++ " " ++ showItems (showHist false false) left
    | none => "bad-op"
  | ["enc_fhist", v, x] =>
    match parseItems? (parseHist? true) x with
    | some xs => let (b, left) := encHists (v == "2") true xs
                 hexEncBytes b ++ " " ++ showItems (showHist true false) left
    | none => "bad-op"
  | ["enc_chist", v, x] => enc1 (parseHist? false) (encCustomHists (v == "2") false) x
  | ["enc_cfhist", v, x] => enc1 (parseHist? true) (encCustomHists (v == "2") true) x
  | ["type", hx] =>
    match bytesOfHex? hx with
    | some bs => toString (recType bs)
    | none => "bad-op"
  | [op, hx] =>
    match bytesOfHex? hx with
    | none => "bad-op"
    | some bs =>
      if op.startsWith "dec_" then decOp (op.drop 4).toString false bs
      else if op.startsWith "decu_" then decOp (op.drop 5).toString true bs
      else "bad-op"
  | _ => "bad-op"

def model (ops : List String) : List String := ops.map stepModel

/-! ### judge — the statement of C14 evaluated on the implementation's outputs.
    Independent of the codec model: it only parses the *values* in the op lines and compares them with
    the values the real decoder printed for the bytes the real encoder printed:
    round-trip equality on enc→dec pairs, nothing lost or duplicated by the V1 histogram split, no panic
    when decoding encoder output. Behaviour on damaged / crafted bytes is outside the statement (it is
    compared with the model only). -/

structure EncRec where
  kind  : String   -- series samples tomb exemplars meta mmap hist fhist
  hex   : String
  /-- expected `ok …` line, `none` when the input is outside the statement (e.g. unknown schema) -/
  expect : Option String

def histWF (x : RefHist) : Bool :=
  (x.h.schema == -53 || (-4 ≤ x.h.schema && x.h.schema ≤ 8)) && (x.h.schema == -53 || x.h.cv.isEmpty)

def noST (x : RefHist) : RefHist := { x with st := 0 }

def judgeEnc (op : String) (out : String) : Except String (Option EncRec) :=
  let okLine (s : String) := some ("ok " ++ s)
  match toks op with
  | ["enc_series", x] => .ok (some ⟨"series", out, okLine x⟩)
  | ["enc_exemplars", x] => .ok (some ⟨"exemplars", out, okLine x⟩)
  | ["enc_meta", x] => .ok (some ⟨"meta", out, okLine x⟩)
  | ["enc_mmap", x] => .ok (some ⟨"mmap", out, okLine x⟩)
  | ["enc_tomb", x] =>
    match parseItems? parseStone? x with
    | some xs => .ok (some ⟨"tomb", out, okLine (showItems showStone (flattenStones xs))⟩)
    | none => .ok none
  | ["enc_samples", v, x] =>
    if v == "2" then .ok (some ⟨"samples", out, okLine x⟩)
    else match parseItems? parseSample? x with
      | some xs => .ok (some ⟨"samples", out, okLine (showItems showSample (xs.map fun s => { s with st := 0 }))⟩)
      | none => .ok none
  | [e, v, x] =>
    if e == "enc_hist" || e == "enc_fhist" || e == "enc_chist" || e == "enc_cfhist" then
      let fl := e == "enc_fhist" || e == "enc_cfhist"
      let kind := if fl then "fhist" else "hist"
      let split := e == "enc_hist" || e == "enc_fhist"
      match parseItems? (parseHist? fl) x with
      | none => .ok none
      | some xs =>
        let sh := showItems (showHist fl false)
        if split then
          match toks out with
          | [hx, left] =>
            if v == "2" then
              if left ≠ "-" then .error s!"violation split-leftover v2 left={left}"
              else .ok (some ⟨kind, hx, if xs.all histWF then okLine (sh xs) else none⟩)
            else
              let customs := xs.filter (·.h.isCustom)
              let rest := xs.filter (fun x => !x.h.isCustom)
              if left ≠ sh customs then .error s!"violation split-leftover v1 left={left} want={sh customs}"
              else if rest.isEmpty && !xs.isEmpty then
                -- all custom: the exponential record must be empty (callers skip it)
                if hx ≠ "-" then .error s!"violation split-nonempty-record hex={hx}" else .ok none
              else .ok (some ⟨kind, hx, if rest.all histWF then okLine (sh (rest.map noST)) else none⟩)
          | _ => .error "violation unparsable-enc-output"
        else
          .ok (some ⟨kind, out, if xs.all histWF then okLine (sh (if v == "2" then xs else xs.map noST)) else none⟩)
    else .ok none
  | _ => .ok none

def judge (ops outs : List String) : String :=
  let rec go (encs : List EncRec) (ops outs : List String) (k : Nat) : String :=
    match ops, outs with
    | op :: ops, out :: outs =>
      match toks op with
      | [o, hx] =>
        if o.startsWith "dec_" || o.startsWith "decu_" then
          let trusted := o.startsWith "dec_"
          let kind := if trusted then (o.drop 4).toString else (o.drop 5).toString
          if out = "panic" then
            -- the statement covers bytes the real ENCODER produced; a panic on crafted / damaged bytes is
            -- compared with the model (correspondence) but is not a violation of C14
            if encs.any (fun e => e.hex == hx) then
              s!"violation decoder-panic-on-encoder-output op={k} kind={kind} hex={hx}"
            else go encs ops outs (k + 1)
          else if !trusted then go encs ops outs (k + 1)
          else
            match encs.find? (fun e => e.kind == kind && e.hex == hx && e.expect.isSome) with
            | some e =>
              if some out = e.expect then go encs ops outs (k + 1)
              else s!"violation roundtrip op={k} kind={kind} hex={hx} got={out} want={e.expect.getD ""}"
            | none => go encs ops outs (k + 1)
        else
          match judgeEnc op out with
          | .error v => v ++ s!" op={k}"
          | .ok (some e) => go (e :: encs) ops outs (k + 1)
          | .ok none => go encs ops outs (k + 1)
      | _ =>
        match judgeEnc op out with
        | .error v => v ++ s!" op={k}"
        | .ok (some e) => go (e :: encs) ops outs (k + 1)
        | .ok none => go encs ops outs (k + 1)
    | _, _ => "ok"
  go [] ops outs 0

def suite : Suite := { name := "record", model := model, judge := judge }

end Prom.RecordSuite
