import PromModel.Tsdb.Postings
/-
  Suite `select` (property C16).

  ops:  `load <head|block> <series>…`            series = `name=value,name=value` (names sorted, ASCII)
        `select <0|1> <matcher>…`                 0/1 = sortSeries
        `lvals <hexname> <limit> <matcher>…`      limit 0 = none
        `lnames <limit> <matcher>…`
        matcher = `m:<hexname>:<eq|ne|re|nre>:<hexvalue>:<sm>`; `<sm>` = `-` (no set matches) or a
        comma-separated list of hex strings (`e` = the empty string) = Go's `Matcher.SetMatches()`.
  out:  `ok <n>` for load; `ok i,j,…` (indices of the loaded series, in the order returned) for select;
        `ok v,w,…` for lvals/lnames (`ok -` = empty); `err <class>`.

  Regex values are restricted to a small class that is executed exactly here: literals, alternation,
  grouping, `?`, `.*`, `.+`, concatenation (anchored, dot matches everything).
-/
namespace Prom.Postings

/-! ### The regex class -/

inductive Re
  | eps | chr (c : Char) | anyStar | anyPlus
  | alt (a b : Re) | cat (a b : Re) | opt (a : Re)
deriving Repr, Inhabited

def suffixes : List Char → List (List Char)
  | [] => [[]]
  | c :: cs => (c :: cs) :: suffixes cs

/-- All remainders after matching a prefix of the input. -/
def Re.run : Re → List Char → List (List Char)
  | .eps, s => [s]
  | .chr c, s => match s with
    | d :: t => if c = d then [t] else []
    | [] => []
  | .anyStar, s => suffixes s
  | .anyPlus, s => (suffixes s).drop 1
  | .alt a b, s => a.run s ++ b.run s
  | .cat a b, s => (a.run s).flatMap b.run
  | .opt a, s => s :: a.run s

def Re.matchStr (r : Re) (s : String) : Bool := (r.run s.toList).any List.isEmpty

def isLit (c : Char) : Bool := c.isAlphanum || c = '_'

def pOpts (a : Re) : List Char → Re × List Char
  | '?' :: r => pOpts (.opt a) r
  | r => (a, r)

-- (`mutual`/`end` are indented on purpose: tools/gen.py tracks namespaces by `^end`)
  mutual
def pAlt : Nat → List Char → Option (Re × List Char)
  | 0, _ => none
  | f + 1, cs => do
    let (a, r) ← pCat f cs
    match r with
    | '|' :: r' => do
      let (b, r'') ← pAlt f r'
      pure (.alt a b, r'')
    | _ => pure (a, r)
def pCat : Nat → List Char → Option (Re × List Char)
  | 0, _ => none
  | f + 1, cs =>
    match cs with
    | [] => some (.eps, [])
    | '|' :: _ => some (.eps, cs)
    | ')' :: _ => some (.eps, cs)
    | _ => do
      let (a, r) ← pAtom f cs
      let (a, r) := pOpts a r
      let (b, r') ← pCat f r
      pure (.cat a b, r')
def pAtom : Nat → List Char → Option (Re × List Char)
  | 0, _ => none
  | _, [] => none
  | f + 1, '(' :: r => do
    let (a, r') ← pAlt f r
    match r' with
    | ')' :: r'' => some (a, r'')
    | _ => none
  | _ + 1, '.' :: '*' :: r => some (.anyStar, r)
  | _ + 1, '.' :: '+' :: r => some (.anyPlus, r)
  | _ + 1, c :: r => if isLit c then some (.chr c, r) else none
  end

def parseRe? (s : String) : Option Re :=
  match pAlt (3 * s.length + 3) s.toList with
  | some (r, []) => some r
  | _ => none

/-! ### Parsing ops -/

def parseSeries? (tok : String) : Option (List (String × String)) :=
  (tok.splitOn ",").mapM fun kv =>
    match kv.splitOn "=" with
    | [k, v] => some (k, v)
    | _ => none

def parseType? : String → Option MatchType
  | "eq" => some .eq | "ne" => some .ne | "re" => some .re | "nre" => some .nre | _ => none

def parseSm? (s : String) : Option (List String) :=
  if s = "-" then some [] else
  (s.splitOn ",").mapM fun x => if x = "e" then some "" else hexDec? x

def parseMatcher? (tok : String) : Option Matcher :=
  match tok.splitOn ":" with
  | ["m", n, t, v, sm] => do
    let name ← hexDec? n
    let ty ← parseType? t
    let value ← hexDec? v
    let sms ← parseSm? sm
    match ty with
    | .eq | .ne => pure { name, type := ty, value, pred := fun s => s == value, setMatches := [] }
    | _ => do
      let re ← parseRe? value
      pure { name, type := ty, value, pred := re.matchStr, setMatches := sms }
  | _ => none

def showStrs (xs : List String) : String := if xs.isEmpty then "ok -" else "ok " ++ ",".intercalate xs

def showIdx (xs : List Nat) : String := if xs.isEmpty then "ok -" else "ok " ++ ",".intercalate (xs.map toString)

def parseStrs? (out : String) : Option (List String) :=
  match toks out with
  | ["ok", "-"] => some []
  | ["ok", s] => some (s.splitOn ",")
  | _ => none

structure St where
  lsets : List (List (String × String)) := []
  ix : Index := { series := [], lvs := fun _ => [] }

def idxOf (st : St) (ls : List (String × String)) : Nat := (st.lsets.findIdx? (· == ls)).getD 9999

def stepModel (st : St) (line : String) : St × String :=
  match toks line with
  | "load" :: kind :: ss =>
    match ss.mapM parseSeries? with
    | none => (st, "bad-op")
    | some lsets =>
      let ix := if kind = "block" then mkBlock lsets else mkHead lsets
      ({ lsets, ix }, s!"ok {lsets.length}")
  | "select" :: srt :: ms =>
    match ms.mapM parseMatcher? with
    | none => (st, "bad-op")
    | some ms =>
      match select st.ix (srt = "1") ms with
      | .ok ss => (st, showIdx (ss.map fun s => idxOf st s.labels))
      | .error _ => (st, "err unexpected-all-postings")
  | "lvals" :: n :: lim :: ms =>
    match hexDec? n, lim.toNat?, ms.mapM parseMatcher? with
    | some n, some lim, some ms =>
      match labelValues st.ix n lim ms with
      | .ok vs => (st, showStrs vs)
      | .error _ => (st, "err unexpected-all-postings")
    | _, _, _ => (st, "bad-op")
  | "lnames" :: lim :: ms =>
    match lim.toNat?, ms.mapM parseMatcher? with
    | some lim, some ms =>
      match labelNames st.ix lim ms with
      | .ok vs => (st, showStrs vs)
      | .error _ => (st, "err unexpected-all-postings")
    | _, _ => (st, "bad-op")
  | _ => (st, "bad-op")

def model (ops : List String) : List String :=
  let rec go (st : St) : List String → List String
    | [] => []
    | l :: rest => let (st', o) := stepModel st l; o :: go st' rest
  go {} ops

/-! ### The property statement as an oracle (independent of the postings machinery) -/

/-- a series satisfies all matchers, an absent label counting as "" -/
def sat (ms : List Matcher) (ls : List (String × String)) : Bool :=
  ms.all fun m => m.matches ((ls.lookup m.name).getD "")

def strictlySorted : List String → Bool
  | a :: b :: rest => decide (a < b) && strictlySorted (b :: rest)
  | _ => true

def labelsSorted : List (List (String × String)) → Bool
  | a :: b :: rest => labelsLe a b && labelsSorted (b :: rest)
  | _ => true

/-- sorted, duplicate-free, only expected entries, all of them (or `min limit |expected|` of them) -/
def judgeStrs (what : String) (k : Nat) (limit : Nat) (expected got : List String) : Option String :=
  if !strictlySorted got then some s!"violation {what}-not-sorted-unique op={k}"
  else match got.find? (fun v => !expected.contains v) with
  | some v => some s!"violation {what}-unsound op={k} extra={v}"
  | none =>
    if limit = 0 then
      match expected.find? (fun v => !got.contains v) with
      | some v => some s!"violation {what}-incomplete op={k} missing={v}"
      | none => none
    else if got.length ≠ min limit (expected.eraseDups).length then
      some s!"violation {what}-limit-size op={k} limit={limit} got={got.length} unlimited={(expected.eraseDups).length}"
    else none

def judge (ops outs : List String) : String :=
  let rec go (lsets : List (List (String × String))) (ops outs : List String) (k : Nat) : String :=
    match ops, outs with
    | op :: ops, out :: outs =>
      match toks op with
      | "load" :: _ :: ss =>
        match ss.mapM parseSeries? with
        | some l =>
          if out = s!"ok {l.length}" then go l ops outs (k + 1)
          else s!"violation load-error op={k} out={out}"
        | none => "ok"
      | "select" :: srt :: mtoks =>
        match mtoks.mapM parseMatcher? with
        | none => "ok"
        | some ms =>
          if ms.isEmpty || ms.any (fun m => m.name = "") then go lsets ops outs (k + 1) else
          match toks out with
          | ["ok", s] =>
            match (if s = "-" then some [] else (s.splitOn ",").mapM String.toNat?) with
            | none => s!"violation unparsable op={k}"
            | some got =>
              let n := lsets.length
              let expected := (List.range n).filter fun i => sat ms (lsets[i]?.getD [])
              if got.any (· ≥ n) then s!"violation select-unknown-series op={k}"
              else if got.eraseDups.length ≠ got.length then s!"violation select-duplicate op={k}"
              else match got.find? (fun i => !expected.contains i) with
              | some i => s!"violation select-unsound op={k} series={i}"
              | none =>
                match expected.find? (fun i => !got.contains i) with
                | some i => s!"violation select-incomplete op={k} series={i}"
                | none =>
                  if srt = "1" && !labelsSorted (got.map fun i => lsets[i]?.getD []) then
                    s!"violation select-not-sorted op={k}"
                  else go lsets ops outs (k + 1)
          | _ => s!"violation select-error op={k} out={out}"
      | "lvals" :: n :: lim :: mtoks =>
        match hexDec? n, lim.toNat?, mtoks.mapM parseMatcher? with
        | some name, some lim, some ms =>
          if ms.any (fun m => m.name = "") then go lsets ops outs (k + 1) else
          match parseStrs? out with
          | none => s!"violation lvals-error op={k} out={out}"
          | some got =>
            let expected := (lsets.filter (sat ms)).filterMap fun ls => ls.lookup name
            match judgeStrs "lvals" k lim expected got with
            | some v => v
            | none => go lsets ops outs (k + 1)
        | _, _, _ => "ok"
      | "lnames" :: lim :: mtoks =>
        match lim.toNat?, mtoks.mapM parseMatcher? with
        | some lim, some ms =>
          if ms.any (fun m => m.name = "") then go lsets ops outs (k + 1) else
          match parseStrs? out with
          | none => s!"violation lnames-error op={k} out={out}"
          | some got =>
            let expected := (lsets.filter (sat ms)).flatMap fun ls => ls.map (·.1)
            match judgeStrs "lnames" k lim expected got with
            | some v => v
            | none => go lsets ops outs (k + 1)
        | _, _ => "ok"
      | _ => "ok"
    | _, _ => "ok"
  go [] ops outs 0

def suite : Suite := { name := "select", model := model, judge := judge }

end Prom.Postings
