import PromModel.Tsdb.Postings
/-
  Suite `select` (property C16).

  ops:  `load <head|block> <series>…`                  series = `name=value,name=value@t` (names sorted, ASCII;
                                                         one sample at time t)
        `select <0|1> <mint> <maxt> <matcher>…`         0/1 = sortSeries; the querier's time range
        `lvals <hexname> <limit> <mint> <maxt> <matcher>…`   limit 0 = none
        `lnames <limit> <mint> <maxt> <matcher>…`
        matcher = `m:<hexname>:<eq|ne|re|nre>:<hexvalue>:<sm>`; `<sm>` = `-` (no set matches) or a
        comma-separated list of hex strings (`e` = the empty string) = Go's `Matcher.SetMatches()`.
  out:  `ok <n>` for load; `ok i,j,…` (indices of the loaded series, in the order returned) for select;
        `ok v,w,…` for lvals/lnames (`ok -` = empty); `err <class>`.

  Regex values are restricted to a small class that is executed exactly here: literals, alternation,
  grouping, `?`, `.*`, `.+`, concatenation (anchored, dot matches everything).
-/
namespace Prom.Postings

/-! ### The regex class -/

inductive Re
  | eps | chr (c : Char) | anyStar | anyPlus
  | alt (a b : Re) | cat (a b : Re) | opt (a : Re)
deriving Repr, Inhabited

def suffixes : List Char → List (List Char)
  | [] => [[]]
  | c :: cs => (c :: cs) :: suffixes cs

/-- All remainders after matching a prefix of the input. -/
def Re.run : Re → List Char → List (List Char)
  | .eps, s => [s]
  | .chr c, s => match s with
    | d :: t => if c = d then [t] else []
    | [] => []
  | .anyStar, s => suffixes s
  | .anyPlus, s => (suffixes s).drop 1
  | .alt a b, s => a.run s ++ b.run s
  | .cat a b, s => (a.run s).flatMap b.run
  | .opt a, s => s :: a.run s

def Re.matchStr (r : Re) (s : String) : Bool := (r.run s.toList).any List.isEmpty

def isLit (c : Char) : Bool := c.isAlphanum || c = '_'

def pOpts (a : Re) : List Char → Re × List Char
  | '?' :: r => pOpts (.opt a) r
  | r => (a, r)

-- (`mutual`/`end` are indented on purpose: tools/gen.py tracks namespaces by `^end`)
  mutual
def pAlt : Nat → List Char → Option (Re × List Char)
  | 0, _ => none
  | f + 1, cs => do
    let (a, r) ← pCat f cs
    match r with
    | '|' :: r' => do
      let (b, r'') ← pAlt f r'
      pure (.alt a b, r'')
    | _ => pure (a, r)
def pCat : Nat → List Char → Option (Re × List Char)
  | 0, _ => none
  | f + 1, cs =>
    match cs with
    | [] => some (.eps, [])
    | '|' :: _ => some (.eps, cs)
    | ')' :: _ => some (.eps, cs)
    | _ => do
      let (a, r) ← pAtom f cs
      let (a, r) := pOpts a r
      let (b, r') ← pCat f r
      pure (.cat a b, r')
def pAtom : Nat → List Char → Option (Re × List Char)
  | 0, _ => none
  | _, [] => none
  | f + 1, '(' :: r => do
    let (a, r') ← pAlt f r
    match r' with
    | ')' :: r'' => some (a, r'')
    | _ => none
  | _ + 1, '.' :: '*' :: r => some (.anyStar, r)
  | _ + 1, '.' :: '+' :: r => some (.anyPlus, r)
  | _ + 1, c :: r => if isLit c then some (.chr c, r) else none
  end

def parseRe? (s : String) : Option Re :=
  match pAlt (3 * s.length + 3) s.toList with
  | some (r, []) => some r
  | _ => none

/-! ### Parsing ops -/

def parseLabels? (tok : String) : Option (List (String × String)) :=
  (tok.splitOn ",").mapM fun kv =>
    match kv.splitOn "=" with
    | [k, v] => some (k, v)
    | _ => none

/-- `labels@t` (time defaults to 1000) -/
def parseSeriesT? (tok : String) : Option (List (String × String) × Int) :=
  match tok.splitOn "@" with
  | [l] => do pure (← parseLabels? l, 1000)
  | [l, t] => do pure (← parseLabels? l, ← t.toInt?)
  | _ => none

def parseSeries? (tok : String) : Option (List (String × String)) := (parseSeriesT? tok).map (·.1)

def parseType? : String → Option MatchType
  | "eq" => some .eq | "ne" => some .ne | "re" => some .re | "nre" => some .nre | _ => none

def parseSm? (s : String) : Option (List String) :=
  if s = "-" then some [] else
  (s.splitOn ",").mapM fun x => if x = "e" then some "" else hexDec? x

def parseMatcher? (tok : String) : Option Matcher :=
  match tok.splitOn ":" with
  | ["m", n, t, v, sm] => do
    let name ← hexDec? n
    let ty ← parseType? t
    let value ← hexDec? v
    let sms ← parseSm? sm
    match ty with
    | .eq | .ne => pure { name, type := ty, value, pred := fun s => s == value, setMatches := [] }
    | _ => do
      let re ← parseRe? value
      pure { name, type := ty, value, pred := re.matchStr, setMatches := sms }
  | _ => none

def showStrs (xs : List String) : String := if xs.isEmpty then "ok -" else "ok " ++ ",".intercalate xs

def showIdx (xs : List Nat) : String := if xs.isEmpty then "ok -" else "ok " ++ ",".intercalate (xs.map toString)

def parseStrs? (out : String) : Option (List String) :=
  match toks out with
  | ["ok", "-"] => some []
  | ["ok", s] => some (s.splitOn ",")
  | _ => none

structure St where
  lsets : List (List (String × String)) := []
  times : List Int := []
  block : Bool := false
  ix : Index := { series := [], lvs := fun _ => [] }

def timeOf (lsets : List (List (String × String))) (times : List Int) (ls : List (String × String)) : Int :=
  match lsets.findIdx? (· == ls) with
  | some i => times[i]?.getD 0
  | none => 0

/-- `headIndexReader.LabelValues/LabelNames`: nothing if the querier's range misses the head's range
    (block index readers do not look at the range at all). -/
def St.labelQueryEmpty (st : St) (mint maxt : Int) : Bool :=
  !st.block && !st.times.isEmpty &&
    (decide (maxt < st.times.foldl min (st.times.headD 0)) || decide (mint > st.times.foldl max (st.times.headD 0)))

def idxOf (st : St) (ls : List (String × String)) : Nat := (st.lsets.findIdx? (· == ls)).getD 9999

def stepModel (st : St) (line : String) : St × String :=
  match toks line with
  | "load" :: kind :: ss =>
    match ss.mapM parseSeriesT? with
    | none => (st, "bad-op")
    | some sts =>
      let lsets := sts.map (·.1)
      let ix := if kind = "block" then mkBlock lsets else mkHead lsets
      ({ lsets, times := sts.map (·.2), block := kind = "block", ix }, s!"ok {lsets.length}")
  | "select" :: srt :: mint :: maxt :: ms =>
    match mint.toInt?, maxt.toInt?, ms.mapM parseMatcher? with
    | some mint, some maxt, some ms =>
      match select st.ix (srt = "1") ms with
      | .ok ss =>
        -- `blockBaseSeriesSet.Next` skips series without a chunk overlapping [mint, maxt]
        let ss := ss.filter fun s => let t := timeOf st.lsets st.times s.labels; decide (mint ≤ t ∧ t ≤ maxt)
        (st, showIdx (ss.map fun s => idxOf st s.labels))
      | .error _ => (st, "err unexpected-all-postings")
    | _, _, _ => (st, "bad-op")
  | "lvals" :: n :: lim :: mint :: maxt :: ms =>
    match hexDec? n, lim.toNat?, mint.toInt?, maxt.toInt?, ms.mapM parseMatcher? with
    | some n, some lim, some mint, some maxt, some ms =>
      if st.labelQueryEmpty mint maxt then (st, "ok -") else
      match labelValues st.ix n lim ms with
      | .ok vs => (st, showStrs vs)
      | .error _ => (st, "err unexpected-all-postings")
    | _, _, _, _, _ => (st, "bad-op")
  | "lnames" :: lim :: mint :: maxt :: ms =>
    match lim.toNat?, mint.toInt?, maxt.toInt?, ms.mapM parseMatcher? with
    | some lim, some mint, some maxt, some ms =>
      if st.labelQueryEmpty mint maxt then (st, "ok -") else
      match labelNames st.ix lim ms with
      | .ok vs => (st, showStrs vs)
      | .error _ => (st, "err unexpected-all-postings")
    | _, _, _, _ => (st, "bad-op")
  | _ => (st, "bad-op")

def model (ops : List String) : List String :=
  let rec go (st : St) : List String → List String
    | [] => []
    | l :: rest => let (st', o) := stepModel st l; o :: go st' rest
  go {} ops

/-! ### The property statement as an oracle (independent of the postings machinery) -/

/-- a series satisfies all matchers, an absent label counting as "" -/
def sat (ms : List Matcher) (ls : List (String × String)) : Bool :=
  ms.all fun m => m.matches ((ls.lookup m.name).getD "")

def strictlySorted : List String → Bool
  | a :: b :: rest => decide (a < b) && strictlySorted (b :: rest)
  | _ => true

def labelsSorted : List (List (String × String)) → Bool
  | a :: b :: rest => labelsLe a b && labelsSorted (b :: rest)
  | _ => true

/-- sorted, duplicate-free, only entries of stored matching series (`stored`), every entry of a matching
    series with data in the queried range (`inRange ⊆ stored`); with a limit N: at most N entries and at
    least `min N |inRange|` (= exactly `min N |unlimited|` whenever the range covers all data). -/
def judgeStrs (what : String) (k : Nat) (limit : Nat) (stored inRange got : List String) : Option String :=
  if !strictlySorted got then some s!"violation {what}-not-sorted-unique op={k}"
  else match got.find? (fun v => !stored.contains v) with
  | some v => some s!"violation {what}-unsound op={k} extra={v}"
  | none =>
    if limit = 0 then
      match inRange.find? (fun v => !got.contains v) with
      | some v => some s!"violation {what}-incomplete op={k} missing={v}"
      | none => none
    else if got.length > limit ∨ got.length < min limit (inRange.eraseDups).length then
      some s!"violation {what}-limit-size op={k} limit={limit} got={got.length} unlimited={(inRange.eraseDups).length}"
    else none

def judge (ops outs : List String) : String :=
  let rec go (lsets : List (List (String × String))) (times : List Int) (ops outs : List String) (k : Nat) : String :=
    match ops, outs with
    | op :: ops, out :: outs =>
      match toks op with
      | "load" :: _ :: ss =>
        match ss.mapM parseSeriesT? with
        | some l =>
          if out = s!"ok {l.length}" then go (l.map (·.1)) (l.map (·.2)) ops outs (k + 1)
          else s!"violation load-error op={k} out={out}"
        | none => "ok"
      | "select" :: srt :: mint :: maxt :: mtoks =>
        match mint.toInt?, maxt.toInt?, mtoks.mapM parseMatcher? with
        | some mint, some maxt, some ms =>
          if ms.isEmpty || ms.any (fun m => m.name = "") then go lsets times ops outs (k + 1) else
          match toks out with
          | ["ok", s] =>
            match (if s = "-" then some [] else (s.splitOn ",").mapM String.toNat?) with
            | none => s!"violation unparsable op={k}"
            | some got =>
              let n := lsets.length
              let expected := (List.range n).filter fun i =>
                sat ms (lsets[i]?.getD []) && decide (mint ≤ times[i]?.getD 0 ∧ times[i]?.getD 0 ≤ maxt)
              if got.any (· ≥ n) then s!"violation select-unknown-series op={k}"
              else if got.eraseDups.length ≠ got.length then s!"violation select-duplicate op={k}"
              else match got.find? (fun i => !expected.contains i) with
              | some i => s!"violation select-unsound op={k} series={i}"
              | none =>
                match expected.find? (fun i => !got.contains i) with
                | some i => s!"violation select-incomplete op={k} series={i}"
                | none =>
                  if srt = "1" && !labelsSorted (got.map fun i => lsets[i]?.getD []) then
                    s!"violation select-not-sorted op={k}"
                  else go lsets times ops outs (k + 1)
          | _ => s!"violation select-error op={k} out={out}"
        | _, _, _ => "ok"
      | "lvals" :: n :: lim :: mint :: maxt :: mtoks =>
        match hexDec? n, lim.toNat?, mint.toInt?, maxt.toInt?, mtoks.mapM parseMatcher? with
        | some name, some lim, some mint, some maxt, some ms =>
          if ms.any (fun m => m.name = "") then go lsets times ops outs (k + 1) else
          match parseStrs? out with
          | none => s!"violation lvals-error op={k} out={out}"
          | some got =>
            let stored := lsets.filter (sat ms)
            let inRange := (lsets.zip times).filterMap fun (ls, t) =>
              if sat ms ls && decide (mint ≤ t ∧ t ≤ maxt) then some ls else none
            match judgeStrs "lvals" k lim (stored.filterMap fun ls => ls.lookup name)
                (inRange.filterMap fun ls => ls.lookup name) got with
            | some v => v
            | none => go lsets times ops outs (k + 1)
        | _, _, _, _, _ => "ok"
      | "lnames" :: lim :: mint :: maxt :: mtoks =>
        match lim.toNat?, mint.toInt?, maxt.toInt?, mtoks.mapM parseMatcher? with
        | some lim, some mint, some maxt, some ms =>
          if ms.any (fun m => m.name = "") then go lsets times ops outs (k + 1) else
          match parseStrs? out with
          | none => s!"violation lnames-error op={k} out={out}"
          | some got =>
            let stored := lsets.filter (sat ms)
            let inRange := (lsets.zip times).filterMap fun (ls, t) =>
              if sat ms ls && decide (mint ≤ t ∧ t ≤ maxt) then some ls else none
            match judgeStrs "lnames" k lim (stored.flatMap fun ls => ls.map (·.1))
                (inRange.flatMap fun ls => ls.map (·.1)) got with
            | some v => v
            | none => go lsets times ops outs (k + 1)
        | _, _, _, _ => "ok"
      | _ => "ok"
    | _, _ => "ok"
  go [] [] ops outs 0

def suite : Suite := { name := "select", model := model, judge := judge }

end Prom.Postings
