import PromModel.Remote.WriteHandler
/-
  Suite `rwrecv` (property C41).  Op language (see harness/suites/rwrecv/main.go):

    cfg <oooWin> <chunkRange> <flags>      flags: 1 = ingestSTZeroSample, 2 = enableTypeAndUnitLabels      -> ok
    sym <x<hex>,…|->                       symbols table of the v2 request under construction           -> ok
    ts2 <ref,…|-> <mtype> <helpRef> <unitRef>     starts a v2 time series                               -> ok
    ts1 <x<name>:x<value>,…|->             starts a v1 time series                                      -> ok
    s <t> <bits16> <st>                    float sample of the current series                           -> ok|noseries
    h <t> <st> <histtoken>                 native histogram of the current series                       -> ok|noseries
    e2 <ref,…|-> <t> <bits16> <hash>       v2 exemplar (hash = Labels.Hash() of its decoded labels)     -> ok|noseries
    e1 <labels|-> <t> <bits16> <hash>      v1 exemplar                                                  -> ok|noseries
    send <v1|v2>                           POST the request to the real handler, then dump the storage
        -> status=<code> w=<s>,<h>,<e>|- err=<class:n+…|-> win=<minValid>,<maxt>|uninit dump=<…|-> ex=<…|->
           (win = appendable window of the head *before* the request; dump/ex = everything stored after)
    symz <x<hex>:x<hex>,…|->               T2: SymbolizeLabels on a fresh table -> <x<hex>,…> <ref,…|->
    desym <x<hex>,…|-> <ref,…|->           T2: desymbolizeLabels -> ok <labels|-> | err
    d2c <int,…|->                          T2: deltasToCounts   -> <bits16,…|->
    hval <histtoken>                       T2: Validate         -> ok | invalid

  `model` = the transcribed handler on the C02 appender.  `judge` = the statement of C41, evaluated on the
  implementation's outputs (see the section "judge").
-/
namespace Prom.RW.Suite
open Prom Prom.Admit Prom.RW

/-! ### parsing -/

def parseSym? (s : String) : Option Sym :=
  if s.startsWith "x" then
    let h := (s.drop 1).toString
    if h.all (fun c => ('0' ≤ c ∧ c ≤ '9') ∨ ('a' ≤ c ∧ c ≤ 'f')) ∧ h.length % 2 = 0 then some h else none
  else none

def parseSyms? (s : String) : Option (List Sym) := parseList? parseSym? s

def parseLabel? (s : String) : Option (Sym × Sym) :=
  match s.splitOn ":" with
  | [a, b] => do let n ← parseSym? a; let v ← parseSym? b; pure (n, v)
  | _ => none

def parseLabels? (s : String) : Option Labels := parseList? parseLabel? s

def parseRefs? (s : String) : Option (List Nat) := parseList? String.toNat? s

/-- a time series under construction (either protocol) -/
structure G where
  refs : List Nat := []
  mtype : Nat := 0
  helpRef : Nat := 0
  unitRef : Nat := 0
  labels : Labels := []
  samples : List Smp := []
  hists : List HSmp := []
  exs2 : List (List Nat × Int × Nat × Nat) := []
  exs1 : List (Labels × Int × Nat × Nat) := []
deriving Repr, Inhabited

def G.wire2 (g : G) : Wire2 :=
  { refs := g.refs, mtype := g.mtype, helpRef := g.helpRef, unitRef := g.unitRef,
    samples := g.samples, hists := g.hists, exs := g.exs2 }
def G.wire1 (g : G) : Wire1 :=
  { labels := g.labels, samples := g.samples, hists := g.hists, exs := g.exs1 }

/-- one parsed op -/
inductive Op
  | cfg (oooWin chunkRange : Int) (flags : Nat)
  | sym (l : List Sym)
  | ts (g : G)
  | s (x : Smp)
  | h (x : HSmp)
  | e2 (refs : List Nat) (t : Int) (v hash : Nat)
  | e1 (ls : Labels) (t : Int) (v hash : Nat)
  | send (v2 : Bool)
  | symz (ls : Labels)
  | desym (syms : List Sym) (refs : List Nat)
  | d2c (l : List Int)
  | hval (h : Hist)
  | bad
deriving Repr

def parseOp (line : String) : Op :=
  match toks line with
  | ["cfg", w, cr, f] =>
    match w.toInt?, cr.toInt?, f.toNat? with
    | some w, some cr, some f => .cfg w cr f
    | _, _, _ => .bad
  | ["sym", l] => match parseSyms? l with | some l => .sym l | none => .bad
  | ["ts2", refs, mt, hr, ur] =>
    match parseRefs? refs, mt.toNat?, hr.toNat?, ur.toNat? with
    | some r, some mt, some hr, some ur => .ts { refs := r, mtype := mt, helpRef := hr, unitRef := ur }
    | _, _, _, _ => .bad
  | ["ts1", ls] => match parseLabels? ls with | some l => .ts { labels := l } | none => .bad
  | ["s", t, v, st] =>
    match t.toInt?, natOfHex? v, st.toInt? with
    | some t, some v, some st => .s ⟨t, wireF64 v, st⟩
    | _, _, _ => .bad
  | ["h", t, st, tok] =>
    match t.toInt?, st.toInt?, Hist.parse? tok with
    | some t, some st, some h => .h ⟨t, st, h.nf, h⟩
    | _, _, _ => .bad
  | ["e2", refs, t, v, hash] =>
    match parseRefs? refs, t.toInt?, natOfHex? v, hash.toNat? with
    | some r, some t, some v, some hs => .e2 r t (wireF64 v) hs
    | _, _, _, _ => .bad
  | ["e1", ls, t, v, hash] =>
    match parseLabels? ls, t.toInt?, natOfHex? v, hash.toNat? with
    | some l, some t, some v, some hs => .e1 l t (wireF64 v) hs
    | _, _, _, _ => .bad
  | ["send", "v1"] => .send false
  | ["send", "v2"] => .send true
  | ["symz", ls] => match parseLabels? ls with | some l => .symz l | none => .bad
  | ["desym", syms, refs] =>
    match parseSyms? syms, parseRefs? refs with
    | some s, some r => .desym s r
    | _, _ => .bad
  | ["d2c", l] => match parseList? String.toInt? l with | some l => .d2c l | none => .bad
  | ["hval", tok] => match Hist.parse? tok with | some h => .hval h | none => .bad
  | _ => .bad

/-! ### rendering -/

def showSyms (l : List Sym) : String := showList (fun s => "x" ++ s) l
def showLabels (l : Labels) : String := showList (fun p => "x" ++ p.1 ++ ":x" ++ p.2) l
def showRefs (l : List Nat) : String := showList toString l

def ErrC.name : ErrC → String
  | .symRef => "symref" | .metaRef => "metaref" | .badLabels => "badlabels" | .dupLabel => "duplabel"
  | .empty => "empty" | .oob => "oob" | .tooOld => "tooold" | .ooo => "ooo" | .dup => "dup"
  | .histInvalid => "histinvalid" | .exRef => "exref" | .oooEx => "oooex" | .internal => "internal"

def allErrC : List ErrC :=
  [.symRef, .metaRef, .badLabels, .dupLabel, .empty, .oob, .tooOld, .ooo, .dup, .histInvalid, .exRef,
   .oooEx, .internal]

def showErrs (es : List ErrC) : String :=
  let parts := allErrC.filterMap fun c =>
    let n := (es.filter (· == c)).length
    if n = 0 then none else some s!"{ErrC.name c}:{n}"
  if parts.isEmpty then "-" else "+".intercalate parts

/-- a stored point, rendered -/
def showVal (hists : List String) (x : Sample) : String :=
  match x.kind with
  | .f => "V" ++ hexOfNat x.v 16
  | _ => hists.getD (x.v - 1) "?"

def insByT (p : Int × String) : List (Int × String) → List (Int × String)
  | [] => [p]
  | q :: qs => if p.1 < q.1 then p :: q :: qs else q :: insByT p qs

def insByKey (p : String × String) : List (String × String) → List (String × String)
  | [] => [p]
  | q :: qs => if p.1 < q.1 then p :: q :: qs else q :: insByKey p qs

/-- the merged (in-order + out-of-order) content of a series as the querier shows it -/
def seriesPoints (hists : List String) (s : Series) : List (Int × String) :=
  let io := s.inorder.reverse
  let oo := s.oooAll.filter fun x => !(io.any (·.t == x.t))
  ((io ++ oo).map fun x => (x.t, showVal hists x)).foldl (fun acc p => insByT p acc) []

def showDump (hists : List String) (st : Store) : String :=
  let rows := st.filterMap fun (k, s) =>
    let pts := seriesPoints hists s
    if pts.isEmpty then none
    else some (k, k ++ "@" ++ "/".intercalate (pts.map fun p => s!"{p.1}~{p.2}"))
  let sorted := rows.foldl (fun acc p => insByKey p acc) []
  if sorted.isEmpty then "-" else ";".intercalate (sorted.map (·.2))

def showExDump (st : Store) (ring : Exemplars.Ring) : String :=
  let rows := (st.zipIdx).filterMap fun ((k, _), i) =>
    match ring.index i with
    | none => none
    | some ie =>
      let xs := Exemplars.walk ring minI64 (-minI64) (ring.exs.length + 1) (ring.getO ie.oldest)
      if xs.isEmpty then none
      else some (k, k ++ "@" ++ "/".intercalate (xs.map fun e => s!"{e.ts}~{hexOfNat e.val 16}~{e.lbl}"))
  let sorted := rows.foldl (fun acc p => insByKey p acc) []
  if sorted.isEmpty then "-" else ";".intercalate (sorted.map (·.2))

/-! ### model -/

structure MState where
  cfg : Bool := false
  fl : Flags := {}
  head : Head := {}
  ring : Exemplars.Ring := Exemplars.Ring.new 0 0
  hists : List String := []
  symbols : List Sym := []
  cur : List G := []             -- newest first

def exCap : Int := 50

def modCur (st : MState) (f : G → G) : MState × String :=
  match st.cur with
  | [] => (st, "noseries")
  | g :: rest => ({ st with cur := f g :: rest }, "ok")

def showWin (h : Head) : String :=
  if h.initialized then s!"{h.appMinValid},{h.maxTime}" else "uninit"

def decodeReq (st : MState) (v2 : Bool) : List SeriesD :=
  st.cur.reverse.map fun g => if v2 then decode2 st.fl st.symbols g.wire2 else decode1 g.wire1

def stepOp (st : MState) (op : Op) : MState × String :=
  match op with
  | .bad => (st, "bad-op")
  | .cfg w cr f =>
    if st.cfg then (st, "bad-op")
    else ({ st with cfg := true, fl := { ingestST := f % 2 = 1, typeUnit := (f / 2) % 2 = 1 },
                    head := { oooWin := w, chunkRange := cr, capMax := 32 },
                    ring := Exemplars.Ring.new exCap w }, "ok")
  | .symz ls =>
    let r := (SymTab.new "").symbolizeLabels ls
    (st, s!"{showSyms r.1.strings} {showRefs r.2}")
  | .desym syms refs =>
    (st, match desymbolize syms refs with | .ok l => s!"ok {showLabels l}" | .error _ => "err")
  | .d2c l => (st, showList (fun (n : Int) => hexOfNat (Float.ofInt n).toBits.toNat 16) (deltasToCounts l 0))
  | .hval h => (st, if h.validate.isSome then "invalid" else "ok")
  | op =>
    if !st.cfg then (st, "bad-op") else
    match op with
    | .sym l => ({ st with symbols := l }, "ok")
    | .ts g => ({ st with cur := g :: st.cur }, "ok")
    | .s x => modCur st fun g => { g with samples := g.samples ++ [x] }
    | .h x => modCur st fun g => { g with hists := g.hists ++ [x] }
    | .e2 r t v hs => modCur st fun g => { g with exs2 := g.exs2 ++ [(r, t, v, hs)] }
    | .e1 l t v hs => modCur st fun g => { g with exs1 := g.exs1 ++ [(l, t, v, hs)] }
    | .send v2 =>
      let req := decodeReq st v2
      let win := showWin st.head
      let resp := if v2 then writeV2 st.fl st.head st.ring st.hists req else writeV1 st.head st.ring st.hists req
      let w := if v2 then s!"{resp.samples},{resp.histograms},{resp.exemplars}" else "-"
      ({ st with head := resp.head, ring := resp.ring, hists := resp.hists, symbols := [], cur := [] },
       s!"status={resp.status} w={w} err={showErrs resp.errs} win={win} dump={showDump resp.hists resp.head.store} ex={showExDump resp.head.store resp.ring}")
    | _ => (st, "bad-op")

def runFrom (st : MState) : List String → List String
  | [] => []
  | l :: rest => let r := stepOp st (parseOp l); r.2 :: runFrom r.1 rest

def model (ops : List String) : List String := runFrom {} ops

/-! ### judge: the statement of C41 on the implementation's outputs

  Independent of `coreV2/coreV1` (the handler model).  It shares with the model only the decoding layer
  (`decode2/decode1`: symbol table, sort, label validity — the subject of the codec theorems) and
  `Hist.validate`.  What it demands of one `send`:

  * `lost-data`       nothing stored before the request disappears or changes;
  * `phantom`         every new point belongs to a *valid* series of the request and is one of its samples
                      that the documented admission rule (C02 `appendable_table`, evaluated against the
                      storage *before* the request and the window the head reported) accepts — or the
                      synthetic zero sample of a start timestamp; an invalid series contributes nothing;
  * `not-atomic`      a request that must fail as a whole (v1: first rejected sample; v2: a non-classified
                      appender error) stores nothing and reports zero counts;
  * `missing-sample`  an accepted sample that is newer than everything before it in the request for its
                      series, and does not collide with a stored timestamp, is stored exactly;
  * `status-class`    204 / 400 / 500 as documented;
  * `count-ne-admitted`  v2 headers = number of samples / histograms the admission rule accepts;
  * `written-ne-stored`  headers (v1: the acknowledged samples) = what became stored (new points, or
                      bit-identical re-sends of stored points).  `kind=commit-time-drop` iff every
                      unaccounted sample is preceded *in the same request and series* by a sample with an
                      equal or newer timestamp (finding F9); `kind=ooo-ts-collision` iff the remaining ones
                      hit a stored timestamp through the out-of-order window; otherwise `kind=unexplained`.
-/

structure Pt where
  t : Int
  val : String
deriving DecidableEq, Repr, Inhabited

abbrev Dump := List (String × List Pt)

def parsePt? (s : String) : Option Pt :=
  match s.splitOn "~" with
  | t :: rest@(_ :: _) => do let t ← t.toInt?; pure ⟨t, "~".intercalate rest⟩
  | _ => none

def parseDump? (s : String) : Option Dump :=
  if s = "-" then some [] else
  (s.splitOn ";").mapM fun row =>
    match row.splitOn "@" with
    | [k, pts] => do let l ← (pts.splitOn "/").mapM parsePt?; pure (k, l)
    | _ => none

def Dump.get (d : Dump) (k : String) : List Pt :=
  match d.find? (·.1 = k) with | some p => p.2 | none => []

structure ImplOut where
  status : Nat
  w : Option (Nat × Nat × Nat)
  win : Option (Int × Int)
  post : Dump
  postEx : Dump

def field? (toks : List String) (name : String) : Option String :=
  toks.findSome? fun t => if t.startsWith (name ++ "=") then some (t.drop (name.length + 1)).toString else none

def parseOut? (line : String) : Option ImplOut := do
  let tk := toks line
  let status ← (← field? tk "status").toNat?
  let wS ← field? tk "w"
  let w ← (if wS = "-" then some none else
    match (wS.splitOn ",").mapM String.toNat? with
    | some [a, b, c] => some (some (a, b, c))
    | _ => none)
  let winS ← field? tk "win"
  let win ← (if winS = "uninit" then some none else
    match (winS.splitOn ",").mapM String.toInt? with
    | some [a, b] => some (some (a, b))
    | _ => none)
  let post ← parseDump? (← field? tk "dump")
  let postEx ← parseDump? (← field? tk "ex")
  pure { status := status, w := w, win := win, post := post, postEx := postEx }

/-- a sample of the request as the judge sees it -/
structure JS where
  key : String
  t : Int
  val : String            -- "V<bits>" or the histogram normal form
  isHist : Bool
  invalid : Bool          -- histogram fails `Validate`
  st : Option Int         -- start timestamp that may produce a synthetic zero sample
  zero : String           -- value of that zero sample
deriving Repr, Inhabited

def zeroVal (h : Hist) : String := h.zeroLike.nf

/-- the samples of one valid series in the order the handler offers them to the appender -/
def seriesJS (fl : Flags) (v2 : Bool) (s : SeriesD) : List JS :=
  let stOf := fun (t st : Int) => if v2 ∧ fl.ingestST ∧ st ≠ 0 ∧ t ≠ 0 ∧ st < t then some st else none
  (s.samples.map fun x =>
    ({ key := s.key, t := x.t, val := "V" ++ hexOfNat x.v 16, isHist := false, invalid := false,
       st := stOf x.t x.st, zero := "V0000000000000000" } : JS)) ++
  (s.hists.map fun x =>
    ({ key := s.key, t := x.t, val := x.h.nf, isHist := true, invalid := x.h.validate.isSome,
       st := stOf x.t x.st, zero := zeroVal x.h } : JS))

structure JWin where
  minValid : Int
  headMaxt : Int
  oooWin : Int

inductive Adm | inOrder | ooo | rejected | fatal
deriving DecidableEq, Repr

/-- the documented admission rule (C02 `appendable_table`) against the stored series -/
def admit (w : JWin) (pre : List Pt) (x : JS) : Adm :=
  if x.t > futureLimit then .rejected
  else if x.t = magicT then .fatal
  else if w.oooWin = 0 ∧ x.t < w.minValid then .rejected
  else if x.invalid then .rejected
  else
    let inOrderOK : Bool :=
      match pre.getLast? with
      | none => decide (x.t ≥ w.minValid)
      | some l => decide (x.t ≥ w.minValid) && (decide (x.t > l.t) || (decide (x.t = l.t) && x.val == l.val))
    let dupZone : Bool :=
      match pre.getLast? with
      | none => false
      | some l => decide (x.t ≥ w.minValid) && decide (x.t = l.t) && x.val != l.val
    if inOrderOK then .inOrder
    else if !dupZone ∧ w.oooWin > 0 ∧ x.t ≥ w.headMaxt - w.oooWin then .ooo
    else .rejected

/-- an accepted sample with what the judge needs to account for it -/
structure Acc where
  x : JS
  clean : Bool           -- no earlier accepted item of the request for this series has `t' ≥ t`
deriving Repr, Inhabited

structure Walk where
  acc : List Acc := []                    -- accepted samples, request order
  extras : List (String × Pt) := []       -- synthetic zero samples that may be stored
  seen : List (String × Int) := []        -- (key, t) of every accepted item / possible zero sample so far
  rejected : Nat := 0
  stop : Option Adm := none               -- the request must fail as a whole here

def walkSamples (v2 : Bool) (w : JWin) (pre : Dump) : List JS → Walk → Walk
  | [], k => k
  | x :: rest, k =>
    if k.stop.isSome then k else
    let k := match x.st with
      | some st => { k with extras := k.extras ++ [(x.key, (⟨st, x.zero⟩ : Pt))], seen := k.seen ++ [(x.key, st)] }
      | none => k
    match admit w (pre.get x.key) x with
    | .fatal => { k with stop := some .fatal }
    | .rejected =>
      if v2 then walkSamples v2 w pre rest { k with rejected := k.rejected + 1 }
      else { k with stop := some .rejected }
    | _ =>
      let clean := !(k.seen.any fun p => p.1 == x.key && decide (p.2 ≥ x.t))
      walkSamples v2 w pre rest
        { k with acc := k.acc ++ [({ x := x, clean := clean } : Acc)], seen := k.seen ++ [(x.key, x.t)] }

structure JState where
  cfg : Bool := false
  fl : Flags := {}
  oooWin : Int := 0
  chunkRange : Int := 0
  symbols : List Sym := []
  cur : List G := []
  pre : Dump := []
  preEx : Dump := []
  viols : List String := []

def knownKinds : List String :=
  ["kind=commit-time-drop", "kind=ooo-ts-collision", "kind=exemplar-commit-drop", "kind=future-st-zero"]

def isKnownKind (v : String) : Bool := knownKinds.any fun k => (v.splitOn k).length > 1

/-- first element of `l` satisfying `p`, removed -/
def takeFirst {β : Type} (p : β → Bool) : List β → Option (β × List β)
  | [] => none
  | x :: xs => if p x then some (x, xs) else (takeFirst p xs).map fun r => (r.1, x :: r.2)

/-- split the accepted samples into accounted / unaccounted, consuming each new point at most once -/
def account (pre : Dump) (newPts : List (String × Pt)) : List Acc → List (String × Pt) → List Acc → List Acc
  | [], _, un => un
  | a :: rest, avail, un =>
    if (pre.get a.x.key).any (fun p => p.t == a.x.t && p.val == a.x.val) then account pre newPts rest avail un
    else
      match takeFirst (fun (p : String × Pt) => p.1 == a.x.key && p.2.t == a.x.t && p.2.val == a.x.val) avail with
      | some (_, avail') => account pre newPts rest avail' un
      | none => account pre newPts rest avail (un ++ [a])

def judgeSend (js : JState) (v2 : Bool) (req : List SeriesD) (o : ImplOut) : List String :=
  let proto := if v2 then "v2" else "v1"
  let valid := req.filter (·.bad.isNone)
  let samples := valid.flatMap (seriesJS js.fl v2)
  -- the window the appender works with
  let firstT : Option Int :=
    (valid.flatMap fun s =>
      -- the start-timestamp call reaches the head (and initialises it) whatever the timestamp is (finding
      -- C41-F4), unless /repo has fixes/C41-F4.patch (`repoFixedFutureST`): then only within the bound
      let viaST := fun (t st : Int) => v2 ∧ js.fl.ingestST ∧ st ≠ 0 ∧ t ≠ 0 ∧
        (repoFixedFutureST = false ∨ (t ≤ futureLimit ∧ st ≤ futureLimit))
      let a := (s.samples.filter (fun x => viaST x.t x.st ∨ (x.t ≤ futureLimit ∧ x.t ≠ magicT))).map (·.t)
      let h := (s.hists.filter (fun x => viaST x.t x.st ∨ (x.t ≤ futureLimit ∧ x.t ≠ magicT))).map (·.t)
      let e := ((s.exs.filter (·.lbl.isSome)).map (·.t)).filter (fun t => t ≤ futureLimit)
      if v2 then a ++ h ++ e else a ++ e ++ h).head?
  let w : JWin :=
    match o.win, firstT with
    | some (mv, mt), _ => ⟨mv, mt, js.oooWin⟩
    | none, some t0 => ⟨t0 - Int.tdiv js.chunkRange 2, t0, js.oooWin⟩
    | none, none => ⟨0, 0, js.oooWin⟩
  let k := walkSamples v2 w js.pre samples {}
  let mustFail := k.stop.isSome
  -- new points
  let newPts : List (String × Pt) := o.post.flatMap fun (key, pts) =>
    (pts.filter fun p => !((js.pre.get key).any fun q => q.t == p.t && q.val == p.val)).map fun p => (key, p)
  let lost := js.pre.flatMap fun (key, pts) =>
    (pts.filter fun p => !((o.post.get key).any fun q => q.t == p.t && q.val == p.val)).map fun p => (key, p)
  -- a stored point that an accepted sample of this request hits through the out-of-order window (same
  -- timestamp, other value) may be shadowed by it on read: same finding as `ooo-ts-collision`
  let overwritten := fun (p : String × Pt) =>
    decide (js.oooWin > 0) && (k.acc.any fun a => a.x.key == p.1 && a.x.t == p.2.t) ||
    decide (js.oooWin > 0) && (k.extras.any fun e => e.1 == p.1 && e.2.t == p.2.t)
  let vLost := match lost.filter (fun p => !overwritten p), lost with
    | (key, p) :: _, _ => [s!"violation lost-data proto={proto} key={key} t={p.t}"]
    | [], (key, p) :: _ =>
      [s!"violation written-ne-stored kind=ooo-ts-collision proto={proto} what=overwrite key={key} t={p.t}"]
    | [], [] => []
  let vAtomic :=
    if mustFail then
      (match newPts with
       | (key, p) :: _ => [s!"violation not-atomic proto={proto} stored key={key} t={p.t}"]
       | [] => []) ++
      (match o.w with
       | some (a, b, c) => if a + b + c ≠ 0 then [s!"violation not-atomic proto={proto} counts={a},{b},{c}"] else []
       | none => [])
    else []
  let explained := fun (p : String × Pt) =>
    k.acc.any (fun a => a.x.key == p.1 && a.x.t == p.2.t && a.x.val == p.2.val) ||
    k.extras.any (fun e => e.1 == p.1 && e.2.t == p.2.t && e.2.val == p.2.val)
  let vPhantom :=
    if mustFail then [] else
    match newPts.filter (fun p => !explained p) with
    | (key, p) :: _ => [s!"violation phantom proto={proto} key={key} t={p.t} val={p.val}"]
    | [] => []
  -- the synthetic zero sample of a sample that is itself rejected as too far in the future
  let vFutureST :=
    match newPts.filter (fun p => p.2.t > futureLimit) with
    | (key, p) :: _ => [s!"violation phantom kind=future-st-zero proto={proto} key={key} t={p.t}"]
    | [] => []
  -- a stored (or, through the out-of-order window, another accepted) sample with the same timestamp and
  -- another value: which of the two a query shows is not prescribed
  let collides := fun (a : Acc) =>
    ((js.pre.get a.x.key).any fun q => q.t == a.x.t && q.val != a.x.val) ||
    (decide (js.oooWin > 0) &&
      ((k.acc.any fun b => b.x.key == a.x.key && b.x.t == a.x.t && b.x.val != a.x.val) ||
       (k.extras.any fun e => e.1 == a.x.key && e.2.t == a.x.t && e.2.val != a.x.val)))
  let vMissing :=
    if mustFail then [] else
    match k.acc.filter (fun a => a.clean && !collides a &&
        !((o.post.get a.x.key).any fun q => q.t == a.x.t && q.val == a.x.val)) with
    | a :: _ => [s!"violation missing-sample proto={proto} key={a.x.key} t={a.x.t} val={a.x.val}"]
    | [] => []
  -- status
  let anyBad := req.any (·.bad.isSome)
  let anyExErr := valid.any fun s => s.exs.any (·.lbl.isNone)
  let hasEx := valid.any fun s => !s.exs.isEmpty
  let expected : List Nat :=
    if v2 then
      if k.stop == some .fatal then [500]
      else if anyBad ∨ k.rejected > 0 ∨ anyExErr then [400]
      else if hasEx then [204, 400] else [204]
    else
      match k.stop with
      | some .fatal => [500]
      | some _ => [400]
      | none => [204]
  let vStatus :=
    if expected.contains o.status then [] else [s!"violation status-class proto={proto} expected={expected} got={o.status}"]
  -- counts
  let accF := k.acc.filter (!·.x.isHist)
  let accH := k.acc.filter (·.x.isHist)
  let vCount :=
    match o.w with
    | some (a, b, _) =>
      if mustFail then []
      else if a ≠ accF.length ∨ b ≠ accH.length then
        [s!"violation count-ne-admitted proto={proto} headers={a},{b} admitted={accF.length},{accH.length}"]
      else []
    | none => if v2 then [s!"violation no-headers proto={proto}"] else []
  let vStored :=
    if mustFail ∨ o.status = 500 ∨ (!v2 ∧ o.status ≠ 204) then [] else
    let un := account js.pre newPts k.acc newPts []
    let mk := fun (what : String) (l : List Acc) (written : Nat) =>
      match l with
      | [] => []
      | a :: _ =>
        let kind :=
          if l.all (fun a => !a.clean) then "commit-time-drop"
          else if l.all (fun a => !a.clean || (collides a && js.oooWin > 0)) then "ooo-ts-collision"
          else "unexplained"
        [s!"violation written-ne-stored kind={kind} proto={proto} what={what} written={written} stored={written - l.length} key={a.x.key} t={a.x.t}"]
    mk "samples" (un.filter (!·.x.isHist)) accF.length ++ mk "histograms" (un.filter (·.x.isHist)) accH.length
  -- exemplars
  let reqEx : List (String × Pt) := valid.flatMap fun s =>
    s.exs.filterMap fun e => e.lbl.map fun l => (s.key, (⟨e.t, hexOfNat e.v 16 ++ "~" ++ l⟩ : Pt))
  let newEx : List (String × Pt) := o.postEx.flatMap fun (key, pts) =>
    (pts.filter fun p => !((js.preEx.get key).any fun q => q.t == p.t && q.val == p.val)).map fun p => (key, p)
  let vExPhantom :=
    match newEx.filter (fun p => !(reqEx.any fun q => q.1 == p.1 && q.2.t == p.2.t && q.2.val == p.2.val)) with
    | (key, p) :: _ => [s!"violation phantom-exemplar proto={proto} key={key} t={p.t}"]
    | [] => []
  let vExCount :=
    match o.w with
    | some (_, _, c) =>
      if mustFail then [] else
      let idem := (reqEx.filter fun q => (js.preEx.get q.1).any fun p => p.t == q.2.t && p.val == q.2.val).length
      let stored := newEx.length + idem
      if c = stored then []
      else
        let rec nonClean : List (String × Pt) → List (String × Pt) → Nat
          | [], _ => 0
          | q :: rest, seen =>
            (if seen.any (fun p => p.1 == q.1 && decide (p.2.t ≥ q.2.t)) then 1 else 0) + nonClean rest (seen ++ [q])
        let kind := if c > stored ∧ c - stored ≤ nonClean reqEx [] then "exemplar-commit-drop" else "unexplained"
        [s!"violation written-ne-stored kind={kind} proto={proto} what=exemplars written={c} stored={stored}"]
    | none => []
  vLost ++ vAtomic ++ vPhantom ++ vFutureST ++ vMissing ++ vStatus ++ vCount ++ vStored ++ vExPhantom ++ vExCount

def jStep (js : JState) (line out : String) : JState :=
  let modC := fun (f : G → G) => match js.cur with | [] => js | g :: rest => { js with cur := f g :: rest }
  match parseOp line with
  | .cfg w cr f =>
    if js.cfg then js else
    { js with cfg := true, oooWin := w, chunkRange := cr, fl := { ingestST := f % 2 = 1, typeUnit := (f / 2) % 2 = 1 } }
  | .sym l => if js.cfg then { js with symbols := l } else js
  | .ts g => if js.cfg then { js with cur := g :: js.cur } else js
  | .s x => modC fun g => { g with samples := g.samples ++ [x] }
  | .h x => modC fun g => { g with hists := g.hists ++ [x] }
  | .e2 r t v hs => modC fun g => { g with exs2 := g.exs2 ++ [(r, t, v, hs)] }
  | .e1 l t v hs => modC fun g => { g with exs1 := g.exs1 ++ [(l, t, v, hs)] }
  | .send v2 =>
    if !js.cfg then js else
    let req := js.cur.reverse.map fun g => if v2 then decode2 js.fl js.symbols g.wire2 else decode1 g.wire1
    match parseOut? out with
    | none =>
      { js with viols := js.viols ++ [s!"violation bad-output {(out.take 60).toString}"], symbols := [], cur := [] }
    | some o =>
      { js with viols := js.viols ++ judgeSend js v2 req o, pre := o.post, preEx := o.postEx, symbols := [], cur := [] }
  | .symz ls =>
    -- T2 statement: the returned references resolve, in the returned table, to the input pairs;
    -- the table starts with "" and has no duplicates
    match out.splitOn " " with
    | [syms, refs] =>
      match parseSyms? syms, parseRefs? refs with
      | some tab, some rs =>
        let okDecode : Bool := (match desymRaw tab rs with | .ok l => l == ls | .error _ => false)
        let nodup := tab.eraseDups.length == tab.length
        if okDecode ∧ nodup ∧ tab.head? = some "" then js
        else { js with viols := js.viols ++ [s!"violation symbolize-roundtrip labels={showLabels ls}"] }
      | _, _ => { js with viols := js.viols ++ ["violation bad-output symz"] }
    | _ => { js with viols := js.viols ++ ["violation bad-output symz"] }
  | .desym syms refs =>
    let exp := match desymbolize syms refs with | .ok l => s!"ok {showLabels l}" | .error _ => "err"
    if out = exp then js else { js with viols := js.viols ++ [s!"violation desymbolize refs={showRefs refs}"] }
  | _ => if out.startsWith "panic" then { js with viols := js.viols ++ ["violation panic"] } else js

def judgeRun (js : JState) : List String → List String → JState
  | l :: ls, o :: os => judgeRun (jStep js l o) ls os
  | _, _ => js

def judge (ops : List String) (outs : List String) : String :=
  let js := judgeRun {} ops outs
  match js.viols.find? (fun v => !isKnownKind v) with
  | some v => v
  | none => match js.viols with | v :: _ => v | [] => "ok"

end Prom.RW.Suite

namespace Prom.RW
def suite : Suite := { name := "rwrecv", model := Suite.model, judge := Suite.judge }
end Prom.RW
