import PromModel.Prelude.Line
import PromModel.Discovery.Manager
/-
  Suite `sd` (property C47). Op grammar (harness/suites/sd/main.go drives the real `discovery.Manager`):

    cfg j1=c1,c2;j2=c1;j3=      ApplyConfig: job ↦ fake discovery configs (`cfg -` = empty map; `j3=` = no SD
                                configs, the manager falls back to `StaticConfig{{}}`, which is `c0`;
                                `c9` = a real `StaticConfig` with one group `s9`, version 9000, 2 targets,
                                sent once by the real static discoverer when its provider starts)     → ok
    upd c1 s1:5:2,nil,s2:6:0    the discoverer created for c1 sends one slice: source s1 = group version 5
                                with 2 targets, a nil entry, source s2 = version 6 with no targets. Sent
                                asynchronously (per-discoverer FIFO), so it races with later ops      → ok
    sync                        wait until every queued slice was taken by its updater (or dropped)   → -
    sleep 30                    the consumer is away                                                  → -
    recv obs=<snap|none>        the consumer waits once on SyncCh; what it got is an *observation*
                                carried by the op line (timing dependent, only judged for sanity)     → -
    quiesce                     sync, then read SyncCh until nothing more arrives and no trigger is
                                pending; prints the LAST map ever received                            → <snap>

    counters sent=N delayed=M got=K   written by the harness after every quiesce (observation): the manager's
                                counters prometheus_sd_updates_total (S1), …_delayed_total (failed S2b) and the
                                number of maps the consumer received so far; judged: N = M + K              → -

  <snap> = `j1=s1.5.2,s1.7.1;j2=` (jobs sorted, groups `src.ver.n` sorted), `-` for the empty map.

  model : the transition system `Prom.Discovery` run under one canonical schedule (every op runs to completion).
  judge : the property statement, from the script only and without the mechanism: for every job of the last
          `cfg`, for every config serving it, `latest` (non-empty) of every source over the slices sent to
          that config since it was (re-)created; written with `latest`, not with `applyUpd`/`allGroups`.
-/
namespace Prom.Discovery.Suite
open Prom Prom.Discovery

def drop1 (s : String) : String := String.ofList (s.toList.drop 1)

def parseId (pfx : Char) (s : String) : Option Nat :=
  match s.toList with
  | c :: r => if c = pfx then (String.ofList r).toNat? else none
  | [] => none

def parseJobCfg (s : String) : Option (Job × List Cfg) :=
  match s.splitOn "=" with
  | [j, cs] => do
    let j ← parseId 'j' j
    let cs ← if cs = "" then some [] else (cs.splitOn ",").mapM (parseId 'c')
    pure (j, cs)
  | _ => none

def parseCfg (s : String) : Option (List (Job × List Cfg)) :=
  if s = "-" then some [] else (s.splitOn ";").mapM parseJobCfg

def parseGroup (s : String) : Option (Option Group) :=
  if s = "nil" then some none else
  match s.splitOn ":" with
  | [a, v, n] => do
    let a ← parseId 's' a
    let v ← v.toNat?
    let n ← n.toNat?
    pure (some { src := a, ver := v, n := n })
  | _ => none

def parseUpd (s : String) : Option Upd :=
  if s = "-" then some [] else (s.splitOn ",").mapM parseGroup

/-! ### rendering (sorted) -/

def insertBy {α} (le : α → α → Bool) (x : α) : List α → List α
  | [] => [x]
  | y :: r => if le x y then x :: y :: r else y :: insertBy le x r

def sortBy {α} (le : α → α → Bool) (xs : List α) : List α := xs.foldr (insertBy le) []

def groupLe (a b : Group) : Bool :=
  a.src < b.src || (a.src == b.src && (a.ver < b.ver || (a.ver == b.ver && a.n ≤ b.n)))

def renderGroup (g : Group) : String := s!"s{g.src}.{g.ver}.{g.n}"

def renderSnap (sn : Snap) : String :=
  if sn.isEmpty then "-" else
  ";".intercalate ((sortBy (fun a b => a.1 ≤ b.1) sn).map fun e =>
    s!"j{e.1}=" ++ ",".intercalate ((sortBy groupLe e.2).map renderGroup))

def parseRGroup (s : String) : Option Group :=
  match s.splitOn "." with
  | [a, v, n] => do pure { src := ← parseId 's' a, ver := ← v.toNat?, n := ← n.toNat? }
  | _ => none

def parseSnap (s : String) : Option Snap :=
  if s = "-" then some [] else
  (s.splitOn ";").mapM fun e =>
    match e.splitOn "=" with
    | [j, gs] => do
      let j ← parseId 'j' j
      let gs ← if gs = "" then some [] else (gs.splitOn ",").mapM parseRGroup
      pure (j, gs)
    | _ => none

/-! ### model: canonical schedule of the transition system -/

def stepD (s : State) (a : Action) : State := (step s a).getD s

/-- All remaining `s2prov` steps of the `allGroups` call in progress, at once. -/
def snapAll (s : State) : State :=
  match s.sender with
  | .snapping acc rest => { s with sender := .snapping (rest.foldl (agProv s.targets) acc) [] }
  | _ => s

/-- The consumer waits; the sender (if triggered) ticks, snapshots and hands over. -/
def deliver (s : State) : State :=
  let s := stepD s .receive
  if s.pending then stepD (snapAll (stepD (stepD s .s1) .s2begin)) .s2send else stepD s .leave

def provOfCfg (s : State) (c : Cfg) : Option Provider := s.providers.find? (fun p => p.cfg == c)

/-- `c9`: the real static config with targets; its discoverer sends this slice once when started. -/
def staticCfg : Cfg := 9
def staticUpd : Upd := [some { src := 9, ver := 9000, n := 2 }]

/-- The scripted discoverers only exist for the fake configs. -/
def isStatic (c : Cfg) : Bool := c == staticEmptyCfg || c == staticCfg

/-- After a reload: every provider created by it for `c9` (id ≥ the old counter) sends its slice. -/
def startStatics (oldLast : Nat) (s : State) : State :=
  s.providers.foldl (fun s p =>
    if p.cfg = staticCfg ∧ oldLast ≤ p.id then stepD (stepD s (.u1 p.id staticUpd)) (.u2 p.id) else s) s

def modelOp (s : State) (op : String) : State × String :=
  match toks op with
  | ["cfg", spec] =>
    match parseCfg spec with
    | some cfg => (startStatics s.lastProvider (stepD s (.applyConfig cfg)), "ok")
    | none => (s, "unparsable")
  | ["upd", c, u] =>
    match parseId 'c' c, parseUpd u with
    | some c, some u =>
      if isStatic c then (s, "ok") else
      match provOfCfg s c with
      | some p => (stepD (stepD s (.u1 p.id u)) (.u2 p.id), "ok")
      | none => (s, "ok")
    | _, _ => (s, "unparsable")
  | ["sync"] => (s, "-")
  | ["sleep", _] => (s, "-")
  | "recv" :: _ => (deliver s, "-")
  | "counters" :: _ => (s, "-")
  | ["quiesce"] => let s := deliver s; (s, renderSnap s.delivered)
  | _ => (s, "unparsable")

def model (ops : List String) : List String :=
  let rec go (s : State) : List String → List String
    | [] => []
    | op :: rest => let (s', o) := modelOp s op; o :: go s' rest
  go {} ops

/-! ### judge: the statement, from the script -/

structure JSt where
  /-- live configs with the slices sent to them since they were (re-)created -/
  live : List (Cfg × Upd) := []
  jobs : List (Job × List Cfg) := []
  /-- every group ever sent, with the config it was sent to -/
  sent : List (Cfg × Group) := []

def dedup (xs : List Nat) : List Nat := xs.foldl (fun acc x => if x ∈ acc then acc else acc ++ [x]) []

def effCfgs (cs : List Cfg) : List Cfg := if cs.isEmpty then [staticEmptyCfg] else dedup cs

def jCfg (st : JSt) (cfg : List (Job × List Cfg)) : JSt :=
  -- a later entry for the same job replaces an earlier one (a Go map has one value per key)
  let jobs := cfg.foldl (fun acc e => acc.filter (·.1 ≠ e.1) ++ [(e.1, effCfgs e.2)]) []
  let wanted := dedup (jobs.flatMap (·.2))
  { st with
    jobs := jobs
    -- a config that was not live starts a new history: empty, or the static config's own slice
    live := wanted.map fun c =>
      (c, ((st.live.find? (·.1 == c)).map (·.2)).getD (if c = staticCfg then staticUpd else []))
    sent := if wanted.contains staticCfg then st.sent ++ (staticUpd.filterMap id).map (fun g => (staticCfg, g)) else st.sent }

def jUpd (st : JSt) (c : Cfg) (u : Upd) : JSt :=
  if isStatic c then st else
  { st with
    live := st.live.map fun e => if e.1 = c then (e.1, e.2 ++ u) else e
    sent := st.sent ++ (u.filterMap id).map fun g => (c, g) }

def histSources (h : Upd) : List Src := dedup ((h.filterMap id).map (·.src))

/-- The statement: latest non-empty group of every source of every config serving the job. -/
def expectedJob (st : JSt) (cs : List Cfg) : List Group :=
  cs.flatMap fun c =>
    match st.live.find? (·.1 == c) with
    | some (_, h) => (histSources h).filterMap fun s =>
        match latest h s with
        | some g => if g.n > 0 then some g else none
        | none => none
    | none => []

def expected (st : JSt) : Snap := st.jobs.map fun e => (e.1, expectedJob st e.2)

def field (fs : List String) (name : String) : Option String :=
  (fs.find? (·.startsWith (name ++ "="))).map fun f => String.ofList (f.toList.drop (name.length + 1))

/-- A group in the final map that no config currently serving the job ever sent. -/
def foreignGroup (st : JSt) (got : Snap) : Option (Job × Group) :=
  got.findSome? fun e =>
    let cs := ((st.jobs.find? (·.1 == e.1)).map (·.2)).getD []
    (e.2.find? fun g => !(st.sent.any fun cg => cg.2 == g && cs.contains cg.1)).map fun g => (e.1, g)

def judgeFinal (st : JSt) (k : Nat) (out : String) : Option String :=
  let want := renderSnap (expected st)
  if out = want then none else
  match parseSnap out with
  | none => some s!"violation unparsable-final op={k} got={out}"
  | some got =>
    match foreignGroup st got with
    | some (j, g) => some s!"violation removed-provider-group op={k} job=j{j} group={renderGroup g} want={want} got={out}"
    | none =>
      let wantS := expected st
      let missingJob := wantS.find? fun e => !(got.any (·.1 == e.1))
      let extraJob := got.find? fun e => !(wantS.any (·.1 == e.1))
      match missingJob, extraJob with
      | some e, _ => some s!"violation job-missing op={k} job=j{e.1} want={want} got={out}"
      | none, some e => some s!"violation job-not-removed op={k} job=j{e.1} want={want} got={out}"
      | none, none =>
        -- same jobs: an update was lost / a stale or emptied group survives
        let lost := wantS.findSome? fun e =>
          let gs := ((got.find? (·.1 == e.1)).map (·.2)).getD []
          (e.2.find? fun g => !gs.contains g).map fun g => (e.1, g)
        match lost with
        | some (j, g) => some s!"violation update-lost op={k} job=j{j} group={renderGroup g} want={want} got={out}"
        | none => some s!"violation stale-group op={k} want={want} got={out}"

/-- Sanity of an intermediate delivery: only non-empty groups that were really sent, no source twice from
    the same config. (Which prefix of the updates it reflects is timing dependent and not judged.) -/
def judgeObs (st : JSt) (k : Nat) (obs : String) : Option String :=
  if obs = "none" then none else
  match parseSnap obs with
  | none => some s!"violation unparsable-obs op={k} obs={obs}"
  | some got =>
    let bad := got.findSome? fun e =>
      (e.2.find? fun g => g.n == 0 || !(st.sent.any fun cg => cg.2 == g)).map fun g => (e.1, g)
    match bad with
    | some (j, g) => some s!"violation bogus-group op={k} job=j{j} group={renderGroup g}"
    | none => none

def judge (ops outs : List String) : String :=
  let rec go (st : JSt) (k : Nat) : List String → List String → String
    | [], _ => "ok"
    | op :: rest, outs =>
      let out := outs.headD ""
      let outs := outs.drop 1
      match toks op with
      | ["cfg", spec] =>
        match parseCfg spec with
        | some cfg => go (jCfg st cfg) (k + 1) rest outs
        | none => s!"violation unparsable op={k}"
      | ["upd", c, u] =>
        match parseId 'c' c, parseUpd u with
        | some c, some u => go (jUpd st c u) (k + 1) rest outs
        | _, _ => s!"violation unparsable op={k}"
      | "recv" :: fs =>
        match judgeObs st k ((field fs "obs").getD "none") with
        | some v => v
        | none => go st (k + 1) rest outs
      | "counters" :: fs =>
        match (field fs "sent").bind String.toNat?, (field fs "delayed").bind String.toNat?,
              (field fs "got").bind String.toNat? with
        | some n, some m, some g =>
          if n = m + g then go st (k + 1) rest outs
          else s!"violation sender-trace op={k} sent={n} delayed={m} got={g}"
        | _, _, _ => s!"violation unparsable op={k}"
      | ["quiesce"] =>
        match judgeFinal st k out with
        | some v => v
        | none => go st (k + 1) rest outs
      | _ => go st (k + 1) rest outs
  go {} 0 ops outs

def suite : Suite := { name := "sd", model := model, judge := judge }

end Prom.Discovery.Suite
