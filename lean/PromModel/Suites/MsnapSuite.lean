import PromModel.Suites.SnapSuite
import PromModel.Tsdb.SnapshotMm
/-
  Suite `msnap` (C23): histories of harness/suites/snap (stream `mm`, generators in mm.go) in which
  series have NO in-order head chunk when the snapshot is written — only out-of-order samples (0..n
  m-mapped out-of-order chunks, counts around the OutOfOrderCapMax boundaries), created by a rolled-back
  append, in-order head chunk covered by an m-mapped chunk — next to ordinary ones; clean shutdown,
  snapshot + WAL/WBL tail (copy taken while open), damaged snapshot; after `fork` new series, more
  samples and further restarts on both copies.

  ops:  those of `osnap` (SnapSuite.lean) with `cfg <chunkRange> <oooWindow> <samplesPerChunk> <oooCapMax>`
        and `mmap` (DB.ForceHeadMMap). Every output line is "-"; the observations travel in the data
        part (`out=…`, `a= b= pre= use= …`). No line-by-line model (`modelConst`): the mechanism model is
        PromModel/Tsdb/SnapshotMm.lean with the theorems `C23.mm_*`; the tie to the code is this judge.

  Judge = the judge of `osnap` (copy A = copy B at every comparison and on every query after `fork`,
  exemplars of A among those stored before, …) and, NEW, the statement against the acknowledged
  samples (nothing of any model):
    * reference = per copy the samples whose `app` was answered `ok` in a transaction whose `commit`
      was answered `ok` (a rollback, a restart or a clean comparison ends the open transaction);
    * the live database before a shutdown / copy (`pre`), the copy started from the snapshot (`a`),
      the copy started by WAL replay (`b`) and every query after `fork` on either copy return, inside
      the queried range, exactly one sample for every acknowledged (series, timestamp), nothing that
      was not acknowledged, series and timestamps strictly increasing
      (`acked-lost` / `not-acked` / `rows-malformed`, with `side=pre|a|b|qa|qb`);
      two acknowledged values for one (series, timestamp) — possible between an in-order and an
      out-of-order chunk — admit either; samples appended inside an earlier deletion may or may not
      show; after CleanTombstones nothing is demanded (C01's F30);
    * exemplars lost by a snapshot start are NOT judged (the statement bounds restored exemplars only
      from above); ChunkSnapshot skipping exemplars of series that left the head is an observation.
-/
namespace Prom.Db.Msnap
open Prom.Intervals Prom.Db Prom.Db.Ro Prom.Db.Snap

abbrev Del := Option Nat × Int × Int

def covered (dels : List Del) (x : Nat × Smp) : Bool :=
  dels.any fun d => (match d.1 with | none => true | some j => j == x.1) && decide (d.2.1 ≤ x.2.t ∧ x.2.t ≤ d.2.2)

/-- The reference of one copy. -/
structure Side where
  pend : Option (List (Nat × Smp)) := none
  acked : List (Nat × Smp) := []
  maybe : List (Nat × Smp) := []
  dels : List Del := []
deriving Repr, Inhabited

def Side.app (s : Side) (ok : Bool) (x : Nat × Smp) : Side :=
  if ok then { s with pend := s.pend.map (· ++ [x]) } else s

def Side.commit (s : Side) (ok : Bool) : Side :=
  match s.pend with
  | none => s
  | some p =>
    if !ok then { s with pend := none } else
    { s with pend := none, acked := s.acked ++ p.filter (fun x => !covered s.dels x),
             maybe := s.maybe ++ p.filter (covered s.dels) }

def Side.del (s : Side) (d : Del) : Side :=
  { s with acked := s.acked.filter (fun x => !covered [d] x), dels := d :: s.dels }

def incr : List Int → Bool
  | a :: b :: rest => decide (a < b) && incr (b :: rest)
  | _ => true

def wellFormed (rows : Rows) : Bool :=
  incr (rows.map fun p => (p.1 : Int)) && rows.all fun p => !p.2.isEmpty && incr (p.2.map (·.t))

def showSmps (xs : List (Nat × Smp)) : String :=
  ",".intercalate ((xs.take 6).map fun x => s!"s{x.1}@{x.2.t}")

/-- The statement for one answer: `rows` is what `s` acknowledged, restricted to `[a, b]`. -/
def checkRows (s : Side) (a b : Int) (rows : Rows) : Option String :=
  let fl := flat rows
  if !wellFormed rows then some "rows-malformed"
  else
    let alien := fl.filter fun x => !(decide (a ≤ x.2.t ∧ x.2.t ≤ b) && (s.acked.contains x || s.maybe.contains x))
    if !alien.isEmpty then some s!"not-acked n={alien.length} first={showSmps alien}"
    else
      let lost := s.acked.filter fun x =>
        decide (a ≤ x.2.t ∧ x.2.t ≤ b) && !(fl.any fun y => y.1 == x.1 && y.2.t == x.2.t)
      if lost.isEmpty then none else some s!"acked-lost n={lost.length} first={showSmps lost}"

def exList (s : String) : List String := if s = "-" ∨ s = "?" then [] else s.splitOn ","

def exMinus (a b : String) : List String := (exList a).filter fun x => !(exList b).contains x

/-- `s<i>@<t>:<v>:<id>` ↦ i -/
def exSeries (e : String) : Option Nat := (((e.splitOn "@").headD "").drop 1).toString.toNat?

structure St where
  a : Side := {}
  b : Side := {}
  forked : Bool := false
  oldSer : List Nat := []    -- series that had acknowledged samples at the last compaction (cooo / compact) …
  freshSer : List Nat := []  -- … and those that received acknowledged samples since: still in the head
  fuzzy : Bool := false      -- CleanTombstones ran
deriving Inhabited

def sides (forked : Bool) (op out : String) : String × String :=
  let s := shown op out
  if forked then (bothSides s).getD (s, s) else (s, s)

def viol (what side : String) (k : Nat) (op : String) (extra : String) : String :=
  let w := what.splitOn " "
  s!"violation {w.headD "?"} side={side} {" ".intercalate (w.drop 1)} step={k} op=`{opPart op}` {extra}"

def firstViol (xs : List (Option String)) : Option String := xs.findSome? id

/-- One observed step; `.error v` = the observation contradicts the statement. -/
def St.step (st : St) (k : Nat) (op out : String) : Except String St :=
  let f := toks (opPart op)
  let (oa, ob) := sides st.forked op out
  let both := fun (g : Side → Bool → Side) => { st with a := g st.a (oa == "ok"), b := g st.b (ob == "ok") }
  match f with
  | ["begin"] => .ok (both fun s ok => if ok then { s with pend := some [] } else s)
  | ["app", i, t, v] =>
    match i.toNat?, t.toInt?, natOfHex? v with
    | some i, some t, some v => .ok (both fun s ok => s.app ok (i, ⟨t, v⟩))
    | _, _, _ => .error (viol "bad-observation" "-" k op "")
  | ["commit"] =>
    let got := if oa == "ok" then ((st.a.pend.getD []).map (·.1)) else []
    .ok { (both fun s ok => s.commit ok) with freshSer := st.freshSer ++ got }
  | ["rollback"] => .ok (both fun s _ => { s with pend := none })
  | "reopen" :: _ => .ok (both fun s _ => { s with pend := none })
  | ["del", a, b, sel] =>
    match a.toInt?, b.toInt? with
    | some a, some b =>
      let sel := if sel = "*" then none else sel.toNat?
      .ok (both fun s ok => if ok then s.del (sel, a, b) else s)
    | _, _ => .error (viol "bad-observation" "-" k op "")
  | ["cleantomb"] => .ok { st with fuzzy := true }
  | ["cooo"] => .ok { st with oldSer := st.oldSer ++ st.a.acked.map (·.1), freshSer := [] }
  | ["compact"] => .ok { st with oldSer := st.oldSer ++ st.a.acked.map (·.1), freshSer := [] }
  | ["q", a, b] =>
    if st.fuzzy then .ok st else
    match a.toInt?, b.toInt?, parseRows? oa, parseRows? ob with
    | some a, some b, some ra, some rb =>
      match firstViol [(checkRows st.a a b ra).map fun w => viol w (if st.forked then "qa" else "q") k op s!"got={oa}",
                       if st.forked then (checkRows st.b a b rb).map fun w => viol w "qb" k op s!"got={ob}" else none] with
      | some v => .error v
      | none => .ok st
    | _, _, _, _ => .error (viol "bad-observation" "-" k op s!"out={oa}")
  | cmd :: mode :: rest =>
    if cmd ≠ "snapq" ∧ cmd ≠ "fork" then .ok st else
    if st.forked then .ok st else
    let m := kvs op out
    let rng : Option (Int × Int) :=
      if cmd = "fork" then some (MinI64, MaxI64) else
      match rest with
      | a :: b :: _ => (a.toInt?).bind fun a => (b.toInt?).map fun b => (a, b)
      | _ => none
    -- the open transaction: ended by a clean shutdown; not part of any copy
    let live := st.a
    let closed : Side := { live with pend := none }
    let st' : St :=
      if cmd = "fork" then { st with a := closed, b := closed, forked := true }
      else if mode = "crash" then st else { st with a := closed, b := closed }
    if st.fuzzy ∨ ¬ (mode = "clean" ∨ mode = "crash" ∨ mode = "flip") then .ok st' else
    match rng, parseRows? (kv m "pre"), parseRows? (kv m "a"), parseRows? (kv m "b") with
    | some (a, b), some pre, some ra, some rb =>
      let ctx := s!"use={kv m "use"} dmg={kv m "dmg"}"
      match firstViol [
        (checkRows closed MinI64 MaxI64 pre).map fun w => viol w "pre" k op s!"{ctx} got={kv m "pre"}",
        (checkRows closed a b ra).map fun w => viol w "a" k op s!"{ctx} got={kv m "a"}",
        (checkRows closed a b rb).map fun w => viol w "b" k op s!"{ctx} got={kv m "b"}",
        -- NOTE: an exemplar stored before the shutdown and missing after a snapshot start is NOT judged:
        -- the statement only bounds the restored exemplars from above ("restores only exemplars that were
        -- stored before the shutdown"). Observation (no alarm): ChunkSnapshot skips exemplars whose series
        -- has left the head, the WAL replay keeps them (corpus/C23/msnap-exemplar-series-left-head.ops).
        none] with
      | some v => .error v
      | none => .ok st'
    | _, _, _, _ => .error (viol "bad-observation" "-" k op s!"{out}")
  | _ => .ok st

def ackCheck (pairs : List (String × String)) : Option String :=
  let rec go (st : St) (k : Nat) : List (String × String) → Option String
    | [] => none
    | (op, out) :: rest =>
      match st.step k op out with
      | .error v => some v
      | .ok st' => go st' (k + 1) rest
  go {} 0 pairs

/-! ### Finding F32 on a second route

  F32 (known_findings.jsonl): after a start from a snapshot `lastSeriesID` is the largest ref IN THE
  SNAPSHOT. The streams snap / osnap reach it through deletions and compactions. Here a series
  created by a rolled-back append (no sample) does it: it is in the snapshot of the next shutdown
  (record without head chunk), `Head.Init`'s final `gc()` drops it at the following start, the
  snapshot after that does not hold it any more, `lastSeriesID` falls back below its ref — and the
  next series created gets that ref again while the WAL still has the first series record. A full
  WAL replay (copy B) then loses the new series or lists a label set twice; the snapshot start
  (copy A) and the live database are right. Recognised by: the newest series sample-less at a
  restart, a second restart with no series created in between, series created afterwards, copy A =
  live, and the difference confined to the sample-less and the afterwards-created series. -/
structure Ghost where
  order : List Nat := []       -- series in creation order (first `app`)
  acked : List Nat := []       -- series with a committed acknowledged sample
  pend : List Nat := []
  stage1 : List Nat := []      -- newest series, sample-less at the last restart
  armed : List Nat := []       -- … and still so (nothing created since) at the next restart
  late : List Nat := []        -- series created (or created again) while armed
  forked : Bool := false
deriving Inhabited

def Ghost.restart (g : Ghost) : Ghost :=
  let g := { g with armed := g.armed ++ g.stage1, pend := [] }
  { g with stage1 := (g.order.reverse.takeWhile fun i => !g.acked.contains i) }

def Ghost.step (g : Ghost) (op out : String) : Ghost :=
  if g.forked then g else
  let f := toks (opPart op)
  match f with
  | ["begin"] => { g with pend := [] }
  | ["rollback"] => { g with pend := [] }
  | ["commit"] => if shown op out == "ok" then { g with acked := g.acked ++ g.pend, pend := [] } else { g with pend := [] }
  | "app" :: i :: _ =>
    match i.toNat? with
    | none => g
    | some i =>
      let g := if shown op out == "ok" then { g with pend := i :: g.pend } else g
      let g := if !g.armed.isEmpty ∧ (!g.order.contains i ∨ g.armed.contains i) ∧ !g.late.contains i
               then { g with late := i :: g.late } else g
      if g.order.contains i then g else { g with order := g.order ++ [i], stage1 := [] }
  | "reopen" :: _ => g.restart
  | "snapq" :: mode :: _ => if mode = "crash" then g else g.restart
  | "fork" :: _ => { g.restart with forked := true }
  | _ => g

def diffSer (a b : Rows) : List Nat :=
  ((a ++ b).map (·.1)).filter fun i => (a.filter (·.1 == i)) != (b.filter (·.1 == i))

def stepOf (v : String) : Option Nat :=
  ((toks v).find? (·.startsWith "step=")).bind fun t => (t.drop 5).toString.toNat?

/-- A verdict of `judgeLines` with `kind=other` that is F32 on the route above gets its kind. -/
def reclass (pairs : List (String × String)) (v : String) : String :=
  if (v.splitOn "kind=other").length < 2 then v else
  match stepOf v with
  | none => v
  | some k =>
    let g := (pairs.take k).foldl (fun g p => g.step p.1 p.2) ({} : Ghost)
    match pairs[k]? with
    | none => v
    | some (op, out) =>
      let f := toks (opPart op)
      let m := kvs op out
      let rows : Option (Rows × Rows × Bool) :=
        if f.head? = some "snapq" ∨ f.head? = some "fork" then
          match parseRows? (kv m "a"), parseRows? (kv m "b"), parseRows? (kv m "pre") with
          | some a, some b, some pre => some (a, b, a == pre)
          | _, _, _ => none
        else
          match bothSides (shown op out) with
          | some (x, y) => (parseRows? x).bind fun a => (parseRows? y).map fun b => (a, b, true)
          | none => none
      match rows with
      | some (a, b, aLive) =>
        if !g.armed.isEmpty ∧ !g.late.isEmpty ∧ aLive ∧ (diffSer a b).all (fun i => g.late.contains i ∨ g.armed.contains i)
        then v.replace "kind=other" "kind=series-ref-reuse-sample-less"
        else v
      | none => v

def judge (ops outs : List String) : String :=
  let pairs := ops.zip outs
  match Snap.internalErr pairs with
  | some v => v
  | none =>
    match judgeLines true pairs with
    | some v => reclass pairs v
    | none =>
      match ackCheck pairs with
      | some v => v
      | none => "ok"

def suiteMm : Suite := { name := "msnap", model := Snap.modelConst, judge := judge }

/-- `snap` / `osnap`: SnapSuite's judge, with a `kind=other` verdict re-classified when it is F32 on the
    sample-less route (a series created by an append that never committed, restarts, a new series). -/
def suiteSnap : Suite :=
  { name := "snap", model := Snap.model, judge := fun ops outs => reclass (ops.zip outs) (Snap.judgeWith true ops outs) }

def suiteOsnap : Suite :=
  { name := "osnap", model := Snap.modelConst, judge := fun ops outs => reclass (ops.zip outs) (Snap.judgeWith false ops outs) }

end Prom.Db.Msnap
