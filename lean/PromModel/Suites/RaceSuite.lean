import PromModel.Tsdb.CompactionProtocol
import PromModel.Tsdb.OooBounds
/-
  Suite `race` (C06). One case = one real tsdb.DB with a fixed data set, one or more maintenance runs
  (db.Compact / db.CompactOOOHead / db.CompactHead) parked at every protocol point, and queriers opened,
  held and read at those positions.

  Op lines (the `step` lines carry observations of the real run, like suite `crash`):
    cfg <blockRange> <oooWindow> <samplesPerChunk> <oooCap>
    put <series> <t> <v> <ooo:0|1>
    maint compact | maint ooo | maint head <mint> <maxt>
    step <point>|blocked:<which>|done:<err>|nomaint [<Bk>] new=<Bk:mint:maxt:i|o:parents,…|-> hmin=<h> omin=<o>
    open <q> <mint> <maxt> ; read <q> ; close <q>

  The outputs of `step` carry omin/omax = Head.MinOOOTime()/MaxOOOTime(). The model does NOT take the
  new lower bound of a GC step from the observation: it recomputes it (`OooBounds.recount` over the OOO
  chunks of every series, built by `OooBounds.insert` from the puts in arrival order, then
  `OooBounds.published` with the head's maximum and the OOO window) — so the printed omin is a prediction.

  model: replays the observed points through `CompactionProtocol.mstep` (trace validation: an observed
         point whose step is not enabled in the model — e.g. the code went past a wait that the model says
         must block — yields `rejected …`), prints the model's protocol state after each step (compared
         with the real head/db state) and, for `read`, the samples the model's reader sees through its
         head part and its block list.
  judge: independent of the model. The data set is fixed before maintenance starts, so every `read`,
         whatever the position, must return exactly the committed samples of its range, each once; the
         maintenance thread may only be blocked while a query is open, and must finish; and at every
         position the published out-of-order bounds [omin, omax] contain every out-of-order sample that is
         still only in the head (before the first out-of-order GC: all of them).
-/
namespace Prom.CompactionProtocol

/-! ### Parsing -/

structure NewBlk where
  id : Nat
  lo : Int
  hi : Int      -- closed (meta maxt - 1)
  ooo : Bool
  parents : List Nat
deriving Repr, Inhabited

def blkNo? (s : String) : Option Nat :=
  if s.startsWith "B" then (s.drop 1).toString.toNat? else none

def parseNew (s : String) : List NewBlk :=
  if s = "-" then [] else
  (s.splitOn ",").filterMap fun it =>
    match it.splitOn ":" with
    | [b, lo, hi, k, ps] =>
      match blkNo? b, lo.toInt?, hi.toInt? with
      | some id, some lo, some hi =>
        some { id := id, lo := lo, hi := hi - 1, ooo := k = "o",
               parents := if ps = "-" then [] else (ps.splitOn "+").filterMap blkNo? }
      | _, _, _ => none
    | _ => none

def field? (fs : List String) (name : String) : Option String :=
  (fs.find? (·.startsWith (name ++ "="))).map fun f => (f.drop (name.length + 1)).toString

structure Obs where
  point : String
  which : String := ""        -- for blocked:<which>
  blk : Option Nat := none
  news : List NewBlk := []
  hmin : Int := 0
  omin : Int := 0
  /-- not observed, filled in by the model: `recount` over the OOO chunks in the head, head maximum, OOO window -/
  rc : Int := 0
  hmax : Int := 0
  win : Int := 0
deriving Repr, Inhabited

/-- Head.minOOOTime after a GC that leaves chunks with recount `rc` (`Head.MaxTime()` undefined = no clamp). -/
def newOLo (o : Obs) (rc : Int) : Int :=
  if o.hmax = -9223372036854775808 then rc else OooBounds.published o.hmax o.win rc

def parseObs (fs : List String) : Obs :=
  -- fs = tokens after "step"
  let ev := fs.headD "?"
  let (point, which) := match ev.splitOn ":" with
    | [a, b] => (a, b)
    | _ => (ev, "")
  let blk := match fs with
    | _ :: b :: _ => blkNo? b
    | _ => none
  { point := point, which := which, blk := blk,
    news := parseNew ((field? fs "new").getD "-"),
    hmin := ((field? fs "hmin").bind String.toInt?).getD 0,
    omin := ((field? fs "omin").bind String.toInt?).getD 0 }

/-! ### Replaying observed points -/

def label : MAct → String
  | .hWrite .. => "head.written"
  | .hSwap | .oSwap | .cSwap | .dSwap _ => "reload.swapped"
  | .hStoreTrunc => "trunc.timeStored"
  | .hSetFlag => "trunc.flagSet"
  | .hWait => "trunc.waited"
  | .hSetMin => "trunc.minSet"
  | .hGc .. => "gc.done.truncateMemory"
  | .hClear => "head.truncated"
  | .oSnap _ => "ooo.snapshot"
  | .oWrite _ => "ooo.written"
  | .oSetLastGC => "ooo.lastGCSet"
  | .oWait => "ooo.waited"
  | .oGc .. => "gc.done.truncateOOO"
  | .cWrite .. => "blocks.written"
  | .bClose _ => "delete.closed"
  | .bRemove _ => "delete.removed"

def waitKind : MAct → String
  | .hWait => "head-readers"
  | .oWait => "ooo-readers"
  | .bClose _ => "block-readers"
  | _ => ""

/-- The last m-map ref of the OOO head snapshot: the largest ref among the OOO samples still in the head. -/
def presentMaxRef (σ : State) : Nat :=
  σ.data.foldl (fun acc s => if s.ooo && decide (σ.oooGc < s.ref) then max acc s.ref else acc) 0

def isIdle (σ : State) : Bool := match σ.mpc with | .idle => true | _ => false

/-- The next protocol step of the maintenance thread; when it is idle, the observed point says which
    job begins (the job parameters — block ranges, parents — are taken from the observed block metas). -/
def nextAct (σ : State) (o : Obs) : Except String MAct :=
  match σ.mpc with
  | .idle =>
    if o.point.startsWith "head." || o.point.startsWith "trunc." || o.point = "gc.done.truncateMemory" then
      match o.news.find? (fun b => !b.ooo && b.parents.isEmpty) with
      | some b => .ok (.hWrite b.lo (b.hi + 1) b.id)
      | none => .error "no-new-head-block"
    else if o.point.startsWith "ooo." || o.point = "gc.done.truncateOOO" then
      .ok (.oSnap (presentMaxRef σ))
    else if o.point = "blocks.written" || o.point.startsWith "delete." || o.point = "reload.swapped" then
      match o.news.find? (fun b => !b.parents.isEmpty) with
      | some b => .ok (.cWrite b.parents b.id b.lo b.hi)
      | none => .error s!"no-new-compacted-block-at-{o.point}"
    else .error s!"unexpected-{o.point}-when-idle"
  | .hWritten .. => .ok .hSwap
  | .hSwapped _ => .ok .hStoreTrunc
  | .hTimeStored _ => .ok .hSetFlag
  | .hFlagSet _ => .ok .hWait
  | .hWaited _ => .ok .hSetMin
  | .hMinSet _ => .ok (.hGc o.hmin (newOLo o o.rc))
  | .hGcDone _ => .ok .hClear
  | .oSnapped _ => .ok (.oWrite ((o.news.filter fun b => b.ooo && b.parents.isEmpty).map fun b => (b.id, b.lo, b.hi)))
  | .oWritten .. => .ok .oSwap
  | .oSwapped _ => .ok .oSetLastGC
  | .oLastGC _ => .ok .oWait
  -- the data set is fixed: the snapshot covers every OOO chunk, none survives truncateOOO
  | .oWaited _ => .ok (.oGc o.hmin (newOLo o OooBounds.top))
  | .cWritten .. => .ok .cSwap
  | .deleting ps none =>
    match o.blk with
    | some p => .ok (.bClose p)
    | none => match ps with
      | p :: _ => .ok (.bClose p)
      | [] => .error "nothing-to-delete"
  | .deleting _ (some p) => .ok (.bRemove p)

def advance (fuel : Nat) (σ : State) (o : Obs) : Except String State :=
  match fuel with
  | 0 => .error s!"point-{o.point}-not-reached"
  | fuel + 1 =>
    if o.point = "done" then
      if isIdle σ then .ok σ else
      match nextAct σ o with
      | .error e => .error e
      | .ok a => match mstep σ a with
        | some σ' => advance fuel σ' o
        | none => .error s!"not-enabled-{label a}-before-done"
    else if o.point = "blocked" then
      if isIdle σ then .error "blocked-when-idle" else
      match σ.mpc with
      | .deleting ps none =>
        if o.which = "block-readers" && ps.any (fun p => !blockFree σ p) then .ok σ
        else .error s!"blocked-{o.which}-but-every-block-is-free"
      | _ =>
        match nextAct σ o with
        | .error e => .error e
        | .ok a => match mstep σ a with
          | some σ' => advance fuel σ' o
          | none => if waitKind a = o.which then .ok σ else .error s!"blocked-{o.which}-at-{label a}"
    else
      match nextAct σ o with
      | .error e => .error e
      | .ok a => match mstep σ a with
        | none => .error s!"not-enabled-{label a}"
        | some σ' => if label a = o.point then .ok σ' else advance fuel σ' o

/-! ### The simulation -/

structure Sim where
  σ : State := {}
  qs : List (String × Nat) := []
  known : List Nat := []
  begun : Bool := false
  maintOn : Bool := false
  /-- OutOfOrderTimeWindow, OutOfOrderCapMax -/
  win : Int := 0
  cap : Nat := 32
  /-- Head.MaxTime(): the largest in-order timestamp -/
  hmax : Int := -9223372036854775808
  /-- the OOO chunks of every series that are in the head -/
  ooo : List (Nat × OooBounds.OooSeries) := []
deriving Inhabited

def maxI : Int := 9223372036854775807
def minI : Int := -9223372036854775808

def addSample (σ : State) (s : Sample) : State :=
  if s.ooo then
    { σ with data := σ.data ++ [s], oooLo := min σ.oooLo s.t, oooHi := max σ.oooHi s.t }
  else
    { σ with data := σ.data ++ [s], headMin := min σ.headMin s.t, headGc := min σ.headGc s.t }

def emptyState : State := { headMin := maxI, headGc := maxI }

def insertIdx (x : Nat) : List Nat → List Nat
  | [] => [x]
  | y :: ys => if x ≤ y then x :: y :: ys else y :: insertIdx x ys

def sortNat (xs : List Nat) : List Nat := xs.foldr insertIdx []

def showIds (xs : List Nat) : String :=
  if xs.isEmpty then "-" else ",".intercalate ((sortNat xs).map fun n => s!"B{n}")

def b2n (b : Bool) : Nat := if b then 1 else 0

def summary (m : Sim) : String :=
  let σ := m.σ
  s!"hmin={σ.headMin} flag={b2n σ.inProcess} trunc={σ.truncTime} lastgc={b2n (σ.lastGC != 0)} " ++
  s!"ooogc={b2n (σ.oooGc != 0)} omin={σ.oooLo} omax={σ.oooHi} loaded={showIds (blockIds σ)} " ++
  s!"disk={showIds (m.known.filter fun i => !σ.removed.contains i)}"

def sampleLe (a b : Sample) : Bool := a.ser < b.ser || (a.ser == b.ser && (a.t < b.t || (a.t == b.t && a.v ≤ b.v)))

/-- `s0=10:1,20:2;s1=…` — series in index order, samples in time order; `-` when empty. -/
def showSamples (xs : List Sample) : String :=
  let sorted := xs.mergeSort sampleLe
  let sers := (sorted.map (·.ser)).eraseDups
  if sorted.isEmpty then "-" else
  ";".intercalate (sers.map fun k =>
    s!"s{k}=" ++ ",".intercalate ((sorted.filter (·.ser == k)).map fun s => s!"{s.t}:{s.v}"))

def readerActs : List RAct := [.rlock, .readMin, .register, .loadFlag, .loadTrunc, .trackOOO, .runlock]

/-- DB.Querier runs to completion while the maintenance thread is parked: all reader steps at once
    (`loadTrunc` only applies when the flag was seen, `loadFlag` only after a registration). -/
def openReader (σ : State) (lo hi : Int) : State × Nat :=
  let i := σ.readers.length
  let σ := (step σ (.spawn lo hi)).getD σ
  let σ := readerActs.foldl (fun σ a => (step σ (.reader i a)).getD σ) σ
  (σ, i)

def oooInsert (cap : Nat) (l : List (Nat × OooBounds.OooSeries)) (ser : Nat) (t : Int) :
    List (Nat × OooBounds.OooSeries) :=
  match l with
  | [] => [(ser, OooBounds.insert cap {} t)]
  | (k, s) :: rest => if k = ser then (k, OooBounds.insert cap s t) :: rest else (k, s) :: oooInsert cap rest ser t

def modelOp (m : Sim) (op : String) : Sim × String :=
  match toks op with
  | "cfg" :: args =>
    if m.begun then (m, "already") else
    let win := ((args.drop 1).head?.bind String.toInt?).getD 0
    let cap := ((args.drop 3).head?.bind String.toNat?).getD 32
    ({ m with σ := emptyState, begun := true, win := win, cap := if cap = 0 then 32 else cap }, "ok")
  | ["put", s, t, v, o] =>
    if !m.begun then (m, "nodb") else
    match s.toNat?, t.toInt?, v.toInt? with
    | some s, some t, some v =>
      let smp : Sample := { ser := s, t := t, v := v, ooo := o = "1", ref := if o = "1" then 1 else 0 }
      let m := if smp.ooo then { m with ooo := oooInsert m.cap m.ooo s t } else { m with hmax := max m.hmax t }
      ({ m with σ := addSample m.σ smp }, "ok")
    | _, _, _ => (m, "bad-op")
  | "maint" :: _ =>
    if !m.begun then (m, "nodb") else
    if m.maintOn then (m, "busy") else ({ m with maintOn := true }, "started")
  | "step" :: fs =>
    if !m.begun then (m, "nodb") else
    let o := { parseObs fs with rc := OooBounds.recount (m.ooo.map (·.2)), hmax := m.hmax, win := m.win }
    let m := { m with known := m.known ++ (o.news.map (·.id)).filter fun i => !m.known.contains i }
    if o.point = "nomaint" then (m, summary m) else
    -- reloadBlocks marks the parents of every loaded block deletable, whether or not they still exist:
    -- `delete.closed` for a block that is already gone (or never existed: the zero ULID that
    -- out-of-order blocks name as their parent) is followed by no action.
    if o.point = "delete.closed" && (match o.blk with | some p => m.σ.removed.contains p | none => true) then
      (m, summary m) else
    if !m.maintOn then (m, "rejected step-without-maintenance") else
    match advance 40 m.σ o with
    | .ok σ' =>
      let m := { m with σ := σ', maintOn := if o.point = "done" then false else m.maintOn,
                        ooo := if σ'.oooGc != m.σ.oooGc then [] else m.ooo }
      (m, summary m)
    | .error e => (m, s!"rejected {e}")
  | ["open", q, lo, hi] =>
    if !m.begun then (m, "nodb") else
    if (m.qs.find? (·.1 == q)).isSome then (m, "dupq") else
    match lo.toInt?, hi.toInt? with
    | some lo, some hi =>
      let (σ', i) := openReader m.σ lo hi
      ({ m with σ := σ', qs := (q, i) :: m.qs }, "ok")
    | _, _ => (m, "bad-op")
  | ["read", q] =>
    match m.qs.find? (·.1 == q) with
    | some (_, i) =>
      match m.σ.readers[i]? with
      | some r => (m, showSamples (view m.σ r))
      | none => (m, "noq")
    | none => (m, "noq")
  | ["close", q] =>
    match m.qs.find? (·.1 == q) with
    | some (_, i) =>
      let σ' := (step m.σ (.reader i .close)).getD m.σ
      ({ m with σ := σ', qs := m.qs.filter (·.1 != q) }, "ok")
    | none => (m, "noq")
  | _ => (m, "bad-op")

def model (ops : List String) : List String :=
  let rec go (m : Sim) : List String → List String
    | [] => []
    | op :: rest => let (m', out) := modelOp m op; out :: go m' rest
  go {} ops

/-! ### The judge: C06's statement on the implementation's outputs (no model involved) -/

/-- What a query over [lo,hi] must return: exactly the committed samples in range, each once. -/
def expected (data : List Sample) (lo hi : Int) : List Sample :=
  data.filter fun s => decide (lo ≤ s.t) && decide (s.t ≤ hi)

/-- Parse `s0=10:1,20:2;s1=…` back into (series, t, v) triples, in the printed order. -/
def parseRead (s : String) : Option (List (Nat × Int × Int)) :=
  if s = "-" then some [] else
  (s.splitOn ";").foldlM (fun acc grp =>
    match grp.splitOn "=" with
    | [k, body] =>
      if k.startsWith "s" then
        match (k.drop 1).toString.toNat? with
        | some ser =>
          (body.splitOn ",").foldlM (fun acc tv =>
            match tv.splitOn ":" with
            | [t, v] => match t.toInt?, v.toInt? with
              | some t, some v => some (acc ++ [(ser, t, v)])
              | _, _ => none
            | _ => none) acc
        | none => none
      else none
    | _ => none) []

def triple (s : Sample) : Nat × Int × Int := (s.ser, s.t, s.v)

/-- The statement for one read: `none` = holds; otherwise which clause failed, on which sample. -/
def readHolds (data : List Sample) (lo hi : Int) (got : List (Nat × Int × Int)) : Option String :=
  let want := ((expected data lo hi).mergeSort sampleLe).map triple
  match want.find? (fun x => !got.contains x) with
  | some (k, t, _) => some s!"missing s{k}@{t}"
  | none =>
    match got.find? (fun x => !want.contains x) with
    | some (k, t, v) =>
      if (want.find? fun w => w.1 == k && w.2.1 == t).isSome then some s!"wrong-value s{k}@{t}:{v}"
      else some s!"extra s{k}@{t}"
    | none =>
      if got.length != want.length then some "duplicated"
      else if got != want then some "unordered" else none

structure JSt where
  data : List Sample := []
  qs : List (String × Int × Int) := []
  pos : String := "start"
  maintOn : Bool := false
  finishedOk : Bool := true
  /-- the out-of-order samples are still in the head (no out-of-order GC yet) -/
  oooLive : Bool := true
  sawSnap : Bool := false

/-- The published OOO bounds must contain every out-of-order sample that is only in the head: `none` = holds. -/
def boundsHold (data : List Sample) (out : String) : Option String :=
  let fs := toks out
  match (field? fs "omin").bind String.toInt?, (field? fs "omax").bind String.toInt? with
  | some lo, some hi =>
    match data.find? (fun s => s.ooo && (decide (s.t < lo) || decide (hi < s.t))) with
    | some s => some s!"s{s.ser}@{s.t} omin={lo} omax={hi}"
    | none => none
  | _, _ => none

def judge (ops outs : List String) : String :=
  let rec go (st : JSt) : List String → List String → String
    | op :: ops, out :: outs =>
      match toks op with
      | ["put", s, t, v, o] =>
        match s.toNat?, t.toInt?, v.toInt? with
        | some s, some t, some v =>
          if out = "ok" then go { st with data := st.data ++ [{ ser := s, t := t, v := v, ooo := o = "1", ref := 0 }] } ops outs
          else go st ops outs
        | _, _, _ => go st ops outs
      | "maint" :: _ => go { st with maintOn := out = "started" || st.maintOn, pos := "start" } ops outs
      | "step" :: ev :: _ =>
        if ev.startsWith "blocked" && st.qs.isEmpty then
          s!"violation maintenance-blocked-without-open-query at={st.pos} {ev}"
        else if ev = "stuck" then s!"violation maintenance-stuck at={st.pos}"
        else if ev.startsWith "done" then
          if ev = "done:ok" then
            go { st with maintOn := false, pos := "done", oooLive := st.oooLive && !st.sawSnap } ops outs
          else s!"violation maintenance-failed {ev}"
        else
          let st := { st with sawSnap := st.sawSnap || ev = "ooo.snapshot" }
          match (if st.oooLive && ev != "gc.done.truncateOOO" then boundsHold st.data out else none) with
          | some why => s!"violation ooo-bounds-exclude-head-sample {why} at={ev}"
          | none =>
            go { st with pos := if ev.startsWith "blocked" then st.pos else ev,
                         oooLive := st.oooLive && ev != "gc.done.truncateOOO" } ops outs
      | ["open", q, lo, hi] =>
        match lo.toInt?, hi.toInt? with
        | some lo, some hi =>
          if out = "ok" then go { st with qs := (q, lo, hi) :: st.qs } ops outs
          else s!"violation open-failed q={q} at={st.pos} {out}"
        | _, _ => go st ops outs
      | ["read", q] =>
        match st.qs.find? (·.1 == q) with
        | some (_, lo, hi) =>
          match parseRead out with
          | none => s!"violation read-error q={q} range={lo}..{hi} at={st.pos} {out}"
          | some got =>
            match readHolds st.data lo hi got with
            | some why => s!"violation {why} q={q} range={lo}..{hi} at={st.pos}"
            | none => go st ops outs
        | none => go st ops outs
      | ["close", q] => go { st with qs := st.qs.filter (·.1 != q) } ops outs
      | _ => go st ops outs
    | _, _ => if st.maintOn then "violation maintenance-not-finished" else "ok"
  go {} ops outs

def suite : Suite := { name := "race", model := model, judge := judge }

end Prom.CompactionProtocol
