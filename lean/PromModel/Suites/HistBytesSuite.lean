import PromModel.Tsdb.HistChunk
import PromModel.Suites.HistSuite
/-
  Suite `histbytes` (C11 stage 2): the bytes of integer histogram chunks.
  See harness/suites/histbytes/main.go for the op grammar:
    capp <cut> <t> <hist>  -> same | new | recoded      (chunk-appender emulation as in suite hist)
    cbytes                 -> i:<hex of Bytes()> | f:<hex of Bytes()>   per chunk (int / float histogram chunk),
                              oldest first, joined by `|` (`-` if none)
  model: the layout-level appender (`Prom.Hist.appendHist`) decides the chunk contents, `Prom.HistChunk.encodeChunk`
         gives the bytes (byte-exact comparison with the real `HistogramChunk.Bytes()`).
  judge: independent of the appended sequence — every chunk byte string the implementation produced is decoded by the
         model's transcription of `histogramIterator` / `floatHistogramIterator` and encodes back to exactly the same bytes
         (`histchunk_roundtrip`'s statement evaluated on real chunks).
-/
namespace Prom.HistBytesSuite
open Prom.Hist Prom.HistSuite Prom.HistChunk Prom.Bits

structure St where
  /-- chunks, newest first -/
  chunks : List Chunk := []
deriving Inhabited

def bytesStr (cs : List Chunk) : String :=
  if cs.isEmpty then "-" else
  "|".intercalate (cs.reverse.map fun c => (if c.float then "f:" else "i:") ++ hexOfByteList (encodeChunk c))

def step (st : St) (line : String) : St × String :=
  match toks line with
  | ["capp", cut, t, h] =>
    match t.toInt?, parseHist? h with
    | some t, some h =>
      let fresh : Bool := match st.chunks with
        | [] => true
        | c :: _ => cut = "1" || c.float != h.float
      if fresh then
        match appendHist st.chunks.head? (Chunk.empty h.float) t h with
        | .error _ => (st, "panic")
        | .ok r => ({ st with chunks := r.chunk :: st.chunks }, outcomeStr r.out)
      else
        match st.chunks with
        | [] => (st, "bad-state")
        | c :: older =>
          match appendHist none c t h with
          | .error _ => (st, "panic")
          | .ok r =>
            let cs := if r.out = .newChunk then r.chunk :: c :: older else r.chunk :: older
            ({ st with chunks := cs }, outcomeStr r.out)
    | _, _ => (st, "bad-op")
  | ["cbytes"] => (st, bytesStr st.chunks)
  | _ => (st, "bad-op")

def runLines : St → List String → List String
  | _, [] => []
  | st, l :: rest => let r := step st l; r.2 :: runLines r.1 rest

def model (ops : List String) : List String := runLines {} ops

/-- `decodeChunk` then `encodeChunk` gives the same bytes -/
def roundtrips (float : Bool) (bytes : List Nat) : Bool :=
  match (if float then decodeChunkF bytes else decodeChunk bytes) with
  | some c => encodeChunk c == bytes
  | none => false

def judgeChunk (k : Nat) (tok : String) : Option String :=
  if tok = "-" then none
  else if tok.startsWith "i:" ∨ tok.startsWith "f:" then
    match bytesOfHex? (tok.drop 2).toString with
    | some bs =>
      if roundtrips (tok.startsWith "f:") (bs.map (·.toNat)) then none
      else some s!"violation decode-encode op={k} chunk={tok}"
    | none => some s!"violation bad-hex op={k}"
  else some s!"violation bad-token op={k} {tok}"

def judgeLines : Nat → List String → List String → Option String
  | _, [], _ => none
  | _, _, [] => none
  | k, op :: ops, out :: outs =>
    let here := if op = "cbytes" then (out.splitOn "|").findSome? (judgeChunk k) else none
    match here with
    | some v => some v
    | none => judgeLines (k + 1) ops outs

def judge (ops outs : List String) : String := (judgeLines 0 ops outs).getD "ok"

def suite : Suite := { name := "histbytes", model := model, judge := judge }

end Prom.HistBytesSuite
