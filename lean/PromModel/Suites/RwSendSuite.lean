import PromModel.Remote.QueueShards
import PromModel.Remote.WriteRelabel
import PromModel.Suites.RelabelSuite
/-
  Suite `rwsend` (C40): a real `remote.QueueManager` against a scripted fake endpoint
  (harness/suites/rwsend/main.go describes the ops).

  model   The ops of a case are turned into a *schedule* of `QueueShards.Act`ions (the canonical one: the
          send loop of a shard runs as soon as it has a full batch and the client is not blocked; partial
          batches leave only by a flush) and the schedule is run through `QueueShards.step`; an action that is
          not enabled makes the model print `model-stuck`.  In `det` mode the real run is driven so that this
          is what happens, and the model's prediction of the endpoint's per-series receive sequence (with
          the duplicates of scripted retries) and of the counters must be met exactly.  In `race` mode the
          real schedule is whatever the Go scheduler produced; there the prediction is the part every
          admissible schedule agrees on: the first occurrences per series (= complete in-order delivery).
  judge   The property statement on the OBSERVATIONS carried by the `end` op line (raw per-series receive
          sequences, which samples the endpoint stored before answering with an error, which batches it
          refused for good), using only the ops — not the model.

  Labels (`WriteRelabel.storeLabels`): whether a `series`/`lseries` op is kept or dropped and which label set
  its samples must arrive with is computed HERE (model and judge), from the external labels (`ext` op), the
  write_relabel_configs (`rule` ops, the line format of suite `relabel`) and the series' own labels, in the
  documented order: external labels merged without overriding a series label, then relabelling.  The harness
  reports, per ref, the label sets its samples arrived with (`lbl=` of the `end` output); samples are attributed
  to refs by their id, never by their labels.  Without `rl=1` in the cfg line the case uses the fixed legacy
  configuration (external labels ext="e", zone="z"; rules: drop d=~"1", replace s → t="x$1").
-/
namespace Prom.QueueShards
open Prom.Relabel (Label Config parseRule? parsePairs? renderListing parseListing? sortLabels compile?)

/-! ### external labels + write relabel configs of a case -/

structure RL where
  ext : List Label := []
  cfgs : List Config := []

def legacyRL : RL :=
  let rx (p : String) : Relabel.Regex := ((compile? p).getD default).toRegex false
  { ext := [⟨"ext", "e"⟩, ⟨"zone", "z"⟩],
    cfgs := [
      { action := .drop, sourceLabels := ["d"], separator := ";", regex := rx "1", modulus := 0,
        targetLabel := "", replacement := "$1", utf8 := true },
      { action := .replace, sourceLabels := ["s"], separator := ";", regex := rx "(.*)", modulus := 0,
        targetLabel := "t", replacement := "x$1", utf8 := true }] }

/-- labels of the legacy `series <ref> <lid> <kind> <seg>` op -/
def legacyLabels (lid kind : String) : List Label :=
  let base : List Label := [⟨"__name__", "m"⟩, ⟨"s", lid⟩]
  if kind == "drop" then base ++ [⟨"d", "1"⟩] else if kind == "own" then base ++ [⟨"ext", "own"⟩] else base

/-- `StoreSeries` of one series under the case's configuration: `none` = dropped. -/
def RL.store (rl : RL) (ls : List Label) : Option (List Label) :=
  WriteRelabel.storeLabels (sortLabels rl.ext) rl.cfgs (sortLabels ls)

/-- A declaration op: (ref, segment, the series' own labels). -/
def parseDecl? (ts : List String) : Option (Nat × Nat × List Label) :=
  match ts with
  | ["series", ref, lid, kind, seg] => some (ref.toNat?.getD 0, seg.toNat?.getD 0, legacyLabels lid kind)
  | "lseries" :: ref :: seg :: pairs => (parsePairs? pairs).map fun ls => (ref.toNat?.getD 0, seg.toNat?.getD 0, ls)
  | _ => none

/-- Configuration ops (`ext`, `rule`); only before the first feed op and only with `rl=1`.
    Returns the new configuration and the output line. -/
def RL.cfgOp (rl : RL) (explicit started : Bool) (ts : List String) : Option (RL × String) :=
  match ts with
  | "ext" :: pairs =>
    if !explicit || started then some (rl, "bad-op") else
    match parsePairs? pairs with
    | some ls => some ({ rl with ext := ls }, "ok")
    | none => some (rl, "bad-op")
  | "rule" :: rest =>
    if !explicit || started then some (rl, "bad-op") else
    match parseRule? rest with
    | some r => if r.cfg.validate then some ({ rl with cfgs := rl.cfgs ++ [r.cfg] }, "ok") else some (rl, "invalid")
    | none => some (rl, "unsupported")
  | _ => none

/-- `<ref>=<listing>[|<listing>…];…` ↦ [(ref, listings)] -/
def parseLbl (s : String) : List (Nat × List String) :=
  if s = "-" || s = "" then [] else
  (s.splitOn ";").filterMap fun p =>
    match p.splitOn "=" with
    | [r, ls] => r.toNat?.map fun r => (r, ls.splitOn "|")
    | _ => none

/-! ### small parsing helpers -/

def kvOf (toks : List String) (key : String) : Option String :=
  (toks.find? (·.startsWith (key ++ "="))).map fun t => (t.drop (key.length + 1)).toString

def natOf (toks : List String) (key : String) : Nat := ((kvOf toks key).bind (·.toNat?)).getD 0

def parseDotNats (s : String) : List Nat :=
  if s = "-" || s = "" then [] else (s.splitOn ".").filterMap (·.toNat?)

/-- `6:22.25;7:4.5` ↦ [(6,[22,25]),(7,[4,5])] -/
def parseSeqMap (s : String) : List (Nat × List Nat) :=
  if s = "-" || s = "" then [] else
  (s.splitOn ";").filterMap fun p =>
    match p.splitOn ":" with
    | [r, ids] => r.toNat?.map fun r => (r, parseDotNats ids)
    | _ => none

def showDotNats (xs : List Nat) : String := ".".intercalate (xs.map toString)

def insertSorted (x : Nat) : List Nat → List Nat
  | [] => [x]
  | y :: ys => if x < y then x :: y :: ys else if x = y then y :: ys else y :: insertSorted x ys

def firstOcc (xs : List Nat) : List Nat :=
  xs.foldl (fun acc x => if acc.contains x then acc else acc ++ [x]) []

/-- Group an oldest-first log by ref, refs ascending. -/
def showLog (log : List Sample) (dedup : Bool) : String :=
  let refs := log.foldl (fun acc x => insertSorted x.ref acc) []
  if refs.isEmpty then "-" else
  ";".intercalate (refs.map fun r =>
    let ids := (log.filter (·.ref = r)).map (·.id)
    s!"{r}:{showDotNats (if dedup then firstOcc ids else ids)}")

/-! ### model: ops ↦ schedule ↦ run -/

structure Drv where
  s : St
  script : List (Nat × List Char) := []
  race : Bool := false
  age : Bool := false
  blocked : Bool := false
  att : Nat := 0                       -- attempt number of the batch in flight of the shard being drained
  stuck : Bool := false
  hardSeen : Bool := false
  segs : List (Nat × Nat) := []        -- seriesSegmentIndexes
  trace : List Act := []               -- the schedule, newest first
  rl : RL := legacyRL
  explicit : Bool := false             -- cfg rl=1
  started : Bool := false              -- a feed op was seen (the QueueManager exists)
  lbls : List (Nat × List Label) := [] -- seriesLabels (latest StoreSeries that kept the ref)

def Drv.act (d : Drv) (a : Act) : Drv :=
  if d.stuck then d else
  match step d.s a with
  | some s' => { d with s := s', trace := a :: d.trace }
  | none => { d with stuck := true }

/-- Outcome of attempt `k` for a batch: the script of its first scripted sample. -/
def outcome (script : List (Nat × List Char)) (batch : List Sample) (k : Nat) : Char :=
  match batch.findSome? (fun x => (script.find? (·.1 = x.id)).map (·.2)) with
  | some oc => oc.getD k 'k'
  | none => 'k'

/-- Run the send loop of shard `i` until it has nothing complete to send. -/
def drainShard (d : Drv) (i : Nat) : Nat → Drv
  | 0 => d
  | fuel + 1 =>
    if d.stuck then d else
    let sh := d.s.shards i
    if sh.exited then d
    else if sh.inflight.isEmpty then
      if sh.chan.isEmpty then d else drainShard ({ d with att := 0 }.act (.recv i)) i fuel
    else
      match outcome d.script sh.inflight d.att with
      | 'r' => drainShard ({ d with att := d.att + 1 }.act (.sendRecov i false)) i fuel
      | 'R' => drainShard ({ d with att := d.att + 1 }.act (.sendRecov i true)) i fuel
      | 'u' => drainShard (d.act (.sendUnrecov i)) i fuel
      | _ => drainShard (d.act (.sendOk i)) i fuel

def drainAll (d : Drv) : Drv := (List.range d.s.n).foldl (fun d i => drainShard d i 100000) d

def stopShards (d : Drv) (hard : Bool) : Drv :=
  let d := d.act .softStop
  if hard then
    let d := { d.act .hardStop with hardSeen := true }
    (List.range d.s.n).foldl (fun d i => d.act (.hardExit i)) d
  else
    (List.range d.s.n).foldl (fun d i => (drainShard (d.act (.flush i)) i 100000).act (.exit i)) d

/-- `recv`'s companion: for every ref the endpoint received something of, the label set it must carry. -/
def showLbls (log : List Sample) (lbls : List (Nat × List Label)) : String :=
  let refs := log.foldl (fun acc x => insertSorted x.ref acc) []
  if refs.isEmpty then "-" else
  ";".intercalate (refs.map fun r =>
    s!"{r}={match lbls.find? (·.1 = r) with | some p => renderListing p.2 | none => "?"}")

def Drv.op (d : Drv) (line : String) : Drv × String :=
  match d.rl.cfgOp d.explicit d.started (toks line) with
  | some (rl, out) => ({ d with rl := rl }, out)
  | none =>
  match parseDecl? (toks line) with
  | some (ref, seg, ls) =>
    let d := { d with started := true, segs := (ref, seg) :: d.segs.filter (·.1 ≠ ref) }
    match d.rl.store ls with
    | some l => ({ d with lbls := (ref, l) :: d.lbls.filter (·.1 ≠ ref) }.act (.storeSeries ref true), "ok")
    | none => (d.act (.storeSeries ref false), "ok")
  | none =>
  let d := if (toks line).head? == some "script" then d else { d with started := true }
  match toks line with
  | ["script", id, oc] =>
    let id := id.toNat?.getD 0
    ({ d with script := d.script.filter (·.1 ≠ id) ++ [(id, oc.toList)] }, "ok")
  | ["sreset", idx] =>
    let idx := idx.toNat?.getD 0
    let gone := (d.segs.filter (·.2 < idx)).map (·.1)
    ({ d with segs := d.segs.filter (fun p => !(p.2 < idx)) }.act (.seriesReset gone), "ok")
  | ["app", ref, id, _kind, fresh] =>
    let ref := ref.toNat?.getD 0
    let d := d.act (.append ref (id.toNat?.getD 0) (d.age && fresh == "old"))
    (if d.blocked || d.s.n = 0 then d else drainShard d (ref % d.s.n) 100000, "ok")
  | ["block"] => (if d.race then d else { d with blocked := true }, "ok")
  | ["release"] => (drainAll { d with blocked := false }, "ok")
  | ["reshard", n, how] =>
    let hard := how == "hard" && !d.race
    let d := if hard then d else drainAll { d with blocked := false }
    ((stopShards d hard).act (.start (n.toNat?.getD 1)), "ok")
  | ["sync"] => (d, "ok")
  | ["pause", _] => (d, "ok")
  | "end" :: how :: obs =>
    if natOf obs "inc" = 1 then (d, "inconclusive") else
    let hard := how == "hard" && !d.race
    let d := if hard then d else drainAll { d with blocked := false }
    let d := stopShards d hard
    if d.stuck then (d, "model-stuck") else
    let s := d.s
    let star := fun (b : Bool) (v : Nat) => if b then "*" else toString v
    (d, s!"recv={showLog s.received.reverse d.race} att={star (d.race || d.hardSeen) s.attemptCnt} " ++
        s!"failed={star (!d.race && d.hardSeen) s.failedCnt} retried={star d.race s.retriedCnt} " ++
        s!"old={s.droppedOld} dser={s.droppedSeriesCnt} dunk={s.droppedUnknown} bad=0 sentdiff=0 " ++
        s!"pend={if !d.race && d.hardSeen then "*" else "0"} lbl={showLbls s.received.reverse d.lbls}")
  | _ => (d, "bad-op")

def runOps (d : Drv) : List String → List String
  | [] => []
  | l :: rest => let (d', out) := d.op l; out :: runOps d' rest

def model (ops : List String) : List String :=
  match ops with
  | cfg :: rest =>
    match toks cfg with
    | "cfg" :: kvs =>
      let mss := natOf kvs "mss"
      let cap := natOf kvs "cap"
      let n := natOf kvs "n"
      if mss = 0 || cap = 0 || n = 0 then ops.map fun _ => "bad-case" else
      let chanCap := if cap / mss = 0 then 1 else cap / mss
      let explicit := natOf kvs "rl" = 1
      "ok" :: runOps { s := init mss chanCap n, race := kvOf kvs "mode" == some "race", age := natOf kvs "age" = 1,
                       explicit := explicit, rl := if explicit then {} else legacyRL } rest
    | _ => ops.map fun _ => "bad-case"
  | [] => []

/-! ### judge: the property statement on the observations -/

structure JSt where
  age : Bool
  rl : RL := legacyRL
  explicit : Bool := false
  started : Bool := false
  want : List (Nat × List Label) := []  -- every (ref, label set) a StoreSeries kept
  kept : List Nat := []
  dropped : List Nat := []
  everDropped : List Nat := []
  segs : List (Nat × Nat) := []
  inScope : List (Nat × Nat) := []      -- (ref, id), newest first
  epoch : List (Nat × Nat) := []        -- in-scope samples fed since the last shards.start
  hardLost : List (Nat × Nat) := []
  old : Nat := 0
  dser : Nat := 0
  dunk : Nat := 0

/-- Scan one series' receive sequence: every element is larger than everything before it, or repeats an
    earlier element that the endpoint is known to have stored in a request it answered with an error. -/
def scanSeq (ref : Nat) (reached : List Nat) : List Nat → List Nat → Option String
  | _, [] => none
  | seen, x :: rest =>
    if seen.all (· < x) then scanSeq ref reached (x :: seen) rest
    else if seen.contains x then
      if reached.contains x then scanSeq ref reached seen rest
      else some s!"duplicate-without-failure ref={ref} id={x}"
    else some s!"reordered ref={ref} id={x} after={(seen.foldl max 0)}"

def judgeEnd (j : JSt) (opToks outToks : List String) : Option String :=
  if natOf opToks "inc" = 1 then none else
  let raw := parseSeqMap ((kvOf opToks "raw").getD "-")
  let reached := parseDotNats ((kvOf opToks "reached").getD "-")
  let unrec := parseDotNats ((kvOf opToks "unrec").getD "-")
  let failed := natOf opToks "failed"
  if natOf outToks "bad" ≠ 0 then some s!"wrong-labels-or-timestamp count={natOf outToks "bad"}" else
  -- nothing that was not fed (in scope) is received: dropped series, unknown refs, too old samples
  match raw.findSome? (fun (p : Nat × List Nat) => (p.2.find? (fun id => !j.inScope.contains (p.1, id))).map (fun id => (p.1, id))) with
  | some (r, id) =>
    if j.everDropped.contains r then some s!"dropped-series-sent ref={r} id={id}"
    else some s!"out-of-scope-sample-sent ref={r} id={id}"
  | none =>
  -- the samples of a kept series arrive with exactly relabel(series labels + external labels)
  match (parseLbl ((kvOf outToks "lbl").getD "-")).findSome? (fun (p : Nat × List String) =>
      (p.2.find? (fun l => !(match parseListing? l with
        | some ls => j.want.any (fun w => w.1 = p.1 && w.2 == ls)
        | none => false))).map (fun l => (p.1, l))) with
  | some (r, l) =>
    some s!"wrong-label-set ref={r} got={l} want={match j.want.find? (·.1 = r) with | some w => renderListing w.2 | none => "none"}"
  | none =>
  match raw.find? (fun (p : Nat × List Nat) => !p.2.isEmpty && !(parseLbl ((kvOf outToks "lbl").getD "-")).any (·.1 = p.1)) with
  | some (r, _) => some s!"labels-not-reported ref={r}"
  | none =>
  match raw.findSome? (fun (p : Nat × List Nat) => scanSeq p.1 reached [] p.2) with
  | some v => some v
  | none =>
  match j.inScope.reverse.find? (fun (p : Nat × Nat) =>
      !(((raw.find? (·.1 = p.1)).map (·.2)).getD []).contains p.2 && !unrec.contains p.2 && !j.hardLost.contains p) with
  | some (r, id) => some s!"sample-lost ref={r} id={id}"
  | none =>
  if natOf outToks "old" ≠ j.old || natOf outToks "dser" ≠ j.dser || natOf outToks "dunk" ≠ j.dunk then
    some s!"drop-counter-mismatch want={j.old}/{j.dser}/{j.dunk} got={natOf outToks "old"}/{natOf outToks "dser"}/{natOf outToks "dunk"}"
  else if (kvOf outToks "sentdiff").getD "0" ≠ "0" then some s!"sent-counter-mismatch diff={(kvOf outToks "sentdiff").getD "?"}"
  else if failed ≠ unrec.length + j.hardLost.length then
    let want := unrec.length + j.hardLost.length
    -- over-count after a hard shutdown of several shards is the known accounting defect (C40-F1)
    if !j.hardLost.isEmpty && failed > want then some s!"failed-overcount-after-hard-shutdown want={want} got={failed}"
    else some s!"failed-counter-mismatch want={want} got={failed}"
  else
    let pend := (kvOf opToks "pend").getD "0"
    if pend ≠ "0" then
      if !j.hardLost.isEmpty && pend.startsWith "-" then some s!"pending-negative-after-hard-shutdown pend={pend}"
      else some s!"pending-gauge-nonzero pend={pend}"
    else none

def judgeOps (j : JSt) (k : Nat) : List String → List String → Option String
  | op :: ops, out :: outs =>
    match j.rl.cfgOp j.explicit j.started (toks op) with
    | some (rl, _) => judgeOps { j with rl := rl } (k + 1) ops outs
    | none =>
    match parseDecl? (toks op) with
    | some (ref, seg, ls) =>
      let j := { j with started := true, segs := (ref, seg) :: j.segs.filter (·.1 ≠ ref) }
      -- the documented order: external labels merged (the series' own label wins), then write relabeling
      judgeOps (match j.rl.store ls with
        | none => { j with dropped := ref :: j.dropped, everDropped := ref :: j.everDropped }
        | some l => { j with kept := ref :: j.kept, want := (ref, l) :: j.want })
        (k + 1) ops outs
    | none =>
    let j := if (toks op).head? == some "script" then j else { j with started := true }
    match toks op with
    | ["sreset", idx] =>
      let idx := idx.toNat?.getD 0
      let gone := (j.segs.filter (·.2 < idx)).map (·.1)
      judgeOps { j with segs := j.segs.filter (fun p => !(p.2 < idx)), kept := j.kept.filter (!gone.contains ·),
                        dropped := j.dropped.filter (!gone.contains ·) } (k + 1) ops outs
    | ["app", ref, id, _, fresh] =>
      let ref := ref.toNat?.getD 0
      let id := id.toNat?.getD 0
      judgeOps (if j.age && fresh == "old" then { j with old := j.old + 1 }
        else if j.kept.contains ref then { j with inScope := (ref, id) :: j.inScope, epoch := (ref, id) :: j.epoch }
        else if j.dropped.contains ref then { j with dser := j.dser + 1 }
        else { j with dunk := j.dunk + 1 }) (k + 1) ops outs
    | ["reshard", _, how] =>
      judgeOps (if how == "hard" then { j with hardLost := j.epoch ++ j.hardLost, epoch := [] } else { j with epoch := [] })
        (k + 1) ops outs
    | "end" :: how :: obs =>
      let j := if how == "hard" then { j with hardLost := j.epoch ++ j.hardLost } else j
      match judgeEnd j obs (toks out) with
      | some v => some s!"violation {v}"
      | none => none
    | _ => judgeOps j (k + 1) ops outs
  | _, _ => none

def judge (ops outs : List String) : String :=
  match ops, outs with
  | cfg :: rest, _ :: outs =>
    match toks cfg with
    | "cfg" :: kvs =>
      let explicit := natOf kvs "rl" = 1
      (judgeOps { age := natOf kvs "age" = 1, explicit := explicit, rl := if explicit then {} else legacyRL } 1 rest outs).getD "ok"
    | _ => "ok"
  | _, _ => "ok"

def suite : Suite := { name := "rwsend", model := model, judge := judge }

end Prom.QueueShards
