import PromModel.Tsdb.HistLayout
import PromModel.Tsdb.HistMem
/-
  Suite `hist` (property C11): layout functions, chunk appenders and the head's histogram path.
  See harness/suites/hist/main.go for the op grammar.  The string layer is thin; everything of
  substance is `Prom.Hist` (PromModel/Tsdb/HistLayout.lean).

  judge (independent of the model): what is read back — from the chunks, from the head, after reopen,
  from blocks — is, sample by sample, the appended sequence: same timestamps, stale markers where stale
  markers were appended, otherwise the same flavour, schema, zero threshold, custom bounds, count, zero
  count, sum and the same count in every bucket (`Hist.sem`); the caller's histogram is semantically
  unchanged (and keeps its hint); plus the C12 predicate on every read stream, and the statement of
  `expand_sound` on the outputs of the layout hooks.

  alias ops (`amem`/`aapp`, see the harness): the caller's histograms are views into shared arrays
  (`Prom.Hist.Mem`/`HView`, PromModel/Tsdb/HistMem.lean); the model is `appendMem`; the judge evaluates the
  frame statement of `caller_memory_frame` on what the harness observed in the real memory: no cell of the
  caller's arrays was written (`mem=-`), no other histogram held by the caller changed (`held=-`), the
  appended one means the same.  `ascr`: the caller overwrites all its arrays (it owns them); the chunks must
  not depend on them — what follows (appends from fresh memory, reads) is judged as before.
-/
namespace Prom.HistSuite
open Prom.Hist

/-! ### text layer -/

def hex16 (n : Nat) : String := hexOfNat n 16

def spansStr (l : List Span) : String :=
  if l.isEmpty then "-" else ",".intercalate (l.map fun s => s!"{s.offset}:{s.length}")

def parseSpans? (s : String) : Option (List Span) :=
  if s = "-" then some [] else
  (s.splitOn ",").mapM fun p =>
    match p.splitOn ":" with
    | [a, b] => do pure ⟨← a.toInt?, ← b.toNat?⟩
    | _ => none

def insStr (l : List Insert) : String :=
  if l.isEmpty then "-" else ",".intercalate (l.map fun x => s!"{x.pos}:{x.num}:{x.bucketIdx}")

def parseIns? (s : String) : Option (List Insert) :=
  if s = "-" then some [] else
  (s.splitOn ",").mapM fun p =>
    match p.splitOn ":" with
    | [a, b, c] => do pure ⟨← a.toNat?, ← b.toNat?, ← c.toInt?⟩
    | _ => none

def hexList? (s : String) : Option (List Nat) :=
  if s = "-" then some [] else (s.splitOn ",").mapM natOfHex?

def hexListStr (l : List Nat) : String := if l.isEmpty then "-" else ",".intercalate (l.map hex16)

/-- bucket values: decimal deltas (int flavour) or hex bits (float flavour) -/
def parseVals? (float : Bool) (s : String) : Option (List Int) :=
  if float then (hexList? s).map (·.map Int.ofNat) else parseIntList? s

def valsStr (float : Bool) (l : List Int) : String :=
  if float then hexListStr (l.map Int.toNat) else showIntList l

def hintNum : Hint → Nat
  | .unknown => 0 | .reset => 1 | .notReset => 2 | .gauge => 3

def hintOfNum? : Nat → Option Hint
  | 0 => some .unknown | 1 => some .reset | 2 => some .notReset | 3 => some .gauge | _ => none

def parseHist? (tok : String) : Option Hist :=
  match tok.splitOn "/" with
  | [fl, hint, schema, zt, cnt, zc, sum, ps, ns, pb, nb, cv] => do
    let float ← (if fl = "f" then some true else if fl = "i" then some false else none)
    let hint ← hintOfNum? (← hint.toNat?)
    let count ← (if float then natOfHex? cnt else cnt.toNat?)
    let zcount ← (if float then natOfHex? zc else zc.toNat?)
    pure { float, hint, schema := ← schema.toInt?, zt := ← natOfHex? zt, count, zcount, sum := ← natOfHex? sum,
           pSpans := ← parseSpans? ps, nSpans := ← parseSpans? ns, pB := ← parseVals? float pb, nB := ← parseVals? float nb,
           custom := ← hexList? cv }
  | _ => none

def histStr (h : Hist) : String :=
  "/".intercalate [if h.float then "f" else "i", toString (hintNum h.hint), toString h.schema, hex16 h.zt,
    if h.float then hex16 h.count else toString h.count, if h.float then hex16 h.zcount else toString h.zcount,
    hex16 h.sum, spansStr h.pSpans, spansStr h.nSpans, valsStr h.float h.pB, valsStr h.float h.nB, hexListStr h.custom]

def samplesStr (l : List (Int × Hist)) : String :=
  if l.isEmpty then "-" else ";".intercalate (l.map fun p => s!"{p.1}={histStr p.2}")

def parseSamples? (s : String) : Option (List (Int × Hist)) :=
  if s = "-" then some [] else
  (s.splitOn ";").mapM fun p =>
    match p.splitOn "=" with
    | [t, h] => do pure (← t.toInt?, ← parseHist? h)
    | _ => none

/-- `off+len+cap`, `-` = nil -/
def parseSlice? (s : String) : Option (Option Slice) :=
  if s = "-" then some none else
  match s.splitOn "+" with
  | [a, b, c] => do pure (some ⟨← a.toNat?, ← b.toNat?, ← c.toNat?⟩)
  | _ => none

/-- a histogram token whose five slice fields are slice headers into the arenas of `amem` -/
def parseView? (tok : String) : Option HView :=
  match tok.splitOn "/" with
  | [fl, hint, schema, zt, cnt, zc, sum, ps, ns, pb, nb, cv] => do
    let float ← (if fl = "f" then some true else if fl = "i" then some false else none)
    let hint ← hintOfNum? (← hint.toNat?)
    let count ← (if float then natOfHex? cnt else cnt.toNat?)
    let zcount ← (if float then natOfHex? zc else zc.toNat?)
    pure { float, hint, schema := ← schema.toInt?, zt := ← natOfHex? zt, count, zcount, sum := ← natOfHex? sum,
           pS := ← parseSlice? ps, nS := ← parseSlice? ns, pB := ← parseSlice? pb, nB := ← parseSlice? nb,
           cv := ← parseSlice? cv }
  | _ => none

/-- `amem <st> <spans> <ints> <floats>` -/
def parseMem? (sp is fs : String) : Option Mem := do
  pure { spans := ← parseSpans? sp, ints := ← parseIntList? is, floats := (← hexList? fs).map Int.ofNat }

def cellsStr (m m' : Mem) : String :=
  let l := (cellDiff 0 m.spans m'.spans).map (fun p => s!"s{p.1}:{p.2.offset}:{p.2.length}") ++
           (cellDiff 0 m.ints m'.ints).map (fun p => s!"i{p.1}:{p.2}") ++
           (cellDiff 0 m.floats m'.floats).map (fun p => s!"f{p.1}:{hex16 p.2.toNat}")
  if l.isEmpty then "-" else ",".intercalate l

def hdrNum : Hdr → Nat
  | .unknown => 0 | .notReset => 64 | .reset => 128 | .gauge => 192

def outcomeStr : Outcome → String
  | .same => "same" | .newChunk => "new" | .recoded => "recoded"

/-! ### model -/

structure St where
  /-- chunk API: chunks, newest first -/
  chunks : List Chunk := []
  /-- head: admitted samples, newest first -/
  admitted : List (Int × Hist) := []
  series : Series := Series.empty
  failed : Bool := false
  /-- alias ops: the caller's heap -/
  mem : Mem := ⟨[], [], []⟩
deriving Inhabited

def chunkStart (c : Chunk) : Option Int := c.rev.getLast?.map (·.t)

/-- replay the admitted samples (oldest first) into a fresh series, cutting where the oracle says -/
def rebuild (bounds : List Int) : List (Int × Hist) → Series → Except Err Series
  | [], s => .ok s
  | (t, h) :: rest, s =>
    match s.append (bounds.contains t) t h with
    | .error e => .error e
    | .ok (s', _, _) => rebuild bounds rest s'

/-- Finding C11-F1: persisting the head re-encodes the open head chunk append-only from what its
    iterator returns; a stale marker inside a gauge chunk is read back with hint "unknown", which the
    gauge chunk's appender refuses ("histogram schema change"), so the whole compaction fails. -/
def reencodeFails : Option Chunk → Bool
  | some c => c.hdr == .gauge && (c.rev.dropLast.any fun s => s.sum == staleBits)
  | none => false

def layoutOp (f : List String) : String :=
  match f with
  | ["idx", s] => match parseSpans? s with | some s => showIntList (idxs s) | none => "bad-op"
  | ["both", a, b] =>
    match parseSpans? a, parseSpans? b with
    | some a, some b => let (f, bw, m) := expandBoth a b; s!"f={insStr f} b={insStr bw} m={spansStr m}"
    | _, _ => "bad-op"
  | ["exp", fl, a, b, va, vb] =>
    let float := fl = "f"
    match parseSpans? a, parseSpans? b, parseVals? float va, parseVals? float vb with
    | some a, some b, some va, some vb =>
      match expandCounter float a b va vb with
      | .error _ => "panic"
      | .ok none => "reset"
      | .ok (some (f, bw)) => s!"ok f={insStr f} b={insStr bw}"
    | _, _, _, _ => "bad-op"
  | ["ins", d, fl, xs, n, ins] =>
    let float := fl = "f"
    match parseVals? float xs, n.toNat?, parseIns? ins with
    | some xs, some n, some ins =>
      match insert (d = "d") xs n ins with
      | .ok r => "ok " ++ valsStr float r
      | .error _ => "panic"
    | _, _, _ => "bad-op"
  | ["adj", s, ins] =>
    match parseSpans? s, parseIns? ins with
    | some s, some ins => spansStr (adjustForInserts s ins)
    | _, _ => "bad-op"
  | _ => "bad-op"

def chunkReadStr (cs : List Chunk) : String :=
  if cs.isEmpty then "-" else
  "|".intercalate (cs.reverse.map fun c => s!"{hdrNum c.hdr}:{c.num}:{samplesStr c.read}")

def step (st : St) (line : String) : St × String :=
  let f := toks line
  match f with
  | ["capp", cut, t, h] =>
    match t.toInt?, parseHist? h with
    | some t, some h =>
      let fresh : Bool := match st.chunks with
        | [] => true
        | c :: _ => cut = "1" || c.float != h.float
      if fresh then
        match appendHist st.chunks.head? (Chunk.empty h.float) t h with
        | .error _ => (st, "panic")
        | .ok r => ({ st with chunks := r.chunk :: st.chunks },
            s!"{outcomeStr r.out} hdr={hdrNum r.chunk.hdr} n={r.chunk.num} caller={histStr r.h}")
      else
        match st.chunks with
        | [] => (st, "bad-state")
        | c :: older =>
          match appendHist none c t h with
          | .error _ => (st, "panic")
          | .ok r =>
            let cs := if r.out = .newChunk then r.chunk :: c :: older else r.chunk :: older
            ({ st with chunks := cs }, s!"{outcomeStr r.out} hdr={hdrNum r.chunk.hdr} n={r.chunk.num} caller={histStr r.h}")
    | _, _ => (st, "bad-op")
  | ["amem", _, sp, is, fs] =>
    match parseMem? sp is fs with
    | some m => ({ st with mem := m }, "ok")
    | none => (st, "bad-op")
  | ["aapp", cut, _, t, vw] =>
    match t.toInt?, parseView? vw with
    | some t, some v =>
      if !v.inB st.mem then (st, "bad-view") else
      let fresh : Bool := match st.chunks with
        | [] => true
        | c :: _ => cut = "1" || c.float != v.float
      let prev := if fresh then st.chunks.head? else none
      let cur := if fresh then Chunk.empty v.float else st.chunks.head?.getD (Chunk.empty v.float)
      match appendMem st.mem prev cur t v with
      | .error _ => (st, "panic")
      | .ok (m', v', r) =>
        let cs := if fresh || r.out = .newChunk then r.chunk :: st.chunks else r.chunk :: st.chunks.drop 1
        -- `held=-`: by `caller_memory_frame` no view into the old cells can change when no old cell does
        let diff := cellsStr st.mem m'
        ({ st with chunks := cs, mem := m' },
         s!"{outcomeStr r.out} hdr={hdrNum r.chunk.hdr} n={r.chunk.num} caller={histStr (m'.hist v')} mem={diff} held={if diff = "-" then "-" else "?"}")
    | _, _ => (st, "bad-op")
  | ["ascr"] => ({ st with mem := ⟨[], [], []⟩ }, "ok")
  | ["creload"] => (st, "ok")
  | ["cread"] => (st, chunkReadStr st.chunks)
  | ["hcfg", _] => (st, "ok")
  | ["happ", t, h, cut] =>
    match t.toInt?, parseHist? h with
    | some t, some h =>
      match st.series.append (cut = "1") t h with
      | .error _ => (st, "panic")
      | .ok (s, h', o) =>
        ({ st with series := s, admitted := (t, h) :: st.admitted },
         s!"ok new={if o = .newChunk then 1 else 0} caller={histStr h'}")
    | _, _ => (st, "bad-op")
  | [op, bounds] =>
    if op = "hreopen" ∨ op = "hcompact" ∨ op = "hflush" then
      match parseIntList? bounds with
      | some b =>
        match rebuild b st.admitted.reverse Series.empty with
        | .ok s => ({ st with series := s },
            if op = "hflush" ∧ reencodeFails st.series.cur then "err-reencode" else "ok")
        | .error _ => (st, "panic")
      | none => (st, "bad-op")
    else (st, layoutOp f)
  | ["hread", _, bounds] =>
    match parseIntList? bounds with
    | some b =>
      match rebuild b st.admitted.reverse Series.empty with
      | .ok s =>
        let mine := s.chunks.filterMap chunkStart
        if mine ≠ b then (st, "bounds-mismatch " ++ showIntList mine) else (st, samplesStr s.read)
      | .error _ => (st, "panic")
    | none => (st, "bad-op")
  | _ => (st, layoutOp f)

def runLines : St → List String → List String
  | _, [] => []
  | st, l :: rest => let r := step st l; r.2 :: runLines r.1 rest

def model (ops : List String) : List String := runLines {} ops

/-! ### judge -/

/-- the appended sample `a` reads back as `r` -/
def sameSample (a r : Int × Hist) : Bool :=
  a.1 == r.1 && (if a.2.stale then r.2.stale else !r.2.stale && a.2.sem == r.2.sem)

def firstDiff (k : Nat) : List (Int × Hist) → List (Int × Hist) → Option String
  | [], [] => none
  | a :: as, r :: rs => if sameSample a r then firstDiff (k + 1) as rs else some s!"sample={k} t={a.1} read-t={r.1}"
  | a :: _, [] => some s!"sample={k} t={a.1} missing"
  | [], r :: _ => some s!"sample={k} read-t={r.1} extra"

def checkRead (what : String) (k : Nat) (appended read : List (Int × Hist)) : Option String :=
  match firstDiff 0 appended read with
  | some d => some s!"violation readback-{what} op={k} {d}"
  | none =>
    match unsoundAt none 0 read with
    | some i => some s!"violation hint-unsound-{what} op={k} sample={i}"
    | none => none

/-- the caller's histogram after the call means the same and keeps its hint -/
def callerOk (h : Hist) (out : String) : Bool :=
  match (toks out).find? (·.startsWith "caller=") with
  | some c =>
    match parseHist? (c.drop 7).toString with
    | some h' => h'.sem == h.sem && h'.hint == h.hint
    | none => false
  | none => false

def isSorted : List Int → Bool
  | a :: b :: r => decide (a < b) && isSorted (b :: r)
  | _ => true

def unionSorted (a b : List Int) : List Int := ((a ++ b).mergeSort (· ≤ ·)).eraseDups

def insPosOk : List Insert → Bool
  | a :: b :: r => decide (a.pos ≤ b.pos) && insPosOk (b :: r)
  | _ => true

def numSum (l : List Insert) : Nat := (l.map (·.num)).sum

/-- the statement of `expand_sound` on the hook outputs -/
def layoutVerdict (k : Nat) (f : List String) (out : String) : Option String :=
  match f with
  | ["both", a, b] =>
    match parseSpans? a, parseSpans? b, toks out with
    | some a, some b, [fo, bo, mo] =>
      match parseIns? (fo.drop 2).toString, parseIns? (bo.drop 2).toString, parseSpans? (mo.drop 2).toString with
      | some fw, some bw, some m =>
        if !(isSorted (idxs a) && isSorted (idxs b)) then none
        else if idxs m ≠ unionSorted (idxs a) (idxs b) then some s!"violation merged-spans op={k}"
        else if !(insPosOk fw && insPosOk bw) then some s!"violation insert-order op={k}"
        else if (idxs a).length + numSum fw ≠ (idxs m).length ∨ (idxs b).length + numSum bw ≠ (idxs m).length then
          some s!"violation insert-count op={k}"
        else none
      | _, _, _ => some s!"violation unparsable op={k}"
    | _, _, _ => none
  | ["exp", _, a, b, _, _] =>
    match parseSpans? a, parseSpans? b, toks out with
    | some a, some b, ["ok", fo, bo] =>
      match parseIns? (fo.drop 2).toString, parseIns? (bo.drop 2).toString with
      | some fw, some bw =>
        if !(isSorted (idxs a) && isSorted (idxs b)) then none
        else if !(insPosOk fw && insPosOk bw) then some s!"violation insert-order op={k}"
        else if (idxs a).length + numSum fw ≠ (unionSorted (idxs a) (idxs b)).length ∨
                (idxs b).length + numSum bw ≠ (unionSorted (idxs a) (idxs b)).length then
          some s!"violation insert-count op={k}"
        else if unionSorted (idxs a) (insertIdxs fw) ≠ unionSorted (idxs a) (idxs b) ∨
                unionSorted (idxs b) (insertIdxs bw) ≠ unionSorted (idxs a) (idxs b) then
          some s!"violation insert-idx op={k}"
        else none
      | _, _ => some s!"violation unparsable op={k}"
    | _, _, _ => none
  | _ => none

structure JSt where
  capp : List (Int × Hist) := []
  happ : List (Int × Hist) := []
  mem : Mem := ⟨[], [], []⟩

def tokOf (pre : String) (out : String) : Option String :=
  ((toks out).find? (·.startsWith pre)).map fun c => (c.drop pre.length).toString

def verdict : JSt → Nat → List String → List String → Option String
  | _, _, [], _ => none
  | _, _, _, [] => none
  | st, k, op :: ops, out :: outs =>
    let f := toks op
    match f with
    | ["capp", _, t, h] =>
      match t.toInt?, parseHist? h with
      | some t, some h =>
        if out.startsWith "err" ∨ out.startsWith "panic" then some s!"violation append-failed op={k} {out}"
        else if !callerOk h out then some s!"violation caller-changed op={k}"
        else verdict { st with capp := (t, h) :: st.capp } (k + 1) ops outs
      | _, _ => none
    | ["amem", _, sp, is, fs] =>
      match parseMem? sp is fs with
      | some m => if out = "ok" then verdict { st with mem := m } (k + 1) ops outs else some s!"violation op-failed op={k} amem last=none {out}"
      | none => none
    | ["ascr"] =>
      if out = "ok" then verdict { st with mem := ⟨[], [], []⟩ } (k + 1) ops outs
      else some s!"violation op-failed op={k} ascr last=none {out}"
    | ["aapp", _, _, t, vw] =>
      match t.toInt?, parseView? vw with
      | some t, some v =>
        if !v.inB st.mem then verdict st (k + 1) ops outs else
        let h := st.mem.hist v
        if out.startsWith "err" ∨ out.startsWith "panic" ∨ out.startsWith "bad" then some s!"violation append-failed op={k} {out}"
        else match tokOf "mem=" out, tokOf "held=" out with
          | some "-", some "-" =>
            if !callerOk h out then some s!"violation caller-changed op={k}"
            else verdict { st with capp := (t, h) :: st.capp } (k + 1) ops outs
          | some "-", some hs => some s!"violation held-changed op={k} hist={hs}"
          | some cells, _ => some s!"violation caller-memory-written op={k} cells={cells}"
          | none, _ => some s!"violation unparsable op={k}"
      | _, _ => none
    | ["cread"] =>
      let samples : Option (List (List (Int × Hist))) :=
        if out = "-" then some [] else
        (out.splitOn "|").mapM fun part =>
          match part.splitOn ":" with
          | _ :: _ :: rest => parseSamples? (":".intercalate rest)
          | _ => none
      match samples with
      | none => some s!"violation unparsable op={k}"
      | some per =>
        match firstDiff 0 st.capp.reverse per.flatten with
        | some d => some s!"violation readback-chunk op={k} {d}"
        | none =>
          match per.findIdx? (fun l => !hintsSound l) with
          | some i => some s!"violation hint-unsound-chunk op={k} chunk={i}"
          | none => verdict st (k + 1) ops outs
    | ["happ", t, h, _] =>
      match t.toInt?, parseHist? h with
      | some t, some h =>
        if !out.startsWith "ok" then some s!"violation append-failed op={k} {out}"
        else if !callerOk h out then some s!"violation caller-changed op={k}"
        else verdict { st with happ := (t, h) :: st.happ } (k + 1) ops outs
      | _, _ => none
    | ["hread", stage, _] =>
      match parseSamples? out with
      | none => some s!"violation unparsable op={k} {(out.take 40).toString}"
      | some read =>
        match checkRead stage k st.happ.reverse read with
        | some v => some v
        | none => verdict st (k + 1) ops outs
    | _ =>
      if f.head? = some "hreopen" ∨ f.head? = some "hcompact" ∨ f.head? = some "hflush" ∨ f.head? = some "hcfg" ∨
         f.head? = some "creload" then
        if out = "ok" then verdict st (k + 1) ops outs
        else
          let last := match st.happ with
            | (_, h) :: _ => if h.stale && h.hint == Hint.gauge then "gauge-stale" else "other"
            | [] => "none"
          some s!"violation op-failed op={k} {f.head?.getD ""} last={last} {out}"
      else
        match layoutVerdict k f out with
        | some v => some v
        | none => verdict st (k + 1) ops outs

def judge (ops outs : List String) : String :=
  match verdict {} 0 ops outs with
  | none => "ok"
  | some v => v

def suite : Suite := { name := "hist", model := model, judge := judge }

end Prom.HistSuite
