import PromModel.Prelude.Line
import PromModel.Ingest.Relabel
/-
  Suite `relabel` (property C38).

  ops (all strings hex-encoded, `-` = empty string):
    base <n1> <v1> <n2> <v2> …          new case state: base label set (distinct names, any order)
        out: `ok <listing>`              the labels `Builder.Range` visits on a fresh builder
    rule <action> <l|u> <srcs> <sep> <regex> <modulus> <target> <replacement>
        srcs = `nil` | `none` (empty, non-nil) | h1,h2,…     regex = `D` (the default regex
        object) | hex pattern         scheme l = legacy, u = utf8
        out: `invalid`                   `Validate` rejected the config (it is then not used)
             `valid skip`                an earlier rule already dropped the target
             `valid keep|drop val=<hex> m=<0|1> <listing>`
                                         the rule applied alone to the step builder: decision,
                                         joined source value, Go's `Regex.MatchString(val)`,
                                         labels in `Range` order afterwards
    process
        out: `keep <listing>` | `drop`   ProcessBuilder over all valid rules on a fresh builder, then
                                         `Labels()` (a dropped target's labels are not observable)
    rx <pattern> <string> <template>
        out: `nomatch` | `match <g0>,<g1>,… names=<n0>,<n1>,… exp=<hex>`
                                         FindStringSubmatch / SubexpNames / ExpandString of
                                         `^(?s:pattern)$`
  listing = `n:v,n:v,…` or `-`.
-/
namespace Prom.Relabel

def renderListing (ls : List Label) : String :=
  if ls.isEmpty then "-" else ",".intercalate (ls.map fun l => hexEnc l.name ++ ":" ++ hexEnc l.value)

def parseListing? (s : String) : Option (List Label) :=
  if s = "-" then some [] else
  (s.splitOn ",").mapM fun p =>
    match p.splitOn ":" with
    | [a, b] => do pure ⟨← hexDec? a, ← hexDec? b⟩
    | _ => none

def parseHexList? (s : String) : Option (List String) :=
  (s.splitOn ",").mapM hexDec?

def renderHexList (xs : List String) : String := ",".intercalate (xs.map hexEnc)

def parseAction? : String → Option Action
  | "replace" => some .replace | "keep" => some .keep | "drop" => some .drop
  | "keepequal" => some .keepequal | "dropequal" => some .dropequal | "hashmod" => some .hashmod
  | "labelmap" => some .labelmap | "labeldrop" => some .labeldrop | "labelkeep" => some .labelkeep
  | "lowercase" => some .lowercase | "uppercase" => some .uppercase
  | _ => none

def parsePairs? : List String → Option (List Label)
  | [] => some []
  | [_] => none
  | a :: b :: rest => do
    let n ← hexDec? a
    let v ← hexDec? b
    let r ← parsePairs? rest
    pure (⟨n, v⟩ :: r)

/-- A parsed `rule` line; the compiled regex is kept for the judge. -/
structure RuleLine where
  cfg : Config
  cre : CRegex

def parseRule? (ts : List String) : Option RuleLine :=
  match ts with
  | [act, sch, srcs, sep, rx, modulus, target, repl] => do
    let action ← parseAction? act
    let utf8 ← (if sch = "u" then some true else if sch = "l" then some false else none)
    let (sourceNil, sourceLabels) ←
      (if srcs = "nil" then some (true, []) else if srcs = "none" then some (false, [])
       else (parseHexList? srcs).map fun l => (false, l))
    let separator ← hexDec? sep
    let (cre, isDefault) ←
      (if rx = "D" then (compile? "(.*)").map fun r => (r, true)
       else do let p ← hexDec? rx; let r ← compile? p; pure (r, false))
    let m ← modulus.toNat?
    let targetLabel ← hexDec? target
    let replacement ← hexDec? repl
    pure { cfg := { action, sourceLabels, sourceNil, separator, regex := cre.toRegex isDefault,
                    modulus := m, targetLabel, replacement, utf8 }, cre }
  | _ => none

structure St where
  base : List Label := []
  cfgs : List Config := []   -- reversed
  sb : Builder := Builder.new []
  dropped : Bool := false

def rxOut (pat s tmpl : String) : String :=
  match compile? pat with
  | none => "unsupported"
  | some r =>
    match r.run s with
    | none => "nomatch"
    | some caps => s!"match {renderHexList caps} names={renderHexList r.names} exp={hexEnc (expand r.names caps tmpl)}"

def stepModel (st : St) (line : String) : St × String :=
  match toks line with
  | "base" :: rest =>
    match parsePairs? rest with
    | none => (st, "bad-op")
    | some ls =>
      let base := sortLabels ls
      let b := Builder.new base
      ({ base, cfgs := [], sb := b, dropped := false }, "ok " ++ renderListing b.range)
  | "rule" :: rest =>
    match parseRule? rest with
    | none => (st, "unsupported")
    | some r =>
      if !r.cfg.validate then (st, "invalid")
      else if st.dropped then ({ st with cfgs := r.cfg :: st.cfgs }, "valid skip")
      else
        let val := joinVals r.cfg st.sb
        let m := (r.cfg.regex.run val).isSome
        let res := relabel r.cfg st.sb
        ({ st with cfgs := r.cfg :: st.cfgs, sb := res.2, dropped := !res.1 },
          s!"valid {if res.1 then "keep" else "drop"} val={hexEnc val} m={if m then 1 else 0} {renderListing res.2.range}")
  | ["process"] =>
    let res := process st.cfgs.reverse (Builder.new st.base)
    (st, if res.1 then "keep " ++ renderListing res.2.labels else "drop")
  | ["rx", p, s, t] =>
    match hexDec? p, hexDec? s, hexDec? t with
    | some p, some s, some t => (st, rxOut p s t)
    | _, _, _ => (st, "bad-op")
  | _ => (st, "bad-op")

def model (ops : List String) : List String :=
  let rec go (st : St) : List String → List String
    | [] => []
    | l :: rest => let (st', o) := stepModel st l; o :: go st' rest
  go {} ops

/-! ## Judge: the property statement evaluated on the implementation's outputs -/

def getL (ls : List Label) (n : String) : String := baseGet ls n

/-- strictly sorted by byte-wise name order -/
def sortedB : List Label → Bool
  | a :: b :: rest => strLt a.name b.name && sortedB (b :: rest)
  | _ => true

def noEmptyB (ls : List Label) : Bool := ls.all fun l => l.value != ""

def nodupB : List Label → Bool
  | [] => true
  | a :: rest => !(hasName rest a.name) && nodupB rest

/-- The property's result clause: sorted, no empty values, no duplicate names. -/
def canonicalB (ls : List Label) : Bool := sortedB ls && noEmptyB ls && nodupB ls

/-- names on which two listings (as maps, absent = "") differ -/
def diffNames (a b : List Label) : List String :=
  ((a ++ b).map (·.name)).eraseDups.filter fun n => getL a n != getL b n

def sameMap (a b : List Label) : Bool := (diffNames a b).isEmpty

structure JSt where
  before : List Label := []
  anyDrop : Bool := false
  k : Nat := 0

def isDecimalBelow (s : String) (m : Nat) : Bool :=
  match s.toNat? with
  | some n => n < m && toString n == s
  | none => false

/-- Check one applied rule: `before`/`after` are the labels `Range` shows, `keep` the decision,
    `val` the joined source value and `m` Go's own regex verdict on it, as printed by the harness. -/
def judgeRule (r : RuleLine) (before after : List Label) (keep : Bool) (val : String) (m : Bool) : Option String :=
  let c := r.cfg
  let val' := c.separator.intercalate (c.sourceLabels.map (getL before))
  if val' != val then some "join" else
  if !(noEmptyB after && nodupB after) then some "range-not-map" else
  match c.action with
  | .keep => if keep != m then some "keep-decision" else if !sameMap before after then some "keep-mutates" else none
  | .drop => if keep != !m then some "drop-decision" else if !sameMap before after then some "drop-mutates" else none
  | .keepequal =>
    if keep != (getL before c.targetLabel == val) then some "keepequal-decision"
    else if !sameMap before after then some "keepequal-mutates" else none
  | .dropequal =>
    if keep != (getL before c.targetLabel != val) then some "dropequal-decision"
    else if !sameMap before after then some "dropequal-mutates" else none
  | .replace =>
    if !keep then some "replace-drops"
    else if !m && !sameMap before after then some "replace-nomatch-mutates"
    else if (diffNames before after).length > 1 then some "replace-touches-others"
    else if !hasVar c.targetLabel && (validName c.utf8 c.targetLabel) then
      -- static target: only the target may change; on a match it holds the expansion (empty = absent)
      if !(diffNames before after).all (· == c.targetLabel) then some "replace-wrong-target"
      else match (if m then r.cre.run val else none) with
        | some caps =>
          if !c.regex.isDefault || val != "" || hasVar c.replacement then
            if getL after c.targetLabel != expand r.cre.names caps c.replacement then some "replace-value" else none
          else if getL after c.targetLabel != c.replacement then some "replace-fast-value" else none
        | none => none
    else none
  | .lowercase =>
    if !keep then some "lowercase-drops"
    else if !(diffNames before after).all (· == c.targetLabel) then some "lowercase-touches-others"
    else if getL after c.targetLabel != toLower val then some "lowercase-value" else none
  | .uppercase =>
    if !keep then some "uppercase-drops"
    else if !(diffNames before after).all (· == c.targetLabel) then some "uppercase-touches-others"
    else if getL after c.targetLabel != toUpper val then some "uppercase-value" else none
  | .hashmod =>
    if !keep then some "hashmod-drops"
    else if !(diffNames before after).all (· == c.targetLabel) then some "hashmod-touches-others"
    else if !isDecimalBelow (getL after c.targetLabel) c.modulus then some "hashmod-range" else none
  | .labeldrop =>
    if !keep then some "labeldrop-drops"
    else if !(before.all fun l => getL after l.name == (if (r.cre.run l.name).isSome then "" else l.value)) then some "labeldrop-spec"
    else if !(after.all fun l => getL before l.name == l.value) then some "labeldrop-adds" else none
  | .labelkeep =>
    if !keep then some "labelkeep-drops"
    else if !(before.all fun l => getL after l.name == (if (r.cre.run l.name).isSome then l.value else "")) then some "labelkeep-spec"
    else if !(after.all fun l => getL before l.name == l.value) then some "labelkeep-adds" else none
  | .labelmap =>
    if !keep then some "labelmap-drops"
    else if !(before.all fun l => getL after l.name != "") then some "labelmap-loses-label"
    else if !(after.all fun l => before.any fun l' => l'.value == l.value) then some "labelmap-invents-value"
    else if !(before.all fun l => (r.cre.run l.name).isSome || getL after l.name == l.value ||
               before.any fun l' => match r.cre.run l'.name with
                 | some caps => expand r.cre.names caps c.replacement == l.name
                 | none => false) then some "labelmap-touches-unmatched"
    else none

def valField? (s : String) (pfx : String) : Option String :=
  if s.startsWith pfx then some (s.drop pfx.length).toString else none

def judge (ops outs : List String) : String :=
  let rec go (st : JSt) (ops outs : List String) : String :=
    match ops, outs with
    | op :: ops, out :: outs =>
      let k := st.k
      let st := { st with k := k + 1 }
      match toks op with
      | "base" :: _ =>
        match toks out with
        | ["ok", l] =>
          match parseListing? l with
          | some ls => go { st with before := ls, anyDrop := false } ops outs
          | none => s!"violation unparsable op={k}"
        | _ => s!"violation unparsable op={k} out={out}"
      | "rule" :: rest =>
        if out == "panic" then s!"violation rule-panic op={k}" else
        match parseRule? rest with
        | none => "ok" -- outside the modelled class: not judged
        | some r =>
          match toks out with
          | ["invalid"] => go st ops outs
          | ["valid", "skip"] =>
            if st.anyDrop then go st ops outs else s!"violation skip-without-drop op={k}"
          | ["valid", dec, v, m, l] =>
            match valField? v "val=", valField? m "m=", parseListing? l with
            | some vh, some mh, some after =>
              match hexDec? vh with
              | none => s!"violation unparsable op={k}"
              | some val =>
                let keep := dec == "keep"
                match judgeRule r st.before after keep val (mh == "1") with
                | some sig => s!"violation {sig} op={k} rule={" ".intercalate rest}"
                | none => go { st with before := after, anyDrop := st.anyDrop || !keep } ops outs
            | _, _, _ => s!"violation unparsable op={k}"
          | _ => s!"violation unparsable op={k} out={out}"
      | ["process"] =>
        match toks out with
        | ["drop"] =>
          if st.anyDrop then go st ops outs else s!"violation process-fold-decision op={k} got=drop"
        | [dec, l] =>
          match parseListing? l with
          | none => s!"violation unparsable op={k}"
          | some res =>
            if dec != "keep" && dec != "drop" then s!"violation process-{dec} op={k}"
            else if (dec == "keep") != !st.anyDrop then s!"violation process-fold-decision op={k} got={dec}"
            else if dec == "keep" && !canonicalB res then s!"violation not-canonical op={k} labels={l}"
            else if dec == "keep" && res != sortLabels st.before then s!"violation process-fold-labels op={k} labels={l}"
            else go st ops outs
        | _ => s!"violation unparsable op={k} out={out}"
      | ["rx", _, s, _] =>
        match toks out with
        | ["nomatch"] => go st ops outs
        | ["match", gs, _, _] =>
          -- full anchoring: the whole-match group is the whole input
          if (gs.splitOn ",").head? == some s then go st ops outs
          else s!"violation rx-not-anchored op={k}"
        | _ => s!"violation unparsable op={k} out={out}"
      | _ => "ok"
    | _, _ => "ok"
  go {} ops outs

def suite : Suite := { name := "relabel", model := model, judge := judge }

end Prom.Relabel
