import PromModel.Tsdb.BlockIndex
import PromModel.Tsdb.WalFrame
import PromModel.Prelude.Line
/-
  Suite `block` (property C24): chunk segment files and the index file of a persistent block.
  ops (one case = one block):
    `cw <segsize>`                      chunks.NewWriter(WithSegmentSize)            → `ok`
    `wc <enc>:<hex> …`                  Writer.WriteChunks                           → `ok <ref,…>` | `err`
    `cclose`                            Writer.Close; content of the segment files   → `nseg=<k> <hex> …`
    `crec <ref>`                        bytes of the record located through the ref  → `ok <hex>` | `none`
    `rc <ref>`                          NewDirReader + ChunkOrIterable               → `ok <enc> <hex>` | `err` | `openerr`
    `iw`                                index.NewWriter                              → `ok`
    `sym <hex>`                         AddSymbol                                    → `ok` | `err`
    `ser <sref> <n=v,…> <mint:maxt:ref,…|->`  AddSeries                              → `ok` | `err`
    `iclose`                            Writer.Close, TOC of the file                → `ok size=<n> toc=a,b,c,d,e,f`
    `ifile` | `isymtab` | `itoc`        whole file / section located through the TOC → `<hex>`
    `ientry <k>`                        entry of the k-th series (via all-postings)  → `id=<id> <hex>` | `none`
    `rsyms` `rser <k>` `rpost <n> <v>` `rlv <n>` `rln`   reads through index.Reader
    `rpostm <n> <v,…|->`                Reader.Postings(name, values...)             → `ok <ids>` | `err`
    `rpall <n>`                         Reader.PostingsForAllLabelValues(name)       → `ok <ids>` | `err`
    `rpm <n> <ge|lt|eq|ne> <arg>`       Reader.PostingsForLabelMatching(name, value <kind> arg)
    `decbody <hex>`                     Decoder.Series on an arbitrary entry body    → `ok <lbls> <chks>` | `err`
    `openq`                             tsdb.OpenBlock + ChunkQuerier over everything
    `dmgi <pos> <kind> ser <k>|all`     one byte of the index altered, reader re-opened
    `dmgc <seg> <pos> <kind> <ref|->`   one byte of a segment file altered, reader re-opened
  and, for blocks written by the block writer and by compaction (T3, samples instead of raw chunks):
    `bw`                                tsdb.NewBlockWriter                          → `ok`
    `app <n=v,…> <t> <value bits hex>`  Appender.Append + Commit                     → `ok` | `err`
    `flush`                             BlockWriter.Flush                            → `ok` | `err-empty`
    `q <n>`                             OpenBlock(n-th block) + querier, all samples → `ok <lbls>|<t>:<bits>,… …`
    `compact <n,m,…>`                   LeveledCompactor.Compact into a new block    → `ok`
-/
namespace Prom.BlockSuite
open Prom.Enc Prom.BlockIndex

def crc : Crc := Prom.Wal.crc32c

/-! ### rendering / parsing -/

def hx (b : Bytes) : String := hexEncBytes b

def lblStr (ls : List (Bytes × Bytes)) : String :=
  if ls.isEmpty then "-" else ",".intercalate (ls.map fun p => hx p.1 ++ "=" ++ hx p.2)

def chkStr (cs : List ChunkMeta) : String :=
  if cs.isEmpty then "-" else ",".intercalate (cs.map fun c => s!"{c.mint}:{c.maxt}:{c.ref}")

def hexList (ss : List Bytes) : String :=
  if ss.isEmpty then "-" else ",".intercalate (ss.map fun s => if s.isEmpty then "e" else hexOfBytes s)

def natList (xs : List Nat) : String :=
  if xs.isEmpty then "-" else ",".intercalate (xs.map toString)

/-- inverse of `hexList`: `-` = no element, `e` = the empty string -/
def parseHexList? (s : String) : Option (List Bytes) :=
  if s = "-" then some [] else
  (s.splitOn ",").mapM fun p => if p = "e" then some [] else bytesOfHex? p

/-- the value predicates of `rpm`: byte-wise comparison with a fixed string -/
def matchFn? (kind : String) (arg : Bytes) : Option (Bytes → Bool) :=
  if kind = "ge" then some fun v => !bytesLt v arg
  else if kind = "lt" then some fun v => bytesLt v arg
  else if kind = "eq" then some fun v => v == arg
  else if kind = "ne" then some fun v => v != arg
  else none

def parseLbls? (s : String) : Option (List (Bytes × Bytes)) :=
  if s = "-" then some [] else
  (s.splitOn ",").mapM fun p =>
    match p.splitOn "=" with
    | [a, b] => do pure (← bytesOfHex? a, ← bytesOfHex? b)
    | _ => none

def parseChks? (s : String) : Option (List ChunkMeta) :=
  if s = "-" then some [] else
  (s.splitOn ",").mapM fun p =>
    match p.splitOn ":" with
    | [a, b, r] => do
      let a ← a.toInt?
      let b ← b.toInt?
      let r ← r.toNat?
      if a < -9223372036854775808 ∨ a ≥ 9223372036854775808 ∨ b < -9223372036854775808 ∨ b ≥ 9223372036854775808
         ∨ r ≥ 18446744073709551616 then none else pure ⟨a, b, r⟩
    | _ => none

def parseChunkTok? (s : String) : Option Chunk :=
  match s.splitOn ":" with
  | [e, d] => do
    let e ← e.toNat?
    if e > 255 then none else pure (UInt8.ofNat e, ← bytesOfHex? d)
  | _ => none

def serOut (r : Except Err SeriesOut) : String :=
  match r with
  | .ok s => s!"ok {lblStr s.labels} {chkStr s.chunks}"
  | .error .panic => "panic"
  | .error _ => "err"

def chunkOut (r : Except Err (UInt8 × Bytes)) : String :=
  match r with
  | .ok (e, d) => s!"ok {e.toNat} {hx d}"
  | .error .panic => "panic"
  | .error _ => "err"

def postOut (r : Except Err (List Nat)) : String :=
  match r with
  | .ok ids => "ok " ++ natList ids
  | .error _ => "err"

/-! ### AddSymbol / AddSeries admission (the checks of the writer) -/

/-- lexicographic comparison of the flattened label strings (`labels.Compare`) -/
def cmpStrs : List Bytes → List Bytes → Int
  | [], [] => 0
  | [], _ :: _ => -1
  | _ :: _, [] => 1
  | a :: as, b :: bs => if bytesLt a b then -1 else if bytesLt b a then 1 else cmpStrs as bs

def flat (ls : List (Bytes × Bytes)) : List Bytes := ls.flatMap fun p => [p.1, p.2]

/-- the chunk loop of `AddSeries`: `some lastChunkRef` when accepted -/
def checkChunks : List ChunkMeta → Nat → Nat → Int → Option Nat
  | [], _, lastRef, _ => some lastRef
  | c :: cs, ix, lastRef, lastMaxT =>
    if c.ref < lastRef then none
    else if ix > 0 ∧ c.mint ≤ lastMaxT then none
    else if c.maxt < c.mint then none
    else checkChunks cs (ix + 1) c.ref c.maxt

def indexOf? (syms : List Bytes) (s : Bytes) : Option Nat :=
  let rec go : List Bytes → Nat → Option Nat
    | [], _ => none
    | x :: xs, i => if x = s then some i else go xs (i + 1)
  go syms 0


/-! ### blocks written from samples (block writer, compaction) -/

abbrev Smp := Int × Nat
abbrev SerS := List (Bytes × Bytes) × List Smp

/-- sorted insert by timestamp; an existing sample at the same timestamp is kept -/
def insSample (t : Int) (v : Nat) : List Smp → List Smp
  | [] => [(t, v)]
  | (t', v') :: rest =>
    if t < t' then (t, v) :: (t', v') :: rest
    else if t = t' then (t', v') :: rest
    else (t', v') :: insSample t v rest

def addSample (ss : List SerS) (ls : List (Bytes × Bytes)) (t : Int) (v : Nat) : List SerS :=
  match ss with
  | [] => [(ls, [(t, v)])]
  | (ls', sm) :: rest => if ls' = ls then (ls', insSample t v sm) :: rest else (ls', sm) :: addSample rest ls t v

def insSeries (x : SerS) : List SerS → List SerS
  | [] => [x]
  | y :: ys => if cmpStrs (flat x.1) (flat y.1) < 0 then x :: y :: ys else y :: insSeries x ys

def renderQ (ss : List SerS) : String :=
  let sorted := ss.foldr insSeries []
  ("ok " ++ " ".intercalate (sorted.map fun s =>
    lblStr s.1 ++ "|" ++ ",".intercalate (s.2.map fun p => s!"{p.1}:{hexOfNat p.2 16}"))).trimAsciiEnd.toString

def mergeBlocks (a b : List SerS) : List SerS :=
  b.foldl (fun acc s => s.2.foldl (fun acc p => addSample acc s.1 p.1 p.2) acc) a

/-- `Head.Append` stores `lset.WithoutEmpty()`: a label with an empty value is an absent label. -/
def parseApp? (ls t v : String) : Option (List (Bytes × Bytes) × Int × Nat) := do
  let ls := (← parseLbls? ls).filter fun p => !p.2.isEmpty
  let t ← t.toInt?
  let v ← natOfHex? v
  pure (ls, t, v)

def parseBlockList? (s : String) (n : Nat) : Option (List Nat) := do
  let ks ← (s.splitOn ",").mapM String.toNat?
  if ks.all fun k => 1 ≤ k ∧ k ≤ n then pure ks else none

structure St where
  cw : Option CW := none
  written : List (Nat × Chunk) := []          -- ref ↦ chunk, in write order
  segs : Option (List Bytes) := none           -- after `cclose`
  origChk : List (Nat × String) := []
  iwOpen : Bool := false
  syms : List Bytes := []                      -- accepted symbols, in order
  series : List Series := []                   -- accepted series (symbol references), in order
  lastLset : List (Bytes × Bytes) := []
  lastSref : Nat := 0
  lastChunkRef : Nat := 0
  idx : Option IndexFile := none
  rd : Option Reader := none
  origSer : List String := []
  origAll : List String := []
  bw : Option (List SerS) := none
  blocks : List (List SerS) := []

def readEverything (r : Reader) : List String :=
  let names := r.labelNames
  ["syms ok " ++ hexList r.syms, "names ok " ++ hexList names,
   "post -- " ++ postOut (r.postings crc [] [])] ++
  names.flatMap fun n =>
    let vs := r.labelValues n
    ("values " ++ hx n ++ " ok " ++ hexList vs) ::
      vs.map fun v => "post " ++ hx n ++ " " ++ hx v ++ " " ++ postOut (r.postings crc n v)

def damage (b : Bytes) (pos : Nat) (kind : String) : Option Bytes :=
  match b[pos]? with
  | none => none
  | some x =>
    let y : Option UInt8 :=
      if kind = "b0" then some (x ^^^ 1) else if kind = "b7" then some (x ^^^ 0x80)
      else if kind = "z" then some 0 else if kind = "ff" then some (x ^^^ 0xff) else none
    y.map fun y => b.set pos y

def countDiff (outs orig : List String) (skip : Option Nat) : Nat × Nat :=
  let rec go : List String → List String → Nat → Nat × Nat → Nat × Nat
    | o :: os, g :: gs, i, (d, e) =>
      if skip = some i then go os gs (i + 1) (d, e)
      else if o = g then go os gs (i + 1) (d, e)
      else if o = "err" ∨ o.endsWith " err" then go os gs (i + 1) (d, e + 1)
      else go os gs (i + 1) (d + 1, e)
    | _, _, _, acc => acc
  go outs orig 0 (0, 0)

def tocStr (t : Toc) : String :=
  s!"{t.symbols},{t.series},{t.labelIndices},{t.labelIndicesTable},{t.postings},{t.postingsTable}"

def step (st : St) (line : String) : St × String :=
  match toks line with
  | ["cw", n] =>
    match n.toNat?, st.cw, st.segs with
    | some n, none, none => if n = 0 ∨ n > 16777216 then (st, "bad-op") else ({ st with cw := some { segSize := n } }, "ok")
    | _, _, _ => (st, "bad-op")
  | "wc" :: ts =>
    match st.cw, ts.mapM parseChunkTok? with
    | some w, some chks =>
      if chks.isEmpty then (st, "bad-op") else
      match w.writeChunks crc chks with
      | .ok (w', refs) =>
        ({ st with cw := some w', written := st.written ++ refs.zip chks }, "ok " ++ natList refs)
      | .error _ => (st, "err")
    | _, _ => (st, "bad-op")
  | ["cclose"] =>
    match st.cw with
    | some w =>
      let segs := w.segs
      let orig := st.written.map fun p =>
        (p.1, match openSegments segs with
              | .ok () => chunkOut (readChunk crc segs p.1)
              | .error _ => "openerr")
      ({ st with cw := none, segs := some segs, origChk := orig },
        (s!"nseg={segs.length} " ++ " ".intercalate (segs.map hx)).trimAsciiEnd.toString)
    | none => (st, "bad-op")
  | ["crec", r] =>
    match st.segs, r.toNat? with
    | some _, some r =>
      match st.written.find? (·.1 = r) with
      | some (_, c) => (st, "ok " ++ hx (chunkRecord crc c.1 c.2))
      | none => (st, "none")
    | _, _ => (st, "bad-op")
  | ["rc", r] =>
    match st.segs, r.toNat? with
    | some segs, some r =>
      match openSegments segs with
      | .error _ => (st, "openerr")
      | .ok () => (st, chunkOut (readChunk crc segs r))
    | _, _ => (st, "bad-op")
  | ["dmgc", sg, pos, kind, target] =>
    match st.segs, sg.toNat?, pos.toNat? with
    | some segs, some sg, some pos =>
      match segs[sg]? with
      | none => (st, "bad-op")
      | some seg =>
        match damage seg pos kind with
        | none => (st, "bad-op")
        | some seg' =>
          let segs' := segs.set sg seg'
          match openSegments segs' with
          | .error _ => (st, "openerr")
          | .ok () =>
            let t := target.toNat?
            let out := match t with
              | some r => chunkOut (readChunk crc segs' r)
              | none => "-"
            let others := st.origChk.filter fun p => some p.1 ≠ t
            let (d, e) := countDiff (others.map fun p => chunkOut (readChunk crc segs' p.1)) (others.map (·.2)) none
            (st, s!"{out} rest={d} errs={e}")
    | _, _, _ => (st, "bad-op")
  | ["iw"] =>
    if st.iwOpen ∨ st.idx.isSome then (st, "bad-op") else ({ st with iwOpen := true }, "ok")
  | ["sym", s] =>
    match st.iwOpen, bytesOfHex? s with
    | true, some s =>
      if !st.series.isEmpty then (st, "err")              -- stage already `series`
      else match st.syms.getLast? with
        | some l => if bytesLt l s then ({ st with syms := st.syms ++ [s] }, "ok") else (st, "err")
        | none => ({ st with syms := [s] }, "ok")
    | _, _ => (st, "bad-op")
  | ["ser", sref, ls, cs] =>
    match st.iwOpen, sref.toNat?, parseLbls? ls, parseChks? cs with
    | true, some sref, some ls, some cs =>
      if cmpStrs (flat ls) (flat st.lastLset) ≤ 0 then (st, "err")
      else if sref < st.lastSref ∧ !st.lastLset.isEmpty then (st, "err")
      else match checkChunks cs 0 st.lastChunkRef 0 with
        | none => (st, "err")
        | some lastRef =>
          -- symbol references; a missing symbol is an error (not generated: the real writer has
          -- already written padding and counted label names at that point)
          match ls.mapM fun p => do pure (← indexOf? st.syms p.1, ← indexOf? st.syms p.2) with
          | none => (st, "err")
          | some refs =>
            ({ st with series := st.series ++ [⟨refs, cs⟩], lastLset := ls, lastSref := sref,
                       lastChunkRef := lastRef }, "ok")
    | _, _, _, _ => (st, "bad-op")
  | ["iclose"] =>
    if !st.iwOpen then (st, "bad-op") else
    let f := writeIndex crc st.syms st.series
    match openIndex crc f.bytes with
    | .error _ => ({ st with iwOpen := false, idx := some f }, "err-open")
    | .ok r =>
      let origSer := f.ids.map fun id => serOut (r.series crc id)
      ({ st with iwOpen := false, idx := some f, rd := some r, origSer := origSer, origAll := readEverything r },
        s!"ok size={f.bytes.length} toc={tocStr f.toc}")
  | ["ifile"] =>
    match st.idx with
    | some f => (st, hx f.bytes)
    | none => (st, "bad-op")
  | ["isymtab"] =>
    match st.idx with
    | some _ => (st, hx (symbolTable crc st.syms))
    | none => (st, "bad-op")
  | ["itoc"] =>
    match st.idx with
    | some f => (st, hx (encToc crc f.toc))
    | none => (st, "bad-op")
  | ["ientry", k] =>
    match st.idx, k.toNat? with
    | some f, some k =>
      match f.ids[k]?, st.series[k]? with
      | some id, some s => (st, s!"id={id} {hx (seriesEntry crc s)}")
      | _, _ => (st, "none")
    | _, _ => (st, "bad-op")
  | ["rsyms"] =>
    match st.rd with
    | some r => (st, "ok " ++ hexList r.syms)
    | none => (st, "bad-op")
  | ["rser", k] =>
    match st.rd, st.idx, k.toNat? with
    | some r, some f, some k =>
      match f.ids[k]? with
      | some id => (st, s!"id={id} {serOut (r.series crc id)}")
      | none => (st, "none")
    | _, _, _ => (st, "bad-op")
  | ["rpost", n, v] =>
    match st.rd, bytesOfHex? n, bytesOfHex? v with
    | some r, some n, some v => (st, postOut (r.postings crc n v))
    | _, _, _ => (st, "bad-op")
  | ["rpostm", n, vs] =>
    match st.rd, bytesOfHex? n, parseHexList? vs with
    | some r, some n, some vs => (st, postOut (r.postingsMulti crc n vs))
    | _, _, _ => (st, "bad-op")
  | ["rpall", n] =>
    match st.rd, bytesOfHex? n with
    | some r, some n => (st, postOut (r.postingsAll crc n))
    | _, _ => (st, "bad-op")
  | ["rpm", n, kind, arg] =>
    match st.rd, bytesOfHex? n, (bytesOfHex? arg).bind (matchFn? kind) with
    | some r, some n, some pred => (st, postOut (r.postingsMatching crc n pred))
    | _, _, _ => (st, "bad-op")
  | ["rlv", n] =>
    match st.rd, bytesOfHex? n with
    | some r, some n => (st, "ok " ++ hexList (r.labelValues n))
    | _, _ => (st, "bad-op")
  | ["rln"] =>
    match st.rd with
    | some r => (st, "ok " ++ hexList r.labelNames)
    | none => (st, "bad-op")
  | ["decbody", b] =>
    match st.rd, bytesOfHex? b with
    | some r, some b => (st, serOut (decSeriesBody (lookupIn r.syms) b))
    | _, _ => (st, "bad-op")
  | "dmgi" :: pos :: kind :: what =>
    match st.idx, pos.toNat? with
    | some f, some pos =>
      match damage f.bytes pos kind with
      | none => (st, "bad-op")
      | some bytes' =>
        match openIndex crc bytes' with
        | .error _ => (st, "openerr")
        | .ok r =>
          let k : Option Nat := match what with
            | ["ser", k] => k.toNat?
            | _ => none
          let outs := f.ids.map fun id => serOut (r.series crc id)
          let out := match k with
            | some k => outs[k]?.getD "bad-op"
            | none => "-"
          let (d1, e1) := countDiff outs st.origSer k
          let all := readEverything r
          let (d2, e2) := if all.length ≠ st.origAll.length then (1, 0) else countDiff all st.origAll none
          (st, s!"{out} rest={d1 + d2} errs={e1 + e2}")
    | _, _ => (st, "bad-op")
  | ["bw"] =>
    match st.bw with
    | none => ({ st with bw := some [] }, "ok")
    | some _ => (st, "bad-op")
  | ["app", ls, t, v] =>
    match st.bw, parseApp? ls t v with
    | some ss, some (ls, t, v) =>
      if ls.isEmpty then (st, "err") else                 -- "empty labelset"
      -- memSeries.appendable: later than the last sample, or an exact duplicate of it
      match (ss.find? (·.1 = ls)).bind (·.2.getLast?) with
      | none => ({ st with bw := some (addSample ss ls t v) }, "ok")
      | some (lt, lv) =>
        if t > lt then ({ st with bw := some (addSample ss ls t v) }, "ok")
        else if t = lt ∧ v = lv then (st, "ok")
        else (st, "err")
    | _, _ => (st, "bad-op")
  | ["flush"] =>
    match st.bw with
    | some ss =>
      if ss.isEmpty then ({ st with bw := none }, "err-empty")
      else ({ st with bw := none, blocks := st.blocks ++ [ss] }, "ok")
    | none => (st, "bad-op")
  | ["q", n] =>
    match n.toNat? with
    | some n =>
      if n = 0 then (st, "bad-op") else
      match st.blocks[n - 1]? with
      | some b => (st, renderQ b)
      | none => (st, "bad-op")
    | none => (st, "bad-op")
  | ["compact", ns] =>
    match parseBlockList? ns st.blocks.length with
    | some ks =>
      let merged := ks.foldl (fun acc k => mergeBlocks acc (st.blocks[k - 1]?.getD [])) []
      ({ st with blocks := st.blocks ++ [merged] }, "ok")
    | none => (st, "bad-op")
  | ["openq"] =>
    match st.idx, st.segs, st.rd with
    | some f, some segs, some r =>
      match openSegments segs with
      | .error _ => (st, "openerr")
      | .ok () =>
        let parts : Except Err (List String) := f.ids.foldr (fun id acc =>
          match acc, r.series crc id with
          | .error e, _ => .error e
          | _, .error e => .error e
          | .ok ps, .ok s =>
            if s.chunks.isEmpty then .ok ps else
            match s.chunks.mapM fun c => (readChunk crc segs c.ref).map fun ed =>
                s!"{c.mint}:{c.maxt}:{ed.1.toNat}:{hx ed.2}" with
            | .error e => .error e
            | .ok cs => .ok ((lblStr s.labels ++ "|" ++ ";".intercalate cs) :: ps)) (.ok [])
        match parts with
        | .ok ps => (st, ("ok " ++ " ".intercalate ps).trimAsciiEnd.toString)
        | .error _ => (st, "err")
    | _, _, _ => (st, "bad-op")
  | _ => (st, "bad-op")

def model (ops : List String) : List String :=
  let rec go (st : St) : List String → List String
    | [] => []
    | l :: rest => let (st', o) := step st l; o :: go st' rest
  go {} ops

/-! ### judge: the statement evaluated on the implementation's outputs
  * what was accepted by the writers (`sym`/`ser`/`wc` answered `ok`) is what the readers return:
    symbols, labels + chunk metas of every series, chunk encoding + bytes by reference, postings of
    every label pair, label names and values, and the block-level chunk query (twice: reopening);
  * with one byte of a file altered, the affected read is an error or exactly what the same read
    returned before the damage (the implementation's own earlier output), and no other read returns
    different data (`rest=0`).
  Nothing of the model above is used. -/

structure JSt where
  syms : List Bytes := []
  series : List (List (Bytes × Bytes) × List ChunkMeta) := []
  chunks : List (Nat × Chunk) := []
  ids : Option (List Nat) := none
  rser : List (Nat × String) := []       -- k ↦ undamaged `Series` output (without the id)
  rc : List (Nat × String) := []         -- ref ↦ undamaged chunk read
  bw : List SerS := []                   -- samples accepted since `bw`
  blocks : List (List SerS) := []

def sortedUniq (xs : List Bytes) : List Bytes := xs.foldr insertBytes []

def afterId (out : String) : Option (Nat × String) :=
  match out.splitOn " " with
  | idTok :: rest =>
    match idTok.splitOn "=" with
    | ["id", n] => n.toNat?.map fun n => (n, " ".intercalate rest)
    | _ => none
  | _ => none

/-- `<X> rest=<d> errs=<e>` ↦ `(X, d)` -/
def splitRest (out : String) : Option (String × Nat) :=
  let ts := out.splitOn " "
  match ts.reverse with
  | _errs :: restTok :: xs =>
    match restTok.splitOn "=" with
    | ["rest", d] => d.toNat?.map fun d => (" ".intercalate xs.reverse, d)
    | _ => none
  | _ => none

def expectedQuery (js : JSt) : Option String :=
  let parts := js.series.filterMap fun s =>
    if s.2.isEmpty then none else
    some ((s.2.mapM fun c => (js.chunks.find? (·.1 = c.ref)).map fun p =>
      s!"{c.mint}:{c.maxt}:{p.2.1.toNat}:{hx p.2.2}").map fun cs => lblStr s.1 ++ "|" ++ ";".intercalate cs)
  (parts.mapM id).map fun ps => ("ok " ++ " ".intercalate ps).trimAsciiEnd.toString

/-- the reads that select series by a predicate on the value of one label name (`Postings` with several
    values, `PostingsForAllLabelValues`, `PostingsForLabelMatching`): exactly the accepted series that
    carry the name with an accepted value, in the order of the all-postings list.  Nothing is claimed
    for the all-postings key (empty name). -/
def judgeSel (js : JSt) (k : Nat) (n : Bytes) (pred : Bytes → Bool) (out : String) : Except String JSt :=
  if n.isEmpty then .ok js else
  match js.ids with
  | none => .ok js
  | some ids =>
    let want := (ids.zip js.series).filterMap fun p =>
      if p.2.1.any fun l => l.1 == n && pred l.2 then some p.1 else none
    if out ≠ "ok " ++ natList want then .error s!"violation readback-postings-selected op={k} name={hx n} got={out.take 60}"
    else .ok js

def judgeStep (js : JSt) (k : Nat) (op out : String) : Except String JSt :=
  match toks op with
  | "wc" :: ts =>
    match ts.mapM parseChunkTok?, toks out with
    | some chks, ["ok", refs] =>
      match (refs.splitOn ",").mapM String.toNat? with
      | some refs =>
        if refs.length ≠ chks.length then .error s!"violation wc-refs op={k}"
        else if refs.any fun r => js.chunks.any (·.1 = r) then .error s!"violation wc-ref-reused op={k}"
        else .ok { js with chunks := js.chunks ++ refs.zip chks }
      | none => .error s!"violation unparsable op={k}"
    | _, _ => .ok js
  | ["rc", r] =>
    match r.toNat? with
    | some r =>
      match js.chunks.find? (·.1 = r) with
      | some (_, c) =>
        let want := if validEnc c.1 then s!"ok {c.1.toNat} {hx c.2}" else "err"
        if out ≠ want then .error s!"violation readback-chunk op={k} ref={r} got={out.take 60}"
        else .ok { js with rc := (r, out) :: js.rc }
      | none => .ok { js with rc := (r, out) :: js.rc }
    | none => .ok js
  | ["sym", s] =>
    match bytesOfHex? s with
    | some s => if out = "ok" then .ok { js with syms := js.syms ++ [s] } else .ok js
    | none => .ok js
  | ["ser", _, ls, cs] =>
    match parseLbls? ls, parseChks? cs with
    | some ls, some cs => if out = "ok" then .ok { js with series := js.series ++ [(ls, cs)] } else .ok js
    | _, _ => .ok js
  | ["iclose"] =>
    if out.startsWith "err" then .error s!"violation index-unreadable op={k} got={out.take 40}" else .ok js
  | ["rsyms"] =>
    if out ≠ "ok " ++ hexList js.syms then .error s!"violation readback-symbols op={k}" else .ok js
  | ["rser", i] =>
    match i.toNat? with
    | some i =>
      match js.series[i]? with
      | none => if out = "none" then .ok js else .error s!"violation readback-extra-series op={k} k={i}"
      | some (ls, cs) =>
        match afterId out with
        | some (_, body) =>
          if body ≠ s!"ok {lblStr ls} {chkStr cs}" then .error s!"violation readback-series op={k} k={i} got={body.take 80}"
          else .ok { js with rser := (i, body) :: js.rser }
        | none => .error s!"violation readback-series op={k} k={i} got={out.take 80}"
    | none => .ok js
  | ["rpost", n, v] =>
    match bytesOfHex? n, bytesOfHex? v with
    | some n, some v =>
      if n.isEmpty ∧ v.isEmpty then
        match toks out with
        | ["ok", l] =>
          let ids := if l = "-" then some [] else (l.splitOn ",").mapM String.toNat?
          match ids with
          | some ids =>
            if ids.length ≠ js.series.length then .error s!"violation all-postings-count op={k} got={ids.length}"
            else if !decide (ids.Pairwise (· < ·)) then .error s!"violation all-postings-order op={k}"
            else .ok { js with ids := some ids }
          | none => .error s!"violation unparsable op={k}"
        | _ => .error s!"violation readback-postings op={k} got={out.take 60}"
      else
        match js.ids with
        | none => .ok js
        | some ids =>
          let want := (ids.zip js.series).filterMap fun p => if p.2.1.contains (n, v) then some p.1 else none
          if out ≠ "ok " ++ natList want then .error s!"violation readback-postings op={k} name={hx n} value={hx v} got={out.take 60}"
          else .ok js
    | _, _ => .ok js
  | ["rpostm", n, vs] =>
    match bytesOfHex? n, parseHexList? vs with
    | some n, some vs => judgeSel js k n (fun v => vs.contains v) out
    | _, _ => .ok js
  | ["rpall", n] =>
    match bytesOfHex? n with
    | some n => judgeSel js k n (fun _ => true) out
    | none => .ok js
  | ["rpm", n, kind, arg] =>
    match bytesOfHex? n, (bytesOfHex? arg).bind (matchFn? kind) with
    | some n, some pred => judgeSel js k n pred out
    | _, _ => .ok js
  | ["rlv", n] =>
    match bytesOfHex? n with
    | some n =>
      if n.isEmpty then .ok js else    -- the all-postings key is not a label name: nothing is claimed
      let want := sortedUniq (js.series.flatMap fun s => (s.1.filter fun p => p.1 = n).map (·.2))
      if out ≠ "ok " ++ hexList want then .error s!"violation readback-label-values op={k} name={hx n} got={out.take 60}"
      else .ok js
    | none => .ok js
  | ["rln"] =>
    let want := sortedUniq (js.series.flatMap fun s => s.1.map (·.1))
    if out ≠ "ok " ++ hexList want then .error s!"violation readback-label-names op={k} got={out.take 60}" else .ok js
  | ["bw"] => .ok { js with bw := [] }
  | ["app", ls, t, v] =>
    match parseApp? ls t v with
    | some (ls, t, v) => if out = "ok" then .ok { js with bw := addSample js.bw ls t v } else .ok js
    | none => .ok js
  | ["flush"] =>
    if out = "ok" then .ok { js with blocks := js.blocks ++ [js.bw], bw := [] }
    else if js.bw.isEmpty then .ok js
    else .error s!"violation flush-failed op={k} got={out.take 40}"
  | ["q", n] =>
    match n.toNat? with
    | some n =>
      match js.blocks[n - 1]? with
      | some b => if out ≠ renderQ b then .error s!"violation block-query op={k} block={n} got={out.take 100}" else .ok js
      | none => .ok js
    | none => .ok js
  | ["compact", ns] =>
    match parseBlockList? ns js.blocks.length with
    | some ks =>
      if out ≠ "ok" then .error s!"violation compact-failed op={k} got={out.take 40}" else
      .ok { js with blocks := js.blocks ++ [ks.foldl (fun acc k => mergeBlocks acc (js.blocks[k - 1]?.getD [])) []] }
    | none => .ok js
  | ["openq"] =>
    match expectedQuery js with
    | some want => if out ≠ want then .error s!"violation reopen-query op={k} got={out.take 80}" else .ok js
    | none => .ok js
  | "dmgi" :: pos :: kind :: what =>
    if out = "openerr" then .ok js else
    match splitRest out with
    | none => .error s!"violation unparsable op={k}"
    | some (x, d) =>
      if d ≠ 0 then .error s!"violation damage-other-data op={k} pos={pos} kind={kind} rest={d}" else
      match what with
      | ["ser", i] =>
        match i.toNat? with
        | some i =>
          if x = "err" then .ok js else
          match js.rser.find? (·.1 = i) with
          | some (_, body) =>
            if x = body then .ok js else .error s!"violation damage-wrong-series op={k} pos={pos} kind={kind} k={i} got={x.take 80}"
          | none =>
            match js.series[i]? with
            | some (ls, cs) =>
              if x = s!"ok {lblStr ls} {chkStr cs}" then .ok js
              else .error s!"violation damage-wrong-series op={k} pos={pos} kind={kind} k={i} got={x.take 80}"
            | none => .ok js
        | none => .ok js
      | _ => if x = "-" then .ok js else .error s!"violation unparsable op={k}"
  | ["dmgc", _, pos, kind, target] =>
    if out = "openerr" then .ok js else
    match splitRest out with
    | none => .error s!"violation unparsable op={k}"
    | some (x, d) =>
      if d ≠ 0 then .error s!"violation damage-other-data op={k} pos={pos} kind={kind} rest={d}" else
      match target.toNat? with
      | none => if x = "-" then .ok js else .error s!"violation unparsable op={k}"
      | some r =>
        if x = "err" then .ok js else
        match js.rc.find? (·.1 = r) with
        | some (_, o) => if x = o then .ok js else .error s!"violation damage-wrong-chunk op={k} pos={pos} kind={kind} ref={r} got={x.take 80}"
        | none =>
          match js.chunks.find? (·.1 = r) with
          | some (_, c) =>
            if x = s!"ok {c.1.toNat} {hx c.2}" then .ok js
            else .error s!"violation damage-wrong-chunk op={k} pos={pos} kind={kind} ref={r} got={x.take 80}"
          | none => .ok js
  | _ => .ok js

def judge (ops outs : List String) : String :=
  let rec go (js : JSt) (k : Nat) : List String → List String → String
    | op :: ops, out :: outs =>
      if out.startsWith "panic" then s!"violation panic op={k} {(toks op).headD ""}" else
      if out = "bad-op" then go js (k + 1) ops outs else      -- op not applicable in this state (shrunk replays)
      match judgeStep js k op out with
      | .error v => v
      | .ok js' => go js' (k + 1) ops outs
    | _, _ => "ok"
  go {} 0 ops outs

def suite : Suite := { name := "block", model := model, judge := judge }

end Prom.BlockSuite
