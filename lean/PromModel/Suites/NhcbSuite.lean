import PromModel.Ingest.Nhcb
/-
  Suite `nhcb` (property C36). Ops (see harness/suites/nhcb/main.go):

    cfg keep=<0|1> st=<0|1> src=<…> nin=<k>             -> ok
    payload <hex>                                        -> -
    gen <labels> <ts|-> <cv> <cumcounts> <count> <sum>   -> -
    in type|help|unit <name> <text> | in comment <text>
    in series <bytes> <labels> <valbits> <ts|-> <st> <exemplars|->
    in hist <bytes> <labels> <ts|-> <st> <exemplars|-> <hist>
    in err
    eof
  The output of an `in`/`eof` op is the list of entries the NHCB-wrapped parser returned while that inner
  entry was the last one pulled, joined by " ; " (or `-`).
-/
namespace Prom.Nhcb

/-- Does /repo contain fixes/F23.patch?  (`false` = the code as found: `Histogram()` returns `p.ts`.) -/
def repoFixed : Bool := true

/-! ### parsing -/

def parseLabels? (s : String) : Option Labels :=
  if s = "-" then some [] else
  (s.splitOn ",").mapM fun p =>
    match p.splitOn ":" with
    | [a, b] => some (a, b)
    | _ => none

def showLabels (ls : Labels) : String :=
  if ls.isEmpty then "-" else ",".intercalate (ls.map fun l => l.1 ++ ":" ++ l.2)

def parseTs? (s : String) : Option (Option Int) :=
  if s = "-" then some none else s.toInt?.map some

def showTs : Option Int → String
  | none => "-"
  | some t => toString t

def parseEx (s : String) : List String := if s = "-" then [] else s.splitOn "~"
def showEx (ex : List String) : String := if ex.isEmpty then "-" else "~".intercalate ex

def parseEntry (line : String) : Option Entry :=
  match toks line with
  | ["in", "type", n, t] => some (.typ n t)
  | ["in", "help", n, t] => some (.help n t)
  | ["in", "unit", n, t] => some (.unit n t)
  | ["in", "comment", t] => some (.comment t)
  | ["in", "series", b, ls, v, ts, st, ex] => do
    pure (.series b (← parseLabels? ls) (← natOfHex? v) (← parseTs? ts) (← st.toInt?) (parseEx ex))
  | ["in", "hist", b, ls, ts, st, ex, h] => do
    pure (.hist b (← parseLabels? ls) (← parseTs? ts) (← st.toInt?) (parseEx ex) h)
  | ["in", "err"] => some .err
  | _ => none

def parseCfg (line : String) : Option (Cfg × Nat) :=
  match toks line with
  | "cfg" :: rest =>
    let nin := (rest.filterMap fun t => if t.startsWith "nin=" then (t.drop 4).toString.toNat? else none).head?.getD 0
    some ({ keep := rest.contains "keep=1", parseST := rest.contains "st=1", fixed := repoFixed,
            partialEx := !rest.contains "src=synth" }, nin)
  | _ => none

/-! ### rendering -/

def cbits (b : Nat) : String := if isNaN b then "nan" else hexOfNat b 16

def showList (xs : List String) : String := if xs.isEmpty then "-" else ",".intercalate xs

def showSpans (xs : List Span) : String := showList (xs.map fun s => s!"{s.offset}/{s.length}")

def deltas : Int → List Int → List Int
  | _, [] => []
  | prev, x :: xs => (x - prev) :: deltas x xs

def showConv : Conv → String
  | .int count sum cv abs =>
    let (spans, kept) := compact (· == (0 : Int)) 2 abs
    s!"I:-53:{count}:{hexOfNat sum 16}:0000000000000000:0:{showList (cv.map (hexOfNat · 16))}:{showSpans spans}:{showList ((deltas 0 kept).map toString)}:-:-:0"
  | .float count sum cv abs =>
    let (spans, kept) := compact fIsZero 0 abs
    s!"F:-53:{cbits count}:{hexOfNat sum 16}:0000000000000000:0000000000000000:{showList (cv.map (hexOfNat · 16))}:{showSpans spans}:{showList (kept.map cbits)}:-:-:0"

def showOut (cfg : Cfg) : Out → String
  | .typ n t => s!"type {n} {t}"
  | .help n t => s!"help {n} {t}"
  | .unit n t => s!"unit {n} {t}"
  | .comment t => s!"comment {t}"
  | .series b ls v ts st ex =>
    s!"series {b} {showLabels ls} {hexOfNat v 16} {showTs ts} {if cfg.parseST then st else 0} {showEx ex}"
  | .hist b ls ts st ex h =>
    s!"hist {b} {showLabels ls} {showTs ts} {if cfg.parseST then st else 0} {showEx ex} {h}"
  | .nhcb b ls ts st ex c =>
    s!"hist {b} {showLabels ls} {showTs ts} {if cfg.parseST then st else 0} {showEx ex} {showConv c}"
  | .err => "err"

def showOuts (cfg : Cfg) (os : List Out) : String :=
  if os.isEmpty then "-" else " ; ".intercalate (os.map (showOut cfg))

/-! ### model -/

def isIn (l : String) : Bool := l.startsWith "in " || l = "in"

def model (ops : List String) : List String :=
  match ops with
  | [] => []
  | c :: rest =>
    match parseCfg c with
    | none => ops.map fun _ => "bad-case"
    | some (cfg, _) =>
      let ins := rest.filter isIn
      match ins.mapM parseEntry with
      | none => ops.map fun _ => "bad-op"
      | some es =>
        let outs := run cfg {} es
        let rec go (ls : List String) (outs : List (List Out)) : List String :=
          match ls with
          | [] => []
          | l :: ls =>
            if isIn l then
              match outs with
              | o :: os => showOuts cfg o :: go ls os
              | [] => "-" :: go ls []
            else if l = "eof" then
              (match outs with
               | o :: _ => showOuts cfg o
               | [] => "-") :: go ls outs
            else "-" :: go ls outs
        "ok" :: go rest outs

/-! ### judge: the statement of C36 evaluated on the implementation's output, by a reference grouping of
    the inner entry stream that does not use the parser's state machine or the TempHistogram -/

/-- an observed wrapped entry: the raw text and, for histograms, the parsed fields -/
structure Obs where
  raw : String
  kind : String
  toks : List String
  deriving Repr

def parseObs (s : String) : Obs :=
  let t := Prom.toks s
  { raw := s, kind := t.head?.getD "", toks := t }

def splitOuts (s : String) : List Obs :=
  if s = "-" then [] else (s.splitOn " ; ").map parseObs

/-- custom-bucket histogram token → (isFloat, count token, sum, cv, absolute counts as tokens-evaluated) -/
structure ObsHist where
  isFloat : Bool
  count : String
  sum : String
  cv : List String
  spans : List (Nat × Nat)
  buckets : List String
  deriving Repr

def parseObsHist (h : String) : Option ObsHist :=
  match h.splitOn ":" with
  | [k, schema, count, sum, _zt, _zc, cv, ps, pb, _ns, _nb, _crh] =>
    if schema ≠ "-53" then none else
    let lst (s : String) : List String := if s = "-" then [] else s.splitOn ","
    let spans := (lst ps).filterMap fun p =>
      match p.splitOn "/" with
      | [a, b] => do pure (← a.toNat?, ← b.toNat?)
      | _ => none
    some { isFloat := k = "F", count := count, sum := sum, cv := lst cv, spans := spans, buckets := lst pb }
  | _ => none

def isNhcbObs (o : Obs) : Bool :=
  o.kind = "hist" && (match o.toks with
    | [_, _, _, _, _, _, h] => (parseObsHist h).isSome
    | _ => false)

/-- expand spans + per-bucket values to one value per bucket index (`zero` elsewhere), at least `n` long -/
def expand {α} (zero : α) (spans : List (Nat × Nat)) (vals : List α) (n : Nat) : List α :=
  let rec go (spans : List (Nat × Nat)) (vals : List α) (acc : List α) : List α :=
    match spans with
    | [] => acc
    | (off, len) :: rest => go rest (vals.drop len) (acc ++ List.replicate off zero ++ vals.take len)
  let r := go spans vals []
  r ++ List.replicate (n - r.length) zero

/-- a classic series of a group -/
structure Member where
  suf : Suffix
  le : Nat
  v : Nat
  ts : Option Int
  st : Int
  ex : List String
  deriving Repr

structure Group where
  name : String
  key : Labels
  base : Labels
  members : List Member
  deriving Repr

structure Want where
  ls : Labels
  isInt : Bool
  cv : List Nat
  cum : List Nat       -- cumulative counts per bucket (bits), +Inf last
  count : Nat
  sum : Nat
  ts : Option (Option Int)   -- none = series disagree: not judged
  st : Int
  ex : List String
  deriving Repr

def insertBucket (b : Bucket) : List Bucket → List Bucket
  | [] => [b]
  | x :: xs => if flt b.le x.le then b :: x :: xs else x :: insertBucket b xs

def allSame {α} [BEq α] : List α → Bool
  | [] => true
  | x :: xs => xs.all (· == x)

def monotone : List Nat → Bool
  | a :: b :: rest => !flt b a && monotone (b :: rest)
  | _ => true

/-- The converted histogram the statement prescribes for a well-formed group; `none` = the group is not a
    well-formed classic histogram (duplicates that disagree, counts not cumulative/negative/NaN, count
    different from the `+Inf` bucket or below the last bucket) and nothing is demanded. -/
def Group.want (g : Group) : Option Want :=
  let bs := g.members.filter (·.suf = .bucket)
  let cs := (g.members.filter (·.suf = .count)).map (·.v)
  let ss := (g.members.filter (·.suf = .sum)).map (·.v)
  -- duplicates must agree
  let dupOk := bs.all fun b => bs.all fun c => !feq b.le c.le || b.v = c.v
  let distinct := bs.foldl (fun acc b => if acc.any (fun c => feq c.le b.le) then acc else acc ++ [b]) []
  let sorted := distinct.foldl (fun acc b => insertBucket ⟨b.le, b.v⟩ acc) []
  let counts := sorted.map (·.count)
  let okNums := (counts ++ cs).all fun c => !isNaN c && !flt c 0
  if !dupOk || !allSame cs || !allSame ss || !okNums || !monotone counts then none else
  let lastC := counts.getLast?.getD 0
  let count := cs.head?.getD lastC
  let hasInf : Bool := (sorted.getLast?.map (fun b => decide (b.le = posInf))).getD false
  if hasInf && !feq count lastC then none
  else if !hasInf && flt count lastC then none
  else
    let full := if hasInf then sorted else sorted ++ [⟨posInf, count⟩]
    let cum := full.map (·.count)
    let isInt := cum.all (fun c => (asI64? c).isSome) && (asU64? count).isSome
    some { ls := g.base, isInt := isInt, cv := (full.filter (·.le ≠ posInf)).map (·.le), cum := cum, count := count,
           sum := ss.head?.getD 0,
           ts := if allSame (g.members.map (·.ts)) then some ((g.members.head?.map (·.ts)).getD none) else none,
           st := (g.members.head?.map (·.st)).getD 0, ex := g.members.flatMap (·.ex) }

/-- Does the observed histogram carry exactly the wanted numbers? returns the failing clause -/
def checkNumbers (w : Want) (h : ObsHist) : Option String :=
  let cvWant := w.cv.map (hexOfNat · 16)
  if h.cv ≠ cvWant then some "bounds"
  else if h.sum ≠ hexOfNat w.sum 16 then some "sum"
  else if w.isInt then
    if h.isFloat then some "int-vs-float" else
    match h.buckets.mapM String.toInt?, (w.cum.mapM asI64?) with
    | some ds, some cumWant =>
      let abs := expand (0 : Int) h.spans (cumulate 0 ds) (w.cv.length + 1)
      if cumulate 0 abs ≠ cumWant then some "counts"
      else if some h.count ≠ (asU64? w.count).map toString then some "count"
      else none
    | _, _ => some "unparsable"
  else
    if !h.isFloat then some "int-vs-float" else
    let abs := expand "0000000000000000" h.spans h.buckets (w.cv.length + 1)
    if abs ≠ (fdecumulate 0 w.cum).map (fun b => if fIsZero b then "0000000000000000" else cbits b) then some "counts"
    else if h.count ≠ cbits w.count then some "count"
    else none

/-- reference grouping state -/
inductive Mode
  | idle
  | group (g : Group)
  | inhibit (name : String) (key : Labels)
  deriving Repr

def classicShape (typ bName : String) (ls : Labels) : Option (Suffix × String × Nat) :=
  if typ ≠ hHistogram then none else
  let (suf, name) := baseName (ls.get hName)
  if name ≠ hexStr bName then none else
  match suf with
  | .bucket =>
    if !ls.has hLe then none else
    match (hexDec? (ls.get hLe)).bind parseFloat? with
    | some le => some (suf, name, le)
    | none => none
  | .count => some (suf, name, 0)
  | .sum => some (suf, name, 0)
  | .none => none

def obsSeries (cfg : Cfg) (b : String) (ls : Labels) (v : Nat) (ts : Option Int) (st : Int) (ex : List String) : String :=
  showOut cfg (.series b ls v ts st ex)

/-- judge the end of a group against the observed entries attributed to the terminating op -/
def judgeGroupEnd (cfg : Cfg) (k : Nat) (g : Group) (obs : List Obs) (term : String) (taint : Bool) : Option String :=
  let nh := obs.filter isNhcbObs
  let sfx := s!" terminator={term} tainted={if taint then 1 else 0}"
  (fun (r : Option String) => r.map (· ++ sfx)) <|
  match g.want with
  | none => none
  | some w =>
    match nh with
    | [] => some s!"violation nhcb-missing op={k} name={w.ls.get hName} labels={showLabels w.ls}"
    | [o] =>
      match o.toks with
      | [_, bytes, ls, ts, st, ex, h] =>
        match parseObsHist h with
        | none => some s!"violation nhcb-unparsable op={k}"
        | some oh =>
          if ls ≠ showLabels w.ls then some s!"violation nhcb-labels op={k} want={showLabels w.ls} got={ls}"
          else if bytes ≠ metricString w.ls then some s!"violation nhcb-series-text op={k} got={bytes}"
          else
            match checkNumbers w oh with
            | some c => some s!"violation nhcb-fields clause={c} op={k} labels={ls} got={h}"
            | none =>
              if ex ≠ showEx w.ex then
                -- same exemplars except that one without timestamp shows a timestamp?
                let got := parseEx ex
                let staleTs := got.length = w.ex.length && (got.zip w.ex).all fun (g, x) =>
                  g = x || (match g.splitOn "/", x.splitOn "/" with
                    | [gl, gv, _], [xl, xv, xt] => gl = xl && gv = xv && xt = "-"
                    | _, _ => false)
                some s!"violation nhcb-exemplars kind={if staleTs then "stale-exemplar-timestamp" else "other"} op={k} labels={ls} want={showEx w.ex} got={ex}"
              else if cfg.parseST && st ≠ toString w.st then some s!"violation nhcb-start-timestamp op={k} labels={ls} want={w.st} got={st}"
              else
                match w.ts with
                | none => none
                | some wts =>
                  if ts = showTs wts then none
                  else
                    let others := obs.filter fun x => !isNhcbObs x
                    let termTs := (others.head?.map fun x => x.toks.getD (if x.kind = "series" then 4 else 3) "?").getD "none"
                    let kind := if ts = "-" then "lost" else if wts.isNone then "inherited" else "replaced"
                    some s!"violation nhcb-timestamp kind={kind} op={k} labels={ls} want={showTs wts} got={ts} terminator-ts={termTs}"
      | _ => some s!"violation nhcb-unparsable op={k}"
    | _ => some s!"violation nhcb-duplicate op={k} labels={showLabels w.ls} n={nh.length}"

/-- Walk the inner entries with the observed outputs. -/
def judgeGo (cfg : Cfg) : Nat → String → String → Mode → Bool → List (Option Entry × List Obs) → Option String
  | _, _, _, _, taint, [] => if taint then some "tainted" else none
  | k, typ, bName, mode, taint, (e, obs) :: rest =>
    let term : String := (match e with
      | none => "eof" | some (.series ..) => "series" | some (.hist ..) => "exponential" | some .err => "err" | some _ => "meta")
    let tstr := s!" tainted={if taint then 1 else 0}"
    -- a malformed group (or one cut short by an exponential histogram) leaves state behind in the parser
    let taintAfter (ends : Bool) : Bool := taint || (match mode with | .group g => ends && g.want.isNone | _ => false)
    let nh := obs.filter isNhcbObs
    let others := obs.filter fun x => !isNhcbObs x
    -- 1. a converted histogram may only appear where a group ends
    let endCheck (ends : Bool) : Option String :=
      match mode with
      | .group g => if ends then judgeGroupEnd cfg k g obs term taint else if nh.isEmpty then none else some s!"violation nhcb-unexpected op={k} inside-group{tstr}"
      | _ => if nh.isEmpty then none else some s!"violation nhcb-unexpected op={k} no-classic-histogram-before{tstr}"
    match e with
    | none => -- eof
      (endCheck true).orElse fun _ => if others.isEmpty then none else some s!"violation eof-extra op={k}"
    | some .err => none
    | some (.series b ls v ts st ex) =>
      let shape := classicShape typ bName ls
      let name := (baseName (ls.get hName)).2
      let skey := ls.without [hLe]
      let same : Bool :=
        match mode with
        | .group g => typ = hHistogram && g.name = name && g.key = skey
        | .inhibit n key => typ = hHistogram && n = name && key = skey
        | .idle => false
      let inhibited := (match mode with | .inhibit _ _ => same | _ => false)
      let ends := (match mode with | .group _ => !same | _ => false)
      match endCheck ends with
      | some v => some v
      | none =>
        let collected := shape.isSome && !inhibited
        -- 2. pass-through of the series itself
        let passErr : Option String :=
          if collected && !cfg.keep then
            (if others.isEmpty then none else some s!"violation classic-not-dropped op={k} series={b}")
          else
            match others with
            | [o] =>
              -- inside a running group `StartTimestamp()` answers with the group's (first series') start timestamp
              let gst : Int := (match mode with
                | .group g => if same then (g.members.head?.map (·.st)).getD st else st
                | _ => st)
              -- the start timestamp of a passed-through series is compared only outside running groups
              let ost : Int := ((o.toks.getD 5 "0").toInt?).getD 0
              let inGroup := (match mode with | .group _ => true | _ => false)
              if o.raw = obsSeries cfg b ls v ts st ex || o.raw = obsSeries cfg b ls v ts gst ex
                  || (inGroup || true) && o.raw = obsSeries { cfg with parseST := true } b ls v ts ost ex then none
              else if collected && (o.raw = obsSeries cfg b ls v ts st [] || o.raw = obsSeries cfg b ls v ts gst []
                  || o.raw = obsSeries { cfg with parseST := true } b ls v ts ost []) && !ex.isEmpty then
                some s!"violation keep-classic-exemplars-lost op={k} series={b}"
              else if collected then some s!"violation keep-classic-changed op={k} series={b} got={o.raw}{tstr}"
              else
                -- a series that is not part of a classic histogram: start timestamp inside a running group is the group's
                some s!"violation passthrough-changed op={k} series={b} got={o.raw}{tstr}"
            | [] => some s!"violation passthrough-missing op={k} series={b}"
            | _ => some s!"violation passthrough-duplicated op={k} series={b}"
        match passErr with
        | some v => some v
        | none =>
          let m : Option Member := shape.map fun (suf, _, le) => ⟨suf, le, v, ts, st, ex⟩
          let mode' : Mode :=
            if inhibited then mode
            else
              match mode, same, m with
              | .group g, true, some mem => .group { g with members := g.members ++ [mem] }
              | .group g, true, none => .group g
              | _, _, some mem => .group { name := name, key := skey, base := metricBase ls name, members := [mem] }
              | _, _, none => .idle
          judgeGo cfg (k + 1) typ bName mode' (taintAfter ends) rest
    | some (.hist b ls ts st ex h) =>
      -- an exponential histogram: passes through; whatever classic series were being collected are not demanded
      let want := showOut cfg (.hist b ls ts st ex h)
      match endCheck true with
      | some v => some v
      | none =>
      if (others.map (·.raw)) ≠ [want] then some s!"violation passthrough-changed op={k} exponential got={showList (obs.map (·.raw))}"
      else judgeGo cfg (k + 1) typ bName (.inhibit (hexStr (ls.get hName)) (ls.without [])) (taint || (match mode with | .group _ => true | _ => false)) rest
    | some ent =>
      match endCheck true with
      | some v => some v
      | none =>
        let want : String :=
          match ent with
          | .typ n t => s!"type {n} {t}"
          | .help n t => s!"help {n} {t}"
          | .unit n t => s!"unit {n} {t}"
          | .comment t => s!"comment {t}"
          | _ => "?"
        if others.map (·.raw) ≠ [want] then some s!"violation passthrough-changed op={k} meta want={want}"
        else
          let (typ', bName') := (match ent with | .typ n t => (t, n) | _ => (typ, bName))
          let mode' := (match mode with | .inhibit n key => Mode.inhibit n key | _ => Mode.idle)
          judgeGo cfg (k + 1) typ' bName' mode' (taintAfter true) rest

/-- generated-family expectations: every `gen` line must be matched by one converted histogram -/
def judgeGen (gens : List String) (allObs : List Obs) : Option String :=
  let nh := allObs.filter isNhcbObs
  let rec go (gens : List String) (pool : List Obs) : Option String :=
    match gens with
    | [] => none
    | g :: gs =>
      match toks g with
      | ["gen", ls, ts, cv, cum, count, sum] =>
        let cumBits := if cum = "-" then [] else (cum.splitOn ",").filterMap natOfHex?
        let w : Want := { ls := (parseLabels? ls).getD [], isInt := cumBits.all (fun c => (asI64? c).isSome),
                          cv := if cv = "-" then [] else (cv.splitOn ",").filterMap natOfHex?, cum := cumBits,
                          count := (natOfHex? count).getD 0, sum := (natOfHex? sum).getD 0, ts := none, st := 0, ex := [] }
        let ok (o : Obs) : Bool :=
          match o.toks with
          | [_, _, ols, ots, _, _, h] =>
            ols = ls && ots = ts && (match parseObsHist h with | some oh => (checkNumbers w oh).isNone | none => false)
          | _ => false
        match pool.find? ok with
        | some _ =>
          -- remove one match
          let rec rm (p : List Obs) : List Obs :=
            match p with
            | [] => []
            | x :: xs => if ok x then xs else x :: rm xs
          go gs (rm pool)
        | none =>
          -- same labels and numbers but another timestamp?
          let okNoTs (o : Obs) : Bool :=
            match o.toks with
            | [_, _, ols, _, _, _, h] =>
              ols = ls && (match parseObsHist h with | some oh => (checkNumbers w oh).isNone | none => false)
            | _ => false
          match pool.find? okNoTs with
          | some o => some s!"violation gen-timestamp labels={ls} want={ts} got={o.toks.getD 3 "?"}"
          | none => some s!"violation gen-nhcb-missing labels={ls}"
      | _ => go gs pool
  go gens nh

def judge (ops : List String) (outs : List String) : String :=
  match ops with
  | [] => "ok"
  | c :: _ =>
    match parseCfg c with
    | none => "ok"
    | some (cfg, nin) =>
      let pairs := (ops.zip outs).filter fun p => isIn p.1 || p.1 = "eof"
      if pairs.any (fun p => p.2 = "panic") then "violation panic" else
      if pairs.any (fun p => p.2 = "runaway" || p.2.endsWith "runaway") then "violation runaway" else
      let items : List (Option Entry × List Obs) := pairs.filterMap fun p =>
        if p.1 = "eof" then some (none, splitOuts p.2)
        else (parseEntry p.1).map fun e => (some e, splitOuts p.2)
      -- judge only up to the first eof
      let upto := (items.takeWhile fun i => i.1.isSome) ++ (items.dropWhile fun i => i.1.isSome).take 1
      match judgeGo cfg 0 "-" "-" .idle false upto with
      | some "tainted" => "ok"  -- a malformed histogram earlier in the payload: the generated expectations are not applied
      | some v => v
      | none =>
        let nIn := (ops.filter isIn).length
        let gens := ops.filter fun l => l.startsWith "gen "
        -- the generated expectations (`gen` ops) are informational: they are evaluated only when asked for
        if nIn ≠ nin || !(c.splitOn " ").contains "gencheck=1" then "ok"
        else
          match judgeGen gens (upto.flatMap (·.2)) with
          | some v => v
          | none => "ok"

def suite : Suite := { name := "nhcb", model := model, judge := judge }

end Prom.Nhcb
