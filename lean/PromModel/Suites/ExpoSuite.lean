import PromModel.Ingest.OpenMetrics
/-
  Suite `expo` (property C35).  Op syntax: see harness/suites/expo/main.go.

  model = the Lean encoders (byte-exact against expfmt) and the Lean text / OpenMetrics parsers on the bytes
          carried by the `parse` ops (entry stream equal to the real parser's);
  judge = the property statement evaluated on the IMPLEMENTATION's outputs, from the generated families
          alone (no encoder, no parser of the model involved): the entries the real parser recovered from the
          real encoder's bytes must be exactly the families' metadata and expected series (name, sorted
          labels incl. `le`/`quantile` as floats, value bits, millisecond timestamps, exemplars, start
          timestamps), per format, and the formats must agree; no parse of any byte string may panic or hang.
          Documented normalisations: `le`/`quantile` re-formatted as floats, empty-valued label = absent label,
          the encoder drops the sign of zero, every NaN becomes the canonical NaN.
-/
namespace Prom.Expo

open Prom.Api.Json (kw isNaNBits isZeroBits infBits)

/-! ### op tokens -/

def pLbls (s : String) : Option (List Lbl) :=
  if s = "-" then some [] else
  (s.splitOn ",").mapM fun p =>
    match p.splitOn ":" with
    | [n, v] => do pure (← bytesOfHex? n, ← bytesOfHex? v)
    | _ => none

def pStamp (s : String) : Option (Option Stamp) :=
  if s = "-" then some none else
  match s.splitOn "_" with
  | [a, b] => do pure (some ⟨← a.toInt?, ← b.toInt?⟩)
  | _ => none

def pEx (s : String) : Option (Option Ex) :=
  if s = "-" then some none else
  match s.splitOn "/" with
  | [l, v, t] => do pure (some ⟨← pLbls l, ← natOfHex? v, ← pStamp t⟩)
  | _ => none

def pOptBytes (s : String) : Option (Option Bytes) :=
  if s = "-" then some none else
  match s.toList with
  | '=' :: r => (bytesOfHex? (String.ofList r)).map some
  | _ => none

def pFType : String → Option FType
  | "counter" => some .counter | "gauge" => some .gauge | "untyped" => some .untyped | "summary" => some .summary
  | "histogram" => some .histogram | "gaugehistogram" => some .gaugehistogram | _ => none

def pFam (t : List String) : Option Family :=
  match t with
  | [_, ty, n, h, u] => do pure ⟨← pFType ty, ← bytesOfHex? n, ← pOptBytes h, ← pOptBytes u, []⟩
  | _ => none

def pTs (s : String) : Option (Option Int) := if s = "-" then some none else s.toInt?.map some

def pQuant (x : String) : Option (Nat × Nat) :=
  match x.splitOn "=" with
  | [a, b] => do pure (← natOfHex? a, ← natOfHex? b)
  | _ => none

def pBucket (x : String) : Option Bucket :=
  match x.splitOn "=" with
  | [ub, cc, ccf, e] => do pure ⟨← natOfHex? ub, ← cc.toNat?, ← natOfHex? ccf, ← pEx e⟩
  | _ => none

def pMetric (t : List String) : Option Metric :=
  match t with
  | _ :: k :: l :: ts :: cr :: f => do
    let lbls ← pLbls l
    let ts ← pTs ts
    let cr ← pStamp cr
    match k, f with
    | "c", [v, e] => pure { kind := .c, lbls, ts, created := cr, val := ← natOfHex? v, ex := ← pEx e }
    | "g", [v] => pure { kind := .g, lbls, ts, created := cr, val := ← natOfHex? v }
    | "u", [v] => pure { kind := .u, lbls, ts, created := cr, val := ← natOfHex? v }
    | "s", [c, sm, q] =>
      let qs ← if q = "-" then some [] else (q.splitOn ",").mapM pQuant
      pure { kind := .s, lbls, ts, created := cr, count := ← c.toNat?, sum := ← natOfHex? sm, quants := qs }
    | "h", [c, cf, sm, b] =>
      let bs ← if b = "-" then some [] else (b.splitOn ";").mapM pBucket
      pure { kind := .h, lbls, ts, created := cr, count := ← c.toNat?, countF := ← natOfHex? cf, sum := ← natOfHex? sm, buckets := bs }
    | _, _ => none
  | _ => none

/-- the families of a case, in order (metric lines attach to the last family) -/
def addLine (fs : List Family) (t : List String) : List Family :=
  match t.head? with
  | some "fam" => match pFam t with | some f => fs ++ [f] | none => fs
  | some "m" =>
    match pMetric t, fs.reverse with
    | some m, last :: rev => (({ last with metrics := last.metrics ++ [m] }) :: rev).reverse
    | _, _ => fs
  | _ => fs

/-! ### printing entries -/

def hex16 (n : Nat) : String := hexOfNat n 16

def lblsStr (ls : List Lbl) : String :=
  if ls.isEmpty then "-" else ",".intercalate (ls.map fun l => hexEncBytes l.1 ++ ":" ++ hexEncBytes l.2)

def tsStr : Option Int → String
  | none => "-"
  | some t => toString t

def pexStr : Option PEx → String
  | none => "-"
  | some e => lblsStr e.lbls ++ "/" ++ hex16 e.val ++ "/" ++ tsStr e.ts

def entryStr : Entry → String
  | .typ n t => "type " ++ hexEncBytes n ++ " " ++ hexEncBytes t
  | .help n t => "help " ++ hexEncBytes n ++ " " ++ hexEncBytes t
  | .unit n t => "unit " ++ hexEncBytes n ++ " " ++ hexEncBytes t
  | .comment t => "comment " ++ hexEncBytes t
  | .series raw l v ts ex st =>
    "series " ++ hexEncBytes raw ++ " " ++ lblsStr l ++ " " ++ hex16 v ++ " " ++ tsStr ts ++ " " ++ pexStr ex ++ " " ++ toString st

def finStr : Fin → String
  | .eof => "eof" | .err => "err" | .hang => "hang" | .panic => "panic" | .fuel => "fuel"

def streamStr (r : List Entry × Fin) : String :=
  if r.2 == .hang then "hang" else " ; ".intercalate (r.1.map entryStr ++ [finStr r.2])

def flag (s pre : String) : Option Bool :=
  if s == pre ++ "1" then some true else if s == pre ++ "0" then some false else none

/-! ### model -/

def modelOp (fs : List Family) (t : List String) : String :=
  match t with
  | ["enc", w] =>
    let r := if w = "text" then encodeText fs else if w = "om0" then encodeOM false fs else if w = "om1" then encodeOM true fs else none
    (match r with | some b => hexEncBytes b | none => "encerr")
  | ["parse", parser, tu, skip, st, _, payload] =>
    match flag tu "tu=", flag skip "skip=", flag st "st=", bytesOfHex? payload with
    | some tu, some skip, some st, some b =>
      if parser = "text" then streamStr (parseText tu b)
      else if parser = "om" then streamStr (parseOM tu skip st b)
      else "bad"
    | _, _, _, _ => "bad"
  | _ => "-"

def modelGo (fs : List Family) : List String → List String
  | [] => []
  | l :: rest =>
    let t := toks l
    let fs' := addLine fs t
    modelOp fs' t :: modelGo fs' rest

/-! ### judge: parsing the implementation's entry streams -/

/-- a series as the property sees it -/
structure XS where
  lbls : List Lbl          -- sorted, without empty values
  val : Nat
  ts : Option Int
  ex : Option PEx
  st : Int
deriving Repr, DecidableEq, Inhabited

inductive JE
  | typ (n t : Bytes) | help (n t : Bytes) | unit (n t : Bytes) | comment | series (x : XS) | hist | bad
deriving Repr, DecidableEq, Inhabited

def pPEx (s : String) : Option (Option PEx) :=
  if s = "-" then some none else
  match s.splitOn "/" with
  | [l, v, t] => do pure (some ⟨← pLbls l, ← natOfHex? v, ← pTs t⟩)
  | _ => none

def pEntry (s : String) : JE :=
  match toks s with
  | ["type", n, t] => (do pure (JE.typ (← bytesOfHex? n) (← bytesOfHex? t))).getD .bad
  | ["help", n, t] => (do pure (JE.help (← bytesOfHex? n) (← bytesOfHex? t))).getD .bad
  | ["unit", n, t] => (do pure (JE.unit (← bytesOfHex? n) (← bytesOfHex? t))).getD .bad
  | ["comment", _] => .comment
  | ["series", _, l, v, ts, ex, st] =>
    (do pure (JE.series ⟨← pLbls l, ← natOfHex? v, ← pTs ts, ← pPEx ex, ← st.toInt?⟩)).getD .bad
  | "hist" :: _ => .hist
  | _ => .bad

/-- (entries, final token) of an implementation output line -/
def pStream (s : String) : List JE × String :=
  let parts := s.splitOn " ; "
  match parts.reverse with
  | last :: rev => (rev.reverse.map pEntry, last)
  | [] => ([], "")

/-! ### judge: the expected observations, from the families alone -/

def normVal (b : Nat) : Nat := if isNaNBits b then canonNaN else if isZeroBits b then 0 else b

def isEscapable (c : UInt8) : Bool := c == 92 || c == 34 || c == 10

def dropEmpty (ls : List Lbl) : List Lbl := ls.filter (fun l => !l.2.isEmpty)

/-- label comparison key -/
def canonLbls (name : Bytes) (ls : List Lbl) : List Lbl := dropEmpty (sortLbls ((kwName, name) :: ls))

def stampMs (s : Stamp) : Int := s.sec * 1000 + s.nanos / 1000000

def expEx (proto : Bool) (e : Option Ex) : Option PEx :=
  match e with
  | some e => if e.lbls.isEmpty && !proto then none else some ⟨sortLbls e.lbls, (if proto then e.val else normVal e.val), e.ts.map stampMs⟩
  | none => none

/-- expected series of one metric: `om` selects the OpenMetrics view (exemplars, start timestamps) -/
def expMetric (om withST proto : Bool) (f : Family) (m : Metric) : List XS :=
  let st : Int :=
    if withST then
      match m.created with
      | some c => if (f.typ == .counter && (proto || hasSuffix f.name kwTotal)) || f.typ == .summary || f.typ == .histogram || (proto && f.typ == .gaugehistogram) then stampMs c else 0
      | none => 0
    else 0
  let mk (suffix : Bytes) (extra : List Lbl) (v : Nat) (ex : Option Ex) : XS :=
    ⟨canonLbls (f.name ++ suffix) (m.lbls ++ extra), (if proto then v else normVal v), (if proto && m.ts == some 0 then none else m.ts), if om then expEx proto ex else none, st⟩
  match f.typ with
  | .counter => [mk [] [] m.val m.ex]
  | .gauge | .untyped => [mk [] [] m.val none]
  | .summary =>
    m.quants.map (fun q => mk [] [(kwQuantile, writeOMFloat q.1)] q.2 none) ++
    [mk (kw "_sum") [] m.sum none, mk (kw "_count") [] (u64ToF m.count) none]
  | .histogram | .gaugehistogram =>
    m.buckets.map (fun b => mk (kw "_bucket") [(kwLe, writeOMFloat b.ub)] (floatOr b.ccf b.cc) b.ex) ++
    (if hasInfBucket m.buckets then [] else [mk (kw "_bucket") [(kwLe, kw "+Inf")] (floatOr m.countF m.count) none]) ++
    [mk (kw "_sum") [] m.sum none, mk (kw "_count") [] (floatOr m.countF m.count) none]

def expSeries (om withST proto : Bool) (fs : List Family) : List XS :=
  fs.flatMap fun f => f.ms.flatMap (expMetric om withST proto f)

inductive Meta | typ (n t : Bytes) | help (n t : Bytes) | unit (n t : Bytes)
deriving Repr, DecidableEq, Inhabited

def expMeta (om : Bool) (fs : List Family) : List Meta :=
  fs.flatMap fun f =>
    if om then
      (match f.help with | some h => [Meta.help (omMetaName f) h] | none => []) ++
      [Meta.typ (omMetaName f) (omTypeWord f)] ++
      (match f.unit with | some u => [Meta.unit (omMetaName f) u] | none => [])
    else
      (match f.help with | some h => [Meta.help f.name h] | none => []) ++
      [Meta.typ f.name (match f.typ with
        | .counter => kw "counter" | .gauge => kw "gauge" | .summary => kw "summary" | .untyped => kw "unknown"
        | .histogram | .gaugehistogram => kw "histogram")]

/-! ### well-formedness: the families the statement quantifies over -/

def goodStr (s : Bytes) : Bool := utf8Valid s && !s.contains 0

def wfLabels (excl : List Bytes) (ls : List Lbl) : Bool :=
  ls.all (fun l => !l.1.isEmpty && goodStr l.1 && utf8Valid l.2 && !excl.contains l.1) &&
  decide (ls.map (·.1)).Nodup

def wfEx (e : Option Ex) : Bool :=
  match e with
  | none => true
  | some e => e.lbls.all (fun l => !l.1.isEmpty && legacyName l.1 && !l.1.contains 58 && goodStr l.2) && decide (e.lbls.map (·.1)).Nodup

def wfMetric (f : Family) (m : Metric) : Bool :=
  let excl := [kwName, kwTypeL, kwUnitL] ++ (if f.typ.kind == .h then [kwLe] else []) ++ (if f.typ.kind == .s then [kwQuantile] else [])
  wfLabels excl m.lbls && wfEx m.ex && m.buckets.all (fun b => wfEx b.ex) &&
  -- a +Inf bucket ends the bucket list (the protobuf parser stops at it)
  m.buckets.dropLast.all (fun b => b.ub != posInf)

def wfFamily (om : Bool) (f : Family) : Bool :=
  !f.name.isEmpty && goodStr f.name && !f.ms.isEmpty && !hasSuffix f.name kwCreated &&
  (match f.help with | some h => utf8Valid h | none => true) &&
  (!om || match f.unit with
    | none => true
    | some u => !u.any isEscapable && goodStr u &&
      (u.isEmpty || (hasSuffix (omMetaName f) ([95] ++ u))))
  && f.ms.all (wfMetric f)

def wfAll (om : Bool) (fs : List Family) : Bool :=
  !fs.isEmpty && fs.all (wfFamily om) && decide (fs.map (·.name)).Nodup

/-! ### judge: comparison -/

def keyLt (a b : XS) : Bool :=
  let ka := (lblsStr a.lbls, a.val, tsStr a.ts)
  let kb := (lblsStr b.lbls, b.val, tsStr b.ts)
  ka.1 < kb.1 || (ka.1 == kb.1 && (ka.2.1 < kb.2.1 || (ka.2.1 == kb.2.1 && ka.2.2 < kb.2.2)))

def insXS (x : XS) : List XS → List XS
  | [] => [x]
  | y :: ys => if keyLt x y then x :: y :: ys else y :: insXS x ys

def sortXS (xs : List XS) : List XS := xs.foldl (fun acc x => insXS x acc) []

def stripTU (x : XS) : XS := { x with lbls := dropEmpty (x.lbls.filter (fun l => l.1 != kwTypeL && l.1 != kwUnitL)) }

def isCreatedXS (x : XS) : Bool :=
  match x.lbls.find? (fun l => l.1 == kwName) with
  | some l => hasSuffix l.2 kwCreated
  | none => false

def escEx (e : Option PEx) : Option PEx := e.map fun e => { e with lbls := e.lbls.map fun l => (l.1, escQuoted l.2) }

def famInfo (fs : List Family) : String :=
  match fs.head? with
  | some f => "fam0=" ++ hexEncBytes f.name
  | none => "fam0=-"

/-- compare one implementation stream with the expectation; `none` = fine -/
def checkStream (fs : List Family) (parser src : String) (tu skip st : Bool) (out : String) : Option String :=
  let om := parser == "om" || parser == "proto"
  let omText := parser == "om"
  let (ents, fin) := pStream out
  let ctx := s!"parser={parser} tu={if tu then 1 else 0} skip={if skip then 1 else 0} st={if st then 1 else 0} src={src} {famInfo fs}"
  if ents.contains .bad then some s!"violation unparsable-output {ctx}" else
  if fin != "eof" then
    let negTs := fs.any (fun f => f.ms.any (fun m => match m.ts with | some t => t < 0 | none => false))
    let colon := fs.any (fun f => f.ms.any (fun m => m.lbls.any (fun l => legacyName l.1 && l.1.contains 58)))
    if parser == "text" && negTs then some s!"violation roundtrip kind=text-negative-timestamp {ctx}"
    else if colon && parser != "proto" then some s!"violation roundtrip kind=label-name-colon {ctx}"
    else some s!"violation roundtrip kind=parse-error {ctx}"
  else
  -- metadata
  let gotMeta : List Meta := ents.filterMap fun e =>
    match e with | .typ n t => some (.typ n t) | .help n t => some (.help n t) | .unit n t => some (.unit n t) | _ => none
  let wantMeta := expMeta omText fs
  let wantMeta := if parser == "proto" then
      fs.flatMap fun f =>
        [Meta.help f.name (f.help.getD [])] ++ (match f.unit with | some u => if u.isEmpty then [] else [Meta.unit f.name u] | none => []) ++
        [Meta.typ f.name (match f.typ with
          | .counter => kw "counter" | .gauge => kw "gauge" | .summary => kw "summary" | .untyped => kw "unknown"
          | .histogram => kw "histogram" | .gaugehistogram => kw "gaugehistogram")]
    else wantMeta
  if gotMeta != wantMeta then
    -- explained deviations (each a known finding, reported under its own signature)
    let wsOnly (h : Bytes) : Bool := !h.isEmpty && h.all isWs
    let escName (m : Meta) : Meta := match m with
      | .typ n t => .typ (escQuoted n) t | .help n t => .help (escQuoted n) t | .unit n t => .unit (escQuoted n) t
    let wsHelp (m : Meta) : Meta := match m with
      | .help n t => if wsOnly t then .help n [] else m
      | _ => m
    if parser != "proto" && gotMeta == wantMeta.map escName then some s!"violation roundtrip kind=meta-name-escaped {ctx}"
    else if parser == "text" && gotMeta == wantMeta.map wsHelp then some s!"violation roundtrip kind=text-help-whitespace-only {ctx}"
    else if parser == "text" && gotMeta == (wantMeta.map wsHelp).map escName then some s!"violation roundtrip kind=meta-name-escaped {ctx}"
    else some s!"violation roundtrip kind=metadata {ctx}"
  else
  let got0 : List XS := ents.filterMap fun e => match e with | .series x => some (stripTU x) | _ => none
  let got := if src == "om1" then got0.filter (fun x => !isCreatedXS x) else got0
  let withST := st && (src == "om1" || parser == "proto")
  let want := expSeries om withST (parser == "proto") fs
  let g := sortXS got
  let w := sortXS want
  let proj (f : XS → XS) (l : List XS) := l.map f
  if proj (fun x => { x with ex := none, st := 0 }) g != proj (fun x => { x with ex := none, st := 0 }) w then
    -- OpenMetrics carries milliseconds as float seconds and the parser truncates `ts * 1000`
    let viaFloat (x : XS) : XS := { x with ex := none, st := 0, ts := x.ts.map fun t => mul1000ToInt (divConst (intToF64 t) 1000) }
    if omText && sortXS (proj (fun x => { x with ex := none, st := 0 }) g) == sortXS (proj viaFloat w) then
      some s!"violation roundtrip kind=om-timestamp-precision {ctx}"
    else if sortXS (proj (fun x => { x with ex := none, st := 0, ts := none }) g) == sortXS (proj (fun x => { x with ex := none, st := 0, ts := none }) w) then
      some s!"violation roundtrip kind=timestamp {ctx}"
    else some s!"violation roundtrip kind=series n-got={g.length} n-want={w.length} {ctx}"
  else if proj (fun x => { x with st := 0 }) g != proj (fun x => { x with st := 0 }) w then
    if proj (fun x => { x with st := 0 }) g == proj (fun x => { x with st := 0, ex := escEx x.ex }) w then
      some s!"violation roundtrip kind=om-exemplar-escaped {ctx}"
    else
    let noTs (esc : Bool) (l : List XS) : List XS :=
      l.map fun x => { x with st := 0, ex := (if esc then escEx x.ex else x.ex).map fun e => { e with ts := none } }
    let tsClose : Bool := (g.zip w).all (fun p => match p.1.ex, p.2.ex with
      | some a, some b => (match a.ts, b.ts with
        | some x, some y => decide ((x - y).natAbs ≤ 1)
        | none, none => true
        | _, _ => false)
      | _, _ => true)
    if noTs false g == noTs false w && tsClose then
      some s!"violation roundtrip kind=exemplar-timestamp-precision {ctx}"
    else if noTs false g == noTs true w && tsClose then
      some s!"violation roundtrip kind=om-exemplar-escaped {ctx} also=exemplar-timestamp-precision"
    else some s!"violation roundtrip kind=exemplar {ctx}"
  else if st && g != w then
    let maxd := (g.zip w).foldl (fun acc p => max acc (p.1.st - p.2.st).natAbs) 0
    if maxd ≤ 1 then some s!"violation roundtrip kind=created-timestamp-precision {ctx}"
    else some s!"violation roundtrip kind=created-timestamp maxdiff={maxd} {ctx}"
  else none

def seriesCore (out : String) : Option (List XS) :=
  let (ents, fin) := pStream out
  if fin != "eof" then none else
  -- common projection of the formats: canonical NaN, unsigned zero, timestamp 0 = no timestamp (protobuf)
  some (sortXS ((ents.filterMap fun e => match e with | .series x => some (stripTU x) | _ => none).map
    (fun x => { x with ex := none, st := 0, val := normVal x.val, ts := if x.ts == some 0 then none else x.ts })))

structure JState where
  fs : List Family := []
  textCore : Option (List XS) := none
  omCore : Option (List XS) := none
  verdict : Option String := none

def judgeOp (s : JState) (op out : String) : JState :=
  if s.verdict.isSome then s else
  let t := toks op
  let s := { s with fs := addLine s.fs t }
  match t with
  | ["parse", parser, tu, skip, st, srcT, _] =>
    let src := (srcT.splitOn "=").getD 1 ""
    let tuB := tu == "tu=1"
    let skipB := skip == "skip=1"
    let stB := st == "st=1"
    let ctx := s!"parser={parser} tu={if tuB then 1 else 0} skip={if skipB then 1 else 0} st={if stB then 1 else 0} src={src}"
    let (_, fin) := pStream out
    if fin == "panic" then { s with verdict := some s!"violation totality kind=panic {ctx} op={(op.take 200)}" }
    else if fin == "hang" then { s with verdict := some s!"violation totality kind=hang {ctx} op={(op.take 200)}" }
    else if !(fin == "eof" || fin == "err") then { s with verdict := some s!"violation totality kind=bad-output {ctx} out={out.take 80}" }
    else if src == "text" || src == "om0" || src == "om1" then
      if !wfAll (parser == "om") s.fs then s else
      match checkStream s.fs parser src tuB skipB stB out with
      | some v => { s with verdict := some v }
      | none =>
        let core := seriesCore out
        let core := if src == "om1" then core.map (fun l => l.filter (fun x => !isCreatedXS x)) else core
        if parser == "text" then { s with textCore := core }
        else
          match s.textCore, core with
          | some a, some b =>
            if a != b then { s with verdict := some s!"violation formats-disagree text-vs-om {ctx} {famInfo s.fs}" } else { s with omCore := core }
          | _, _ => { s with omCore := core }
    else s
  | "pproto" :: tu :: _ =>
    let out := ((op.splitOn " :: ").getD 1 "")
    let (_, fin) := pStream out
    let ctx := s!"parser=proto {tu}"
    if fin == "panic" || fin == "hang" then { s with verdict := some s!"violation totality kind={fin} {ctx}" }
    else if !wfAll true s.fs then s else
    match checkStream s.fs "proto" "proto" (tu == "tu=1") false true out with
    | some v => { s with verdict := some v }
    | none =>
      match s.textCore, seriesCore out with
      | some a, some b => if a != b then { s with verdict := some s!"violation formats-disagree text-vs-proto {famInfo s.fs}" } else s
      | _, _ => s
  | _ => s

def judgeGo (ops outs : List String) : String :=
  let s := (ops.zip outs).foldl (fun s p => judgeOp s p.1 p.2) ({} : JState)
  s.verdict.getD "ok"

def suite : Suite := { name := "expo", model := modelGo [], judge := judgeGo }

end Prom.Expo
