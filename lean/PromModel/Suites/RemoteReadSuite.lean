import PromModel.Prelude.Line
import PromModel.Remote.ReadCodec
/-
  Suite `rr` (property C42): remote read through the real read handler and the real read client against a
  direct local query of the same tsdb.DB.  Ops and tokens: see `harness/suites/rr/main.go`.

    cfg <spc> <blockAt|-> <ext> <cext> <req> <fixed>                                  → ok
    ser <labels> <samples>                                                            → ok
    local <mint> <maxt> <matchers> := <L>                                             → ok
    read <s|c> <frame> <limit> <notrim> <sort> <mint> <maxt> <matchers> <script> := <S>
         → sel=<mint>/<maxt>/<sort>/<matchers>|none frames=<n.n.…>|- res=<series;…>|-  |  err=<class>

  MODEL: from the configuration and from S — what the storage answered to the handler's Select, observed at
  the storage interface — it computes the matchers the storage must have seen, the frame structure and the
  series/samples/iterator-script results the client hands out.
  JUDGE (independent of the model and of S): the remote result must equal the local result L of the last
  `local` op (same range and matchers) — labels (after the documented external-label handling), timestamps,
  value bits, histograms — without duplicate label sets, sorted when sorting was requested; and every
  iterator script must behave like a `Seek`/`Next` iterator over the series' own samples.
-/
namespace Prom.RemoteRead
open Prom.Merge (Sample Kind Labels)
open Prom.ReadCodec

/-! ### tokens -/

def parseLabels? (s : String) : Option Labels :=
  if s = "-" then some [] else
  (s.splitOn ",").mapM fun p =>
    match p.splitOn ":" with
    | [a, b] => do pure (← hexDec? a, ← hexDec? b)
    | _ => none

def showLabels (l : Labels) : String :=
  if l.isEmpty then "-" else ",".intercalate (l.map fun (n, v) => hexEnc n ++ ":" ++ hexEnc v)

def parseMatcher? (p : String) : Option Matcher :=
  let ty : Option MT := match (p.take 1).toString with
    | "e" => some .eq | "n" => some .ne | "r" => some .re | "x" => some .nre | _ => none
  match (p.drop 1).toString.splitOn ":" with
  | [a, b] => do pure ⟨← ty, ← hexDec? a, ← hexDec? b⟩
  | _ => none

def parseMatchers? (s : String) : Option (List Matcher) :=
  if s = "-" then some [] else (s.splitOn ",").mapM parseMatcher?

def showMatchers (ms : List Matcher) : String :=
  if ms.isEmpty then "-" else
  ",".intercalate (ms.map fun m =>
    (match m.ty with | .eq => "e" | .ne => "n" | .re => "r" | .nre => "x") ++ hexEnc m.name ++ ":" ++ hexEnc m.value)

def parseSample? (s : String) : Option Sample :=
  match s.splitOn ":" with
  | [a, "f", c] => do pure ⟨← a.toInt?, .float, ← natOfHex? c⟩
  | [a, "h", c] => do pure ⟨← a.toInt?, .hist, ← c.toNat?⟩
  | [a, "F", c] => do pure ⟨← a.toInt?, .fhist, ← c.toNat?⟩
  | _ => none

def showSample (s : Sample) : String :=
  match s.kind with
  | .float => s!"{s.t}:f:{hexOfNat s.payload 16}"
  | .hist => s!"{s.t}:h:{s.payload}"
  | .fhist => s!"{s.t}:F:{s.payload}"

def parseSamples? (s : String) : Option (List Sample) :=
  if s = "-" then some [] else (s.splitOn ",").mapM parseSample?

def showSamples (xs : List Sample) : String :=
  if xs.isEmpty then "-" else ",".intercalate (xs.map showSample)

def showOptSamples (xs : List (Option Sample)) : String :=
  if xs.isEmpty then "-" else ",".intercalate (xs.map fun | some s => showSample s | none => "x")

def parseOptSamples? (s : String) : Option (List (Option Sample)) :=
  if s = "-" then some [] else (s.splitOn ",").mapM fun p => if p = "x" then some none else (parseSample? p).map some

def parseSeries? (s : String) : Option Series :=
  match s.splitOn "|" with
  | [a, b] => do pure ⟨← parseLabels? a, ← parseSamples? b⟩
  | _ => none

def parseSeriesList? (s : String) : Option (List Series) :=
  if s = "-" then some [] else (s.splitOn ";").mapM parseSeries?

def parseChunk? (s : String) : Option RChunk :=
  match s.splitOn "/" with
  | [a, b, c, d, e] => do pure ⟨← a.toInt?, ← b.toInt?, ← c.toNat?, ← d.toNat?, ← parseSamples? e⟩
  | _ => none

def parseChunkSeries? (s : String) : Option ChunkSeries :=
  match s.splitOn "|" with
  | a :: cs => do pure ⟨← parseLabels? a, ← cs.mapM parseChunk?⟩
  | [] => none

def parseChunkSeriesList? (s : String) : Option (List ChunkSeries) :=
  if s = "-" then some [] else (s.splitOn ";").mapM parseChunkSeries?

inductive Step | next | seek (t : Int)
deriving Repr, DecidableEq

def parseScript? (s : String) : Option (List Step) :=
  if s = "-" then some [] else
  (s.splitOn ",").mapM fun p => if p = "n" then some .next else (p.drop 1).toInt?.map .seek

/-- one series of a result: labels, drained samples, script results -/
structure RSeries where
  labels : Labels
  samples : List Sample
  script : List (Option Sample)
deriving Repr, DecidableEq

def parseRSeries? (s : String) : Option RSeries :=
  match s.splitOn "|" with
  | [a, b, c] => do pure ⟨← parseLabels? a, ← parseSamples? b, ← parseOptSamples? c⟩
  | _ => none

def parseRSeriesList? (s : String) : Option (List RSeries) :=
  if s = "-" then some [] else (s.splitOn ";").mapM parseRSeries?

def showRSeriesList (xs : List RSeries) : String :=
  if xs.isEmpty then "-" else
  ";".intercalate (xs.map fun r => showLabels r.labels ++ "|" ++ showSamples r.samples ++ "|" ++ showOptSamples r.script)

/-! ### ops -/

structure Cfg where
  ext : Labels := []
  cext : Labels := []
  req : List Matcher := []
  fixed : Bool := false
deriving Repr

structure ReadOp where
  chunked : Bool
  frame : Int
  limit : Int
  sort : Bool
  mint : Int
  maxt : Int
  ms : List Matcher
  script : List Step
  obs : String
deriving Repr

inductive Op
  | cfg (c : Cfg)
  | ser
  | loc (mint maxt : Int) (ms : List Matcher) (l : Option (List Series))
  | read (r : ReadOp)
  | bad
deriving Repr

def parseOp (line : String) : Op :=
  match toks line with
  | ["cfg", _, _, ext, cext, req, fixed] =>
    match parseLabels? ext, parseLabels? cext, parseMatchers? req with
    | some e, some c, some r => .cfg { ext := e, cext := c, req := r, fixed := fixed = "1" }
    | _, _, _ => .bad
  | ["ser", _, _] => .ser
  | ["local", a, b, ms, ":=", l] =>
    match a.toInt?, b.toInt?, parseMatchers? ms with
    | some a, some b, some ms => .loc a b ms (parseSeriesList? l)
    | _, _, _ => .bad
  | ["read", ty, fr, li, _, so, a, b, ms, sc, ":=", obs] =>
    match fr.toInt?, li.toInt?, a.toInt?, b.toInt?, parseMatchers? ms, parseScript? sc with
    | some fr, some li, some a, some b, some ms, some sc =>
      .read { chunked := ty = "c", frame := fr, limit := li, sort := so = "1", mint := a, maxt := b, ms := ms, script := sc, obs := obs }
    | _, _, _, _, _, _ => .bad
  | _ => .bad

/-! ### model -/

def runScriptC (c : CIt) : List Step → List (Option Sample)
  | [] => []
  | .next :: r => let c' := c.next; c'.at :: runScriptC c' r
  | .seek t :: r => let c' := c.seek t; c'.at :: runScriptC c' r

def runScriptK (it : KIt) : List Step → List (Option Sample)
  | [] => []
  | .next :: r => let it' := it.next'; it'.val :: runScriptK it' r
  | .seek t :: r => let it' := it.seek t; it'.val :: runScriptK it' r

def showFrames (fs : List Frame) : String :=
  if fs.isEmpty then "-" else ".".intercalate (fs.map fun f => toString f.chunks.length)

def modelRead (cfg : Cfg) (r : ReadOp) : String :=
  if !(requiredLeft cfg.req r.ms).isEmpty then "sel=none frames=- res=-" else
  let (ms1, added) := addExternalLabels r.ms cfg.cext
  let ms2 := filterExt ms1 cfg.ext
  let sel := s!"sel={r.mint}/{r.maxt}/{if r.chunked then 1 else 0}/{showMatchers ms2}"
  if r.chunked then
    match parseChunkSeriesList? r.obs with
    | none => "err=model-input"
    | some cs =>
      let fs := stream cfg.ext r.frame cs
      let out := (clientFrames cfg.fixed fs).map fun f =>
        (⟨stripNames added f.labels, (decodeFrame r.mint r.maxt f).samples,
          runScriptK (KIt.fresh f.chunks r.mint r.maxt) r.script⟩ : RSeries)
      s!"{sel} frames={showFrames fs} res={showRSeriesList out}"
  else
    match parseSeriesList? r.obs with
    | none => "err=model-input"
    | some ss =>
      match toQueryResult ss r.limit with
      | .error _ => "err=limit"
      | .ok ps =>
        let ps := wire (ps.map fun p => { p with labels := mergeLabels p.labels cfg.ext })
        if !ps.all (fun p => validLabels p.labels) then "err=invalid-labels" else
        let ps := if r.sort then sortBy (·.labels) ps else ps
        let out := ps.map fun p =>
          (⟨stripNames added p.labels, interleave p.floats p.hists, runScriptC (CIt.fresh p) r.script⟩ : RSeries)
        s!"{sel} frames=- res={showRSeriesList out}"

def modelStep (cfg : Cfg) : Op → Cfg × String
  | .cfg c => (c, "ok")
  | .ser => (cfg, "ok")
  | .loc _ _ _ _ => (cfg, "ok")
  | .read r => (cfg, modelRead cfg r)
  | .bad => (cfg, "bad-op")

def runModel (cfg : Cfg) : List Op → List String
  | [] => []
  | op :: rest => (modelStep cfg op).2 :: runModel (modelStep cfg op).1 rest

def model (ops : List String) : List String := runModel {} (ops.map parseOp)

/-! ### judge: the property statement on the implementation's outputs -/

/-- counter-reset hints are compatible when equal or when one side says "unknown" -/
def hintOk (a b : Nat) : Bool := a % 4 = b % 4 || a % 4 = 0 || b % 4 = 0

/-- same sample; `nz` additionally accepts `+0.0` on the remote side for a local `-0.0` -/
def sameSample (nz : Bool) (remote loc : Sample) : Bool :=
  remote.t = loc.t && remote.kind = loc.kind &&
  match loc.kind with
  | .float => remote.payload = loc.payload || (nz && loc.payload = negZeroBits && remote.payload = 0)
  | _ => remote.payload / 4 = loc.payload / 4 && hintOk remote.payload loc.payload

def sameSamples (nz : Bool) : List Sample → List Sample → Bool
  | [], [] => true
  | a :: as, b :: bs => sameSample nz a b && sameSamples nz as bs
  | _, _ => false

def sameSeriesList (nz : Bool) : List Series → List Series → Bool
  | [], [] => true
  | a :: as, b :: bs => a.labels = b.labels && sameSamples nz a.samples b.samples && sameSeriesList nz as bs
  | _, _ => false

/-- neighbours with equal labels concatenated -/
def mergeNeighbours : List Series → List Series
  | [] => []
  | s :: rest =>
    match mergeNeighbours rest with
    | [] => [s]
    | g :: gs => if s.labels = g.labels then ⟨s.labels, s.samples ++ g.samples⟩ :: gs else s :: g :: gs

def names (ls : Labels) : List String := ls.map (·.1)

/-- the reference iterator: `Seek(t)` = stay if the current sample is at or after t, else the first later
    sample with timestamp ≥ t; `Next` = the following sample; exhausted stays exhausted. -/
def specScript (it : Prom.Merge.It) : List Step → List (Option Sample)
  | [] => []
  | .next :: r => let (it', s) := it.next; s :: specScript it' r
  | .seek t :: r => let (it', s) := it.seek t; s :: specScript it' r

/-- first script step whose result differs from the reference: (step index, step, expected) -/
def scriptDiff : Nat → List Step → List (Option Sample) → List (Option Sample) → Option (Nat × Step × Option Sample)
  | k, st :: sts, a :: as, b :: bs => if a = b then scriptDiff (k + 1) sts as bs else some (k, st, b)
  | _, _, _, _ => none

def isFloat (s : Sample) : Bool := s.kind = .float

/-- `e` is the first sample of its class (float / histogram) in the series -/
def firstOfClass (xs : List Sample) (e : Sample) : Bool :=
  xs.find? (fun s => isFloat s = isFloat e) = some e

def checkScripts (sampled : Bool) (script : List Step) : Nat → List RSeries → Option String
  | _, [] => none
  | i, r :: rest =>
    if r.script.length ≠ script.length then some s!"violation iterator-seek kind=script-length series={i}"
    else
    let want := specScript (Prom.Merge.It.ofList 0 r.samples) script
    match scriptDiff 0 script r.script want with
    | none => checkScripts sampled script (i + 1) rest
    | some (k, st, exp) =>
      match st with
      | .seek t => some s!"violation iterator-seek kind=seek series={i} step={k} t={t}"
      | .next =>
        let seekBefore := (script.take k).any fun | .seek _ => true | .next => false
        match exp with
        | some e =>
          if sampled && seekBefore && firstOfClass r.samples e then
            some s!"violation iterator-seek kind=first-of-kind-skipped-after-noop-seek series={i} step={k} skipped-t={e.t}"
          else some s!"violation iterator-seek kind=next series={i} step={k}"
        | none => some s!"violation iterator-seek kind=next series={i} step={k}"

def strictlySorted : List Series → Bool
  | a :: b :: rest => Labels.compare a.labels b.labels = .lt && strictlySorted (b :: rest)
  | _ => true

def judgeRead (cfg : Cfg) (loc : Option (Int × Int × List Matcher × Option (List Series))) (k : Nat) (r : ReadOp) (out : String) : Option String :=
  let ty := if r.chunked then "c" else "s"
  match loc with
  | none => none
  | some (lmint, lmaxt, lms, l) =>
  if lmint ≠ r.mint ∨ lmaxt ≠ r.maxt ∨ lms ≠ r.ms then none else
  match l with
  | none => none   -- the local query itself failed: outside the statement
  | some l =>
  let extNames := names cfg.ext ++ names cfg.cext
  let special := !(cfg.cext.all fun c => cfg.ext.contains c) || r.ms.any (fun m => extNames.contains m.name) ||
    l.any (fun s => s.labels.any fun lb => extNames.contains lb.1)
  let reqUnmet := !(requiredLeft cfg.req r.ms).isEmpty
  match toks out with
  | [e] =>
    if e = "err=limit" then
      if r.limit > 0 ∧ (special ∨ ((l.map (·.samples.length)).sum : Int) > r.limit) then none
      else some s!"violation limit-error-unjustified op={k} limit={r.limit}"
    else some s!"violation remote-error op={k} type={ty} {e}"
  | [_, frames, res] =>
    match parseRSeriesList? (res.drop 4).toString with
    | none => some s!"violation unparsable op={k}"
    | some rs =>
    if reqUnmet then (if rs.isEmpty then none else some s!"violation required-matchers-ignored op={k}") else
    match checkScripts (!r.chunked) r.script 0 rs with
    | some v => some (v ++ s!" op={k} type={ty}")
    | none =>
    if special then none else
    let added := names cfg.cext
    let expected := (l.map fun s => (⟨stripNames added (mergeLabels s.labels cfg.ext), s.samples⟩ : Series)).filter (!·.samples.isEmpty)
    let expected := sortSeries expected
    let got := (rs.map fun x => (⟨x.labels, x.samples⟩ : Series)).filter (!·.samples.isEmpty)
    let gotM := mergeNeighbours got
    let nfr := (frames.splitOn ".").length
    let extTag := if cfg.ext.isEmpty then "ext=0" else "ext=1"
    if r.sort then
      if sameSeriesList true got expected then
        if sameSeriesList false got expected then none
        else some s!"violation remote-ne-local kind=negative-zero-lost type={ty} op={k}"
      else if r.chunked && sameSeriesList false gotM expected then
        some s!"violation remote-ne-local kind=series-split-across-frames frames={nfr} limit={r.frame} series-out={got.length} series-local={expected.length} op={k}"
      else if sameSeriesList true (sortSeries gotM) expected && strictlySorted (sortSeries gotM) then
        some s!"violation not-sorted kind=label-order type={ty} {extTag} split={decide (gotM.length ≠ got.length)} op={k}"
      else some s!"violation remote-ne-local kind=other type={ty} {extTag} series-out={got.length} series-local={expected.length} op={k}"
    else
      let gotS := sortSeries got
      if sameSeriesList true gotS expected then
        if sameSeriesList false gotS expected then none
        else some s!"violation remote-ne-local kind=negative-zero-lost type={ty} op={k}"
      else if r.chunked && sameSeriesList false (mergeNeighbours gotS) expected then
        some s!"violation remote-ne-local kind=series-split-across-frames frames={nfr} limit={r.frame} series-out={got.length} series-local={expected.length} op={k}"
      else some s!"violation remote-ne-local kind=other type={ty} {extTag} series-out={got.length} series-local={expected.length} op={k}"
  | _ => some s!"violation unparsable op={k}"

/-- all violations of a case, in op order -/
def verdicts (cfg : Cfg) (loc : Option (Int × Int × List Matcher × Option (List Series))) (k : Nat) :
    List Op → List String → List String
  | op :: ops, out :: outs =>
    match op with
    | .cfg c => verdicts c loc (k + 1) ops outs
    | .ser => verdicts cfg loc (k + 1) ops outs
    | .loc a b ms l => verdicts cfg (some (a, b, ms, l)) (k + 1) ops outs
    | .read r =>
      match judgeRead cfg loc k r out with
      | some v => v :: verdicts cfg loc (k + 1) ops outs
      | none => verdicts cfg loc (k + 1) ops outs
    | .bad => verdicts cfg loc (k + 1) ops outs
  | _, _ => []

/-- violations with an explanation the judge can name (the classified deviations) come after any
    unclassified one, so that a classified deviation early in a case never hides another violation -/
def classified (v : String) : Bool :=
  v.startsWith "violation remote-ne-local kind=negative-zero-lost " ||
  v.startsWith "violation remote-ne-local kind=series-split-across-frames " ||
  v.startsWith "violation iterator-seek kind=first-of-kind-skipped-after-noop-seek " ||
  v.startsWith "violation not-sorted kind=label-order type=s ext=1 " ||
  v.startsWith "violation not-sorted kind=label-order type=c ext=1 "

def judge (ops outs : List String) : String :=
  let vs := verdicts {} none 0 (ops.map parseOp) outs
  match vs.find? (!classified ·) with
  | some v => v
  | none => match vs with
    | v :: _ => v
    | [] => "ok"

def suite : Suite := { name := "rr", model := model, judge := judge }

end Prom.RemoteRead
