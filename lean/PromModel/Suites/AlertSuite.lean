import PromModel.Rules.Alerting
import PromModel.Rules.AlertingRef
/-
  Suite `alert` (property C44). See harness/suites/alert/main.go for the op/output grammar.

  model : `Prom.Alerting` (transcription of rules/alerting.go + RestoreForState/CopyState).
  judge : the documented trace semantics `Prom.Alerting.Ref` folded over the timeline of each label
          set, compared with the states/activation/firing/resolution times the implementation reports,
          plus the documented shape of the ALERTS / ALERTS_FOR_STATE series, the error classes
          (duplicate label set, limit), the notification selection and the restore arithmetic.
-/
namespace Prom.Alerting.Suite
open Prom Prom.Alerting

/-! ### codec -/

def parseLabels (s : String) : Labels :=
  if s = "-" then [] else
  (s.splitOn ",").map fun p =>
    match p.splitOn "=" with
    | [k, v] => (k, v)
    | k :: rest => (k, "=".intercalate rest)
    | [] => ("", "")

def showLabels (ls : Labels) : String :=
  if ls.isEmpty then "-" else ",".intercalate (ls.map fun (k, v) => k ++ "=" ++ v)

def showTime : Option Int → String
  | none => "z"
  | some t => toString t

def parseTime (s : String) : Option Int := if s = "z" then none else s.toInt?

def insertSorted (x : String) : List String → List String
  | [] => [x]
  | y :: ys => if x < y || x == y then x :: y :: ys else y :: insertSorted x ys

def sortStrings (xs : List String) : List String := xs.foldr insertSorted []

def joinSorted (xs : List String) : String :=
  if xs.isEmpty then "-" else ";".intercalate (sortStrings xs)

def showAlert (a : Alert) : String :=
  "/".intercalate [showLabels a.labels, a.state.str, hexOfNat a.value 16, toString a.activeAt,
    showTime a.firedAt, showTime a.resolvedAt, showTime a.keepFiringSince, showTime a.lastSentAt, showTime a.validUntil]

def showAlerts (s : RuleSt) : String := joinSorted (s.alerts.map showAlert)

def showOut (o : OutSample) : String := s!"{showLabels o.labels}@{o.t}@i{o.v}"

def parseVec (s : String) : Option (List Sample) :=
  if s = "-" then some [] else
  (s.splitOn ";").mapM fun e =>
    match e.splitOn "@" with
    | [l, b] => do pure (parseLabels l, ← natOfHex? b)
    | _ => none

def parseSeries (s : String) : Option (List ForSeries) :=
  if s = "-" then some [] else
  (s.splitOn ";").mapM fun e =>
    match e.splitOn "@" with
    | [l, t, v, st] => do pure { labels := norm (parseLabels l), t := ← t.toInt?, v := ← v.toInt?, stale := st = "s" }
    | _ => none

/-! ### model -/

def stepModel (st : Option RuleSt) (line : String) : Option RuleSt × String :=
  match line.splitOn " ", st with
  | ["rule", hold, kff, restored, rl], _ =>
    match hold.toInt?, kff.toInt? with
    | some hold, some kff =>
      (some (RuleSt.init { name := "A", hold := hold, kff := kff, rlabels := parseLabels rl } (restored = "1")), "ok")
    | _, _ => (st, "bad-op")
  | ["eval", ts, qoff, limit, q, vec], some s =>
    match ts.toInt?, qoff.toInt?, limit.toInt?, parseVec vec with
    | some ts, some qoff, some limit, some vec =>
      let (s', r) := eval s ts qoff limit (if q = "qerr" then none else some vec)
      let (e, v) := match r with
        | .ok v => ("none", joinSorted (v.map showOut))
        | .error .query => ("query", "-")
        | .error .dup => ("dup", "-")
        | .error (.limit n) => (s!"limit:{n}", "-")
      (some s', s!"{e} {v} {showAlerts s'}")
    | _, _, _, _ => (st, "bad-op")
  | ["send", ts, resend, interval], some s =>
    match ts.toInt?, resend.toInt?, interval.toInt? with
    | some ts, some resend, some interval =>
      let (s', sent) := sendAlerts s ts resend interval
      (some s', s!"{joinSorted (sent.map showAlert)} {showAlerts s'}")
    | _, _, _ => (st, "bad-op")
  | ["restore", ts, tol, grace, series], some s =>
    match ts.toInt?, tol.toInt?, grace.toInt?, parseSeries series with
    | some ts, some tol, some grace, some series =>
      let s' := restoreForState s ts tol grace series
      (some s', s!"{if s'.restored then "1" else "0"} {showAlerts s'}")
    | _, _, _, _ => (st, "bad-op")
  | ["reload", hold, kff, restored], some s =>
    match hold.toInt?, kff.toInt? with
    | some hold, some kff =>
      let s' := reload s hold kff (restored = "1")
      (some s', showAlerts s')
    | _, _ => (st, "bad-op")
  | _, _ => (st, "bad-op")

def model (ops : List String) : List String :=
  let rec go (st : Option RuleSt) : List String → List String
    | [] => []
    | l :: rest => let (st', o) := stepModel st l; o :: go st' rest
  go none ops

/-! ### judge (statement-as-oracle; independent of `Prom.Alerting`) -/

/-- What the implementation reports about one alert. -/
structure Seen where
  labels : String
  state : String
  activeAt : Int
  firedAt : Option Int
  resolvedAt : Option Int
  keepSince : Option Int
  lastSentAt : Option Int
  validUntil : Option Int
deriving Repr

def parseSeen (s : String) : Option (List Seen) :=
  if s = "-" then some [] else
  (s.splitOn ";").mapM fun e =>
    match e.splitOn "/" with
    | [l, st, _, a, f, r, k, ls, vu] => do
      pure { labels := l, state := st, activeAt := ← a.toInt?, firedAt := parseTime f, resolvedAt := parseTime r,
             keepSince := parseTime k, lastSentAt := parseTime ls, validUntil := parseTime vu }
    | _ => none

def insertPair (x : String × String) : Labels → Labels
  | [] => [x]
  | y :: ys => if x.1 < y.1 || x.1 == y.1 then x :: y :: ys else y :: insertPair x ys

def sortPairs (xs : Labels) : Labels := xs.foldr insertPair []

/-- Documented alert label set of a result element: its labels without the metric name, overridden by
    the rule's labels (an empty value removes the label), plus `alertname`. Written independently of the
    model (`filter`/append/sort instead of builder operations). -/
def docAlertLabels (ruleLabels metric : Labels) : String :=
  let ruleNames := ruleLabels.map (·.1)
  let kept := metric.filter fun (k, v) => k ≠ "__name__" ∧ k ≠ "alertname" ∧ v ≠ "" ∧ !ruleNames.contains k
  let extra := ruleLabels.filter fun (k, v) => k ≠ "alertname" ∧ v ≠ ""
  showLabels (sortPairs (kept ++ extra ++ [("alertname", "A")]))

/-- `true` iff some string occurs twice. -/
def hasDupS : List String → Bool
  | [] => false
  | x :: xs => xs.contains x || hasDupS xs

structure JSt where
  hold : Int
  kff : Int
  ruleLabels : Labels
  restored : Bool
  tracked : List (String × Ref.St)     -- label set ↦ documented state (idle entries are dropped)
  prev : List Seen                     -- implementation's alerts after the previous op

def refSummary : Ref.St → String
  | .idle => "idle"
  | .pending a => s!"pending/{a}/z/z"
  | .firing a f _ => s!"firing/{a}/{f}/z"
  | .resolved a f r => s!"inactive/{a}/{f}/{r}"

def seenSummary (x : Seen) : String :=
  s!"{x.state}/{x.activeAt}/{showTime x.firedAt}/{showTime x.resolvedAt}"

/-- Compare the implementation's alert list with the tracked documented states. -/
def compareStates (k : Nat) (tracked : List (String × Ref.St)) (seen : List Seen) : Option String :=
  match tracked.find? (fun (l, st) =>
      match seen.find? (·.labels = l) with
      | none => true
      | some x => seenSummary x != refSummary st) with
  | some (l, st) =>
    let got := match seen.find? (·.labels = l) with | none => "absent" | some x => seenSummary x
    some s!"violation state-mismatch op={k} labels={l} expected={refSummary st} got={got}"
  | none =>
    match seen.find? (fun x => (tracked.lookup x.labels).isNone) with
    | some x => some s!"violation unexpected-alert op={k} labels={x.labels} got={seenSummary x}"
    | none => if seen.length ≠ tracked.length then some s!"violation alert-count op={k}" else none

/-- Documented series for the tracked states: `ALERTS{alertstate=…}` = 1 and `ALERTS_FOR_STATE` = activeAt (s). -/
def docSeries (tracked : List (String × Ref.St)) (tms : Int) : List String :=
  tracked.flatMap fun (l, st) =>
    let mk := fun (state : String) (a : Int) =>
      let base := (parseLabels l).filter fun (n, _) => n ≠ "__name__" ∧ n ≠ "alertstate"
      let ser := fun (extra : Labels) => showLabels (sortPairs (base ++ extra))
      [s!"{ser [("__name__", "ALERTS"), ("alertstate", state)]}@{tms}@i1",
       s!"{ser [("__name__", "ALERTS_FOR_STATE")]}@{tms}@i{a / 1000000000}"]
    match st with
    | .pending a => mk "pending" a
    | .firing a _ _ => mk "firing" a
    | _ => []

def judgeEval (k : Nat) (j : JSt) (ts qoff limit : Int) (qerr : Bool) (vec : List Sample)
    (err vecOut : String) (seen : List Seen) : JSt × Option String :=
  if qerr then
    (j, if err ≠ "query" then some s!"violation error-class op={k} expected=query got={err}" else
        compareStates k j.tracked seen)
  else
    let ls := vec.map fun s => docAlertLabels j.ruleLabels s.1
    let dup := hasDupS ls
    if dup then
      (j, if err ≠ "dup" then some s!"violation error-class op={k} expected=dup got={err}" else
          compareStates k j.tracked seen)
    else
      let keys := j.tracked.map (·.1) ++ ls.filter (fun l => (j.tracked.lookup l).isNone)
      let stepped := keys.map fun l =>
        (l, Ref.step j.hold j.kff ts (ls.contains l) ((j.tracked.lookup l).getD .idle))
      let tracked := stepped.filter fun (_, st) => st != .idle
      let n := (tracked.filter fun (_, st) => st.active).length
      if limit > 0 ∧ (n : Int) > limit then
        ({ j with tracked := [] },
          if err ≠ s!"limit:{n}" then some s!"violation error-class op={k} expected=limit:{n} got={err}" else
          if !seen.isEmpty then some s!"violation limit-not-cleared op={k}" else none)
      else
        let j' := { j with tracked := tracked }
        if err ≠ "none" then (j', some s!"violation error-class op={k} expected=none got={err}") else
        match compareStates k tracked seen with
        | some v => (j', some v)
        | none =>
          let want := if j.restored then joinSorted (docSeries tracked ((ts - qoff) / 1000000)) else "-"
          (j', if want ≠ vecOut then some s!"violation series op={k} expected={want} got={vecOut}" else none)

/-- Documented notification selection, evaluated on the implementation's own previous bookkeeping. -/
def shouldSend (x : Seen) (ts resend : Int) : Bool :=
  x.state != "pending" &&
    (match x.lastSentAt with
     | none => true
     | some l => (match x.resolvedAt with | some r => decide (r > l) | none => false) || decide (l + resend < ts))

def judgeSend (k : Nat) (j : JSt) (ts resend interval : Int) (sent : List Seen) : Option String :=
  match j.prev.find? (fun x => shouldSend x ts resend != (sent.any (·.labels = x.labels))) with
  | some x => some s!"violation send-selection op={k} labels={x.labels} state={x.state} expectedSent={shouldSend x ts resend}"
  | none =>
    match sent.find? (fun x => x.lastSentAt != some ts || x.validUntil != some (ts + 4 * max interval resend)) with
    | some x => some s!"violation send-bookkeeping op={k} labels={x.labels}"
    | none => if sent.length ≠ (j.prev.filter (shouldSend · ts resend)).length then some s!"violation send-count op={k}" else none

def judgeRestore (j : JSt) (ts tol grace : Int) (series : List ForSeries) : JSt :=
  if j.hold < grace then { j with restored := true } else
  let maxt := Int.tdiv ts 1000000
  let mint := Int.tdiv (ts - tol) 1000000
  let usable := series.filter fun s =>
    mint ≤ s.t ∧ s.t ≤ maxt ∧ lget "__name__" s.labels = "ALERTS_FOR_STATE" ∧ lget "alertname" s.labels = "A"
  let upd := fun (l : String) (a : Int) =>
    match usable.find? (fun s => showLabels (s.labels.filter (·.1 ≠ "__name__")) = l) with
    | some s => if s.stale then a else Ref.restoreSpec j.hold grace ts (Int.tdiv s.t 1000 * 1000000000) (s.v * 1000000000)
    | none => a
  { j with restored := true, tracked := j.tracked.map fun (l, st) =>
      (l, match st with
          | .pending a => .pending (upd l a)
          | .firing a f k => .firing (upd l a) f k
          | .resolved a f r => .resolved (upd l a) f r
          | .idle => .idle) }

def judge (ops outs : List String) : String :=
  let rec go (j : Option JSt) (ops outs : List String) (k : Nat) : String :=
    match ops, outs with
    | op :: ops, out :: outs =>
      if out.startsWith "panic" then s!"violation panic op={k}" else
      match op.splitOn " ", j with
      | ["rule", hold, kff, restored, rl], _ =>
        match hold.toInt?, kff.toInt? with
        | some hold, some kff =>
          go (some { hold := hold, kff := kff, ruleLabels := parseLabels rl, restored := restored = "1", tracked := [], prev := [] }) ops outs (k + 1)
        | _, _ => "ok"
      | ["eval", ts, qoff, limit, q, vec], some j =>
        match ts.toInt?, qoff.toInt?, limit.toInt?, parseVec vec, out.splitOn " " with
        | some ts, some qoff, some limit, some vec, [err, vecOut, alerts] =>
          match parseSeen alerts with
          | none => s!"violation unparsable op={k}"
          | some seen =>
            match judgeEval k j ts qoff limit (q = "qerr") vec err vecOut seen with
            | (_, some v) => v
            | (j', none) => go (some { j' with prev := seen }) ops outs (k + 1)
        | some _, some _, some _, some _, _ => s!"violation unparsable op={k}"
        | _, _, _, _, _ => "ok"
      | ["send", ts, resend, interval], some j =>
        match ts.toInt?, resend.toInt?, interval.toInt?, out.splitOn " " with
        | some ts, some resend, some interval, [sent, alerts] =>
          match parseSeen sent, parseSeen alerts with
          | some sent, some seen =>
            match judgeSend k j ts resend interval sent with
            | some v => v
            | none =>
              match compareStates k j.tracked seen with
              | some v => v
              | none => go (some { j with prev := seen }) ops outs (k + 1)
          | _, _ => s!"violation unparsable op={k}"
        | some _, some _, some _, _ => s!"violation unparsable op={k}"
        | _, _, _, _ => "ok"
      | ["restore", ts, tol, grace, series], some j =>
        match ts.toInt?, tol.toInt?, grace.toInt?, parseSeries series, out.splitOn " " with
        | some ts, some tol, some grace, some series, [restored, alerts] =>
          match parseSeen alerts with
          | none => s!"violation unparsable op={k}"
          | some seen =>
            let j' := judgeRestore j ts tol grace series
            if restored ≠ "1" then s!"violation restore-flag op={k}" else
            match compareStates k j'.tracked seen with
            | some v => v.replace "state-mismatch" "restore-shift"
            | none => go (some { j' with prev := seen }) ops outs (k + 1)
        | some _, some _, some _, some _, _ => s!"violation unparsable op={k}"
        | _, _, _, _, _ => "ok"
      | ["reload", hold, kff, restored], some j =>
        match hold.toInt?, kff.toInt?, parseSeen out with
        | some hold, some kff, some seen =>
          match compareStates k j.tracked seen with
          | some v => v
          | none => go (some { j with hold := hold, kff := kff, restored := restored = "1", prev := seen }) ops outs (k + 1)
        | some _, some _, none => s!"violation unparsable op={k}"
        | _, _, _ => "ok"
      | _, _ => "ok"
    | _, _ => "ok"
  go none ops outs 0

def suite : Suite := { name := "alert", model := model, judge := judge }

end Prom.Alerting.Suite
