import PromModel.Prelude.Line
import PromModel.Tsdb.Retention
import PromModel.Tsdb.RetentionSpec
/-
  Suite `retention` (property C09).

  Blocks are written `mint:maxt:size:flag:parents` (parents `-` or `i+j+…`), a layout is a comma separated
  list of blocks (`-` = none); the id of a block is its position.  Settings are
  `<RetentionDuration> <MaxBytes> <MaxPercentage as 16 hex digits> <fs size>`.

  ops / outputs
    fast R MB PCT FS W:B:C LAYOUT      one call of deletableBlocks on synthetic blocks, head files of W+B+C bytes
        → `time=<ids> size=<ids> all=<ids> head=<W+B+C>`      (BeyondTimeRetention, BeyondSizeRetention, deletableBlocks)
    open R MB PCT FS H LAYOUT          real blocks on disk, tsdb.Open with these options, head files of H bytes
    reload R MB PCT FS H               change the settings, reloadBlocks
    reopen R MB PCT FS H               close, tsdb.Open with these options
        → `deleted=<ids not on disk> loaded=<ids in DB.Blocks()> head=<H>:<series>:<samples>`
    append K T                         K new head series with one sample at T → `ok`
  id lists are ascending, `-` when empty.
-/
namespace Prom.Retention

def showIds (xs : List Nat) : String :=
  if xs.isEmpty then "-" else ",".intercalate (xs.map toString)

/-- ascending, without repetitions, restricted to ids below `n` -/
def canonIds (n : Nat) (xs : List Nat) : List Nat := (List.range n).filter xs.contains

def parseIds? (s : String) : Option (List Nat) :=
  if s = "-" then some [] else (s.splitOn ",").mapM (·.toNat?)

def parseBlk? (id : Nat) (s : String) : Option Blk :=
  match s.splitOn ":" with
  | [a, b, c, f, p] => do
    let mint ← a.toInt?
    let maxt ← b.toInt?
    let size ← c.toInt?
    let ps ← if p = "-" then some [] else (p.splitOn "+").mapM (·.toNat?)
    pure { id := id, mint := mint, maxt := maxt, size := size, deletable := f == "1", parents := ps }
  | _ => none

def parseLayout? (s : String) : Option (List Blk) :=
  if s = "-" then some [] else
  let parts := s.splitOn ","
  (parts.zipIdx).mapM fun (p, i) => parseBlk? i p

def parseSettings? (r mb pct fs : String) (head : Int) : Option Settings := do
  let r ← r.toInt?
  let mb ← mb.toInt?
  let bits ← natOfHex? pct
  let fs ← fs.toNat?
  pure { retention := r, maxBytes := mb, pct := Pct.ofBits bits, fsSize := fs, headSize := head }

def parseHead3? (s : String) : Option Int :=
  match s.splitOn ":" with
  | [a, b, c] => do pure ((← a.toInt?) + (← b.toInt?) + (← c.toInt?))
  | _ => none

/-! ### model -/

structure HeadSt where
  series : Nat
  samples : Nat

structure E2E where
  n : Nat
  db : Db HeadSt

def fastModel (s : Settings) (bs : List Blk) : String :=
  let sorted := sortDesc bs
  let n := bs.length
  let t := canonIds n ((beyondTime s.retention sorted).map (·.id))
  let z := canonIds n ((beyondSize s sorted).map (·.id))
  let a := canonIds n (deletableBlocks s bs)
  s!"time={showIds t} size={showIds z} all={showIds a} head={s.headSize}"

def e2eObserve (st : E2E) (h : Int) : String :=
  let present := st.db.blocks.map (·.id)
  let deleted := (List.range st.n).filter fun i => !present.contains i
  s!"deleted={showIds deleted} loaded={showIds (canonIds st.n present)} head={h}:{st.db.head.series}:{st.db.head.samples}"

def stepModel (st : Option E2E) (line : String) : Option E2E × String :=
  match toks line with
  | ["fast", r, mb, pct, fs, hd, lay] =>
    match parseHead3? hd with
    | none => (st, "bad-op")
    | some h =>
      match parseSettings? r mb pct fs h, parseLayout? lay with
      | some s, some bs => (st, fastModel s bs)
      | _, _ => (st, "bad-op")
  | ["open", r, mb, pct, fs, hd, lay] =>
    match st, hd.toInt? with
    | none, some h =>
      match parseSettings? r mb pct fs h, parseLayout? lay with
      | some s, some bs =>
        let (db, _) := reload s { blocks := bs, head := ({ series := 0, samples := 0 } : HeadSt) }
        let st' : E2E := { n := bs.length, db := db }
        (some st', e2eObserve st' h)
      | _, _ => (st, "bad-op")
    | _, _ => (st, "bad-op")
  | [kind, r, mb, pct, fs, hd] =>
    if kind = "reload" ∨ kind = "reopen" then
      match st, hd.toInt? with
      | some e, some h =>
        match parseSettings? r mb pct fs h with
        | some s =>
          let (db, _) := reload s e.db
          let st' : E2E := { e with db := db }
          (some st', e2eObserve st' h)
        | none => (st, "bad-op")
      | _, _ => (st, "bad-op")
    else (st, "bad-op")
  | ["append", k, _t] =>
    match st, k.toNat? with
    | some e, some k =>
      (some { e with db := { e.db with head := { series := e.db.head.series + k, samples := e.db.head.samples + k } } }, "ok")
    | _, _ => (st, "bad-op")
  | _ => (st, "bad-op")

def model (ops : List String) : List String :=
  let rec go (st : Option E2E) : List String → List String
    | [] => []
    | l :: rest => let (st', o) := stepModel st l; o :: go st' rest
  go none ops

/-! ### judge -/

def field? (key : String) (tok : String) : Option String :=
  if tok.startsWith (key ++ "=") then some ((tok.drop (key.length + 1)).toString) else none

def parseFastOut? (out : String) : Option (List Nat × List Nat × List Nat × Int) :=
  match toks out with
  | [t, z, a, h] => do
    let t ← parseIds? (← field? "time" t)
    let z ← parseIds? (← field? "size" z)
    let a ← parseIds? (← field? "all" a)
    let h ← (← field? "head" h).toInt?
    pure (t, z, a, h)
  | _ => none

def parseE2EOut? (out : String) : Option (List Nat × List Nat × Int × Nat × Nat) :=
  match toks out with
  | [d, l, h] => do
    let d ← parseIds? (← field? "deleted" d)
    let l ← parseIds? (← field? "loaded" l)
    match (← field? "head" h).splitOn ":" with
    | [a, b, c] => pure (d, l, ← a.toInt?, ← b.toNat?, ← c.toNat?)
    | _ => none
  | _ => none

structure JSt where
  layout : List Blk := []
  /-- ids the implementation has removed so far -/
  gone : List Nat := []
  series : Nat := 0
  samples : Nat := 0
  opened : Bool := false

/--
  Statement-as-oracle for C09, evaluated on the implementation's outputs only:
  * function level (`fast`): `holdsFast` — time retention deletes exactly the expired blocks, size retention
    keeps a longest newest-first run within the limit (head files included), deletableBlocks is the union with
    the flagged blocks, nothing newer than a kept block is deleted, nothing is deleted when both limits are off;
  * reload level (`open`/`reload`/`reopen`): `holdsReload` on the block directories that disappeared in this
    step, plus: deleted directories never come back, DB.Blocks() is exactly what is left on disk (only whole
    blocks), the head files' size is what was set up and the head's series/samples are untouched.
-/
def judge (ops outs : List String) : String :=
  let rec go (st : JSt) (ops outs : List String) (k : Nat) : String :=
    match ops, outs with
    | op :: ops, out :: outs =>
      if out = "panic" then s!"violation panic op={k}" else
      match toks op with
      | ["fast", r, mb, pct, fs, hd, lay] =>
        match parseHead3? hd with
        | none => "ok"
        | some h =>
          match parseSettings? r mb pct fs h, parseLayout? lay with
          | some s, some bs =>
            match parseFastOut? out with
            | none => s!"violation unparsable op={k} out={out}"
            | some (t, z, a, hObs) =>
              if hObs ≠ h then s!"violation head-size op={k} want={h} got={hObs}" else
              match holdsFast s bs t z a with
              | some sig => s!"violation {sig} op={k} R={s.retention} limit={effMaxBytes s} head={h} layout={lay} out={out}"
              | none => go st ops outs (k + 1)
          | _, _ => "ok"
      | ["append", n, _] =>
        if out ≠ "ok" then s!"violation append-failed op={k} out={out}" else
        match n.toNat? with
        | some n => go { st with series := st.series + n, samples := st.samples + n } ops outs (k + 1)
        | none => "ok"
      | kind :: r :: mb :: pct :: fs :: hd :: rest =>
        let lay? : Option (List Blk) :=
          match kind, rest with
          | "open", [lay] => if st.opened then none else parseLayout? lay
          | "reload", [] => if st.opened then some st.layout else none
          | "reopen", [] => if st.opened then some st.layout else none
          | _, _ => none
        match lay?, hd.toInt? with
        | some layout, some h =>
          match parseSettings? r mb pct fs h with
          | none => "ok"
          | some s =>
            match parseE2EOut? out with
            | none => s!"violation unparsable op={k} out={out}"
            | some (del, loaded, hObs, ser, smp) =>
              let cur := layout.filter fun b => !st.gone.contains b.id
              let newly := del.filter fun i => !st.gone.contains i
              if !(st.gone.all del.contains) then s!"violation resurrected op={k} out={out}"
              else if hObs ≠ h then s!"violation head-size op={k} want={h} got={hObs}"
              else if ser ≠ st.series ∨ smp ≠ st.samples then s!"violation head-touched op={k} want={st.series}:{st.samples} got={ser}:{smp}"
              else if loaded ≠ canonIds layout.length ((cur.filter fun b => !newly.contains b.id).map (·.id)) then
                s!"violation loaded-mismatch op={k} out={out}"
              else match holdsReload s cur newly with
              | some sig => s!"violation {sig} op={k} R={s.retention} limit={effMaxBytes s} head={h} gone-before={showIds st.gone} out={out}"
              | none => go { st with layout := layout, gone := del, opened := true } ops outs (k + 1)
        | _, _ => "ok"
      | _ => "ok"
    | _, _ => "ok"
  go {} ops outs 0

def suite : Suite := { name := "retention", model := model, judge := judge }

end Prom.Retention
