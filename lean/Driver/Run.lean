import PromModel.Prelude.Line
/-
  Generic driver loop: reads a stream of cases from stdin.

  model mode : every line `case <id>` starts a new case and is echoed; every other line is an op
               and is answered with the model's output line for it.
  judge mode : every non-`case` line is `<op>\t<impl output>`; one verdict line per case is printed:
               `case <id> ok` or `case <id> violation …`.
-/
namespace Prom

partial def readAll (h : IO.FS.Stream) (acc : Array String) : IO (Array String) := do
  let line ← h.getLine
  if line.isEmpty then return acc
  let line := if line.back == '\n' then (line.dropEnd 1).copy else line
  readAll h (acc.push line)

/-- Split lines into cases: (header, body). Lines before the first header form a case with header "". -/
def splitCases (ls : List String) : List (String × List String) :=
  let rec go (ls : List String) (hdr : String) (cur : List String) (acc : List (String × List String)) :=
    match ls with
    | [] => (if hdr = "" ∧ cur.isEmpty then acc else (hdr, cur.reverse) :: acc).reverse
    | l :: rest =>
      if l.startsWith "case " then
        go rest l [] (if hdr = "" ∧ cur.isEmpty then acc else (hdr, cur.reverse) :: acc)
      else go rest hdr (l :: cur) acc
  go ls "" [] []

def runSuite (s : Suite) (mode : String) : IO UInt32 := do
  let stdin ← IO.getStdin
  let stdout ← IO.getStdout
  let lines ← readAll stdin #[]
  let cases := splitCases lines.toList
  if mode = "model" then
    for (hdr, body) in cases do
      if hdr ≠ "" then stdout.putStrLn hdr
      let outs := s.model body
      -- exactly one output line per op line, padded/truncated defensively
      let outs := (outs ++ List.replicate (body.length - outs.length) "<no-output>").take body.length
      for o in outs do stdout.putStrLn o
    stdout.flush
    return 0
  else if mode = "judge" then
    for (hdr, body) in cases do
      let pairs := body.map fun l =>
        match l.splitOn "\t" with
        | [a, b] => (a, b)
        | a :: rest => (a, "\t".intercalate rest)
        | [] => ("", "")
      let v := s.judge (pairs.map (·.1)) (pairs.map (·.2))
      stdout.putStrLn s!"{hdr} {v}"
    stdout.flush
    return 0
  else
    IO.eprintln s!"unknown mode {mode}"
    return 2

end Prom
