import PromModel.Prelude.Bits
/-
  Lemmas about the bit-stream model: `readBits` after `writeBits`, byte packing, Go varints.
-/
namespace Prom.Bits

@[simp] theorem length_natToBits (v n : Nat) : (natToBits v n).length = n := by
  induction n with
  | zero => rfl
  | succ n ih => simp [natToBits, ih]

theorem bitsToNat_lt (bs : Bits) : bitsToNat bs < 2 ^ bs.length := by
  induction bs with
  | nil => simp [bitsToNat]
  | cons b bs ih =>
    simp only [bitsToNat, List.length_cons, Nat.pow_succ]
    cases b <;> simp <;> omega

theorem bitsToNat_natToBits (v n : Nat) : bitsToNat (natToBits v n) = v % 2 ^ n := by
  induction n with
  | zero => simp [natToBits, bitsToNat, Nat.mod_one]
  | succ n ih =>
    simp only [natToBits, bitsToNat, length_natToBits, ih]
    rw [Nat.mod_pow_succ (b := 2), Nat.testBit_eq_decide_div_mod_eq]
    have h2 : v / 2 ^ n % 2 = 0 ∨ v / 2 ^ n % 2 = 1 := by omega
    rcases h2 with h | h <;> simp [h, Nat.mul_comm, Nat.add_comm]

theorem natToBits_congr {v w : Nat} (n : Nat) (h : v % 2 ^ n = w % 2 ^ n) : natToBits v n = natToBits w n := by
  induction n with
  | zero => rfl
  | succ n ih =>
    have hb : v.testBit n = w.testBit n := by
      have := congrArg (fun x => x.testBit n) h
      simpa [Nat.testBit_mod_two_pow] using this
    have hm : v % 2 ^ n = w % 2 ^ n := by
      have := congrArg (fun x => x % 2 ^ n) h
      simpa [Nat.mod_mod_of_dvd, Nat.pow_succ] using this
    simp [natToBits, hb, ih hm]

theorem natToBits_mod (v n : Nat) : natToBits (v % 2 ^ n) n = natToBits v n :=
  natToBits_congr n (Nat.mod_mod _ _)

theorem natToBits_bitsToNat (bs : Bits) : natToBits (bitsToNat bs) bs.length = bs := by
  induction bs with
  | nil => rfl
  | cons b bs ih =>
    have hlt := bitsToNat_lt bs
    simp only [bitsToNat, List.length_cons, natToBits]
    congr 1
    · rw [Nat.testBit_eq_decide_div_mod_eq]
      have : (b.toNat * 2 ^ bs.length + bitsToNat bs) / 2 ^ bs.length = b.toNat := by
        rw [Nat.mul_comm, Nat.mul_add_div (Nat.two_pow_pos _), Nat.div_eq_of_lt hlt]; simp
      rw [this]; cases b <;> simp
    · refine Eq.trans (natToBits_congr _ ?_) ih
      rw [Nat.mul_comm, Nat.mul_add_mod]

/-- `readBits n` right after `writeBits v n` returns the `n` low bits of `v` and the rest of the stream. -/
theorem readBits_natToBits (v n : Nat) (rest : Bits) :
    readBits n (natToBits v n ++ rest) = some (v % 2 ^ n, rest) := by
  simp [readBits, bitsToNat_natToBits]

theorem readBits_natToBits_lt {v n : Nat} (rest : Bits) (h : v < 2 ^ n) :
    readBits n (natToBits v n ++ rest) = some (v, rest) := by
  rw [readBits_natToBits, Nat.mod_eq_of_lt h]

/-! ### byte packing -/

theorem padLen_lt (n : Nat) : padLen n < 8 := by unfold padLen; omega

theorem fromBytes_cons (b : Nat) (bs : List Nat) : fromBytes (b :: bs) = natToBits b 8 ++ fromBytes bs := by
  simp [fromBytes]

theorem fromBytes_toBytesF (f : Nat) (bs : Bits) (hf : bs.length ≤ f) :
    fromBytes (toBytesF f bs) = bs ++ List.replicate (padLen bs.length) false := by
  induction f generalizing bs with
  | zero =>
    have : bs = [] := List.eq_nil_of_length_eq_zero (by omega)
    subst this; simp [toBytesF, fromBytes, padLen]
  | succ f ih =>
    unfold toBytesF
    by_cases hE : bs = []
    · subst hE; simp [fromBytes, padLen]
    · have hpos : 0 < bs.length := List.length_pos_iff.mpr hE
      simp only [List.isEmpty_iff, hE, if_false, fromBytes_cons]
      by_cases h8 : 8 ≤ bs.length
      · have hlen : (bs.take 8).length = 8 := by simp; omega
        have hb : natToBits (byteOf (bs.take 8)) 8 = bs.take 8 := by
          unfold byteOf
          rw [hlen]; simp only [Nat.sub_self, List.replicate_zero, List.append_nil]
          have := natToBits_bitsToNat (bs.take 8)
          rwa [hlen] at this
        rw [hb, ih (bs.drop 8) (by simp; omega)]
        have hp : padLen (bs.drop 8).length = padLen bs.length := by
          simp only [List.length_drop, padLen]; omega
        rw [hp, ← List.append_assoc, List.take_append_drop]
      · have ht : bs.take 8 = bs := List.take_of_length_le (by omega)
        have hd : bs.drop 8 = [] := List.drop_of_length_le (by omega)
        have hb : natToBits (byteOf bs) 8 = bs ++ List.replicate (8 - bs.length) false := by
          unfold byteOf
          have := natToBits_bitsToNat (bs ++ List.replicate (8 - bs.length) false)
          have hl : (bs ++ List.replicate (8 - bs.length) false).length = 8 := by simp; omega
          rwa [hl] at this
        rw [ht, hd, hb]
        have : toBytesF f [] = [] := by cases f <;> simp [toBytesF]
        rw [this]
        have hp : padLen bs.length = 8 - bs.length := by unfold padLen; omega
        simp [fromBytes, hp]

/-- Unpacking the packed stream gives the stream back, followed by fewer than 8 zero padding bits. -/
theorem fromBytes_toBytes (bs : Bits) : fromBytes (toBytes bs) = padTo8 bs :=
  fromBytes_toBytesF _ bs (Nat.le_refl _)

/-! ### Go varints -/

theorem readUvarintF_put (strict : Bool) (f x acc s : Nat) (rest : Bits)
    (hf : 1 ≤ f) (hx : x < 2 * 128 ^ (f - 1)) (hacc : acc + x * 2 ^ s < 2 ^ 64) :
    readUvarintF strict f acc s (putUvarintF f x ++ rest) = some (acc + x * 2 ^ s, rest) := by
  induction f generalizing x acc s with
  | zero => omega
  | succ f ih =>
    unfold putUvarintF readUvarintF
    by_cases h : x < 128
    · have h256 : x < 2 ^ 8 := by omega
      simp only [h, if_true, readBits_natToBits_lt rest h256]
      have hnov : ¬ (strict = true ∧ f = 0 ∧ x > 1) := by
        rintro ⟨_, hf0, hx1⟩
        subst hf0; simp at hx; omega
      simp only [hnov, if_false, Nat.mod_eq_of_lt hacc]
    · have hb : x % 128 + 128 < 2 ^ 8 := by omega
      simp only [h, if_false, List.append_assoc, readBits_natToBits_lt _ hb]
      have hb2 : ¬ (x % 128 + 128 < 128) := by omega
      simp only [hb2, if_false]
      have hf1 : 1 ≤ f := by
        rcases f with _ | f
        · simp at hx; omega
        · omega
      have hmod : (x % 128 + 128) % 128 = x % 128 := by omega
      rw [hmod]
      have hx' : x / 128 < 2 * 128 ^ (f - 1) := by
        have : 128 ^ (f + 1 - 1) = 128 * 128 ^ (f - 1) := by
          have : f + 1 - 1 = (f - 1) + 1 := by omega
          rw [this, Nat.pow_succ, Nat.mul_comm]
        rw [this] at hx
        apply Nat.div_lt_of_lt_mul
        rw [Nat.mul_left_comm] at hx; exact hx
      have hsum : x % 128 * 2 ^ s + x / 128 * 2 ^ (s + 7) = x * 2 ^ s := by
        rw [Nat.pow_add]
        have : x = x % 128 + 128 * (x / 128) := by omega
        conv => rhs; rw [this]
        rw [Nat.add_mul]
        have : (2:Nat) ^ 7 = 128 := by decide
        rw [this]
        simp [Nat.mul_comm, Nat.mul_assoc, Nat.mul_left_comm]
      rw [ih (x / 128) (acc + x % 128 * 2 ^ s) (s + 7) hf1 hx' (by rw [Nat.add_assoc, hsum]; exact hacc)]
      rw [Nat.add_assoc, hsum]

theorem readUvarint_put (strict : Bool) (x : Nat) (rest : Bits) (hx : x < 2 ^ 64) :
    readUvarint strict (putUvarint x ++ rest) = some (x, rest) := by
  unfold readUvarint putUvarint
  rw [readUvarintF_put strict 10 x 0 0 rest (by omega) (by
    have : 2 * 128 ^ (10 - 1) = 2 ^ 64 := by decide
    omega) (by simpa using hx)]
  simp

theorem unzigzag_zigzag (t : Int) : unzigzag (zigzag t) = t := by
  unfold unzigzag zigzag
  split <;> split <;> omega

theorem zigzag_lt {t : Int} (h : I64 t) : zigzag t < 2 ^ 64 := by
  unfold I64 two63 at h
  unfold zigzag
  split <;> omega

theorem readVarint_put (strict : Bool) (t : Int) (rest : Bits) (ht : I64 t) :
    readVarint strict (putVarint t ++ rest) = some (t, rest) := by
  unfold readVarint putVarint
  rw [readUvarint_put strict _ rest (zigzag_lt ht)]
  simp [unzigzag_zigzag]

end Prom.Bits
