import PromProofs.Merge
import PromProofs.MergeHintDefs
import PromProofs.HistLayout
/-
  C12 through C19's chain iterator (structural part): the `consecutive` flag is set only when the returned sample
  directly follows the previously returned one inside the same input.
-/
namespace Prom.Merge
open Prom.GoHeap

theorem pop_mem {α} (lt : α → α → Bool) (a : Array α) (x : α) (a' : Array α) (h : pop lt a = some (x, a')) :
    x ∈ a ∧ ∀ y ∈ a', y ∈ a := by
  unfold pop at h
  split at h
  · rename_i hpos
    simp only at h
    split at h
    · rename_i x' hb
      simp only [Option.some.injEq, Prod.mk.injEq] at h
      obtain ⟨rfl, rfl⟩ := h
      have hp := (perm_down lt (a.size + 1) (a.swap 0 (a.size - 1) hpos (by omega)) 0 (a.size - 1)).trans
        (Array.swap_perm hpos (by omega))
      refine ⟨hp.mem_iff.1 (Array.mem_of_back? hb), fun y hy => hp.mem_iff.1 ?_⟩
      obtain ⟨ys, hys⟩ := Array.back?_eq_some_iff.1 hb
      rw [hys] at hy ⊢
      simp at hy ⊢
      exact Or.inl hy
    · cases h
  · cases h

/-- the part of an input an iterator still stands for is a suffix of that input -/
def SufI (srcs : List (List Sample)) (x : It) : Prop := ∃ pre, srcs[x.id]? = some (pre ++ x.live)

theorem It.next_some (it it' : It) (s : Sample) (h : it.next = (it', some s)) :
    it'.id = it.id ∧ it'.cur = some s ∧ it.rest = s :: it'.rest := by
  unfold It.next at h
  split at h
  · cases h
  · rename_i s' r hr
    simp only [Prod.mk.injEq, Option.some.injEq] at h
    obtain ⟨rfl, rfl⟩ := h
    exact ⟨rfl, rfl, hr⟩

theorem SufI.next {srcs : List (List Sample)} {it it' : It} {s : Sample} (hs : SufI srcs it)
    (h : it.next = (it', some s)) : SufI srcs it' := by
  obtain ⟨hid, hcur, hrest⟩ := It.next_some it it' s h
  obtain ⟨pre, hp⟩ := hs
  refine ⟨pre ++ it.cur.toList, ?_⟩
  rw [hid, hp]
  simp [It.live, hcur, hrest]

/-- what the loop of `Next` guarantees structurally -/
def HPost (srcs : List (List Sample)) (lastT : Int) (cur : It) (ch : Bool) : LoopOut → Prop
  | .brk cur' s h' _ ch' => cur'.cur = some s ∧ SufI srcs cur' ∧ (∀ x ∈ h', SufI srcs x) ∧
      (ch' = false → ch = false ∧ cur'.id = cur.id ∧ ∃ sk, cur.rest = sk ++ s :: cur'.rest ∧ ∀ q ∈ sk, q.t = lastT)
  | .cont cur' h' _ ch' => SufI srcs cur' ∧ (∀ x ∈ h', SufI srcs x) ∧
      (ch' = false → ch = false ∧ cur'.id = cur.id ∧ ∃ sk, cur.rest = sk ++ cur'.rest ∧ ∀ q ∈ sk, q.t = lastT)
  | _ => True

theorem popStep_hpost (srcs : List (List Sample)) (lastT : Int) (cur : It) (ch : Bool) (h : Array It) (dead : List It)
    (hh : ∀ x ∈ h, SufI srcs x) : HPost srcs lastT cur ch (popStep lastT h dead) := by
  unfold popStep
  cases hp : pop ltIt h with
  | none => trivial
  | some xa =>
    obtain ⟨x, h'⟩ := xa
    obtain ⟨hx, hsub⟩ := pop_mem ltIt h x h' hp
    simp only
    cases hc : x.cur with
    | none => trivial
    | some s =>
      simp only
      split
      · exact ⟨hc, hh x hx, fun y hy => hh y (hsub y hy), fun e => by cases e⟩
      · exact ⟨hh x hx, fun y hy => hh y (hsub y hy), fun e => by cases e⟩

theorem loopStep_hpost (srcs : List (List Sample)) (lastT : Int) (cur : It) (h : Array It) (dead : List It) (ch : Bool)
    (hc : SufI srcs cur) (hh : ∀ x ∈ h, SufI srcs x) : HPost srcs lastT cur ch (loopStep lastT cur h dead ch) := by
  unfold loopStep
  cases hn : cur.next with
  | mk cur' os =>
    cases os with
    | none =>
      simp only
      split
      · trivial
      · split
        · trivial
        · exact popStep_hpost srcs lastT cur ch h _ hh
    | some s =>
      obtain ⟨hid, hcur, hrest⟩ := It.next_some cur cur' s hn
      have hs' := hc.next hn
      simp only
      split
      · rename_i ht
        exact ⟨hs', hh, fun e => ⟨e, hid, [s], by simp [hrest], by simpa using ht⟩⟩
      · split
        · exact ⟨hcur, hs', hh, fun e => ⟨e, hid, [], by simp [hrest], by simp⟩⟩
        · have key : ∀ nextT : Int, HPost srcs lastT cur ch
              (if s.t < nextT then LoopOut.brk cur' s h dead ch else popStep lastT (push ltIt h cur') dead) := by
            intro nextT
            split
            · exact ⟨hcur, hs', hh, fun e => ⟨e, hid, [], by simp [hrest], by simp⟩⟩
            · apply popStep_hpost
              intro x hx
              rcases (mem_heap_push ltIt h cur' x).1 hx with hx | rfl
              · exact hh x hx
              · exact hs'
          exact key _

theorem nextLoop_hpost (srcs : List (List Sample)) (lastT : Int) : ∀ (fuel : Nat) (cur : It) (h : Array It)
    (dead : List It) (ch : Bool), SufI srcs cur → (∀ x ∈ h, SufI srcs x) →
    HPost srcs lastT cur ch (nextLoop lastT fuel cur h dead ch) := by
  intro fuel
  induction fuel with
  | zero => intros; trivial
  | succ f ih =>
    intro cur h dead ch hc hh
    have hstep := loopStep_hpost srcs lastT cur h dead ch hc hh
    unfold nextLoop
    cases hs : loopStep lastT cur h dead ch with
    | cont c1 h1 d1 ch1 =>
      rw [hs] at hstep
      obtain ⟨hc1, hh1, hk1⟩ := hstep
      have := ih c1 h1 d1 ch1 hc1 hh1
      simp only
      cases hn : nextLoop lastT f c1 h1 d1 ch1 with
      | brk c2 s h2 d2 ch2 =>
        rw [hn] at this
        obtain ⟨a1, a2, a3, a4⟩ := this
        refine ⟨a1, a2, a3, fun e => ?_⟩
        obtain ⟨e1, i1, sk2, r2, q2⟩ := a4 e
        obtain ⟨e0, i0, sk1, r1, q1⟩ := hk1 e1
        refine ⟨e0, i1.trans i0, sk1 ++ sk2, by rw [r1, r2]; simp, ?_⟩
        intro q hq; rcases List.mem_append.1 hq with hq | hq
        · exact q1 q hq
        · exact q2 q hq
      | cont c2 h2 d2 ch2 =>
        rw [hn] at this
        obtain ⟨a2, a3, a4⟩ := this
        refine ⟨a2, a3, fun e => ?_⟩
        obtain ⟨e1, i1, sk2, r2, q2⟩ := a4 e
        obtain ⟨e0, i0, sk1, r1, q1⟩ := hk1 e1
        refine ⟨e0, i1.trans i0, sk1 ++ sk2, by rw [r1, r2]; simp, ?_⟩
        intro q hq; rcases List.mem_append.1 hq with hq | hq
        · exact q1 q hq
        · exact q2 q hq
      | fin => trivial
      | err => trivial
      | fuel => trivial
    | brk c1 s h1 d1 ch1 => rw [hs] at hstep; exact hstep
    | fin => trivial
    | err => trivial
    | fuel => trivial

/-! ## whole `Next` calls -/

/-- state between two `Next` calls: `last` = the sample returned last -/
def MI (srcs : List (List Sample)) (c : Chain) (last : Sample) : Prop :=
  c.failed = false ∧ ∃ cur h, c.h = some h ∧ c.curr = some cur ∧ cur.cur = some last ∧ last.t = c.lastT ∧
    SufI srcs cur ∧ ∀ x ∈ h, SufI srcs x

theorem SufI.mem {srcs : List (List Sample)} {x : It} {s : Sample} (hs : SufI srcs x) (hc : x.cur = some s) :
    ∃ l ∈ srcs, s ∈ l := by
  obtain ⟨pre, hp⟩ := hs
  exact ⟨_, List.mem_of_getElem? hp, by simp [It.live, hc]⟩

theorem sorted_skip (l pre sk post : List Sample) (a b : Sample) (hl : SortedL l)
    (he : l = pre ++ a :: (sk ++ b :: post)) (hq : ∀ q ∈ sk, q.t = a.t) : sk = [] := by
  cases sk with
  | nil => rfl
  | cons q sk =>
    exfalso
    subst he
    have h1 := (List.pairwise_append.1 hl).2.1
    have h2 := (List.pairwise_cons.1 h1).1 q (by simp)
    have := hq q (by simp)
    omega

/-- a `Next` from a started state -/
theorem next_mi (srcs : List (List Sample)) (hsorted : ∀ l ∈ srcs, SortedL l) (c c' : Chain) (last s : Sample)
    (mi : MI srcs c last) (hn : c.next = (c', .val s)) :
    MI srcs c' s ∧ (c'.consecutive = true → Adj srcs last s) ∧ ∃ l ∈ srcs, s ∈ l := by
  obtain ⟨hnf, cur, h, hh, hc, hcl, hlt, hsc, hsh⟩ := mi
  unfold Chain.next at hn
  simp only [hnf, hh, hc, Bool.false_eq_true, if_false] at hn
  have hp := nextLoop_hpost srcs c.lastT (loopFuel cur h) cur h c.dead false hsc hsh
  cases ho : nextLoop c.lastT (loopFuel cur h) cur h c.dead false with
  | brk cur' s' h' d' ch' =>
    rw [ho] at hn hp
    simp only [Chain.finishLoop, Prod.mk.injEq, Res.val.injEq] at hn
    obtain ⟨rfl, rfl⟩ := hn
    obtain ⟨a1, a2, a3, a4⟩ := hp
    refine ⟨⟨hnf, cur', h', rfl, rfl, a1, rfl, a2, a3⟩, fun hcons => ?_, a2.mem a1⟩
    have hch : ch' = false := by simpa using hcons
    obtain ⟨_, hid, sk, hr, hq⟩ := a4 hch
    obtain ⟨pre, hpre⟩ := hsc
    have hlive : cur.live = last :: (sk ++ s' :: cur'.rest) := by simp [It.live, hcl, hr]
    rw [hlive] at hpre
    have hsk : sk = [] := sorted_skip _ pre sk cur'.rest last s' (hsorted _ (List.mem_of_getElem? hpre)) rfl
      (fun q hq' => by rw [hq q hq', hlt])
    subst hsk
    exact ⟨cur.id, pre, cur'.rest, by simpa using hpre⟩
  | fin h' d' => rw [ho] at hn; simp [Chain.finishLoop] at hn
  | err => rw [ho] at hn; simp [Chain.finishLoop] at hn
  | fuel => rw [ho] at hn; simp [Chain.finishLoop] at hn
  | cont => rw [ho] at hn; simp [Chain.finishLoop] at hn

theorem initHeap_suf (srcs : List (List Sample)) : ∀ (tl : List It) (h0 : Array It) (d0 : List It) (h : Array It)
    (d : List It), (∀ it ∈ tl, SufI srcs it) → (∀ x ∈ h0, SufI srcs x) → initHeap tl h0 d0 = some (h, d) →
    ∀ x ∈ h, SufI srcs x := by
  intro tl
  induction tl with
  | nil =>
    intro h0 d0 h d _ hh hin
    simp only [initHeap, Option.some.injEq, Prod.mk.injEq] at hin
    obtain ⟨rfl, _⟩ := hin
    exact hh
  | cons it tl ih =>
    intro h0 d0 h d htl hh hin
    unfold initHeap at hin
    cases hn : it.next with
    | mk it' os =>
      rw [hn] at hin
      cases os with
      | none =>
        simp only at hin
        split at hin
        · cases hin
        · exact ih _ _ h d (fun x hx => htl x (by simp [hx])) hh hin
      | some s =>
        simp only at hin
        refine ih _ _ h d (fun x hx => htl x (by simp [hx])) ?_ hin
        intro x hx
        rcases (mem_heap_push ltIt h0 it' x).1 hx with hx | rfl
        · exact hh x hx
        · exact (htl it (by simp)).next hn

/-- the first `Next` of a fresh chain: never `consecutive` -/
theorem next_first (srcs : List (List Sample)) (its : List It) (hits : ∀ it ∈ its, SufI srcs it) (c' : Chain)
    (s : Sample) (hn : (Chain.mk' its).next = (c', .val s)) :
    MI srcs c' s ∧ c'.consecutive = false ∧ ∃ l ∈ srcs, s ∈ l := by
  unfold Chain.next at hn
  simp only [Chain.mk', Bool.false_eq_true, if_false] at hn
  cases its with
  | nil => simp at hn
  | cons i0 tl =>
    simp only at hn
    cases hin : initHeap tl #[] [] with
    | none => rw [hin] at hn; simp at hn
    | some hd =>
      obtain ⟨h, d⟩ := hd
      rw [hin] at hn
      simp only at hn
      have hsh := initHeap_suf srcs tl #[] [] h d (fun x hx => hits x (by simp [hx])) (by simp) hin
      have hp := nextLoop_hpost srcs MinI64 (loopFuel i0 h) i0 h d true (hits i0 (by simp)) hsh
      cases ho : nextLoop MinI64 (loopFuel i0 h) i0 h d true with
      | brk cur' s' h' d' ch' =>
        rw [ho] at hn hp
        simp only [Chain.finishLoop, Prod.mk.injEq, Res.val.injEq] at hn
        obtain ⟨rfl, rfl⟩ := hn
        obtain ⟨a1, a2, a3, a4⟩ := hp
        refine ⟨⟨rfl, cur', h', rfl, rfl, a1, rfl, a2, a3⟩, ?_, a2.mem a1⟩
        cases hch : ch' with
        | true => rfl
        | false => have := (a4 hch).1; cases this
      | fin h' d' => rw [ho] at hn; simp [Chain.finishLoop] at hn
      | err => rw [ho] at hn; simp [Chain.finishLoop] at hn
      | fuel => rw [ho] at hn; simp [Chain.finishLoop] at hn
      | cont => rw [ho] at hn; simp [Chain.finishLoop] at hn

theorem atSample_cases (c : Chain) (s : Sample) :
    c.atSample s = s ∨ c.atSample s = { s with payload := s.payload / 4 * 4 } := by
  unfold Chain.atSample; split
  · exact Or.inr rfl
  · exact Or.inl rfl

/-- draining from a started state -/
theorem drain_tr_started (srcs : List (List Sample)) (hsorted : ∀ l ∈ srcs, SortedL l) :
    ∀ (fuel : Nat) (c : Chain) (last : Sample) (raw out r o : List Sample), MI srcs c last →
      Chain.drainAux fuel c raw out = some (r, o) →
      ∃ r' o', r = raw.reverse ++ r' ∧ o = out.reverse ++ o' ∧ Tr srcs (some last) r' o' ∧
        ∀ s ∈ r', ∃ l ∈ srcs, s ∈ l := by
  intro fuel
  induction fuel with
  | zero => intro c last raw out r o _ hd; simp [Chain.drainAux] at hd
  | succ f ih =>
    intro c last raw out r o mi hd
    unfold Chain.drainAux at hd
    cases hnx : c.next with
    | mk c' res =>
      rw [hnx] at hd
      cases res with
      | val s =>
        simp only at hd
        obtain ⟨mi', hadj, hmem⟩ := next_mi srcs hsorted c c' last s mi hnx
        obtain ⟨r', o', hr, ho, htr, hm⟩ := ih c' s _ _ r o mi' hd
        refine ⟨s :: r', c'.atSample s :: o', by simp [hr], by simp [ho], ?_, ?_⟩
        · refine Tr.cons _ s _ r' o' (atSample_cases c' s) (fun hk h2 => ?_) htr
          exact ⟨last, rfl, hadj (atSample_notReset c' s hk h2).1⟩
        · intro q hq
          rcases List.mem_cons.1 hq with rfl | hq
          · exact hmem
          · exact hm q hq
      | fin =>
        simp only [Option.some.injEq, Prod.mk.injEq] at hd
        exact ⟨[], [], by simp [hd.1.symm], by simp [hd.2.symm], Tr.nil _, by simp⟩
      | err => simp at hd
      | panic => simp at hd

/-- **The trace of a fresh chain over strictly increasing inputs.** -/
theorem drain_tr (srcs : List (List Sample)) (hsorted : ∀ l ∈ srcs, SortedL l) (r o : List Sample)
    (hd : (Chain.ofLists (srcs.map fun l => (l, false))).drain = some (r, o)) :
    Tr srcs none r o ∧ ∀ s ∈ r, ∃ l ∈ srcs, s ∈ l := by
  have hits : ∀ it ∈ ((srcs.map fun l => (l, false)).zipIdx.map fun (p, i) => It.ofList i p.1 p.2), SufI srcs it := by
    intro it hit
    simp only [List.mem_map] at hit
    obtain ⟨⟨p, i⟩, hmem, rfl⟩ := hit
    have := List.mem_zipIdx_iff_getElem?.1 hmem
    simp only [List.getElem?_map, Option.map_eq_some_iff] at this
    obtain ⟨l, hl, rfl⟩ := this
    exact ⟨[], by simp [It.ofList, It.live, hl]⟩
  unfold Chain.drain at hd
  generalize (Chain.ofLists (srcs.map fun l => (l, false))).totalLen + 2 = fuel at hd
  unfold Chain.ofLists at hd
  cases fuel with
  | zero => simp [Chain.drainAux] at hd
  | succ f =>
    unfold Chain.drainAux at hd
    cases hnx : (Chain.mk' ((srcs.map fun l => (l, false)).zipIdx.map fun (p, i) => It.ofList i p.1 p.2)).next with
    | mk c' res =>
      rw [hnx] at hd
      cases res with
      | val s =>
        simp only at hd
        obtain ⟨mi', hcons, hmem⟩ := next_first srcs _ hits c' s hnx
        obtain ⟨r', o', hr, ho, htr, hm⟩ := drain_tr_started srcs hsorted f c' s _ _ r o mi' hd
        have hr' : r = s :: r' := by simpa using hr
        have ho' : o = c'.atSample s :: o' := by simpa using ho
        subst hr' ho'
        refine ⟨Tr.cons _ s _ r' o' (atSample_cases c' s) (fun hk h2 => ?_) htr, ?_⟩
        · have := (atSample_notReset c' s hk h2).1
          rw [hcons] at this; cases this
        · intro q hq
          rcases List.mem_cons.1 hq with rfl | hq
          · exact hmem
          · exact hm q hq
      | fin =>
        simp only [Option.some.injEq, Prod.mk.injEq] at hd
        obtain ⟨rfl, rfl⟩ := hd
        exact ⟨Tr.nil _, by simp⟩
      | err => simp at hd
      | panic => simp at hd

end Prom.Merge
