import PromModel.Ingest.Relabel
/-
  Helper lemmas for C38 (core Lean only): the byte-wise order is a strict total order,
  insertion sort, the builder invariant and its preservation.
-/
namespace Prom.Relabel

/-! ## order -/

theorem bytesLt_irrefl (a : List UInt8) : bytesLt a a = false := by
  induction a with
  | nil => rfl
  | cons x xs ih => simp [bytesLt, ih]

theorem bytesLt_trans {a b c : List UInt8} (h1 : bytesLt a b = true) (h2 : bytesLt b c = true) :
    bytesLt a c = true := by
  induction a generalizing b c with
  | nil =>
    cases b with
    | nil => simp [bytesLt] at h1
    | cons y ys =>
      cases c with
      | nil => simp [bytesLt] at h2
      | cons z zs => simp [bytesLt]
  | cons x xs ih =>
    cases b with
    | nil => simp [bytesLt] at h1
    | cons y ys =>
      cases c with
      | nil => simp [bytesLt] at h2
      | cons z zs =>
        simp only [bytesLt] at h1 h2 ⊢
        simp only [UInt8.lt_iff_toNat_lt] at h1 h2 ⊢
        split at h1
        · split at h2
          · have : x.toNat < z.toNat := by omega
            simp [this]
          · split at h2
            · simp at h2
            · have : x.toNat < z.toNat := by omega
              simp [this]
        · split at h1
          · simp at h1
          · split at h2
            · have : x.toNat < z.toNat := by omega
              simp [this]
            · split at h2
              · simp at h2
              · have h3 : ¬ x.toNat < z.toNat := by omega
                have h4 : ¬ z.toNat < x.toNat := by omega
                simp [h3, h4]
                exact ih h1 h2

theorem bytesLt_total {a b : List UInt8} (h1 : bytesLt a b = false) (h2 : bytesLt b a = false) : a = b := by
  induction a generalizing b with
  | nil =>
    cases b with
    | nil => rfl
    | cons y ys => simp [bytesLt] at h1
  | cons x xs ih =>
    cases b with
    | nil => simp [bytesLt] at h2
    | cons y ys =>
      simp only [bytesLt, UInt8.lt_iff_toNat_lt] at h1 h2
      split at h1
      · simp at h1
      · split at h1
        · rename_i h3 h4
          simp [h4] at h2
        · rename_i h3 h4
          simp [h3, h4] at h2
          have : x.toNat = y.toNat := by omega
          have : x = y := UInt8.toNat_inj.mp this
          rw [this, ih h1 h2]

theorem strBytes_inj {a b : String} (h : strBytes a = strBytes b) : a = b := by
  unfold strBytes at h
  apply String.toByteArray_inj.mp
  apply ByteArray.ext
  exact Array.toList_inj.mp h

theorem strLt_irrefl (a : String) : strLt a a = false := bytesLt_irrefl _

theorem strLt_trans {a b c : String} (h1 : strLt a b = true) (h2 : strLt b c = true) : strLt a c = true :=
  bytesLt_trans h1 h2

theorem strLt_total {a b : String} (h1 : strLt a b = false) (h2 : strLt b a = false) : a = b :=
  strBytes_inj (bytesLt_total h1 h2)

theorem strLt_ne {a b : String} (h : strLt a b = true) : a ≠ b := by
  intro e; subst e; simp [strLt_irrefl] at h

/-! ## sorting -/

/-- strictly sorted by name -/
def Sorted (ls : List Label) : Prop := ls.Pairwise (fun x y => strLt x.name y.name = true)

/-- pairwise distinct names -/
def NodupNames (ls : List Label) : Prop := ls.Pairwise (fun x y => x.name ≠ y.name)

theorem Sorted.nodup {ls : List Label} (h : Sorted ls) : NodupNames ls :=
  List.Pairwise.imp (fun h => strLt_ne h) h

theorem mem_insertLabel {l y : Label} {xs : List Label} : y ∈ insertLabel l xs ↔ y = l ∨ y ∈ xs := by
  induction xs with
  | nil => simp [insertLabel]
  | cons x xs ih =>
    simp only [insertLabel]
    split
    · simp
    · simp [ih]; constructor
      · rintro (h | h | h) <;> simp [h]
      · rintro (h | h | h) <;> simp [h]

theorem insertLabel_sorted {l : Label} {xs : List Label} (hs : Sorted xs)
    (hne : ∀ x ∈ xs, x.name ≠ l.name) : Sorted (insertLabel l xs) := by
  induction xs with
  | nil => simp [insertLabel, Sorted]
  | cons x xs ih =>
    simp only [insertLabel]
    have hs' := List.pairwise_cons.mp hs
    split
    · rename_i hlt
      apply List.pairwise_cons.mpr
      refine ⟨?_, hs⟩
      intro y hy
      rcases List.mem_cons.mp hy with h | h
      · subst h; exact hlt
      · exact strLt_trans hlt (hs'.1 y h)
    · rename_i hlt
      have hlt : strLt l.name x.name = false := by simpa using hlt
      have hxl : strLt x.name l.name = true := by
        cases h : strLt x.name l.name with
        | true => rfl
        | false => exact absurd (strLt_total h hlt) (hne x (by simp))
      apply List.pairwise_cons.mpr
      refine ⟨?_, ih hs'.2 (fun y hy => hne y (by simp [hy]))⟩
      intro y hy
      rcases mem_insertLabel.mp hy with h | h
      · subst h; exact hxl
      · exact hs'.1 y h

theorem mem_sortLabels {y : Label} {ls : List Label} : y ∈ sortLabels ls ↔ y ∈ ls := by
  induction ls with
  | nil => simp [sortLabels]
  | cons x xs ih =>
    have : sortLabels (x :: xs) = insertLabel x (sortLabels xs) := rfl
    rw [this, mem_insertLabel, ih]; simp

theorem sortLabels_sorted {ls : List Label} (h : NodupNames ls) : Sorted (sortLabels ls) := by
  induction ls with
  | nil => simp [sortLabels, Sorted]
  | cons x xs ih =>
    have hx := List.pairwise_cons.mp h
    have : sortLabels (x :: xs) = insertLabel x (sortLabels xs) := rfl
    rw [this]
    apply insertLabel_sorted (ih hx.2)
    intro y hy
    exact (hx.1 y (mem_sortLabels.mp hy)).symm

/-! ## builder invariant -/

structure Inv (b : Builder) : Prop where
  baseSorted : Sorted b.base
  addNodup : NodupNames b.add
  addNonEmpty : ∀ a ∈ b.add, a.value ≠ ""
  emptyDel : ∀ l ∈ b.base, l.value = "" → l.name ∈ b.del

theorem inv_new {base : List Label} (h : Sorted base) : Inv (Builder.new base) where
  baseSorted := h
  addNodup := by simp [Builder.new, NodupNames]
  addNonEmpty := by simp [Builder.new]
  emptyDel := by
    intro l hl hv
    simp only [Builder.new, List.mem_map, List.mem_filter]
    exact ⟨l, ⟨hl, by simp [hv]⟩, rfl⟩

theorem inv_delete {b : Builder} (h : Inv b) (n : String) : Inv (b.delete n) where
  baseSorted := h.baseSorted
  addNodup := List.Pairwise.sublist List.filter_sublist h.addNodup
  addNonEmpty := by
    intro a ha
    exact h.addNonEmpty a (List.mem_filter.mp ha).1
  emptyDel := by
    intro l hl hv
    simp only [Builder.delete, List.mem_append]
    exact Or.inl (h.emptyDel l hl hv)

theorem hasName_iff {ls : List Label} {n : String} : hasName ls n = true ↔ ∃ a ∈ ls, a.name = n := by
  simp [hasName]

theorem inv_set {b : Builder} (h : Inv b) (n v : String) : Inv (b.set n v) := by
  unfold Builder.set
  split
  · exact inv_delete h n
  · rename_i hv
    have hv : v ≠ "" := by simpa using hv
    split
    · exact {
        baseSorted := h.baseSorted
        addNodup := by
          show NodupNames (b.add.map _)
          unfold NodupNames
          rw [List.pairwise_map]
          apply List.Pairwise.imp _ h.addNodup
          intro x y hxy
          by_cases hx : x.name = n <;> by_cases hy : y.name = n <;> simp [hx, hy] <;> simp_all
        addNonEmpty := by
          intro a ha
          simp only [List.mem_map] at ha
          obtain ⟨x, hx, rfl⟩ := ha
          split
          · exact hv
          · exact h.addNonEmpty x hx
        emptyDel := h.emptyDel }
    · rename_i hn
      have hn : ∀ a ∈ b.add, a.name ≠ n := by
        intro a ha e
        exact hn (hasName_iff.mpr ⟨a, ha, e⟩)
      exact {
        baseSorted := h.baseSorted
        addNodup := by
          show NodupNames (b.add ++ [⟨n, v⟩])
          unfold NodupNames
          rw [List.pairwise_append]
          refine ⟨h.addNodup, by simp, ?_⟩
          intro x hx y hy
          simp at hy; subst hy
          exact hn x hx
        addNonEmpty := by
          intro a ha
          simp only [List.mem_append, List.mem_singleton] at ha
          rcases ha with ha | ha
          · exact h.addNonEmpty a ha
          · subst ha; exact hv
        emptyDel := h.emptyDel }

theorem inv_foldl {α : Type} (f : Builder → α → Builder) (hf : ∀ b x, Inv b → Inv (f b x))
    (xs : List α) {b : Builder} (h : Inv b) : Inv (xs.foldl f b) := by
  induction xs generalizing b with
  | nil => exact h
  | cons x xs ih => exact ih (hf b x h)

theorem inv_relabel (c : Config) {b : Builder} (h : Inv b) : Inv (relabel c b).2 := by
  unfold relabel
  cases c.action <;> simp only
  case replace =>
    unfold replaceStep
    split
    · exact inv_set h _ _
    · unfold replaceGeneral
      split
      · exact h
      · simp only
        split
        · exact h
        · split
          · exact inv_delete h _
          · exact inv_set h _ _
  case keep => exact h
  case drop => exact h
  case keepequal => exact h
  case dropequal => exact h
  case hashmod => exact inv_set h _ _
  case lowercase => exact inv_set h _ _
  case uppercase => exact inv_set h _ _
  case labelmap =>
    apply inv_foldl _ _ _ h
    intro b l hb
    unfold labelMapStep
    split
    · exact inv_set hb _ _
    · exact hb
  case labeldrop =>
    apply inv_foldl _ _ _ h
    intro b l hb
    unfold labelDropStep
    split
    · exact inv_delete hb _
    · exact hb
  case labelkeep =>
    apply inv_foldl _ _ _ h
    intro b l hb
    unfold labelKeepStep
    split
    · exact hb
    · exact inv_delete hb _

theorem inv_process (cs : List Config) {b : Builder} (h : Inv b) : Inv (process cs b).2 := by
  induction cs generalizing b with
  | nil => exact h
  | cons c cs ih =>
    simp only [process]
    split
    · exact ih (inv_relabel c h)
    · exact inv_relabel c h

/-! ## `Labels()` of a builder satisfying the invariant is canonical -/

theorem range_nodup {b : Builder} (h : Inv b) : NodupNames b.range := by
  unfold Builder.range NodupNames
  rw [List.pairwise_append]
  refine ⟨List.Pairwise.sublist List.filter_sublist h.baseSorted.nodup, h.addNodup, ?_⟩
  intro x hx y hy e
  have := (List.mem_filter.mp hx).2
  simp only [Bool.and_eq_true, Bool.not_eq_true', ] at this
  have h2 : hasName b.add x.name = true := hasName_iff.mpr ⟨y, hy, e.symm⟩
  simp [h2] at this

theorem range_nonEmpty {b : Builder} (h : Inv b) : ∀ l ∈ b.range, l.value ≠ "" := by
  intro l hl
  unfold Builder.range at hl
  rcases List.mem_append.mp hl with hl | hl
  · have hm := List.mem_filter.mp hl
    intro hv
    have := h.emptyDel l hm.1 hv
    have h2 := hm.2
    simp only [Bool.and_eq_true, Bool.not_eq_true'] at h2
    have h3 : b.del.contains l.name = true := by simpa using this
    rw [h2.1] at h3
    exact Bool.noConfusion h3
  · exact h.addNonEmpty l hl

theorem labels_canonical {b : Builder} (h : Inv b) :
    Sorted b.labels ∧ (∀ l ∈ b.labels, l.value ≠ "") := by
  unfold Builder.labels
  split
  · rename_i hc
    simp only [Bool.and_eq_true, List.isEmpty_iff] at hc
    refine ⟨h.baseSorted, ?_⟩
    intro l hl hv
    have := h.emptyDel l hl hv
    simp [hc.1] at this
  · refine ⟨sortLabels_sorted (range_nodup h), ?_⟩
    intro l hl
    exact range_nonEmpty h l (mem_sortLabels.mp hl)

/-! ## `Get` after `Set` / `Del` -/

theorem find_filter_ne {ls : List Label} {n m : String} (h : m ≠ n) :
    (ls.filter (fun a => !(a.name == n))).find? (fun a => a.name == m) = ls.find? (fun a => a.name == m) := by
  rw [List.find?_filter]
  congr 1; funext a
  by_cases hm : a.name = m
  · subst hm
    simp [h]
  · simp [hm]

theorem find_filter_eq {ls : List Label} {n : String} :
    (ls.filter (fun a => !(a.name == n))).find? (fun a => a.name == n) = none := by
  rw [List.find?_filter, List.find?_eq_none]
  intro x _
  by_cases hx : x.name = n <;> simp [hx]

theorem get_delete_eq (b : Builder) (n : String) : (b.delete n).get n = "" := by
  simp only [Builder.delete, Builder.get, find_filter_eq]
  simp

theorem get_delete_ne (b : Builder) {n m : String} (h : m ≠ n) : (b.delete n).get m = b.get m := by
  have : (b.del ++ [n]).contains m = b.del.contains m := by
    simp [h]
  simp only [Builder.delete, Builder.get, find_filter_ne h, this]

theorem find_map_set_ne {ls : List Label} {n m v : String} (h : m ≠ n) :
    (ls.map (fun a => if a.name == n then { a with value := v } else a)).find? (fun a => a.name == m)
      = ls.find? (fun a => a.name == m) := by
  induction ls with
  | nil => rfl
  | cons x xs ih =>
    simp only [List.map_cons, List.find?_cons]
    by_cases hx : x.name = n
    · have hxm : (x.name == m) = false := by
        rw [hx]; simpa using fun e : n = m => h e.symm
      have hxn : (x.name == n) = true := by simpa using hx
      simp only [hxn, if_true, hxm]
      exact ih
    · have hxn : (x.name == n) = false := by simpa using hx
      simp only [hxn, Bool.false_eq_true, if_false]
      rw [ih]

theorem find_map_set_eq {ls : List Label} {n v : String} (h : hasName ls n = true) :
    ∃ a, (ls.map (fun a => if a.name == n then { a with value := v } else a)).find? (fun a => a.name == n) = some a
      ∧ a.value = v := by
  induction ls with
  | nil => simp [hasName] at h
  | cons x xs ih =>
    simp only [List.map_cons, List.find?_cons]
    by_cases hx : x.name = n
    · have hxn : (x.name == n) = true := by simpa using hx
      simp only [hxn, if_true]
      exact ⟨_, rfl, rfl⟩
    · have hxn : (x.name == n) = false := by simpa using hx
      have h' : hasName xs n = true := by
        simp only [hasName, List.any_cons, Bool.or_eq_true] at h
        rcases h with h | h
        · rw [hxn] at h; exact Bool.noConfusion h
        · exact h
      simp only [hxn, Bool.false_eq_true, if_false]
      exact ih h'

theorem find_append_new {ls : List Label} {n m v : String} (h : m ≠ n) :
    (ls ++ [(⟨n, v⟩ : Label)]).find? (fun a => a.name == m) = ls.find? (fun a => a.name == m) := by
  rw [List.find?_append]
  have hnm : (n == m) = false := by simpa using fun e : n = m => h e.symm
  cases ls.find? (fun a => a.name == m) with
  | some a => rfl
  | none => simp [List.find?_cons, hnm]

theorem get_set_ne (b : Builder) {n m : String} (v : String) (h : m ≠ n) : (b.set n v).get m = b.get m := by
  unfold Builder.set
  split
  · exact get_delete_ne b h
  · split
    · simp only [Builder.get, find_map_set_ne h]
    · simp only [Builder.get, find_append_new h]

/-- `Get` after `Set` returns the value set (empty value = deleted = ""). -/
theorem get_set_eq (b : Builder) (n v : String) : (b.set n v).get n = v := by
  unfold Builder.set
  split
  · rename_i hv
    have hv : v = "" := by simpa using hv
    rw [get_delete_eq, hv]
  · split
    · rename_i hn
      obtain ⟨a, ha, hav⟩ := find_map_set_eq (v := v) hn
      simp only [Builder.get, ha, hav]
    · rename_i hn
      have hn : ∀ a ∈ b.add, ¬ a.name = n := by
        intro a ha e
        exact hn (hasName_iff.mpr ⟨a, ha, e⟩)
      have : (b.add ++ [(⟨n, v⟩ : Label)]).find? (fun a => a.name == n) = some ⟨n, v⟩ := by
        rw [List.find?_append]
        have : b.add.find? (fun a => a.name == n) = none := by
          rw [List.find?_eq_none]; intro x hx; simpa using hn x hx
        simp [this, List.find?_cons]
      simp only [Builder.get, this]

/-- A label with a non-empty value is visited by `Range`. -/
theorem get_ne_empty_mem_range {b : Builder} {n : String} (h : b.get n ≠ "") :
    ∃ l ∈ b.range, l.name = n := by
  unfold Builder.get at h
  split at h
  · rename_i a ha
    have := List.mem_of_find?_eq_some ha
    have hn := List.find?_some ha
    exact ⟨a, by simp [Builder.range, this], by simpa using hn⟩
  · rename_i hnone
    split at h
    · exact absurd rfl h
    · rename_i hdel
      unfold baseGet at h
      split at h
      · rename_i l hl
        have hm := List.mem_of_find?_eq_some hl
        have hn : l.name = n := by simpa using List.find?_some hl
        refine ⟨l, ?_, hn⟩
        simp only [Builder.range, List.mem_append, List.mem_filter]
        left
        refine ⟨hm, ?_⟩
        have h1 : b.del.contains l.name = false := by rw [hn]; simpa using hdel
        have h2 : hasName b.add l.name = false := by
          rw [hn]
          simp only [hasName]
          rw [List.find?_eq_none] at hnone
          simpa using hnone
        rw [h1, h2]; rfl
      · exact absurd rfl h

/-- `Get` after deleting every visited label whose name satisfies `p`. -/
theorem get_foldl_delete (p : String → Bool) (ls : List Label) (b : Builder) (n : String) :
    (ls.foldl (fun acc l => if p l.name then acc.delete l.name else acc) b).get n
      = if (ls.any fun l => p l.name && l.name == n) then "" else b.get n := by
  induction ls generalizing b with
  | nil => simp
  | cons x xs ih =>
    simp only [List.foldl, List.any_cons]
    rw [ih]
    by_cases hany : (xs.any fun l => p l.name && l.name == n) = true
    · simp only [hany, Bool.or_true, if_true]
    · have hany : (xs.any fun l => p l.name && l.name == n) = false := by simpa using hany
      simp only [hany, Bool.or_false, Bool.false_eq_true, if_false]
      by_cases hp : p x.name = true
      · by_cases hx : x.name = n
        · subst hx
          simp [hp, get_delete_eq]
        · have hne : n ≠ x.name := fun e => hx e.symm
          have hxn : (x.name == n) = false := by simpa using hx
          simp only [hp, if_true, hxn, Bool.and_false, Bool.false_eq_true, if_false]
          exact get_delete_ne _ hne
      · have hp' : p x.name = false := by simpa using hp
        simp [hp']

/-! ## template expansion without variables -/

theorem expandAux_noVar (names caps : List String) (f : Nat) (t : List Char)
    (h : t.contains '$' = false) (hf : t.length ≤ f) : expandAux names caps f t = t := by
  induction f generalizing t with
  | zero => simp [expandAux]
  | succ f ih =>
    cases t with
    | nil => simp [expandAux]
    | cons c t =>
      simp only [List.contains_cons, Bool.or_eq_false_iff] at h
      have hc : (c != '$') = true := by
        have := h.1
        simp only [bne_iff_ne, ne_eq]
        intro e; subst e; simp at this
      simp only [expandAux, hc, if_true]
      rw [ih t h.2 (by simp only [List.length_cons] at hf; omega)]

theorem expand_noVar (names caps : List String) (t : String) (h : hasVar t = false) :
    expand names caps t = t := by
  unfold expand
  rw [expandAux_noVar names caps _ _ h (by rw [String.length_toList]; exact Nat.le_refl _)]
  exact String.ofList_toList

end Prom.Relabel
