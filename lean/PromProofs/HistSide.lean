import PromProofs.HistIdxInsert
import PromProofs.HistIdxExpand
import PromProofs.HistIdxBoth
import PromProofs.HistIdxList
/-
  One side (positive or negative buckets) of a recoding step: what the inserts of the expand functions do
  to the bucket map (C11 `insert_preserves_buckets` at index level, `expand_sound`).
-/
namespace Prom.Hist

theorem runIdx_length (b : Int) (n : Nat) : (runIdx b n).length = n := by
  induction n generalizing b with
  | zero => rfl
  | succ n ih => simp [runIdx, ih]

theorem idxsFrom_length (cur : Int) (s : List Span) : (idxsFrom cur s).length = (s.map (·.length)).sum := by
  induction s generalizing cur with
  | nil => rfl
  | cons x r ih => simp [idxsFrom, runIdx_length, ih]

theorem countSpans_eq (s : List Span) : countSpans s = (idxs s).length := by
  simp [countSpans, idxs, idxsFrom_length]

theorem prefixFrom_length (v : Int) (l : List Int) : (prefixFrom v l).length = l.length := by
  induction l generalizing v with
  | nil => rfl
  | cons d r ih => simp [prefixFrom, ih]

theorem absVals_length (float : Bool) (l : List Int) : (absVals float l).length = l.length := by
  cases float <;> simp [absVals, prefixSums, prefixFrom_length]

/-- `if ins.isEmpty then keep else insert …` — the shape used by `recodeHistogram` and `recode` -/
def applyIns (float : Bool) (xs : List Int) (n : Nat) (ins : List Insert) : Except Err (List Int) :=
  if ins.isEmpty then pure xs else insert (!float) xs n ins

theorem vZero_zero (float : Bool) : vZero float 0 = true := by
  cases float <;> simp [vZero, fEq, fIsNaN, fKey]

theorem bucketMap_congr (float : Bool) (s1 s2 : List Span) (xs : List Int) (h : idxs s1 = idxs s2) :
    bucketMap float s1 xs = bucketMap float s2 xs := by
  simp [bucketMap, h]

/-- **insert_preserves_buckets at index level.**  `sA` = old layout, `sU` = a layout that enumerates the merged
    indices, `ins` = inserts that denote the unit inserts `specF 0 A B`.  Applying them to ANY bucket slice of
    the old layout gives a slice of the new layout with the same bucket map. -/
theorem insert_bucketMap (float : Bool) (sA sU : List Span) (B : List Int)
    (hU : idxs sU = mergeU (idxs sA) B) (xs : List Int) (hl : (idxs sA).length ≤ xs.length)
    (ins : List Insert) (hp : AllPos ins) (hpos : posOf ins = (specF 0 (idxs sA) B).map (·.1))
    (out : List Int) (h : insert (!float) xs (countSpans sU) ins = .ok out) :
    xs.length = (idxs sA).length ∧ bucketMap float sU out = bucketMap float sA xs ∧
      out.length = (idxs sU).length := by
  simp only [insert] at h
  have hlen := mergeU_length 0 (idxs sA) B
  cases hr : insertLoop (!float) xs.length 0 0 xs ins with
  | error e => simp [hr] at h
  | ok r =>
    simp only [hr] at h
    have hq : ∀ (fl : Bool) (i : Int), (fun p : Int × Int => !vZero fl p.2) (i, 0) = false := by
      intro fl i; simp [vZero_zero]
    have hrl0 : r.length = xs.length + (specF 0 (idxs sA) B).length := by
      cases float with
      | true =>
        have hw := insertLoop_abs_weave _ _ _ _ _ _ hp (by simpa using hr)
        rw [hw, weave_length, hpos, List.length_map]
      | false =>
        have hw := insertLoop_deltas_weave _ _ _ _ _ _ hp (by simpa using hr)
        rw [← prefixFrom_length 0 r, hw, weave_length, prefixFrom_length, hpos, List.length_map]
    have hn : countSpans sU = (idxs sA).length + (specF 0 (idxs sA) B).length := by
      rw [countSpans_eq, hU, hlen]
    by_cases hgt : r.length > countSpans sU
    · simp [hgt] at h
    · have hxl : xs.length = (idxs sA).length := by omega
      have hrl : r.length = countSpans sU := by omega
      simp only [hrl, Nat.lt_irrefl, if_false, Nat.sub_self, List.replicate_zero, List.append_nil, gt_iff_lt] at h
      cases h
      refine ⟨hxl, ?_, by rw [hrl, countSpans_eq]⟩
      cases float with
      | true =>
        have hw := insertLoop_abs_weave _ _ _ _ _ _ hp (by simpa using hr)
        have := zip_weave_filter (fun p : Int × Int => !vZero true p.2) (hq true) 0 (idxs sA) B xs hxl
        simp only [bucketMap, absVals, if_true, hU, hw, hpos]
        exact this
      | false =>
        have hw := insertLoop_deltas_weave _ _ _ _ _ _ hp (by simpa using hr)
        have := zip_weave_filter (fun p : Int × Int => !vZero false p.2) (hq false) 0 (idxs sA) B (prefixFrom 0 xs)
          (by rw [prefixFrom_length, hxl])
        simp only [bucketMap, absVals, Bool.false_eq_true, if_false, prefixSums, hU, hw, hpos]
        exact this

theorem applyIns_bucketMap (float : Bool) (sA sU : List Span) (B : List Int)
    (hU : idxs sU = mergeU (idxs sA) B) (xs : List Int) (hl : xs.length = (idxs sA).length)
    (ins : List Insert) (hp : AllPos ins) (hpos : posOf ins = (specF 0 (idxs sA) B).map (·.1))
    (out : List Int) (h : applyIns float xs (countSpans sU) ins = .ok out) :
    bucketMap float sU out = bucketMap float sA xs ∧ out.length = (idxs sU).length := by
  unfold applyIns at h
  by_cases he : ins = []
  · subst he
    simp [pure, Except.pure] at h; subst h
    have hs : specF 0 (idxs sA) B = [] := by simpa [posOf] using hpos.symm
    have := mergeU_of_specF_nil 0 _ _ hs
    rw [this] at hU
    exact ⟨bucketMap_congr _ _ _ _ hU, by rw [hU, hl]⟩
  · have hne : ins.isEmpty = false := by cases ins <;> simp_all
    simp only [hne, Bool.false_eq_true, if_false] at h
    exact (insert_bucketMap float sA sU B hU xs (by omega) ins hp hpos out h).2

theorem weave_mem (i : Nat) (xs : List Int) (P : List Nat) : ∀ v ∈ weave i xs P, v = 0 ∨ v ∈ xs := by
  fun_induction weave i xs P <;> intro v hv <;> simp_all <;> grind

/-- float flavour (absolute values): recoding only adds zeros -/
theorem applyIns_mem (xs : List Int) (n : Nat) (ins : List Insert) (out : List Int) (hp : AllPos ins)
    (h : applyIns true xs n ins = .ok out) : ∀ v ∈ out, v = 0 ∨ v ∈ xs := by
  unfold applyIns at h
  by_cases he : ins.isEmpty = true
  · simp [he, pure, Except.pure] at h; subst h; exact fun v hv => Or.inr hv
  · simp only [he, Bool.false_eq_true, if_false, Bool.not_true, insert] at h
    cases hr : insertLoop false xs.length 0 0 xs ins with
    | error e => simp [hr] at h
    | ok r =>
      simp only [hr] at h
      split at h
      · cases h
      · cases h
        have hw := insertLoop_abs_weave _ _ _ _ _ _ hp hr
        intro v hv
        rcases List.mem_append.1 hv with hv | hv
        · rw [hw] at hv; exact weave_mem _ _ _ v hv
        · exact Or.inl (List.eq_of_mem_replicate hv)

/-- What one side of a recoding step knows about its inserts. `A` = chunk layout, `B` = histogram layout. -/
structure SidePlan (A B : List Int) (f b : List Insert) : Prop where
  fpos : AllPos f
  bpos : AllPos b
  f : posOf f = (specF 0 A B).map (·.1)
  b : posOf b = (specF 0 B A).map (·.1)

theorem pairs_fst (float : Bool) (spans : List Span) (bs : List Int) (p : List (Int × Int))
    (h : pairs float spans bs = .ok p) : p.map (·.1) = idxs spans ∧ (idxs spans).length ≤ bs.length := by
  unfold pairs at h
  by_cases hl : bs.length < (idxs spans).length
  · simp [hl] at h
  · simp only [hl, if_false] at h
    cases h
    refine ⟨?_, by omega⟩
    rw [List.map_fst_zip]
    rw [absVals_length]; omega

/-- `expandIntSpansAndBuckets`/`expandFloatSpansAndBuckets` say ok: the inserts denote `specF`, and the
    backward inserts carry the bucket indices the histogram lacks. -/
theorem expandCounter_plan (float : Bool) (a b : List Span) (aB bB : List Int) (f bk : List Insert)
    (h : expandCounter float a b aB bB = .ok (some (f, bk))) :
    SidePlan (idxs a) (idxs b) f bk ∧ insertIdxs bk = (specF 0 (idxs b) (idxs a)).map (·.2) ∧
      (idxs a).length ≤ aB.length ∧ (idxs b).length ≤ bB.length := by
  unfold expandCounter at h
  cases hpa : pairs float a aB with
  | error e => simp [hpa, bind, Except.bind] at h
  | ok pa =>
    cases hpb : pairs float b bB with
    | error e => simp [hpa, hpb, bind, Except.bind] at h
    | ok pb =>
      simp [hpa, hpb, bind, Except.bind, pure, Except.pure] at h
      have := expandGo_init_spec float pa pb (f, bk) h
      rw [(pairs_fst _ _ _ _ hpa).1, (pairs_fst _ _ _ _ hpb).1] at this
      exact ⟨⟨this.1, this.2.1, this.2.2.1, this.2.2.2.2.1⟩, this.2.2.2.2.2, (pairs_fst _ _ _ _ hpa).2,
        (pairs_fst _ _ _ _ hpb).2⟩

theorem expandBoth_plan (a b : List Span) :
    SidePlan (idxs a) (idxs b) (expandBoth a b).1 (expandBoth a b).2.1 ∧
    idxs (expandBoth a b).2.2 = mergeU (idxs a) (idxs b) := by
  have := expandBoth_spec a b
  exact ⟨⟨this.1, this.2.1, this.2.2.1, this.2.2.2.1⟩, this.2.2.2.2⟩

theorem posOf_eq_nil (ins : List Insert) (hp : AllPos ins) : posOf ins = [] ↔ ins = [] := by
  constructor
  · intro h
    cases ins with
    | nil => rfl
    | cons x r =>
      have := (AllPos_cons x r).1 hp
      rw [posOf_cons] at h
      have : (List.replicate x.num x.pos ++ posOf r).length = 0 := by rw [h]; rfl
      simp at this; omega
  · intro h; subst h; rfl

/-- no backward inserts: the merged layout is the histogram's -/
theorem SidePlan.merge_of_b_nil {A B : List Int} {f b : List Insert} (p : SidePlan A B f b) (hb : b = []) :
    mergeU A B = B := by
  have : specF 0 B A = [] := by
    have := p.b; rw [hb] at this; simpa [posOf] using this.symm
  rw [mergeU_comm]; exact mergeU_of_specF_nil 0 _ _ this

/-- no forward inserts: the merged layout is the chunk's -/
theorem SidePlan.merge_of_f_nil {A B : List Int} {f b : List Insert} (p : SidePlan A B f b) (hf : f = []) :
    mergeU A B = A := by
  have : specF 0 A B = [] := by
    have := p.f; rw [hf] at this; simpa [posOf] using this.symm
  exact mergeU_of_specF_nil 0 _ _ this

/-- `adjustForInserts` on the histogram's spans with the backward inserts enumerates the merged layout -/
theorem adjustForInserts_idxs (a b : List Span) (f bk : List Insert) (p : SidePlan (idxs a) (idxs b) f bk)
    (hi : insertIdxs bk = (specF 0 (idxs b) (idxs a)).map (·.2))
    (hA : (idxs a).Pairwise (· < ·)) (hB : (idxs b).Pairwise (· < ·)) :
    idxs (adjustForInserts b bk) = mergeU (idxs a) (idxs b) := by
  unfold adjustForInserts
  by_cases he : bk = []
  · subst he; simp [p.merge_of_b_nil rfl]
  · have hne : bk.isEmpty = false := by cases bk <;> simp_all
    simp only [hne, Bool.false_eq_true, if_false]
    have := (adjGo_spec (idxs b) (insertIdxs bk) MS.empty MSOk_empty).2
    rw [this, hi, adjMerge_spec 0 _ _ hA hB]
    simp [MS.empty, MS.spans, idxs, idxsFrom]

end Prom.Hist
