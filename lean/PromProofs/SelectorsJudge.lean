import PromModel.Suites.SelSuite
import PromProofs.SelectorsMemo
import PromProofs.SelectorsWin
/-
  The judge's filter-based reference functions agree with the specifications the model is proved equal to.
-/
namespace Prom.Selectors
open Prom.SelSuite

theorem foldl_pick_sorted : ∀ (l : Series) (b : Option Sample), Sorted l →
    (∀ x, b = some x → ∀ y ∈ l, x.t < y.t) →
    l.foldl pickLater b = (match l.getLast? with | some s => some s | none => b) := by
  intro l
  induction l with
  | nil => intro b _ _; rfl
  | cons y ys ih =>
    intro b hs hb
    have hy := sorted_cons hs
    have hp : pickLater b y = some y := by
      cases b with
      | none => rfl
      | some x =>
        have := hb x rfl y (by simp)
        simp [pickLater]; omega
    rw [List.foldl_cons, hp, ih (some y) hy.1 (by intro x hx z hz; cases hx; exact hy.2 z hz)]
    cases ys with
    | nil => rfl
    | cons z zs =>
      rw [List.getLast?_cons_cons]
      cases hgl : (z :: zs).getLast? with
      | none => simp at hgl
      | some w => rfl

theorem jInstant_eq_spec {series : Series} (hs : Sorted series) (lb r : Int) :
    jInstant series lb r = instantSpec series r lb := by
  unfold jInstant instantSpec latestLE
  simp only
  have hfold := foldl_pick_sorted (series.filter fun s => decide (r - lb < s.t) && decide (s.t ≤ r)) none
    (sorted_filter hs _) (by intro x hx; cases hx)
  rw [hfold]
  -- candidates = (samples ≤ r) filtered by the lower bound
  have hcand : (series.filter fun s => decide (r - lb < s.t) && decide (s.t ≤ r))
      = (series.filter fun s => decide (s.t ≤ r)).filter (fun s => decide (r - lb < s.t)) := by
    rw [List.filter_filter]
  rw [hcand]
  have hsL : Sorted (series.filter fun s => decide (s.t ≤ r)) := sorted_filter hs _
  generalize (series.filter fun s => decide (s.t ≤ r)) = L at hsL ⊢
  cases hl : L.getLast? with
  | none =>
    rw [List.getLast?_eq_none_iff] at hl
    subst hl; rfl
  | some s =>
    obtain ⟨ini, rfl⟩ : ∃ ini, L = ini ++ [s] := by
      rcases List.eq_nil_or_concat L with rfl | ⟨ini, a, rfl⟩
      · simp at hl
      · simp at hl; subst hl; exact ⟨ini, by simp⟩
    by_cases ha : r - lb < s.t
    · rw [List.filter_append]
      have : [s].filter (fun s => decide (r - lb < s.t)) = [s] := by simp [ha]
      rw [this, getLast?_append_ne _ _ (by simp)]
      simp [Option.filter, ha]
    · have hmax := sorted_last_max hsL hl
      have : (ini ++ [s]).filter (fun s => decide (r - lb < s.t)) = [] :=
        filter_eq_nil_of (fun y hy => by have := hmax y hy; simp; omega)
      rw [this]
      simp [Option.filter, ha]

theorem jRange_eq_spec (series : Series) (lo hi : Int) :
    jWinOf (jRange series lo hi) = winSpec series lo hi := by
  unfold jWinOf jRange winSpec
  simp only [List.filter_filter]
  congr 1
  · apply List.filter_congr
    intro x _
    cases x.hist <;> cases x.stale <;> simp
  · apply List.filter_congr
    intro x _
    cases x.hist <;> cases x.stale <;> simp


/-- the judge's subquery grid: exactly the multiples of `s` in `(lo, hi]` -/
theorem jMultiples_spec (lo hi s : Int) (hs : 0 < s) (t : Int) :
    t ∈ jMultiples lo hi s ↔ (∃ k, t = s * k) ∧ lo < t ∧ t ≤ hi := by
  unfold jMultiples
  simp only
  have h1 : lo / s * s ≤ lo := Int.ediv_mul_le lo (by omega)
  have h2 : lo < (lo / s + 1) * s := Int.lt_ediv_add_one_mul_self lo hs
  have hf : s * (lo / s + 1) = (lo / s + 1) * s := Int.mul_comm _ _
  constructor
  · intro h
    split at h
    · simp at h
    · rename_i hge
      rw [List.mem_map] at h
      obtain ⟨i, hi', rfl⟩ := h
      rw [List.mem_range] at hi'
      have hnn : 0 ≤ (hi - s * (lo / s + 1)) / s := Int.ediv_nonneg (by omega) (by omega)
      have hile : (i : Int) ≤ (hi - s * (lo / s + 1)) / s := by omega
      have := (Int.le_ediv_iff_mul_le hs).mp hile
      have hnn2 : 0 ≤ s * (i : Int) := Int.mul_nonneg (by omega) (by omega)
      refine ⟨⟨lo / s + 1 + i, by rw [Int.mul_add (c := (i : Int))]⟩, by omega, ?_⟩
      rw [Int.mul_comm s (i : Int)]; omega
  · rintro ⟨⟨k, rfl⟩, hlo, hhi⟩
    have hk : lo / s + 1 ≤ k := by
      by_cases h : lo / s + 1 ≤ k
      · exact h
      · exfalso
        have h3 : k ≤ lo / s := by omega
        have h4 : s * k ≤ s * (lo / s) := Int.mul_le_mul_of_nonneg_left h3 (by omega)
        rw [Int.mul_comm s (lo / s)] at h4
        omega
    have hfirst : s * (lo / s + 1) ≤ s * k := Int.mul_le_mul_of_nonneg_left hk (by omega)
    have hnlt : ¬ hi < s * (lo / s + 1) := by omega
    simp only [hnlt, if_false]
    rw [List.mem_map]
    refine ⟨(k - (lo / s + 1)).toNat, ?_, ?_⟩
    · rw [List.mem_range]
      have hi2 : ((k - (lo / s + 1)).toNat : Int) = k - (lo / s + 1) := Int.toNat_of_nonneg (by omega)
      have : (k - (lo / s + 1)) * s ≤ hi - s * (lo / s + 1) := by
        rw [Int.sub_mul, Int.mul_comm k s, Int.mul_comm (lo / s + 1) s]; omega
      have := (Int.le_ediv_iff_mul_le hs).mpr this
      omega
    · rw [Int.toNat_of_nonneg (by omega), Int.mul_sub]; omega

end Prom.Selectors
