import PromProofs.DbRun
import PromProofs.IntervalsAdd
/-
  C01 refinement: discharging the coverage hypothesis of `DB.Delete` along histories.

  `TInv d`: every tombstone list in the state (head and blocks) is canonical (C20's `Canon`) with
  int64 endpoints, and every sample timestamp is ≥ MinInt64. `Intervals.add` is exact on such lists
  for VALID int64 intervals (C20 `add_correct`). Block stones are always valid; a head stone is valid
  iff the requested range meets the series' own range (`stonesValid`). When it does not, `Head.Delete`
  stores an INVERTED interval, the list stops being sorted and a later `Add` can lose coverage — in the
  model and in the real code alike (`C01.inverted_stone_violates_witness`).
-/
namespace Prom.Db
open Prom.Intervals

/-- C20's `add_correct` in the shape used here. -/
theorem addTomb_canon {ts : Intervals} {iv : Interval} (hc : Canon ts) (hr : AllI64 ts)
    (hn : I64 iv.mint ∧ I64 iv.maxt) (hv : iv.mint ≤ iv.maxt) :
    Canon (addTomb ts iv) ∧ AllI64 (addTomb ts iv) ∧ AddCoversAt ts iv := by
  obtain ⟨ys, hys, hcy, hcov⟩ := add_correct ts iv hc hr hv
  have hry := add_range ts ys iv hr hn hys
  have he : addTomb ts iv = ys := by unfold addTomb; rw [hys]
  rw [AddCoversAt, he]
  refine ⟨hcy, hry, ?_⟩
  intro t
  rw [Bool.eq_iff_iff, coversB_iff, hcov t, Bool.or_eq_true, coversB_iff, decide_eq_true_eq]

def TombsOk (ts : Intervals) : Prop := Canon ts ∧ AllI64 ts

theorem tombsOk_nil : TombsOk [] := ⟨canon_nil, fun x hx => by simp at hx⟩

theorem TombsOk.filter {ts : Intervals} (h : TombsOk ts) (p : Interval → Bool) : TombsOk (ts.filter p) :=
  ⟨⟨fun x hx => h.1.1 x (List.mem_filter.1 hx).1, List.Pairwise.filter p h.1.2⟩,
   fun x hx => h.2 x (List.mem_filter.1 hx).1⟩

/-- The tombstone invariant. -/
structure TInv (d : Db) : Prop where
  physMin : ∀ s ∈ d.series, ∀ x ∈ s.phys, MinI64 ≤ x.t
  blkMin : d.blkAll (fun x => MinI64 ≤ x.t)
  batchMin : ∀ p ∈ pendingOf d, MinI64 ≤ p.2.t
  headOk : ∀ s ∈ d.series, TombsOk s.tombs
  blkOk : ∀ b ∈ d.blocks, ∀ s ∈ b.series, TombsOk s.tombs

theorem tinv_init (cfg : Cfg) : TInv { cfg := cfg } :=
  ⟨fun s hs => by simp at hs, fun b hb => by simp at hb, fun p hp => by simp [pendingOf] at hp,
   fun s hs => by simp at hs, fun b hb => by simp at hb⟩

theorem TInv.congr {d d' : Db} (h : TInv d) (hs : d'.series = d.series) (hb : d'.blocks = d.blocks)
    (hp : ∀ p ∈ pendingOf d', p ∈ pendingOf d) : TInv d' :=
  ⟨hs ▸ h.physMin, by unfold Db.blkAll; rw [hb]; exact h.blkMin, fun p hp' => h.batchMin p (hp p hp'),
   hs ▸ h.headOk, hb ▸ h.blkOk⟩

/-! ### transactions -/

theorem begin_tinv {d : Db} (h : TInv d) : TInv d.begin := by
  unfold Db.begin
  split <;> exact h.congr rfl rfl (fun p hp => by simp [pendingOf] at hp)

theorem rollback_tinv {d : Db} (h : TInv d) : TInv d.rollback.1 := by
  unfold Db.rollback
  split
  · exact h
  · exact h.congr rfl rfl (fun p hp => by simp [pendingOf] at hp)

theorem append_blocks (d : Db) (i : Nat) (t : Int) (v : Nat) : (d.append i t v).1.blocks = d.blocks := by
  cases happ : d.app with
  | none =>
    have : d.append i t v = (d, .error .noapp) := by unfold Db.append; rw [happ]
    rw [this]
  | some a =>
    rcases append_some happ i t v with ⟨e, he⟩ | ⟨he, _⟩ <;> rw [he] <;> exact appD_blocks d a t

theorem append_pending (d : Db) (i : Nat) (t : Int) (v : Nat) :
    ∀ p ∈ pendingOf (d.append i t v).1, p ∈ pendingOf d ∨ p = (i, ⟨t, v⟩) := by
  cases happ : d.app with
  | none =>
    have : d.append i t v = (d, .error .noapp) := by unfold Db.append; rw [happ]
    rw [this]; intro p hp; exact Or.inl hp
  | some a =>
    have hpend : pendingOf d = a.batch := by unfold pendingOf; rw [happ]
    rcases append_some happ i t v with ⟨e, he⟩ | ⟨he, _⟩ <;> rw [he] <;> intro p hp
    · left; rw [hpend]; simpa [pendingOf, appA_batch] using hp
    · simp only [pendingOf, appA_batch, List.mem_append, List.mem_singleton] at hp
      rw [hpend]; exact hp

theorem append_tinv {d : Db} (h : TInv d) (i : Nat) (t : Int) (v : Nat) (ht : MinI64 ≤ t) :
    TInv (d.append i t v).1 :=
  ⟨by rw [append_series]; exact h.physMin,
   by unfold Db.blkAll; rw [append_blocks]; exact h.blkMin,
   fun p hp => by
     rcases append_pending d i t v p hp with hp | rfl
     · exact h.batchMin p hp
     · exact ht,
   by rw [append_series]; exact h.headOk,
   by rw [append_blocks]; exact h.blkOk⟩

/-- Per-series part of `TInv`. -/
def SerOk (s : HSeries) : Prop := (∀ x ∈ s.phys, MinI64 ≤ x.t) ∧ TombsOk s.tombs

theorem commitOne_serOk {s : HSeries} (hs : SerOk s) (x : Smp) (hx : MinI64 ≤ x.t) (a : App) (ow : Int) :
    SerOk (commitOne s x a ow).1 := by
  unfold commitOne
  split
  · split
    · split
      · exact hs
      · refine ⟨?_, hs.2⟩
        intro y hy
        simp only [List.mem_append, List.mem_singleton] at hy
        rcases hy with hy | rfl
        · exact hs.1 y hy
        · exact hx
    · refine ⟨?_, hs.2⟩
      intro y hy
      simp only [List.mem_singleton] at hy
      subst hy; exact hx
  · exact hs

theorem getSeries_serOk {d : Db} (h : ∀ s ∈ d.series, SerOk s) (i : Nat) : SerOk (d.getSeries i) := by
  rcases getSeries_cases d i with hc | hc
  · exact h _ hc.1
  · rw [hc.2]; exact ⟨fun x hx => by simp at hx, tombsOk_nil⟩

theorem commitStep_serOk (a : App) (acc : Db × Int × Int) (p : Nat × Smp) (hp : MinI64 ≤ p.2.t)
    (h : ∀ s ∈ acc.1.series, SerOk s) : ∀ s ∈ (commitStep a acc p).1.series, SerOk s := by
  unfold commitStep
  simp only
  split
  · intro s hs
    rw [mem_setSeries] at hs
    rcases hs with rfl | hs
    · exact commitOne_serOk (getSeries_serOk h _) _ hp _ _
    · exact h s hs.1
  · exact h

theorem commitFold_serOk (a : App) : ∀ (ps : List (Nat × Smp)) (acc : Db × Int × Int),
    (∀ p ∈ ps, MinI64 ≤ p.2.t) → (∀ s ∈ acc.1.series, SerOk s) →
    ∀ s ∈ (ps.foldl (commitStep a) acc).1.series, SerOk s
  | [], _, _, h => h
  | p :: ps, acc, hp, h =>
    commitFold_serOk a ps _ (fun q hq => hp q (by simp [hq]))
      (commitStep_serOk a acc p (hp p (by simp)) h)

theorem commitStep_blocks (a : App) (acc : Db × Int × Int) (p : Nat × Smp) :
    (commitStep a acc p).1.blocks = acc.1.blocks := by
  unfold commitStep; simp only; split
  · simp
  · rfl

theorem commitFold_blocks (a : App) : ∀ (ps : List (Nat × Smp)) (acc : Db × Int × Int),
    (ps.foldl (commitStep a) acc).1.blocks = acc.1.blocks
  | [], _ => rfl
  | p :: ps, acc => by
    rw [List.foldl_cons, commitFold_blocks a ps, commitStep_blocks]

theorem commit_tinv {d : Db} (h : TInv d) : TInv d.commit.1 := by
  cases happ : d.app with
  | none =>
    have : d.commit = (d, .error .noapp) := by unfold Db.commit; rw [happ]
    rw [this]; exact h
  | some a =>
    by_cases hb : a.batch = []
    · have : d.commit = ({ d with app := none }, .ok ()) := by
        unfold Db.commit; rw [happ]; simp [hb]
      rw [this]; exact h.congr rfl rfl (fun p hp => by simp [pendingOf] at hp)
    · rw [Db.commit_some d a happ hb]
      have hpend : pendingOf d = a.batch := by unfold pendingOf; rw [happ]
      have hser := commitFold_serOk a a.batch ({ d with wal := d.wal ++ [Rec.samples a.batch] }, MaxI64, MinI64)
        (fun p hp => h.batchMin p (by rw [hpend]; exact hp))
        (fun s hs => ⟨h.physMin s hs, h.headOk s hs⟩)
      have hblk := commitFold_blocks a a.batch ({ d with wal := d.wal ++ [Rec.samples a.batch] }, MaxI64, MinI64)
      simp only at hblk
      refine ⟨fun s hs => (hser s hs).1, ?_, fun p hp => by simp [pendingOf] at hp,
        fun s hs => (hser s hs).2, ?_⟩
      · intro b hb'; simp only at hb'; rw [hblk] at hb'; exact h.blkMin b hb'
      · intro b hb'; simp only at hb'; rw [hblk] at hb'; exact h.blkOk b hb'

/-! ### compaction, cleaning -/

theorem adjust_blocks (d3 : Db) : (adjust d3).blocks = d3.blocks := by
  unfold adjust; split
  · split <;> rfl
  · rfl

theorem adjust_app (d3 : Db) : (adjust d3).app = d3.app := by
  unfold adjust; split
  · split <;> rfl
  · rfl

theorem trunc_tinv {d1 : Db} (h1 : TInv d1) (happ1 : d1.app = none) (m : Int) : TInv (trunc d1 m) := by
  unfold trunc
  split
  · exact h1
  · refine ⟨?_, ?_, ?_, ?_, ?_⟩
    · intro s hs
      rw [adjust_series] at hs
      simp only [List.mem_filterMap] at hs
      obtain ⟨u, hu, hus⟩ := hs
      split at hus
      · simp at hus
      · simp only [Option.some.injEq] at hus
        subst hus
        intro x hx
        simp only [List.mem_filter] at hx
        exact h1.physMin u hu x hx.1
    · unfold Db.blkAll; rw [adjust_blocks]; exact h1.blkMin
    · intro p hp
      simp only [pendingOf, adjust_app, happ1] at hp
      simp at hp
    · intro s hs
      rw [adjust_series] at hs
      simp only [List.mem_filterMap] at hs
      obtain ⟨u, hu, hus⟩ := hs
      split at hus
      · simp at hus
      · simp only [Option.some.injEq] at hus
        subst hus
        exact (h1.headOk u hu).filter _
    · rw [adjust_blocks]; exact h1.blkOk

theorem compactHeadOnce_tinv {d : Db} (h : TInv d) (happ : d.app = none) :
    TInv d.compactHeadOnce := by
  rw [compactHeadOnce_eq0]
  apply trunc_tinv
  · split
    · exact h
    · refine ⟨h.physMin, ?_, ?_, h.headOk, ?_⟩
      · intro b hb s hs x hx
        simp only [List.mem_append, List.mem_singleton] at hb
        rcases hb with hb | rfl
        · exact h.blkMin b hb s hs x hx
        · obtain ⟨u, hu, _, rfl⟩ := mem_cBser.1 hs
          simp only [List.mem_filter] at hx
          exact h.physMin u hu x hx.1
      · intro p hp; simp [pendingOf, happ] at hp
      · intro b hb s hs
        simp only [List.mem_append, List.mem_singleton] at hb
        rcases hb with hb | rfl
        · exact h.blkOk b hb s hs
        · obtain ⟨u, hu, _, rfl⟩ := mem_cBser.1 hs
          exact tombsOk_nil
  · split <;> exact happ

theorem compactGo_tinv {r : Ref} : ∀ (fuel : Nat) (d : Db), Good d r → TInv d → d.app = none →
    TInv (Db.compact.go fuel d)
  | 0, _, _, h, _ => h
  | fuel + 1, d, hG, h, happ => by
    unfold Db.compact.go
    split
    · have := compactHeadOnce_preserves hG happ
      exact compactGo_tinv fuel _ this.1 (compactHeadOnce_tinv h happ) this.2
    · exact h

theorem compact_tinv {d : Db} {r : Ref} (hG : Good d r) (h : TInv d) (happ : d.app = none) :
    TInv d.compact := compactGo_tinv 64 d hG h happ

theorem cleantomb_tinv {d : Db} (h : TInv d) : TInv d.cleanTombstones := by
  refine ⟨h.physMin, clean_blkAll h.blkMin, h.batchMin, h.headOk, ?_⟩
  intro b' hb' s' hs'
  obtain ⟨b, hb, _, _, s, hs, _, hc⟩ := clean_sub hb' hs'
  rcases hc with rfl | ⟨_, h2⟩
  · exact h.blkOk b hb s' hs
  · rw [h2]; exact tombsOk_nil

/-! ### deletion -/

/-- The head stones of `DB.Delete a b sel` are valid intervals (`Mint ≤ Maxt`): the requested range
    meets the own range of every selected head series. Decidable. -/
def stonesValid (d : Db) (a b : Int) (sel : Option Nat) : Prop :=
  (d.minT ≤ b ∧ a ≤ d.maxT) → ∀ p ∈ delStones d a b sel, p.2.mint ≤ p.2.maxt

instance (d : Db) (a b : Int) (sel : Option Nat) : Decidable (stonesValid d a b sel) := by
  unfold stonesValid; infer_instance

/-- Since the F35 fix (`Head.Delete` skips a series the requested range misses) every logged head
    stone is valid. -/
theorem stonesValid_holds (d : Db) (a b : Int) (sel : Option Nat) : stonesValid d a b sel := by
  intro _ p hp
  rw [delStones_eq, List.mem_filterMap] at hp
  obtain ⟨u, _, hu⟩ := hp
  exact stoneOf_valid u p hu

theorem mem_delStones {d : Db} {a b : Int} {sel : Option Nat} {s : HSeries} (hs : s ∈ d.series)
    (hh : hitSel sel s.idx = true) {f l : Smp} (hf : s.phys.head? = some f) (hl : s.phys.getLast? = some l)
    (hval : (clampInterval (clampInterval a b d.minT d.maxT).1 (clampInterval a b d.minT d.maxT).2 f.t l.t).1 ≤
      (clampInterval (clampInterval a b d.minT d.maxT).1 (clampInterval a b d.minT d.maxT).2 f.t l.t).2) :
    (s.idx, (⟨(clampInterval (clampInterval a b d.minT d.maxT).1 (clampInterval a b d.minT d.maxT).2 f.t l.t).1,
              (clampInterval (clampInterval a b d.minT d.maxT).1 (clampInterval a b d.minT d.maxT).2 f.t l.t).2⟩ : Interval))
      ∈ delStones d a b sel := by
  rw [delStones_eq, List.mem_filterMap]
  refine ⟨s, hs, ?_⟩
  unfold stoneOf
  have : ¬ (clampInterval (clampInterval a b d.minT d.maxT).1 (clampInterval a b d.minT d.maxT).2 f.t l.t).1 >
      (clampInterval (clampInterval a b d.minT d.maxT).1 (clampInterval a b d.minT d.maxT).2 f.t l.t).2 := by omega
  simp only [hh, if_true, hf, hl, this, if_false]

/-- A valid head stone has int64 endpoints and ends at or before the newest sample. -/
theorem headStone_facts {d : Db} (hI : Inv d) (hT : TInv d) {s : HSeries} (hs : s ∈ d.series)
    {f l : Smp} (hf : s.phys.head? = some f) (hl : s.phys.getLast? = some l) (a b : Int)
    (hv : (clampInterval (clampInterval a b d.minT d.maxT).1 (clampInterval a b d.minT d.maxT).2 f.t l.t).1 ≤
          (clampInterval (clampInterval a b d.minT d.maxT).1 (clampInterval a b d.minT d.maxT).2 f.t l.t).2) :
    I64 (clampInterval (clampInterval a b d.minT d.maxT).1 (clampInterval a b d.minT d.maxT).2 f.t l.t).1 ∧
    I64 (clampInterval (clampInterval a b d.minT d.maxT).1 (clampInterval a b d.minT d.maxT).2 f.t l.t).2 := by
  have hfm : f ∈ s.phys := List.mem_of_mem_head? (by rw [hf]; rfl)
  have hlm : l ∈ s.phys := getLast?_mem hl
  have h1 := hT.physMin s hs f hfm
  have h2 := hI.physMax s hs l hlm
  revert hv
  simp only [clampInterval, I64]
  intro hv
  refine ⟨⟨?_, ?_⟩, ⟨?_, ?_⟩⟩ <;> (split at hv <;> split at hv <;> (try split) <;> (try split) <;> omega)

theorem delete_tinv_and_preserves {d : Db} {r : Ref} (hI : Inv d) (hS : Sim d r) (hT : TInv d)
    (a b : Int) (sel : Option Nat) :
    Inv (d.delete a b sel) ∧ Sim (d.delete a b sel) (r.del a b sel) ∧ TInv (d.delete a b sel) := by
  -- facts about each head stone
  have hhead : ∀ s ∈ d.series, hitSel sel s.idx = true → ∀ f l, s.phys.head? = some f → s.phys.getLast? = some l →
      (d.minT ≤ b ∧ a ≤ d.maxT) →
      (clampInterval (clampInterval a b d.minT d.maxT).1 (clampInterval a b d.minT d.maxT).2 f.t l.t).1 ≤
        (clampInterval (clampInterval a b d.minT d.maxT).1 (clampInterval a b d.minT d.maxT).2 f.t l.t).2 →
      TombsOk (addTomb s.tombs ⟨(clampInterval (clampInterval a b d.minT d.maxT).1 (clampInterval a b d.minT d.maxT).2 f.t l.t).1,
                           (clampInterval (clampInterval a b d.minT d.maxT).1 (clampInterval a b d.minT d.maxT).2 f.t l.t).2⟩) ∧
      AddCoversAt s.tombs ⟨(clampInterval (clampInterval a b d.minT d.maxT).1 (clampInterval a b d.minT d.maxT).2 f.t l.t).1,
                           (clampInterval (clampInterval a b d.minT d.maxT).1 (clampInterval a b d.minT d.maxT).2 f.t l.t).2⟩ := by
    intro s hs hh f l hf hl hov hval
    have hb := headStone_facts hI hT hs hf hl a b hval
    have := addTomb_canon (hT.headOk s hs).1 (hT.headOk s hs).2 (iv := ⟨_, _⟩) hb hval
    exact ⟨⟨this.1, this.2.1⟩, this.2.2⟩
  have hblk : ∀ blk ∈ d.blocks, ∀ s ∈ blk.series, hitSel sel s.idx = true → ∀ f l, s.smps.head? = some f →
      s.smps.getLast? = some l → (s.smps.any fun x => a ≤ x.t ∧ x.t ≤ b) = true →
      TombsOk (addTomb s.tombs ⟨(clampInterval a b f.t l.t).1, (clampInterval a b f.t l.t).2⟩) ∧
      AddCoversAt s.tombs ⟨(clampInterval a b f.t l.t).1, (clampInterval a b f.t l.t).2⟩ := by
    intro blk hb s hs _ f l hf hl hany
    have hfm : f ∈ s.smps := List.mem_of_mem_head? (by rw [hf]; rfl)
    have hlm : l ∈ s.smps := getLast?_mem hl
    simp only [List.any_eq_true, decide_eq_true_eq] at hany
    obtain ⟨x, hx, hxa, hxb⟩ := hany
    have h1 := (hI.blkInc blk hb s hs).head_le hf x hx
    have h2 := (hI.blkInc blk hb s hs).le_getLast hl x hx
    have h3 := hT.blkMin blk hb s hs f hfm
    have h4 := hI.blkMax blk hb s hs l hlm
    simp only at h3 h4
    have hval : (clampInterval a b f.t l.t).1 ≤ (clampInterval a b f.t l.t).2 := by
      simp only [clampInterval]; split <;> split <;> omega
    have hb64 : I64 (clampInterval a b f.t l.t).1 ∧ I64 (clampInterval a b f.t l.t).2 := by
      simp only [clampInterval, I64]
      refine ⟨⟨?_, ?_⟩, ⟨?_, ?_⟩⟩ <;> (split <;> omega)
    have := addTomb_canon (hT.blkOk blk hb s hs).1 (hT.blkOk blk hb s hs).2 (iv := ⟨_, _⟩) hb64 hval
    exact ⟨⟨this.1, this.2.1⟩, this.2.2⟩
  have hP := delete_preserves_at hI hS a b sel
    (fun s hs hh f l hf hl hov hval => (hhead s hs hh f l hf hl hov hval).2)
    (fun blk hb s hs hh f l hf hl hany => (hblk blk hb s hs hh f l hf hl hany).2)
  refine ⟨hP.1, hP.2, ?_⟩
  obtain ⟨_, _, _, _, e5⟩ := delete_scalars d a b sel
  -- the stone of a head series
  have hstone : ∀ s ∈ d.series, (delStones d a b sel).find? (fun p => p.1 = s.idx) = stoneOf d a b sel s := by
    intro s hs
    rw [delStones_eq]
    exact find_filterMap_key hI.idxNodup _ (fun u p hp => stoneOf_key u p hp) hs
  refine ⟨?_, ?_, ?_, ?_, ?_⟩
  · rw [delete_series]
    intro s' hs' x hx
    simp only [List.mem_map] at hs'
    obtain ⟨s, hs, rfl⟩ := hs'
    exact hT.physMin s hs x hx
  · unfold Db.blkAll
    rw [delete_blocks]
    intro blk' hb' s' hs' x hx
    simp only [List.mem_map] at hb'
    obtain ⟨blk, hb, rfl⟩ := hb'
    simp only [List.mem_map] at hs'
    obtain ⟨s, hs, rfl⟩ := hs'
    exact hT.blkMin blk hb s hs x hx
  · intro p hp
    have : pendingOf (d.delete a b sel) = pendingOf d := by unfold pendingOf; rw [e5]
    rw [this] at hp; exact hT.batchMin p hp
  · rw [delete_series]
    intro s' hs'
    simp only [List.mem_map] at hs'
    obtain ⟨s, hs, rfl⟩ := hs'
    show TombsOk (delHT d a b sel s)
    unfold delHT
    split
    · rename_i hov
      rw [hstone s hs]
      unfold stoneOf
      by_cases hh : hitSel sel s.idx = true
      · simp only [hh, if_true]
        cases hf : s.phys.head? with
        | none => exact hT.headOk s hs
        | some f =>
          cases hl : s.phys.getLast? with
          | none => exact hT.headOk s hs
          | some l =>
            simp only
            by_cases hinv : (clampInterval (clampInterval a b d.minT d.maxT).1 (clampInterval a b d.minT d.maxT).2 f.t l.t).1 >
                (clampInterval (clampInterval a b d.minT d.maxT).1 (clampInterval a b d.minT d.maxT).2 f.t l.t).2
            · simp only [hinv, if_true]; exact hT.headOk s hs
            · simp only [hinv, if_false]
              exact (hhead s hs hh f l hf hl hov (by omega)).1
      · simp only [hh, Bool.false_eq_true, if_false]; exact hT.headOk s hs
    · exact hT.headOk s hs
  · rw [delete_blocks]
    intro blk' hb' s' hs'
    simp only [List.mem_map] at hb'
    obtain ⟨blk, hb, rfl⟩ := hb'
    simp only [List.mem_map] at hs'
    obtain ⟨s, hs, rfl⟩ := hs'
    show TombsOk (delBT a b sel blk s)
    unfold delBT
    split
    · by_cases hh : hitSel sel s.idx = true
      · simp only [hh, if_true]
        unfold blockDeleteSeries
        cases hf : s.smps.head? with
        | none => exact hT.blkOk blk hb s hs
        | some f =>
          cases hl : s.smps.getLast? with
          | none => exact hT.blkOk blk hb s hs
          | some l =>
            simp only
            split
            · rename_i hany
              exact (hblk blk hb s hs hh f l hf hl hany).1
            · exact hT.blkOk blk hb s hs
      · simp only [hh, Bool.false_eq_true, if_false]; exact hT.blkOk blk hb s hs
    · exact hT.blkOk blk hb s hs

end Prom.Db
