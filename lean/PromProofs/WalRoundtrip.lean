import PromProofs.WalFrame
/-
  C13 helper lemmas: the chunk predicate `Reads`, its composition, and the writer invariant.
-/
namespace Prom.Wal

theorem mod_add_congr {t ps a n : Nat} (h : t % ps = a) (hlt : a < ps) :
    (t + n) % ps = (a + n) % ps := by
  rw [Nat.add_mod t, h, Nat.add_mod a n, Nat.mod_eq_of_lt hlt]

/-- `Reads a d a' out`: a reader between records (fragment index 0, empty buffer, last header not a
    `first`/`middle`) standing at in-page offset `a` consumes exactly `d`, returns the records `out`, and
    is again between records at in-page offset `a'` — whatever follows `d`. -/
def Reads (ps : Nat) (crc : Crc) (a : Nat) (d : Bytes) (a' : Nat) (out : List Bytes) : Prop :=
  ∀ (t : Nat) (ty : UInt8) (rest : Bytes), t % ps = a → NonTorn ty →
    ∃ ty', NonTorn ty' ∧ (t + d.length) % ps = a' ∧
      rloop ps crc ⟨t, 0, [], ty⟩ (d ++ rest) = prep out (rloop ps crc ⟨t + d.length, 0, [], ty'⟩ rest)

theorem Reads.nil (ps : Nat) (crc : Crc) (a : Nat) : Reads ps crc a [] a [] := by
  intro t ty rest ht hty
  exact ⟨ty, hty, by simpa using ht, by simp [prep]⟩

theorem Reads.append {ps : Nat} {crc : Crc} {a b c : Nat} {d1 d2 : Bytes} {o1 o2 : List Bytes}
    (h1 : Reads ps crc a d1 b o1) (h2 : Reads ps crc b d2 c o2) :
    Reads ps crc a (d1 ++ d2) c (o1 ++ o2) := by
  intro t ty rest ht hty
  obtain ⟨ty1, hty1, hb, e1⟩ := h1 t ty (d2 ++ rest) ht hty
  obtain ⟨ty2, hty2, hc, e2⟩ := h2 (t + d1.length) ty1 rest hb hty1
  refine ⟨ty2, hty2, ?_, ?_⟩
  · rw [List.length_append, ← Nat.add_assoc]; exact hc
  · rw [List.append_assoc, e1, e2]
    simp [prep, List.length_append, Nat.add_assoc]

/-- Page padding written by `flushPage(true)` on a page that holds data. -/
theorem Reads.zeros {ps : Nat} (crc : Crc) {a : Nat} (hpos : 0 < a) (hlt : a < ps) :
    Reads ps crc a (zeros (ps - a)) 0 [] := by
  intro t ty rest ht hty
  have hz := rstep_zeros ps crc ⟨t, 0, [], ty⟩ rest a ht hpos hlt
  refine ⟨recPageTerm, ⟨by decide, by decide⟩, ?_, ?_⟩
  · simp only [Wal.zeros, List.length_replicate]; exact mod_add_eq ht (by omega)
  · rw [rloop_of_cont hz (by simp [Wal.zeros]; omega)]
    simp [prep, Wal.zeros]

/-- One record as written by the fragment loop of `WL.log`. -/
theorem Reads.frag {ps : Nat} (crc : Crc) (h8 : 8 ≤ ps) (hmax : ps ≤ 65542) {a : Nat} (ha : a + 7 ≤ ps)
    (rec : Bytes) :
    ∃ a', a' + 7 ≤ ps ∧ Reads ps crc a (fragBytes ps crc (fragFuel rec) 0 a rec) a' [rec] := by
  -- the end offset does not depend on the reader; get it from t = a
  have hfuel : 2 * rec.length + (if ps - a - 7 = 0 then 1 else 0) + 1 ≤ fragFuel rec := by
    unfold fragFuel; split <;> omega
  obtain ⟨_, a', _, ha', hm, _⟩ := frag_reads ps crc h8 hmax (fragFuel rec) 0 a rec [] a 0 []
    (Nat.mod_eq_of_lt (by omega)) ha hfuel
  refine ⟨a', ha', ?_⟩
  intro t ty rest ht _
  obtain ⟨ty', a'', hty', _, hm', e⟩ := frag_reads ps crc h8 hmax (fragFuel rec) 0 a rec [] t ty rest ht ha hfuel
  refine ⟨ty', hty', ?_, by simpa using e⟩
  -- (t + n) % ps depends only on t % ps
  rw [← hm]; exact mod_add_congr ht (by omega)


theorem nonTorn_zero : NonTorn (0 : UInt8) := ⟨by decide, by decide⟩

theorem Reads.end_mod {ps : Nat} {crc : Crc} {d : Bytes} {a' : Nat} {out : List Bytes}
    (h : Reads ps crc 0 d a' out) : d.length % ps = a' := by
  obtain ⟨_, _, hm, _⟩ := h 0 0 [] (Nat.zero_mod _) nonTorn_zero
  simpa using hm

/-- A complete chunk read from the very beginning. -/
theorem Reads.rloop_eq {ps : Nat} {crc : Crc} {d : Bytes} {a' : Nat} {out : List Bytes}
    (h : Reads ps crc 0 d a' out) : rloop ps crc RState.init d = (out, .eof d.length) := by
  obtain ⟨ty', hty', _, e⟩ := h 0 0 [] (Nat.zero_mod _) nonTorn_zero
  rw [List.append_nil] at e
  rw [RState.init, e, rloop_nil]
  simp [prep, eofStatus_nonTorn hty']

/-- Writer invariant: every terminated segment is a complete, page-aligned chunk; so is the active
    segment up to an offset where a header fits; the records of the chunks are the records logged. -/
def Inv (ps : Nat) (crc : Crc) (st : WState) (recs : List Bytes) : Prop :=
  ∃ (sr : List (Bytes × List Bytes)) (rsCur : List Bytes) (a : Nat),
    st.done = sr.map Prod.fst ∧ (∀ p ∈ sr, Reads ps crc 0 p.1 0 p.2) ∧
    a + 7 ≤ ps ∧ Reads ps crc 0 st.cur a rsCur ∧
    (sr.map Prod.snd).flatten ++ rsCur = recs

theorem Inv.init (ps : Nat) (crc : Crc) (h8 : 8 ≤ ps) : Inv ps crc WState.init [] :=
  ⟨[], [], 0, rfl, by simp, by omega, Reads.nil ps crc 0, rfl⟩

theorem Inv.logRec {ps : Nat} {crc : Crc} (pps : Nat) (h8 : 8 ≤ ps) (hmax : ps ≤ 65542)
    {st : WState} {recs : List Bytes} (h : Inv ps crc st recs) (rec : Bytes) :
    Inv ps crc (logRec ps pps crc st rec) (recs ++ [rec]) := by
  obtain ⟨sr, rsCur, a, hdone, hsr, ha, hcur, hrecs⟩ := h
  have hmod : st.cur.length % ps = a := hcur.end_mod
  unfold Wal.logRec logStep applyStep
  by_cases hcut : (rec.length : Int) > leftInSegment ps pps st.cur.length
  · -- new segment
    simp only [hcut, if_true]
    obtain ⟨a', ha', hfrag⟩ := Reads.frag crc h8 hmax (a := 0) (by omega) rec
    have hclosed : Reads ps crc 0 (st.cur ++ Wal.zeros (if st.cur.length % ps > 0 then ps - st.cur.length % ps else 0)) 0 rsCur := by
      rw [hmod]
      by_cases hz : a > 0
      · simp only [hz, if_true]
        have := Reads.append hcur (Reads.zeros crc hz (by omega))
        simpa using this
      · have : a = 0 := by omega
        subst this
        simpa [Wal.zeros] using hcur
    refine ⟨sr ++ [(st.cur ++ Wal.zeros (if st.cur.length % ps > 0 then ps - st.cur.length % ps else 0), rsCur)],
      [rec], a', ?_, ?_, ha', hfrag, ?_⟩
    · simp [hdone]
    · intro p hp
      rcases List.mem_append.mp hp with hp | hp
      · exact hsr p hp
      · simp at hp; subst hp; exact hclosed
    · simp [← hrecs]
  · simp only [hcut, if_false]
    obtain ⟨a', ha', hfrag⟩ := Reads.frag crc h8 hmax ha rec
    rw [hmod]
    exact ⟨sr, rsCur ++ [rec], a', hdone, hsr, ha', Reads.append hcur hfrag, by simp [← hrecs]⟩

theorem Inv.logBatch {ps : Nat} {crc : Crc} (pps : Nat) (h8 : 8 ≤ ps) (hmax : ps ≤ 65542)
    (batch : List Bytes) : ∀ {st : WState} {recs : List Bytes}, Inv ps crc st recs →
    Inv ps crc (logBatch ps pps crc st batch) (recs ++ batch) := by
  induction batch with
  | nil => intro st recs h; simpa [Wal.logBatch] using h
  | cons r rs ih =>
    intro st recs h
    have := ih (Inv.logRec pps h8 hmax h r)
    simpa [Wal.logBatch, List.append_assoc] using this

theorem Inv.logBatches {ps : Nat} {crc : Crc} (pps : Nat) (h8 : 8 ≤ ps) (hmax : ps ≤ 65542)
    (batches : List (List Bytes)) : ∀ {st : WState} {recs : List Bytes}, Inv ps crc st recs →
    Inv ps crc (batches.foldl (Wal.logBatch ps pps crc) st) (recs ++ batches.flatten) := by
  induction batches with
  | nil => intro st recs h; simpa using h
  | cons b bs ih =>
    intro st recs h
    have := ih (Inv.logBatch pps h8 hmax b h)
    simpa [List.append_assoc] using this

theorem Inv.logAll {ps : Nat} {crc : Crc} (pps : Nat) (h8 : 8 ≤ ps) (hmax : ps ≤ 65542)
    (batches : List (List Bytes)) : Inv ps crc (logAll ps pps crc batches) batches.flatten := by
  simpa [Wal.logAll] using Inv.logBatches pps h8 hmax batches (Inv.init ps crc h8)

/-- After `Close`: the segment files are complete page-aligned chunks carrying exactly the records. -/
theorem Inv.segments {ps : Nat} {crc : Crc} {st : WState} {recs : List Bytes} (h : Inv ps crc st recs) :
    ∃ sr : List (Bytes × List Bytes), segments ps st = sr.map Prod.fst ∧
      (∀ p ∈ sr, Reads ps crc 0 p.1 0 p.2) ∧ (sr.map Prod.snd).flatten = recs := by
  obtain ⟨sr, rsCur, a, hdone, hsr, ha, hcur, hrecs⟩ := h
  have hmod : st.cur.length % ps = a := hcur.end_mod
  have hclosed : Reads ps crc 0 (closePad ps st.cur) 0 rsCur := by
    unfold closePad; rw [hmod]
    by_cases hz : a > 0
    · simp only [hz, if_true]
      simpa using Reads.append hcur (Reads.zeros crc hz (by omega))
    · have : a = 0 := by omega
      subst this; simpa using hcur
  refine ⟨sr ++ [(closePad ps st.cur, rsCur)], by simp [Wal.segments, hdone], ?_, by simp [← hrecs]⟩
  intro p hp
  rcases List.mem_append.mp hp with hp | hp
  · exact hsr p hp
  · simp at hp; subst hp; exact hclosed

theorem segPad_aligned {ps : Nat} {seg : Bytes} (h : seg.length % ps = 0) : segPad ps seg = seg := by
  simp [segPad, h]

/-- Page-aligned complete chunks concatenate. -/
theorem Reads.flatten {ps : Nat} {crc : Crc} :
    ∀ (sr : List (Bytes × List Bytes)), (∀ p ∈ sr, Reads ps crc 0 p.1 0 p.2) →
      Reads ps crc 0 (sr.map Prod.fst).flatten 0 (sr.map Prod.snd).flatten := by
  intro sr
  induction sr with
  | nil => intro _; simpa using Reads.nil ps crc 0
  | cons p sr ih =>
    intro h
    have h1 := h p (by simp)
    have h2 := ih (fun q hq => h q (by simp [hq]))
    simpa using Reads.append h1 h2

theorem segStream_aligned {ps : Nat} {crc : Crc} (sr : List (Bytes × List Bytes))
    (h : ∀ p ∈ sr, Reads ps crc 0 p.1 0 p.2) :
    segStream ps (sr.map Prod.fst) = (sr.map Prod.fst).flatten := by
  unfold segStream
  congr 1
  rw [List.map_map]
  apply List.map_congr_left
  intro p hp
  exact segPad_aligned (h p hp).end_mod

end Prom.Wal
