import PromModel.Remote.Otlp
/-
  Helper lemmas for C43: the loop invariant of `convertBucketsLayout`.
-/
namespace Prom.Otlp

/-! ### arithmetic shift -/

theorem two_pow_pos (k : Nat) : (0 : Int) < (2 : Int) ^ k := Int.pow_pos (by decide)

theorem shr_mono {a b : Int} (k : Nat) (h : a ≤ b) : shr a k ≤ shr b k :=
  Int.ediv_le_ediv (two_pow_pos k) h

theorem shr_step (a : Int) (k : Nat) : shr (a + 1) k ≤ shr a k + 1 := by
  have hp := two_pow_pos k
  have h1 : a + 1 ≤ a + 1 * (2 : Int) ^ k := by omega
  have h2 := Int.ediv_le_ediv hp h1
  rw [Int.add_mul_ediv_right a 1 (by omega)] at h2
  exact h2

theorem shr_zero (a : Int) : shr a 0 = a := by simp [shr]

theorem nextIdx_mono (offset : Int) (k : Nat) {i i' : Nat} (h : i ≤ i') :
    nextIdx offset k i ≤ nextIdx offset k i' := by
  unfold nextIdx
  have : (i : Int) + offset ≤ (i' : Int) + offset := by omega
  have := shr_mono k this
  omega

theorem nextIdx_step (offset : Int) (k : Nat) (i : Nat) :
    nextIdx offset k (i + 1) ≤ nextIdx offset k i + 1 := by
  unfold nextIdx
  have := shr_step ((i : Int) + offset) k
  have e : ((i + 1 : Nat) : Int) + offset = (i : Int) + offset + 1 := by omega
  rw [e]; omega

/-! ### list semantics -/

def lsum : List Int → Int
  | [] => 0
  | x :: xs => x + lsum xs

def totalLen : List Span → Nat
  | [] => 0
  | s :: ss => s.length + totalLen ss

def endCur (cur : Int) : List Span → Int
  | [] => cur
  | s :: ss => endCur (cur + s.offset + s.length) ss

theorem lsum_append (a b : List Int) : lsum (a ++ b) = lsum a + lsum b := by
  induction a with
  | nil => simp [lsum]
  | cons x xs ih => simp [lsum, ih]; omega

theorem totalLen_append (a b : List Span) : totalLen (a ++ b) = totalLen a + totalLen b := by
  induction a with
  | nil => simp [totalLen]
  | cons x xs ih => simp [totalLen, ih]; omega

theorem endCur_append (cur : Int) (a b : List Span) :
    endCur cur (a ++ b) = endCur (endCur cur a) b := by
  induction a generalizing cur with
  | nil => simp [endCur]
  | cons x xs ih => simp [endCur, ih]

theorem spanIdx_append (cur : Int) (a b : List Span) :
    spanIdx cur (a ++ b) = spanIdx cur a ++ spanIdx (endCur cur a) b := by
  induction a generalizing cur with
  | nil => simp [spanIdx, endCur]
  | cons x xs ih => simp [spanIdx, endCur, ih]

theorem spanIdx_length (cur : Int) (a : List Span) : (spanIdx cur a).length = totalLen a := by
  induction a generalizing cur with
  | nil => simp [spanIdx, totalLen]
  | cons x xs ih => simp [spanIdx, totalLen, ih]

theorem prefixSums_append (acc : Int) (a b : List Int) :
    prefixSums acc (a ++ b) = prefixSums acc a ++ prefixSums (acc + lsum a) b := by
  induction a generalizing acc with
  | nil => simp [prefixSums, lsum]
  | cons x xs ih => simp [prefixSums, lsum, ih, Int.add_assoc]

theorem prefixSums_length (acc : Int) (a : List Int) : (prefixSums acc a).length = a.length := by
  induction a generalizing acc with
  | nil => simp [prefixSums]
  | cons x xs ih => simp [prefixSums, ih]

theorem sumAt_append (j : Int) (a b : List (Int × Int)) : sumAt j (a ++ b) = sumAt j a + sumAt j b := by
  induction a with
  | nil => simp [sumAt]
  | cons x xs ih => simp [sumAt, ih]; omega

/-- total of the absolute counts of an entry list -/
def tot (es : List (Int × Int)) : Int := lsum (es.map (·.2))

theorem tot_append (a b : List (Int × Int)) : tot (a ++ b) = tot a + tot b := by
  simp [tot, lsum_append]

theorem refSum_append (P : Nat → Bool) (i : Nat) (a b : List Int) :
    refSum P i (a ++ b) = refSum P i a + refSum P (i + a.length) b := by
  induction a generalizing i with
  | nil => simp [refSum]
  | cons x xs ih =>
    simp [refSum, ih]
    have : i + 1 + xs.length = i + (xs.length + 1) := by omega
    rw [this]; omega

/-! ### denotation of a loop state -/

def St.layout (st : St) : List Span × List Int := (st.spans, st.deltas)
def St.endOf (st : St) : Int := endCur 0 st.spans
def St.bk (st : St) (j : Int) : Int := bucket st.layout j
def St.total (st : St) : Int := tot (entries st.layout)

/-- deltas and spans are aligned, and `prevCount` is the last absolute count. -/
structure Good (st : St) : Prop where
  len  : totalLen st.spans = st.deltas.length
  prev : st.prevCount = lsum st.deltas

/-- Effect of `appendDelta c` on the denotation. -/
theorem appendDelta_spec (st : St) (c : Int) (g : Good st) :
    Good (st.appendDelta c) ∧ (st.appendDelta c).endOf = st.endOf + 1 ∧
    (∀ j, (st.appendDelta c).bk j = st.bk j + (if st.endOf = j then c else 0)) ∧
    (st.appendDelta c).total = st.total + c := by
  obtain ⟨hlen, hprev⟩ := g
  have hspans : (st.appendDelta c).spans = st.done ++ [⟨st.cur.offset, st.cur.length + 1⟩] := rfl
  have hdel : (st.appendDelta c).deltas = st.deltas ++ [c - st.prevCount] := rfl
  have hlen0 : totalLen st.done + st.cur.length = st.deltas.length := by
    have := hlen; simp [St.spans, totalLen_append, totalLen] at this; omega
  have hend : st.endOf = endCur 0 st.done + st.cur.offset + st.cur.length := by
    simp [St.endOf, St.spans, endCur_append, endCur]
  have hidx : spanIdx 0 (st.appendDelta c).spans = spanIdx 0 st.spans ++ [st.endOf] := by
    rw [hspans, hend]
    simp [St.spans, spanIdx_append, spanIdx, List.range_succ, List.map_append]
  have hps : prefixSums 0 (st.appendDelta c).deltas = prefixSums 0 st.deltas ++ [c] := by
    rw [hdel, prefixSums_append]
    simp [prefixSums, hprev]
    omega
  have hent : entries (st.appendDelta c).layout = entries st.layout ++ [(st.endOf, c)] := by
    simp only [entries, St.layout]
    rw [hidx, hps, List.zip_append]
    · simp
    · rw [spanIdx_length, prefixSums_length]; exact hlen
  refine ⟨⟨?_, ?_⟩, ?_, ?_, ?_⟩
  · rw [hspans, hdel]; simp [totalLen_append, totalLen]; omega
  · show c = lsum (st.deltas ++ [c - st.prevCount])
    rw [lsum_append]; simp [lsum]; omega
  · rw [hend]; simp [St.endOf, hspans, endCur_append, endCur]; omega
  · intro j
    simp only [St.bk, bucket]
    rw [hent, sumAt_append]; simp [sumAt]
  · simp only [St.total]
    rw [hent, tot_append]; simp [tot, lsum]

@[simp] theorem appendDelta_count (st : St) (c : Int) : (st.appendDelta c).count = st.count := rfl
@[simp] theorem appendDelta_bucketIdx (st : St) (c : Int) : (st.appendDelta c).bucketIdx = st.bucketIdx := rfl
@[simp] theorem appendDelta_mergeIdx (st : St) (c : Int) : (st.appendDelta c).mergeIdx = st.mergeIdx := rfl
@[simp] theorem newSpan_count (st : St) (g : Int) : (st.newSpan g).count = st.count := rfl
@[simp] theorem newSpan_bucketIdx (st : St) (g : Int) : (st.newSpan g).bucketIdx = st.bucketIdx := rfl
@[simp] theorem newSpan_mergeIdx (st : St) (g : Int) : (st.newSpan g).mergeIdx = st.mergeIdx := rfl

theorem newSpan_spec (st : St) (gap : Int) (g : Good st) :
    Good (st.newSpan gap) ∧ (st.newSpan gap).endOf = st.endOf + gap ∧
    (∀ j, (st.newSpan gap).bk j = st.bk j) ∧ (st.newSpan gap).total = st.total := by
  obtain ⟨hlen, hprev⟩ := g
  have hspans : (st.newSpan gap).spans = st.spans ++ [⟨gap, 0⟩] := rfl
  have hdel : (st.newSpan gap).deltas = st.deltas := rfl
  have hidx : spanIdx 0 (st.newSpan gap).spans = spanIdx 0 st.spans := by
    rw [hspans, spanIdx_append]; simp [spanIdx]
  have hent : entries (st.newSpan gap).layout = entries st.layout := by
    simp only [entries, St.layout]; rw [hidx, hdel]
  refine ⟨⟨?_, ?_⟩, ?_, ?_, ?_⟩
  · rw [hspans, hdel, totalLen_append]; simp [totalLen]; exact hlen
  · exact hprev
  · simp [St.endOf, hspans, endCur_append, endCur]
  · intro j; simp only [St.bk, bucket]; rw [hent]
  · simp only [St.total]; rw [hent]

theorem fillZeros_fields (n : Nat) (st : St) :
    (St.fillZeros n st).count = st.count ∧ (St.fillZeros n st).bucketIdx = st.bucketIdx ∧
    (St.fillZeros n st).mergeIdx = st.mergeIdx := by
  induction n generalizing st with
  | zero => simp [St.fillZeros]
  | succ n ih => simp [St.fillZeros, ih]

theorem fillZeros_spec (n : Nat) (st : St) (g : Good st) :
    Good (St.fillZeros n st) ∧ (St.fillZeros n st).endOf = st.endOf + n ∧
    (∀ j, (St.fillZeros n st).bk j = st.bk j) ∧ (St.fillZeros n st).total = st.total := by
  induction n generalizing st with
  | zero => simp [St.fillZeros, g]
  | succ n ih =>
    obtain ⟨g1, e1, b1, t1⟩ := appendDelta_spec st 0 g
    obtain ⟨g2, e2, b2, t2⟩ := ih (st.appendDelta 0) g1
    refine ⟨g2, ?_, ?_, ?_⟩
    · simp only [St.fillZeros]; rw [e2, e1]; omega
    · intro j; simp only [St.fillZeros]; rw [b2, b1]; simp
    · simp only [St.fillZeros]; rw [t2, t1]; simp

theorem emitGap_fields (st : St) (gap : Int) :
    (st.emitGap gap).count = st.count ∧ (st.emitGap gap).bucketIdx = st.bucketIdx ∧
    (st.emitGap gap).mergeIdx = st.mergeIdx := by
  unfold St.emitGap
  split
  · simp
  · exact fillZeros_fields _ _

theorem emitGap_spec (st : St) (gap : Int) (h : 0 ≤ gap) (g : Good st) :
    Good (st.emitGap gap) ∧ (st.emitGap gap).endOf = st.endOf + gap ∧
    (∀ j, (st.emitGap gap).bk j = st.bk j) ∧ (st.emitGap gap).total = st.total := by
  unfold St.emitGap
  split
  · exact newSpan_spec st gap g
  · have := fillZeros_spec gap.toNat st g
    rw [Int.toNat_of_nonneg h] at this
    exact this

/-- `emitGap gap` followed by `appendDelta c`: the count `c` lands at index `endOf + gap`. -/
theorem flush_spec (st : St) (gap c : Int) (h : 0 ≤ gap) (g : Good st) :
    let st' := (st.emitGap gap).appendDelta c
    Good st' ∧ st'.endOf = st.endOf + gap + 1 ∧
    (∀ j, st'.bk j = st.bk j + (if st.endOf + gap = j then c else 0)) ∧
    st'.total = st.total + c ∧
    st'.count = st.count ∧ st'.bucketIdx = st.bucketIdx ∧ st'.mergeIdx = st.mergeIdx := by
  intro st'
  obtain ⟨g1, e1, b1, t1⟩ := emitGap_spec st gap h g
  obtain ⟨g2, e2, b2, t2⟩ := appendDelta_spec (st.emitGap gap) c g1
  obtain ⟨f1, f2, f3⟩ := emitGap_fields st gap
  refine ⟨g2, ?_, ?_, ?_, ?_, ?_, ?_⟩
  · show ((st.emitGap gap).appendDelta c).endOf = _
    rw [e2, e1]
  · intro j
    show ((st.emitGap gap).appendDelta c).bk j = _
    rw [b2, b1, e1]
  · show ((st.emitGap gap).appendDelta c).total = _
    rw [t2, t1]
  · simp [st', f1]
  · simp [st', f2]
  · simp [st', f3]

/-! ### the loop invariant -/

/-- the two assignments after a flush -/
def St.setCB (st : St) (c b : Int) : St := { st with count := c, bucketIdx := b }
theorem setCB_endOf (st : St) (c b : Int) : (st.setCB c b).endOf = st.endOf := rfl
theorem setCB_bk (st : St) (c b j : Int) : (st.setCB c b).bk j = st.bk j := rfl
theorem setCB_total (st : St) (c b : Int) : (st.setCB c b).total = st.total := rfl
theorem setCB_mergeIdx (st : St) (c b : Int) : (st.setCB c b).mergeIdx = st.mergeIdx := rfl
theorem setCB_bucketIdx (st : St) (c b : Int) : (st.setCB c b).bucketIdx = b := rfl
theorem setCB_count (st : St) (c b : Int) : (st.setCB c b).count = c := rfl

/-- `bucketIdx - endOf` is constant: 0 with `adjustOffset`, `offset>>k + 1 - offset` without. -/
def shiftOf (offset : Int) (k : Nat) (adj : Bool) : Int :=
  shr offset k + 1 - (if adj then shr offset k + 1 else offset)

structure Inv (offset : Int) (k : Nat) (shift : Int) (pre : List Int) (st : St) : Prop where
  good  : Good st
  endEq : st.endOf = st.bucketIdx - shift
  le    : st.bucketIdx ≤ st.mergeIdx
  merge : st.mergeIdx = nextIdx offset k (pre.length - 1)
  first : pre.length = 0 → st.bucketIdx = st.mergeIdx
  sem   : ∀ j, st.bk j + (if st.mergeIdx - shift = j then st.count else 0)
            = refSum (fun i => decide (nextIdx offset k i - shift = j)) 0 pre
  total : st.total + st.count = lsum pre

theorem inv_init (offset : Int) (k : Nat) (adj : Bool) :
    Inv offset k (shiftOf offset k adj) [] (initSt offset k adj) := by
  refine ⟨⟨?_, ?_⟩, ?_, ?_, ?_, ?_, ?_, ?_⟩
  · simp [initSt, St.spans, totalLen]
  · simp [initSt, lsum]
  · simp [initSt, St.endOf, St.spans, endCur, shiftOf]; omega
  · simp [initSt]
  · simp [initSt, nextIdx]
  · intro _; simp [initSt]
  · intro j
    have h0 : (initSt offset k adj).bk j = 0 := by
      simp [initSt, St.bk, bucket, entries, St.layout, St.spans, spanIdx, prefixSums, sumAt]
    rw [h0]
    show (0 : Int) + (if _ then (0 : Int) else 0) = refSum _ 0 []
    simp [refSum]
  · simp [initSt, St.total, entries, St.layout, St.spans, spanIdx, prefixSums, tot, lsum]

theorem inv_step (fixed : Bool) (offset : Int) (k : Nat) (shift : Int) (hfk : fixed = true ∨ k = 0)
    (pre : List Int) (c : Int) (st : St) (inv : Inv offset k shift pre st) :
    Inv offset k shift (pre ++ [c]) (step fixed offset k pre.length c st) := by
  obtain ⟨good, endEq, le, merge, first, sem, total⟩ := inv
  have hmono : st.mergeIdx ≤ nextIdx offset k pre.length := by
    rw [merge]; exact nextIdx_mono offset k (by omega)
  have hstep : nextIdx offset k pre.length ≤ st.mergeIdx + 1 := by
    rw [merge]
    cases hl : pre.length with
    | zero => simp; omega
    | succ n => simp; exact nextIdx_step offset k n
  -- under `fixed ∨ k = 0` the merge test is the test against `mergeIdx`
  have htest : ((if fixed then st.mergeIdx else st.bucketIdx) = nextIdx offset k pre.length)
      ↔ st.mergeIdx = nextIdx offset k pre.length := by
    cases fixed with
    | true => simp
    | false =>
      have hk : k = 0 := by cases hfk with
        | inl h => cases h
        | inr h => exact h
      subst hk
      simp only [Bool.false_eq_true, if_false]
      cases hl : pre.length with
      | zero => rw [first hl]
      | succ n =>
        have hm : st.mergeIdx = nextIdx offset 0 n := by rw [merge, hl]; simp
        have e1 : nextIdx offset 0 (n + 1) = nextIdx offset 0 n + 1 := by
          simp only [nextIdx, shr_zero]; omega
        rw [e1]; constructor <;> intro h <;> omega
  have hlen : (pre ++ [c]).length - 1 = pre.length := by simp
  have hsemApp : ∀ j, refSum (fun i => decide (nextIdx offset k i - shift = j)) 0 (pre ++ [c])
      = refSum (fun i => decide (nextIdx offset k i - shift = j)) 0 pre
        + (if nextIdx offset k pre.length - shift = j then c else 0) := by
    intro j; rw [refSum_append]; simp [refSum]
  have hsumApp : lsum (pre ++ [c]) = lsum pre + c := by rw [lsum_append]; simp [lsum]
  by_cases hm : st.mergeIdx = nextIdx offset k pre.length
  · -- merge into the pending bucket
    have hs : step fixed offset k pre.length c st = { st with count := st.count + c } := by
      unfold step; simp only []; rw [if_pos (htest.mpr hm)]
    rw [hs]
    refine ⟨⟨good.len, good.prev⟩, endEq, le, ?_, ?_, ?_, ?_⟩
    · rw [hlen]; exact hm
    · intro h; simp at h
    · intro j
      rw [hsemApp j, ← sem j, ← hm]
      show st.bk j + (if st.mergeIdx - shift = j then st.count + c else 0) = _
      split <;> omega
    · show st.total + (st.count + c) = _
      rw [hsumApp]; omega
  · have hnext : nextIdx offset k pre.length = st.mergeIdx + 1 := by omega
    by_cases hc : st.count = 0
    · -- empty pending bucket: skip it
      have hs : step fixed offset k pre.length c st
          = { st with mergeIdx := nextIdx offset k pre.length, count := c } := by
        unfold step; simp only []; rw [if_neg (fun h => hm (htest.mp h)), if_pos hc]
      rw [hs]
      refine ⟨⟨good.len, good.prev⟩, endEq, ?_, ?_, ?_, ?_, ?_⟩
      · show st.bucketIdx ≤ nextIdx offset k pre.length; omega
      · rw [hlen]
      · intro h; simp at h
      · intro j
        rw [hsemApp j, ← sem j, hc]
        show st.bk j + (if nextIdx offset k pre.length - shift = j then c else 0) = _
        simp
      · show st.total + c = _
        rw [hsumApp, ← total, hc]; omega
    · -- flush the pending bucket
      have hgap : 0 ≤ nextIdx offset k pre.length - st.bucketIdx - 1 := by omega
      have good2 : Good { st with mergeIdx := nextIdx offset k pre.length } := ⟨good.len, good.prev⟩
      obtain ⟨g', e', b', t', _, _, m'⟩ :=
        flush_spec { st with mergeIdx := nextIdx offset k pre.length }
          (nextIdx offset k pre.length - st.bucketIdx - 1) st.count hgap good2
      have hs : step fixed offset k pre.length c st
          = St.setCB ((({ st with mergeIdx := nextIdx offset k pre.length } : St).emitGap
                (nextIdx offset k pre.length - st.bucketIdx - 1)).appendDelta st.count)
              c (nextIdx offset k pre.length) := by
        unfold step; simp only []; rw [if_neg (fun h => hm (htest.mp h)), if_neg hc]; rfl
      rw [hs]
      refine ⟨⟨g'.len, g'.prev⟩, ?_, ?_, ?_, ?_, ?_, ?_⟩
      · rw [setCB_endOf, setCB_bucketIdx, e']
        show st.endOf + _ + 1 = _
        rw [endEq]; omega
      · rw [setCB_bucketIdx, setCB_mergeIdx, m']
        show _ ≤ nextIdx offset k pre.length; omega
      · rw [setCB_mergeIdx, m', hlen]
      · intro h; simp at h
      · intro j
        rw [hsemApp j, ← sem j, setCB_bk, setCB_mergeIdx, setCB_count, b' j, m']
        show st.bk j + (if st.endOf + _ = j then st.count else 0)
          + (if nextIdx offset k pre.length - shift = j then c else 0) = _
        rw [endEq]
        have : st.bucketIdx - shift + (nextIdx offset k pre.length - st.bucketIdx - 1) = st.mergeIdx - shift := by omega
        rw [this]
      · rw [setCB_total, setCB_count, t', hsumApp, ← total]; rfl

theorem inv_loop (fixed : Bool) (offset : Int) (k : Nat) (shift : Int) (hfk : fixed = true ∨ k = 0)
    (cs pre : List Int) (st : St) (inv : Inv offset k shift pre st) :
    Inv offset k shift (pre ++ cs) (loop fixed offset k pre.length cs st) := by
  induction cs generalizing pre st with
  | nil => simpa [loop] using inv
  | cons c cs ih =>
    have h1 := inv_step fixed offset k shift hfk pre c st inv
    have h2 := ih (pre ++ [c]) _ h1
    simp only [List.length_append, List.length_cons, List.length_nil, Nat.zero_add] at h2
    simpa [loop, List.append_assoc] using h2

/-- Semantics and total of the layout produced by `convertG`, for the repaired code and any `k`, or
    for the code as found and `k = 0`. -/
theorem convertG_sem (fixed : Bool) (counts : List Int) (offset : Int) (k : Nat) (adj : Bool)
    (hfk : fixed = true ∨ k = 0) :
    (∀ j, bucket (convertG fixed counts offset k adj) j
        = refSum (fun i => decide (nextIdx offset k i - shiftOf offset k adj = j)) 0 counts) ∧
    tot (entries (convertG fixed counts offset k adj)) = lsum counts ∧
    totalLen (convertG fixed counts offset k adj).1 = (convertG fixed counts offset k adj).2.length := by
  cases hc : counts with
  | nil => simp [convertG, bucket, entries, spanIdx, prefixSums, sumAt, refSum, tot, lsum, totalLen]
  | cons c0 cs0 =>
    have inv := inv_loop fixed offset k (shiftOf offset k adj) hfk counts [] _ (inv_init offset k adj)
    simp only [List.nil_append, List.length_nil] at inv
    rw [hc] at inv
    obtain ⟨good, endEq, le, merge, _, sem, total⟩ := inv
    generalize hst : loop fixed offset k 0 (c0 :: cs0) (initSt offset k adj) = st at *
    have hgapEq : shr (((c0 :: cs0).length : Nat) + offset - 1) k + 1 - st.bucketIdx
        = st.mergeIdx - st.bucketIdx := by
      rw [merge]; simp only [nextIdx, List.length_cons]
      have : ((cs0.length + 1 : Nat) : Int) + offset - 1 = ((cs0.length + 1 - 1 : Nat) : Int) + offset := by
        simp; omega
      rw [this]
    obtain ⟨g', e', b', t', _, _, _⟩ :=
      flush_spec st (st.mergeIdx - st.bucketIdx) st.count (by omega) good
    have hconv : convertG fixed (c0 :: cs0) offset k adj
        = ((st.emitGap (st.mergeIdx - st.bucketIdx)).appendDelta st.count).layout := by
      simp only [convertG, finish, hst, St.layout]
      rw [hgapEq]
    rw [hconv]
    refine ⟨?_, ?_, ?_⟩
    · intro j
      have := b' j
      simp only [St.bk] at this
      rw [this, ← sem j, endEq]
      have : st.bucketIdx - shiftOf offset k adj + (st.mergeIdx - st.bucketIdx) = st.mergeIdx - shiftOf offset k adj := by omega
      rw [this]; rfl
    · have := t'
      simp only [St.total] at this
      rw [this]; exact total
    · exact g'.len

/-! ### span well-formedness -/

def SpanOK (s : Span) : Prop := 2 < s.offset ∧ 1 ≤ s.length

/-- every span after the first starts after a gap of more than two buckets; all but possibly the
    current one are non-empty (`strict`: the current one too). -/
def Wk (strict : Bool) (st : St) : Prop :=
  (∀ s ∈ st.done.drop 1, SpanOK s) ∧ (st.done ≠ [] → 2 < st.cur.offset ∧ (strict = true → 1 ≤ st.cur.length))

theorem wk_appendDelta (st : St) (c : Int) (h : Wk false st) : Wk true (st.appendDelta c) := by
  obtain ⟨h1, h2⟩ := h
  refine ⟨h1, fun hd => ?_⟩
  have := h2 hd
  exact ⟨this.1, fun _ => by show 1 ≤ st.cur.length + 1; omega⟩

theorem wk_weaken (st : St) (h : Wk true st) : Wk false st :=
  ⟨h.1, fun hd => ⟨(h.2 hd).1, fun h => by cases h⟩⟩

theorem wk_newSpan (st : St) (gap : Int) (hg : 2 < gap) (h : Wk true st) : Wk false (st.newSpan gap) := by
  obtain ⟨h1, h2⟩ := h
  refine ⟨?_, fun _ => ⟨hg, fun h => by cases h⟩⟩
  intro s hs
  show SpanOK s
  have hs' : s ∈ (st.done ++ [st.cur]).drop 1 := hs
  cases hd : st.done with
  | nil => rw [hd] at hs'; simp at hs'
  | cons d ds =>
    rw [hd] at hs'
    simp at hs'
    cases hs' with
    | inl h => exact h1 s (by rw [hd]; simpa using h)
    | inr h =>
      have := h2 (by rw [hd]; simp)
      rw [h]; exact ⟨this.1, this.2 rfl⟩

theorem wk_fillZeros (n : Nat) (st : St) (h : Wk true st) : Wk true (St.fillZeros n st) := by
  induction n generalizing st with
  | zero => exact h
  | succ n ih => exact ih _ (wk_appendDelta st 0 (wk_weaken st h))

theorem wk_flush (st : St) (gap c : Int) (h : Wk true st) : Wk true ((st.emitGap gap).appendDelta c) := by
  apply wk_appendDelta
  unfold St.emitGap
  split
  · rename_i hg; exact wk_newSpan st gap hg h
  · exact wk_weaken _ (wk_fillZeros _ st h)

theorem wk_congr (b : Bool) (st st' : St) (hd : st'.done = st.done) (hc : st'.cur = st.cur) (h : Wk b st) : Wk b st' := by
  unfold Wk; rw [hd, hc]; exact h

theorem wk_step (fixed : Bool) (offset : Int) (k i : Nat) (c : Int) (st : St) (h : Wk true st) :
    Wk true (step fixed offset k i c st) := by
  unfold step
  simp only []
  by_cases h1 : (if fixed = true then st.mergeIdx else st.bucketIdx) = nextIdx offset k i
  · rw [if_pos h1]; exact wk_congr _ st _ rfl rfl h
  · rw [if_neg h1]
    by_cases h2 : st.count = 0
    · rw [if_pos h2]; exact wk_congr _ st _ rfl rfl h
    · rw [if_neg h2]
      refine wk_congr _ (( ({ st with mergeIdx := nextIdx offset k i } : St).emitGap (nextIdx offset k i - st.bucketIdx - 1)).appendDelta st.count) _ rfl rfl ?_
      exact wk_flush _ _ _ (wk_congr _ st _ rfl rfl h)

theorem wk_loop (fixed : Bool) (offset : Int) (k : Nat) (cs : List Int) (i : Nat) (st : St) (h : Wk true st) :
    Wk true (loop fixed offset k i cs st) := by
  induction cs generalizing i st with
  | nil => exact h
  | cons c cs ih => exact ih _ _ (wk_step fixed offset k i c st h)

theorem convertG_wf (fixed : Bool) (counts : List Int) (offset : Int) (k : Nat) (adj : Bool) :
    ∀ s ∈ (convertG fixed counts offset k adj).1.drop 1, 2 < s.offset ∧ 1 ≤ s.length := by
  cases counts with
  | nil => simp [convertG]
  | cons c0 cs0 =>
    have h0 : Wk true (initSt offset k adj) := ⟨by simp [initSt], by simp [initSt]⟩
    have h1 := wk_loop fixed offset k (c0 :: cs0) 0 _ h0
    have h2 := wk_flush _ (shr (((c0 :: cs0).length : Nat) + offset - 1) k + 1
      - (loop fixed offset k 0 (c0 :: cs0) (initSt offset k adj)).bucketIdx) 
      (loop fixed offset k 0 (c0 :: cs0) (initSt offset k adj)).count h1
    intro s hs
    have hs' : s ∈ (((finish offset k (c0 :: cs0).length (loop fixed offset k 0 (c0 :: cs0) (initSt offset k adj)))).spans).drop 1 := hs
    generalize hst : finish offset k (c0 :: cs0).length (loop fixed offset k 0 (c0 :: cs0) (initSt offset k adj)) = st at hs'
    have h2' : Wk true st := by rw [← hst]; exact h2
    obtain ⟨a, b⟩ := h2'
    simp only [St.spans] at hs'
    cases hd : st.done with
    | nil => rw [hd] at hs'; simp at hs'
    | cons d ds =>
      rw [hd] at hs'
      simp at hs'
      cases hs' with
      | inl h => exact a s (by rw [hd]; simpa using h)
      | inr h =>
        have := b (by rw [hd]; simp)
        rw [h]; exact ⟨this.1, this.2 rfl⟩


/-! ### custom buckets -/

theorem refSum_shift (P : Nat → Bool) (a i0 : Nat) (cs : List Int) :
    refSum (fun i => P (i + a)) i0 cs = refSum P (i0 + a) cs := by
  induction cs generalizing i0 with
  | nil => simp [refSum]
  | cons c cs ih =>
    simp only [refSum, ih]
    have : i0 + 1 + a = i0 + a + 1 := by omega
    rw [this]

theorem refSum_point (j i0 : Nat) (cs : List Int) :
    refSum (fun i => decide (i = j)) i0 cs = if i0 ≤ j then cs.getD (j - i0) 0 else 0 := by
  induction cs generalizing i0 with
  | nil => simp [refSum]
  | cons c cs ih =>
    simp only [refSum, ih]
    by_cases h1 : i0 = j
    · subst h1
      have h3 : ¬ i0 + 1 ≤ i0 := by omega
      simp [h3]
    · by_cases h2 : i0 < j
      · have e : j - i0 = (j - (i0 + 1)) + 1 := by omega
        have h3 : i0 + 1 ≤ j := h2
        have h4 : i0 ≤ j := by omega
        rw [e]; simp [h1, h3, h4]
      · have h3 : ¬ i0 + 1 ≤ j := by omega
        have h4 : ¬ i0 ≤ j := by omega
        simp [h1, h3, h4]

theorem getD_lt_bucketOffset (cs : List Int) (j : Nat) (h : j < bucketOffset cs) : cs.getD j 0 = 0 := by
  induction cs generalizing j with
  | nil => simp
  | cons c cs ih =>
    simp only [bucketOffset] at h
    split at h
    · rename_i hc
      cases j with
      | zero => simpa using hc
      | succ j => simp; have := ih j (by omega); simpa using this
    · omega

theorem getD_drop (cs : List Int) (a j : Nat) : (cs.drop a).getD j 0 = cs.getD (a + j) 0 := by
  simp [List.getD_eq_getElem?_getD]

/-- de-sparsified custom-bucket layout: bucket `j` holds `counts[j]`. -/
theorem custom_bucket_eq (fixed : Bool) (cs : List Int) (j : Nat) :
    bucket (convertG fixed (cs.drop (bucketOffset cs)) (bucketOffset cs) 0 false) j = cs.getD j 0 := by
  have h := (convertG_sem fixed (cs.drop (bucketOffset cs)) (bucketOffset cs) 0 false (Or.inr rfl)).1 j
  rw [h]
  have e : (fun i : Nat => decide (nextIdx (bucketOffset cs) 0 i - shiftOf (bucketOffset cs) 0 false = (j : Int)))
      = (fun i : Nat => (fun i' : Nat => decide (i' = j)) (i + bucketOffset cs)) := by
    funext i
    apply decide_eq_decide.mpr
    simp only [nextIdx, shiftOf, shr_zero, Bool.false_eq_true, if_false]
    constructor <;> intro h <;> omega
  rw [e, refSum_shift (fun i' : Nat => decide (i' = j)) (bucketOffset cs) 0, refSum_point]
  by_cases hj : bucketOffset cs ≤ j
  · simp only [Nat.zero_add, hj, if_true, getD_drop]
    congr 1; omega
  · simp only [Nat.zero_add, hj, if_false]
    exact (getD_lt_bucketOffset cs j (by omega)).symm

end Prom.Otlp
