import PromModel.Tsdb.HeadChunkFile
import PromProofs.Enc
/-
  Helper lemmas for C25 (head chunk files): list lemmas about `takeWhile`, the byte-level round trip of one
  record through `readAt` / `iterFile`.
-/
namespace Prom.Hcf
open Prom.Enc

theorem take_takeWhile_length {α} (p : α → Bool) (l : List α) : l.take (l.takeWhile p).length = l.takeWhile p := by
  induction l with
  | nil => rfl
  | cons a t ih => by_cases h : p a <;> simp [List.takeWhile, h, ih]

theorem mem_takeWhile_true {α} (p : α → Bool) (l : List α) (x : α) (h : x ∈ l.takeWhile p) : p x = true := by
  induction l with
  | nil => simp at h
  | cons a t ih =>
    by_cases ha : p a
    · simp [List.takeWhile, ha] at h
      rcases h with h | h
      · subst h; exact ha
      · exact ih h
    · simp [List.takeWhile, ha] at h

theorem mem_drop_takeWhile {α} (p : α → Bool) (l : List α) (x : α) (hx : x ∈ l) (hp : p x = false) :
    x ∈ l.drop (l.takeWhile p).length := by
  induction l with
  | nil => simp at hx
  | cons a t ih =>
    by_cases ha : p a
    · simp [List.takeWhile, ha]
      rcases List.mem_cons.1 hx with h | h
      · subst h; simp [hp] at ha
      · exact ih h
    · simp [List.takeWhile, ha]; simpa using hx

theorem drop_app_len {α} (a b : List α) (n : Nat) (h : a.length = n) : (a ++ b).drop n = b := by
  subst h; simp
theorem take_app_len {α} (a b : List α) (n : Nat) (h : a.length = n) : (a ++ b).take n = a := by
  subst h; simp

theorem putUvarintAux_len_le (f : Nat) : ∀ (k n : Nat), n < 128 ^ k → 1 ≤ k → k ≤ f + 1 → (putUvarintAux f n).length ≤ k := by
  induction f with
  | zero => intro k n _ hk _; simp [putUvarintAux]; omega
  | succ f ih =>
    intro k n hn hk hkf
    unfold putUvarintAux
    split
    · simp; omega
    · rename_i h128
      have hk2 : 2 ≤ k := by
        rcases Nat.lt_or_ge k 2 with h | h
        · have : k = 1 := by omega
          subst this; simp at hn; omega
        · exact h
      have : n / 128 < 128 ^ (k - 1) := by
        have : 128 ^ k = 128 ^ (k - 1) * 128 := by
          rw [← Nat.pow_succ]; congr 1; omega
        rw [this] at hn
        exact Nat.div_lt_of_lt_mul (by rw [Nat.mul_comm]; exact hn)
      have := ih (k - 1) (n / 128) this (by omega) (by omega)
      simp; omega

theorem uvarintSize_le5 (n : Nat) (h : n < 34359738368) : uvarintSize n ≤ 5 :=
  putUvarintAux_len_le 9 5 n (by simpa using h) (by omega) (by omega)

theorem uvarintSize_pos (n : Nat) : 1 ≤ uvarintSize n := by
  unfold uvarintSize
  have := putUvarint_ne_nil n
  cases h : putUvarint n with
  | nil => exact absurd h this
  | cons a t => simp

theorem getU5_put (n : Nat) (rest : Bytes) (h : n < 34359738368) :
    getU5 (putUvarint n ++ rest) = (n, uvarintSize n) := by
  have h5 := uvarintSize_le5 n h
  unfold uvarintSize at h5
  unfold getU5
  have ht : (putUvarint n ++ rest).take 5 = putUvarint n ++ rest.take (5 - (putUvarint n).length) := by
    rw [List.take_append, List.take_of_length_le h5]
  rw [ht, getUvarint_putUvarint (by unfold U64; omega)]
  simp [uvarintSize]

structure WFc (c : Chunk) : Prop where
  sref : c.sref < 18446744073709551616
  mint : I64 c.mint
  maxt : I64 c.maxt
  enc : c.enc < 128
  len : c.data.length < 4294967296

theorem recBody_length (c : Chunk) : (recBody c).length = 25 + uvarintSize c.data.length + c.data.length := by
  simp [recBody, putBE64_length, uvarintSize]; omega

theorem encodeRecord_length (crc : Crc) (c : Chunk) : (encodeRecord crc c).length = recLen c := by
  simp [encodeRecord, recBody_length, recLen, Wal.be32]

theorem encByte_lt (c : Chunk) : encByte c < 256 := by unfold encByte; split <;> omega
theorem encByte_mod (c : Chunk) (h : c.enc < 128) : encByte c % 128 = c.enc := by unfold encByte; split <;> omega
theorem encByte_ooo (c : Chunk) (h : c.enc < 128) : decide (encByte c ≥ 128) = c.ooo := by
  have hm : c.enc % 256 = c.enc := Nat.mod_eq_of_lt (by omega)
  unfold encByte; rw [hm]
  cases c.ooo
  · simp; omega
  · simp [h]

/-- the bytes after the three 8-byte fields -/
def tailEnc (crc : Crc) (c : Chunk) (tail : Bytes) : Bytes :=
  UInt8.ofNat (encByte c) :: (putUvarint c.data.length ++ (c.data ++ (Wal.be32 (crc (recBody c)) ++ tail)))

theorem record_view (crc : Crc) (c : Chunk) (tail : Bytes) :
    encodeRecord crc c ++ tail =
      putBE64 c.sref ++ (putBE64 (toU64 c.mint) ++ (putBE64 (toU64 c.maxt) ++ tailEnc crc c tail)) := by
  simp [encodeRecord, recBody, tailEnc, List.append_assoc]

theorem iter_step (crc : Crc) (seq fuel pos : Nat) (c : Chunk) (tail : Bytes) (wf : WFc c)
    (hz : ¬(c.sref = 0 ∧ c.mint = 0 ∧ c.maxt = 0)) (hlen : maxMeta ≤ (encodeRecord crc c ++ tail).length) :
    iterFile crc seq (fuel + 1) pos (encodeRecord crc c ++ tail) =
      (⟨seq, pos, c.sref, c.mint, c.maxt, rd16 (c.data ++ (Wal.be32 (crc (recBody c)) ++ tail)), c.enc, c.ooo⟩ ::
        (iterFile crc seq fuel (pos + recLen c) tail).1, (iterFile crc seq fuel (pos + recLen c) tail).2) := by
  have hv := record_view crc c tail
  have h0 : rd64 (encodeRecord crc c ++ tail) = c.sref := by
    rw [hv]; unfold rd64; rw [getBE64_putBE64 wf.sref]
  have d8 : (encodeRecord crc c ++ tail).drop 8 = putBE64 (toU64 c.mint) ++ (putBE64 (toU64 c.maxt) ++ tailEnc crc c tail) := by
    rw [hv]; exact drop_app_len _ _ 8 (putBE64_length _)
  have h1 : rd64 ((encodeRecord crc c ++ tail).drop 8) = toU64 c.mint := by
    rw [d8]; unfold rd64; rw [getBE64_putBE64 (toU64_lt _)]
  have d16 : (encodeRecord crc c ++ tail).drop 16 = putBE64 (toU64 c.maxt) ++ tailEnc crc c tail := by
    rw [show (16 : Nat) = 8 + 8 from rfl, ← List.drop_drop, d8]; exact drop_app_len _ _ 8 (putBE64_length _)
  have h2 : rd64 ((encodeRecord crc c ++ tail).drop 16) = toU64 c.maxt := by
    rw [d16]; unfold rd64; rw [getBE64_putBE64 (toU64_lt _)]
  have d24 : (encodeRecord crc c ++ tail).drop 24 = tailEnc crc c tail := by
    rw [show (24 : Nat) = 16 + 8 from rfl, ← List.drop_drop, d16]; exact drop_app_len _ _ 8 (putBE64_length _)
  have d25 : (encodeRecord crc c ++ tail).drop 25 = putUvarint c.data.length ++ (c.data ++ (Wal.be32 (crc (recBody c)) ++ tail)) := by
    rw [show (25 : Nat) = 24 + 1 from rfl, ← List.drop_drop, d24]; rfl
  have hu : getU5 ((encodeRecord crc c ++ tail).drop 25) = (c.data.length, uvarintSize c.data.length) := by
    rw [d25]; exact getU5_put _ _ (by have := wf.len; omega)
  have dn : (encodeRecord crc c ++ tail).drop (25 + uvarintSize c.data.length) = c.data ++ (Wal.be32 (crc (recBody c)) ++ tail) := by
    rw [← List.drop_drop, d25]; exact drop_app_len _ _ _ rfl
  have hb : (recBody c).length = 25 + uvarintSize c.data.length + c.data.length := recBody_length c
  have tk : (encodeRecord crc c ++ tail).take (25 + uvarintSize c.data.length + c.data.length) = recBody c := by
    unfold encodeRecord; rw [List.append_assoc]; exact take_app_len _ _ _ hb
  have de : (encodeRecord crc c ++ tail).drop (25 + uvarintSize c.data.length + c.data.length) = Wal.be32 (crc (recBody c)) ++ tail := by
    unfold encodeRecord; rw [List.append_assoc]; exact drop_app_len _ _ _ hb
  have de4 : (encodeRecord crc c ++ tail).drop (25 + uvarintSize c.data.length + c.data.length + 4) = tail := by
    rw [← List.drop_drop, de]; exact drop_app_len _ _ 4 rfl
  have hL : (encodeRecord crc c ++ tail).length = recLen c + tail.length := by simp [encodeRecord_length]
  conv => lhs; unfold iterFile
  have hne : ¬ (encodeRecord crc c ++ tail).length = 0 := by unfold maxMeta at hlen; omega
  have hge : ¬ (encodeRecord crc c ++ tail).length < maxMeta := by omega
  simp only [hne, hge, if_false, h0, h1, h2, hu, toI64_toU64 wf.mint, toI64_toU64 wf.maxt, hz, d24, dn, tk, de, de4]
  have he : ¬ (25 + uvarintSize c.data.length + c.data.length + 4 > (encodeRecord crc c ++ tail).length) := by
    rw [hL]; unfold recLen; omega
  simp only [he, if_false]
  have hcrc : (Wal.be32 (crc (recBody c)) ++ tail).take 4 = Wal.be32 (crc (recBody c)) := take_app_len _ _ 4 rfl
  have hpos : pos + (25 + uvarintSize c.data.length + c.data.length) + 4 = pos + recLen c := by unfold recLen; omega
  have hby : (UInt8.ofNat (encByte c)).toNat = encByte c := by
    have := encByte_lt c
    simp [Nat.mod_eq_of_lt this]
  simp only [hcrc, ne_eq, not_true_eq_false, if_false, tailEnc, List.headD_cons, hpos, hby, encByte_mod c wf.enc, encByte_ooo c wf.enc]

/-! ### a whole file -/

theorem zeros_drop (k n : Nat) : (zeros k).drop n = zeros (k - n) := by simp [zeros]
theorem zeros_length (k : Nat) : (zeros k).length = k := by simp [zeros]
theorem zeros_all (k : Nat) : (zeros k).all (· == 0) = true := by simp [zeros]

theorem rd64_zeros (k : Nat) : rd64 (zeros k) = 0 := by
  unfold rd64 zeros
  match k with
  | 0 | 1 | 2 | 3 | 4 | 5 | 6 | 7 => rfl
  | k + 8 => simp [List.replicate_succ, getBE64]

theorem iter_zeros (crc : Crc) (seq fuel pos k : Nat) : iterFile crc seq fuel pos (zeros k) = ([], none) := by
  cases fuel with
  | zero => rfl
  | succ fuel =>
    unfold iterFile
    by_cases h0 : (zeros k).length = 0
    · simp [h0]
    · by_cases h1 : (zeros k).length < maxMeta
      · simp [h0, h1, zeros_all]
      · simp only [h0, h1, if_false, zeros_drop, rd64_zeros]
        simp [toI64]

def metasFrom (seq : Nat) : Nat → List (Ref × Chunk) → List Meta
  | _, [] => []
  | pos, rc :: rest =>
    ⟨seq, pos, rc.2.sref, rc.2.mint, rc.2.maxt, rd16 rc.2.data, rc.2.enc, rc.2.ooo⟩ :: metasFrom seq (pos + recLen rc.2) rest

/-- what the head-chunk writer is given by the head: series refs start at 1 (so never the all-zero end marker),
    a real chunk has at least 4 bytes (2 bytes sample count + data), encodings are below 128 -/
structure WFrec (c : Chunk) : Prop where
  wf : WFc c
  nz : ¬(c.sref = 0 ∧ c.mint = 0 ∧ c.maxt = 0)
  len4 : 4 ≤ c.data.length

theorem rd16_app (d x : Bytes) (h : 2 ≤ d.length) : rd16 (d ++ x) = rd16 d := by
  match d, h with
  | a :: b :: t, _ => rfl

theorem recLen_ge (c : Chunk) (h : 4 ≤ c.data.length) : maxMeta ≤ recLen c := by
  have := uvarintSize_pos c.data.length
  unfold recLen maxMeta; omega

theorem iter_recs (crc : Crc) (seq : Nat) : ∀ (recs : List (Ref × Chunk)) (fuel pos k : Nat),
    (∀ rc ∈ recs, WFrec rc.2) → recs.length < fuel →
    iterFile crc seq fuel pos (encodeRecs crc recs ++ zeros k) = (metasFrom seq pos recs, none)
  | [], fuel, pos, k, _, _ => by simpa [encodeRecs, metasFrom] using iter_zeros crc seq fuel pos k
  | rc :: rest, fuel, pos, k, hwf, hf => by
    cases fuel with
    | zero => simp at hf
    | succ fuel =>
      have hrc := hwf rc (by simp)
      have ih := iter_recs crc seq rest fuel (pos + recLen rc.2) k (fun x hx => hwf x (by simp [hx])) (by simpa using hf)
      simp only [encodeRecs, List.append_assoc]
      rw [iter_step crc seq fuel pos rc.2 _ hrc.wf hrc.nz, ih]
      · simp [metasFrom, rd16_app _ _ (show 2 ≤ rc.2.data.length from by have := hrc.len4; omega)]
      · have := recLen_ge rc.2 hrc.len4
        simp [encodeRecord_length]; omega

theorem encodeRecs_length_ge (crc : Crc) : ∀ (recs : List (Ref × Chunk)), recs.length ≤ (encodeRecs crc recs).length
  | [] => by simp [encodeRecs]
  | rc :: rest => by
    have := encodeRecs_length_ge crc rest
    have h1 : 1 ≤ recLen rc.2 := by unfold recLen; omega
    simp [encodeRecs, encodeRecord_length]; omega

theorem iterBytes_file (crc : Crc) (seq : Nat) (recs : List (Ref × Chunk)) (k : Nat) (hwf : ∀ rc ∈ recs, WFrec rc.2) :
    iterBytes crc seq (header ++ (encodeRecs crc recs ++ zeros k)) = (metasFrom seq headerSize recs, none) := by
  unfold iterBytes
  rw [drop_app_len _ _ headerSize rfl]
  apply iter_recs crc seq recs _ _ k hwf
  have := encodeRecs_length_ge crc recs
  simp [header, putBE32]; omega

/-! ### `Chunk(ref)` through the mmap -/

theorem readAt_record (crc : Crc) (pre post : Bytes) (c : Chunk) (len : Nat) (wf : WFc c) (hv : validEnc c.enc = true)
    (hlen : pre.length + recLen c ≤ len) :
    readAt crc (pre ++ (encodeRecord crc c ++ post)) len pre.length = .ok (c.enc, c.data) := by
  have hR : ∀ n, (pre ++ (encodeRecord crc c ++ post)).drop (pre.length + n) = (encodeRecord crc c ++ post).drop n := by
    intro n; rw [← List.drop_drop, drop_app_len _ _ _ rfl]
  have hv' := record_view crc c post
  have d8 : (encodeRecord crc c ++ post).drop 8 = putBE64 (toU64 c.mint) ++ (putBE64 (toU64 c.maxt) ++ tailEnc crc c post) := by
    rw [hv']; exact drop_app_len _ _ 8 (putBE64_length _)
  have d16 : (encodeRecord crc c ++ post).drop 16 = putBE64 (toU64 c.maxt) ++ tailEnc crc c post := by
    rw [show (16 : Nat) = 8 + 8 from rfl, ← List.drop_drop, d8]; exact drop_app_len _ _ 8 (putBE64_length _)
  have d24 : (encodeRecord crc c ++ post).drop 24 = tailEnc crc c post := by
    rw [show (24 : Nat) = 16 + 8 from rfl, ← List.drop_drop, d16]; exact drop_app_len _ _ 8 (putBE64_length _)
  have d25 : (encodeRecord crc c ++ post).drop 25 = putUvarint c.data.length ++ (c.data ++ (Wal.be32 (crc (recBody c)) ++ post)) := by
    rw [show (25 : Nat) = 24 + 1 from rfl, ← List.drop_drop, d24]; rfl
  have hu : getU5 ((encodeRecord crc c ++ post).drop 25) = (c.data.length, uvarintSize c.data.length) := by
    rw [d25]; exact getU5_put _ _ (by have := wf.len; omega)
  have dn : (encodeRecord crc c ++ post).drop (25 + uvarintSize c.data.length) = c.data ++ (Wal.be32 (crc (recBody c)) ++ post) := by
    rw [← List.drop_drop, d25]; exact drop_app_len _ _ _ rfl
  have hb : (recBody c).length = 25 + uvarintSize c.data.length + c.data.length := recBody_length c
  have tk : (encodeRecord crc c ++ post).take (25 + uvarintSize c.data.length + c.data.length) = recBody c := by
    unfold encodeRecord; rw [List.append_assoc]; exact take_app_len _ _ _ hb
  have de : (encodeRecord crc c ++ post).drop (25 + uvarintSize c.data.length + c.data.length) = Wal.be32 (crc (recBody c)) ++ post := by
    unfold encodeRecord; rw [List.append_assoc]; exact drop_app_len _ _ _ hb
  have hn := uvarintSize_pos c.data.length
  have hL : (pre ++ (encodeRecord crc c ++ post)).length = pre.length + recLen c + post.length := by
    simp [encodeRecord_length]; omega
  have hby : (UInt8.ofNat (encByte c)).toNat = encByte c := by
    have := encByte_lt c
    simp [Nat.mod_eq_of_lt this]
  unfold readAt
  have e1 : ¬ (pre.length + 24 + 5 > len) := by unfold recLen at hlen; omega
  have e2 : ¬ (pre.length + 24 + 5 > (pre ++ (encodeRecord crc c ++ post)).length) := by rw [hL]; unfold recLen; omega
  have a1 : (pre ++ (encodeRecord crc c ++ post)).drop (pre.length + 24 + 1) = (encodeRecord crc c ++ post).drop 25 := by
    rw [show pre.length + 24 + 1 = pre.length + 25 from by omega]; exact hR 25
  simp only [e1, e2, if_false, a1, hu, hR 24, d24]
  have e3 : ¬ (uvarintSize c.data.length = 0) := by omega
  have e4 : ¬ (pre.length + 24 + 1 + uvarintSize c.data.length + c.data.length > len) := by unfold recLen at hlen; omega
  have e5 : ¬ (pre.length + 24 + 1 + uvarintSize c.data.length + c.data.length + 4 > len) := by unfold recLen at hlen; omega
  have e6 : ¬ (pre.length + 24 + 1 + uvarintSize c.data.length + c.data.length + 4 > (pre ++ (encodeRecord crc c ++ post)).length) := by
    rw [hL]; unfold recLen; omega
  simp only [e3, e4, e5, e6, if_false]
  have a2 : (pre ++ (encodeRecord crc c ++ post)).drop pre.length = encodeRecord crc c ++ post := drop_app_len _ _ _ rfl
  have a3 : pre.length + 24 + 1 + uvarintSize c.data.length + c.data.length - pre.length = 25 + uvarintSize c.data.length + c.data.length := by omega
  have a4 : (pre ++ (encodeRecord crc c ++ post)).drop (pre.length + 24 + 1 + uvarintSize c.data.length + c.data.length) = Wal.be32 (crc (recBody c)) ++ post := by
    rw [show pre.length + 24 + 1 + uvarintSize c.data.length + c.data.length = pre.length + (25 + uvarintSize c.data.length + c.data.length) from by omega, hR, de]
  have a5 : (pre ++ (encodeRecord crc c ++ post)).drop (pre.length + 24 + 1 + uvarintSize c.data.length + c.data.length - c.data.length) = c.data ++ (Wal.be32 (crc (recBody c)) ++ post) := by
    rw [show pre.length + 24 + 1 + uvarintSize c.data.length + c.data.length - c.data.length = pre.length + (25 + uvarintSize c.data.length) from by omega, hR, dn]
  have hcrc : (Wal.be32 (crc (recBody c)) ++ post).take 4 = Wal.be32 (crc (recBody c)) := take_app_len _ _ 4 rfl
  simp only [a2, a3, tk, a4, a5, hcrc, ne_eq, not_true_eq_false, if_false, tailEnc, List.headD_cons, hby, encByte_mod c wf.enc, hv,
    Bool.not_true, Bool.false_eq_true, take_app_len _ _ _ rfl]

theorem encodeRecs_append (crc : Crc) : ∀ (a b : List (Ref × Chunk)), encodeRecs crc (a ++ b) = encodeRecs crc a ++ encodeRecs crc b
  | [], b => by simp [encodeRecs]
  | x :: a, b => by simp [encodeRecs, encodeRecs_append crc a b]

theorem metasFrom_take (seq : Nat) : ∀ (recs : List (Ref × Chunk)) (pos j : Nat),
    metasFrom seq pos (recs.take j) = (metasFrom seq pos recs).take j
  | [], _, j => by simp [metasFrom]
  | rc :: rest, pos, 0 => by simp [metasFrom]
  | rc :: rest, pos, j + 1 => by simp [metasFrom, metasFrom_take seq rest (pos + recLen rc.2) j]

end Prom.Hcf
