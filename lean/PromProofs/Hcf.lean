import PromModel.Tsdb.HeadChunkFile
import PromProofs.Enc
/-
  Helper lemmas for C25 (head chunk files): list lemmas about `takeWhile`, the byte-level round trip of one
  record through `readAt` / `iterFile`.
-/
namespace Prom.Hcf
open Prom.Enc

theorem take_takeWhile_length {α} (p : α → Bool) (l : List α) : l.take (l.takeWhile p).length = l.takeWhile p := by
  induction l with
  | nil => rfl
  | cons a t ih => by_cases h : p a <;> simp [List.takeWhile, h, ih]

theorem mem_takeWhile_true {α} (p : α → Bool) (l : List α) (x : α) (h : x ∈ l.takeWhile p) : p x = true := by
  induction l with
  | nil => simp at h
  | cons a t ih =>
    by_cases ha : p a
    · simp [List.takeWhile, ha] at h
      rcases h with h | h
      · subst h; exact ha
      · exact ih h
    · simp [List.takeWhile, ha] at h

theorem mem_drop_takeWhile {α} (p : α → Bool) (l : List α) (x : α) (hx : x ∈ l) (hp : p x = false) :
    x ∈ l.drop (l.takeWhile p).length := by
  induction l with
  | nil => simp at hx
  | cons a t ih =>
    by_cases ha : p a
    · simp [List.takeWhile, ha]
      rcases List.mem_cons.1 hx with h | h
      · subst h; simp [hp] at ha
      · exact ih h
    · simp [List.takeWhile, ha]; simpa using hx

end Prom.Hcf
