import PromModel.Tsdb.Backfill
/-
  Helper lemmas for C50 (backfill): block-duration table, floor alignment, window index arithmetic,
  the `nextSampleTs` fold (`minGE`) and the invariant behind the skip optimisation.
-/
namespace Prom.Backfill

theorem ranges_eq : ranges = [7200000, 21600000, 64800000, 194400000, 583200000, 1749600000, 5248800000,
    15746400000, 47239200000, 141717600000] := by decide

def spec (m : Int) : Int :=
  if m < 21600000 then 7200000 else if m < 64800000 then 21600000 else if m < 194400000 then 64800000
  else if m < 583200000 then 194400000 else if m < 1749600000 then 583200000 else if m < 5248800000 then 1749600000
  else if m < 15746400000 then 5248800000 else if m < 47239200000 then 15746400000
  else if m < 141717600000 then 47239200000 else 141717600000

theorem cidx (m dflt : Int) (h : m > 7200000) :
    compatIdx m [7200000, 21600000, 64800000, 194400000, 583200000, 1749600000, 5248800000,
    15746400000, 47239200000, 141717600000] 0 dflt =
  if m < 21600000 then 0 else if m < 64800000 then 1 else if m < 194400000 then 2
  else if m < 583200000 then 3 else if m < 1749600000 then 4 else if m < 5248800000 then 5
  else if m < 15746400000 then 6 else if m < 47239200000 then 7
  else if m < 141717600000 then 8 else dflt := by
  simp only [compatIdx]
  repeat' split
  all_goals omega

theorem gcbd_eq (m : Int) : getCompatibleBlockDuration m = .ok (spec m) := by
  unfold getCompatibleBlockDuration spec
  rw [ranges_eq]
  simp only [defaultBlockDuration, List.length]
  split
  · rename_i h
    rw [cidx m _ h]
    repeat' split
    all_goals simp_all
    all_goals omega
  · have : m < 21600000 := by omega
    simp [this]


theorem floorAlign (fixed : Bool) (d m : Int) (hd : 0 < d) (h : fixed = true ∨ 0 ≤ m) :
    ∃ k, alignStart fixed d m = d * k ∧ d * k ≤ m ∧ m < d * k + d := by
  unfold alignStart
  by_cases hm : m < 0
  · have hf : fixed = true := by rcases h with h | h; exact h; omega
    subst hf
    simp only [hm, and_self, if_true]
    have hx : m - d + 1 = -(d - 1 - m) := by omega
    rw [hx, Int.neg_tdiv, Int.tdiv_eq_ediv_of_nonneg (by omega)]
    refine ⟨-((d - 1 - m) / d), rfl, ?_, ?_⟩
    · have := @Int.lt_mul_ediv_self_add (d - 1 - m) d hd
      rw [Int.mul_neg]
      generalize d * ((d - 1 - m) / d) = p at *
      omega
    · have := @Int.mul_ediv_self_le (d - 1 - m) d (by omega)
      rw [Int.mul_neg]
      generalize d * ((d - 1 - m) / d) = p at *
      omega
  · have : ¬ (fixed = true ∧ m < 0) := by intro h; exact hm h.2
    simp only [this, if_false]
    rw [Int.tdiv_eq_ediv_of_nonneg (by omega)]
    exact ⟨m / d, rfl, Int.mul_ediv_self_le (by omega), Int.lt_mul_ediv_self_add hd⟩



theorem window_index (d x : Int) (hd : 0 < d) (hx : 0 ≤ x) :
    ∃ j : Nat, ((j : Int) * d ≤ x ∧ x < (j : Int) * d + d) ∧ (j : Int) = x / d ∧
      ∀ j' : Nat, ((j' : Int) * d ≤ x ∧ x < (j' : Int) * d + d) → j' = j := by
  have hq : 0 ≤ x / d := Int.ediv_nonneg hx (by omega)
  refine ⟨(x / d).toNat, ⟨?_, ?_⟩, by omega, ?_⟩
  · rw [Int.toNat_of_nonneg hq]; exact Int.ediv_mul_le x (by omega)
  · rw [Int.toNat_of_nonneg hq]
    have := Int.lt_ediv_add_one_mul_self x hd
    rw [Int.add_mul] at this; omega
  · intro j' ⟨h1, h2⟩
    have a : (j' : Int) ≤ x / d := Int.le_ediv_of_mul_le hd h1
    have b : x / d < (j' : Int) + 1 := Int.ediv_lt_of_lt_mul hd (by rw [Int.add_mul]; omega)
    omega


/-- `nextSampleTs` as one pass with upper bound `u` computes it from the start value `n`. -/
def minGE (u : Int) : List Sample → Int → Int
  | [], n => n
  | x :: xs, n =>
    match x.t with
    | none => minGE u xs n
    | some ts => if ts ≥ u then minGE u xs (if ts < n then ts else n) else minGE u xs n

def AllTimed (xs : List Sample) : Prop := ∀ x ∈ xs, x.t ≠ none

theorem minGE_le (u : Int) (xs : List Sample) (n : Int) : minGE u xs n ≤ n := by
  induction xs generalizing n with
  | nil => simp [minGE]
  | cons x xs ih =>
    unfold minGE
    cases x.t with
    | none => exact ih n
    | some ts =>
      simp only
      split
      · by_cases hn : ts < n
        · simp only [hn, if_true]; have := ih ts; omega
        · simp only [hn, if_false]; exact ih n
      · exact ih n

theorem minGE_le_mem (u : Int) (xs : List Sample) (n : Int) (x : Sample) (hx : x ∈ xs) (ts : Int)
    (ht : x.t = some ts) (hu : ts ≥ u) : minGE u xs n ≤ ts := by
  induction xs generalizing n with
  | nil => cases hx
  | cons y ys ih =>
    unfold minGE
    rcases List.mem_cons.mp hx with rfl | hmem
    · rw [ht]; simp only [hu, if_true]
      by_cases hn : ts < n
      · simp only [hn, if_true]; exact minGE_le u ys ts
      · simp only [hn, if_false]; have := minGE_le u ys n; omega
    · cases y.t with
      | none => exact ih n hmem
      | some ts' => simp only; split <;> exact ih _ hmem

/-- If no sample lies in `[t, u)`, the bound can be moved from `t` to `u`. -/
theorem minGE_shift (t u : Int) (xs : List Sample) (n : Int)
    (h : ∀ x ∈ xs, ∀ ts, x.t = some ts → ts < t ∨ ts ≥ u) (htu : t ≤ u) : minGE u xs n = minGE t xs n := by
  induction xs generalizing n with
  | nil => rfl
  | cons y ys ih =>
    have ih' := fun n => ih n (fun x hx => h x (List.mem_cons_of_mem _ hx))
    unfold minGE
    cases hy : y.t with
    | none => exact ih' n
    | some ts =>
      simp only
      rcases h y (List.mem_cons_self) ts hy with h1 | h1
      · have a : ¬ ts ≥ u := by omega
        have b : ¬ ts ≥ t := by omega
        simp only [a, b, if_false]; exact ih' n
      · have a : ts ≥ t := by omega
        simp only [a, h1, if_true]; exact ih' _

theorem passLoop_next (d : Int) (N : Nat) (t u : Int) (htu : t ≤ u) (xs : List Sample) (p : Pass) (n : Int)
    (p' : Pass) (n' : Int) (h : passLoop d N t u xs p n = .ok (p', n')) : n' = minGE u xs n := by
  induction xs generalizing p n with
  | nil => simp [passLoop] at h; simp [minGE, h.2]
  | cons y ys ih =>
    unfold passLoop at h
    unfold minGE
    cases hy : y.t with
    | none => rw [hy] at h; cases h
    | some ts =>
      rw [hy] at h
      simp only at h ⊢
      split at h
      · have a : ¬ ts ≥ u := by omega
        simp only [a, if_false]; exact ih _ _ h
      · split at h
        · rename_i h2; simp only [h2, if_true]; exact ih _ _ h
        · rename_i h2; simp only [h2, if_false]
          split at h
          · cases h
          · exact ih _ _ h

theorem passLoop_empty (d : Int) (N : Nat) (t u : Int) (xs : List Sample) (p : Pass) (n : Int)
    (htu : t ≤ u) (hall : AllTimed xs) (h : ∀ x ∈ xs, ∀ ts, x.t = some ts → ts < t ∨ ts ≥ u) :
    passLoop d N t u xs p n = .ok (p, minGE u xs n) := by
  induction xs generalizing n with
  | nil => rfl
  | cons y ys ih =>
    have ih' := fun n => ih n (fun x hx => hall x (List.mem_cons_of_mem _ hx)) (fun x hx => h x (List.mem_cons_of_mem _ hx))
    unfold passLoop minGE
    cases hy : y.t with
    | none => exact absurd hy (hall y List.mem_cons_self)
    | some ts =>
      simp only
      rcases h y List.mem_cons_self ts hy with h1 | h1
      · by_cases h2 : ts ≥ u
        · omega
        · simp only [h1, h2, if_true, if_false]; exact ih' n
      · by_cases h2 : ts < t
        · omega
        · simp only [h1, h2, if_true, if_false]; exact ih' _

theorem blockLoop_noskip_next (d : Int) (N : Nat) (maxt : Int) (input : List Sample) (fuel : Nat) (t n n' : Int)
    (acc : List Block) :
    blockLoop false d N maxt input fuel t n acc = blockLoop false d N maxt input fuel t n' acc := by
  cases fuel with
  | zero => simp [blockLoop]
  | succ f => simp [blockLoop]

theorem flush_empty : flush {} = none := by simp [flush]

theorem skip_sound_aux (d : Int) (N : Nat) (maxt : Int) (input : List Sample) (hd : 0 < d)
    (hall : AllTimed input) (fuel : Nat) : ∀ (t next : Int) (acc : List Block),
    (next = maxI64 ∨ next = minGE t input maxI64) →
    blockLoop true d N maxt input fuel t next acc = blockLoop false d N maxt input fuel t maxI64 acc := by
  induction fuel with
  | zero => intros; simp [blockLoop]
  | succ f ih =>
    intro t next acc hinv
    unfold blockLoop
    by_cases h1 : t > maxt
    · rw [if_pos h1, if_pos h1]
    · rw [if_neg h1, if_neg h1]
      rw [if_neg (by simp : ¬ ((false : Bool) = true ∧ maxI64 ≠ maxI64 ∧ maxI64 ≥ t + d))]
      by_cases h2 : next ≠ maxI64 ∧ next ≥ t + d
      · -- the window is skipped: it contains no sample
        rw [if_pos ⟨rfl, h2⟩]
        have hnext : next = minGE t input maxI64 := by rcases hinv with h | h; exact absurd h h2.1; exact h
        have hno : ∀ x ∈ input, ∀ ts, x.t = some ts → ts < t ∨ ts ≥ t + d := by
          intro x hx ts hts
          by_cases hlt : ts < t
          · exact Or.inl hlt
          · have := minGE_le_mem t input maxI64 x hx ts hts (by omega); omega
        have hp := passLoop_empty d N t (t + d) input {} maxI64 (by omega) hall hno
        have hs := minGE_shift t (t + d) input maxI64 hno (by omega)
        have hw : windowPass d N t input = .ok (none, next) := by
          unfold windowPass; rw [hp]; simp only [flush_empty]; rw [hs, hnext]
        rw [hw]
        simp only [Option.toList, List.append_nil]
        rw [ih (t + d) next acc (Or.inr (by rw [hs]; exact hnext))]
        exact blockLoop_noskip_next ..
      · rw [if_neg (fun h => h2 h.2)]
        cases hw : windowPass d N t input with
        | error e => rfl
        | ok r =>
          obtain ⟨b, n'⟩ := r
          simp only
          have hn' : n' = minGE (t + d) input maxI64 := by
            unfold windowPass at hw
            cases hp : passLoop d N t (t + d) input {} maxI64 with
            | error e => rw [hp] at hw; cases hw
            | ok r' =>
              obtain ⟨p', m⟩ := r'
              rw [hp] at hw
              simp only [Except.ok.injEq, Prod.mk.injEq] at hw
              rw [← hw.2]
              exact passLoop_next d N t (t + d) (by omega) input {} maxI64 p' m hp
          rw [ih (t + d) n' _ (Or.inr hn')]
          exact blockLoop_noskip_next ..


end Prom.Backfill
