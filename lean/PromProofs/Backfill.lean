import PromModel.Tsdb.Backfill
/-
  Helper lemmas for C50 (backfill): block-duration table, floor alignment, window index arithmetic,
  the `nextSampleTs` fold (`minGE`) and the invariant behind the skip optimisation.
-/
namespace Prom.Backfill

theorem ranges_eq : ranges = [7200000, 21600000, 64800000, 194400000, 583200000, 1749600000, 5248800000,
    15746400000, 47239200000, 141717600000] := by decide

def spec (m : Int) : Int :=
  if m < 21600000 then 7200000 else if m < 64800000 then 21600000 else if m < 194400000 then 64800000
  else if m < 583200000 then 194400000 else if m < 1749600000 then 583200000 else if m < 5248800000 then 1749600000
  else if m < 15746400000 then 5248800000 else if m < 47239200000 then 15746400000
  else if m < 141717600000 then 47239200000 else 141717600000

theorem cidx (m dflt : Int) (h : m > 7200000) :
    compatIdx m [7200000, 21600000, 64800000, 194400000, 583200000, 1749600000, 5248800000,
    15746400000, 47239200000, 141717600000] 0 dflt =
  if m < 21600000 then 0 else if m < 64800000 then 1 else if m < 194400000 then 2
  else if m < 583200000 then 3 else if m < 1749600000 then 4 else if m < 5248800000 then 5
  else if m < 15746400000 then 6 else if m < 47239200000 then 7
  else if m < 141717600000 then 8 else dflt := by
  simp only [compatIdx]
  repeat' split
  all_goals omega

theorem gcbd_eq (m : Int) : getCompatibleBlockDuration m = .ok (spec m) := by
  unfold getCompatibleBlockDuration spec
  rw [ranges_eq]
  simp only [defaultBlockDuration, List.length]
  split
  · rename_i h
    rw [cidx m _ h]
    repeat' split
    all_goals simp_all
    all_goals omega
  · have : m < 21600000 := by omega
    simp [this]


theorem floorAlign (fixed : Bool) (d m : Int) (hd : 0 < d) (h : fixed = true ∨ 0 ≤ m) :
    ∃ k, alignStart fixed d m = d * k ∧ d * k ≤ m ∧ m < d * k + d := by
  unfold alignStart
  by_cases hm : m < 0
  · have hf : fixed = true := by rcases h with h | h; exact h; omega
    subst hf
    simp only [hm, and_self, if_true]
    have hx : m - d + 1 = -(d - 1 - m) := by omega
    rw [hx, Int.neg_tdiv, Int.tdiv_eq_ediv_of_nonneg (by omega)]
    refine ⟨-((d - 1 - m) / d), rfl, ?_, ?_⟩
    · have := @Int.lt_mul_ediv_self_add (d - 1 - m) d hd
      rw [Int.mul_neg]
      generalize d * ((d - 1 - m) / d) = p at *
      omega
    · have := @Int.mul_ediv_self_le (d - 1 - m) d (by omega)
      rw [Int.mul_neg]
      generalize d * ((d - 1 - m) / d) = p at *
      omega
  · have : ¬ (fixed = true ∧ m < 0) := by intro h; exact hm h.2
    simp only [this, if_false]
    rw [Int.tdiv_eq_ediv_of_nonneg (by omega)]
    exact ⟨m / d, rfl, Int.mul_ediv_self_le (by omega), Int.lt_mul_ediv_self_add hd⟩



theorem window_index (d x : Int) (hd : 0 < d) (hx : 0 ≤ x) :
    ∃ j : Nat, ((j : Int) * d ≤ x ∧ x < (j : Int) * d + d) ∧ (j : Int) = x / d ∧
      ∀ j' : Nat, ((j' : Int) * d ≤ x ∧ x < (j' : Int) * d + d) → j' = j := by
  have hq : 0 ≤ x / d := Int.ediv_nonneg hx (by omega)
  refine ⟨(x / d).toNat, ⟨?_, ?_⟩, by omega, ?_⟩
  · rw [Int.toNat_of_nonneg hq]; exact Int.ediv_mul_le x (by omega)
  · rw [Int.toNat_of_nonneg hq]
    have := Int.lt_ediv_add_one_mul_self x hd
    rw [Int.add_mul] at this; omega
  · intro j' ⟨h1, h2⟩
    have a : (j' : Int) ≤ x / d := Int.le_ediv_of_mul_le hd h1
    have b : x / d < (j' : Int) + 1 := Int.ediv_lt_of_lt_mul hd (by rw [Int.add_mul]; omega)
    omega


/-- `nextSampleTs` as one pass with upper bound `u` computes it from the start value `n`. -/
def minGE (u : Int) : List Sample → Int → Int
  | [], n => n
  | x :: xs, n =>
    match x.t with
    | none => minGE u xs n
    | some ts => if ts ≥ u then minGE u xs (if ts < n then ts else n) else minGE u xs n

def AllTimed (xs : List Sample) : Prop := ∀ x ∈ xs, x.t ≠ none

theorem minGE_le (u : Int) (xs : List Sample) (n : Int) : minGE u xs n ≤ n := by
  induction xs generalizing n with
  | nil => simp [minGE]
  | cons x xs ih =>
    unfold minGE
    cases x.t with
    | none => exact ih n
    | some ts =>
      simp only
      split
      · by_cases hn : ts < n
        · simp only [hn, if_true]; have := ih ts; omega
        · simp only [hn, if_false]; exact ih n
      · exact ih n

theorem minGE_le_mem (u : Int) (xs : List Sample) (n : Int) (x : Sample) (hx : x ∈ xs) (ts : Int)
    (ht : x.t = some ts) (hu : ts ≥ u) : minGE u xs n ≤ ts := by
  induction xs generalizing n with
  | nil => cases hx
  | cons y ys ih =>
    unfold minGE
    rcases List.mem_cons.mp hx with rfl | hmem
    · rw [ht]; simp only [hu, if_true]
      by_cases hn : ts < n
      · simp only [hn, if_true]; exact minGE_le u ys ts
      · simp only [hn, if_false]; have := minGE_le u ys n; omega
    · cases y.t with
      | none => exact ih n hmem
      | some ts' => simp only; split <;> exact ih _ hmem

/-- If no sample lies in `[t, u)`, the bound can be moved from `t` to `u`. -/
theorem minGE_shift (t u : Int) (xs : List Sample) (n : Int)
    (h : ∀ x ∈ xs, ∀ ts, x.t = some ts → ts < t ∨ ts ≥ u) (htu : t ≤ u) : minGE u xs n = minGE t xs n := by
  induction xs generalizing n with
  | nil => rfl
  | cons y ys ih =>
    have ih' := fun n => ih n (fun x hx => h x (List.mem_cons_of_mem _ hx))
    unfold minGE
    cases hy : y.t with
    | none => exact ih' n
    | some ts =>
      simp only
      rcases h y (List.mem_cons_self) ts hy with h1 | h1
      · have a : ¬ ts ≥ u := by omega
        have b : ¬ ts ≥ t := by omega
        simp only [a, b, if_false]; exact ih' n
      · have a : ts ≥ t := by omega
        simp only [a, h1, if_true]; exact ih' _

theorem passLoop_next (d : Int) (N : Nat) (t u : Int) (htu : t ≤ u) (xs : List Sample) (p : Pass) (n : Int)
    (p' : Pass) (n' : Int) (h : passLoop d N t u xs p n = .ok (p', n')) : n' = minGE u xs n := by
  induction xs generalizing p n with
  | nil => simp [passLoop] at h; simp [minGE, h.2]
  | cons y ys ih =>
    unfold passLoop at h
    unfold minGE
    cases hy : y.t with
    | none => rw [hy] at h; cases h
    | some ts =>
      rw [hy] at h
      simp only at h ⊢
      split at h
      · have a : ¬ ts ≥ u := by omega
        simp only [a, if_false]; exact ih _ _ h
      · split at h
        · rename_i h2; simp only [h2, if_true]; exact ih _ _ h
        · rename_i h2; simp only [h2, if_false]
          split at h
          · cases h
          · exact ih _ _ h

theorem passLoop_empty (d : Int) (N : Nat) (t u : Int) (xs : List Sample) (p : Pass) (n : Int)
    (htu : t ≤ u) (hall : AllTimed xs) (h : ∀ x ∈ xs, ∀ ts, x.t = some ts → ts < t ∨ ts ≥ u) :
    passLoop d N t u xs p n = .ok (p, minGE u xs n) := by
  induction xs generalizing n with
  | nil => rfl
  | cons y ys ih =>
    have ih' := fun n => ih n (fun x hx => hall x (List.mem_cons_of_mem _ hx)) (fun x hx => h x (List.mem_cons_of_mem _ hx))
    unfold passLoop minGE
    cases hy : y.t with
    | none => exact absurd hy (hall y List.mem_cons_self)
    | some ts =>
      simp only
      rcases h y List.mem_cons_self ts hy with h1 | h1
      · by_cases h2 : ts ≥ u
        · omega
        · simp only [h1, h2, if_true, if_false]; exact ih' n
      · by_cases h2 : ts < t
        · omega
        · simp only [h1, h2, if_true, if_false]; exact ih' _

theorem blockLoop_noskip_next (d : Int) (N : Nat) (maxt : Int) (input : List Sample) (fuel : Nat) (t n n' : Int)
    (acc : List Block) :
    blockLoop false d N maxt input fuel t n acc = blockLoop false d N maxt input fuel t n' acc := by
  cases fuel with
  | zero => simp [blockLoop]
  | succ f => simp [blockLoop]

theorem flush_empty : flush {} = none := by simp [flush]

theorem skip_sound_aux (d : Int) (N : Nat) (maxt : Int) (input : List Sample) (hd : 0 < d)
    (hall : AllTimed input) (fuel : Nat) : ∀ (t next : Int) (acc : List Block),
    (next = maxI64 ∨ next = minGE t input maxI64) →
    blockLoop true d N maxt input fuel t next acc = blockLoop false d N maxt input fuel t maxI64 acc := by
  induction fuel with
  | zero => intros; simp [blockLoop]
  | succ f ih =>
    intro t next acc hinv
    unfold blockLoop
    by_cases h1 : t > maxt
    · rw [if_pos h1, if_pos h1]
    · rw [if_neg h1, if_neg h1]
      rw [if_neg (by simp : ¬ ((false : Bool) = true ∧ maxI64 ≠ maxI64 ∧ maxI64 ≥ t + d))]
      by_cases h2 : next ≠ maxI64 ∧ next ≥ t + d
      · -- the window is skipped: it contains no sample
        rw [if_pos ⟨rfl, h2⟩]
        have hnext : next = minGE t input maxI64 := by rcases hinv with h | h; exact absurd h h2.1; exact h
        have hno : ∀ x ∈ input, ∀ ts, x.t = some ts → ts < t ∨ ts ≥ t + d := by
          intro x hx ts hts
          by_cases hlt : ts < t
          · exact Or.inl hlt
          · have := minGE_le_mem t input maxI64 x hx ts hts (by omega); omega
        have hp := passLoop_empty d N t (t + d) input {} maxI64 (by omega) hall hno
        have hs := minGE_shift t (t + d) input maxI64 hno (by omega)
        have hw : windowPass d N t input = .ok (none, next) := by
          unfold windowPass; rw [hp]; simp only [flush_empty]; rw [hs, hnext]
        rw [hw]
        simp only [Option.toList, List.append_nil]
        rw [ih (t + d) next acc (Or.inr (by rw [hs]; exact hnext))]
        exact blockLoop_noskip_next ..
      · rw [if_neg (fun h => h2 h.2)]
        cases hw : windowPass d N t input with
        | error e => rfl
        | ok r =>
          obtain ⟨b, n'⟩ := r
          simp only
          have hn' : n' = minGE (t + d) input maxI64 := by
            unfold windowPass at hw
            cases hp : passLoop d N t (t + d) input {} maxI64 with
            | error e => rw [hp] at hw; cases hw
            | ok r' =>
              obtain ⟨p', m⟩ := r'
              rw [hp] at hw
              simp only [Except.ok.injEq, Prod.mk.injEq] at hw
              rw [← hw.2]
              exact passLoop_next d N t (t + d) (by omega) input {} maxI64 p' m hp
          rw [ih (t + d) n' _ (Or.inr hn')]
          exact blockLoop_noskip_next ..


/-! ### soundness invariant: everything stored is an input sample of the window -/

/-- Head invariant w.r.t. a predicate `P` on samples and `R` on timestamps. -/
structure HInv (P : Smp → Prop) (R : Int → Prop) (h : Head) : Prop where
  stored : ∀ x ∈ h.stored, P x
  range : ∀ lo hi, h.range = some (lo, hi) → R lo ∧ R hi
  cover : ∀ x ∈ h.stored, ∃ lo hi, h.range = some (lo, hi) ∧ lo ≤ x.2.1 ∧ x.2.1 ≤ hi

theorem updateMinMax_range (h : Head) (t : Int) :
    ∃ lo hi, (h.updateMinMax t).range = some (lo, hi) ∧ lo ≤ t ∧ t ≤ hi ∧
      (∀ lo' hi', h.range = some (lo', hi') → lo ≤ lo' ∧ hi' ≤ hi ∧ (lo = lo' ∨ lo = t) ∧ (hi = hi' ∨ hi = t)) ∧
      (h.range = none → lo = t ∧ hi = t) := by
  unfold Head.updateMinMax
  cases hr : h.range with
  | none =>
    refine ⟨t, t, rfl, Int.le_refl _, Int.le_refl _, ?_, fun _ => ⟨rfl, rfl⟩⟩
    intro _ _ h; cases h
  | some r =>
    obtain ⟨lo, hi⟩ := r
    refine ⟨_, _, rfl, ?_, ?_, ?_, by intro h; cases h⟩
    · split <;> omega
    · split <;> omega
    · intro lo' hi' h; cases h
      refine ⟨by split <;> omega, by split <;> omega, ?_, ?_⟩
      · by_cases h : t < lo <;> simp [h]
      · by_cases h : t > hi <;> simp [h]

theorem updateMinMax_stored (h : Head) (t : Int) : (h.updateMinMax t).stored = h.stored := by
  unfold Head.updateMinMax; cases h.range with
  | none => rfl
  | some r => rfl

theorem store_inv {P R} (h : Head) (x : Smp) (ser : List (Nat × SerSt)) (hi : HInv P R h) (hx : P x) (hr : R x.2.1) :
    HInv P R { (h.updateMinMax x.2.1) with ser := ser, stored := h.stored ++ [x] } := by
  obtain ⟨lo, hi', hrange, h1, h2, h3, h4⟩ := updateMinMax_range h x.2.1
  refine ⟨?_, ?_, ?_⟩
  · intro y hy
    simp only [List.mem_append, List.mem_singleton] at hy
    rcases hy with hy | rfl
    · exact hi.stored y hy
    · exact hx
  · intro a b hab
    simp only at hab
    rw [hrange] at hab; cases hab
    cases hr0 : h.range with
    | none => obtain ⟨e1, e2⟩ := h4 hr0; subst e1; subst e2; exact ⟨hr, hr⟩
    | some r =>
      obtain ⟨lo', hi''⟩ := r
      obtain ⟨_, _, e1, e2⟩ := h3 lo' hi'' hr0
      obtain ⟨r1, r2⟩ := hi.range lo' hi'' hr0
      constructor
      · rcases e1 with e | e <;> rw [e] <;> assumption
      · rcases e2 with e | e <;> rw [e] <;> assumption
  · intro y hy
    simp only [List.mem_append, List.mem_singleton] at hy
    refine ⟨lo, hi', hrange, ?_⟩
    rcases hy with hy | rfl
    · obtain ⟨lo', hi'', e, a, b⟩ := hi.cover y hy
      obtain ⟨c, d, _, _⟩ := h3 lo' hi'' e
      omega
    · omega

theorem commitOne_inv {P R} (mv : Int) (h : Head) (x : Smp) (hi : HInv P R h) (hx : P x) (hr : R x.2.1) :
    HInv P R (commitOne mv h x) := by
  unfold commitOne
  split
  · exact hi
  · split
    · split
      · exact hi
      · exact store_inv h x _ hi hx hr
    · exact store_inv h x _ hi hx hr

theorem commit_inv {P R} (mv : Int) (pending : List Smp) : ∀ (h : Head), HInv P R h →
    (∀ x ∈ pending, P x ∧ R x.2.1) → HInv P R (commit mv h pending) := by
  induction pending with
  | nil => intro h hi _; exact hi
  | cons x xs ih =>
    intro h hi hp
    unfold commit; simp only [List.foldl_cons]
    exact ih _ (commitOne_inv mv h x hi (hp x List.mem_cons_self).1 (hp x List.mem_cons_self).2)
      (fun y hy => hp y (List.mem_cons_of_mem _ hy))

structure PInv (P : Smp → Prop) (R : Int → Prop) (p : Pass) : Prop where
  head : HInv P R p.head
  pending : ∀ x ∈ p.pending, P x ∧ R x.2.1

theorem initTime_inv {P R} (h : Head) (t : Int) (hi : HInv P R h) (hr : R t) : HInv P R (h.initTime t) := by
  unfold Head.initTime
  cases hr0 : h.range with
  | some r => simp only; exact hi
  | none =>
    simp only
    refine ⟨hi.stored, ?_, ?_⟩
    · intro a b hab; cases hab; exact ⟨hr, hr⟩
    · intro y hy
      obtain ⟨lo, hi', e, _⟩ := hi.cover y hy
      rw [hr0] at e; cases e

theorem appendStep_inv {P R} (d : Int) (N : Nat) (p p' : Pass) (x : Smp) (hp : PInv P R p) (hx : P x) (hr : R x.2.1)
    (h : appendStep d N p x = .ok p') : PInv P R p' := by
  have hpend : ∀ y ∈ p.pending ++ [x], P y ∧ R y.2.1 := by
    intro y hy
    simp only [List.mem_append, List.mem_singleton] at hy
    rcases hy with hy | rfl
    · exact hp.pending y hy
    · exact ⟨hx, hr⟩
  -- the head and minValid the appender works with
  have key : ∀ (head : Head) (mv : Int), HInv P R head →
      (if x.2.1 < mv then Except.error Err.oob
       else match appendable (lookup x.1 head.ser) x.2.1 x.2.2 mv with
        | .error e => .error e
        | .ok () =>
          if p.count + 1 < N then .ok { head := head, minValid := some mv, pending := p.pending ++ [x], count := p.count + 1 }
          else .ok { head := commit mv head (p.pending ++ [x]), minValid := some ((commit mv head (p.pending ++ [x])).maxTime - (2 * d).tdiv 2), pending := [], count := 0 })
        = Except.ok p' → PInv P R p' := by
    intro head mv hh h
    by_cases h1 : x.2.1 < mv
    · rw [if_pos h1] at h; cases h
    · rw [if_neg h1] at h
      cases ha : appendable (lookup x.1 head.ser) x.2.1 x.2.2 mv with
      | error e => rw [ha] at h; cases h
      | ok u =>
        rw [ha] at h
        simp only at h
        by_cases h2 : p.count + 1 < N
        · rw [if_pos h2] at h; cases h; exact ⟨hh, hpend⟩
        · rw [if_neg h2] at h; cases h
          exact ⟨commit_inv _ _ _ hh hpend, by intro y hy; cases hy⟩
  unfold appendStep at h
  cases hmv : p.minValid with
  | some m => rw [hmv] at h; exact key _ _ hp.head h
  | none => rw [hmv] at h; exact key _ _ (initTime_inv _ _ hp.head hr) h

/-- `x` is an input sample lying in the window `[t, u)`. -/
def InWin (input : List Sample) (t u : Int) (x : Smp) : Prop :=
  (⟨x.1, some x.2.1, x.2.2⟩ : Sample) ∈ input ∧ t ≤ x.2.1 ∧ x.2.1 < u

theorem passLoop_inv (input : List Sample) (d : Int) (N : Nat) (t u : Int) (xs : List Sample) :
    ∀ (p : Pass) (n : Int) (p' : Pass) (n' : Int), (∀ y ∈ xs, y ∈ input) →
    PInv (InWin input t u) (fun ts => t ≤ ts ∧ ts < u) p →
    passLoop d N t u xs p n = .ok (p', n') → PInv (InWin input t u) (fun ts => t ≤ ts ∧ ts < u) p' := by
  induction xs with
  | nil => intro p n p' n' _ hp h; simp [passLoop] at h; rw [← h.1]; exact hp
  | cons y ys ih =>
    intro p n p' n' hin hp h
    have hin' : ∀ z ∈ ys, z ∈ input := fun z hz => hin z (List.mem_cons_of_mem _ hz)
    unfold passLoop at h
    cases hy : y.t with
    | none => rw [hy] at h; cases h
    | some ts =>
      rw [hy] at h
      simp only at h
      by_cases h1 : ts < t
      · rw [if_pos h1] at h; exact ih _ _ _ _ hin' hp h
      · rw [if_neg h1] at h
        by_cases h2 : ts ≥ u
        · rw [if_pos h2] at h; exact ih _ _ _ _ hin' hp h
        · rw [if_neg h2] at h
          cases ha : appendStep d N p (y.s, ts, y.v) with
          | error e => rw [ha] at h; cases h
          | ok p1 =>
            rw [ha] at h
            simp only at h
            have hy' : (⟨y.s, some ts, y.v⟩ : Sample) ∈ input := by
              have := hin y List.mem_cons_self
              rw [← hy]; exact this
            have hP : InWin input t u (y.s, ts, y.v) := ⟨hy', Int.not_lt.mp h1, Int.not_le.mp h2⟩
            exact ih _ _ _ _ hin' (appendStep_inv d N p p1 _ hp hP ⟨Int.not_lt.mp h1, Int.not_le.mp h2⟩ ha) h

theorem empty_pass_inv {P R} : PInv P R ({} : Pass) :=
  ⟨⟨(by intro x hx; cases hx), (by intro a b h; cases h), (by intro x hx; cases hx)⟩, (by intro x hx; cases hx)⟩

theorem flushHead_inv {P R} (head : Head) (hh : HInv P R head) (b : Block)
    (h : (match head.range with
      | none => none
      | some (lo, hi) => if head.stored.isEmpty then none else some (⟨lo, hi + 1, head.stored⟩ : Block)) = some b) :
    (∀ x ∈ b.samples, P x ∧ b.mint ≤ x.2.1 ∧ x.2.1 < b.maxt) ∧ R b.mint ∧ R (b.maxt - 1) ∧ b.samples ≠ [] := by
  cases hr : head.range with
  | none => rw [hr] at h; cases h
  | some r =>
    obtain ⟨lo, hi⟩ := r
    rw [hr] at h
    simp only at h
    by_cases he : head.stored.isEmpty
    · rw [if_pos he] at h; cases h
    · rw [if_neg he] at h
      cases h
      obtain ⟨r1, r2⟩ := hh.range lo hi hr
      refine ⟨?_, r1, by simpa using r2, ?_⟩
      · intro x hx
        obtain ⟨lo', hi', e, a, b⟩ := hh.cover x hx
        rw [hr] at e; cases e
        exact ⟨hh.stored x hx, a, by show x.2.1 < hi + 1; omega⟩
      · intro hnil; simp at hnil; simp [hnil] at he

theorem flush_inv {P R} (p : Pass) (hp : PInv P R p) (b : Block) (h : flush p = some b) :
    (∀ x ∈ b.samples, P x ∧ b.mint ≤ x.2.1 ∧ x.2.1 < b.maxt) ∧ R b.mint ∧ R (b.maxt - 1) ∧ b.samples ≠ [] := by
  unfold flush at h
  cases hm : p.minValid with
  | some m => rw [hm] at h; exact flushHead_inv _ (commit_inv _ _ _ hp.head hp.pending) b h
  | none => rw [hm] at h; exact flushHead_inv _ hp.head b h

/-- A block is good for start `s0` and duration `d`: it lies in one window `[s0 + j·d, s0 + (j+1)·d)`
    and holds only input samples, all inside `[mint, maxt)`. -/
def GoodBlock (input : List Sample) (s0 d : Int) (b : Block) : Prop :=
  ∃ j : Nat, s0 + j * d ≤ b.mint ∧ b.mint < b.maxt ∧ b.maxt ≤ s0 + j * d + d ∧ b.samples ≠ [] ∧
    ∀ x ∈ b.samples, (⟨x.1, some x.2.1, x.2.2⟩ : Sample) ∈ input ∧ b.mint ≤ x.2.1 ∧ x.2.1 < b.maxt

theorem windowPass_good (input : List Sample) (d : Int) (N : Nat) (t : Int) (b : Block) (n : Int)
    (h : windowPass d N t input = .ok (some b, n)) :
    t ≤ b.mint ∧ b.mint < b.maxt ∧ b.maxt ≤ t + d ∧ b.samples ≠ [] ∧
      ∀ x ∈ b.samples, (⟨x.1, some x.2.1, x.2.2⟩ : Sample) ∈ input ∧ b.mint ≤ x.2.1 ∧ x.2.1 < b.maxt := by
  unfold windowPass at h
  cases hp : passLoop d N t (t + d) input {} maxI64 with
  | error e => rw [hp] at h; cases h
  | ok r =>
    obtain ⟨p', m⟩ := r
    rw [hp] at h
    simp only [Except.ok.injEq, Prod.mk.injEq] at h
    have hinv := passLoop_inv input d N t (t + d) input {} maxI64 p' m (fun y hy => hy) empty_pass_inv hp
    obtain ⟨h1, h2, h3, h4⟩ := flush_inv p' hinv b h.1
    obtain ⟨x0, hx0⟩ := List.exists_mem_of_ne_nil _ h4
    have := (h1 x0 hx0).2
    refine ⟨h2.1, by omega, by omega, h4, fun x hx => ⟨(h1 x hx).1.1, (h1 x hx).2⟩⟩

theorem blockLoop_good (input : List Sample) (skip : Bool) (d : Int) (N : Nat) (maxt s0 : Int) (fuel : Nat) :
    ∀ (j : Nat) (next : Int) (acc : List Block), (∀ b ∈ acc, GoodBlock input s0 d b) →
    ∀ b ∈ (blockLoop skip d N maxt input fuel (s0 + j * d) next acc).2, GoodBlock input s0 d b := by
  induction fuel with
  | zero => intro j next acc hacc; simpa [blockLoop] using hacc
  | succ f ih =>
    intro j next acc hacc
    have hnext : s0 + (j : Int) * d + d = s0 + ((j + 1 : Nat) : Int) * d := by
      rw [Int.natCast_add, Int.add_mul]; simp; omega
    unfold blockLoop
    by_cases h1 : s0 + (j : Int) * d > maxt
    · rw [if_pos h1]; exact hacc
    · rw [if_neg h1]
      split
      · rw [hnext]; exact ih (j + 1) next acc hacc
      · cases hw : windowPass d N (s0 + j * d) input with
        | error e => exact hacc
        | ok r =>
          obtain ⟨ob, n'⟩ := r
          simp only
          rw [hnext]
          apply ih (j + 1) n'
          intro b hb
          simp only [List.mem_append] at hb
          rcases hb with hb | hb
          · exact hacc b hb
          · cases ob with
            | none => cases hb
            | some b0 =>
              simp only [Option.toList, List.mem_singleton] at hb
              subst hb
              obtain ⟨a1, a2, a3, a4, a5⟩ := windowPass_good input d N _ b n' hw
              exact ⟨j, a1, a2, a3, a4, a5⟩

theorem alignStart_mul (fixed : Bool) (d mint : Int) : ∃ k, alignStart fixed d mint = d * k := by
  unfold alignStart; split <;> exact ⟨_, rfl⟩

theorem backfill_sound_aux (fixed : Bool) (maxBD : Int) (N : Nat) (input : List Sample) :
    ∀ b ∈ (backfillG fixed maxBD N input).2, ∃ d k : Int, getCompatibleBlockDuration maxBD = .ok d ∧
      d * k ≤ b.mint ∧ b.mint < b.maxt ∧ b.maxt ≤ d * k + d ∧ b.samples ≠ [] ∧
      ∀ x ∈ b.samples, (⟨x.1, some x.2.1, x.2.2⟩ : Sample) ∈ input ∧ b.mint ≤ x.2.1 ∧ x.2.1 < b.maxt := by
  intro b hb
  unfold backfillG at hb
  cases hmm : getMinAndMaxTimestamps input with
  | error e => rw [hmm] at hb; cases hb
  | ok r =>
    obtain ⟨maxt, mint⟩ := r
    rw [hmm] at hb
    simp only [createBlocks] at hb
    cases hd : getCompatibleBlockDuration maxBD with
    | error e => rw [hd] at hb; cases hb
    | ok d =>
      rw [hd] at hb
      simp only at hb
      obtain ⟨k0, hk0⟩ := alignStart_mul fixed d mint
      have e : alignStart fixed d mint + ((0 : Nat) : Int) * d = alignStart fixed d mint := by simp
      have key := blockLoop_good input true d N maxt (alignStart fixed d mint)
        (iterations (alignStart fixed d mint) maxt d) 0 maxI64 [] (by intro b hb; cases hb) b
      rw [e] at key
      obtain ⟨j, a1, a2, a3, a4, a5⟩ := key hb
      refine ⟨d, k0 + j, rfl, ?_, a2, ?_, a4, a5⟩
      · rw [Int.mul_add, ← hk0, Int.mul_comm d j]; exact a1
      · rw [Int.mul_add, ← hk0, Int.mul_comm d j]; exact a3

/-! ### completeness invariant: a per-series increasing window is stored entirely -/

/-- The samples of the window `[t, u)` in file order. -/
def winSamples (t u : Int) : List Sample → List Smp
  | [] => []
  | x :: xs =>
    match x.t with
    | none => winSamples t u xs
    | some ts => if t ≤ ts ∧ ts < u then (x.s, ts, x.v) :: winSamples t u xs else winSamples t u xs

/-- State of the last sample of series `s` in a list of stored samples. -/
def lastOf (s : Nat) : List Smp → Option SerSt
  | [] => none
  | x :: xs =>
    match lastOf s xs with
    | some c => some c
    | none => if x.1 = s then some ⟨x.2.1, x.2.2⟩ else none

/-- Per series strictly increasing timestamps. -/
def Inc (l : List Smp) : Prop := l.Pairwise (fun a b => a.1 = b.1 → a.2.1 < b.2.1)

theorem lastOf_append (s : Nat) (l : List Smp) (x : Smp) :
    lastOf s (l ++ [x]) = if x.1 = s then some ⟨x.2.1, x.2.2⟩ else lastOf s l := by
  induction l with
  | nil => simp [lastOf]
  | cons y ys ih =>
    simp only [List.cons_append, lastOf, ih]
    by_cases h : x.1 = s
    · simp [h]
    · simp [h]

theorem lastOf_mem (s : Nat) (l : List Smp) (c : SerSt) (h : lastOf s l = some c) :
    ∃ y ∈ l, y.1 = s ∧ y.2.1 = c.maxT := by
  induction l with
  | nil => simp [lastOf] at h
  | cons y ys ih =>
    simp only [lastOf] at h
    cases hl : lastOf s ys with
    | some c' =>
      rw [hl] at h; simp only [Option.some.injEq] at h; subst h
      obtain ⟨z, hz, a, b⟩ := ih hl
      exact ⟨z, List.mem_cons_of_mem _ hz, a, b⟩
    | none =>
      rw [hl] at h; simp only at h
      by_cases hy : y.1 = s
      · rw [if_pos hy] at h; simp only [Option.some.injEq] at h; subst h
        exact ⟨y, List.mem_cons_self, hy, rfl⟩
      · rw [if_neg hy] at h; cases h

theorem lookup_upsert (s s' : Nat) (c : SerSt) (l : List (Nat × SerSt)) :
    lookup s' (upsert s c l) = if s = s' then some c else lookup s' l := by
  induction l with
  | nil => simp [upsert, lookup]
  | cons y ys ih =>
    obtain ⟨k, c'⟩ := y
    simp only [upsert]
    by_cases hk : k = s
    · subst hk
      simp only [if_true, lookup]
      by_cases h1 : k = s' <;> simp [h1]
    · simp only [hk, if_false, lookup, ih]
      by_cases h1 : k = s'
      · subst h1
        have : ¬ s = k := fun h => hk h.symm
        simp [this]
      · simp [h1]

/-- The series table agrees with the stored samples. -/
def HC (h : Head) : Prop := ∀ s, lookup s h.ser = lastOf s h.stored

theorem commitOne_store (mv : Int) (h : Head) (x : Smp) (hc : HC h) (hinc : Inc (h.stored ++ [x])) (hmv : x.2.1 ≥ mv) :
    (commitOne mv h x).stored = h.stored ++ [x] ∧ HC (commitOne mv h x) := by
  have hstore : HC { (h.updateMinMax x.2.1) with ser := upsert x.1 ⟨x.2.1, x.2.2⟩ h.ser, stored := h.stored ++ [x] } := by
    intro s
    simp only
    rw [lookup_upsert, lastOf_append, hc s]
  unfold commitOne
  rw [hc x.1]
  cases hl : lastOf x.1 h.stored with
  | none =>
    simp only [appendable, hmv, if_true]
    exact ⟨trivial, hstore⟩
  | some c =>
    obtain ⟨y, hy, hy1, hy2⟩ := lastOf_mem _ _ _ hl
    have hlt : y.2.1 < x.2.1 := by
      have := (List.pairwise_append.mp hinc).2.2 y hy x (List.mem_singleton.mpr rfl)
      exact this hy1
    have h1 : x.2.1 ≥ mv ∧ x.2.1 > c.maxT := ⟨hmv, by omega⟩
    have h2 : ¬ c.maxT ≥ x.2.1 := by omega
    simp only [appendable, h1, and_self, if_true, h2, if_false]
    exact ⟨trivial, hstore⟩

theorem commit_all (mv : Int) (pending : List Smp) : ∀ (h : Head), HC h → Inc (h.stored ++ pending) →
    (∀ x ∈ pending, x.2.1 ≥ mv) → (commit mv h pending).stored = h.stored ++ pending ∧ HC (commit mv h pending) := by
  induction pending with
  | nil => intro h hc _ _; simp [commit, hc]
  | cons x xs ih =>
    intro h hc hinc hmv
    have hinc1 : Inc (h.stored ++ [x]) := by
      have : h.stored ++ x :: xs = (h.stored ++ [x]) ++ xs := by simp
      rw [this] at hinc
      exact (List.pairwise_append.mp hinc).1
    obtain ⟨e1, hc1⟩ := commitOne_store mv h x hc hinc1 (hmv x List.mem_cons_self)
    have := ih (commitOne mv h x) hc1 (by rw [e1]; simpa using hinc) (fun y hy => hmv y (List.mem_cons_of_mem _ hy))
    unfold commit at this ⊢
    simp only [List.foldl_cons]
    rw [e1] at this
    simpa using this

structure CInv (t : Int) (p : Pass) (pre : List Smp) : Prop where
  eq : p.head.stored ++ p.pending = pre
  hc : HC p.head
  mv : ∀ m, p.minValid = some m → m ≤ t
  fresh : p.minValid = none → p.head.range = none ∧ p.pending = []

theorem two_mul_tdiv (d : Int) : (2 * d).tdiv 2 = d := Int.mul_tdiv_cancel_left d (by omega)

theorem maxTime_lt_of_inv {P} {t u : Int} (h : Head) (hi : HInv P (fun ts => t ≤ ts ∧ ts < u) h) (x : Smp) (hx : x ∈ h.stored) :
    h.maxTime < u := by
  obtain ⟨lo, hi', e, _, _⟩ := hi.cover x hx
  unfold Head.maxTime; rw [e]; exact (hi.range lo hi' e).2.2

theorem appendStep_complete {P} (d : Int) (N : Nat) (t : Int) (_hd : 0 < d) (p : Pass) (pre : List Smp) (x : Smp)
    (hc : CInv t p pre) (hp : PInv P (fun ts => t ≤ ts ∧ ts < t + d) p) (hx1 : t ≤ x.2.1) (hx2 : x.2.1 < t + d)
    (hP : P x) (hinc : Inc (pre ++ [x])) :
    ∃ p', appendStep d N p x = .ok p' ∧ CInv t p' (pre ++ [x]) := by
  have key : ∀ (head : Head) (mv : Int), HC head → head.stored = p.head.stored →
      HInv P (fun ts => t ≤ ts ∧ ts < t + d) head → mv ≤ t →
      ∃ p', (if x.2.1 < mv then Except.error Err.oob
       else match appendable (lookup x.1 head.ser) x.2.1 x.2.2 mv with
        | .error e => .error e
        | .ok () =>
          if p.count + 1 < N then .ok { head := head, minValid := some mv, pending := p.pending ++ [x], count := p.count + 1 }
          else .ok { head := commit mv head (p.pending ++ [x]), minValid := some ((commit mv head (p.pending ++ [x])).maxTime - (2 * d).tdiv 2), pending := [], count := 0 })
        = Except.ok p' ∧ CInv t p' (pre ++ [x]) := by
    intro head mv hhc hst hhi hmv
    have h1 : ¬ x.2.1 < mv := by omega
    rw [if_neg h1]
    have hinc' : Inc (head.stored ++ (p.pending ++ [x])) := by
      rw [hst, ← List.append_assoc, hc.eq]; exact hinc
    -- the Append-time check against the committed state succeeds
    have happ : appendable (lookup x.1 head.ser) x.2.1 x.2.2 mv = .ok () := by
      rw [hhc x.1]
      cases hl : lastOf x.1 head.stored with
      | none => simp only [appendable]; rw [if_pos (by omega)]
      | some c =>
        obtain ⟨y, hy, hy1, hy2⟩ := lastOf_mem _ _ _ hl
        have hlt : y.2.1 < x.2.1 := by
          have := (List.pairwise_append.mp hinc').2.2 y hy x (by simp)
          exact this hy1
        simp only [appendable]; rw [if_pos ⟨by omega, by omega⟩]
    rw [happ]
    simp only
    by_cases h2 : p.count + 1 < N
    · rw [if_pos h2]
      refine ⟨_, rfl, ?_, hhc, ?_, ?_⟩
      · simp only; rw [hst, ← List.append_assoc, hc.eq]
      · intro m hm; simp only [Option.some.injEq] at hm; omega
      · intro hm; simp at hm
    · rw [if_neg h2]
      have hpend : ∀ y ∈ p.pending ++ [x], y.2.1 ≥ mv := by
        intro y hy
        simp only [List.mem_append, List.mem_singleton] at hy
        rcases hy with hy | rfl
        · have := (hp.pending y hy).2.1; omega
        · omega
      obtain ⟨e1, hc1⟩ := commit_all mv (p.pending ++ [x]) head hhc hinc' hpend
      have hpend' : ∀ y ∈ p.pending ++ [x], P y ∧ (fun ts => t ≤ ts ∧ ts < t + d) y.2.1 := by
        intro y hy
        simp only [List.mem_append, List.mem_singleton] at hy
        rcases hy with hy | rfl
        · exact hp.pending y hy
        · exact ⟨hP, hx1, hx2⟩
      have hi1 := commit_inv mv (p.pending ++ [x]) head hhi hpend'
      have hmem : x ∈ (commit mv head (p.pending ++ [x])).stored := by rw [e1]; simp
      have hmax := maxTime_lt_of_inv _ hi1 x hmem
      refine ⟨_, rfl, ?_, hc1, ?_, ?_⟩
      · simp only; rw [e1, hst, List.append_nil, ← List.append_assoc, hc.eq]
      · intro m hm; simp only [Option.some.injEq] at hm; rw [two_mul_tdiv] at hm; omega
      · intro hm; simp at hm
  unfold appendStep
  cases hmv : p.minValid with
  | some m => exact key _ _ hc.hc rfl hp.head (hc.mv m hmv)
  | none =>
    obtain ⟨hr, _⟩ := hc.fresh hmv
    have hmt : (p.head.initTime x.2.1).maxTime = x.2.1 := by
      unfold Head.initTime Head.maxTime; rw [hr]
    have hle : (p.head.initTime x.2.1).maxTime - (2 * d).tdiv 2 ≤ t := by rw [hmt, two_mul_tdiv]; omega
    refine key _ _ ?_ ?_ (initTime_inv _ _ hp.head ⟨hx1, hx2⟩) hle
    · intro s; unfold Head.initTime; rw [hr]; exact hc.hc s
    · unfold Head.initTime; rw [hr]

theorem passLoop_complete (input : List Sample) (d : Int) (N : Nat) (t : Int) (hd : 0 < d) (xs : List Sample) :
    ∀ (p : Pass) (n : Int) (pre : List Smp), AllTimed xs → (∀ y ∈ xs, y ∈ input) → CInv t p pre →
    PInv (InWin input t (t + d)) (fun ts => t ≤ ts ∧ ts < t + d) p →
    Inc (pre ++ winSamples t (t + d) xs) →
    ∃ p' n', passLoop d N t (t + d) xs p n = .ok (p', n') ∧ CInv t p' (pre ++ winSamples t (t + d) xs) ∧
      PInv (InWin input t (t + d)) (fun ts => t ≤ ts ∧ ts < t + d) p' := by
  induction xs with
  | nil => intro p n pre _ _ hc hp _; exact ⟨p, n, rfl, by simpa [winSamples] using hc, hp⟩
  | cons y ys ih =>
    intro p n pre hall hin hc hp hinc
    have hall' : AllTimed ys := fun z hz => hall z (List.mem_cons_of_mem _ hz)
    have hin' : ∀ z ∈ ys, z ∈ input := fun z hz => hin z (List.mem_cons_of_mem _ hz)
    unfold passLoop
    cases hy : y.t with
    | none => exact absurd hy (hall y List.mem_cons_self)
    | some ts =>
      simp only
      have hw : winSamples t (t + d) (y :: ys) =
          if t ≤ ts ∧ ts < t + d then (y.s, ts, y.v) :: winSamples t (t + d) ys else winSamples t (t + d) ys := by
        simp only [winSamples, hy]
      rw [hw] at hinc ⊢
      by_cases h1 : ts < t
      · have hn : ¬ (t ≤ ts ∧ ts < t + d) := by omega
        rw [if_pos h1]; rw [if_neg hn] at hinc ⊢
        exact ih p n pre hall' hin' hc hp hinc
      · rw [if_neg h1]
        by_cases h2 : ts ≥ t + d
        · have hn : ¬ (t ≤ ts ∧ ts < t + d) := by omega
          rw [if_pos h2]; rw [if_neg hn] at hinc ⊢
          exact ih p _ pre hall' hin' hc hp hinc
        · have hy' : t ≤ ts ∧ ts < t + d := by omega
          rw [if_neg h2]; rw [if_pos hy'] at hinc ⊢
          have hmem : (⟨y.s, some ts, y.v⟩ : Sample) ∈ input := by
            have := hin y List.mem_cons_self
            rw [← hy]; exact this
          have hP : InWin input t (t + d) (y.s, ts, y.v) := ⟨hmem, hy'.1, hy'.2⟩
          have hinc1 : Inc (pre ++ [(y.s, ts, y.v)]) := by
            have : pre ++ (y.s, ts, y.v) :: winSamples t (t + d) ys = (pre ++ [(y.s, ts, y.v)]) ++ winSamples t (t + d) ys := by simp
            rw [this] at hinc
            exact (List.pairwise_append.mp hinc).1
          obtain ⟨p1, ha, hc1⟩ := appendStep_complete d N t hd p pre (y.s, ts, y.v) hc hp hy'.1 hy'.2 hP hinc1
          rw [ha]
          simp only
          have hp1 := appendStep_inv d N p p1 _ hp hP hy' ha
          have := ih p1 n (pre ++ [(y.s, ts, y.v)]) hall' hin' hc1 hp1 (by simpa using hinc)
          simpa using this

theorem empty_cinv (t : Int) : CInv t ({} : Pass) [] :=
  ⟨rfl, (by intro s; rfl), (by intro m h; cases h), (by intro _; exact ⟨rfl, rfl⟩)⟩

/-- One window pass stores exactly the window's samples, in file order, when every series is strictly
    increasing inside the window. -/
theorem windowPass_complete (input : List Sample) (d : Int) (N : Nat) (t : Int) (hd : 0 < d) (hall : AllTimed input)
    (hinc : Inc (winSamples t (t + d) input)) :
    ∃ ob n, windowPass d N t input = .ok (ob, n) ∧
      (winSamples t (t + d) input = [] → ob = none) ∧
      (winSamples t (t + d) input ≠ [] → ∃ b, ob = some b ∧ b.samples = winSamples t (t + d) input) := by
  obtain ⟨p', n', hp, hc, hpi⟩ := passLoop_complete input d N t hd input {} maxI64 [] hall (fun y hy => hy)
    (empty_cinv t) empty_pass_inv (by simpa using hinc)
  simp only [List.nil_append] at hc
  refine ⟨flush p', n', by unfold windowPass; rw [hp], ?_, ?_⟩
  all_goals
    unfold flush
    cases hm : p'.minValid with
    | none =>
      obtain ⟨hr, hpe⟩ := hc.fresh hm
      simp only [hr]
      first
        | intro _; trivial
        | intro hne
          exfalso; apply hne
          rw [← hc.eq, hpe, List.append_nil]
          cases hs : p'.head.stored with
          | nil => rfl
          | cons z zs =>
            obtain ⟨lo, hi, e, _⟩ := hpi.head.cover z (by rw [hs]; exact List.mem_cons_self)
            rw [hr] at e; cases e
    | some m =>
      simp only
      have hpend : ∀ y ∈ p'.pending, y.2.1 ≥ m := by
        intro y hy; have := (hpi.pending y hy).2.1; have := hc.mv m hm; omega
      obtain ⟨e1, _⟩ := commit_all m p'.pending p'.head hc.hc (by rw [hc.eq]; exact hinc) hpend
      rw [hc.eq] at e1
      have hi1 := commit_inv m p'.pending p'.head hpi.head hpi.pending
      first
        | intro hnil
          rw [hnil] at e1
          cases (commit m p'.head p'.pending).range with
          | none => rfl
          | some r => simp [e1]
        | intro hne
          obtain ⟨z, hz⟩ := List.exists_mem_of_ne_nil _ hne
          obtain ⟨lo, hi, e, _⟩ := hi1.cover z (by rw [e1]; exact hz)
          rw [e]
          simp only
          have : ¬ (commit m p'.head p'.pending).stored.isEmpty = true := by rw [e1]; simpa using hne
          rw [if_neg this]
          exact ⟨_, rfl, e1⟩

theorem mem_winSamples (t u : Int) (xs : List Sample) (x : Sample) (hx : x ∈ xs) (tx : Int) (ht : x.t = some tx)
    (h1 : t ≤ tx) (h2 : tx < u) : (x.s, tx, x.v) ∈ winSamples t u xs := by
  induction xs with
  | nil => cases hx
  | cons y ys ih =>
    unfold winSamples
    rcases List.mem_cons.mp hx with rfl | hmem
    · rw [ht]; simp only; rw [if_pos ⟨h1, h2⟩]; exact List.mem_cons_self
    · cases y.t with
      | none => exact ih hmem
      | some ts =>
        simp only
        split
        · exact List.mem_cons_of_mem _ (ih hmem)
        · exact ih hmem

theorem minMaxLoop_bounds (xs : List Sample) : ∀ (a b M m : Int), minMaxLoop xs a b = .ok (M, m) →
    a ≤ M ∧ m ≤ b ∧ ∀ x ∈ xs, ∀ ts, x.t = some ts → m ≤ ts ∧ ts ≤ M := by
  induction xs with
  | nil =>
    intro a b M m h
    simp only [minMaxLoop, Except.ok.injEq, Prod.mk.injEq] at h
    exact ⟨by omega, by omega, by intro x hx; cases hx⟩
  | cons y ys ih =>
    intro a b M m h
    unfold minMaxLoop at h
    cases hy : y.t with
    | none => rw [hy] at h; cases h
    | some ts =>
      rw [hy] at h
      simp only at h
      obtain ⟨h1, h2, h3⟩ := ih _ _ _ _ h
      have ha : a ≤ (if ts > a then ts else a) ∧ ts ≤ (if ts > a then ts else a) := by split <;> omega
      have hb : (if ts < b then ts else b) ≤ b ∧ (if ts < b then ts else b) ≤ ts := by split <;> omega
      refine ⟨by omega, by omega, ?_⟩
      intro x hx tx htx
      rcases List.mem_cons.mp hx with rfl | hmem
      · rw [hy] at htx; cases htx; omega
      · exact h3 x hmem tx htx

theorem minMaxLoop_ok (xs : List Sample) (hall : AllTimed xs) : ∀ (a b : Int), ∃ M m, minMaxLoop xs a b = .ok (M, m) := by
  induction xs with
  | nil => intro a b; exact ⟨a, b, rfl⟩
  | cons y ys ih =>
    intro a b
    unfold minMaxLoop
    cases hy : y.t with
    | none => exact absurd hy (hall y List.mem_cons_self)
    | some ts => exact ih (fun z hz => hall z (List.mem_cons_of_mem _ hz)) _ _

theorem getMinMax_bounds (xs : List Sample) (hall : AllTimed xs)
    (hb : ∀ x ∈ xs, ∀ ts, x.t = some ts → minI64 < ts ∧ ts < maxI64) :
    ∃ maxt mint, getMinAndMaxTimestamps xs = .ok (maxt, mint) ∧ ∀ x ∈ xs, ∀ ts, x.t = some ts → mint ≤ ts ∧ ts ≤ maxt := by
  obtain ⟨M, m, h⟩ := minMaxLoop_ok xs hall minI64 maxI64
  obtain ⟨h1, h2, h3⟩ := minMaxLoop_bounds xs _ _ _ _ h
  unfold getMinAndMaxTimestamps
  rw [h]
  refine ⟨_, _, rfl, ?_⟩
  intro x hx ts hts
  obtain ⟨a, b⟩ := h3 x hx ts hts
  obtain ⟨c, e⟩ := hb x hx ts hts
  have hM : ¬ M = minI64 := by omega
  have hm : ¬ m = maxI64 := by omega
  rw [if_neg hM, if_neg hm]
  exact ⟨a, b⟩

theorem blockLoop_noskip_complete (input : List Sample) (d : Int) (N : Nat) (maxt s0 : Int) (hd : 0 < d)
    (hok : ∀ j : Nat, ∃ ob n, windowPass d N (s0 + j * d) input = .ok (ob, n)) (fuel : Nat) :
    ∀ (j : Nat) (next : Int) (acc : List Block),
      (blockLoop false d N maxt input fuel (s0 + j * d) next acc).1 = none ∧
      (∀ b ∈ acc, b ∈ (blockLoop false d N maxt input fuel (s0 + j * d) next acc).2) ∧
      ∀ j' : Nat, j ≤ j' → j' < j + fuel → s0 + j' * d ≤ maxt → ∀ b n,
        windowPass d N (s0 + j' * d) input = .ok (some b, n) →
        b ∈ (blockLoop false d N maxt input fuel (s0 + j * d) next acc).2 := by
  induction fuel with
  | zero =>
    intro j next acc
    refine ⟨rfl, fun b hb => hb, ?_⟩
    intro j' h1 h2; omega
  | succ f ih =>
    intro j next acc
    have hnext : s0 + (j : Int) * d + d = s0 + ((j + 1 : Nat) : Int) * d := by
      rw [Int.natCast_add, Int.add_mul]; simp; omega
    unfold blockLoop
    by_cases h1 : s0 + (j : Int) * d > maxt
    · rw [if_pos h1]
      refine ⟨rfl, fun b hb => hb, ?_⟩
      intro j' hj _ hle
      have : (j : Int) * d ≤ (j' : Int) * d := Int.mul_le_mul_of_nonneg_right (by omega) (by omega)
      omega
    · rw [if_neg h1]
      rw [if_neg (by simp : ¬ ((false : Bool) = true ∧ next ≠ maxI64 ∧ next ≥ s0 + (j : Int) * d + d))]
      obtain ⟨ob, n', hw⟩ := hok j
      rw [hw]
      simp only
      rw [hnext]
      obtain ⟨i1, i2, i3⟩ := ih (j + 1) n' (acc ++ ob.toList)
      refine ⟨i1, fun b hb => i2 b (List.mem_append_left _ hb), ?_⟩
      intro j' hj hlt hle b n hwb
      by_cases hjj : j' = j
      · subst hjj
        rw [hw] at hwb
        simp only [Except.ok.injEq, Prod.mk.injEq] at hwb
        apply i2
        rw [hwb.1]; simp
      · exact i3 j' (by omega) (by omega) hle b n hwb

end Prom.Backfill
