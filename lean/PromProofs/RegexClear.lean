import PromProofs.RegexNodes
/-
  Helper lemmas for C17: `clearCapture` and the begin/end-text stripping of `clearBeginEndText` /
  `optimizeConcatRegex` keep the language of the (fully anchored) expression.
-/
namespace Prom.Regex

theorem toBin_clearCap : ∀ r : Re, toBin (clearCap r) = toBin r
  | .cap r => by simp [clearCap, toBin, toBin_clearCap r]
  | .lit _ _ => rfl
  | .cls _ _ => rfl
  | .any => rfl
  | .anyNotNL => rfl
  | .noMatch => rfl
  | .empty _ => rfl
  | .bot => rfl
  | .eot => rfl
  | .cat _ => rfl
  | .alt _ => rfl
  | .star _ => rfl
  | .plus _ => rfl
  | .quest _ => rfl
  | .rep _ _ _ => rfl

/-- `clearCapture` does not change the language. -/
theorem clearCap_L (r : Re) (s : Str) : L (clearCap r) s ↔ L r s := by
  unfold L; rw [toBin_clearCap]

/-- stripping a leading `\A` of a top-level concatenation does not change the language -/
theorem strip_bot_L (rest : List Re) (s : Str) : L (.cat (.bot :: rest)) s ↔ L (.cat rest) s := by
  simp only [L, toBin, toBinCat, M_cat, M_bol]
  constructor
  · rintro ⟨s1, s2, rfl, ⟨rfl, _⟩, h⟩; simpa using h
  · intro h; exact ⟨[], s, rfl, by simp, by simpa using h⟩

theorem strip_eot_M : ∀ (l : List Re) (b : Bool) (s : Str),
    M (toBinCat (l ++ [.eot])) b true s ↔ M (toBinCat l) b true s
  | [], b, s => by
    simp only [List.nil_append, toBinCat, toBin, M_cat, M_eol, M_eps]
    constructor
    · rintro ⟨s1, s2, rfl, ⟨rfl, _⟩, rfl⟩; rfl
    · rintro rfl; exact ⟨[], [], rfl, by simp, rfl⟩
  | x :: rest, b, s => by
    simp only [List.cons_append, toBinCat, M_cat]
    constructor
    · rintro ⟨s1, s2, rfl, h1, h2⟩; exact ⟨s1, s2, rfl, h1, (strip_eot_M rest _ _).mp h2⟩
    · rintro ⟨s1, s2, rfl, h1, h2⟩; exact ⟨s1, s2, rfl, h1, (strip_eot_M rest _ _).mpr h2⟩

/-- stripping a trailing `\z` of a top-level concatenation does not change the language -/
theorem strip_eot_L (l : List Re) (s : Str) : L (.cat (l ++ [.eot])) s ↔ L (.cat l) s := by
  simp only [L, toBin]; exact strip_eot_M l true s

theorem isBot_eq {x : Re} (h : x.isBot = true) : x = .bot := by
  cases x <;> simp [Re.isBot] at h ⊢

theorem isEot_eq {x : Re} (h : x.isEot = true) : x = .eot := by
  cases x <;> simp [Re.isEot] at h ⊢

/-- `stripEnds` (the slicing done by `clearBeginEndText` / `optimizeConcatRegex`) keeps the language of the
    top-level concatenation -/
theorem stripEnds_L (subs : List Re) (s : Str) : L (.cat (stripEnds subs)) s ↔ L (.cat subs) s := by
  have hlast : ∀ l : List Re, L (.cat (match l.getLast? with
      | some y => if y.isEot then l.dropLast else l
      | none => l)) s ↔ L (.cat l) s := by
    intro l
    cases hg : l.getLast? with
    | none => simp
    | some y =>
      simp only
      split
      · next hy =>
        have hy' := isEot_eq hy
        subst hy'
        obtain ⟨ys, rfl⟩ := List.getLast?_eq_some_iff.mp hg
        rw [List.dropLast_concat]
        exact (strip_eot_L _ _).symm
      · rfl
  cases subs with
  | nil => simp [stripEnds]
  | cons x rest =>
    by_cases hx : x.isBot = true
    · have e : stripEnds (x :: rest) = (match rest.getLast? with
          | some y => if y.isEot then rest.dropLast else rest
          | none => rest) := by simp only [stripEnds, hx, if_true]; rfl
      rw [e]
      have hx' := isBot_eq hx
      subst hx'
      exact (hlast rest).trans (strip_bot_L rest s).symm
    · have e : stripEnds (x :: rest) = (match (x :: rest).getLast? with
          | some y => if y.isEot then (x :: rest).dropLast else (x :: rest)
          | none => x :: rest) := by simp only [stripEnds, hx]; rfl
      rw [e]
      exact hlast (x :: rest)

/-- `clearBeginEndText` on a top-level concatenation with at least two sub-expressions (what `findSetMatches` and
    `stringMatcherFromRegexp` do first) keeps the language -/
theorem clearBeginEndText_cat_L (a b : Re) (rest : List Re) (s : Str) :
    L (clearBeginEndText (.cat (a :: b :: rest))) s ↔ L (.cat (a :: b :: rest)) s := by
  simp only [clearBeginEndText, Re.subs]
  exact stripEnds_L _ s

end Prom.Regex
