import PromProofs.MergeHint
import PromProofs.MergeHintRead
/-
  C12 hint_sound_merge: glue between the chain-iterator trace (`Prom.Merge.drain_tr`) and `mergeRead`.
-/
namespace Prom.HintSuite
open Prom.Hist Prom.HistSuite

theorem toMergeInputs_shape : ∀ (srcs : List (List (Int × Hist))) (base : Nat),
    ∀ l ∈ (toMergeInputs base srcs).1, (∃ src ∈ srcs, l.map (·.t) = src.map (·.1)) ∧ ∀ s ∈ l, s.kind ≠ .float
  | [], _, l, hl => by simp [toMergeInputs] at hl
  | src :: rest, base, l, hl => by
    simp only [toMergeInputs, List.mem_cons] at hl
    rcases hl with rfl | hl
    · refine ⟨⟨src, by simp, ?_⟩, ?_⟩
      · simp only [List.map_map]
        have : ((fun (s : Merge.Sample) => s.t) ∘ fun (x : (Int × Hist) × Nat) =>
            ({ t := x.1.1, kind := if x.1.2.float then .fhist else .hist,
               payload := 4 * (base + x.2) + hintNum x.1.2.hint } : Merge.Sample)) = fun x => x.1.1 := rfl
        rw [this]
        have h2 : (fun (x : (Int × Hist) × Nat) => x.1.1) = (fun p : Int × Hist => p.1) ∘ Prod.fst := rfl
        rw [h2, ← List.map_map, List.zipIdx_map_fst]
      · intro s hs
        simp only [List.mem_map] at hs
        obtain ⟨x, _, rfl⟩ := hs
        simp only
        split <;> simp
    · obtain ⟨⟨s0, hs0, he⟩, hk⟩ := toMergeInputs_shape rest _ l hl
      exact ⟨⟨s0, by simp [hs0], he⟩, hk⟩

/-- **hint_sound_merge.**  Merging hint-sound sources whose timestamps are strictly increasing (what series
    iterators deliver) with the transcribed `chainSampleIterator` gives a hint-sound stream. -/
theorem mergeRead_sound (srcs : List (List (Int × Hist))) (out : List (Int × Hist))
    (hs : ∀ s ∈ srcs, hintsSound s = true) (hsorted : ∀ s ∈ srcs, (s.map (·.1)).Pairwise (· < ·))
    (h : mergeRead srcs = some out) : hintsSound out = true := by
  have hso : ∀ l ∈ (toMergeInputs 0 srcs).1, Merge.SortedL l := by
    intro l hl
    obtain ⟨⟨src, hsrc, he⟩, _⟩ := toMergeInputs_shape srcs 0 l hl
    have := hsorted src hsrc
    rw [← he] at this
    exact (List.pairwise_map.1 this)
  refine mergeRead_sound_of_tr srcs out hs (fun r o hd => (Merge.drain_tr _ hso r o hd).1) ?_ h
  intro r o hd s hsr
  obtain ⟨l, hl, hsl⟩ := (Merge.drain_tr _ hso r o hd).2 s hsr
  exact (toMergeInputs_shape srcs 0 l hl).2 s hsl

end Prom.HintSuite
