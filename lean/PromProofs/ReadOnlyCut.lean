import PromModel.Tsdb.ReadOnly
/-
  Helper lemmas for C53 (cutoff side): when `MaxTime` is monotone in `MinTime` over the blocks, the
  last block by `MinTime` carries the largest `MaxTime`, so the read-only cutoff is the read-write one.
-/
namespace Prom.Db
open Prom.Intervals

/-- The blocks' `MaxTime`s are int64 values and grow with `MinTime`. -/
def BlocksOk (d : Db) : Prop :=
  ∀ b ∈ d.blocks, MinI64 ≤ b.maxt ∧ ∀ c ∈ d.blocks, b.mint ≤ c.mint → b.maxt ≤ c.maxt

theorem mem_insertByMint (b x : Block) (S : List Block) : x ∈ insertByMint b S ↔ x = b ∨ x ∈ S := by
  induction S with
  | nil => simp [insertByMint]
  | cons c cs ih =>
    simp only [insertByMint]
    split
    · simp
    · simp [ih, or_left_comm]

theorem mem_sortByMint (x : Block) (L : List Block) : x ∈ sortByMint L ↔ x ∈ L := by
  induction L with
  | nil => simp [sortByMint]
  | cons c cs ih =>
    have : sortByMint (c :: cs) = insertByMint c (sortByMint cs) := rfl
    rw [this, mem_insertByMint, ih]; simp

theorem sorted_insertByMint (b : Block) (S : List Block) (h : S.Pairwise (fun x y => x.mint ≤ y.mint)) :
    (insertByMint b S).Pairwise (fun x y => x.mint ≤ y.mint) := by
  induction S with
  | nil => simp [insertByMint]
  | cons c cs ih =>
    have hc := List.pairwise_cons.mp h
    simp only [insertByMint]
    split
    · refine List.pairwise_cons.mpr ⟨?_, h⟩
      intro x hx
      rcases List.mem_cons.mp hx with rfl | hx
      · assumption
      · have := hc.1 x hx; omega
    · refine List.pairwise_cons.mpr ⟨?_, ih hc.2⟩
      intro x hx
      rcases (mem_insertByMint b x cs).mp hx with rfl | hx
      · omega
      · exact hc.1 x hx

theorem sorted_sortByMint (L : List Block) : (sortByMint L).Pairwise (fun x y => x.mint ≤ y.mint) := by
  induction L with
  | nil => simp [sortByMint]
  | cons c cs ih => exact sorted_insertByMint c _ ih

theorem getLast_max (S : List Block) (h : S.Pairwise (fun x y => x.mint ≤ y.mint)) (l : Block)
    (hl : S.getLast? = some l) : l ∈ S ∧ ∀ b ∈ S, b.mint ≤ l.mint := by
  induction S with
  | nil => simp at hl
  | cons c cs ih =>
    have hc := List.pairwise_cons.mp h
    cases cs with
    | nil =>
      simp at hl; subst hl
      simp
    | cons e es =>
      rw [List.getLast?_cons_cons] at hl
      obtain ⟨hm, hmax⟩ := ih hc.2 hl
      refine ⟨List.mem_cons_of_mem _ hm, ?_⟩
      intro b hb
      rcases List.mem_cons.mp hb with rfl | hb
      · exact hc.1 l hm
      · exact hmax b hb

theorem foldl_max_ge (L : List Block) (m : Int) :
    m ≤ L.foldl (fun m b => max m b.maxt) m ∧ ∀ b ∈ L, b.maxt ≤ L.foldl (fun m b => max m b.maxt) m := by
  induction L generalizing m with
  | nil => simp
  | cons c cs ih =>
    simp only [List.foldl_cons]
    have := ih (max m c.maxt)
    refine ⟨by omega, ?_⟩
    intro b hb
    rcases List.mem_cons.mp hb with rfl | hb
    · omega
    · exact this.2 b hb

theorem foldl_max_mem (L : List Block) (m : Int) :
    L.foldl (fun m b => max m b.maxt) m = m ∨ ∃ b ∈ L, L.foldl (fun m b => max m b.maxt) m = b.maxt := by
  induction L generalizing m with
  | nil => simp
  | cons c cs ih =>
    simp only [List.foldl_cons]
    rcases ih (max m c.maxt) with h | ⟨b, hb, h⟩
    · rw [h]
      by_cases hm : m ≤ c.maxt
      · exact Or.inr ⟨c, List.mem_cons_self, by omega⟩
      · exact Or.inl (by omega)
    · exact Or.inr ⟨b, List.mem_cons_of_mem _ hb, h⟩

/-- The read-only cutoff (last block by MinTime) is the read-write cutoff (largest MaxTime). -/
theorem roCut_eq_rwCut (d : Db) (h : BlocksOk d) : d.openReadOnly.maxBlockTime = d.rwCut := by
  unfold Db.openReadOnly Db.rwCut
  simp only
  cases hl : (sortByMint d.blocks).getLast? with
  | none =>
    have : sortByMint d.blocks = [] := List.getLast?_eq_none_iff.mp hl
    have hb : d.blocks = [] := by
      cases hd : d.blocks with
      | nil => rfl
      | cons c cs =>
        have : c ∈ sortByMint d.blocks := (mem_sortByMint c _).mpr (by rw [hd]; exact List.mem_cons_self)
        simp_all
    simp [hb]
  | some l =>
    simp only
    obtain ⟨hm, hmax⟩ := getLast_max _ (sorted_sortByMint d.blocks) l hl
    have hm' : l ∈ d.blocks := (mem_sortByMint l _).mp hm
    have hge := (foldl_max_ge d.blocks MinI64).2 l hm'
    rcases foldl_max_mem d.blocks MinI64 with e | ⟨b, hb, e⟩
    · have := (h l hm').1; omega
    · have := (h b hb).2 l hm' (hmax b ((mem_sortByMint b _).mpr hb)); omega

end Prom.Db
