import PromModel.Tsdb.DbModel
/-
  Generic list lemmas for the C01 refinement proof: strictly increasing lists are determined by
  their members, `mergeSmps`, `sortIdxs`, and the shape lemma for "sorted keys, filterMap".
-/
namespace Prom.Db
open Prom.Intervals

/-- Strictly increasing in `t`. -/
def SInc (xs : List Smp) : Prop := xs.Pairwise (fun x y => x.t < y.t)

theorem pairwise_ext {α : Type} {r : α → α → Prop} (irr : ∀ a, ¬ r a a)
    (asym : ∀ a b, r a b → ¬ r b a) :
    ∀ (xs ys : List α), xs.Pairwise r → ys.Pairwise r → (∀ x, x ∈ xs ↔ x ∈ ys) → xs = ys
  | [], [], _, _, _ => rfl
  | [], y :: ys, _, _, h => by have := (h y).2 (by simp); simp at this
  | x :: xs, [], _, _, h => by have := (h x).1 (by simp); simp at this
  | x :: xs, y :: ys, hx, hy, h => by
    rw [List.pairwise_cons] at hx hy
    have hxy : x = y := by
      have h1 := (h x).1 (by simp)
      have h2 := (h y).2 (by simp)
      rw [List.mem_cons] at h1 h2
      rcases h1 with h1 | h1
      · exact h1
      · rcases h2 with h2 | h2
        · exact h2.symm
        · exact absurd (hx.1 y h2) (asym _ _ (hy.1 x h1))
    subst hxy
    have : xs = ys := by
      apply pairwise_ext irr asym xs ys hx.2 hy.2
      intro z
      constructor
      · intro hz
        have := (h z).1 (by simp [hz])
        rw [List.mem_cons] at this
        rcases this with e | e
        · subst e; exact absurd (hx.1 z hz) (irr _)
        · exact e
      · intro hz
        have := (h z).2 (by simp [hz])
        rw [List.mem_cons] at this
        rcases this with e | e
        · subst e; exact absurd (hy.1 z hz) (irr _)
        · exact e
    rw [this]

theorem SInc.ext {xs ys : List Smp} (hx : SInc xs) (hy : SInc ys) (h : ∀ x, x ∈ xs ↔ x ∈ ys) :
    xs = ys :=
  pairwise_ext (r := fun x y : Smp => x.t < y.t) (fun a => by omega) (fun a b => by omega) xs ys hx hy h

theorem SInc.filter {xs : List Smp} (p : Smp → Bool) (h : SInc xs) : SInc (xs.filter p) :=
  List.Pairwise.filter p h

theorem SInc.t_inj {xs : List Smp} (h : SInc xs) {x y : Smp} (hx : x ∈ xs) (hy : y ∈ xs)
    (e : x.t = y.t) : x = y := by
  induction xs with
  | nil => simp at hx
  | cons a as ih =>
    rw [SInc, List.pairwise_cons] at h
    rw [List.mem_cons] at hx hy
    rcases hx with hx | hx <;> rcases hy with hy | hy
    · rw [hx, hy]
    · subst hx; have := h.1 y hy; omega
    · subst hy; have := h.1 x hx; omega
    · exact ih h.2 hx hy

theorem SInc.append_one {xs : List Smp} {x : Smp} (h : SInc xs) (hlt : ∀ y ∈ xs, y.t < x.t) :
    SInc (xs ++ [x]) := by
  rw [SInc, List.pairwise_append]
  refine ⟨h, by simp, ?_⟩
  intro a ha b hb
  simp at hb; subst hb; exact hlt a ha

theorem SInc.le_getLast {xs : List Smp} (h : SInc xs) {l : Smp} (hl : xs.getLast? = some l) :
    ∀ y ∈ xs, y.t ≤ l.t := by
  intro y hy
  obtain ⟨ys, rfl⟩ : ∃ ys, xs = ys ++ [l] := by
    rcases List.eq_nil_or_concat xs with e | ⟨L, b, e⟩
    · subst e; simp at hl
    · subst e; simp at hl; subst hl; exact ⟨L, by simp⟩
  rw [SInc, List.pairwise_append] at h
  rw [List.mem_append] at hy
  rcases hy with hy | hy
  · have := h.2.2 y hy l (by simp); omega
  · simp at hy; subst hy; omega

theorem getLast?_mem {α} {xs : List α} {l : α} (hl : xs.getLast? = some l) : l ∈ xs :=
  List.mem_of_getLast? hl

theorem SInc.head_le {xs : List Smp} (h : SInc xs) {f : Smp} (hf : xs.head? = some f) :
    ∀ y ∈ xs, f.t ≤ y.t := by
  intro y hy
  cases xs with
  | nil => simp at hf
  | cons a as =>
    simp at hf; subst hf
    rw [SInc, List.pairwise_cons] at h
    rw [List.mem_cons] at hy
    rcases hy with hy | hy
    · subst hy; omega
    · have := h.1 y hy; omega

/-! ### mergeSmps -/

theorem mem_mergeAux_imp : ∀ (n : Nat) (xs ys : List Smp) (z : Smp),
    z ∈ mergeSmpsAux n xs ys → z ∈ xs ∨ z ∈ ys := by
  intro n xs ys z
  fun_induction mergeSmpsAux n xs ys with
  | case1 xs ys => intro h; simpa using h
  | case2 n ys => intro h; exact Or.inr h
  | case3 n xs _ => intro h; exact Or.inl h
  | case4 n x xs y ys hlt ih =>
    intro h; rw [List.mem_cons] at h
    rcases h with h | h
    · subst h; simp
    · rcases ih h with h | h
      · left; simp [h]
      · right; exact h
  | case5 n x xs y ys h1 hlt ih =>
    intro h; rw [List.mem_cons] at h
    rcases h with h | h
    · subst h; simp
    · rcases ih h with h | h
      · left; exact h
      · right; simp [h]
  | case6 n x xs y ys h1 h2 ih =>
    intro h; rw [List.mem_cons] at h
    rcases h with h | h
    · subst h; simp
    · rcases ih h with h | h
      · left; simp [h]
      · right; simp [h]

/-- With enough fuel and compatible inputs (equal timestamps mean equal samples) the merge contains
    exactly the members of both lists. -/
theorem mem_mergeAux : ∀ (n : Nat) (xs ys : List Smp) (z : Smp),
    xs.length + ys.length ≤ n →
    (∀ x ∈ xs, ∀ y ∈ ys, x.t = y.t → x = y) →
    (z ∈ mergeSmpsAux n xs ys ↔ z ∈ xs ∨ z ∈ ys) := by
  intro n xs ys z
  fun_induction mergeSmpsAux n xs ys with
  | case1 xs ys => intro _ _; simp
  | case2 n ys => intro _ _; simp
  | case3 n xs _ => intro _ _; simp
  | case4 n x xs y ys hlt ih =>
    intro hn hc
    have := ih (by simp at hn ⊢; omega) (fun a ha b hb => hc a (by simp [ha]) b hb)
    rw [List.mem_cons, this]; simp only [List.mem_cons]; grind
  | case5 n x xs y ys h1 hlt ih =>
    intro hn hc
    have := ih (by simp at hn ⊢; omega) (fun a ha b hb => hc a ha b (by simp [hb]))
    rw [List.mem_cons, this]; simp only [List.mem_cons]; grind
  | case6 n x xs y ys h1 h2 ih =>
    intro hn hc
    have e : x = y := hc x (by simp) y (by simp) (by omega)
    subst e
    have := ih (by simp at hn ⊢; omega) (fun a ha b hb => hc a (by simp [ha]) b (by simp [hb]))
    rw [List.mem_cons, this]; simp only [List.mem_cons]; grind

theorem sinc_mergeAux : ∀ (n : Nat) (xs ys : List Smp),
    xs.length + ys.length ≤ n → SInc xs → SInc ys → SInc (mergeSmpsAux n xs ys) := by
  intro n xs ys
  fun_induction mergeSmpsAux n xs ys with
  | case1 xs ys =>
    intro hn _ _
    have h1 : xs = [] := by cases xs <;> simp at hn ⊢
    have h2 : ys = [] := by cases ys <;> simp at hn ⊢
    subst h1 h2; simp [SInc]
  | case2 n ys => intro _ _ h; exact h
  | case3 n xs _ => intro _ h _; exact h
  | case4 n x xs y ys hlt ih =>
    intro hn hx hy
    rw [SInc, List.pairwise_cons] at hx
    have hy' := hy
    rw [SInc, List.pairwise_cons] at hy'
    rw [SInc, List.pairwise_cons]
    refine ⟨?_, ih (by simp at hn ⊢; omega) hx.2 hy⟩
    intro z hz
    rcases mem_mergeAux_imp _ _ _ _ hz with h | h
    · exact hx.1 z h
    · rw [List.mem_cons] at h
      rcases h with h | h
      · subst h; exact hlt
      · have := hy'.1 z h; omega
  | case5 n x xs y ys h1 hlt ih =>
    intro hn hx hy
    rw [SInc, List.pairwise_cons] at hy
    have hx' := hx
    rw [SInc, List.pairwise_cons] at hx'
    rw [SInc, List.pairwise_cons]
    refine ⟨?_, ih (by simp at hn ⊢; omega) hx hy.2⟩
    intro z hz
    rcases mem_mergeAux_imp _ _ _ _ hz with h | h
    · rw [List.mem_cons] at h
      rcases h with h | h
      · subst h; exact hlt
      · have := hx'.1 z h; omega
    · exact hy.1 z h
  | case6 n x xs y ys h1 h2 ih =>
    intro hn hx hy
    rw [SInc, List.pairwise_cons] at hx hy
    rw [SInc, List.pairwise_cons]
    refine ⟨?_, ih (by simp at hn ⊢; omega) hx.2 hy.2⟩
    intro z hz
    rcases mem_mergeAux_imp _ _ _ _ hz with h | h
    · exact hx.1 z h
    · have := hy.1 z h; omega

theorem mem_mergeSmps {xs ys : List Smp} (hc : ∀ x ∈ xs, ∀ y ∈ ys, x.t = y.t → x = y) (z : Smp) :
    z ∈ mergeSmps xs ys ↔ z ∈ xs ∨ z ∈ ys :=
  mem_mergeAux _ xs ys z (Nat.le_refl _) hc

theorem sinc_mergeSmps {xs ys : List Smp} (hx : SInc xs) (hy : SInc ys) : SInc (mergeSmps xs ys) :=
  sinc_mergeAux _ xs ys (Nat.le_refl _) hx hy

/-! ### sortIdxs -/

theorem mem_insertIdx (i z : Nat) (l : List Nat) : z ∈ insertIdx i l ↔ z = i ∨ z ∈ l := by
  induction l with
  | nil => simp [insertIdx]
  | cons j js ih =>
    simp only [insertIdx]
    split
    · simp
    · split
      · rename_i h; subst h; simp
      · simp [ih]; grind

theorem pairwise_insertIdx (i : Nat) (l : List Nat) (h : l.Pairwise (· < ·)) :
    (insertIdx i l).Pairwise (· < ·) := by
  induction l with
  | nil => simp [insertIdx]
  | cons j js ih =>
    rw [List.pairwise_cons] at h
    simp only [insertIdx]
    split
    · rename_i hlt
      rw [List.pairwise_cons]
      refine ⟨?_, List.pairwise_cons.2 h⟩
      intro z hz; rw [List.mem_cons] at hz
      rcases hz with hz | hz
      · omega
      · have := h.1 z hz; omega
    · split
      · exact List.pairwise_cons.2 h
      · rw [List.pairwise_cons]
        refine ⟨?_, ih h.2⟩
        intro z hz; rw [mem_insertIdx] at hz
        rcases hz with hz | hz
        · omega
        · exact h.1 z hz

theorem mem_sortIdxs (z : Nat) (l : List Nat) : z ∈ sortIdxs l ↔ z ∈ l := by
  induction l with
  | nil => simp [sortIdxs]
  | cons j js ih =>
    have : sortIdxs (j :: js) = insertIdx j (sortIdxs js) := rfl
    rw [this, mem_insertIdx, ih]; simp

theorem pairwise_sortIdxs (l : List Nat) : (sortIdxs l).Pairwise (· < ·) := by
  induction l with
  | nil => simp [sortIdxs]
  | cons j js ih =>
    have : sortIdxs (j :: js) = insertIdx j (sortIdxs js) := rfl
    rw [this]; exact pairwise_insertIdx _ _ ih

theorem filterMap_filter_isSome {α β} (g : α → Option β) (l : List α) :
    l.filterMap g = (l.filter fun i => (g i).isSome).filterMap g := by
  induction l with
  | nil => rfl
  | cons a as ih =>
    cases h : g a with
    | none => simp [h, ih]
    | some b => simp [h, ← ih]

/-- The rows of a query depend only on the keys that have a row. -/
theorem filterMap_sortIdxs_congr {β} (g : Nat → Option β) (K1 K2 : List Nat)
    (h1 : ∀ i, i ∉ K1 → g i = none) (h2 : ∀ i, i ∉ K2 → g i = none) :
    (sortIdxs K1).filterMap g = (sortIdxs K2).filterMap g := by
  rw [filterMap_filter_isSome g (sortIdxs K1), filterMap_filter_isSome g (sortIdxs K2)]
  congr 1
  apply pairwise_ext (r := fun a b : Nat => a < b) (fun a => by omega) (fun a b => by omega)
  · exact List.Pairwise.filter _ (pairwise_sortIdxs K1)
  · exact List.Pairwise.filter _ (pairwise_sortIdxs K2)
  · intro i
    simp only [List.mem_filter, mem_sortIdxs]
    constructor
    · intro ⟨_, hs⟩
      refine ⟨?_, hs⟩
      apply Classical.byContradiction; intro hn; rw [h2 i hn] at hs; simp at hs
    · intro ⟨_, hs⟩
      refine ⟨?_, hs⟩
      apply Classical.byContradiction; intro hn; rw [h1 i hn] at hs; simp at hs

end Prom.Db
