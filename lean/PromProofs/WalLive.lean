import PromProofs.WalRoundtrip
import PromProofs.WalLayout
/-
  C13 helper lemmas for the LiveReader (`lrReadRecord`, `lrBuild`, `lrNext`, `lrDrain`, `liveRun`).

  `LToks off idx pre R out`: the byte string `R`, standing at file offset `off`, is a sequence of whole
  tokens (data fragments that stay inside their page, page padding up to the page end) whose fragment
  types are in sequence for a reader with fragment index `idx` and partial record `pre`, and `out` are the
  records it completes.  The LiveReader is simulated against this structure: its buffer is always a
  (partially filled) page of the file, `readIndex` a token boundary.
-/
namespace Prom.Wal

/-! ### Token structure -/

inductive LToks (ps : Nat) (crc : Crc) : Nat → Nat → Bytes → Bytes → List Bytes → Prop
  | nil (off idx : Nat) (pre : Bytes) : LToks ps crc off idx pre [] []
  | pad (off idx : Nat) (pre : Bytes) (n : Nat) (rest : Bytes) (out : List Bytes) :
      0 < n → n = ps - off % ps → LToks ps crc (off + n) idx pre rest out →
      LToks ps crc off idx pre (zeros n ++ rest) out
  | cont (off idx : Nat) (pre : Bytes) (typ : UInt8) (part rest : Bytes) (out : List Bytes) :
      (typ = recFirst ∨ typ = recMiddle) → validateRecord typ idx = none →
      off % ps + 7 + part.length ≤ ps →
      LToks ps crc (off + (part.length + 7)) (idx + 1) ((if typ = recFirst then [] else pre) ++ part) rest out →
      LToks ps crc off idx pre (frame crc typ part ++ rest) out
  | fin (off idx : Nat) (pre : Bytes) (typ : UInt8) (part rest : Bytes) (out : List Bytes) :
      (typ = recLast ∨ typ = recFull) → validateRecord typ idx = none →
      off % ps + 7 + part.length ≤ ps →
      LToks ps crc (off + (part.length + 7)) 0 ((if typ = recFull then [] else pre) ++ part) rest out →
      LToks ps crc off idx pre (frame crc typ part ++ rest)
        (((if typ = recFull then [] else pre) ++ part) :: out)

/-- The first token of `R` (at file offset `off`) does not lie wholly inside the first `ulen` bytes. -/
def Blocked (ps : Nat) (crc : Crc) (off ulen : Nat) (R : Bytes) : Prop :=
  R = [] ∨
  (∃ typ part rest, DataTyp typ ∧ R = frame crc typ part ++ rest ∧ off % ps + 7 + part.length ≤ ps ∧
    ulen < 7 + part.length) ∨
  (∃ n rest, R = zeros n ++ rest ∧ n = ps - off % ps ∧ ulen < n)

theorem LToks.blocked_zero {ps : Nat} {crc : Crc} {off idx : Nat} {pre R : Bytes} {out : List Bytes}
    (h : LToks ps crc off idx pre R out) : Blocked ps crc off 0 R := by
  cases h with
  | nil => exact Or.inl rfl
  | pad _ _ _ n rest out hn hn' _ => exact Or.inr (Or.inr ⟨n, rest, rfl, hn', hn⟩)
  | cont _ _ _ typ part rest out hty _ hfit _ =>
    refine Or.inr (Or.inl ⟨typ, part, rest, ?_, rfl, hfit, by omega⟩)
    rcases hty with h | h <;> simp [DataTyp, h]
  | fin _ _ _ typ part rest out hty _ hfit _ =>
    refine Or.inr (Or.inl ⟨typ, part, rest, ?_, rfl, hfit, by omega⟩)
    rcases hty with h | h <;> simp [DataTyp, h]

/-! ### `readRecord` on whole and partial tokens -/

theorem dataTyp_ne_zero {typ : UInt8} (h : DataTyp typ) : typ ≠ 0 := by
  rcases h with h | h | h | h <;> subst h <;> decide

theorem dataTyp_mask {typ : UInt8} (h : DataTyp typ) : typ &&& recTypeMask = typ := by
  rcases h with h | h | h | h <;> subst h <;> decide

theorem dataTyp_nocomp {typ : UInt8} (h : DataTyp typ) :
    ¬ (typ &&& snappyMask = snappyMask ∨ typ &&& zstdMask = zstdMask) := by
  rcases h with h | h | h | h <;> subst h <;> decide

/-- A whole fragment in the unread part of the buffer. -/
theorem lrRead_frame (ps : Nat) (crc : Crc) (st : LState) (typ : UInt8) (part x : Bytes)
    (hty : DataTyp typ) (hfit : 7 + part.length ≤ ps) (h16 : part.length < 65536)
    (hu : st.buf.drop st.readIndex = frame crc typ part ++ x) :
    lrReadRecord ps crc st = .frag typ part (part.length + 7) := by
  have hlen : st.buf.length - st.readIndex = 7 + part.length + x.length := by
    have := congrArg List.length hu
    simpa [frame_length] using this
  have hrd := rd16_be16 part.length h16
  unfold lrReadRecord
  rw [hu]
  simp only [frame, be16, be32, List.cons_append, List.nil_append, dataTyp_ne_zero hty, if_false]
  have h1 : ¬ (st.buf.length - st.readIndex < hdrSize) := by simp [hdrSize]; omega
  simp only [h1, if_false, hrd]
  have h2 : ¬ (7 + part.length > ps) := by omega
  have h3 : ¬ (st.readIndex + 7 + part.length > st.buf.length) := by omega
  simp only [hdrSize, h2, h3, if_false, List.take_left' rfl, ne_eq, not_true_eq_false]

/-- A fragment that is only partly in the unread part of the buffer: wait. -/
theorem lrRead_frame_partial (ps : Nat) (crc : Crc) (st : LState) (typ : UInt8) (part rest : Bytes)
    (hty : DataTyp typ) (hfit : 7 + part.length ≤ ps) (h16 : part.length < 65536)
    (hu : st.buf.drop st.readIndex = (frame crc typ part ++ rest).take (st.buf.length - st.readIndex))
    (hlt : st.buf.length - st.readIndex < 7 + part.length) :
    lrReadRecord ps crc st = .eof := by
  have hrd := rd16_be16 part.length h16
  unfold lrReadRecord
  rw [hu]
  by_cases h7 : st.buf.length - st.readIndex < 7
  · -- not even a header
    by_cases h0 : st.buf.length - st.readIndex = 0
    · rw [h0]; simp
    · obtain ⟨m, hm⟩ : ∃ m, st.buf.length - st.readIndex = m + 1 :=
        ⟨st.buf.length - st.readIndex - 1, by omega⟩
      rw [hm]
      simp only [frame, List.cons_append, List.take_succ_cons, dataTyp_ne_zero hty, if_false]
      have : st.buf.length - st.readIndex < hdrSize := by simp [hdrSize]; omega
      simp [this]
  · obtain ⟨k, hk⟩ : ∃ k, st.buf.length - st.readIndex = k + 7 := ⟨st.buf.length - st.readIndex - 7, by omega⟩
    rw [hk]
    simp only [frame, be16, be32, List.cons_append, List.nil_append, List.take_succ_cons,
      dataTyp_ne_zero hty, if_false]
    have h1 : ¬ (st.buf.length - st.readIndex < 7) := by omega
    have h2 : ¬ (7 + part.length > ps) := by omega
    have h3 : st.readIndex + 7 + part.length > st.buf.length := by omega
    simp only [hdrSize, h1, if_false, hrd, h2, h3, if_true]

theorem take_zeros_append (n m : Nat) (rest : Bytes) (h : m ≤ n) :
    (zeros n ++ rest).take m = zeros m := by
  rw [List.take_append_of_le_length (by simp [zeros]; omega)]
  simp [zeros, List.take_replicate, Nat.min_eq_left h]

/-- A whole run of page padding in the unread part of the buffer. -/
theorem lrRead_pad (ps : Nat) (crc : Crc) (st : LState) (n : Nat) (x : Bytes)
    (hn : 0 < n) (hn' : n = ps - st.total % ps)
    (hu : st.buf.drop st.readIndex = zeros n ++ x) :
    lrReadRecord ps crc st = .skip n := by
  have hlen : st.buf.length - st.readIndex = n + x.length := by
    have := congrArg List.length hu
    simpa [zeros] using this
  obtain ⟨k, hk⟩ : ∃ k, n = k + 1 := ⟨n - 1, by omega⟩
  unfold lrReadRecord
  rw [hu]
  have hz : zeros n ++ x = 0 :: (zeros k ++ x) := by
    rw [hk]; simp [zeros, List.replicate_succ]
  rw [hz]
  simp only [if_true]
  rw [← hz, ← hn']
  have h1 : ¬ (st.readIndex + n > st.buf.length) := by omega
  rw [take_zeros_append n n x (Nat.le_refl _)]
  simp [h1, zeros, List.any_replicate]

/-- A run of page padding that is only partly in the unread part of the buffer: wait. -/
theorem lrRead_pad_partial (ps : Nat) (crc : Crc) (st : LState) (n : Nat) (rest : Bytes)
    (hn' : n = ps - st.total % ps)
    (hu : st.buf.drop st.readIndex = (zeros n ++ rest).take (st.buf.length - st.readIndex))
    (hlt : st.buf.length - st.readIndex < n) :
    lrReadRecord ps crc st = .eof := by
  unfold lrReadRecord
  rw [hu, take_zeros_append n _ rest (by omega)]
  by_cases h0 : st.buf.length - st.readIndex = 0
  · rw [h0]; simp [zeros]
  · obtain ⟨m, hm⟩ : ∃ m, st.buf.length - st.readIndex = m + 1 := ⟨st.buf.length - st.readIndex - 1, by omega⟩
    rw [hm]
    have hz : zeros (m + 1) = 0 :: zeros m := by simp [zeros, List.replicate_succ]
    rw [hz]
    simp only [if_true, ← hn']
    have h1 : st.readIndex + n > st.buf.length := by omega
    simp [h1]

/-! ### The buffer window -/

/-- The buffer is a (partly filled) page of the file and `readIndex` a position in it. -/
structure WinOK (ps : Nat) (st : LState) : Prop where
  le_total : st.readIndex ≤ st.total
  aligned : (st.total - st.readIndex) % ps = 0
  ri : st.readIndex ≤ st.buf.length
  cap : st.buf.length ≤ ps

/-- `st'` is `st` after consuming `k` buffered bytes. -/
def Adv (st st' : LState) (k : Nat) : Prop :=
  st'.buf = st.buf ∧ st'.readIndex = st.readIndex + k ∧ st'.total = st.total + k

theorem WinOK.total_mod {ps : Nat} {st : LState} (h : WinOK ps st) :
    st.total % ps = st.readIndex % ps := by
  have e : st.total = (st.total - st.readIndex) + st.readIndex := by have := h.le_total; omega
  rw [e, Nat.add_mod, h.aligned]; simp

/-- The unread bytes of the buffer end at the page end at the latest. -/
theorem WinOK.room {ps : Nat} {st : LState} (h : WinOK ps st) :
    st.buf.length - st.readIndex ≤ ps - st.total % ps := by
  have hm := h.total_mod
  have h1 := h.ri
  have h2 := h.cap
  by_cases hlt : st.readIndex < ps
  · rw [hm, Nat.mod_eq_of_lt hlt]; omega
  · omega

theorem WinOK.adv {ps : Nat} {st st' : LState} {k : Nat} (h : WinOK ps st) (ha : Adv st st' k)
    (hk : k ≤ st.buf.length - st.readIndex) : WinOK ps st' := by
  obtain ⟨hb, hr, ht⟩ := ha
  have h1 := h.ri
  have h2 := h.le_total
  refine ⟨by omega, ?_, by rw [hb]; omega, by rw [hb]; exact h.cap⟩
  have : st'.total - st'.readIndex = st.total - st.readIndex := by omega
  rw [this]; exact h.aligned

theorem take_append_ge {α} (a b : List α) (m : Nat) (h : a.length ≤ m) :
    (a ++ b).take m = a ++ b.take (m - a.length) := by
  rw [List.take_append, List.take_of_length_le h]

end Prom.Wal
