import PromProofs.DbTxn
/-
  C01 refinement, restart: `Db.reopen` restated as a fold of named step functions (`reSmp`, `reStone`,
  `reRec`) over the WAL with an explicit cutoff `c` (= the max block maxt), `Db.reopenWith []` is
  `Db.reopen`, and the structural facts about the replayed head that hold for EVERY WAL.
-/
namespace Prom.Db
open Prom.Intervals

/-- `minValidTime` at start-up: the largest block maxt (`MinInt64` without blocks). -/
def maxBlk (bs : List Block) : Int := bs.foldl (fun m b => max m b.maxt) MinI64

/-- The head before the WAL replay. -/
def reBase (d : Db) : Db :=
  if d.blocks.isEmpty then { cfg := d.cfg, blocks := d.blocks, wal := d.wal }
  else { cfg := d.cfg, minT := maxBlk d.blocks, maxT := maxBlk d.blocks, minValid := maxBlk d.blocks,
         blocks := d.blocks, wal := d.wal }

/-- The in-order insertion rule of the replay (no duplicate / value check). -/
def reIns (s : HSeries) (x : Smp) : HSeries :=
  match s.phys.getLast? with
  | some l => if l.t ≥ x.t then s else { s with phys := s.phys ++ [x] }
  | none => { s with phys := [x] }

/-- Replay of one logged sample with cutoff `c`. -/
def reSmp (c : Int) (acc : Db × Int × Int) (p : Nat × Smp) : Db × Int × Int :=
  if p.2.t < c then acc else
  (acc.1.setSeries (reIns (acc.1.getSeries p.1) p.2), min acc.2.1 p.2.t, max acc.2.2 p.2.t)

/-- Replay of one logged tombstone with cutoff `c`. -/
def reStone (c : Int) (h : Db) (p : Nat × Interval) : Db :=
  if p.2.maxt < c then h else
  if h.series.any (·.idx = p.1) then
    h.setSeries { h.getSeries p.1 with tombs := addTomb (h.getSeries p.1).tombs p.2 }
  else h

def reRec (c : Int) (acc : Db × Int × Int) : Rec → Db × Int × Int
  | .samples xs => xs.foldl (reSmp c) acc
  | .stones xs => (xs.foldl (reStone c) acc.1, acc.2.1, acc.2.2)

/-- The replayed head (before the final window adjustment), for cutoff `c`. -/
def reFold (c : Int) (base : Db) (wal : List Rec) : Db × Int × Int :=
  wal.foldl (reRec c) (base, MaxI64, MinI64)

def reFinish (acc : Db × Int × Int) : Db :=
  let h : Db := { acc.1 with minT := if acc.2.1 < acc.1.minT then acc.2.1 else acc.1.minT,
                             maxT := if acc.2.2 > acc.1.maxT then acc.2.2 else acc.1.maxT }
  let h := if h.minT < h.minValid then { h with minT := h.minValid } else h
  { h with series := h.series.filter fun s => !s.phys.isEmpty }

theorem reopen_eq (d : Db) : d.reopen = reFinish (reFold (maxBlk d.blocks) (reBase d) d.wal) := by
  rfl

end Prom.Db
