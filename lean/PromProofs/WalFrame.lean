import PromModel.Tsdb.WalFrame
/-
  Helper lemmas for C13 (core Lean only): how `rstep`/`rloop` consume one fragment, a run of page
  padding, and the bytes written for one record (`fragBytes`).
-/
namespace Prom.Wal

theorem rd16_be16 (n : Nat) (h : n < 65536) :
    rd16 (UInt8.ofNat (n % 65536 / 256)) (UInt8.ofNat (n % 256)) = n := by
  simp [rd16, UInt8.toNat_ofNat']; omega

theorem mod_add_lt {t ps a k : Nat} (h : t % ps = a) (hk : a + k < ps) : (t + k) % ps = a + k := by
  rw [Nat.add_mod, h]
  have : k % ps = k := Nat.mod_eq_of_lt (by omega)
  rw [this, Nat.mod_eq_of_lt hk]

theorem mod_add_eq {t ps a k : Nat} (h : t % ps = a) (hk : a + k = ps) : (t + k) % ps = 0 := by
  have hps : 0 < ps ∨ ps = 0 := by omega
  rcases hps with hps | hps
  · have e : t + k = (t / ps + 1) * ps := by
      have := Nat.div_add_mod t ps
      rw [Nat.add_mul, Nat.mul_comm]; omega
    rw [e]; exact Nat.mul_mod_left _ _
  · subst hps; simp at *; omega

/-- The four data fragment types. -/
def DataTyp (typ : UInt8) : Prop := typ = recFull ∨ typ = recFirst ∨ typ = recMiddle ∨ typ = recLast

/-- A type after which EOF is a clean end of the log. -/
def NonTorn (typ : UInt8) : Prop := typ ≠ recFirst ∧ typ ≠ recMiddle

theorem eofStatus_nonTorn {typ : UInt8} (h : NonTorn typ) (n : Nat) : eofStatus typ n = .eof n := by
  simp [eofStatus, h.1, h.2]

theorem frame_length (crc : Crc) (typ : UInt8) (part : Bytes) :
    (frame crc typ part).length = 7 + part.length := by
  simp [frame, be16, be32]; omega

/-- Reading one data fragment. -/
theorem rstep_frame (ps : Nat) (crc : Crc) (st : RState) (typ : UInt8) (part rest : Bytes)
    (hty : DataTyp typ) (hlen : part.length ≤ ps - 7) (h16 : part.length < 65536)
    (hv : validateRecord typ st.i = none) :
    rstep ps crc st (frame crc typ part ++ rest) =
      if typ = recLast ∨ typ = recFull then
        .emit (st.buf ++ part) ⟨st.total + 7 + part.length, 0, [], typ⟩ rest
      else .cont ⟨st.total + 7 + part.length, st.i + 1, st.buf ++ part, typ⟩ rest := by
  have hmask : typ &&& recTypeMask = typ := by
    rcases hty with h | h | h | h <;> subst h <;> decide
  have hne : typ ≠ recPageTerm := by
    rcases hty with h | h | h | h <;> subst h <;> decide
  have hsn : ¬ (typ &&& snappyMask = snappyMask ∨ typ &&& zstdMask = zstdMask) := by
    rcases hty with h | h | h | h <;> subst h <;> decide
  have hrd := rd16_be16 part.length h16
  simp only [frame, be16, be32, List.cons_append, List.nil_append, rstep, hmask, hne, if_false]
  simp only [hrd, hdrSize, List.length_cons, List.length_append]
  have h1 : ¬ (part.length + rest.length + 1 + 1 + 1 + 1 + 1 + 1 = 0) := by omega
  have h2 : ¬ (part.length + rest.length + 1 + 1 + 1 + 1 + 1 + 1 < 6) := by omega
  have h3 : ¬ (part.length > ps - 7) := by omega
  have h4 : ¬ (part.length > 0 ∧ part.length + rest.length = 0) := by omega
  have h5 : ¬ (part.length + rest.length < part.length) := by omega
  simp only [h1, h2, h3, h4, h5, if_false, List.take_left' rfl, List.drop_left' rfl, ne_eq,
    not_true_eq_false, hv, hsn]


/-- Reading a run of page padding: `n = ps - a` zeros from in-page offset `a > 0`. -/
theorem rstep_zeros (ps : Nat) (crc : Crc) (st : RState) (rest : Bytes) (a : Nat)
    (ha : st.total % ps = a) (hpos : 0 < a) (hlt : a < ps) :
    rstep ps crc st (zeros (ps - a) ++ rest) =
      .cont { st with total := st.total + (ps - a), typ := recPageTerm } rest := by
  obtain ⟨n, hn⟩ : ∃ n, ps - a = n + 1 := ⟨ps - a - 1, by omega⟩
  have hz : (0 : UInt8) &&& recTypeMask = recPageTerm := by decide
  simp only [hn, zeros, List.replicate_succ, List.cons_append, rstep, hz, if_true]
  by_cases h1 : n = 0
  · subst h1
    have : (st.total + 1) % ps = 0 := mod_add_eq ha (by omega)
    simp [this]
  · have hm : (st.total + 1) % ps = a + 1 := mod_add_lt ha (by omega)
    have hk : ps - (a + 1) = n := by omega
    have hne : ¬ (n = ps) := by omega
    simp only [hm, hk, hne, if_false, List.length_append, List.length_replicate]
    have h2 : ¬ (n + rest.length = 0) := by omega
    have h3 : ¬ (n + rest.length < n) := by omega
    have htake : List.take n (List.replicate n (0 : UInt8) ++ rest) = List.replicate n 0 :=
      List.take_left' (by simp)
    have hdrop : List.drop n (List.replicate n (0 : UInt8) ++ rest) = rest :=
      List.drop_left' (by simp)
    simp [h1, h3, htake, hdrop, List.any_replicate]
    omega

theorem rloop_nil (ps : Nat) (crc : Crc) (st : RState) :
    rloop ps crc st [] = ([], eofStatus st.typ st.total) := by
  rw [rloop]; simp [rstep]

theorem rloop_of_cont {ps : Nat} {crc : Crc} {st st' : RState} {s rest : Bytes}
    (h : rstep ps crc st s = .cont st' rest) (hl : rest.length < s.length) :
    rloop ps crc st s = rloop ps crc st' rest := by
  rw [rloop]; simp [h, hl]

theorem rloop_of_emit {ps : Nat} {crc : Crc} {st st' : RState} {s rest rec : Bytes}
    (h : rstep ps crc st s = .emit rec st' rest) (hl : rest.length < s.length) :
    rloop ps crc st s = (rec :: (rloop ps crc st' rest).1, (rloop ps crc st' rest).2) := by
  rw [rloop]; simp [h, hl]


/-! ### The bytes of one record -/

theorem fragBytes_fit (ps : Nat) (crc : Crc) (fuel i alloc : Nat) (enc : Bytes)
    (hfit : enc.length ≤ ps - alloc - 7) :
    fragBytes ps crc (fuel + 1) i alloc enc =
      frame crc (if i = 0 then recFull else recLast) enc ++
        zeros (if ps - (alloc + 7 + enc.length) < 7 then ps - (alloc + 7 + enc.length) else 0) := by
  have hl : min enc.length (ps - alloc - 7) = enc.length := Nat.min_eq_left hfit
  simp only [fragBytes, hdrSize, hl, List.take_length, List.drop_length, List.isEmpty_nil, if_true,
    and_true, List.append_nil]

theorem fragBytes_nofit (ps : Nat) (crc : Crc) (fuel i alloc : Nat) (enc : Bytes)
    (ha : alloc + 7 ≤ ps) (hno : ps - alloc - 7 < enc.length) :
    fragBytes ps crc (fuel + 1) i alloc enc =
      frame crc (if i = 0 then recFirst else recMiddle) (enc.take (ps - alloc - 7)) ++
        fragBytes ps crc fuel (i + 1) 0 (enc.drop (ps - alloc - 7)) := by
  have hl : min enc.length (ps - alloc - 7) = ps - alloc - 7 := Nat.min_eq_right (by omega)
  have hne : ¬ (ps - alloc - 7 = enc.length) := by omega
  have h1 : alloc + 7 + (ps - alloc - 7) = ps := by omega
  have hd : (enc.drop (ps - alloc - 7)).isEmpty = false := by
    cases h : enc.drop (ps - alloc - 7) with
    | nil => have := congrArg List.length h; simp at this; omega
    | cons _ _ => rfl
  simp only [fragBytes, hdrSize, hl, hne, and_false, if_false, h1, Nat.sub_self, hd]
  simp [zeros]

def prep (out : List Bytes) (r : List Bytes × Status) : List Bytes × Status := (out ++ r.1, r.2)

theorem validate_final (i : Nat) : validateRecord (if i = 0 then recFull else recLast) i = none := by
  by_cases h : i = 0
  · subst h; decide
  · have e : (if i = 0 then recFull else recLast) = recLast := by simp [h]
    rw [e]; simp [validateRecord, h]; decide

theorem validate_nonfinal (i : Nat) : validateRecord (if i = 0 then recFirst else recMiddle) i = none := by
  by_cases h : i = 0
  · subst h; decide
  · have e : (if i = 0 then recFirst else recMiddle) = recMiddle := by simp [h]
    rw [e]; simp [validateRecord, h]; decide

/-- Reading back what `fragBytes` wrote: from any reader state at in-page offset `alloc` whose fragment
    index agrees with the writer's, the record `b ++ enc` is returned and the reader stands at the end,
    at an offset where a header still fits. -/
theorem frag_reads (ps : Nat) (crc : Crc) (h8 : 8 ≤ ps) (hmax : ps ≤ 65542) :
    ∀ (fuel i alloc : Nat) (enc b : Bytes) (t : Nat) (ty : UInt8) (rest : Bytes),
      t % ps = alloc → alloc + 7 ≤ ps →
      2 * enc.length + (if ps - alloc - 7 = 0 then 1 else 0) + 1 ≤ fuel →
      ∃ ty' a', NonTorn ty' ∧ a' + 7 ≤ ps ∧
        (t + (fragBytes ps crc fuel i alloc enc).length) % ps = a' ∧
        rloop ps crc ⟨t, i, b, ty⟩ (fragBytes ps crc fuel i alloc enc ++ rest) =
          prep [b ++ enc]
            (rloop ps crc ⟨t + (fragBytes ps crc fuel i alloc enc).length, 0, [], ty'⟩ rest) := by
  intro fuel
  induction fuel with
  | zero => intro i alloc enc b t ty rest _ _ hf; omega
  | succ fuel ih =>
    intro i alloc enc b t ty rest ht ha hf
    by_cases hfit : enc.length ≤ ps - alloc - 7
    · -- final fragment
      rw [fragBytes_fit ps crc fuel i alloc enc hfit]
      have hty : DataTyp (if i = 0 then recFull else recLast) := by
        by_cases h : i = 0 <;> simp [h, DataTyp]
      have hfin : ((if i = 0 then recFull else recLast) = recLast ∨
          (if i = 0 then recFull else recLast) = recFull) := by
        by_cases h : i = 0 <;> simp [h]
      have hnt : NonTorn (if i = 0 then recFull else recLast) := by
        by_cases h : i = 0 <;> simp [h, NonTorn] <;> decide
      have hstep := rstep_frame ps crc ⟨t, i, b, ty⟩ _ enc
        (zeros (if ps - (alloc + 7 + enc.length) < 7 then ps - (alloc + 7 + enc.length) else 0) ++ rest)
        hty (by omega) (by omega) (validate_final i)
      simp only [hfin, if_true] at hstep
      rw [List.append_assoc, rloop_of_emit hstep (by simp [frame_length]; omega)]
      by_cases hpad : ps - (alloc + 7 + enc.length) < 7
      · simp only [hpad, if_true]
        by_cases hz : ps - (alloc + 7 + enc.length) = 0
        · -- the fragment ends exactly at the page end
          rw [hz]
          simp only [zeros, List.replicate_zero, List.nil_append, List.append_nil]
          refine ⟨_, 0, hnt, by omega, ?_, ?_⟩
          · rw [frame_length]
            exact mod_add_eq (k := 7 + enc.length) ht (by omega)
          · simp [prep, frame_length, Nat.add_assoc]
        · -- fewer than 7 bytes left: padding
          have hm : (t + 7 + enc.length) % ps = alloc + 7 + enc.length := by
            rw [Nat.add_assoc]; rw [Nat.add_assoc alloc]
            exact mod_add_lt ht (by omega)
          have hz := rstep_zeros ps crc ⟨t + 7 + enc.length, 0, [], if i = 0 then recFull else recLast⟩
            rest (alloc + 7 + enc.length) hm (by omega) (by omega)
          rw [rloop_of_cont hz (by simp [zeros]; omega)]
          refine ⟨recPageTerm, 0, ⟨by decide, by decide⟩, by omega, ?_, ?_⟩
          · simp only [List.length_append, frame_length, zeros, List.length_replicate]
            exact mod_add_eq (k := 7 + enc.length + (ps - (alloc + 7 + enc.length))) ht (by omega)
          · simp [prep, frame_length, zeros, Nat.add_assoc]
      · simp only [hpad, if_false, zeros, List.replicate_zero, List.nil_append, List.append_nil]
        refine ⟨_, alloc + 7 + enc.length, hnt, by omega, ?_, ?_⟩
        · rw [frame_length, Nat.add_assoc alloc]
          exact mod_add_lt ht (by omega)
        · simp [prep, frame_length, Nat.add_assoc]
    · -- non-final fragment filling the page
      have hno : ps - alloc - 7 < enc.length := by omega
      rw [fragBytes_nofit ps crc fuel i alloc enc ha hno]
      have hty : DataTyp (if i = 0 then recFirst else recMiddle) := by
        by_cases h : i = 0 <;> simp [h, DataTyp]
      have hfin : ¬ ((if i = 0 then recFirst else recMiddle) = recLast ∨
          (if i = 0 then recFirst else recMiddle) = recFull) := by
        by_cases h : i = 0 <;> simp [h] <;> decide
      have hlen : (enc.take (ps - alloc - 7)).length = ps - alloc - 7 := by
        simp [List.length_take]; omega
      have hstep := rstep_frame ps crc ⟨t, i, b, ty⟩ _ (enc.take (ps - alloc - 7))
        (fragBytes ps crc fuel (i + 1) 0 (enc.drop (ps - alloc - 7)) ++ rest)
        hty (by omega) (by omega) (validate_nonfinal i)
      simp only [hfin, if_false] at hstep
      rw [List.append_assoc, rloop_of_cont hstep (by simp only [List.length_append, frame_length]; omega)]
      have ht' : (t + 7 + (enc.take (ps - alloc - 7)).length) % ps = 0 := by
        rw [hlen, Nat.add_assoc]; exact mod_add_eq ht (by omega)
      have hfuel : 2 * (enc.drop (ps - alloc - 7)).length + (if ps - 0 - 7 = 0 then 1 else 0) + 1 ≤ fuel := by
        have h0 : ¬ (ps - 0 - 7 = 0) := by omega
        simp only [h0, if_false, List.length_drop]
        by_cases hr : ps - alloc - 7 = 0
        · simp [hr] at hf ⊢; omega
        · simp [hr] at hf; omega
      obtain ⟨ty', a', h1, h2, h3, h4⟩ := ih (i + 1) 0 (enc.drop (ps - alloc - 7))
        (b ++ enc.take (ps - alloc - 7)) (t + 7 + (enc.take (ps - alloc - 7)).length)
        (if i = 0 then recFirst else recMiddle) rest ht' (by omega) hfuel
      refine ⟨ty', a', h1, h2, ?_, ?_⟩
      · rw [← h3]; simp only [List.length_append, frame_length]; congr 1; omega
      · show rloop ps crc ⟨t + 7 + (enc.take (ps - alloc - 7)).length, i + 1, b ++ enc.take (ps - alloc - 7), _⟩ _ = _
        rw [h4]
        simp only [List.append_assoc, List.take_append_drop, List.length_append, frame_length]
        congr 3; omega

end Prom.Wal
