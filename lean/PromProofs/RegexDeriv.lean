import PromModel.Labels.Regex
/-
  Helper lemmas for C17: inversion of the matching relation `M`, correctness of `nullable`, the smart
  constructors and the derivative; `matchB r b s = true ↔ M r b true s`.
-/
namespace Prom.Regex

/-! ### inversion lemmas -/

theorem M_fail {b e s} : M .fail b e s ↔ False := by
  constructor
  · intro h; cases h
  · intro h; exact h.elim

theorem M_eps {b e s} : M .eps b e s ↔ s = [] := by
  constructor
  · intro h; cases h; rfl
  · intro h; subst h; exact M.eps

theorem M_bol {b e s} : M .bol b e s ↔ s = [] ∧ b = true := by
  constructor
  · intro h; cases h; exact ⟨rfl, rfl⟩
  · rintro ⟨h1, h2⟩; subst h1; subst h2; exact M.bol

theorem M_eol {b e s} : M .eol b e s ↔ s = [] ∧ e = true := by
  constructor
  · intro h; cases h; exact ⟨rfl, rfl⟩
  · rintro ⟨h1, h2⟩; subst h1; subst h2; exact M.eol

theorem M_chr {p b e s} : M (.chr p) b e s ↔ ∃ c, s = [c] ∧ p.test c = true := by
  constructor
  · intro h; cases h with | chr h => exact ⟨_, rfl, h⟩
  · rintro ⟨c, h1, h2⟩; subst h1; exact M.chr h2

theorem M_cat {x y b e s} : M (.cat x y) b e s ↔
    ∃ s1 s2, s = s1 ++ s2 ∧ M x b (e && s2.isEmpty) s1 ∧ M y (b && s1.isEmpty) e s2 := by
  constructor
  · intro h; cases h with | cat h1 h2 => exact ⟨_, _, rfl, h1, h2⟩
  · rintro ⟨s1, s2, h, h1, h2⟩; subst h; exact M.cat h1 h2

theorem M_alt {x y b e s} : M (.alt x y) b e s ↔ M x b e s ∨ M y b e s := by
  constructor
  · intro h
    cases h with
    | altL h => exact Or.inl h
    | altR h => exact Or.inr h
  · rintro (h | h)
    · exact M.altL h
    · exact M.altR h

theorem M_star {x b e s} : M (.star x) b e s ↔
    s = [] ∨ ∃ s1 s2, s = s1 ++ s2 ∧ s1 ≠ [] ∧ M x b (e && s2.isEmpty) s1 ∧ M (.star x) false e s2 := by
  constructor
  · intro h
    cases h with
    | starNil => exact Or.inl rfl
    | starCons hne h1 h2 => exact Or.inr ⟨_, _, rfl, hne, h1, h2⟩
  · rintro (h | ⟨s1, s2, h, hne, h1, h2⟩)
    · subst h; exact M.starNil
    · subst h; exact M.starCons hne h1 h2

/-! ### nullable -/

theorem nullable_iff (r : BRe) (b e : Bool) : nullable r b e = true ↔ M r b e [] := by
  induction r generalizing b e with
  | fail => simp [nullable, M_fail]
  | eps => simp [nullable, M_eps]
  | bol => simp [nullable, M_bol]
  | eol => simp [nullable, M_eol]
  | chr p => simp [nullable, M_chr]
  | cat x y ihx ihy =>
    simp only [nullable, Bool.and_eq_true, ihx, ihy, M_cat]
    constructor
    · rintro ⟨hx, hy⟩
      exact ⟨[], [], rfl, by simpa using hx, by simpa using hy⟩
    · rintro ⟨s1, s2, h, h1, h2⟩
      have h' := h.symm
      rw [List.append_eq_nil_iff] at h'
      obtain ⟨rfl, rfl⟩ := h'
      exact ⟨by simpa using h1, by simpa using h2⟩
  | alt x y ihx ihy => simp [nullable, ihx, ihy, M_alt]
  | star x _ => simp only [nullable, true_iff]; exact M.starNil

/-! ### smart constructors preserve the language -/

theorem mkCat_iff (x y : BRe) (b e : Bool) (s : Str) : M (mkCat x y) b e s ↔ M (.cat x y) b e s := by
  unfold mkCat
  split
  · simp [M_cat, M_fail]
  · simp [M_cat, M_fail]
  · simp only [M_cat, M_eps]
    constructor
    · intro h; exact ⟨[], s, rfl, rfl, by simpa using h⟩
    · rintro ⟨s1, s2, hs, h1, h2⟩
      subst h1
      simp only [List.nil_append] at hs
      subst hs
      simpa using h2
  · rfl

theorem mkAlt_iff (x y : BRe) (b e : Bool) (s : Str) : M (mkAlt x y) b e s ↔ M (.alt x y) b e s := by
  unfold mkAlt
  split
  · simp [M_alt, M_fail]
  · simp [M_alt, M_fail]
  · split
    · next h => subst h; simp [M_alt]
    · rfl

/-! ### the derivative -/

theorem deriv_iff (c : Nat) (r : BRe) (b e : Bool) (s : Str) :
    M (deriv c r b) false e s ↔ M r b e (c :: s) := by
  induction r generalizing b e s with
  | fail => simp [deriv, M_fail]
  | eps => simp [deriv, M_fail, M_eps]
  | bol => simp [deriv, M_fail, M_bol]
  | eol => simp [deriv, M_fail, M_eol]
  | chr p =>
    simp only [deriv, M_chr]
    split
    · next h =>
      simp only [M_eps]
      constructor
      · intro hs; subst hs; exact ⟨c, rfl, h⟩
      · rintro ⟨c', h1, _⟩; simpa using (List.cons.inj h1).2
    · next h =>
      simp only [M_fail, false_iff]
      rintro ⟨c', h1, h2⟩
      have := (List.cons.inj h1).1
      subst this
      exact h h2
  | cat x y ihx ihy =>
    simp only [deriv, mkAlt_iff, M_alt, mkCat_iff]
    rw [M_cat, M_cat]
    constructor
    · rintro (⟨s1, s2, hs, h1, h2⟩ | h)
      · refine ⟨c :: s1, s2, by simp [hs], (ihx _ _ _).mp h1, ?_⟩
        simpa using h2
      · split at h
        · next hn =>
          refine ⟨[], c :: s, rfl, ?_, ?_⟩
          · simpa using (nullable_iff _ _ _).mp hn
          · simpa using (ihy _ _ _).mp h
        · exact (M_fail.mp h).elim
    · rintro ⟨t1, t2, hs, h1, h2⟩
      cases t1 with
      | nil =>
        right
        simp only [List.nil_append] at hs
        subst hs
        have hn : nullable x b false = true := (nullable_iff _ _ _).mpr (by simpa using h1)
        simp only [hn, if_true]
        exact (ihy _ _ _).mpr (by simpa using h2)
      | cons c' s1 =>
        left
        simp only [List.cons_append, List.cons.injEq] at hs
        obtain ⟨rfl, rfl⟩ := hs
        exact ⟨s1, t2, rfl, (ihx _ _ _).mpr h1, by simpa using h2⟩
  | alt x y ihx ihy => simp [deriv, mkAlt_iff, M_alt, ihx, ihy]
  | star x ih =>
    simp only [deriv, mkCat_iff]
    rw [M_cat, M_star]
    constructor
    · rintro ⟨s1, s2, hs, h1, h2⟩
      right
      exact ⟨c :: s1, s2, by simp [hs], by simp, (ih _ _ _).mp h1, by simpa using h2⟩
    · rintro (h | ⟨t1, t2, hs, hne, h1, h2⟩)
      · cases h
      · cases t1 with
        | nil => exact (hne rfl).elim
        | cons c' s1 =>
          simp only [List.cons_append, List.cons.injEq] at hs
          obtain ⟨rfl, rfl⟩ := hs
          exact ⟨s1, t2, rfl, (ih _ _ _).mpr h1, by simpa using h2⟩

theorem matchB_iff (r : BRe) (b : Bool) (s : Str) : matchB r b s = true ↔ M r b true s := by
  induction s generalizing r b with
  | nil => simp [matchB, nullable_iff]
  | cons c s ih => simp [matchB, ih, deriv_iff]

end Prom.Regex
