import PromModel.Tsdb.Checkpoint
/-
  Lemmas about `Ckpt.checkpoint` (C15 / C48): survival of recent entries, preservation of
  "series record precedes", and replay equivalence at the label-set level.
-/
namespace Prom.Ckpt

/-! ### label-set level replay of the sample-like records -/

/-- the label set a ref is bound to by the series records seen so far (first record wins — this is
    what `multiRef` / `duplicateRefToValidRef` amount to at the label-set level) -/
def bindOf (known : List (Nat × Nat)) (ref : Nat) : Option Nat := (known.find? (·.1 = ref)).map (·.2)

/-- What replay feeds into the head from samples / histograms / exemplars: `(label set, kind, t, v)` for
    every entry whose ref is bound; entries with unknown refs are dropped. -/
def emit : List (Nat × Nat) → List Rec → List (Nat × SKind × Int × Nat)
  | _, [] => []
  | known, .series xs :: rest => emit (known ++ xs) rest
  | known, .smp k xs :: rest =>
    xs.filterMap (fun x => (bindOf known x.ref).map fun l => (l, k, x.t, x.v)) ++ emit known rest
  | known, .tomb _ :: rest => emit known rest
  | known, .mdata _ :: rest => emit known rest

def recent (mint : Int) (e : Nat × SKind × Int × Nat) : Bool := decide (e.2.2.1 ≥ mint)

/-- `Inv` of the DESIGN entry: `keep` is true for every ref that is bound and still has an entry with
    `t ≥ mint` (anywhere in checkpointed range or tail). -/
def NeedKept (keep : Nat → Bool) (mint : Int) : List (Nat × Nat) → List Rec → Prop
  | _, [] => True
  | known, .series xs :: rest => NeedKept keep mint (known ++ xs) rest
  | known, .smp _ xs :: rest =>
    (∀ x ∈ xs, x.t ≥ mint → bindOf known x.ref ≠ none → keep x.ref = true) ∧ NeedKept keep mint known rest
  | known, .tomb _ :: rest => NeedKept keep mint known rest
  | known, .mdata _ :: rest => NeedKept keep mint known rest

/-- relation between the bindings of the full log and of the truncated log -/
def Agree (keep : Nat → Bool) (K K' : List (Nat × Nat)) : Prop :=
  (∀ r, keep r = true → bindOf K' r = bindOf K r) ∧ (∀ r, bindOf K r = none → bindOf K' r = none)

theorem bindOf_append (K xs : List (Nat × Nat)) (r : Nat) :
    bindOf (K ++ xs) r = (bindOf K r).or (bindOf xs r) := by
  unfold bindOf
  rw [List.find?_append]
  cases h : K.find? (fun p => decide (p.1 = r)) <;> simp

theorem bindOf_filter_keep (keep : Nat → Bool) (xs : List (Nat × Nat)) (r : Nat) (h : keep r = true) :
    bindOf (xs.filter fun p => keep p.1) r = bindOf xs r := by
  unfold bindOf
  induction xs with
  | nil => rfl
  | cons p ps ih =>
    by_cases hp : p.1 = r
    · have hk : keep p.1 = true := by rw [hp]; exact h
      rw [List.filter_cons_of_pos (by simpa using hk)]
      simp [List.find?, hp]
    · by_cases hk : keep p.1 = true
      · rw [List.filter_cons_of_pos (by simpa using hk)]
        simp only [List.find?, hp, decide_false]
        exact ih
      · rw [List.filter_cons_of_neg (by simpa using hk)]
        simp only [List.find?, hp, decide_false]
        exact ih

theorem bindOf_filter_none (keep : Nat → Bool) (xs : List (Nat × Nat)) (r : Nat) (h : bindOf xs r = none) :
    bindOf (xs.filter fun p => keep p.1) r = none := by
  unfold bindOf at *
  induction xs with
  | nil => rfl
  | cons p ps ih =>
    by_cases hp : p.1 = r
    · simp [List.find?, hp] at h
    · have h' : (List.find? (fun p => decide (p.1 = r)) ps).map (·.2) = none := by
        simpa [List.find?, hp] using h
      by_cases hk : keep p.1 = true
      · rw [List.filter_cons_of_pos (by simpa using hk)]
        simp only [List.find?, hp, decide_false]
        exact ih h'
      · rw [List.filter_cons_of_neg (by simpa using hk)]
        exact ih h'

theorem Agree.append_series {keep : Nat → Bool} {K K' : List (Nat × Nat)} (h : Agree keep K K')
    (xs : List (Nat × Nat)) : Agree keep (K ++ xs) (K' ++ xs.filter fun p => keep p.1) := by
  constructor
  · intro r hr
    rw [bindOf_append, bindOf_append, h.1 r hr, bindOf_filter_keep keep xs r hr]
  · intro r hr
    rw [bindOf_append] at hr
    have h1 : bindOf K r = none := by cases hk : bindOf K r <;> simp_all
    have h2 : bindOf xs r = none := by cases hk : bindOf K r <;> simp_all
    rw [bindOf_append, h.2 r h1, bindOf_filter_none keep xs r h2]; rfl

theorem Agree.append_same {keep : Nat → Bool} {K K' : List (Nat × Nat)} (h : Agree keep K K')
    (xs : List (Nat × Nat)) : Agree keep (K ++ xs) (K' ++ xs) := by
  constructor
  · intro r hr
    rw [bindOf_append, bindOf_append, h.1 r hr]
  · intro r hr
    rw [bindOf_append] at hr
    have h1 : bindOf K r = none := by cases hk : bindOf K r <;> simp_all
    have h2 : bindOf xs r = none := by cases hk : bindOf K r <;> simp_all
    rw [bindOf_append, h.2 r h1, h2]; rfl

/-- the recent part of what one samples record emits is the same under agreeing bindings -/
theorem emit_smp_agree {keep : Nat → Bool} {mint : Int} {K K' : List (Nat × Nat)} (h : Agree keep K K')
    (k : SKind) (xs : List Smp)
    (hinv : ∀ x ∈ xs, x.t ≥ mint → bindOf K x.ref ≠ none → keep x.ref = true) :
    ((xs.filter fun x => decide (x.t ≥ mint)).filterMap
        (fun x => (bindOf K' x.ref).map fun l => (l, k, x.t, x.v))).filter (recent mint) =
    (xs.filterMap (fun x => (bindOf K x.ref).map fun l => (l, k, x.t, x.v))).filter (recent mint) := by
  induction xs with
  | nil => rfl
  | cons x xs ih =>
    have ih := ih (fun y hy => hinv y (List.mem_cons_of_mem _ hy))
    by_cases ht : x.t ≥ mint
    · have hb : bindOf K' x.ref = bindOf K x.ref := by
        cases hk : bindOf K x.ref with
        | none => exact h.2 _ hk
        | some l =>
          have := hinv x (List.mem_cons_self) ht (by simp [hk])
          rw [h.1 _ this, hk]
      simp only [List.filter_cons, ht, decide_true, if_true, List.filterMap_cons, hb]
      cases hk : bindOf K x.ref with
      | none => simpa using ih
      | some l => simp [recent, ht, ih]
    · simp only [List.filter_cons, ht, decide_false, List.filterMap_cons]
      cases hk : bindOf K x.ref with
      | none => simpa using ih
      | some l => simp [recent, ht]; simpa using ih

theorem emit_filter_tail {keep : Nat → Bool} {mint : Int} (tail : List Rec) :
    ∀ (K K' : List (Nat × Nat)), Agree keep K K' → NeedKept keep mint K tail →
      (emit K' tail).filter (recent mint) = (emit K tail).filter (recent mint) := by
  induction tail with
  | nil => intros; rfl
  | cons r rest ih =>
    intro K K' hA hN
    cases r with
    | series xs => exact ih _ _ (hA.append_same xs) hN
    | smp k xs =>
      obtain ⟨h1, h2⟩ := hN
      simp only [emit, List.filter_append]
      rw [ih K K' hA h2]
      congr 1
      -- same record on both sides: entries with t ≥ mint agree, the others are filtered out
      induction xs with
      | nil => rfl
      | cons x xs ihx =>
        have ihx := ihx (fun y hy => h1 y (List.mem_cons_of_mem _ hy))
        simp only [List.filterMap_cons]
        by_cases ht : x.t ≥ mint
        · have hb : bindOf K' x.ref = bindOf K x.ref := by
            cases hk : bindOf K x.ref with
            | none => exact hA.2 _ hk
            | some l =>
              have := h1 x (List.mem_cons_self) ht (by simp [hk])
              rw [hA.1 _ this, hk]
          rw [hb]
          cases hk : bindOf K x.ref with
          | none => simpa using ihx
          | some l => simp only [Option.map_some, List.filter_cons]; rw [ihx]
        · cases hk : bindOf K x.ref <;> cases hk' : bindOf K' x.ref <;>
            simp only [Option.map_some, Option.map_none, List.filter_cons, recent, ht, decide_false] <;>
            simpa using ihx
    | tomb xs => exact ih _ _ hA hN
    | mdata xs => exact ih _ _ hA hN

theorem emit_append_mdata (K : List (Nat × Nat)) (m : List Rec) (tail : List Rec)
    (hm : ∀ r ∈ m, ∃ xs, r = Rec.mdata xs) : emit K (m ++ tail) = emit K tail := by
  induction m with
  | nil => rfl
  | cons r rs ih =>
    obtain ⟨xs, rfl⟩ := hm r (List.mem_cons_self)
    simp only [List.cons_append, emit]
    exact ih (fun r hr => hm r (List.mem_cons_of_mem _ hr))

/-- core of `replay_after_checkpoint`, with running bindings -/
theorem emit_checkpoint_aux {keep : Nat → Bool} {mint : Int} (cp : List Rec) (extra tail : List Rec)
    (hextra : ∀ r ∈ extra, ∃ xs, r = Rec.mdata xs) :
    ∀ (K K' : List (Nat × Nat)), Agree keep K K' → NeedKept keep mint K (cp ++ tail) →
      (emit K' (cp.filterMap (ckptRec keep mint) ++ extra ++ tail)).filter (recent mint) =
      (emit K (cp ++ tail)).filter (recent mint) := by
  induction cp with
  | nil =>
    intro K K' hA hN
    simp only [List.filterMap_nil, List.nil_append]
    rw [emit_append_mdata K' extra tail hextra]
    exact emit_filter_tail tail K K' hA hN
  | cons r rest ih =>
    intro K K' hA hN
    cases r with
    | series xs =>
      have hN' : NeedKept keep mint (K ++ xs) (rest ++ tail) := hN
      have hA' := hA.append_series xs
      simp only [List.filterMap_cons, ckptRec, List.cons_append, emit]
      by_cases he : (xs.filter fun p => keep p.1).isEmpty = true
      · have hnil : (xs.filter fun p => keep p.1) = [] := List.isEmpty_iff.mp he
        rw [hnil, List.append_nil] at hA'
        simp only [he, if_true]
        exact ih _ _ hA' hN'
      · simp only [he, Bool.false_eq_true, if_false, List.cons_append, emit]
        exact ih _ _ hA' hN'
    | smp k xs =>
      obtain ⟨h1, h2⟩ := hN
      have key := emit_smp_agree hA k xs h1
      simp only [List.filterMap_cons, ckptRec, List.cons_append, emit, List.filter_append]
      by_cases he : (xs.filter fun x => decide (x.t ≥ mint)).isEmpty = true
      · have hnil : (xs.filter fun x => decide (x.t ≥ mint)) = [] := List.isEmpty_iff.mp he
        simp only [he, if_true]
        rw [hnil] at key
        simp only [List.filterMap_nil, List.filter_nil] at key
        rw [← key, List.nil_append]
        exact ih K K' hA h2
      · simp only [he, Bool.false_eq_true, if_false, List.cons_append, emit, List.filter_append]
        rw [key, ih K K' hA h2]
    | tomb xs =>
      have hN' : NeedKept keep mint K (rest ++ tail) := hN
      simp only [List.filterMap_cons, ckptRec, List.cons_append, emit]
      by_cases he : (xs.filter fun s => keep s.ref && stoneLive mint s).isEmpty = true
      · simp only [he, if_true]; exact ih K K' hA hN'
      · simp only [he, Bool.false_eq_true, if_false, List.cons_append, emit]; exact ih K K' hA hN'
    | mdata xs =>
      have hN' : NeedKept keep mint K (rest ++ tail) := hN
      simp only [List.filterMap_cons, ckptRec, List.cons_append, emit]
      exact ih K K' hA hN'

theorem agree_refl (keep : Nat → Bool) : Agree keep [] [] := ⟨fun _ _ => rfl, fun _ _ => rfl⟩

end Prom.Ckpt

namespace Prom.Ckpt

/-! ### "series record precedes" survives the per-record filters -/

/-- every sample-like entry that survives the time filter belongs to a ref that `keep` retains -/
def SurvKeep (keep : Nat → Bool) (mint : Int) (recs : List Rec) : Prop :=
  ∀ k xs, Rec.smp k xs ∈ recs → ∀ x ∈ xs, x.t ≥ mint → keep x.ref = true

theorem mem_filter_keep {keep : Nat → Bool} {known : List Nat} {r : Nat} (h : r ∈ known) (hk : keep r = true) :
    r ∈ known.filter keep := List.mem_filter.mpr ⟨h, hk⟩

theorem filter_map_fst (keep : Nat → Bool) (xs : List (Nat × Nat)) :
    (xs.map (·.1)).filter keep = (xs.filter fun p => keep p.1).map (·.1) := by
  induction xs with
  | nil => rfl
  | cons p ps ih =>
    by_cases hk : keep p.1 = true
    · simp only [List.map_cons, List.filter_cons, hk, if_true, ih]
    · simp only [List.map_cons, List.filter_cons, hk, Bool.false_eq_true, if_false, ih]

theorem precOK_filterMap {keep : Nat → Bool} {mint : Int} (recs : List Rec) :
    ∀ known, precOK known recs → SurvKeep keep mint recs →
      precOK (known.filter keep) (recs.filterMap (ckptRec keep mint)) := by
  induction recs with
  | nil => intros; trivial
  | cons r rest ih =>
    intro known hp hs
    have hs' : SurvKeep keep mint rest := fun k xs hm => hs k xs (List.mem_cons_of_mem _ hm)
    cases r with
    | series xs =>
      have hp' : precOK (known ++ xs.map (·.1)) rest := hp
      have := ih _ hp' hs'
      rw [List.filter_append] at this
      have hmap : (xs.map (·.1)).filter keep = (xs.filter fun p => keep p.1).map (·.1) := filter_map_fst keep xs
      simp only [List.filterMap_cons, ckptRec]
      by_cases he : (xs.filter fun p => keep p.1).isEmpty = true
      · have hnil : (xs.filter fun p => keep p.1) = [] := List.isEmpty_iff.mp he
        simp only [he, if_true]
        rw [hmap, hnil] at this
        simpa using this
      · simp only [he, Bool.false_eq_true, if_false, precOK]
        rw [hmap] at this
        exact this
    | smp k xs =>
      obtain ⟨h1, h2⟩ := hp
      have := ih _ h2 hs'
      simp only [List.filterMap_cons, ckptRec]
      by_cases he : (xs.filter fun x => decide (x.t ≥ mint)).isEmpty = true
      · simp only [he, if_true]; exact this
      · simp only [he, Bool.false_eq_true, if_false, precOK]
        refine ⟨?_, this⟩
        intro x hx
        have hx' := List.mem_filter.mp hx
        exact mem_filter_keep (h1 x hx'.1) (hs k xs (List.mem_cons_self) x hx'.1 (by simpa using hx'.2))
    | tomb xs =>
      obtain ⟨h1, h2⟩ := hp
      have := ih _ h2 hs'
      simp only [List.filterMap_cons, ckptRec]
      by_cases he : (xs.filter fun s => keep s.ref && stoneLive mint s).isEmpty = true
      · simp only [he, if_true]; exact this
      · simp only [he, Bool.false_eq_true, if_false, precOK]
        refine ⟨?_, this⟩
        intro x hx
        have hx' := List.mem_filter.mp hx
        have hk : keep x.ref = true := by
          have := hx'.2
          simp only [Bool.and_eq_true] at this
          exact this.1
        exact mem_filter_keep (h1 x hx'.1) hk
    | mdata xs =>
      obtain ⟨_, h2⟩ := hp
      have := ih _ h2 hs'
      simp only [List.filterMap_cons, ckptRec]
      exact this

/-- entries at or after `mint` survive, in a record of the same kind -/
theorem smp_survives {keep : Nat → Bool} {mint : Int} {recs : List Rec} {k : SKind} {xs : List Smp} {x : Smp}
    (hr : Rec.smp k xs ∈ recs) (hx : x ∈ xs) (ht : x.t ≥ mint) :
    ∃ ys, Rec.smp k ys ∈ checkpoint keep mint recs ∧ x ∈ ys := by
  refine ⟨xs.filter fun y => decide (y.t ≥ mint), ?_, List.mem_filter.mpr ⟨hx, by simpa using ht⟩⟩
  unfold checkpoint
  apply List.mem_append_left
  refine List.mem_filterMap.mpr ⟨_, hr, ?_⟩
  have hne : (xs.filter fun y => decide (y.t ≥ mint)).isEmpty = false := by
    cases h : xs.filter fun y => decide (y.t ≥ mint) with
    | nil =>
      have : x ∈ xs.filter fun y => decide (y.t ≥ mint) := List.mem_filter.mpr ⟨hx, by simpa using ht⟩
      rw [h] at this; cases this
    | cons _ _ => rfl
  simp [ckptRec, hne]

/-- nothing older than `mint` and no dropped series gets into a checkpoint -/
theorem checkpoint_sound {keep : Nat → Bool} {mint : Int} {recs : List Rec} {r : Rec}
    (hr : r ∈ recs.filterMap (ckptRec keep mint)) :
    (∀ k ys, r = Rec.smp k ys → ∀ y ∈ ys, y.t ≥ mint) ∧ (∀ ys, r = Rec.series ys → ∀ p ∈ ys, keep p.1 = true) := by
  obtain ⟨r0, _, h0⟩ := List.mem_filterMap.mp hr
  cases r0 with
  | series xs =>
    simp only [ckptRec] at h0
    split at h0
    · cases h0
    · cases h0
      exact ⟨fun _ _ h => (by cases h), fun ys h p hp => (by cases h; exact (by simpa using (List.mem_filter.mp hp).2))⟩
  | smp k xs =>
    simp only [ckptRec] at h0
    split at h0
    · cases h0
    · cases h0
      exact ⟨fun _ ys h y hy => (by cases h; exact (by simpa using (List.mem_filter.mp hy).2)), fun _ h => (by cases h)⟩
  | tomb xs =>
    simp only [ckptRec] at h0
    split at h0
    · cases h0
    · cases h0
      exact ⟨fun _ _ h => (by cases h), fun _ h => (by cases h)⟩
  | mdata xs => simp [ckptRec] at h0

end Prom.Ckpt
