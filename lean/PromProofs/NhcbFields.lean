import PromProofs.NhcbOrder
import PromProofs.NhcbRef
/-
  TempHistogram: whatever series arrive in whatever order, the stored buckets stay strictly sorted by
  upper bound (so the custom values of the converted histogram are strictly increasing), and `Convert`
  de-cumulates exactly the stored cumulative counts.
-/
namespace Prom.Nhcb

/-- strictly increasing, non-NaN upper bounds -/
def SortedB (bs : List Bucket) : Prop :=
  bs.Pairwise (fun a b => flt a.le b.le = true) ∧ ∀ b ∈ bs, isNaN b.le = false

theorem pairwise_getLast {α} {R : α → α → Prop} {l : List α} {x : α} (hp : l.Pairwise R) (hl : l.getLast? = some x) :
    ∀ a ∈ l, a = x ∨ R a x := by
  obtain ⟨ys, rfl⟩ := List.getLast?_eq_some_iff.mp hl
  rw [List.pairwise_append] at hp
  intro a ha
  rw [List.mem_append] at ha
  rcases ha with ha | ha
  · exact Or.inr (hp.2.2 a ha x (by simp))
  · simp at ha; exact Or.inl ha

theorem mem_takeWhile_true {α} (p : α → Bool) : ∀ (l : List α) (a : α), a ∈ l.takeWhile p → p a = true ∧ a ∈ l := by
  intro l
  induction l with
  | nil => intro a ha; simp at ha
  | cons x xs ih =>
    intro a ha
    rw [List.takeWhile_cons] at ha
    split at ha
    · rename_i hx
      simp at ha
      rcases ha with rfl | ha
      · exact ⟨hx, by simp⟩
      · exact ⟨(ih a ha).1, by simp [(ih a ha).2]⟩
    · simp at ha

theorem Temp.setBucketCount_sorted (h : Temp) (le v : Nat) (hs : SortedB h.buckets) :
    SortedB (h.setBucketCount le v).buckets := by
  unfold Temp.setBucketCount
  split
  · exact hs
  split
  · exact hs
  rename_i hnan
  have hnan : isNaN le = false := by simpa using hnan
  split
  · exact hs
  split
  · -- first bucket
    refine ⟨by simp, ?_⟩
    intro b hb
    simp at hb
    subst hb
    exact hnan
  rename_i last hlast
  split
  · rename_i hlt
    split
    · exact hs
    · -- append at the end
      refine ⟨?_, ?_⟩
      · rw [List.pairwise_append]
        refine ⟨hs.1, by simp, ?_⟩
        intro a ha b hb
        simp at hb
        subst hb
        rcases pairwise_getLast hs.1 hlast a ha with rfl | h1
        · exact hlt
        · exact flt_trans h1 hlt
      · intro b hb
        rw [List.mem_append] at hb
        rcases hb with hb | hb
        · exact hs.2 b hb
        · simp at hb; subst hb; exact hnan
  split
  · exact hs
  -- insertion in the middle
  simp only []
  split
  · exact hs
  rename_i nxt rest hpost
  split
  · exact hs
  rename_i hne
  have hsplit : h.buckets = h.buckets.takeWhile (fun b => flt b.le le) ++ nxt :: rest := by
    rw [← hpost, List.takeWhile_append_dropWhile]
  have hpre : ∀ a ∈ h.buckets.takeWhile (fun b => flt b.le le), flt a.le le = true := by
    intro a ha
    exact (mem_takeWhile_true _ _ a ha).1
  have hnx : flt nxt.le le = false := by
    have := List.head?_dropWhile_not (fun b : Bucket => flt b.le le) h.buckets
    rw [hpost] at this
    simpa using this
  have hp := hs.1
  rw [hsplit, List.pairwise_append, List.pairwise_cons] at hp
  have hmem : nxt ∈ h.buckets := by rw [hsplit]; simp
  have hlt : flt le nxt.le = true := by
    rcases flt_total (hs.2 nxt hmem) hnan with h1 | h1 | h1
    · rw [hnx] at h1; cases h1
    · exact absurd h1 hne
    · exact h1
  have ins : SortedB (h.buckets.takeWhile (fun b => flt b.le le) ++
      ⟨le, v⟩ :: h.buckets.dropWhile (fun b => flt b.le le)) := by
    rw [hpost]
    refine ⟨?_, ?_⟩
    · rw [List.pairwise_append, List.pairwise_cons, List.pairwise_cons]
      refine ⟨hp.1, ⟨?_, hp.2.1⟩, ?_⟩
      · intro b hb
        simp at hb
        rcases hb with rfl | hb
        · exact hlt
        · exact flt_trans hlt (hp.2.1.1 b hb)
      · intro a ha b hb
        simp at hb
        rcases hb with rfl | rfl | hb
        · exact hpre a ha
        · exact hp.2.2 a ha _ (by simp)
        · exact hp.2.2 a ha b (by simp [hb])
    · intro b hb
      rw [List.mem_append] at hb
      rcases hb with hb | hb
      · exact hs.2 b (mem_takeWhile_true _ _ b hb).2
      · simp at hb
        rcases hb with rfl | rfl | hb
        · exact hnan
        · exact hs.2 _ hmem
        · exact hs.2 b (by rw [hsplit]; simp [hb])
  split
  · split
    · exact hs
    split
    · exact hs
    · exact ins
  · split
    · exact hs
    · exact ins

theorem Upd.apply_sorted (u : Upd) (h : Temp) (hs : SortedB h.buckets) : SortedB (u.apply h).buckets := by
  cases u with
  | bucket le v => exact h.setBucketCount_sorted le v hs
  | count v =>
    simp only [Upd.apply, Temp.setCount]
    split
    · exact hs
    split <;> exact hs
  | sum v =>
    simp only [Upd.apply, Temp.setSum]
    split <;> exact hs

theorem foldl_sorted (us : List Upd) : ∀ h : Temp, SortedB h.buckets →
    SortedB (us.foldl (fun h u => u.apply h) h).buckets := by
  induction us with
  | nil => intro h hs; exact hs
  | cons u us ih => intro h hs; exact ih _ (u.apply_sorted h hs)

/-- the buckets collected for any group are strictly sorted by upper bound -/
theorem Grp.temp_sorted (g : Grp) : SortedB g.temp.buckets :=
  foldl_sorted g.upds {} ⟨by simp, by simp⟩

/-- the missing-`+Inf` rule adds no custom value -/
theorem customValues_effBuckets (h : Temp) : customValues h.effBuckets = customValues h.buckets := by
  unfold Temp.effBuckets customValues
  split
  · split
    · rfl
    · simp
  · rename_i hn
    have : h.buckets = [] := by simpa using hn
    simp [this]

theorem customValues_sorted (bs : List Bucket) (hs : SortedB bs) :
    (customValues bs).Pairwise (fun a b => flt a b = true) := by
  unfold customValues
  rw [List.pairwise_map]
  exact hs.1.filter _

def Conv.cv : Conv → List Nat
  | .int _ _ cv _ => cv
  | .float _ _ cv _ => cv

def Conv.sum : Conv → Nat
  | .int _ s _ _ => s
  | .float _ s _ _ => s

/-- The numbers of a converted histogram, read off the TempHistogram `h`: the bucket counts are the
    adjacent differences of the stored cumulative counts (integer histogram: exactly — `cumulate` gives
    them back, see `decumulate_cumulate_id`; float histogram: IEEE subtraction), the count is the
    stored/defaulted count. -/
def Conv.CountsOf (h : Temp) : Conv → Prop
  | .int count _ _ abs =>
    ∃ ints, h.effBuckets.mapM (fun b => asI64? b.count) = some ints ∧ abs = decumulate 0 ints ∧
      asU64? h.effCount = some count
  | .float count _ _ abs => count = h.effCount ∧ abs = fdecumulate 0 (h.effBuckets.map (·.count))

/-- What `Convert` puts into the histogram: the custom values are the stored finite bounds, the sum is
    the stored sum, counts as in `Conv.CountsOf`. -/
theorem Temp.convert_fields (h : Temp) (c : Conv) (hc : h.convert = some c) :
    h.err = false ∧ c.cv = customValues h.buckets ∧ c.sum = h.sum ∧ c.CountsOf h := by
  unfold Temp.convert at hc
  split at hc
  · cases hc
  rename_i herr
  have herr : h.err = false := by simpa using herr
  simp only [] at hc
  have hfloat : ∀ c, (if feq h.effCount (lastCount h.effBuckets) = true then
        some (Conv.float h.effCount h.sum (customValues h.effBuckets) (fdecumulate 0 (h.effBuckets.map (·.count))))
      else none) = some c →
      c.cv = customValues h.buckets ∧ c.sum = h.sum ∧ c.CountsOf h := by
    intro c hc
    split at hc
    · cases hc
      exact ⟨customValues_effBuckets h, rfl, rfl, rfl⟩
    · cases hc
  split at hc
  · rename_i ints cnt hi hu
    split at hc
    · cases hc
      exact ⟨herr, customValues_effBuckets h, rfl, ints, hi, rfl, hu⟩
    · cases hc
  · exact ⟨herr, hfloat c hc⟩

/-! ### the stored buckets are exactly the buckets of the series -/

theorem dropWhile_nil_all {α} (p : α → Bool) : ∀ l : List α, l.dropWhile p = [] → ∀ a ∈ l, p a = true := by
  intro l
  induction l with
  | nil => intro _ a ha; simp at ha
  | cons x xs ih =>
    intro h a ha
    rw [List.dropWhile_cons] at h
    split at h
    · rename_i hx
      simp at ha
      rcases ha with rfl | ha
      · exact hx
      · exact ih h a ha
    · simp at h

theorem feq_refl {a : Nat} (h : isNaN a = false) : feq a a = true := by
  obtain ⟨k, hk⟩ := (isNaN_iff a).mp h
  exact (feq_iff a a).mpr ⟨k, hk, hk⟩

/-- the three things `SetBucketCount` can do -/
theorem Temp.setBucketCount_cases (h : Temp) (le v : Nat) :
    (h.setBucketCount le v = h ∧ (h.err = true ∨ ∃ b ∈ h.buckets, feq b.le le = true)) ∨
    (h.setBucketCount le v = { h with err := true }) ∨
    (∃ pre post, h.buckets = pre ++ post ∧ h.setBucketCount le v = { h with buckets := pre ++ ⟨le, v⟩ :: post } ∧
      isNaN le = false) := by
  unfold Temp.setBucketCount
  split
  · rename_i he; exact Or.inl ⟨rfl, Or.inl he⟩
  split
  · exact Or.inr (Or.inl rfl)
  rename_i hnan
  have hnan : isNaN le = false := by simpa using hnan
  split
  · exact Or.inr (Or.inl rfl)
  split
  · rename_i hn
    have hb : h.buckets = [] := by simpa using hn
    exact Or.inr (Or.inr ⟨[], [], by simp [hb], by simp, hnan⟩)
  rename_i last hlast
  have hlm : last ∈ h.buckets := List.mem_of_getLast? hlast
  split
  · split
    · exact Or.inr (Or.inl rfl)
    · exact Or.inr (Or.inr ⟨h.buckets, [], by simp, by simp, hnan⟩)
  rename_i hnlt
  split
  · rename_i hf; exact Or.inl ⟨rfl, Or.inr ⟨last, hlm, hf⟩⟩
  simp only []
  split
  · -- unreachable: the last bound is not below `le`
    rename_i hnil
    have := dropWhile_nil_all _ _ hnil last hlm
    exact absurd this hnlt
  rename_i nxt rest hpost
  have hsplit : h.buckets = h.buckets.takeWhile (fun b => flt b.le le) ++ h.buckets.dropWhile (fun b => flt b.le le) :=
    List.takeWhile_append_dropWhile.symm
  have hmem : nxt ∈ h.buckets := by rw [hsplit, hpost]; simp
  split
  · rename_i hf; exact Or.inl ⟨rfl, Or.inr ⟨nxt, hmem, hf⟩⟩
  split
  · split
    · exact Or.inr (Or.inl rfl)
    split
    · exact Or.inr (Or.inl rfl)
    · exact Or.inr (Or.inr ⟨_, _, hsplit, rfl, hnan⟩)
  · split
    · exact Or.inr (Or.inl rfl)
    · exact Or.inr (Or.inr ⟨_, _, hsplit, rfl, hnan⟩)

/-- errors are sticky, stored buckets stay, new ones come from the series, and a bucket series that raises
    no error is represented afterwards -/
theorem Upd.apply_spec (u : Upd) (h : Temp) :
    ((u.apply h).err = false → h.err = false) ∧
    (∀ b ∈ h.buckets, b ∈ (u.apply h).buckets) ∧
    (∀ b ∈ (u.apply h).buckets, b ∈ h.buckets ∨ u = .bucket b.le b.count) ∧
    (∀ le v, u = .bucket le v → (u.apply h).err = false → ∃ b ∈ (u.apply h).buckets, feq b.le le = true) := by
  cases u with
  | bucket le v =>
    simp only [Upd.apply]
    rcases h.setBucketCount_cases le v with ⟨h1, h2⟩ | h1 | ⟨pre, post, h1, h2, h3⟩
    · rw [h1]
      refine ⟨id, fun b hb => hb, fun b hb => Or.inl hb, ?_⟩
      intro le' v' hu he
      cases hu
      rcases h2 with h2 | h2
      · rw [h2] at he; cases he
      · exact h2
    · rw [h1]
      refine ⟨fun he => by simp at he, fun b hb => hb, fun b hb => Or.inl hb, ?_⟩
      intro le' v' _ he
      simp at he
    · rw [h2]
      refine ⟨id, ?_, ?_, ?_⟩
      · intro b hb
        rw [h1] at hb
        simp only [List.mem_append, List.mem_cons] at hb ⊢
        rcases hb with hb | hb
        · exact Or.inl hb
        · exact Or.inr (Or.inr hb)
      · intro b hb
        simp only [List.mem_append, List.mem_cons] at hb
        rw [h1]
        rcases hb with hb | rfl | hb
        · exact Or.inl (by simp [hb])
        · exact Or.inr rfl
        · exact Or.inl (by simp [hb])
      · intro le' v' hu _
        cases hu
        exact ⟨⟨le, v⟩, by simp, feq_refl h3⟩
  | count v =>
    simp only [Upd.apply, Temp.setCount]
    refine ⟨?_, ?_, ?_, ?_⟩
    · intro he
      split at he
      · exact he
      split at he
      · simp at he
      · exact he
    · intro b hb; split
      · exact hb
      split <;> exact hb
    · intro b hb
      left
      split at hb
      · exact hb
      split at hb <;> exact hb
    · intro le v hu; cases hu
  | sum v =>
    simp only [Upd.apply, Temp.setSum]
    refine ⟨?_, ?_, ?_, ?_⟩
    · intro he
      split at he <;> exact he
    · intro b hb; split <;> exact hb
    · intro b hb
      left
      split at hb <;> exact hb
    · intro le v hu; cases hu

theorem foldl_spec (us : List Upd) : ∀ h : Temp,
    ((us.foldl (fun h u => u.apply h) h).err = false → h.err = false) ∧
    (∀ b ∈ h.buckets, b ∈ (us.foldl (fun h u => u.apply h) h).buckets) ∧
    (∀ b ∈ (us.foldl (fun h u => u.apply h) h).buckets, b ∈ h.buckets ∨ Upd.bucket b.le b.count ∈ us) ∧
    ((us.foldl (fun h u => u.apply h) h).err = false → ∀ le v, Upd.bucket le v ∈ us →
      ∃ b ∈ (us.foldl (fun h u => u.apply h) h).buckets, feq b.le le = true) := by
  induction us with
  | nil =>
    intro h
    exact ⟨id, fun b hb => hb, fun b hb => Or.inl hb, fun _ le v hm => by simp at hm⟩
  | cons u us ih =>
    intro h
    obtain ⟨i1, i2, i3, i4⟩ := ih (u.apply h)
    obtain ⟨a1, a2, a3, a4⟩ := u.apply_spec h
    simp only [List.foldl_cons]
    refine ⟨fun he => a1 (i1 he), fun b hb => i2 b (a2 b hb), ?_, ?_⟩
    · intro b hb
      rcases i3 b hb with h1 | h1
      · rcases a3 b h1 with h2 | h2
        · exact Or.inl h2
        · exact Or.inr (by simp [h2])
      · exact Or.inr (by simp [h1])
    · intro he le v hm
      simp only [List.mem_cons] at hm
      rcases hm with rfl | hm
      · obtain ⟨b, hb, hf⟩ := a4 le v rfl (i1 he)
        exact ⟨b, i2 b hb, hf⟩
      · exact i4 he le v hm

/-- For a group that converts: every stored bucket is one of the group's bucket series (bound and
    cumulative count), and every bucket series' bound is stored (up to `==`, i.e. +0 = -0; of several
    series with the same bound one is stored). -/
theorem Grp.temp_buckets (g : Grp) (he : g.temp.err = false) :
    (∀ b ∈ g.temp.buckets, Upd.bucket b.le b.count ∈ g.upds) ∧
    (∀ le v, Upd.bucket le v ∈ g.upds → ∃ b ∈ g.temp.buckets, feq b.le le = true) := by
  obtain ⟨_, _, i3, i4⟩ := foldl_spec g.upds {}
  refine ⟨?_, i4 he⟩
  intro b hb
  rcases i3 b hb with h1 | h1
  · simp at h1
  · exact h1

end Prom.Nhcb
