import PromProofs.BitsLemmas
import PromModel.Tsdb.ChunkXor
/-
  Lemmas for C10: varbit codes, the delta-of-delta code and the XOR value code decode what was encoded.
-/
namespace Prom.Varbit
open Prom.Bits

theorem readPrefix_ones_false (m k : Nat) (rest : Bits) (h : k < m) :
    readPrefix m (ones k ++ false :: rest) = some (k, rest) := by
  induction k generalizing m with
  | zero =>
    obtain ⟨m, rfl⟩ : ∃ m', m = m' + 1 := ⟨m - 1, by omega⟩
    simp [ones, readPrefix]
  | succ k ih =>
    obtain ⟨m, rfl⟩ : ∃ m', m = m' + 1 := ⟨m - 1, by omega⟩
    have := ih m (by omega)
    simp only [ones] at this
    simp [ones, List.replicate_succ, readPrefix, this]

theorem readPrefix_ones_full (m : Nat) (rest : Bits) :
    readPrefix m (ones m ++ rest) = some (m, rest) := by
  induction m with
  | zero => simp [ones, readPrefix]
  | succ m ih =>
    simp only [ones] at ih
    simp [ones, List.replicate_succ, readPrefix, ih]

theorem toI_toU {x : Int} (h : I64 x) : toI (toU x) = x := by
  unfold I64 two63 at h
  unfold toI toU two63 two64
  split <;> omega

theorem toU_lt (x : Int) : toU x < 2 ^ 64 := by
  unfold toU two64; omega

/-- The readers' sign reconstruction inverts the truncation to `n` bits on the asymmetric `bitRange`. -/
theorem signExt_toU (x : Int) (n : Nat) (hn : n ∈ [3, 6, 9, 12, 14, 17, 18, 20, 25, 56])
    (hr : bitRange x n = true) : signExt (toU x % 2 ^ n) n = x := by
  simp only [List.mem_cons, List.mem_nil_iff, or_false] at hn
  rcases hn with rfl | rfl | rfl | rfl | rfl | rfl | rfl | rfl | rfl | rfl <;>
  · simp only [bitRange, decide_eq_true_eq] at hr
    simp only [Nat.reduceSub, Int.reducePow, Int.reduceSub, Int.reduceNeg] at hr
    unfold signExt toI toU two63 two64
    simp only [Nat.reduceSub, Nat.reducePow]
    split <;> split <;> omega

theorem readSigned_put (x : Int) (n : Nat) (rest : Bits) (hn : n ∈ [3, 6, 9, 12, 14, 17, 18, 20, 25, 56])
    (hr : bitRange x n = true) : readSigned n (natToBits (toU x) n ++ rest) = some (x, rest) := by
  unfold readSigned
  rw [readBits_natToBits]
  simp only [signExt_toU x n hn hr]

theorem readBits64_toU (x : Int) (rest : Bits) :
    readBits 64 (natToBits (toU x) 64 ++ rest) = some (toU x, rest) :=
  readBits_natToBits_lt rest (toU_lt x)

theorem readVarbitInt_put (v : Int) (rest : Bits) (hv : I64 v) :
    readVarbitInt (putVarbitInt v ++ rest) = some (v, rest) := by
  unfold putVarbitInt
  split
  · next h => subst h; simp [readVarbitInt, readPrefix]
  split
  · next h => simp [readVarbitInt, readPrefix_ones_false 8 1 _ (by omega), List.append_assoc, szOf, readSigned_put v 3 rest (by simp) h]
  split
  · next h => simp [readVarbitInt, readPrefix_ones_false 8 2 _ (by omega), List.append_assoc, szOf, readSigned_put v 6 rest (by simp) h]
  split
  · next h => simp [readVarbitInt, readPrefix_ones_false 8 3 _ (by omega), List.append_assoc, szOf, readSigned_put v 9 rest (by simp) h]
  split
  · next h => simp [readVarbitInt, readPrefix_ones_false 8 4 _ (by omega), List.append_assoc, szOf, readSigned_put v 12 rest (by simp) h]
  split
  · next h => simp [readVarbitInt, readPrefix_ones_false 8 5 _ (by omega), List.append_assoc, szOf, readSigned_put v 18 rest (by simp) h]
  split
  · next h => simp [readVarbitInt, readPrefix_ones_false 8 6 _ (by omega), List.append_assoc, szOf, readSigned_put v 25 rest (by simp) h]
  split
  · next h => simp [readVarbitInt, readPrefix_ones_false 8 7 _ (by omega), List.append_assoc, szOf, readSigned_put v 56 rest (by simp) h]
  · simp [readVarbitInt, readPrefix_ones_full 8, List.append_assoc, readBits64_toU, toI_toU hv]

theorem readVarbitUint_put (v : Nat) (rest : Bits) (hv : v < 2 ^ 64) :
    readVarbitUint (putVarbitUint v ++ rest) = some (v, rest) := by
  unfold putVarbitUint
  split
  · next h => subst h; simp [readVarbitUint, readPrefix]
  split
  · next h => simp only [bitRangeUint, decide_eq_true_eq] at h; simp [readVarbitUint, readPrefix_ones_false 8 1 _ (by omega), List.append_assoc, szOf, readBits_natToBits_lt rest h]
  split
  · next h => simp only [bitRangeUint, decide_eq_true_eq] at h; simp [readVarbitUint, readPrefix_ones_false 8 2 _ (by omega), List.append_assoc, szOf, readBits_natToBits_lt rest h]
  split
  · next h => simp only [bitRangeUint, decide_eq_true_eq] at h; simp [readVarbitUint, readPrefix_ones_false 8 3 _ (by omega), List.append_assoc, szOf, readBits_natToBits_lt rest h]
  split
  · next h => simp only [bitRangeUint, decide_eq_true_eq] at h; simp [readVarbitUint, readPrefix_ones_false 8 4 _ (by omega), List.append_assoc, szOf, readBits_natToBits_lt rest h]
  split
  · next h => simp only [bitRangeUint, decide_eq_true_eq] at h; simp [readVarbitUint, readPrefix_ones_false 8 5 _ (by omega), List.append_assoc, szOf, readBits_natToBits_lt rest h]
  split
  · next h => simp only [bitRangeUint, decide_eq_true_eq] at h; simp [readVarbitUint, readPrefix_ones_false 8 6 _ (by omega), List.append_assoc, szOf, readBits_natToBits_lt rest h]
  split
  · next h => simp only [bitRangeUint, decide_eq_true_eq] at h; simp [readVarbitUint, readPrefix_ones_false 8 7 _ (by omega), List.append_assoc, szOf, readBits_natToBits_lt rest h]
  · simp [readVarbitUint, readPrefix_ones_full 8, List.append_assoc, szOf, readBits_natToBits_lt rest hv]

end Prom.Varbit

namespace Prom.ChunkXor
open Prom.Bits Prom.Varbit

theorem readDod_put (dod : Int) (rest : Bits) (hd : I64 dod) :
    readDod (dodBits dod ++ rest) = some (dod, rest) := by
  unfold dodBits
  split
  · next h => subst h; simp [readDod, readPrefix]
  split
  · next h => simp [readDod, readPrefix, readSigned_put dod 14 rest (by simp) h]
  split
  · next h => simp [readDod, readPrefix, readSigned_put dod 17 rest (by simp) h]
  split
  · next h => simp [readDod, readPrefix, readSigned_put dod 20 rest (by simp) h]
  · simp [readDod, readPrefix, readBits64_toU, toI_toU hd]

/-! ### leading / trailing zero counts -/

theorem ctzF_dvd (f d : Nat) : 2 ^ ctzF f d ∣ d := by
  induction f generalizing d with
  | zero => simp [ctzF]
  | succ f ih =>
    unfold ctzF
    split
    · simp
    · next h =>
      have h2 : d = 2 * (d / 2) := by omega
      rw [Nat.pow_succ, Nat.mul_comm]
      rw [h2]
      have := ih (d / 2)
      simpa [← h2] using Nat.mul_dvd_mul_left 2 this

theorem lt_pow_blenF (f d : Nat) (h : d < 2 ^ f) : d < 2 ^ blenF f d := by
  induction f generalizing d with
  | zero => simp [blenF]; simpa using h
  | succ f ih =>
    unfold blenF
    split
    · next h0 => subst h0; simp
    · have : d / 2 < 2 ^ f := by rw [Nat.pow_succ] at h; omega
      have := ih (d / 2) this
      rw [Nat.pow_succ]; omega

theorem blenF_le (f d : Nat) : blenF f d ≤ f := by
  induction f generalizing d with
  | zero => simp [blenF]
  | succ f ih =>
    unfold blenF
    have := ih (d / 2)
    split <;> omega

theorem clz_facts {d : Nat} (h0 : d ≠ 0) (h64 : d < 2 ^ 64) : d < 2 ^ (64 - clz64 d) ∧ clz64 d ≤ 63 := by
  have h1 := lt_pow_blenF 64 d h64
  have h2 := blenF_le 64 d
  have h3 : 1 ≤ blenF 64 d := by
    show 1 ≤ blenF (63 + 1) d
    unfold blenF; simp [h0]
  unfold clz64
  have : 64 - (64 - blenF 64 d) = blenF 64 d := by omega
  rw [this]
  exact ⟨h1, by omega⟩

theorem clz_ctz_facts {d : Nat} (h0 : d ≠ 0) (h64 : d < 2 ^ 64) :
    d < 2 ^ (64 - clz64 d) ∧ clz64 d ≤ 63 ∧ 2 ^ ctz64 d ∣ d ∧ clz64 d + ctz64 d ≤ 63 := by
  obtain ⟨h1, h2⟩ := clz_facts h0 h64
  have hctz : ctz64 d = ctzF 64 d := by simp [ctz64, h0]
  have h3 : 2 ^ ctz64 d ∣ d := by rw [hctz]; exact ctzF_dvd 64 d
  refine ⟨h1, h2, h3, ?_⟩
  have hle : 2 ^ ctz64 d ≤ d := Nat.le_of_dvd (Nat.pos_of_ne_zero h0) h3
  have : 2 ^ ctz64 d < 2 ^ (64 - clz64 d) := Nat.lt_of_le_of_lt hle h1
  have := (Nat.pow_lt_pow_iff_right (by omega : 1 < 2)).mp this
  omega

/-- A window `(l, t)` that covers `d` (at least `l` leading and `t` trailing zero bits): the shifted
    payload fits in `64 - l - t` bits and shifting back restores `d`. -/
theorem window_facts {d l t : Nat} (h0 : d ≠ 0) (h64 : d < 2 ^ 64) (hl : l ≤ clz64 d) (ht : t ≤ ctz64 d) :
    l + t ≤ 63 ∧ d >>> t < 2 ^ (64 - l - t) ∧ ((d >>> t) <<< t) % two64 = d := by
  obtain ⟨h1, h2, h3, h4⟩ := clz_ctz_facts h0 h64
  have hlt : l + t ≤ 63 := by omega
  have hdvd : 2 ^ t ∣ d := Nat.dvd_trans (Nat.pow_dvd_pow 2 ht) h3
  have hdl : d < 2 ^ (64 - l) := Nat.lt_of_lt_of_le h1 (Nat.pow_le_pow_right (by omega) (by omega))
  refine ⟨hlt, ?_, ?_⟩
  · rw [Nat.shiftRight_eq_div_pow]
    apply Nat.div_lt_of_lt_mul
    rw [← Nat.pow_add]
    have : t + (64 - l - t) = 64 - l := by omega
    rw [this]; exact hdl
  · rw [Nat.shiftRight_eq_div_pow, Nat.shiftLeft_eq, Nat.div_mul_cancel hdvd]
    exact Nat.mod_eq_of_lt h64

theorem xor_cancel (v' v : Nat) : v ^^^ (v' ^^^ v) = v' := by
  rw [Nat.xor_comm v' v, ← Nat.xor_assoc, Nat.xor_self, Nat.zero_xor]

theorem eq_of_xor_eq_zero {v' v : Nat} (h : v' ^^^ v = 0) : v' = v := by
  have := xor_cancel v' v
  rw [h, Nat.xor_zero] at this
  exact this.symm

/-- Encoder window vs decoder window: either the encoder has none yet (`0xff`, it will write a new one
    before ever reusing it), or both sides hold the same one. -/
def WinRel (el et dl dt : Nat) : Prop := el = 255 ∨ (el = dl ∧ et = dt)

/-- The value code: `xorRead` undoes `xorWrite`, and the windows stay related. -/
theorem xorRead_xorWrite (v v' el et dl dt : Nat) (rest : Bits)
    (hv : v < 2 ^ 64) (hv' : v' < 2 ^ 64) (hrel : WinRel el et dl dt) :
    ∃ dl' dt', xorRead v dl dt ((xorWrite (v' ^^^ v) el et).1 ++ rest) = some (v', dl', dt', rest) ∧
      WinRel (xorWrite (v' ^^^ v) el et).2.1 (xorWrite (v' ^^^ v) el et).2.2 dl' dt' := by
  have hd64 : v' ^^^ v < 2 ^ 64 := Nat.xor_lt_two_pow hv' hv
  unfold xorWrite
  split
  · next h0 =>
    refine ⟨dl, dt, ?_, hrel⟩
    simp [xorRead, eq_of_xor_eq_zero h0]
  · next h0 =>
    obtain ⟨f1, f2, f3, f4⟩ := clz_ctz_facts h0 hd64
    by_cases hreuse : el ≠ 255 ∧ min (clz64 (v' ^^^ v)) 31 ≥ el ∧ ctz64 (v' ^^^ v) ≥ et
    · dsimp only
      rw [if_pos hreuse]
      obtain ⟨hne, hl, ht⟩ := hreuse
      have hwin : el = dl ∧ et = dt := by
        rcases hrel with h | h
        · exact absurd h hne
        · exact h
      obtain ⟨rfl, rfl⟩ := hwin
      have hl' : el ≤ clz64 (v' ^^^ v) := Nat.le_trans hl (Nat.min_le_left _ _)
      obtain ⟨w1, w2, w3⟩ := window_facts h0 hd64 hl' ht
      refine ⟨el, et, ?_, Or.inr ⟨rfl, rfl⟩⟩
      have hm : (64 + 512 - el - et) % 256 = 64 - el - et := by omega
      simp only [xorRead, hm, List.cons_append]
      rw [readBits_natToBits_lt rest w2]
      simp only [w3, xor_cancel]
    · dsimp only
      rw [if_neg hreuse]
      have hnl : min (clz64 (v' ^^^ v)) 31 ≤ clz64 (v' ^^^ v) := Nat.min_le_left _ _
      have hnl31 : min (clz64 (v' ^^^ v)) 31 ≤ 31 := Nat.min_le_right _ _
      obtain ⟨w1, w2, w3⟩ := window_facts h0 hd64 hnl (Nat.le_refl _)
      generalize hnlv : min (clz64 (v' ^^^ v)) 31 = nl at *
      generalize hntv : ctz64 (v' ^^^ v) = nt at *
      refine ⟨nl, nt, ?_, Or.inr ⟨rfl, rfl⟩⟩
      simp only [xorRead, List.cons_append, List.append_assoc]
      rw [readBits_natToBits_lt _ (by omega : nl < 2 ^ 5)]
      simp only []
      rw [readBits_natToBits]
      have hsig : (if (64 - nl - nt) % 2 ^ 6 = 0 then 64 else (64 - nl - nt) % 2 ^ 6) = 64 - nl - nt := by
        split <;> omega
      simp only [hsig]
      have hnt : (64 + 256 - nl - (64 - nl - nt)) % 256 = nt := by omega
      simp only [hnt]
      rw [readBits_natToBits_lt rest w2]
      simp only [w3, xor_cancel]

end Prom.ChunkXor
