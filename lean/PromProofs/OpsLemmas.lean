import PromModel.Promql.Binop
/-
  Helper lemmas for C29 (core Lean only): exact-arithmetic facts about the IEEE value algebra, the Kahan
  loop, max/min folds, the grouping map, the byte key of `generateGroupingKey`, and the set operators.
-/
namespace Prom.Ops
open Prom.F64 (Cls)

/-! ### part 1 -/
abbrev X : Arith := Arith.exact

theorem vadd_comm (a b : Cls) : vadd X a b = vadd X b a := by
  cases a <;> cases b <;> simp [vadd, X, Arith.exact, Rat.add_comm]

theorem vadd_assoc (a b c : Cls) : vadd X (vadd X a b) c = vadd X a (vadd X b c) := by
  cases a <;> cases b <;> cases c <;> simp [vadd, X, Arith.exact, Rat.add_assoc]

/-- plain IEEE sum in exact arithmetic -/
def extSum (first : Cls) (rest : List Cls) : Cls := rest.foldl (vadd X) first

theorem vadd_zero (a : Cls) : vadd X a (.fin 0) = a := by
  cases a <;> simp [vadd, X, Arith.exact, Rat.add_zero]

theorem rat_cancel1 (a b : Rat) : (0 : Rat) + (a + -(a + b) + b) = 0 := by grind
theorem rat_cancel2 (a b : Rat) : (0 : Rat) + (b + -(a + b) + a) = 0 := by grind

theorem kahan_step (S c x : Cls) (h : isNaN S = true ∨ c = .fin 0) :
    (kahanInc X x S c).1 = vadd X S x ∧
    (isNaN (vadd X S x) = true ∨ (kahanInc X x S c).2 = .fin 0) := by
  refine ⟨by unfold kahanInc; simp only []; split; rfl; split <;> rfl, ?_⟩
  unfold kahanInc
  simp only []
  split
  · right; rfl
  · rename_i hinf
    rcases h with h | h
    · left; cases S <;> simp_all [isNaN, vadd]
    · subst h
      cases S with
      | nan => left; cases x <;> rfl
      | posInf => cases x <;> simp_all [vadd, isNaN, isInf]
      | negInf => cases x <;> simp_all [vadd, isNaN, isInf]
      | fin a =>
        cases x with
        | nan => left; rfl
        | posInf => simp_all [vadd, isNaN, isInf]
        | negInf => simp_all [vadd, isNaN, isInf]
        | fin b =>
          right
          rw [apply_ite Prod.snd]
          simp [vadd, vsub, vneg, X, Arith.exact, rat_cancel1, rat_cancel2]

theorem kahan_fold (rest : List Cls) (st : Cls × Cls) (h : isNaN st.1 = true ∨ st.2 = .fin 0) :
    (rest.foldl (fun (st : Cls × Cls) f => kahanInc X f st.1 st.2) st).1 = rest.foldl (vadd X) st.1 ∧
    (isNaN (rest.foldl (vadd X) st.1) = true ∨
      (rest.foldl (fun (st : Cls × Cls) f => kahanInc X f st.1 st.2) st).2 = .fin 0) := by
  induction rest generalizing st with
  | nil => exact ⟨rfl, h⟩
  | cons x xs ih =>
    simp only [List.foldl_cons]
    have hs := kahan_step st.1 st.2 x h
    have := ih (kahanInc X x st.1 st.2) (by rw [hs.1]; exact hs.2)
    rw [hs.1] at this
    exact this

theorem aggSum_eq_extSum (first : Cls) (rest : List Cls) : aggSum X first rest = extSum first rest := by
  unfold aggSum extSum
  have h := kahan_fold rest (first, .fin 0) (Or.inr rfl)
  generalize rest.foldl (fun (st : Cls × Cls) f => kahanInc X f st.1 st.2) (first, .fin 0) = r at h
  obtain ⟨s, c⟩ := r
  simp only [] at h ⊢
  obtain ⟨h1, h2⟩ := h
  rw [← h1] at h2 ⊢
  rcases h2 with h2 | h2
  · cases s <;> simp_all [isNaN, vadd]
  · subst h2; exact vadd_zero _

theorem vadd_right_comm (a b c : Cls) : vadd X (vadd X a b) c = vadd X (vadd X a c) b := by
  rw [vadd_assoc, vadd_comm b c, ← vadd_assoc]

theorem extSum_perm (f1 f2 : Cls) (r1 r2 : List Cls) (h : (f1 :: r1).Perm (f2 :: r2)) :
    extSum f1 r1 = extSum f2 r2 := by
  have e : ∀ f r, extSum f r = (f :: r).foldl (vadd X) (.fin 0) := by
    intro f r
    simp only [extSum, List.foldl_cons]
    congr 1
    cases f <;> simp [vadd, X, Arith.exact, Rat.zero_add]
  rw [e, e]
  exact h.foldl_eq' (fun a _ b _ c => vadd_right_comm c a b) _

/-- finite inputs: the Kahan sum is the exact rational sum -/
theorem extSum_fin (q : Rat) (qs : List Rat) :
    extSum (.fin q) (qs.map .fin) = .fin (qs.foldl (· + ·) q) := by
  unfold extSum
  induction qs generalizing q with
  | nil => rfl
  | cons x xs ih =>
    simp only [List.map_cons, List.foldl_cons]
    exact ih (q + x)

/-! ### part 2 -/
def maxStep (cur f : Cls) : Cls := if vlt cur f || isNaN cur then f else cur
def minStep (cur f : Cls) : Cls := if vgt cur f || isNaN cur then f else cur

theorem aggMax_eq (first : Cls) (rest : List Cls) : aggMax first rest = (first :: rest).foldl maxStep .nan := by
  show List.foldl maxStep first rest = List.foldl maxStep (maxStep .nan first) rest
  rfl
theorem aggMin_eq (first : Cls) (rest : List Cls) : aggMin first rest = (first :: rest).foldl minStep .nan := by
  show List.foldl minStep first rest = List.foldl minStep (minStep .nan first) rest
  have : minStep .nan first = first := by cases first <;> rfl
  rw [this]

theorem maxStep_right_comm (z x y : Cls) : maxStep (maxStep z x) y = maxStep (maxStep z y) x := by
  cases z <;> cases x <;> cases y <;> simp [maxStep, vlt, isNaN] <;> grind

theorem minStep_right_comm (z x y : Cls) : minStep (minStep z x) y = minStep (minStep z y) x := by
  cases z <;> cases x <;> cases y <;> simp [minStep, vgt, vlt, isNaN] <;> grind

theorem aggMax_perm (f1 f2 : Cls) (r1 r2 : List Cls) (h : (f1 :: r1).Perm (f2 :: r2)) :
    aggMax f1 r1 = aggMax f2 r2 := by
  rw [aggMax_eq, aggMax_eq]; exact h.foldl_eq' (fun a _ b _ c => maxStep_right_comm c a b) _

theorem aggMin_perm (f1 f2 : Cls) (r1 r2 : List Cls) (h : (f1 :: r1).Perm (f2 :: r2)) :
    aggMin f1 r1 = aggMin f2 r2 := by
  rw [aggMin_eq, aggMin_eq]; exact h.foldl_eq' (fun a _ b _ c => minStep_right_comm c a b) _

/-- `a` is at least as large as `b` in the IEEE order with NaN as the bottom element. -/
def geNaNBot (a b : Cls) : Bool := isNaN b || (!isNaN a && !vlt a b)

theorem geNaNBot_trans (a b c : Cls) (h1 : geNaNBot a b = true) (h2 : geNaNBot b c = true) : geNaNBot a c = true := by
  cases a <;> cases b <;> cases c <;> simp_all [geNaNBot, isNaN, vlt] <;> grind

theorem geNaNBot_refl (a : Cls) : geNaNBot a a = true := by
  cases a <;> simp [geNaNBot, isNaN, vlt, Rat.lt_irrefl]

theorem maxStep_ge_left (z x : Cls) : geNaNBot (maxStep z x) z = true := by
  cases z <;> cases x <;> simp [maxStep, geNaNBot, isNaN, vlt, Rat.lt_irrefl] <;> grind
theorem maxStep_ge_right (z x : Cls) : geNaNBot (maxStep z x) x = true := by
  cases z <;> cases x <;> simp [maxStep, geNaNBot, isNaN, vlt, Rat.lt_irrefl] <;> grind
theorem maxStep_mem (z x : Cls) : maxStep z x = z ∨ maxStep z x = x := by
  unfold maxStep; split <;> simp

theorem foldl_max_spec (l : List Cls) (z : Cls) :
    geNaNBot (l.foldl maxStep z) z = true ∧ (∀ x ∈ l, geNaNBot (l.foldl maxStep z) x = true) ∧
    (l.foldl maxStep z = z ∨ l.foldl maxStep z ∈ l) := by
  induction l generalizing z with
  | nil => simp [geNaNBot_refl]
  | cons y ys ih =>
    simp only [List.foldl_cons]
    obtain ⟨h1, h2, h3⟩ := ih (maxStep z y)
    refine ⟨geNaNBot_trans _ _ _ h1 (maxStep_ge_left z y), ?_, ?_⟩
    · intro x hx
      rcases List.mem_cons.mp hx with rfl | hx
      · exact geNaNBot_trans _ _ _ h1 (maxStep_ge_right z x)
      · exact h2 x hx
    · rcases h3 with h3 | h3
      · rcases maxStep_mem z y with e | e
        · left; rw [h3, e]
        · right; rw [h3, e]; exact List.mem_cons_self
      · right; exact List.mem_cons_of_mem _ h3

/-! ### part 3 -/
/-- members of the group with key `k` (empty when there is no such group) -/
def membersOf (k : Labels) (g : List (Labels × List Sample)) : List Sample := (lookupSig k g).getD []

theorem membersOf_add (k k' : Labels) (s : Sample) (g : List (Labels × List Sample)) :
    membersOf k (addToGroups k' s g) = if k' = k then membersOf k g ++ [s] else membersOf k g := by
  induction g with
  | nil =>
    by_cases h : k' = k <;> simp [addToGroups, membersOf, lookupSig, h]
  | cons hd tl ih =>
    obtain ⟨k'', m⟩ := hd
    unfold membersOf at ih ⊢
    by_cases h1 : k'' = k' <;> by_cases h2 : k'' = k <;> by_cases h3 : k' = k <;>
      simp_all [addToGroups, lookupSig]

theorem keys_add (k' : Labels) (s : Sample) (g : List (Labels × List Sample)) :
    (addToGroups k' s g).map (·.1) = if k' ∈ g.map (·.1) then g.map (·.1) else g.map (·.1) ++ [k'] := by
  induction g with
  | nil => simp [addToGroups]
  | cons hd tl ih =>
    obtain ⟨k'', m⟩ := hd
    by_cases h1 : k'' = k'
    · simp [addToGroups, h1]
    · have : ¬ k' = k'' := fun e => h1 e.symm
      simp only [addToGroups, h1, if_false, List.map_cons, ih, List.mem_cons, this, false_or]
      split <;> simp

theorem groupsOf_spec_aux (key : Labels → Labels) (xs : List Sample) (g : List (Labels × List Sample))
    (hnd : (g.map (·.1)).Nodup) :
    let r := xs.foldl (fun g s => addToGroups (key s.labels) s g) g
    (∀ k, membersOf k r = membersOf k g ++ xs.filter (fun s => key s.labels = k)) ∧ (r.map (·.1)).Nodup ∧
    (∀ k, k ∈ r.map (·.1) ↔ k ∈ g.map (·.1) ∨ ∃ s ∈ xs, key s.labels = k) := by
  induction xs generalizing g with
  | nil => simp [hnd]
  | cons x xs ih =>
    simp only [List.foldl_cons]
    have hnd' : ((addToGroups (key x.labels) x g).map (·.1)).Nodup := by
      rw [keys_add]; split
      · exact hnd
      · rename_i h; exact List.nodup_append.mpr ⟨hnd, by simp, by intro a ha b hb; simp at hb; subst hb; intro e; subst e; exact h ha⟩
    obtain ⟨h1, h2, h3⟩ := ih _ hnd'
    refine ⟨?_, h2, ?_⟩
    · intro k
      rw [h1 k, membersOf_add]
      by_cases h : key x.labels = k <;> simp [h, List.filter_cons]
    · intro k
      rw [h3 k, keys_add]
      by_cases hm : key x.labels ∈ g.map (·.1)
      · simp only [hm, if_true]
        constructor
        · rintro (h | ⟨s, hs, e⟩)
          · exact Or.inl h
          · exact Or.inr ⟨s, List.mem_cons_of_mem _ hs, e⟩
        · rintro (h | ⟨s, hs, e⟩)
          · exact Or.inl h
          · rcases List.mem_cons.mp hs with rfl | hs
            · left; rw [← e]; exact hm
            · exact Or.inr ⟨s, hs, e⟩
      · simp only [hm, if_false, List.mem_append, List.mem_singleton]
        constructor
        · rintro ((h | h) | ⟨s, hs, e⟩)
          · exact Or.inl h
          · exact Or.inr ⟨x, List.mem_cons_self, h.symm⟩
          · exact Or.inr ⟨s, List.mem_cons_of_mem _ hs, e⟩
        · rintro (h | ⟨s, hs, e⟩)
          · exact Or.inl (Or.inl h)
          · rcases List.mem_cons.mp hs with rfl | hs
            · exact Or.inl (Or.inr e.symm)
            · exact Or.inr ⟨s, hs, e⟩

/-! ### part 4 -/
theorem sep_split (a a' r r' : List UInt8) (ha : (0xFF : UInt8) ∉ a) (ha' : (0xFF : UInt8) ∉ a')
    (h : a ++ 0xFF :: r = a' ++ 0xFF :: r') : a = a' ∧ r = r' := by
  induction a generalizing a' with
  | nil =>
    cases a' with
    | nil => simpa using h
    | cons y ys =>
      simp at h
      exact absurd h.1.symm (fun e => ha' (by simp [e]))
  | cons x xs ih =>
    cases a' with
    | nil =>
      simp at h
      exact absurd h.1 (fun e => ha (by simp [e]))
    | cons y ys =>
      simp at h
      obtain ⟨e, h⟩ := h
      have := ih ys (fun m => ha (List.mem_cons_of_mem _ m)) (fun m => ha' (List.mem_cons_of_mem _ m)) h
      exact ⟨by rw [e, this.1], this.2⟩

def NoSep (p : List (List UInt8 × List UInt8)) : Prop := ∀ x ∈ p, (0xFF : UInt8) ∉ x.1 ∧ (0xFF : UInt8) ∉ x.2

theorem keyBytes_cons (x : List UInt8 × List UInt8) (p : List (List UInt8 × List UInt8)) :
    keyBytes (x :: p) = x.1 ++ 0xFF :: (x.2 ++ 0xFF :: keyBytes p) := by
  simp [keyBytes, List.flatMap_cons]

theorem keyBytes_inj (p q : List (List UInt8 × List UInt8)) (hp : NoSep p) (hq : NoSep q)
    (h : keyBytes p = keyBytes q) : p = q := by
  induction p generalizing q with
  | nil =>
    cases q with
    | nil => rfl
    | cons y ys => rw [keyBytes_cons] at h; simp [keyBytes] at h
  | cons x xs ih =>
    cases q with
    | nil => rw [keyBytes_cons] at h; simp [keyBytes] at h
    | cons y ys =>
      rw [keyBytes_cons, keyBytes_cons] at h
      have hx := hp x List.mem_cons_self
      have hy := hq y List.mem_cons_self
      obtain ⟨e1, h⟩ := sep_split _ _ _ _ hx.1 hy.1 h
      obtain ⟨e2, h⟩ := sep_split _ _ _ _ hx.2 hy.2 h
      have := ih ys (fun z hz => hp z (List.mem_cons_of_mem _ hz)) (fun z hz => hq z (List.mem_cons_of_mem _ hz)) h
      rw [this, Prod.ext e1 e2]

/-! ### part 5 -/
theorem check_ok (x out : List Sample) (h : checkSameLabelset x = .ok out) : x = out ∧ hasDupLabels out = false := by
  unfold checkSameLabelset at h
  split at h
  · cases h
  · rename_i hd; cases h; exact ⟨rfl, by simpa using hd⟩

theorem bind_ok {α β ε} (x : Except ε α) (f : α → Except ε β) (b : β) (h : (x >>= f) = .ok b) :
    ∃ a, x = .ok a ∧ f a = .ok b := by
  cases x with
  | error e => cases h
  | ok a => exact ⟨a, rfl, h⟩

theorem Except.bind_ok' {α β ε} (x : Except ε α) (f : α → Except ε β) (b : β) (h : x.bind f = .ok b) :
    ∃ a, x = .ok a ∧ f a = .ok b := by
  cases x with
  | error e => cases h
  | ok a => exact ⟨a, rfl, h⟩

theorem vectorSet_nodup (op : SetOp) (on : Bool) (names : List String) (l r out : List Sample)
    (h : vectorSet op on names l r = .ok out) : hasDupLabels out = false :=
  (check_ok _ _ h).2

theorem vectorScalar_nodup (A : Arith) (op : BinOp) (b sw : Bool) (v out : List Sample) (sc : Cls)
    (h : vectorScalarBinop A op b sw v sc = .ok out) : hasDupLabels out = false :=
  (check_ok _ _ h).2

theorem vectorBinop_nodup (A : Arith) (op : BinOp) (b : Bool) (m : Matching) (l r out : List Sample)
    (h : vectorBinop A op b m l r = .ok out) : hasDupLabels out = false := by
  unfold vectorBinop at h
  simp only [bind, pure] at h
  split at h
  · cases h; rfl
  · obtain ⟨_, _, h⟩ := Except.bind_ok' _ _ _ h
    obtain ⟨_, _, h⟩ := Except.bind_ok' _ _ _ h
    split at h
    · obtain ⟨_, _, h⟩ := Except.bind_ok' _ _ _ h
      exact (check_ok _ _ h).2
    · obtain ⟨_, _, h⟩ := Except.bind_ok' _ _ _ h
      exact (check_ok _ _ h).2

/-- and / or / unless: membership characterisation of a successful result -/
theorem vectorSet_spec (op : SetOp) (on : Bool) (names : List String) (l r out : List Sample)
    (h : vectorSet op on names l r = .ok out) (s : Sample) :
    s ∈ out ↔
      match op with
      | .and => s ∈ l ∧ ∃ t ∈ r, sigOf on names t.labels = sigOf on names s.labels
      | .or => s ∈ l ∨ (s ∈ r ∧ ¬ ∃ t ∈ l, sigOf on names t.labels = sigOf on names s.labels)
      | .unless => s ∈ l ∧ ¬ ∃ t ∈ r, sigOf on names t.labels = sigOf on names s.labels := by
  have := (check_ok _ _ h).1
  subst this
  cases op <;> simp [List.mem_filter, List.mem_append, List.mem_map]

/-- the duplicate-series error is raised exactly when two "one"-side samples share a signature -/
def sigDup (sigf : Labels → Labels) : List Sample → Bool
  | [] => false
  | s :: rest => rest.any (fun t => sigf t.labels = sigf s.labels) || sigDup sigf rest

theorem lookupSig_isSome {α} (sig : Labels) (l : List (Labels × α)) :
    (lookupSig sig l).isSome = l.any (fun p => p.1 = sig) := by
  induction l with
  | nil => rfl
  | cons hd tl ih =>
    obtain ⟨k, v⟩ := hd
    by_cases h : k = sig <;> simp [lookupSig, h, ih]

theorem buildRightSigs_spec (sigf : Labels → Labels) (rs : List Sample) (acc : List (Labels × Sample))
    : (∃ m, buildRightSigs sigf rs acc = .ok m ∧ m = acc ++ rs.map (fun s => (sigf s.labels, s))) ∨
      buildRightSigs sigf rs acc = .error .dupSeries := by
  induction rs generalizing acc with
  | nil => left; exact ⟨acc, rfl, by simp⟩
  | cons x xs ih =>
    unfold buildRightSigs
    simp only []
    split
    · right; rfl
    · rcases ih (acc ++ [(sigf x.labels, x)]) with ⟨m, h1, h2⟩ | h
      · left; exact ⟨m, h1, by simp [h2]⟩
      · right; exact h

end Prom.Ops
