import PromModel.Tsdb.ReadOnly
/-
  Helper lemmas for C53 (replay side): `initHead` keeps the frame of its start state, its series
  depend only on the start state's series / WAL / cutoff, and every replayed sample is at or above
  the resulting head's `minT`.
-/
namespace Prom.Db
open Prom.Intervals

theorem foldl_rel {α β γ : Type} (R : α → β → Prop) (f : α → γ → α) (g : β → γ → β) (l : List γ)
    (hstep : ∀ a b x, R a b → R (f a x) (g b x)) : ∀ a b, R a b → R (l.foldl f a) (l.foldl g b) := by
  induction l with
  | nil => intro a b h; exact h
  | cons x xs ih => intro a b h; exact ih _ _ (hstep a b x h)

theorem foldl_inv {α γ : Type} (P : α → Prop) (f : α → γ → α) (l : List γ)
    (hstep : ∀ a x, P a → P (f a x)) : ∀ a, P a → P (l.foldl f a) := by
  induction l with
  | nil => intro a h; exact h
  | cons x xs ih => intro a h; exact ih _ (hstep a x h)

/-- Everything of a state except its series. -/
def Frame (h b : Db) : Prop :=
  h.minT = b.minT ∧ h.maxT = b.maxT ∧ h.minValid = b.minValid ∧ h.blocks = b.blocks ∧ h.cfg = b.cfg ∧ h.wal = b.wal

theorem Frame.refl (b : Db) : Frame b b := ⟨rfl, rfl, rfl, rfl, rfl, rfl⟩

theorem setSeries_frame (h b : Db) (s : HSeries) (hf : Frame h b) : Frame (h.setSeries s) b := by
  unfold Db.setSeries Frame at *
  split <;> exact hf

theorem setSeries_series_congr (h1 h2 : Db) (s : HSeries) (e : h1.series = h2.series) :
    (h1.setSeries s).series = (h2.setSeries s).series := by
  unfold Db.setSeries; rw [e]; split <;> rfl

theorem getSeries_congr (h1 h2 : Db) (e : h1.series = h2.series) (i : Nat) : h1.getSeries i = h2.getSeries i := by
  unfold Db.getSeries; rw [e]

theorem mem_setSeries (h : Db) (s x : HSeries) (hx : x ∈ (h.setSeries s).series) : x = s ∨ x ∈ h.series := by
  unfold Db.setSeries at hx
  split at hx
  · obtain ⟨y, hy, rfl⟩ := List.mem_map.mp hx
    split
    · exact Or.inl rfl
    · exact Or.inr hy
  · rcases List.mem_append.mp hx with hx | hx
    · exact Or.inr hx
    · exact Or.inl (by simpa using hx)

theorem mem_getSeries_phys (h : Db) (i : Nat) (x : Smp) (hx : x ∈ (h.getSeries i).phys) :
    ∃ s ∈ h.series, x ∈ s.phys := by
  unfold Db.getSeries at hx
  cases hf : h.series.find? (·.idx = i) with
  | none => rw [hf] at hx; simp at hx
  | some s => rw [hf] at hx; exact ⟨s, List.mem_of_find?_eq_some hf, by simpa using hx⟩

/-- The two-run relation: same series, same running min/max. -/
def SameRun (x y : Db × Int × Int) : Prop := x.1.series = y.1.series ∧ x.2 = y.2

theorem replayStep_sameRun (mv : Int) (x y : Db × Int × Int) (r : Rec) (h : SameRun x y) :
    SameRun (replayStep mv x r) (replayStep mv y r) := by
  obtain ⟨h1, lo1, hi1⟩ := x
  obtain ⟨h2, lo2, hi2⟩ := y
  obtain ⟨hs, hlh⟩ := h
  simp only [Prod.mk.injEq] at hlh
  obtain ⟨rfl, rfl⟩ := hlh
  cases r with
  | samples xs =>
    simp only [replayStep]
    apply foldl_rel SameRun
    · intro a b p hab
      obtain ⟨a1, alo, ahi⟩ := a
      obtain ⟨b1, blo, bhi⟩ := b
      obtain ⟨e, e2⟩ := hab
      simp only [Prod.mk.injEq] at e2
      obtain ⟨rfl, rfl⟩ := e2
      simp only at e
      simp only []
      split
      · exact ⟨e, rfl⟩
      · rw [getSeries_congr a1 b1 e]
        exact ⟨setSeries_series_congr _ _ _ e, rfl⟩
    · exact ⟨hs, rfl⟩
  | stones xs =>
    simp only [replayStep]
    refine ⟨?_, rfl⟩
    simp only
    apply foldl_rel (fun (a b : Db) => a.series = b.series)
    · intro a b p e
      split
      · exact e
      · rw [e]
        split
        · rw [getSeries_congr a b e]; exact setSeries_series_congr _ _ _ e
        · exact e
    · exact hs

/-- The one-run invariant: frame kept, every stored sample is ≥ the running minimum and ≥ the cutoff. -/
def RunInv (base : Db) (mv : Int) (x : Db × Int × Int) : Prop :=
  Frame x.1 base ∧ ∀ s ∈ x.1.series, ∀ p ∈ s.phys, x.2.1 ≤ p.t ∧ mv ≤ p.t

theorem replayStep_runInv (base : Db) (mv : Int) (x : Db × Int × Int) (r : Rec) (h : RunInv base mv x) :
    RunInv base mv (replayStep mv x r) := by
  obtain ⟨h1, lo1, hi1⟩ := x
  cases r with
  | samples xs =>
    simp only [replayStep]
    apply foldl_inv (RunInv base mv)
    · intro a p ha
      obtain ⟨a1, alo, ahi⟩ := a
      obtain ⟨hf, hb⟩ := ha
      simp only at hf hb
      simp only []
      split
      · exact ⟨hf, hb⟩
      · rename_i hge
        refine ⟨setSeries_frame _ _ _ hf, ?_⟩
        intro s hs q hq
        simp only at hs ⊢
        have old : ∀ q, q ∈ (a1.getSeries p.1).phys → min alo p.2.t ≤ q.t ∧ mv ≤ q.t := by
          intro q hq
          obtain ⟨s0, hs0, hq0⟩ := mem_getSeries_phys _ _ _ hq
          have := hb s0 hs0 q hq0
          exact ⟨by omega, this.2⟩
        rcases mem_setSeries _ _ _ hs with rfl | hs
        · split at hq
          · split at hq
            · exact old q hq
            · simp only [List.mem_append, List.mem_singleton] at hq
              rcases hq with hq | rfl
              · exact old q hq
              · exact ⟨by omega, by omega⟩
          · simp only [List.mem_singleton] at hq
            subst hq
            exact ⟨by omega, by omega⟩
        · have := hb s hs q hq
          exact ⟨by omega, this.2⟩
    · exact h
  | stones xs =>
    simp only [replayStep]
    obtain ⟨hf, hb⟩ := h
    simp only at hf hb
    have : Frame (xs.foldl (fun (h : Db) (p : Nat × Interval) =>
        if p.2.maxt < mv then h else
        if h.series.any (·.idx = p.1) then
          let s := h.getSeries p.1
          h.setSeries { s with tombs := addTomb s.tombs p.2 }
        else h) h1) base ∧ ∀ s ∈ (xs.foldl (fun (h : Db) (p : Nat × Interval) =>
        if p.2.maxt < mv then h else
        if h.series.any (·.idx = p.1) then
          let s := h.getSeries p.1
          h.setSeries { s with tombs := addTomb s.tombs p.2 }
        else h) h1).series, ∀ p ∈ s.phys, lo1 ≤ p.t ∧ mv ≤ p.t := by
      apply foldl_inv (fun (a : Db) => Frame a base ∧ ∀ s ∈ a.series, ∀ p ∈ s.phys, lo1 ≤ p.t ∧ mv ≤ p.t)
      · intro a p ha
        simp only []
        split
        · exact ha
        · split
          · refine ⟨setSeries_frame _ _ _ ha.1, ?_⟩
            intro s hs q hq
            rcases mem_setSeries _ _ _ hs with rfl | hs
            · simp only at hq
              obtain ⟨s0, hs0, hq0⟩ := mem_getSeries_phys _ _ _ hq
              exact ha.2 s0 hs0 q hq0
            · exact ha.2 s hs q hq
          · exact ha
      · exact ⟨hf, hb⟩
    exact this

def finMinT (minT minValid lo : Int) : Int :=
  let m := if lo < minT then lo else minT
  if m < minValid then minValid else m

/-- `initHead` in terms of the result of its fold. -/
theorem initHead_spec (base : Db) (mv : Int) :
    ∃ h lo hi, base.wal.foldl (replayStep mv) (base, MaxI64, MinI64) = (h, lo, hi) ∧
      (initHead base mv).series = h.series.filter (fun s => !s.phys.isEmpty) ∧
      (initHead base mv).blocks = h.blocks ∧
      (initHead base mv).minT = finMinT h.minT h.minValid lo := by
  unfold initHead
  generalize base.wal.foldl (replayStep mv) (base, MaxI64, MinI64) = r
  obtain ⟨h, lo, hi⟩ := r
  refine ⟨h, lo, hi, rfl, ?_, ?_, ?_⟩
  · simp only []; (repeat' split) <;> rfl
  · simp only []; (repeat' split) <;> rfl
  · simp only [finMinT]; (repeat' split) <;> first | rfl | omega

theorem fold_sameRun (b1 b2 : Db) (mv : Int) (hs : b1.series = b2.series) (hw : b1.wal = b2.wal) :
    SameRun (b1.wal.foldl (replayStep mv) (b1, MaxI64, MinI64)) (b2.wal.foldl (replayStep mv) (b2, MaxI64, MinI64)) := by
  rw [hw]
  apply foldl_rel SameRun
  · intro a b x h; exact replayStep_sameRun mv a b x h
  · exact ⟨hs, rfl⟩

theorem fold_runInv (b : Db) (mv : Int) (hs : b.series = []) :
    RunInv b mv (b.wal.foldl (replayStep mv) (b, MaxI64, MinI64)) := by
  apply foldl_inv (RunInv b mv)
  · intro a x h; exact replayStep_runInv b mv a x h
  · refine ⟨Frame.refl b, ?_⟩
    intro s h; simp only [hs] at h; simp at h

/-- The series of `initHead` depend only on the start series, the WAL and the cutoff. -/
theorem initHead_series_congr (b1 b2 : Db) (mv : Int) (hs : b1.series = b2.series) (hw : b1.wal = b2.wal) :
    (initHead b1 mv).series = (initHead b2 mv).series := by
  obtain ⟨h1, lo1, hi1, e1, s1, _, _⟩ := initHead_spec b1 mv
  obtain ⟨h2, lo2, hi2, e2, s2, _, _⟩ := initHead_spec b2 mv
  have key := fold_sameRun b1 b2 mv hs hw
  rw [e1, e2] at key
  rw [s1, s2, key.1]

theorem initHead_blocks (b : Db) (mv : Int) (hs : b.series = []) : (initHead b mv).blocks = b.blocks := by
  obtain ⟨h, lo, hi, e, _, hb, _⟩ := initHead_spec b mv
  have key := fold_runInv b mv hs
  rw [e] at key
  rw [hb]; exact key.1.2.2.2.1

/-- Every sample of the replayed head is at or above the head's `minT`, provided the start state's
    `minValid` is not above the cutoff. -/
theorem initHead_samples_ge_minT (b : Db) (mv : Int) (hs : b.series = []) (hv : b.minValid ≤ mv) :
    ∀ s ∈ (initHead b mv).series, ∀ x ∈ s.phys, (initHead b mv).minT ≤ x.t := by
  obtain ⟨h, lo, hi, e, hser, _, hm⟩ := initHead_spec b mv
  have key := fold_runInv b mv hs
  rw [e] at key
  obtain ⟨hf, hb⟩ := key
  simp only at hf hb
  intro s hsm x hx
  rw [hser] at hsm
  have := hb s (List.mem_filter.mp hsm).1 x hx
  rw [hm, hf.1, hf.2.2.1]
  unfold finMinT
  simp only []
  split <;> split <;> omega

theorem initHead_minT_ge (b : Db) (mv : Int) (hs : b.series = []) : b.minValid ≤ (initHead b mv).minT := by
  obtain ⟨h, lo, hi, e, _, _, hm⟩ := initHead_spec b mv
  have key := fold_runInv b mv hs
  rw [e] at key
  obtain ⟨hf, _⟩ := key
  simp only at hf
  rw [hm, hf.2.2.1]
  unfold finMinT
  simp only []
  split <;> omega

end Prom.Db
