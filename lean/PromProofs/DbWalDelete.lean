import PromProofs.DbWalAux
import PromProofs.DbWalCommit
/-
  C01 refinement, restart: `DB.Delete` keeps the WAL invariant. The head stones are logged in one
  record; the replay adds each of them to the replayed series unless it ends below the cutoff.
-/
namespace Prom.Db
open Prom.Intervals

theorem Rel.congr_fun {c : Int} {d d' h : Db} (hR : Rel c d h) (hg : ∀ i, d'.getSeries i = d.getSeries i)
    (hm : d'.minValid = d.minValid) : Rel c d' h := by
  refine ⟨hR.rinv, ?_, ?_, ?_, hR.tombHi, hR.tombsOk, hR.phys64⟩
  · intro i x hx; rw [hg] at hx; exact hR.sub i x hx
  · intro i x hx; rw [hg, hm]; exact hR.sup i x hx
  · intro i x hx; rw [hg] at hx ⊢; exact hR.vis i x hx

theorem RInv.getSeries_sinc' {c : Int} {h : Db} (hR : RInv c h) (i : Nat) : SInc (h.getSeries i).phys := by
  rcases getSeries_cases h i with hc | hc
  · exact hR.physInc _ hc.1
  · rw [hc.2]; simp [SInc]

theorem hseries_eta (s : HSeries) : ({ s with tombs := s.tombs } : HSeries) = s := by cases s; rfl

theorem delete_maxBlk (d : Db) (a b : Int) (sel : Option Nat) :
    maxBlk d.blocks ≤ maxBlk (d.delete a b sel).blocks := by
  apply maxBlk_mono
  intro blk hb
  rw [delete_blocks]
  exact ⟨_, List.mem_map.2 ⟨blk, hb, rfl⟩, rfl⟩

/-- `DB.Delete` with valid head stones keeps the WAL invariant. -/
theorem delete_walInv {d : Db} (hI : Inv d) (hT : TInv d) (a b : Int) (sel : Option Nat)
    (hv : stonesValid d a b sel) (hW : WalInv d) : WalInv (d.delete a b sel) := by
  intro c hc
  have hc' : maxBlk d.blocks ≤ c := Int.le_trans (delete_maxBlk d a b sel) hc
  have R := hW c hc'
  obtain ⟨_, _, _, e4, _⟩ := delete_scalars d a b sel
  have hgs := delete_getSeries hI.idxNodup a b sel
  rw [delete_wal]
  by_cases hov : d.minT ≤ b ∧ a ≤ d.maxT
  · rw [if_pos hov, rep_snoc]
    show Rel c (d.delete a b sel) ((delStones d a b sel).foldl (reStone c) (rep c d.wal))
    have hkeys := delStones_keys hI.idxNodup a b sel
    have hfold := foldl_reStone_getSeries c (delStones d a b sel) hkeys (rep c d.wal)
    have hrinv' : RInv c ((delStones d a b sel).foldl (reStone c) (rep c d.wal)) :=
      foldl_inv (RInv c) (reStone c) (fun h p hR => reStone_RInv c h p hR) _ _ R.rinv
    generalize (delStones d a b sel).foldl (reStone c) (rep c d.wal) = h' at hfold hrinv'
    -- facts about the stone of series `j`
    have hstone : ∀ j p, (delStones d a b sel).find? (fun p => p.1 = j) = some p →
        p.2.mint ≤ p.2.maxt ∧ (I64 p.2.mint ∧ I64 p.2.maxt) ∧
        (∃ l, (d.getSeries j).phys.getLast? = some l ∧ p.2.maxt ≤ l.t) ∧ TombsOk (d.getSeries j).tombs := by
      intro j p hp
      obtain ⟨_, _, hmem, f, l, hf, hl, e⟩ := delStones_find hI.idxNodup hp
      have hval := hv hov p (List.mem_of_find?_eq_some hp)
      have hval' := hval
      rw [e] at hval'
      simp only at hval'
      have h64 := headStone_facts hI hT hmem hf hl a b hval'
      refine ⟨hval, by rw [e]; exact h64, ⟨l, hl, ?_⟩, hT.headOk _ hmem⟩
      rw [e]
      simp only [clampInterval]
      split <;> omega
    -- per-series shape of both sides
    have key : ∀ j, (h'.getSeries j).phys = ((rep c d.wal).getSeries j).phys ∧
        ((d.delete a b sel).getSeries j).phys = (d.getSeries j).phys ∧
        ((h'.getSeries j).tombs = ((rep c d.wal).getSeries j).tombs ∧
          ((d.delete a b sel).getSeries j).tombs = (d.getSeries j).tombs ∨
         ∃ iv : Interval, iv.mint ≤ iv.maxt ∧ (I64 iv.mint ∧ I64 iv.maxt) ∧
          (∃ l, (d.getSeries j).phys.getLast? = some l ∧ iv.maxt ≤ l.t) ∧
          ((d.delete a b sel).getSeries j).tombs = addTomb (d.getSeries j).tombs iv ∧
          AddCoversAt (d.getSeries j).tombs iv ∧
          ((h'.getSeries j).tombs = addTomb ((rep c d.wal).getSeries j).tombs iv ∧ c ≤ iv.maxt ∧
             ((rep c d.wal).getSeries j).phys ≠ [] ∨
           (h'.getSeries j).tombs = ((rep c d.wal).getSeries j).tombs ∧
             (iv.maxt < c ∨ ((rep c d.wal).getSeries j).phys = []))) := by
      intro j
      rw [hfold j, hgs j, if_pos hov]
      cases hfind : (delStones d a b sel).find? (fun p => p.1 = j) with
      | none => exact ⟨rfl, rfl, Or.inl ⟨rfl, rfl⟩⟩
      | some p =>
        obtain ⟨h1, h2, h3, h4⟩ := hstone j p hfind
        have hcov := (addTomb_canon h4.1 h4.2 h2 h1).2.2
        simp only
        by_cases happ : c ≤ p.2.maxt ∧ (rep c d.wal).series.any (·.idx = j) = true
        · rw [if_pos happ]
          refine ⟨(by first | trivial | rfl), (by first | trivial | rfl), Or.inr ⟨p.2, h1, h2, h3, (by first | trivial | rfl), hcov, Or.inl ⟨(by first | trivial | rfl), happ.1, ?_⟩⟩⟩
          exact (R.rinv.any_iff j).1 happ.2
        · rw [if_neg happ]
          refine ⟨(by first | trivial | rfl), (by first | trivial | rfl), Or.inr ⟨p.2, h1, h2, h3, (by first | trivial | rfl), hcov, Or.inr ⟨(by first | trivial | rfl), ?_⟩⟩⟩
          by_cases hcm : c ≤ p.2.maxt
          · right
            apply Classical.byContradiction
            intro hne
            exact happ ⟨hcm, (R.rinv.any_iff j).2 hne⟩
          · left; omega
    refine ⟨hrinv', ?_, ?_, ?_, ?_, ?_, ?_⟩
    · -- sub
      intro j x hx hcx
      rw [(key j).2.1] at hx
      rw [(key j).1]
      exact R.sub j x hx hcx
    · -- sup
      intro j x hx
      rw [(key j).1] at hx
      rw [(key j).2.1, e4]
      rcases R.sup j x hx with h1 | h1
      · exact Or.inl h1
      · right
        refine ⟨h1.1, ?_⟩
        rcases (key j).2.2 with ⟨e1, _⟩ | ⟨iv, hval, h64, _, _, _, hh⟩
        · rw [e1]; exact h1.2
        · rcases hh with ⟨e1, _, _⟩ | ⟨e1, _⟩
          · rw [e1, visible_addTomb (addTomb_canon (R.tombsOk j).1 (R.tombsOk j).2 h64 hval).2.2, h1.2]
            rfl
          · rw [e1]; exact h1.2
    · -- vis
      intro j x hx hcx
      rw [(key j).2.1] at hx
      have hold := R.vis j x hx hcx
      rcases (key j).2.2 with ⟨e1, e2⟩ | ⟨iv, hval, h64, _, e2, hcov, hh⟩
      · rw [e1, e2]; exact hold
      · rw [e2, visible_addTomb hcov]
        rcases hh with ⟨e1, _, _⟩ | ⟨e1, hn⟩
        · rw [e1, visible_addTomb (addTomb_canon (R.tombsOk j).1 (R.tombsOk j).2 h64 hval).2.2, hold]
        · rw [e1, hold]
          rcases hn with hn | hn
          · have : ¬ (iv.mint ≤ x.t ∧ x.t ≤ iv.maxt) := by omega
            simp [this]
          · have := R.sub j x hx hcx
            rw [hn] at this; simp at this
    · -- tombHi
      intro j iv' hiv' l' hl'
      rw [(key j).1] at hl'
      rcases (key j).2.2 with ⟨e1, _⟩ | ⟨iv, hval, h64, hle, _, _, hh⟩
      · rw [e1] at hiv'; exact R.tombHi j iv' hiv' l' hl'
      · rcases hh with ⟨e1, hcm, hne⟩ | ⟨e1, _⟩
        · rw [e1] at hiv'
          refine addTomb_maxt_le _ iv l'.t (fun y hy => R.tombHi j y hy l' hl') ?_ iv' hiv'
          -- the newest live sample is at or above the cutoff, hence replayed
          obtain ⟨l, hl, h1⟩ := hle
          have hlh : l ∈ ((rep c d.wal).getSeries j).phys := R.sub j l (getLast?_mem hl) (by omega)
          have := (R.rinv.getSeries_sinc' j).le_getLast hl' l hlh
          omega
        · rw [e1] at hiv'; exact R.tombHi j iv' hiv' l' hl'
    · -- tombsOk
      intro j
      rcases (key j).2.2 with ⟨e1, _⟩ | ⟨iv, hval, h64, _, _, _, hh⟩
      · rw [e1]; exact R.tombsOk j
      · rcases hh with ⟨e1, _, _⟩ | ⟨e1, _⟩
        · rw [e1]
          have := addTomb_canon (R.tombsOk j).1 (R.tombsOk j).2 h64 hval
          exact ⟨this.1, this.2.1⟩
        · rw [e1]; exact R.tombsOk j
    · -- phys64
      intro j x hx
      rw [(key j).1] at hx
      exact R.phys64 j x hx
  · rw [if_neg hov]
    apply R.congr_fun _ e4
    intro j
    rw [hgs j, if_neg hov]

end Prom.Db
