import PromProofs.LabelSetQueries
/-
  Helper lemmas for C39: the 0xFF-separated `Bytes` encodings (slicelabels, dedupelabels) are injective
  on strings that do not contain the separator byte.
-/
namespace Prom.Labels

def joined : Bool → LabelSet → List UInt8
  | _, [] => []
  | needSep, l :: rest => (if needSep then [sepB] else []) ++ sepLabel l ++ joined true rest

theorem bytesSepGo_eq (i : Nat) (buf : List UInt8) (ls : LabelSet) :
    bytesSepGo i buf ls = buf ++ joined (decide (i > 0)) ls := by
  induction ls generalizing i buf with
  | nil => simp [bytesSepGo, joined]
  | cons l rest ih =>
    simp only [bytesSepGo, ih, joined, pushSep]
    by_cases h : i > 0 <;> simp [h]

/-- split on the separator byte -/
def fields : List UInt8 → List (List UInt8)
  | [] => [[]]
  | b :: bs =>
    if b = sepB then [] :: fields bs
    else match fields bs with
      | f :: fs => (b :: f) :: fs
      | [] => [[b]]

theorem fields_append_sep (xs rest : List UInt8) (h : sepB ∉ xs) :
    fields (xs ++ sepB :: rest) = xs :: fields rest := by
  induction xs with
  | nil => simp [fields]
  | cons x xs ih =>
    have hx : x ≠ sepB := fun e => h (by simp [e])
    have hxs : sepB ∉ xs := fun e => h (List.mem_cons_of_mem _ e)
    simp only [List.cons_append, fields, hx, if_false, ih hxs]

theorem fields_nosep (xs : List UInt8) (h : sepB ∉ xs) : fields xs = [xs] := by
  induction xs with
  | nil => rfl
  | cons x xs ih =>
    have hx : x ≠ sepB := fun e => h (by simp [e])
    have hxs : sepB ∉ xs := fun e => h (List.mem_cons_of_mem _ e)
    simp only [fields, hx, if_false, ih hxs]

def NoSep (ls : LabelSet) : Prop := ∀ l ∈ ls, sepB ∉ sbytes l.1 ∧ sepB ∉ sbytes l.2

theorem flatB_cons (l : Label) (r : LabelSet) : flatB (l :: r) = sbytes l.1 :: sbytes l.2 :: flatB r := by
  simp [flatB]

theorem fields_joined_true (xs : List UInt8) (hx : sepB ∉ xs) (rest : LabelSet) (h : NoSep rest) :
    fields (xs ++ joined true rest) = xs :: flatB rest := by
  induction rest generalizing xs with
  | nil => simp [joined, flatB, fields_nosep xs hx]
  | cons l r ih =>
    have hl := h l List.mem_cons_self
    have hr : NoSep r := fun c hc => h c (List.mem_cons_of_mem _ hc)
    have e : xs ++ joined true (l :: r) = xs ++ sepB :: (sbytes l.1 ++ sepB :: (sbytes l.2 ++ joined true r)) := by
      simp [joined, sepLabel]
    rw [e, fields_append_sep _ _ hx, fields_append_sep _ _ hl.1, ih _ hl.2 hr, flatB_cons]

theorem fields_joined_false (l : Label) (r : LabelSet) (h : NoSep (l :: r)) :
    fields (joined false (l :: r)) = flatB (l :: r) := by
  have hl := h l List.mem_cons_self
  have hr : NoSep r := fun c hc => h c (List.mem_cons_of_mem _ hc)
  have e : joined false (l :: r) = sbytes l.1 ++ sepB :: (sbytes l.2 ++ joined true r) := by
    simp [joined, sepLabel]
  rw [e, fields_append_sep _ _ hl.1, fields_joined_true _ hl.2 r hr, flatB_cons]

theorem flatB_inj {a b : LabelSet} (h : flatB a = flatB b) : a = b := by
  induction a generalizing b with
  | nil =>
    cases b with
    | nil => rfl
    | cons y ys => simp [flatB_cons, flatB] at h
  | cons x xs ih =>
    cases b with
    | nil => simp [flatB_cons, flatB] at h
    | cons y ys =>
      simp only [flatB_cons, List.cons.injEq] at h
      have h1 := sbytes_inj h.1
      have h2 := sbytes_inj h.2.1
      rw [Prod.ext h1 h2, ih h.2.2]

theorem joined_false_inj {a b : LabelSet} (ha : NoSep a) (hb : NoSep b)
    (h : joined false a = joined false b) : a = b := by
  have hf := congrArg fields h
  cases a with
  | nil =>
    cases b with
    | nil => rfl
    | cons y ys =>
      rw [fields_joined_false y ys hb, flatB_cons] at hf
      simp [joined, fields] at hf
  | cons x xs =>
    cases b with
    | nil =>
      rw [fields_joined_false x xs ha, flatB_cons] at hf
      simp [joined, fields] at hf
    | cons y ys =>
      rw [fields_joined_false x xs ha, fields_joined_false y ys hb] at hf
      exact flatB_inj hf

end Prom.Labels
