import PromProofs.DiscoveryManager
/-
  C47: the inductive invariant of the discovery-manager transition system and its preservation by every action.
-/
namespace Prom.Discovery

/-! ### registration -/

theorem addSub_nodup (js : List Job) (j : Job) (h : js.Nodup) : (addSub js j).Nodup := by
  unfold addSub
  by_cases hj : j ∈ js
  · simp [hj, h]
  · simp only [hj, if_false]
    rw [List.nodup_append]
    refine ⟨h, by simp, ?_⟩
    intro a ha b hb
    simp at hb; subst hb
    intro e; subst e; exact hj ha

theorem addSub_ne_nil (js : List Job) (j : Job) : addSub js j ≠ [] := by
  unfold addSub
  by_cases hj : j ∈ js
  · simp only [hj, if_true]; intro e; subst e; simp at hj
  · simp [hj]

theorem markFirst_map_id (ps : List Provider) (c : Cfg) (j : Job) :
    (markFirst ps c j).map (·.id) = ps.map (·.id) := by
  induction ps with
  | nil => rfl
  | cons p r ih =>
    unfold markFirst
    by_cases h : p.cfg = c
    · simp [h]
    · simp [h, ih]

theorem markFirst_mem (ps : List Provider) (c : Cfg) (j : Job) (p' : Provider) (h : p' ∈ markFirst ps c j) :
    ∃ p ∈ ps, p' = p ∨ p' = { p with newSubs := addSub p.newSubs j } := by
  induction ps with
  | nil => simp [markFirst] at h
  | cons p r ih =>
    unfold markFirst at h
    by_cases hc : p.cfg = c
    · subst hc
      simp only [if_true] at h
      rcases List.mem_cons.mp h with rfl | h
      · exact ⟨p, List.mem_cons_self, Or.inr rfl⟩
      · exact ⟨p', List.mem_cons_of_mem _ h, Or.inl rfl⟩
    · simp only [hc, if_false] at h
      rcases List.mem_cons.mp h with rfl | h
      · exact ⟨p', List.mem_cons_self, Or.inl rfl⟩
      · obtain ⟨q, hq, hh⟩ := ih h
        exact ⟨q, List.mem_cons_of_mem _ hq, hh⟩

/-- What registration guarantees about the provider list it returns, relative to the list `ps0` (counter `n0`)
    it started from. -/
structure RegOk (ps0 : List Provider) (n0 : Nat) (st : List Provider × Nat) : Prop where
  ids_nodup : (st.1.map (·.id)).Nodup
  ids_lt : ∀ p ∈ st.1, p.id < st.2
  n_le : n0 ≤ st.2
  old_kept : ∀ p0 ∈ ps0, ∃ p ∈ st.1, p.id = p0.id
  origin : ∀ p ∈ st.1,
    (∃ p0 ∈ ps0, p.id = p0.id ∧ p.subs = p0.subs ∧ p.started = p0.started) ∨
    (p.subs = [] ∧ n0 ≤ p.id ∧ p.newSubs ≠ [])
  newSubs_nodup : ∀ p ∈ st.1, p.newSubs.Nodup

theorem regOk_addCfg (ps0 : List Provider) (n0 : Nat) (j : Job) (st : List Provider × Nat) (c : Cfg)
    (h : RegOk ps0 n0 st) : RegOk ps0 n0 (addCfg j st c) := by
  unfold addCfg
  by_cases hany : (st.1.any fun p => p.cfg == c) = true
  · simp only [hany, if_true]
    refine ⟨?_, ?_, h.n_le, ?_, ?_, ?_⟩
    · simp only; rw [markFirst_map_id]; exact h.ids_nodup
    · intro p' hp'
      obtain ⟨p, hp, hh⟩ := markFirst_mem _ _ _ _ hp'
      rcases hh with rfl | rfl
      · exact h.ids_lt _ hp
      · exact h.ids_lt p hp
    · intro p0 hp0
      obtain ⟨p, hp, hid⟩ := h.old_kept p0 hp0
      have : p.id ∈ (markFirst st.1 c j).map (·.id) := by
        rw [markFirst_map_id]; exact List.mem_map.mpr ⟨p, hp, rfl⟩
      obtain ⟨q, hq, hqid⟩ := List.mem_map.mp this
      exact ⟨q, hq, hqid.trans hid⟩
    · intro p' hp'
      obtain ⟨p, hp, hh⟩ := markFirst_mem _ _ _ _ hp'
      rcases hh with rfl | rfl
      · exact h.origin _ hp
      · rcases h.origin p hp with ⟨p0, hp0, h1, h2, h3⟩ | ⟨h1, h2, _⟩
        · exact Or.inl ⟨p0, hp0, h1, h2, h3⟩
        · exact Or.inr ⟨h1, h2, addSub_ne_nil _ _⟩
    · intro p' hp'
      obtain ⟨p, hp, hh⟩ := markFirst_mem _ _ _ _ hp'
      rcases hh with rfl | rfl
      · exact h.newSubs_nodup _ hp
      · exact addSub_nodup _ _ (h.newSubs_nodup p hp)
  · have hany' : (st.1.any fun p => p.cfg == c) = false := by simpa using hany
    simp only [hany', Bool.false_eq_true, if_false]
    refine ⟨?_, ?_, Nat.le_succ_of_le h.n_le, ?_, ?_, ?_⟩
    · simp only [List.map_append, List.map_cons, List.map_nil]
      rw [List.nodup_append]
      refine ⟨h.ids_nodup, by simp, ?_⟩
      intro a ha b hb
      simp at hb; subst hb
      obtain ⟨p, hp, rfl⟩ := List.mem_map.mp ha
      exact Nat.ne_of_lt (h.ids_lt p hp)
    · intro p hp
      rcases List.mem_append.mp hp with hp | hp
      · exact Nat.lt_succ_of_lt (h.ids_lt p hp)
      · simp at hp; subst hp; exact Nat.lt_succ_self _
    · intro p0 hp0
      obtain ⟨p, hp, hid⟩ := h.old_kept p0 hp0
      exact ⟨p, List.mem_append_left _ hp, hid⟩
    · intro p hp
      rcases List.mem_append.mp hp with hp | hp
      · exact h.origin p hp
      · simp at hp; subst hp
        exact Or.inr ⟨rfl, h.n_le, by simp⟩
    · intro p hp
      rcases List.mem_append.mp hp with hp | hp
      · exact h.newSubs_nodup p hp
      · simp at hp; subst hp; simp

theorem regOk_foldl_addCfg (ps0 : List Provider) (n0 : Nat) (j : Job) (cs : List Cfg) (st : List Provider × Nat)
    (h : RegOk ps0 n0 st) : RegOk ps0 n0 (cs.foldl (addCfg j) st) := by
  induction cs generalizing st with
  | nil => exact h
  | cons c r ih => exact ih _ (regOk_addCfg ps0 n0 j st c h)

theorem regOk_registerJob (ps0 : List Provider) (n0 : Nat) (st : List Provider × Nat) (jc : Job × List Cfg)
    (h : RegOk ps0 n0 st) : RegOk ps0 n0 (registerJob st jc) := by
  unfold registerJob
  split
  · exact regOk_addCfg ps0 n0 _ st _ h
  · exact regOk_foldl_addCfg ps0 n0 _ _ st h

theorem regOk_foldl_registerJob (ps0 : List Provider) (n0 : Nat) (cfg : List (Job × List Cfg))
    (st : List Provider × Nat) (h : RegOk ps0 n0 st) : RegOk ps0 n0 (cfg.foldl registerJob st) := by
  induction cfg generalizing st with
  | nil => exact h
  | cons c r ih => exact ih _ (regOk_registerJob ps0 n0 st c h)

/-! ### the provider loop of ApplyConfig is local to each provider's keys -/

theorem provTargets_other (t : Targets) (p : Provider) (j : Job) (q : Pid) (h : q ≠ p.id) :
    provTargets t p (j, q) = t (j, q) := by
  unfold provTargets
  by_cases hk : (p.newSubs.isEmpty && p.started) = true
  · simp [hk, eraseKeys, h]
  · rw [if_neg hk]
    cases hr : refTargets t p with
    | none => simp [eraseKeys, h]
    | some m =>
      simp only
      by_cases hlen : m.length > 0
      · simp [hlen, setKeys, eraseKeys, h]
      · simp [hlen, eraseKeys, h]

theorem refTargets_congr (t t' : Targets) (p : Provider) (h : ∀ j, t (j, p.id) = t' (j, p.id)) :
    refTargets t p = refTargets t' p := by
  unfold refTargets
  split
  · exact h _
  · rfl

theorem provTargets_congr (t t' : Targets) (p : Provider) (h : ∀ j, t (j, p.id) = t' (j, p.id)) (j : Job) :
    provTargets t p (j, p.id) = provTargets t' p (j, p.id) := by
  unfold provTargets
  rw [refTargets_congr t t' p h]
  by_cases hk : (p.newSubs.isEmpty && p.started) = true
  · simp [hk, eraseKeys, h]
  · rw [if_neg hk, if_neg hk]
    cases hr : refTargets t' p with
    | none => simp [eraseKeys, h]
    | some m =>
      simp only
      by_cases hlen : m.length > 0
      · simp [hlen, setKeys, eraseKeys, h]
      · simp [hlen, eraseKeys, h]

theorem find_id_none_of_not_mem (ps : List Provider) (pid : Pid) (h : pid ∉ ps.map (·.id)) :
    ps.find? (fun p => p.id == pid) = none := by
  rw [List.find?_eq_none]
  intro p hp hid
  simp at hid
  exact h (List.mem_map.mpr ⟨p, hp, hid⟩)

theorem foldl_provTargets (ps : List Provider) (hnd : (ps.map (·.id)).Nodup) (t : Targets) (j : Job) (pid : Pid) :
    (ps.foldl provTargets t) (j, pid) =
      match ps.find? (fun p => p.id == pid) with
      | some p => provTargets t p (j, pid)
      | none => t (j, pid) := by
  induction ps generalizing t with
  | nil => rfl
  | cons p r ih =>
    simp only [List.map_cons, List.nodup_cons] at hnd
    simp only [List.foldl_cons]
    rw [ih hnd.2]
    by_cases hp : p.id = pid
    · have hnone : r.find? (fun p => p.id == pid) = none := find_id_none_of_not_mem r pid (hp ▸ hnd.1)
      simp [List.find?, hp, hnone]
    · have hb : (p.id == pid) = false := by simp [hp]
      simp only [List.find?, hb]
      cases hf : r.find? (fun p => p.id == pid) with
      | none => simp only; exact provTargets_other t p j pid (fun e => hp e.symm)
      | some q =>
        simp only
        have hq : q.id = pid := by
          have := List.find?_some hf; simpa using this
        subst hq
        apply provTargets_congr
        intro j'
        exact provTargets_other t p j' q.id (fun e => hp e.symm)

theorem find_id_of_mem (ps : List Provider) (hnd : (ps.map (·.id)).Nodup) (p : Provider) (hp : p ∈ ps) :
    ps.find? (fun q => q.id == p.id) = some p := by
  induction ps with
  | nil => simp at hp
  | cons a r ih =>
    simp only [List.map_cons, List.nodup_cons] at hnd
    rcases List.mem_cons.mp hp with rfl | hp
    · simp [List.find?]
    · have hne : a.id ≠ p.id := fun e => hnd.1 (e ▸ List.mem_map.mpr ⟨p, hp, rfl⟩)
      have hb : (a.id == p.id) = false := by simp [hne]
      simp only [List.find?, hb]
      exact ih hnd.2 hp

theorem eq_of_id_eq (ps : List Provider) (hnd : (ps.map (·.id)).Nodup) (p q : Provider)
    (hp : p ∈ ps) (hq : q ∈ ps) (h : p.id = q.id) : p = q := by
  have h1 := find_id_of_mem ps hnd p hp
  have h2 := find_id_of_mem ps hnd q hq
  rw [h] at h1
  rw [h1] at h2
  exact Option.some.inj h2

/-- A kept provider's (new) subscribers all see the provider's current groups after the reload. -/
theorem provTargets_keep_get (t : Targets) (p : Provider) (H : SrcMap)
    (F1 : ∀ j ∈ p.subs, tgetD t j p.id = H) (F2 : ∀ j, t (j, p.id) ≠ none → j ∈ p.subs)
    (F3 : p.subs = [] → H = [])
    (hk : (p.newSubs.isEmpty && p.started) = false) (j : Job) (hj : j ∈ p.newSubs) :
    tgetD (provTargets t p) j p.id = H := by
  have base : tgetD (eraseKeys t (p.subs.filter (fun j => decide (j ∉ p.newSubs))) p.id) j p.id = tgetD t j p.id := by
    unfold tgetD eraseKeys; simp [hj]
  have unset : (∀ jl ∈ p.subs, tgetD t jl p.id = []) → tgetD t j p.id = H := by
    intro hall
    by_cases hjs : j ∈ p.subs
    · exact F1 j hjs
    · have hn : t (j, p.id) = none := by
        by_cases hx : t (j, p.id) = none
        · exact hx
        · exact absurd (F2 j hx) hjs
      have hH : H = [] := by
        cases hs : p.subs with
        | nil => exact F3 hs
        | cons a r =>
          have ha : a ∈ p.subs := by rw [hs]; exact List.mem_cons_self
          rw [← F1 a ha]; exact hall a ha
      unfold tgetD; rw [hn, hH]; rfl
  unfold provTargets
  simp only [hk, Bool.false_eq_true, if_false]
  unfold refTargets
  cases hl : p.subs.getLast? with
  | none =>
    simp only
    rw [base]
    apply unset
    intro jl hjl
    have : p.subs = [] := List.getLast?_eq_none_iff.mp hl
    rw [this] at hjl; simp at hjl
  | some jl =>
    have hjl : jl ∈ p.subs := List.mem_of_getLast? hl
    simp only
    cases hr : t (jl, p.id) with
    | none =>
      simp only
      rw [base]
      have hH : H = [] := by rw [← F1 jl hjl]; unfold tgetD; rw [hr]; rfl
      by_cases hjs : j ∈ p.subs
      · exact F1 j hjs
      · have hn : t (j, p.id) = none := by
          by_cases hx : t (j, p.id) = none
          · exact hx
          · exact absurd (F2 j hx) hjs
        unfold tgetD; rw [hn, hH]; rfl
    | some m =>
      have hm : H = m := by rw [← F1 jl hjl]; unfold tgetD; rw [hr]; rfl
      simp only
      by_cases hlen : m.length > 0
      · simp only [hlen, if_true]
        unfold tgetD setKeys; simp [hj, hm]
      · simp only [hlen, if_false]
        rw [base]
        have hm0 : m = [] := by
          cases m with
          | nil => rfl
          | cons a r => simp at hlen
        by_cases hjs : j ∈ p.subs
        · exact F1 j hjs
        · have hn : t (j, p.id) = none := by
            by_cases hx : t (j, p.id) = none
            · exact hx
            · exact absurd (F2 j hx) hjs
          unfold tgetD; rw [hn, hm, hm0]; rfl

/-- Whatever is left under a provider's keys after the reload belongs to a kept provider's new subscribers. -/
theorem provTargets_some_imp (t : Targets) (p : Provider) (F2 : ∀ j, t (j, p.id) ≠ none → j ∈ p.subs)
    (j : Job) (h : provTargets t p (j, p.id) ≠ none) :
    (p.newSubs.isEmpty && p.started) = false ∧ j ∈ p.newSubs := by
  have erase_case : ∀ js : List Job, eraseKeys t js p.id (j, p.id) ≠ none → j ∉ js ∧ j ∈ p.subs := by
    intro js hne
    unfold eraseKeys at hne
    by_cases hjs : j ∈ js
    · simp [hjs] at hne
    · simp only [hjs, and_false, if_false] at hne
      exact ⟨hjs, F2 j hne⟩
  have keep_case : eraseKeys t (p.subs.filter (fun j => decide (j ∉ p.newSubs))) p.id (j, p.id) ≠ none → j ∈ p.newSubs := by
    intro hne
    obtain ⟨h1, h2⟩ := erase_case _ hne
    by_cases hjn : j ∈ p.newSubs
    · exact hjn
    · exact absurd (List.mem_filter.mpr ⟨h2, by simp [hjn]⟩) h1
  unfold provTargets at h
  by_cases hk : (p.newSubs.isEmpty && p.started) = true
  · simp only [hk, if_true] at h
    obtain ⟨h1, h2⟩ := erase_case _ h
    exact absurd h2 h1
  · have hk' : (p.newSubs.isEmpty && p.started) = false := by simpa using hk
    refine ⟨hk', ?_⟩
    simp only [hk', Bool.false_eq_true, if_false] at h
    cases hr : refTargets t p with
    | none => rw [hr] at h; exact keep_case h
    | some m =>
      rw [hr] at h
      simp only at h
      by_cases hlen : m.length > 0
      · simp only [hlen, if_true] at h
        by_cases hjn : j ∈ p.newSubs
        · exact hjn
        · unfold setKeys at h
          simp only [hjn, and_false, if_false] at h
          exact keep_case h
      · simp only [hlen, if_false] at h
        exact keep_case h

/-! ### the invariant -/

structure Inv (s : State) : Prop where
  ids_nodup : (s.providers.map (·.id)).Nodup
  ids_lt : ∀ p ∈ s.providers, p.id < s.lastProvider
  subs_nodup : ∀ p ∈ s.providers, p.subs.Nodup
  subs_ne : ∀ p ∈ s.providers, p.subs ≠ []
  newSubs_nil : ∀ p ∈ s.providers, p.newSubs = []
  started : ∀ p ∈ s.providers, p.started = true
  /-- no entry of `targets` outlives its provider or its subscription -/
  noLeak : ∀ j pid, s.targets (j, pid) ≠ none → ∃ p ∈ s.providers, p.id = pid ∧ j ∈ p.subs
  /-- every subscriber of a provider sees exactly the fold of that provider's updates -/
  tgt_hist : ∀ p ∈ s.providers, ∀ j ∈ p.subs, tgetD s.targets j p.id = applyUpd [] (s.hist p.id)
  hist_fresh : ∀ pid, s.lastProvider ≤ pid → s.hist pid = []
  mid_live : ∀ pid ∈ s.mid, ∃ p ∈ s.providers, p.id = pid
  /-- delivered = allGroups ∨ pending ∨ someone is between U1 and U2 / S1 and S2 -/
  send_idle : s.sender = .idle → s.pending = false → s.mid = [] → s.delivered = allGroups s
  /-- a snapshot in progress, completed against the current targets, is current (same exceptions) -/
  send_snapping : ∀ acc rest, s.sender = .snapping acc rest → s.pending = false → s.mid = [] →
    rest.foldl (agProv s.targets) acc = allGroups s

theorem inv_init : Inv {} := by
  refine ⟨by simp, by simp, by simp, by simp, by simp, by simp, ?_, by simp, by simp, by simp, ?_, ?_⟩
  · intro j pid h; simp at h
  · intro _ _ _; rfl
  · intro acc rest h; simp at h

theorem allGroups_congr (s s' : State) (hp : s'.providers = s.providers) (ht : s'.targets = s.targets) :
    allGroups s' = allGroups s := by
  unfold allGroups; rw [hp, ht]

theorem findProv_some (s : State) (pid : Pid) (p : Provider) (h : findProv s pid = some p) :
    p ∈ s.providers ∧ p.id = pid := by
  unfold findProv at h
  refine ⟨List.mem_of_find?_eq_some h, ?_⟩
  have := List.find?_some h
  simpa using this

theorem inv_u1 (s : State) (hI : Inv s) (pid : Pid) (u : Upd) (s' : State) (h : step s (.u1 pid u) = some s') :
    Inv s' := by
  simp only [step] at h
  cases hf : findProv s pid with
  | none => rw [hf] at h; simp at h
  | some p =>
    rw [hf] at h
    obtain ⟨hp, hpid⟩ := findProv_some s pid p hf
    by_cases hm : pid ∈ s.mid
    · simp [hm] at h
    · simp only [hm, if_false, Option.some.injEq] at h
      subst h
      refine ⟨hI.ids_nodup, hI.ids_lt, hI.subs_nodup, hI.subs_ne, hI.newSubs_nil, hI.started, ?_, ?_, ?_, ?_, ?_, ?_⟩
      · intro j q hne
        simp only [updateTargets] at hne
        by_cases hc : q = p.id ∧ j ∈ p.subs
        · exact ⟨p, hp, hc.1.symm, hc.2⟩
        · simp only [hc, if_false] at hne
          exact hI.noLeak j q hne
      · intro q hq j hj
        simp only
        by_cases hqp : q.id = p.id
        · have : q = p := eq_of_id_eq s.providers hI.ids_nodup q p hq hp hqp
          subst this
          have e1 : tgetD (updateTargets s.targets q u) j q.id = applyUpd (tgetD s.targets j q.id) u := by
            unfold tgetD updateTargets; simp [hj]
          rw [e1, hI.tgt_hist q hq j hj, ← applyUpd_append]
          simp [hpid]
        · have e1 : tgetD (updateTargets s.targets p u) j q.id = tgetD s.targets j q.id := by
            unfold tgetD updateTargets; simp [hqp]
          rw [e1, hI.tgt_hist q hq j hj]
          have : ¬ q.id = pid := fun e => hqp (e.trans hpid.symm)
          simp [this]
      · intro q hq
        simp only
        have : ¬ q = pid := by
          intro e; subst e
          have := hI.ids_lt p hp
          rw [hpid] at this
          exact Nat.lt_irrefl _ (Nat.lt_of_lt_of_le this hq)
        simp only [this, if_false]
        exact hI.hist_fresh q hq
      · intro q hq
        simp only at hq
        rcases List.mem_cons.mp hq with rfl | hq
        · exact ⟨p, hp, hpid⟩
        · exact hI.mid_live q hq
      · intro _ _ hmid; simp at hmid
      · intro _ _ _ _ hmid; simp at hmid

theorem inv_applyConfig (s : State) (hI : Inv s) (cfg : List (Job × List Cfg)) : Inv (applyConfig s cfg) := by
  have hR0 : RegOk s.providers s.lastProvider (s.providers, s.lastProvider) :=
    ⟨hI.ids_nodup, hI.ids_lt, Nat.le_refl _, fun p0 hp0 => ⟨p0, hp0, rfl⟩,
     fun p hp => Or.inl ⟨p, hp, rfl, rfl, rfl⟩, fun p hp => by rw [hI.newSubs_nil p hp]; simp⟩
  have hR := regOk_foldl_registerJob s.providers s.lastProvider cfg _ hR0
  generalize hreg : cfg.foldl registerJob (s.providers, s.lastProvider) = reg at hR
  -- facts about every provider the loop visits
  have F1 : ∀ p ∈ reg.1, ∀ j ∈ p.subs, tgetD s.targets j p.id = applyUpd [] (s.hist p.id) := by
    intro p hp j hj
    rcases hR.origin p hp with ⟨p0, hp0, h1, h2, _⟩ | ⟨h1, _, _⟩
    · rw [h1]; rw [h2] at hj; exact hI.tgt_hist p0 hp0 j hj
    · rw [h1] at hj; simp at hj
  have F2 : ∀ p ∈ reg.1, ∀ j, s.targets (j, p.id) ≠ none → j ∈ p.subs := by
    intro p hp j hne
    obtain ⟨q, hq, hqid, hjq⟩ := hI.noLeak j p.id hne
    rcases hR.origin p hp with ⟨p0, hp0, h1, h2, _⟩ | ⟨_, h2, _⟩
    · have : q = p0 := eq_of_id_eq s.providers hI.ids_nodup q p0 hq hp0 (hqid.trans h1)
      subst this; rw [h2]; exact hjq
    · have := hI.ids_lt q hq
      rw [hqid] at this
      exact absurd (Nat.lt_of_lt_of_le this h2) (Nat.lt_irrefl _)
  have F3 : ∀ p ∈ reg.1, p.subs = [] → applyUpd [] (s.hist p.id) = [] := by
    intro p hp hs
    rcases hR.origin p hp with ⟨p0, hp0, _, h2, _⟩ | ⟨_, h2, _⟩
    · exact absurd (h2 ▸ hs) (hI.subs_ne p0 hp0)
    · rw [hI.hist_fresh p.id h2]; rfl
  have F4 : ∀ p ∈ reg.1, (p.newSubs.isEmpty && p.started) = false → p.newSubs ≠ [] := by
    intro p hp hk
    rcases hR.origin p hp with ⟨p0, hp0, _, _, h3⟩ | ⟨_, _, h3⟩
    · rw [h3, hI.started p0 hp0] at hk
      intro e; rw [e] at hk; simp at hk
    · exact h3
  have hkept : ∀ p' ∈ reg.1.filterMap provKeep, ∃ p ∈ reg.1, (p.newSubs.isEmpty && p.started) = false ∧
      p' = { p with subs := p.newSubs, newSubs := [], started := true } := by
    intro p' hp'
    obtain ⟨p, hp, hk⟩ := List.mem_filterMap.mp hp'
    unfold provKeep at hk
    by_cases hc : (p.newSubs.isEmpty && p.started) = true
    · simp [hc] at hk
    · have hc' : (p.newSubs.isEmpty && p.started) = false := by simpa using hc
      simp only [hc', Bool.false_eq_true, if_false, Option.some.injEq] at hk
      exact ⟨p, hp, hc', hk.symm⟩
  have hkeptIds : (reg.1.filterMap provKeep).map (·.id) = (reg.1.filter (fun p => (provKeep p).isSome)).map (·.id) := by
    generalize reg.1 = l
    induction l with
    | nil => rfl
    | cons a r ih =>
      simp only [List.filterMap_cons, List.filter_cons]
      cases hk : provKeep a with
      | none => simp [ih]
      | some b =>
        have : b.id = a.id := by
          unfold provKeep at hk
          by_cases hc : (a.newSubs.isEmpty && a.started) = true
          · simp [hc] at hk
          · have hc' : (a.newSubs.isEmpty && a.started) = false := by simpa using hc
            simp only [hc', Bool.false_eq_true, if_false, Option.some.injEq] at hk
            rw [← hk]
        simp [ih, this]
  have htgt : ∀ j pid, (reg.1.foldl provTargets s.targets) (j, pid) =
      match reg.1.find? (fun p => p.id == pid) with
      | some p => provTargets s.targets p (j, pid)
      | none => s.targets (j, pid) := fun j pid => foldl_provTargets reg.1 hR.ids_nodup s.targets j pid
  unfold applyConfig
  rw [hreg]
  refine ⟨?_, ?_, ?_, ?_, ?_, ?_, ?_, ?_, ?_, ?_, ?_, ?_⟩
  · simp only
    rw [hkeptIds]
    exact (hR.ids_nodup.sublist (List.Sublist.map _ List.filter_sublist))
  · intro p' hp'
    obtain ⟨p, hp, _, rfl⟩ := hkept p' hp'
    exact hR.ids_lt p hp
  · intro p' hp'
    obtain ⟨p, hp, _, rfl⟩ := hkept p' hp'
    exact hR.newSubs_nodup p hp
  · intro p' hp'
    obtain ⟨p, hp, hk, rfl⟩ := hkept p' hp'
    exact F4 p hp hk
  · intro p' hp'
    obtain ⟨p, hp, _, rfl⟩ := hkept p' hp'
    rfl
  · intro p' hp'
    obtain ⟨p, hp, _, rfl⟩ := hkept p' hp'
    rfl
  · -- noLeak
    intro j pid hne
    simp only at hne
    rw [htgt] at hne
    cases hf : reg.1.find? (fun p => p.id == pid) with
    | none =>
      rw [hf] at hne
      simp only at hne
      obtain ⟨q, hq, hqid, _⟩ := hI.noLeak j pid hne
      obtain ⟨p, hp, hpid⟩ := hR.old_kept q hq
      have := List.find?_eq_none.mp hf p hp
      simp [hpid, hqid] at this
    | some p =>
      rw [hf] at hne
      simp only at hne
      have hp : p ∈ reg.1 := List.mem_of_find?_eq_some hf
      have hpid : p.id = pid := by have := List.find?_some hf; simpa using this
      subst hpid
      obtain ⟨hk, hj⟩ := provTargets_some_imp s.targets p (F2 p hp) j hne
      refine ⟨{ p with subs := p.newSubs, newSubs := [], started := true }, ?_, rfl, hj⟩
      apply List.mem_filterMap.mpr
      refine ⟨p, hp, ?_⟩
      unfold provKeep; simp [hk]
  · -- tgt_hist
    intro p' hp' j hj
    obtain ⟨p, hp, hk, rfl⟩ := hkept p' hp'
    simp only at hj ⊢
    have e1 : tgetD (reg.1.foldl provTargets s.targets) j p.id = tgetD (provTargets s.targets p) j p.id := by
      unfold tgetD
      rw [htgt, find_id_of_mem reg.1 hR.ids_nodup p hp]
    rw [e1]
    exact provTargets_keep_get s.targets p _ (F1 p hp) (F2 p hp) (F3 p hp) hk j hj
  · intro pid hpid
    simp only at hpid ⊢
    exact hI.hist_fresh pid (Nat.le_trans hR.n_le hpid)
  · intro pid hpid
    simp only at hpid ⊢
    obtain ⟨_, hany⟩ := List.mem_filter.mp hpid
    obtain ⟨p', hp', hid⟩ := List.any_eq_true.mp hany
    exact ⟨p', hp', by simpa using hid⟩
  · intro hs hpend hmid
    simp only at hs hpend hmid ⊢
    by_cases hlen : reg.1.length > 0
    · simp [hlen] at hpend
    · have hnil : reg.1 = [] := by
        cases h : reg.1 with
        | nil => rfl
        | cons a r => rw [h] at hlen; simp at hlen
      have hps : s.providers = [] := by
        cases h : s.providers with
        | nil => rfl
        | cons a r =>
          obtain ⟨p, hp, _⟩ := hR.old_kept a (by rw [h]; exact List.mem_cons_self)
          rw [hnil] at hp; simp at hp
      have hm0 : s.mid = [] := by
        cases h : s.mid with
        | nil => rfl
        | cons a r =>
          obtain ⟨p, hp, _⟩ := hI.mid_live a (by rw [h]; exact List.mem_cons_self)
          rw [hps] at hp; simp at hp
      simp only [hlen, if_false] at hpend
      rw [hI.send_idle hs hpend hm0]
      unfold allGroups
      simp [hnil, hps]
  · intro acc rest hs hpend hmid
    simp only at hs hpend hmid ⊢
    by_cases hlen : reg.1.length > 0
    · simp [hlen] at hpend
    · have hnil : reg.1 = [] := by
        cases h : reg.1 with
        | nil => rfl
        | cons a r => rw [h] at hlen; simp at hlen
      have hps : s.providers = [] := by
        cases h : s.providers with
        | nil => rfl
        | cons a r =>
          obtain ⟨p, hp, _⟩ := hR.old_kept a (by rw [h]; exact List.mem_cons_self)
          rw [hnil] at hp; simp at hp
      have hm0 : s.mid = [] := by
        cases h : s.mid with
        | nil => rfl
        | cons a r =>
          obtain ⟨p, hp, _⟩ := hI.mid_live a (by rw [h]; exact List.mem_cons_self)
          rw [hps] at hp; simp at hp
      simp only [hlen, if_false] at hpend
      have := hI.send_snapping acc rest hs hpend hm0
      simp only [hnil, List.foldl_nil]
      rw [this]
      unfold allGroups
      simp [hnil, hps]

theorem inv_step (s : State) (hI : Inv s) (a : Action) (s' : State) (h : step s a = some s') : Inv s' := by
  cases a with
  | u1 pid u => exact inv_u1 s hI pid u s' h
  | applyConfig cfg =>
    simp only [step] at h
    cases hs : s.sender with
    | idle => rw [hs] at h; simp only [Option.some.injEq] at h; subst h; exact inv_applyConfig s hI cfg
    | took => rw [hs] at h; simp only [Option.some.injEq] at h; subst h; exact inv_applyConfig s hI cfg
    | snapping acc rest => rw [hs] at h; simp at h
  | u2 pid =>
    simp only [step] at h
    by_cases hm : pid ∈ s.mid
    · simp only [hm, if_true, Option.some.injEq] at h
      subst h
      refine ⟨hI.ids_nodup, hI.ids_lt, hI.subs_nodup, hI.subs_ne, hI.newSubs_nil, hI.started, hI.noLeak,
        hI.tgt_hist, hI.hist_fresh, ?_, ?_, ?_⟩
      · intro q hq; exact hI.mid_live q (List.mem_of_mem_erase hq)
      · intro _ hp; simp at hp
      · intro _ _ _ hp; simp at hp
    · simp [hm] at h
  | s1 =>
    simp only [step] at h
    by_cases hc : s.sender = .idle ∧ s.pending = true
    · simp only [hc, and_self, if_true, Option.some.injEq] at h
      subst h
      refine ⟨hI.ids_nodup, hI.ids_lt, hI.subs_nodup, hI.subs_ne, hI.newSubs_nil, hI.started, hI.noLeak,
        hI.tgt_hist, hI.hist_fresh, hI.mid_live, ?_, ?_⟩
      · intro hs; simp at hs
      · intro _ _ hs; simp at hs
    · simp [hc] at h
  | s2begin =>
    simp only [step] at h
    by_cases hc : s.sender = .took
    · simp only [hc, if_true, Option.some.injEq] at h
      subst h
      refine ⟨hI.ids_nodup, hI.ids_lt, hI.subs_nodup, hI.subs_ne, hI.newSubs_nil, hI.started, hI.noLeak,
        hI.tgt_hist, hI.hist_fresh, hI.mid_live, ?_, ?_⟩
      · intro hs; simp at hs
      · intro acc rest hs _ _
        simp only [SenderPc.snapping.injEq] at hs
        rw [← hs.1, ← hs.2]; rfl
    · simp [hc] at h
  | s2prov =>
    simp only [step] at h
    cases hs : s.sender with
    | idle => rw [hs] at h; simp at h
    | took => rw [hs] at h; simp at h
    | snapping acc rest =>
      rw [hs] at h
      cases rest with
      | nil => simp at h
      | cons p rest =>
        simp only [Option.some.injEq] at h
        subst h
        refine ⟨hI.ids_nodup, hI.ids_lt, hI.subs_nodup, hI.subs_ne, hI.newSubs_nil, hI.started, hI.noLeak,
          hI.tgt_hist, hI.hist_fresh, hI.mid_live, ?_, ?_⟩
        · intro h2; simp at h2
        · intro acc' rest' h2 hp hm
          simp only [SenderPc.snapping.injEq] at h2
          simp only at hp hm ⊢
          rw [← h2.1, ← h2.2]
          have := hI.send_snapping acc (p :: rest) hs hp hm
          simp only [List.foldl_cons] at this
          rw [this]; exact (allGroups_congr s _ rfl rfl).symm
  | s2send =>
    simp only [step] at h
    cases hs : s.sender with
    | idle => rw [hs] at h; simp at h
    | took => rw [hs] at h; simp at h
    | snapping snap rest =>
      rw [hs] at h
      cases rest with
      | cons p rest => simp at h
      | nil =>
      simp only at h
      by_cases hr : s.consumerReady = true
      · simp only [hr, if_true, Option.some.injEq] at h
        subst h
        refine ⟨hI.ids_nodup, hI.ids_lt, hI.subs_nodup, hI.subs_ne, hI.newSubs_nil, hI.started, hI.noLeak,
          hI.tgt_hist, hI.hist_fresh, hI.mid_live, ?_, ?_⟩
        · intro _ hp hm
          simp only at hp hm ⊢
          have := hI.send_snapping snap [] hs hp hm
          simp only [List.foldl_nil] at this
          rw [this]
          exact (allGroups_congr s _ rfl rfl).symm
        · intro _ _ h2; simp at h2
      · have hr' : s.consumerReady = false := by simpa using hr
        simp only [hr', Bool.false_eq_true, if_false, Option.some.injEq] at h
        subst h
        refine ⟨hI.ids_nodup, hI.ids_lt, hI.subs_nodup, hI.subs_ne, hI.newSubs_nil, hI.started, hI.noLeak,
          hI.tgt_hist, hI.hist_fresh, hI.mid_live, ?_, ?_⟩
        · intro _ hp; simp at hp
        · intro _ _ _ hp; simp at hp
  | receive =>
    simp only [step, Option.some.injEq] at h
    subst h
    exact ⟨hI.ids_nodup, hI.ids_lt, hI.subs_nodup, hI.subs_ne, hI.newSubs_nil, hI.started, hI.noLeak,
      hI.tgt_hist, hI.hist_fresh, hI.mid_live, hI.send_idle, hI.send_snapping⟩
  | leave =>
    simp only [step, Option.some.injEq] at h
    subst h
    exact ⟨hI.ids_nodup, hI.ids_lt, hI.subs_nodup, hI.subs_ne, hI.newSubs_nil, hI.started, hI.noLeak,
      hI.tgt_hist, hI.hist_fresh, hI.mid_live, hI.send_idle, hI.send_snapping⟩

theorem inv_run (s : State) (hI : Inv s) (acts : List Action) (s' : State) (h : run s acts = some s') : Inv s' := by
  induction acts generalizing s with
  | nil => simp only [run, Option.some.injEq] at h; subst h; exact hI
  | cons a r ih =>
    simp only [run] at h
    cases hs : step s a with
    | none => rw [hs] at h; simp at h
    | some s1 => rw [hs] at h; exact ih s1 (inv_step s hI a s1 hs) h

end Prom.Discovery
