import PromModel.Tsdb.BlockPopulate
import PromProofs.BlockPopulate
import PromProofs.BlockPopulateSeries
import PromProofs.BlockPopulateMulti
/-
  C07: several source blocks under the CONCATENATING merger (`storage.NewConcatenatingChunkSeriesMerger`,
  the non-overlapping / horizontal compaction path).

  * `concatNext` / `concatDrain` (the transcription of `concatenatingChunkIterator.Next`) hand out every
    chunk of every input, in input order, whatever inputs are exhausted or empty: `concatIterAll_eq`.
  * `populate_concat`: when `populate .concat` succeeds, per label set the written samples are exactly
    the visible samples of the sources (nothing lost — in particular not the inputs that follow an input
    without chunks —, nothing invented).
-/
namespace Prom.BlockPopulate
open Prom.Merge
open Prom.Intervals (Interval Intervals)

/-! ## the iterator -/

theorem concatNext_none : ∀ (its : List (List Chunk)), concatNext its = none → its.flatten = []
  | [], _ => rfl
  | (c :: cs) :: r, h => by simp [concatNext] at h
  | [] :: r, h => by
    simp only [concatNext] at h
    simpa using concatNext_none r h

theorem concatNext_some : ∀ (its : List (List Chunk)) (c : Chunk) (its' : List (List Chunk)),
    concatNext its = some (c, its') → its.flatten = c :: its'.flatten
  | [], _, _, h => by simp [concatNext] at h
  | (c0 :: cs) :: r, c, its', h => by
    simp only [concatNext, Option.some.injEq, Prod.mk.injEq] at h
    obtain ⟨rfl, rfl⟩ := h
    simp
  | [] :: r, c, its', h => by
    simp only [concatNext] at h
    simpa using concatNext_some r c its' h

/-- with enough fuel (one step per chunk + the final `false`) the drained iterator is the concatenation
    of all inputs -/
theorem concatDrain_eq : ∀ (fuel : Nat) (its : List (List Chunk)), its.flatten.length < fuel →
    concatDrain fuel its = its.flatten
  | 0, _, h => by omega
  | fuel + 1, its, h => by
    unfold concatDrain
    cases hn : concatNext its with
    | none => simp [concatNext_none its hn]
    | some p =>
      obtain ⟨c, its'⟩ := p
      have hf := concatNext_some its c its' hn
      simp only
      rw [hf] at h ⊢
      rw [concatDrain_eq fuel its' (by simp only [List.length_cons] at h; omega)]

theorem foldl_chunks_len (series : List (List Chunk)) :
    series.foldl (fun n cs => n + cs.length) 0 = series.flatten.length := by
  have : ∀ (l : List (List Chunk)) (n : Nat), l.foldl (fun n s => n + s.length) n = n + l.flatten.length := by
    intro l
    induction l with
    | nil => intro n; simp
    | cons x l ih => intro n; simp only [List.foldl_cons, ih, List.flatten_cons, List.length_append]; omega
  simpa using this series 0

/-- the transcribed iterator = C19's `concatAll` (= `flatten`): every chunk of every input, in input order -/
theorem concatIterAll_eq (series : List (List Chunk)) : concatIterAll series = concatAll series := by
  unfold concatIterAll concatAll
  rw [foldl_chunks_len]
  exact concatDrain_eq _ _ (by omega)

/-! ## one group, all groups -/

/-- what the concatenating merge of one group of equal-label series produces -/
structure Rcat (g : List CS) (m : CS) : Prop where
  lab : m.1 = grpLabel (·.1) g
  chunks : m.2 = g.flatMap (·.2)

theorem Rcat.samples {g : List CS} {m : CS} (h : Rcat g m) : csSamples m = g.flatMap csSamples := by
  unfold csSamples
  rw [h.chunks, List.flatMap_assoc]

theorem mergeGroup_concat_spec (g : List CS) (hne : g ≠ []) (o : Option CS)
    (h : mergeGroup .concat g = .ok o) : ∃ m, o = some m ∧ Rcat g m := by
  match g, hne, h with
  | [x], _, h =>
    simp only [mergeGroup] at h
    cases h
    exact ⟨x, rfl, by simp [grpLabel], by simp⟩
  | x :: y :: r, _, h =>
    simp only [mergeGroup] at h
    cases h
    refine ⟨_, rfl, by simp [grpLabel], ?_⟩
    rw [concatIterAll_eq]
    simp [concatAll, List.flatMap_def]

theorem mergeGroups_concat_spec : ∀ (groups : List (List CS)) (merged : List CS),
    (∀ g ∈ groups, g ≠ []) → mergeGroups .concat groups = .ok merged →
    merged.map (·.1) = groups.map (grpLabel (·.1)) ∧ (∀ m ∈ merged, ∃ g ∈ groups, Rcat g m) ∧
      ∀ g ∈ groups, ∃ m ∈ merged, Rcat g m
  | [], merged, _, h => by
    simp only [mergeGroups] at h
    cases h
    exact ⟨rfl, by simp, by simp⟩
  | g :: r, merged, hok, h => by
    unfold mergeGroups at h
    split at h
    · cases h
    · rename_i o ho
      split at h
      · cases h
      · rename_i rest hrest
        cases h
        obtain ⟨i1, i2, i3⟩ := mergeGroups_concat_spec r rest (fun x hx => hok x (List.mem_cons_of_mem _ hx)) hrest
        obtain ⟨m, rfl, hm⟩ := mergeGroup_concat_spec g (hok g (by simp)) o ho
        simp only [Option.toList_some, List.cons_append, List.nil_append]
        refine ⟨by simp [hm.lab, i1], ?_, ?_⟩
        · intro m' hm'
          rcases List.mem_cons.1 hm' with rfl | hm'
          · exact ⟨g, by simp, hm⟩
          · obtain ⟨g', hg', h'⟩ := i2 m' hm'
            exact ⟨g', List.mem_cons_of_mem _ hg', h'⟩
        · intro g' hg'
          rcases List.mem_cons.1 hg' with rfl | hg'
          · exact ⟨m, by simp, hm⟩
          · obtain ⟨m', hm', h'⟩ := i3 g' hg'
            exact ⟨m', List.mem_cons_of_mem _ hm', h'⟩

/-! ## the whole population -/

/-- Several source blocks under the concatenating merger, one label set `l`, when `PopulateBlock` succeeds
    (i.e. the index writer accepted the concatenated chunks as time-ordered): the samples written for `l`
    are strictly increasing in time, and they are EXACTLY the visible samples of the source series with label
    set `l` — every one of them, from every source, wherever sources without a single chunk sit among the
    inputs of the merge function; `l` is written iff some source has a visible sample for it. -/
theorem populate_concat (blocks : List Block) (mint maxt : Int) (o : Output)
    (hb : ∀ b ∈ blocks, (∀ s ∈ b.series, SrcOK s) ∧ Asc (b.series.map (·.labels)))
    (hmint : Intervals.MinI64 < mint ∧ mint ≤ Intervals.MaxI64) (hmaxt : Intervals.MinI64 ≤ maxt ∧ maxt < Intervals.MaxI64)
    (h : populate .concat blocks mint maxt = .ok o) (l : Labels) :
    SortedL ((o.series.filter fun cs => cs.1 == l).flatMap csSamples) ∧
    (∀ x, x ∈ (o.series.filter fun cs => cs.1 == l).flatMap csSamples ↔
      ∃ b ∈ blocks, ∃ s ∈ b.series, s.labels = l ∧ x ∈ visible mint maxt s) ∧
    ((o.series.any fun cs => cs.1 == l) = true ↔
      ∃ b ∈ blocks, ∃ s ∈ b.series, s.labels = l ∧ visible mint maxt s ≠ []) := by
  obtain ⟨winv, merged, ⟨sets, groups, hs, hg, hm⟩, hser⟩ := populate_written h
  obtain ⟨a1, a2, a3⟩ := blockSets_wf mint maxt hmint hmaxt blocks sets hb hs
  obtain ⟨g1, g2, g3⟩ := groupSets_spec sets a1
  rw [hg] at g1 g2 g3
  simp only at g1 g2 g3
  obtain ⟨m1, m2, m3⟩ := mergeGroups_concat_spec groups merged (fun g hgm => (g2 g hgm).1) hm
  have hmpw : merged.Pairwise (fun a b => Llt a.1 b.1) := by
    have : (merged.map (·.1)).Pairwise Llt := by rw [m1]; exact g1
    rw [List.pairwise_map] at this
    exact this
  have hfind : ∀ cs ∈ sets.flatten, cs.1 = l → ∃ m ∈ merged.filter (fun cs => cs.1 == l), ∃ g ∈ groups, cs ∈ g ∧ Rcat g m := by
    intro cs hcs hl
    obtain ⟨g, hgm, hcg⟩ := (g3 cs).2 hcs
    obtain ⟨m, hmm, hr⟩ := m3 g hgm
    refine ⟨m, List.mem_filter.2 ⟨hmm, ?_⟩, g, hgm, hcg, hr⟩
    simp only [beq_iff_eq]
    rw [hr.lab, ← (g2 g hgm).2 cs hcg, hl]
  have hfilt : o.series.filter (fun cs => cs.1 == l) =
      (merged.filter (fun cs => cs.1 == l)).filter (fun s => !s.2.isEmpty) := by
    rw [hser, List.filter_filter, List.filter_filter]
    apply List.filter_congr
    intro x _
    exact Bool.and_comm _ _
  rw [List.any_eq_true]
  rw [hfilt]
  rcases filter_key_unique merged hmpw l with hnil | ⟨m, hone⟩
  · rw [hnil]
    have hno : ∀ b ∈ blocks, ∀ s ∈ b.series, s.labels = l → visible mint maxt s = [] := by
      intro b hbm s hsm hl
      rcases a3 b hbm s hsm with ⟨cs, hcs, hy⟩ | hv
      · obtain ⟨m, hmf, _⟩ := hfind cs hcs (by rw [hy.1, hl])
        rw [hnil] at hmf; simp at hmf
      · exact hv
    refine ⟨List.Pairwise.nil, ?_, ?_⟩
    · intro x
      constructor
      · intro hx; simp at hx
      · rintro ⟨b, hbm, s, hsm, hl, hx⟩
        rw [hno b hbm s hsm hl] at hx; simp at hx
    · constructor
      · rintro ⟨x, hx, hxl⟩
        have : x ∈ merged.filter (fun cs => cs.1 == l) := by
          rw [hser] at hx
          exact List.mem_filter.2 ⟨(List.mem_filter.1 hx).1, hxl⟩
        rw [hnil] at this; simp at this
      · rintro ⟨b, hbm, s, hsm, hl, hv⟩
        exact (hv (hno b hbm s hsm hl)).elim
  · rw [hone]
    have hmm : m ∈ merged.filter (fun cs => cs.1 == l) := by rw [hone]; simp
    obtain ⟨hmmem, hml⟩ := List.mem_filter.1 hmm
    have hml' : m.1 = l := by simpa using hml
    obtain ⟨g, hgm, hr⟩ := m2 m hmmem
    have hout : ([m].filter (fun s => !s.2.isEmpty)).flatMap csSamples = csSamples m := by
      by_cases he : m.2.isEmpty = true
      · have : m.2 = [] := by simpa using he
        simp [he, csSamples, this]
      · simp [he]
    rw [hout]
    -- every chunk of the concatenation is a chunk of a yielded series, hence well-formed
    have hcok : ∀ c ∈ m.2, ChunkOK c := by
      intro c hc
      rw [hr.chunks] at hc
      obtain ⟨cs, hcs, hcc⟩ := List.mem_flatMap.1 hc
      exact (a2 cs ((g3 cs).1 ⟨g, hgm, hcs⟩)).1.ok c hcc
    have hsub : ∀ x ∈ csSamples m, ∃ b ∈ blocks, ∃ s ∈ b.series, s.labels = l ∧ x ∈ visible mint maxt s := by
      intro x hx
      rw [hr.samples] at hx
      obtain ⟨cs, hcs, hxc⟩ := List.mem_flatMap.1 hx
      obtain ⟨_, b, hbm, s, hsm, hyl⟩ := a2 cs ((g3 cs).1 ⟨g, hgm, hcs⟩)
      refine ⟨b, hbm, s, hsm, ?_, by rw [← hyl.2]; exact hxc⟩
      rw [← hyl.1, (g2 g hgm).2 cs hcs, ← hr.lab, hml']
    have hcov : ∀ b ∈ blocks, ∀ s ∈ b.series, s.labels = l → ∀ y ∈ visible mint maxt s, y ∈ csSamples m := by
      intro b hbm s hsm hl y hy
      rcases a3 b hbm s hsm with ⟨cs, hcs, hyl⟩ | hv
      · obtain ⟨m', hmf, g', hg', hcg', hr'⟩ := hfind cs hcs (by rw [hyl.1, hl])
        rw [hone] at hmf
        simp only [List.mem_singleton] at hmf
        subst hmf
        rw [hr'.samples]
        exact List.mem_flatMap.2 ⟨cs, hcg', by rw [hyl.2]; exact hy⟩
      · rw [hv] at hy; simp at hy
    have hsorted : SortedL (csSamples m) := by
      by_cases he : m.2 = []
      · simp [csSamples, he, SortedL]
      · have hmo : m ∈ o.series.reverse := by
          rw [List.mem_reverse, hser]
          exact List.mem_filter.2 ⟨hmmem, by simpa using he⟩
        obtain ⟨_, hpw⟩ := chunksAccepted_spec m.2 none (winv.accepted m hmo)
        exact smp_sorted m.2 hcok hpw
    refine ⟨hsorted, fun x => ⟨hsub x, ?_⟩, ?_⟩
    · rintro ⟨b, hbm, s, hsm, hl, hx⟩
      exact hcov b hbm s hsm hl x hx
    · constructor
      · rintro ⟨x, hx, _⟩
        have hxm : x = m := by
          have : x ∈ merged.filter (fun cs => cs.1 == l) := by
            rw [hser] at hx
            exact List.mem_filter.2 ⟨(List.mem_filter.1 hx).1, by assumption⟩
          rw [hone] at this; simpa using this
        subst hxm
        have hne : x.2 ≠ [] := by
          rw [hser] at hx
          have := (List.mem_filter.1 hx).2
          simpa using this
        obtain ⟨c, hc⟩ := List.exists_mem_of_ne_nil _ hne
        obtain ⟨s0, hs0⟩ := List.exists_mem_of_ne_nil _ (hcok c hc).ne
        have hs0m : s0 ∈ csSamples x := List.mem_flatMap.2 ⟨c, hc, hs0⟩
        obtain ⟨b, hbm, s, hsm, hl, hy⟩ := hsub s0 hs0m
        exact ⟨b, hbm, s, hsm, hl, List.ne_nil_of_mem hy⟩
      · rintro ⟨b, hbm, s, hsm, hl, hv⟩
        obtain ⟨y, hy⟩ := List.exists_mem_of_ne_nil _ hv
        have hym := hcov b hbm s hsm hl y hy
        have hne2 : m.2 ≠ [] := by
          intro h0
          simp [csSamples, h0] at hym
        refine ⟨m, ?_, hml⟩
        rw [hser]
        exact List.mem_filter.2 ⟨hmmem, by simpa using hne2⟩

end Prom.BlockPopulate
