import PromProofs.QuantileRat
/-
  Helper lemmas for C32, part 2: `sort.Search`, the monotonicity fix-up on lists, and the bridge from
  the list-level `BucketQuantile` tail to the index-function form of part 1.
-/
namespace Prom.Quantile
open FOps

/-- `sort.Search` (transcribed loop) returns an index `k ≤ n` at a false→true boundary of `f`
    (no monotonicity of `f` needed for this). -/
theorem searchGo_spec (f : Nat → Bool) (n : Nat) :
    ∀ fuel i j, i ≤ j → j ≤ n → j - i ≤ fuel → (i = 0 ∨ f (i - 1) = false) → (j = n ∨ f j = true) →
      i ≤ searchGo f fuel i j ∧ searchGo f fuel i j ≤ j ∧
      (searchGo f fuel i j = 0 ∨ f (searchGo f fuel i j - 1) = false) ∧
      (searchGo f fuel i j = n ∨ f (searchGo f fuel i j) = true) := by
  intro fuel
  induction fuel with
  | zero =>
    intro i j hij hjn hf hi hj
    have : i = j := by omega
    subst this
    simp [searchGo, hi, hj]
  | succ fuel ih =>
    intro i j hij hjn hf hi hj
    unfold searchGo
    by_cases hlt : i < j
    · simp only [hlt, if_true]
      by_cases hfh : f ((i + j) / 2) = true
      · simp only [hfh, Bool.not_true, Bool.false_eq_true, if_false]
        have := ih i ((i + j) / 2) (by omega) (by omega) (by omega) hi (Or.inr hfh)
        refine ⟨this.1, by omega, this.2.2.1, this.2.2.2⟩
      · have hfh' : f ((i + j) / 2) = false := by simpa using hfh
        simp only [hfh', Bool.not_false, if_true]
        have := ih ((i + j) / 2 + 1) j (by omega) hjn (by omega) (Or.inr (by simpa using hfh')) hj
        refine ⟨by omega, this.2.1, this.2.2.1, this.2.2.2⟩
    · have : i = j := by omega
      subst this
      simp [hi, hj]

theorem sortSearch_spec (f : Nat → Bool) (n : Nat) :
    sortSearch n f ≤ n ∧ (sortSearch n f = 0 ∨ f (sortSearch n f - 1) = false) ∧
      (sortSearch n f = n ∨ f (sortSearch n f) = true) := by
  have := searchGo_spec f n (n + 1) 0 n (by omega) (by omega) (by omega) (Or.inl rfl) (Or.inl rfl)
  exact ⟨this.2.1, this.2.2.1, this.2.2.2⟩

/-! ### the `FOps XR` instance, unfolded -/
@[simp] theorem fops_add (a b : XR) : FOps.add a b = XR.add a b := rfl
@[simp] theorem fops_sub (a b : XR) : FOps.sub a b = XR.sub a b := rfl
@[simp] theorem fops_mul (a b : XR) : FOps.mul a b = XR.mul a b := rfl
@[simp] theorem fops_div (a b : XR) : FOps.div a b = XR.div a b := rfl
@[simp] theorem fops_lt (a b : XR) : FOps.lt a b = XR.lt a b := rfl
@[simp] theorem fops_le (a b : XR) : FOps.le a b = XR.le a b := rfl
@[simp] theorem fops_beq (a b : XR) : FOps.beq a b = XR.beq a b := rfl
@[simp] theorem fops_isNaN (a : XR) : FOps.isNaN a = XR.isNaN a := rfl
@[simp] theorem fops_zero : (FOps.zero : XR) = .fin 0 := rfl
@[simp] theorem fops_one : (FOps.one : XR) = .fin 1 := rfl
@[simp] theorem fops_nan : (FOps.nan : XR) = .nan := rfl
@[simp] theorem fops_pinf : (FOps.pinf : XR) = .pinf := rfl
@[simp] theorem fops_ninf : (FOps.ninf : XR) = .ninf := rfl

/-- all counts are finite -/
def FinC (bs : List (Bucket XR)) : Prop := ∀ b ∈ bs, ∃ c, b.count = .fin c

/-- counts are finite, at least `p`, and non-decreasing along the list -/
def MonoFrom (p : Rat) : List (Bucket XR) → Prop
  | [] => True
  | b :: bs => ∃ c, b.count = .fin c ∧ p ≤ c ∧ MonoFrom c bs

/-- The fix-up makes ANY finite counts non-decreasing, whatever the tolerance predicate says. -/
theorem fixCounts_mono (almost : XR → XR → Bool) :
    ∀ (bs : List (Bucket XR)) (p : Rat), FinC bs → MonoFrom p (fixCounts almost (.fin p) bs) := by
  intro bs
  induction bs with
  | nil => intro p _; simp [fixCounts, MonoFrom]
  | cons b bs ih =>
    intro p h
    obtain ⟨c, hc⟩ := h b (List.mem_cons_self ..)
    have hbs : FinC bs := fun x hx => h x (List.mem_cons_of_mem _ hx)
    simp only [fixCounts, hc, fops_beq, fops_lt, XR.beq_fin, XR.lt_fin]
    split
    · rename_i e
      have e' : c = p := by simpa using e
      exact ⟨c, hc, by rw [e']; exact Rat.le_refl, by rw [e']; exact ih p hbs⟩
    · split
      · exact ⟨p, rfl, Rat.le_refl, ih p hbs⟩
      · split
        · exact ⟨p, rfl, Rat.le_refl, ih p hbs⟩
        · rename_i e1 _ e3
          have e1' : ¬ c = p := by simpa using e1
          have e3' : ¬ c < p := by simpa using e3
          exact ⟨c, hc, by grind, ih c hbs⟩

theorem fixCounts_ub {α : Type} [FOps α] (almost : α → α → Bool) :
    ∀ (bs : List (Bucket α)) (p : α), (fixCounts almost p bs).map (·.ub) = bs.map (·.ub) := by
  intro bs
  induction bs with
  | nil => intro p; rfl
  | cons b bs ih =>
    intro p
    simp only [fixCounts]
    split
    · simp [ih]
    · split
      · simp [ih]
      · split <;> simp [ih]

theorem ubAt_map {α : Type} [FOps α] (bs : List (Bucket α)) (i : Nat) :
    ubAt bs i = match (bs.map (·.ub))[i]? with | some x => x | none => nan := by
  simp only [ubAt, List.getElem?_map]
  cases bs[i]? <;> rfl

theorem ubAt_congr {α : Type} [FOps α] {bs bs' : List (Bucket α)} (h : bs.map (·.ub) = bs'.map (·.ub)) (i : Nat) :
    ubAt bs i = ubAt bs' i := by
  rw [ubAt_map, ubAt_map, h]

@[simp] theorem cntAt_cons_succ {α : Type} [FOps α] (b : Bucket α) (bs : List (Bucket α)) (i : Nat) :
    cntAt (b :: bs) (i + 1) = cntAt bs i := by simp [cntAt]
@[simp] theorem cntAt_cons_zero {α : Type} [FOps α] (b : Bucket α) (bs : List (Bucket α)) :
    cntAt (b :: bs) 0 = b.count := by simp [cntAt]

theorem monoFrom_idx : ∀ (bs : List (Bucket XR)) (p : Rat), MonoFrom p bs → ∀ i, i < bs.length →
    ∃ x, cntAt bs i = .fin x ∧ p ≤ x ∧ ∀ j, i ≤ j → j < bs.length → ∃ y, cntAt bs j = .fin y ∧ x ≤ y := by
  intro bs
  induction bs with
  | nil => intro p _ i hi; simp at hi
  | cons b bs ih =>
    intro p h i hi
    obtain ⟨c, hc, hpc, hm⟩ := h
    cases i with
    | zero =>
      refine ⟨c, by simp [hc], hpc, ?_⟩
      intro j _ hj
      cases j with
      | zero => exact ⟨c, by simp [hc], Rat.le_refl⟩
      | succ j =>
        obtain ⟨x, hx, hcx, _⟩ := ih c hm j (by simpa using hj)
        exact ⟨x, by simp [hx], hcx⟩
    | succ i =>
      obtain ⟨x, hx, hcx, hrest⟩ := ih c hm i (by simpa using hi)
      refine ⟨x, by simp [hx], by grind, ?_⟩
      intro j hij hj
      cases j with
      | zero => omega
      | succ j =>
        obtain ⟨y, hy, hxy⟩ := hrest j (by omega) (by simpa using hj)
        exact ⟨y, by simp [hy], hxy⟩

def ratOf : XR → Rat | .fin r => r | _ => 0

theorem bq_select_sel (bs : List (Bucket XR)) (c : Nat → Rat) (hn : 2 ≤ bs.length)
    (hc : ∀ i, i < bs.length → cntAt bs i = .fin (c i)) (ρ : Rat) :
    Sel bs.length c ρ (bqSelect bs (.fin ρ)) := by
  unfold bqSelect
  have sp := sortSearch_spec (fun i => FOps.le (XR.fin ρ) (cntAt bs i)) (bs.length - 1)
  generalize sortSearch (bs.length - 1) (fun i => FOps.le (XR.fin ρ) (cntAt bs i)) = k at sp
  obtain ⟨h1, h2, h3⟩ := sp
  refine ⟨h1, ?_, ?_⟩
  · rcases h2 with h2 | h2
    · exact Or.inl h2
    · right
      by_cases hk : k = 0
      · subst hk
        simp only [fops_le, hc 0 (by omega), XR.le_fin, decide_eq_false_iff_not] at h2
        simp; grind
      · simp only [fops_le, hc (k - 1) (by omega), XR.le_fin, decide_eq_false_iff_not] at h2
        grind
  · rcases h3 with h3 | h3
    · exact Or.inl h3
    · right
      by_cases hk : k = bs.length - 1
      · simp only [fops_le, hc k (by omega), XR.le_fin, decide_eq_true_eq] at h3; exact h3
      · simp only [fops_le, hc k (by omega), XR.le_fin, decide_eq_true_eq] at h3; exact h3

theorem bq_interp_eq (bs : List (Bucket XR)) (u c : Nat → Rat) (hn : 2 ≤ bs.length)
    (hu : ∀ i, i + 1 < bs.length → ubAt bs i = .fin (u i))
    (hc : ∀ i, i < bs.length → cntAt bs i = .fin (c i)) (ρ : Rat) (k : Nat) (hk : k ≤ bs.length - 1) :
    bqInterp bs (.fin ρ) k = valQ bs.length u c ρ k := by
  unfold bqInterp valQ
  by_cases h1 : k = bs.length - 1
  · simp [h1, hu (bs.length - 2) (by omega)]
  · have hkn : k + 1 < bs.length := by omega
    simp only [h1, if_false, fops_le, fops_zero, hu 0 (by omega), XR.le_fin]
    by_cases hk0 : k = 0
    · subst hk0
      by_cases hu0 : u 0 ≤ 0
      · simp [hu0, hu 0 (by omega)]
      · simp [hu0, hu 0 (by omega), hc 0 (by omega)]
    · have hpos : k > 0 := by omega
      simp [hk0, hpos, hu k hkn, hu (k - 1) (by omega), hc k (by omega), hc (k - 1) (by omega)]

/-- Bounds as they are after sorting and coalescing: all but the last finite, non-decreasing. -/
structure UbShape (cs : List (Bucket XR)) : Prop where
  fin : ∀ i, i + 1 < cs.length → ∃ x, ubAt cs i = .fin x
  mono : ∀ i j, i ≤ j → j + 1 < cs.length → ratOf (ubAt cs i) ≤ ratOf (ubAt cs j)

/-- every count is a finite number ≥ 0 (no order between the counts is assumed) -/
def NonnegC (cs : List (Bucket XR)) : Prop := ∀ b ∈ cs, ∃ c, b.count = .fin c ∧ 0 ≤ c

/-- bound `i` of the coalesced list, count `i` after the fix-up, as rationals -/
def uOf (cs : List (Bucket XR)) (i : Nat) : Rat := ratOf (ubAt cs i)
def cOf (almost : XR → XR → Bool) (cs : List (Bucket XR)) (i : Nat) : Rat :=
  ratOf (cntAt (ensureMonotonic almost cs).1 i)

theorem ensureMonotonic_length {α : Type} [FOps α] (almost : α → α → Bool) (cs : List (Bucket α)) :
    (ensureMonotonic almost cs).1.length = cs.length := by
  cases cs with
  | nil => rfl
  | cons b bs =>
    have := congrArg List.length (fixCounts_ub almost bs b.count)
    simp only [List.length_map] at this
    simp [ensureMonotonic, this]

theorem ensureMonotonic_ub {α : Type} [FOps α] (almost : α → α → Bool) (cs : List (Bucket α)) (i : Nat) :
    ubAt (ensureMonotonic almost cs).1 i = ubAt cs i := by
  cases cs with
  | nil => rfl
  | cons b bs =>
    apply ubAt_congr
    simp [ensureMonotonic, fixCounts_ub]

/-- The tail of `BucketQuantile` on exact rationals when there are at least two buckets and the observation
    count (fixed-up count of the last bucket) is not 0: the fixed-up counts are non-decreasing and the result
    is the piecewise-linear function `valQ` at the bucket `k` picked by the rank search. -/
theorem bqTail_main (almost : XR → XR → Bool) (cs : List (Bucket XR)) (U : UbShape cs) (C : NonnegC cs)
    (hn2 : 2 ≤ cs.length) (hobs : cOf almost cs (cs.length - 1) ≠ 0) :
    (Num cs.length (uOf cs) (cOf almost cs) ∧ 0 < cOf almost cs (cs.length - 1) ∧
      ∀ q : Rat, ∃ k, Sel cs.length (cOf almost cs) (q * cOf almost cs (cs.length - 1)) k ∧
        (bqTail almost (.fin q) cs).quantile
          = valQ cs.length (uOf cs) (cOf almost cs) (q * cOf almost cs (cs.length - 1)) k) := by
  have hlen := ensureMonotonic_length almost cs
  have hn : ¬ cs.length < 2 := by omega
  -- counts after the fix-up
  have hmono : ∃ c0, 0 ≤ c0 ∧ MonoFrom c0 (ensureMonotonic almost cs).1 := by
    cases cs with
    | nil => simp at hn2
    | cons b bs =>
      obtain ⟨c0, hc0, h0⟩ := C b (List.mem_cons_self ..)
      refine ⟨c0, h0, c0, hc0, Rat.le_refl, ?_⟩
      have : FinC bs := fun x hx => by
        obtain ⟨c, hc, _⟩ := C x (List.mem_cons_of_mem _ hx)
        exact ⟨c, hc⟩
      simp only [hc0]
      exact fixCounts_mono almost bs c0 this
  obtain ⟨c0, hc0, hm⟩ := hmono
  have hidx := monoFrom_idx _ _ hm
  rw [hlen] at hidx
  have hc : ∀ i, i < cs.length → cntAt (ensureMonotonic almost cs).1 i = .fin (cOf almost cs i) := by
    intro i hi
    obtain ⟨x, hx, _⟩ := hidx i hi
    simp [cOf, hx, ratOf]
  have hu : ∀ i, i + 1 < cs.length → ubAt (ensureMonotonic almost cs).1 i = .fin (uOf cs i) := by
    intro i hi
    obtain ⟨x, hx⟩ := U.fin i hi
    rw [ensureMonotonic_ub]
    simp [uOf, hx, ratOf]
  have N : Num cs.length (uOf cs) (cOf almost cs) := by
    refine ⟨hn2, U.mono, ?_, ?_⟩
    · intro i j hij hj
      obtain ⟨x, hx, _, hr⟩ := hidx i (by omega)
      obtain ⟨y, hy, hxy⟩ := hr j hij hj
      simp [cOf, hx, hy, ratOf]; exact hxy
    · obtain ⟨x, hx, hcx, _⟩ := hidx 0 (by omega)
      simp [cOf, hx, ratOf]; grind
  have hpos : 0 < cOf almost cs (cs.length - 1) := by
    have a := N.cmono 0 (cs.length - 1) (by omega) (by omega)
    have b := N.c0
    grind
  refine ⟨N, hpos, ?_⟩
  intro q
  have hcl := hc (cs.length - 1) (by omega)
  have hS := bq_select_sel (ensureMonotonic almost cs).1 (cOf almost cs) (by omega) (by rw [hlen]; exact hc)
    (q * cOf almost cs (cs.length - 1))
  rw [hlen] at hS
  refine ⟨_, hS, ?_⟩
  have hI := bq_interp_eq (ensureMonotonic almost cs).1 (uOf cs) (cOf almost cs) (by omega)
    (by rw [hlen]; exact hu) (by rw [hlen]; exact hc) (q * cOf almost cs (cs.length - 1)) _
    (by rw [hlen]; exact hS.1)
  rw [hlen] at hI
  simp [bqTail, hlen, hn, hcl, hobs, hI]

/-- Decomposition of the tail of `BucketQuantile` on exact rationals: either the result is NaN for
    every `q` (fewer than two buckets, or no observations), or the fixed-up counts are non-decreasing
    and the result is the piecewise-linear function `valQ` at the bucket `k` picked by the rank search. -/
theorem bqTail_decomp (almost : XR → XR → Bool) (cs : List (Bucket XR)) (U : UbShape cs) (C : NonnegC cs) :
    (∀ q : Rat, (bqTail almost (.fin q) cs).quantile = .nan) ∨
    (Num cs.length (uOf cs) (cOf almost cs) ∧ 0 < cOf almost cs (cs.length - 1) ∧
      ∀ q : Rat, ∃ k, Sel cs.length (cOf almost cs) (q * cOf almost cs (cs.length - 1)) k ∧
        (bqTail almost (.fin q) cs).quantile
          = valQ cs.length (uOf cs) (cOf almost cs) (q * cOf almost cs (cs.length - 1)) k) := by
  have hlen := ensureMonotonic_length almost cs
  by_cases hn : cs.length < 2
  · left; intro q
    simp [bqTail, hlen, hn]
  · by_cases hobs : cOf almost cs (cs.length - 1) = 0
    · left; intro q
      have hfin : ∃ x, cntAt (ensureMonotonic almost cs).1 (cs.length - 1) = .fin x := by
        cases cs with
        | nil => simp at hn
        | cons b bs =>
          obtain ⟨c0, hc0, _⟩ := C b (List.mem_cons_self ..)
          have : FinC bs := fun x hx => by
            obtain ⟨c, hc, _⟩ := C x (List.mem_cons_of_mem _ hx)
            exact ⟨c, hc⟩
          have hm : MonoFrom c0 (ensureMonotonic almost (b :: bs)).1 :=
            ⟨c0, hc0, Rat.le_refl, by simp only [hc0]; exact fixCounts_mono almost bs c0 this⟩
          obtain ⟨x, hx, _⟩ := monoFrom_idx _ _ hm ((b :: bs).length - 1) (by rw [hlen]; simp)
          exact ⟨x, hx⟩
      obtain ⟨x, hx⟩ := hfin
      have hx0 : x = 0 := by simpa [cOf, hx, ratOf] using hobs
      simp [bqTail, hlen, hn, hx, hx0]
    · right
      exact bqTail_main almost cs U C (by omega) hobs

end Prom.Quantile
