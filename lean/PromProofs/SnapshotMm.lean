import PromModel.Tsdb.SnapshotMm
/-
  Lemmas for C23's layout model (PromModel/Tsdb/SnapshotMm.lean): the invariant of the live head that
  makes a start from the snapshot rebuild it — `chunks_head/` filtered by (ref, kind) is the series'
  chunk list, the last position on disk is the last one handed out, and the replay of the WBL (from
  ANY registered-series predicate that knows the series in use, any `lastPos` not behind the chunks)
  rebuilds exactly the out-of-order head chunks without writing a chunk again.
-/
namespace Prom.Db.Mm
open Prom.Db

theorem upd_same {α : Type} (f : Nat → α) (r : Nat) (v : α) : upd f r v r = v := by simp [upd]

theorem upd_other {α : Type} (f : Nat → α) (r r' : Nat) (v : α) (h : r' ≠ r) : upd f r v r' = f r' := by
  simp [upd, h]

theorem mem_touch_self (L : Live) (r : Nat) : r ∈ L.touch r := by
  unfold Live.touch
  split
  · rename_i h; simpa using h
  · simp

theorem mem_touch_of_mem (L : Live) (r r' : Nat) (h : r' ∈ L.refs) : r' ∈ L.touch r := by
  unfold Live.touch
  split
  · exact h
  · simp [h]

theorem chunksOf_append (cs : List DiskChunk) (c : DiskChunk) (r : Nat) (b : Bool) :
    chunksOf (cs ++ [c]) r b = chunksOf cs r b ++ (if c.ref = r ∧ c.ooo = b then [c.chunk] else []) := by
  unfold chunksOf
  rw [List.filter_append, List.map_append]
  congr 1
  by_cases h : c.ref = r ∧ c.ooo = b
  · simp [List.filter, h]
  · simp [List.filter, h]

theorem lastPosOf_append (cs : List DiskChunk) (c : DiskChunk) : lastPosOf (cs ++ [c]) = c.chunk.pos := by
  simp [lastPosOf]

/-- The invariant of the live head. -/
structure Inv (L : Live) : Prop where
  ref : ∀ r, (L.series r).ref = r
  chunks : ∀ r, chunksOf L.disk r false = (L.series r).mm ∧ chunksOf L.disk r true = (L.series r).oooMm
  last : lastPosOf L.disk + 1 = L.nextPos
  replay : ∀ (known : Nat → Bool) (lastPos np0 : Nat), (∀ r ∈ L.refs, known r = true) → L.nextPos ≤ lastPos + 1 →
    L.wbl.foldl (replayStep L.cap lastPos known) ⟨fun _ => [], [], np0⟩
      = ⟨fun r => (L.series r).oooHead, [], np0⟩

def Live.init (cap : Nat) (cut : Nat → List Smp → Smp → Bool) : Live := { cap := cap, cut := cut }

theorem inv_init (cap : Nat) (cut : Nat → List Smp → Smp → Bool) : Inv (Live.init cap cut) := by
  refine ⟨fun _ => rfl, fun _ => ⟨rfl, rfl⟩, rfl, ?_⟩
  intro known lastPos np0 _ _
  rfl

theorem inv_create (L : Live) (h : Inv L) (r : Nat) : Inv { L with refs := L.touch r } := by
  refine ⟨h.ref, h.chunks, h.last, ?_⟩
  intro known lastPos np0 hk hn
  exact h.replay known lastPos np0 (fun r' hr' => hk r' (mem_touch_of_mem L r r' hr')) hn

theorem inv_appendIn (L : Live) (h : Inv L) (r : Nat) (x : Smp) : Inv (L.appendIn r x) := by
  unfold Live.appendIn
  simp only []
  split
  · -- the head chunk is full: m-map it
    refine ⟨?_, ?_, ?_, ?_⟩
    · intro r'
      by_cases hr : r' = r
      · subst hr; simp [upd, h.ref]
      · simp [upd, hr, h.ref]
    · intro r'
      simp only [chunksOf_append]
      by_cases hr : r' = r
      · subst hr
        have := h.chunks r'
        simp [upd, this.1, this.2]
      · have := h.chunks r'
        have hr2 : ¬ r = r' := fun e => hr e.symm
        simp [upd, hr, hr2, this.1, this.2]
    · simp [lastPosOf_append]
    · intro known lastPos np0 hk hn
      have hn' : L.nextPos ≤ lastPos + 1 := by simp only [] at hn; omega
      have := h.replay known lastPos np0 (fun r' hr' => hk r' (mem_touch_of_mem L r r' hr')) hn'
      simp only [] at this ⊢
      rw [this]
      congr 1
      funext r'
      by_cases hr : r' = r
      · subst hr; simp [upd]
      · simp [upd, hr]
  · refine ⟨?_, ?_, h.last, ?_⟩
    · intro r'
      by_cases hr : r' = r
      · subst hr; simp [upd, h.ref]
      · simp [upd, hr, h.ref]
    · intro r'
      by_cases hr : r' = r
      · subst hr
        have := h.chunks r'
        simp [upd, this.1, this.2]
      · have := h.chunks r'
        simp [upd, hr, this.1, this.2]
    · intro known lastPos np0 hk hn
      have := h.replay known lastPos np0 (fun r' hr' => hk r' (mem_touch_of_mem L r r' hr')) hn
      simp only [] at this ⊢
      rw [this]
      congr 1
      funext r'
      by_cases hr : r' = r
      · subst hr; simp [upd]
      · simp [upd, hr]

theorem heads_upd (L : Live) (r : Nat) (s' : MSeries) :
    (fun r' => (upd L.series r s' r').oooHead) = upd (fun r' => (L.series r').oooHead) r s'.oooHead := by
  funext r'
  by_cases hr : r' = r
  · subst hr; simp [upd]
  · simp [upd, hr]

theorem upd_upd {α : Type} (f : Nat → α) (r : Nat) (v w : α) : upd (upd f r v) r w = upd f r w := by
  funext r'
  by_cases hr : r' = r
  · subst hr; simp [upd]
  · simp [upd, hr]

theorem inv_insertOOO (L : Live) (h : Inv L) (r : Nat) (x : Smp) : Inv (L.insertOOO r x) := by
  unfold Live.insertOOO
  simp only []
  split
  · -- first sample of a new out-of-order head chunk, nothing to m-map: marker 0
    rename_i hnil
    refine ⟨?_, ?_, h.last, ?_⟩
    · intro r'
      by_cases hr : r' = r
      · subst hr; simp [upd, h.ref]
      · simp [upd, hr, h.ref]
    · intro r'
      by_cases hr : r' = r
      · subst hr
        have := h.chunks r'
        simp [upd, this.1, this.2]
      · have := h.chunks r'
        simp [upd, hr, this.1, this.2]
    · intro known lastPos np0 hk hn
      have hkr : known r = true := hk r (mem_touch_self L r)
      have := h.replay known lastPos np0 (fun r' hr' => hk r' (mem_touch_of_mem L r r' hr')) hn
      simp only [] at this ⊢
      rw [List.foldl_append, this, heads_upd]
      simp [replayStep, hkr, upd_same, upd_upd]
  · split
    · -- the out-of-order head chunk is full: m-map it, marker with its position
      refine ⟨?_, ?_, ?_, ?_⟩
      · intro r'
        by_cases hr : r' = r
        · subst hr; simp [upd, h.ref]
        · simp [upd, hr, h.ref]
      · intro r'
        simp only [chunksOf_append]
        by_cases hr : r' = r
        · subst hr
          have := h.chunks r'
          simp [upd, this.1, this.2]
        · have := h.chunks r'
          have hr2 : ¬ r = r' := fun e => hr e.symm
          simp [upd, hr, hr2, this.1, this.2]
      · simp [lastPosOf_append]
      · intro known lastPos np0 hk hn
        have hkr : known r = true := hk r (mem_touch_self L r)
        have hn' : L.nextPos ≤ lastPos + 1 := by simp only [] at hn; omega
        have hlt : ¬ lastPos < L.nextPos := by simp only [] at hn; omega
        have := h.replay known lastPos np0 (fun r' hr' => hk r' (mem_touch_of_mem L r r' hr')) hn'
        simp only [] at this ⊢
        rw [List.foldl_append, this, heads_upd]
        simp [replayStep, hkr, hlt, upd_same, upd_upd]
    · split
      · exact h
      · rename_i hne hlen _ h' hins
        refine ⟨?_, ?_, h.last, ?_⟩
        · intro r'
          by_cases hr : r' = r
          · subst hr; simp [upd, h.ref]
          · simp [upd, hr, h.ref]
        · intro r'
          by_cases hr : r' = r
          · subst hr
            have := h.chunks r'
            simp [upd, this.1, this.2]
          · have := h.chunks r'
            simp [upd, hr, this.1, this.2]
        · intro known lastPos np0 hk hn
          have hkr : known r = true := hk r (mem_touch_self L r)
          have := h.replay known lastPos np0 (fun r' hr' => hk r' (mem_touch_of_mem L r r' hr')) hn
          simp only [] at this ⊢
          rw [List.foldl_append, this, heads_upd]
          simp [replayStep, hkr, hne, hlen, hins]

theorem inv_step (L : Live) (h : Inv L) (op : MOp) : Inv (L.step op) := by
  cases op with
  | inorder r x => exact inv_appendIn L h r x
  | ooo r x => exact inv_insertOOO L h r x
  | create r => exact inv_create L h r

theorem inv_run (ops : List MOp) : ∀ (L : Live), Inv L → Inv (L.run ops) := by
  induction ops with
  | nil => intro L h; exact h
  | cons op ops ih => intro L h; exact ih (L.step op) (inv_step L h op)

theorem step_cap (L : Live) (op : MOp) : (L.step op).cap = L.cap := by
  cases op with
  | inorder r x => unfold Live.step Live.appendIn; simp only []; split <;> rfl
  | ooo r x =>
    unfold Live.step Live.insertOOO; simp only []
    split
    · rfl
    · split
      · rfl
      · split <;> rfl
  | create r => rfl

/-- What a start from the snapshot of a cleanly closed head rebuilds, for ANY registration rule: the
    live series, minus the m-mapped chunks of the series that were not registered. -/
theorem restart_spec (L : Live) (h : Inv L) (reg : Nat × List Smp → Bool) :
    L.close.restart reg = L.refs.map fun r =>
      if reg (r, (L.series r).head) then L.series r else { L.series r with mm := [], oooMm := [] } := by
  have hrep : replay L.close = ⟨fun r => (L.series r).oooHead, [], lastPosOf L.disk + 1⟩ := by
    unfold replay Live.close
    simp only []
    apply h.replay
    · intro r hr
      rw [List.any_eq_true]
      exact ⟨(r, (L.series r).head), List.mem_map.mpr ⟨r, hr, rfl⟩, by simp⟩
    · rw [h.last]; exact Nat.le_refl _
  unfold Disk.restart
  rw [hrep]
  unfold Live.close
  simp only [List.map_map]
  apply List.map_congr_left
  intro r _
  have hc := h.chunks r
  have hr := h.ref r
  cases hs : L.series r with
  | mk ref mm head oooMm oooHead =>
    rw [hs] at hc hr
    simp only [] at hc hr
    simp only [Function.comp, hs]
    by_cases hreg : reg (r, head) = true
    · simp [hreg, hc.1, hc.2, hr]
      simp [chunksOf]
    · simp [hreg, hr]
      simp [chunksOf]

end Prom.Db.Mm
