import PromProofs.HistSeries
/-
  C12: the hints `Chunk.read` hands out are sound (`hintsSound`) for every chunk satisfying `CInv`.
-/
namespace Prom.Hist

def AdjCond (gauge : Bool) (older newer : Int × Hist) : Prop :=
  (older.2.stale = true → newer.2.stale = true) ∧
  (gauge = false → newer.2.stale = false → noReset older.2 newer.2 = true)

/-- `AdjOk` for an oldest-first list -/
def AdjOkF (gauge : Bool) : List (Int × Hist) → Prop
  | older :: newer :: rest => AdjCond gauge older newer ∧ AdjOkF gauge (newer :: rest)
  | _ => True

theorem AdjOkF.snoc {g : Bool} : ∀ (pre : List (Int × Hist)) (a b : Int × Hist),
    AdjOkF g (pre ++ [a]) → AdjCond g a b → AdjOkF g (pre ++ [a, b])
  | [], _, _, _, hc => ⟨hc, trivial⟩
  | [_], _, _, h, hc => ⟨h.1, hc, trivial⟩
  | x :: y :: pre, a, b, h, hc => ⟨h.1, AdjOkF.snoc (y :: pre) a b h.2 hc⟩

theorem AdjOk.toF {g : Bool} : ∀ (l : List (Int × Hist)), AdjOk g l → AdjOkF g l.reverse
  | [], _ => trivial
  | [_], _ => trivial
  | newer :: older :: rest, h => by
    have ih := AdjOk.toF (older :: rest) h.2.2
    simp only [List.reverse_cons, List.append_assoc, List.cons_append, List.nil_append] at ih ⊢
    exact AdjOkF.snoc rest.reverse older newer ih ⟨h.1, h.2.1⟩

def prevOk (prev : Option Hist) (h : Hist) : Bool := match prev with | some p => noReset p h | none => false

theorem unsoundAt_cons (prev : Option Hist) (k : Nat) (t : Int) (h : Hist) (rest : List (Int × Hist))
    (hc : ¬ (h.hint = .notReset ∧ (!h.stale) = true ∧
      (!prevOk prev h) = true)) :
    unsoundAt prev k ((t, h) :: rest) = unsoundAt (some h) (k + 1) rest := by
  cases prev with
  | none => simp only [unsoundAt]; exact if_neg hc
  | some p => simp only [unsoundAt]; exact if_neg hc

theorem unsoundAt_cons_pos (prev : Option Hist) (k : Nat) (t : Int) (h : Hist) (rest : List (Int × Hist))
    (hc : h.hint = .notReset ∧ (!h.stale) = true ∧
      (!prevOk prev h) = true) :
    unsoundAt prev k ((t, h) :: rest) = some k := by
  cases prev with
  | none => simp only [unsoundAt]; exact if_pos hc
  | some p => simp only [unsoundAt]; exact if_pos hc

theorem hintOf_notReset (hdr : Hdr) (n : Nat) (h : hintOf hdr n = .notReset) : hdr ≠ .gauge ∧ n > 1 := by
  unfold hintOf at h
  by_cases h1 : hdr = .gauge <;> by_cases h2 : n > 1 <;> simp [h1, h2] at h ⊢

theorem unsound_go (c : Chunk) (g : Bool) (hg : g = (c.hdr == .gauge)) :
    ∀ (stored : List Stored) (ths : List (Int × Hist)) (k j : Nat) (pr : Hist) (pth : Int × Hist),
      All2 (Rep c) stored ths → (pth.2.stale = false → pr.sem = pth.2.sem) → AdjOkF g (pth :: ths) →
      unsoundAt (some pr) k (readFrom c j stored) = none
  | [], [], _, _, _, _, _, _, _ => rfl
  | [], _ :: _, _, _, _, _, h, _, _ => h.elim
  | _ :: _, [], _, _, _, _, h, _, _ => h.elim
  | s :: stored, th :: ths, k, j, pr, pth, h, hpr, hadj => by
    obtain ⟨_, hst, hlv⟩ := h.1
    simp only [readFrom]
    by_cases hs : s.sum = staleBits
    · simp only [hs, if_true]
      rw [unsoundAt_cons _ _ _ _ _ (by simp [Hist.blank])]
      refine unsound_go c g hg stored ths (k + 1) (j + 1) _ th h.2 (fun hth => ?_) hadj.2
      have := (hlv hth).1; exact absurd hs this
    · simp only [hs, if_false]
      have hth : th.2.stale = false := by
        cases e : th.2.stale with
        | false => rfl
        | true => exact absurd (hst e) hs
      obtain ⟨_, hsem, _, _⟩ := hlv hth
      have hrdsem : ({ c.histOf s with hint := hintOf c.hdr (j + 1) } : Hist).sem = th.2.sem := by
        rw [← hsem]; rfl
      rw [unsoundAt_cons]
      · exact unsound_go c g hg stored ths (k + 1) (j + 1) _ th h.2 (fun _ => hrdsem) hadj.2
      · rintro ⟨hh, _, hno⟩
        have hh' : hintOf c.hdr (j + 1) = .notReset := hh
        obtain ⟨hng, _⟩ := hintOf_notReset _ _ hh'
        have hgf : g = false := by rw [hg]; simpa using hng
        have hpl : pth.2.stale = false := by
          cases e : pth.2.stale with
          | false => rfl
          | true => have := hadj.1.1 e; rw [hth] at this; cases this
        have hnr := hadj.1.2 hgf hth
        rw [← noReset_sem pr pth.2 _ th.2 (hpr hpl) hrdsem] at hnr
        have hno' : (!noReset pr { c.histOf s with hint := hintOf c.hdr (j + 1) }) = true := hno
        rw [hnr] at hno'
        cases hno'

/-- the hints of one chunk are sound whatever was read before it (the first sample of a chunk never carries
    NotCounterReset) -/
theorem CInv.hints_sound (c : Chunk) (l : List (Int × Hist)) (inv : CInv c l) (prev : Option Hist) (k : Nat) :
    unsoundAt prev k c.read = none := by
  have hrep := All2.reverse inv.rep
  have hadj := AdjOk.toF l inv.adj
  unfold Chunk.read
  generalize c.rev.reverse = stored at hrep
  generalize l.reverse = ths at hrep hadj
  cases stored with
  | nil => rfl
  | cons s stored =>
    cases ths with
    | nil => exact hrep.elim
    | cons th ths =>
      obtain ⟨_, hst, hlv⟩ := hrep.1
      simp only [readFrom]
      by_cases hs : s.sum = staleBits
      · simp only [hs, if_true]
        rw [unsoundAt_cons _ _ _ _ _ (by simp [Hist.blank])]
        refine unsound_go c _ rfl stored ths (k + 1) 1 _ th hrep.2 (fun hth => ?_) hadj
        have := (hlv hth).1; exact absurd hs this
      · simp only [hs, if_false]
        have hth : th.2.stale = false := by
          cases e : th.2.stale with
          | false => rfl
          | true => exact absurd (hst e) hs
        obtain ⟨_, hsem, _, _⟩ := hlv hth
        rw [unsoundAt_cons]
        · refine unsound_go c _ rfl stored ths (k + 1) 1 _ th hrep.2 (fun _ => ?_) hadj
          rw [← hsem]; rfl
        · rintro ⟨hh, _, _⟩
          have hh' : hintOf c.hdr (0 + 1) = .notReset := hh
          have := (hintOf_notReset _ _ hh').2
          omega

theorem unsoundAt_append (a b : List (Int × Hist)) (hb : ∀ prev k, unsoundAt prev k b = none) :
    ∀ prev k, unsoundAt prev k a = none → unsoundAt prev k (a ++ b) = none := by
  induction a with
  | nil => intro prev k _; exact hb prev k
  | cons x a ih =>
    intro prev k h
    obtain ⟨t, hh⟩ := x
    by_cases hc : hh.hint = .notReset ∧ (!hh.stale) = true ∧ (!prevOk prev hh) = true
    · rw [unsoundAt_cons_pos _ _ _ _ _ hc] at h; cases h
    · rw [unsoundAt_cons _ _ _ _ _ hc] at h
      rw [List.cons_append, unsoundAt_cons _ _ _ _ _ hc]
      exact ih _ _ h

theorem SInv.hints_sound : ∀ (cs : List Chunk) (gs : List (List (Int × Hist))), All2 CInv cs gs →
    ∀ prev k, unsoundAt prev k (cs.reverse.flatMap Chunk.read) = none
  | [], [], _, _, _ => rfl
  | [], _ :: _, h, _, _ => h.elim
  | _ :: _, [], h, _, _ => h.elim
  | c :: cs, g :: gs, h, prev, k => by
    simp only [List.reverse_cons, List.flatMap_append, List.flatMap_cons, List.flatMap_nil, List.append_nil]
    exact unsoundAt_append _ _ (fun p k' => CInv.hints_sound c g h.1 p k') prev k (SInv.hints_sound cs gs h.2 prev k)

/-- the fold of `appendHist` the chunk-level statement is about (a refused sample starts a fresh chunk and the
    old one is dropped) -/
def runChunk (samples : List (Int × Hist)) (c0 : Chunk) : Except Err Chunk :=
  samples.foldlM (fun (st : Chunk) (p : Int × Hist) => (appendHist none st p.1 p.2).map (·.chunk)) c0

theorem runChunk_inv (fl : Bool) : ∀ (samples : List (Int × Hist)) (c0 : Chunk) (l0 : List (Int × Hist)),
    CInv c0 l0 → c0.float = fl → (∀ p ∈ samples, WFs p.2 ∧ p.2.float = fl) → ∀ c, runChunk samples c0 = .ok c →
    ∃ l, CInv c l
  | [], c0, l0, inv, _, _, c, h => by
    simp [runChunk, pure, Except.pure] at h; subst h; exact ⟨l0, inv⟩
  | p :: samples, c0, l0, inv, hfl, hw, c, h => by
    simp only [runChunk, List.foldlM_cons] at h
    obtain ⟨c1, h1, h2⟩ := bind_ok _ _ _ h
    cases ha : appendHist none c0 p.1 p.2 with
    | error e => simp [ha, Except.map] at h1
    | ok r =>
      simp [ha, Except.map] at h1; subst h1
      obtain ⟨hwf, hpf⟩ := hw p (by simp)
      obtain ⟨_, _, k3⟩ := appendHist_step none c0 l0 inv p.1 p.2 hwf (by rw [hpf, hfl]) r ha (fun _ => rfl)
      have hw' : ∀ q ∈ samples, WFs q.2 ∧ q.2.float = fl := fun q hq => hw q (by simp [hq])
      rcases k3 with ⟨_, _, ci⟩ | ⟨_, _, ci⟩
      · exact runChunk_inv fl samples r.chunk _ ci (by rw [← ci.flt (p.1, p.2) (by simp)]; exact hpf) hw' c h2
      · exact runChunk_inv fl samples r.chunk _ ci (by rw [← ci.flt (p.1, p.2) (by simp)]; exact hpf) hw' c h2

end Prom.Hist

namespace Prom.Hist

/-- whether a stream is flagged does not depend on the index the count starts from -/
theorem unsoundAt_none_shift : ∀ (l : List (Int × Hist)) (prev : Option Hist) (j j' : Nat),
    unsoundAt prev j l = none → unsoundAt prev j' l = none
  | [], _, _, _, _ => rfl
  | (t, h) :: rest, prev, j, j', hn => by
    by_cases hc : h.hint = .notReset ∧ (!h.stale) = true ∧ (!prevOk prev h) = true
    · rw [unsoundAt_cons_pos _ _ _ _ _ hc] at hn; cases hn
    · rw [unsoundAt_cons _ _ _ _ _ hc] at hn ⊢
      exact unsoundAt_none_shift rest (some h) (j + 1) (j' + 1) hn

/-- a prefix of an unflagged stream is unflagged -/
theorem unsoundAt_take : ∀ (l : List (Int × Hist)) (prev : Option Hist) (j m : Nat),
    unsoundAt prev j l = none → unsoundAt prev j (l.take m) = none
  | [], _, _, _, _ => by simp [unsoundAt]
  | _ :: _, _, _, 0, _ => by simp [unsoundAt]
  | (t, h) :: rest, prev, j, m + 1, hn => by
    by_cases hc : h.hint = .notReset ∧ (!h.stale) = true ∧ (!prevOk prev h) = true
    · rw [unsoundAt_cons_pos _ _ _ _ _ hc] at hn; cases hn
    · rw [unsoundAt_cons _ _ _ _ _ hc] at hn
      rw [List.take_succ_cons, unsoundAt_cons _ _ _ _ _ hc]
      exact unsoundAt_take rest (some h) (j + 1) m hn

/-- dropping samples from the front of an unflagged stream can only flag the new first sample -/
theorem unsoundAt_drop : ∀ (l : List (Int × Hist)) (prev : Option Hist) (j k : Nat),
    unsoundAt prev j l = none →
    unsoundAt none 0 (l.drop k) = none ∨ unsoundAt none 0 (l.drop k) = some 0 ∨ k = 0
  | l, _, _, 0, _ => Or.inr (Or.inr rfl)
  | [], _, _, _ + 1, _ => Or.inl (by simp [unsoundAt])
  | (t, h) :: rest, prev, j, k + 1, hn => by
    have hrest : unsoundAt (some h) (j + 1) rest = none := by
      by_cases hc : h.hint = .notReset ∧ (!h.stale) = true ∧ (!prevOk prev h) = true
      · rw [unsoundAt_cons_pos _ _ _ _ _ hc] at hn; cases hn
      · rw [unsoundAt_cons _ _ _ _ _ hc] at hn; exact hn
    rw [List.drop_succ_cons]
    cases k with
    | zero =>
      -- the stream now starts at `rest`
      cases rest with
      | nil => exact Or.inl (by simp [unsoundAt])
      | cons x rest' =>
        obtain ⟨t', h'⟩ := x
        by_cases hc : h'.hint = .notReset ∧ (!h'.stale) = true ∧ (!prevOk none h') = true
        · exact Or.inr (Or.inl (by rw [List.drop_zero, unsoundAt_cons_pos _ _ _ _ _ hc]))
        · left
          rw [List.drop_zero, unsoundAt_cons _ _ _ _ _ hc]
          have hc' : ¬ (h'.hint = .notReset ∧ (!h'.stale) = true ∧ (!prevOk (some h) h') = true) := by
            intro hx
            rw [unsoundAt_cons_pos _ _ _ _ _ hx] at hrest; cases hrest
          rw [unsoundAt_cons _ _ _ _ _ hc'] at hrest
          exact unsoundAt_none_shift _ _ _ _ hrest
    | succ k' =>
      rcases unsoundAt_drop rest (some h) (j + 1) (k' + 1) hrest with h1 | h1 | h1
      · exact Or.inl h1
      · exact Or.inr (Or.inl h1)
      · cases h1

theorem unsoundAt_take_some : ∀ (l : List (Int × Hist)) (prev : Option Hist) (j m i : Nat),
    unsoundAt prev j l = some i → unsoundAt prev j (l.take m) = some i ∨ unsoundAt prev j (l.take m) = none
  | [], _, _, _, _, h => by simp [unsoundAt] at h
  | _ :: _, _, _, 0, _, _ => Or.inr (by simp [unsoundAt])
  | (t, h) :: rest, prev, j, m + 1, i, hn => by
    by_cases hc : h.hint = .notReset ∧ (!h.stale) = true ∧ (!prevOk prev h) = true
    · rw [unsoundAt_cons_pos _ _ _ _ _ hc] at hn
      rw [List.take_succ_cons, unsoundAt_cons_pos _ _ _ _ _ hc]; exact Or.inl hn
    · rw [unsoundAt_cons _ _ _ _ _ hc] at hn
      rw [List.take_succ_cons, unsoundAt_cons _ _ _ _ _ hc]
      exact unsoundAt_take_some rest (some h) (j + 1) m i hn

/-- any contiguous sub-range of a hint-sound stream: only its first sample can be flagged -/
theorem hintsSound_subrange (l : List (Int × Hist)) (h : hintsSound l = true) (k m : Nat) :
    unsoundAt none 0 ((l.drop k).take m) = none ∨ unsoundAt none 0 ((l.drop k).take m) = some 0 := by
  have h0 : unsoundAt none 0 l = none := by
    simp only [hintsSound, Option.isNone_iff_eq_none] at h; exact h
  rcases unsoundAt_drop l none 0 k h0 with h1 | h1 | h1
  · exact Or.inl (unsoundAt_take _ _ _ m h1)
  · rcases unsoundAt_take_some _ _ _ m _ h1 with h2 | h2
    · exact Or.inr h2
    · exact Or.inl h2
  · subst h1; exact Or.inl (unsoundAt_take _ _ _ m (by simpa using h0))

end Prom.Hist
