import PromProofs.HistLayout
import PromProofs.HistSide
/-
  Chunk-level invariants for C11/C12: every stored sample of a chunk represents the histogram that was
  appended (same `sem`), through forward recoding of the chunk and backward recoding of the incoming
  histogram.
-/
namespace Prom.Hist

/-- bit pattern of -0.0 -/
def negZero : Nat := 2 ^ 63

/-- A valid (non-stale) histogram as far as the chunk layer is concerned: bucket slices match their
    spans, spans enumerate strictly increasing bucket indices (`Validate`: no negative offsets after the
    first span), no negative-zero threshold/bounds (IEEE `==` cannot tell them from +0, the chunk keeps the
    first one), custom bounds only with the custom schema. -/
structure WF (h : Hist) : Prop where
  pLen : h.pB.length = (idxs h.pSpans).length
  nLen : h.nB.length = (idxs h.nSpans).length
  pSorted : (idxs h.pSpans).Pairwise (· < ·)
  nSorted : (idxs h.nSpans).Pairwise (· < ·)
  zt : h.zt ≠ negZero
  custom : ∀ b ∈ h.custom, b ≠ negZero
  customNil : h.schema ≠ customSchema → h.custom = []

/-- staleness markers carry no layout -/
def WFs (h : Hist) : Prop := h.stale = false → WF h

theorem fEq_eq (x y : Nat) (hx : x ≠ negZero) (hy : y ≠ negZero) (h : fEq x y = true) : x = y := by
  simp only [fEq, Bool.and_eq_true, decide_eq_true_eq] at h
  have h3 := h.2
  simp only [negZero] at hx hy
  unfold fKey at h3
  split at h3 <;> split at h3 <;> omega

theorem boundsMatch_eq (xs ys : List Nat) (hx : ∀ b ∈ xs, b ≠ negZero) (hy : ∀ b ∈ ys, b ≠ negZero)
    (h : boundsMatch xs ys = true) : xs = ys := by
  induction xs generalizing ys with
  | nil => cases ys <;> simp_all [boundsMatch]
  | cons x xs ih =>
    cases ys with
    | nil => simp [boundsMatch] at h
    | cons y ys =>
      simp only [boundsMatch, Bool.and_eq_true] at h
      have := fEq_eq x y (hx x (by simp)) (hy y (by simp)) h.1
      subst this
      rw [ih ys (fun b hb => hx b (by simp [hb])) (fun b hb => hy b (by simp [hb])) h.2]

/-! ## what a stored sample represents -/

/-- stored sample `s` of chunk `c` stands for the appended `(t, h)` -/
def Rep (c : Chunk) (s : Stored) (th : Int × Hist) : Prop :=
  s.t = th.1 ∧
  (th.2.stale = true → s.sum = staleBits) ∧
  (th.2.stale = false → s.sum ≠ staleBits ∧ (c.histOf s).sem = th.2.sem ∧
     s.pB.length = (idxs c.pSpans).length ∧ s.nB.length = (idxs c.nSpans).length)

/-- adjacent appended samples (newest first): after a staleness marker only staleness markers; in a
    counter chunk no reset between neighbours -/
def AdjOk (gauge : Bool) : List (Int × Hist) → Prop
  | newer :: older :: rest =>
    (older.2.stale = true → newer.2.stale = true) ∧
    (gauge = false → newer.2.stale = false → noReset older.2 newer.2 = true) ∧ AdjOk gauge (older :: rest)
  | _ => True

/-- pointwise relation of two lists of equal length -/
def All2 {α β : Type} (R : α → β → Prop) : List α → List β → Prop
  | [], [] => True
  | a :: as, b :: bs => R a b ∧ All2 R as bs
  | _, _ => False

/-- recoding only adds zeros (used for the float flavour, where bucket slices hold absolute values) -/
def ValRel (s : Stored) (th : Int × Hist) : Prop :=
  (∀ v ∈ s.pB, v = 0 ∨ v ∈ th.2.pB) ∧ (∀ v ∈ s.nB, v = 0 ∨ v ∈ th.2.nB)

/-- chunk `c` holds the appended samples `l` (newest first) -/
structure CInv (c : Chunk) (l : List (Int × Hist)) : Prop where
  rep : All2 (Rep c) c.rev l
  pS : (idxs c.pSpans).Pairwise (· < ·)
  nS : (idxs c.nSpans).Pairwise (· < ·)
  wf : ∀ p ∈ l, WFs p.2
  flt : ∀ p ∈ l, p.2.float = c.float
  adj : AdjOk (c.hdr == .gauge) l
  /-- a stored staleness marker is empty (`&histogram.Histogram{Sum: h.Sum}`) -/
  staleForm : ∀ s ∈ c.rev, s.sum = staleBits → s.count = 0 ∧ s.zcount = 0 ∧ s.pB = [] ∧ s.nB = []
  /-- a chunk that starts with a staleness marker has the empty layout -/
  staleFirst : ∀ s, c.rev.getLast? = some s → s.sum = staleBits →
    c.pSpans = [] ∧ c.nSpans = [] ∧ c.schema = 0 ∧ c.zt = 0 ∧ c.custom = []
  /-- float flavour: a stored bucket value is 0 or one of the appended histogram's values -/
  vals : c.float = true → All2 ValRel c.rev l

theorem AdjOk.all_live {g : Bool} : ∀ {l : List (Int × Hist)} {x : Int × Hist}, AdjOk g (x :: l) → x.2.stale = false →
    ∀ p ∈ x :: l, p.2.stale = false
  | [], x, _, hx => by intro p hp; simp at hp; subst hp; exact hx
  | y :: l, x, h, hx => by
    intro p hp
    rcases List.mem_cons.1 hp with rfl | hp
    · exact hx
    · have hy : y.2.stale = false := by
        cases hys : y.2.stale with
        | false => rfl
        | true => have := h.1 hys; simp [hx] at this
      exact AdjOk.all_live h.2.2 hy p hp

theorem idxs_nil : idxs [] = [] := rfl

/-! ## appendRaw -/

theorem appendRaw_cons (c : Chunk) (hne : c.rev ≠ []) (t : Int) (h : Hist) (hs : h.stale = false) :
    c.appendRaw t h = { c with rev := ⟨t, h.count, h.zcount, h.sum, h.pB, h.nB⟩ :: c.rev } := by
  cases hr : c.rev with
  | nil => exact absurd hr hne
  | cons a b => simp [Chunk.appendRaw, hs, hr]

theorem appendRaw_nil (c : Chunk) (he : c.rev = []) (t : Int) (h : Hist) (hs : h.stale = false) :
    c.appendRaw t h =
      { c with schema := h.schema, zt := h.zt, custom := h.custom, pSpans := h.pSpans, nSpans := h.nSpans, rev := [⟨t, h.count, h.zcount, h.sum, h.pB, h.nB⟩] } := by
  simp [Chunk.appendRaw, hs, he]

theorem appendRaw_cons_stale (c : Chunk) (hne : c.rev ≠ []) (t : Int) (h : Hist) (hs : h.stale = true) :
    c.appendRaw t h = { c with rev := ⟨t, 0, 0, h.sum, [], []⟩ :: c.rev } := by
  cases hr : c.rev with
  | nil => exact absurd hr hne
  | cons a b => simp [Chunk.appendRaw, hs, hr, Hist.blank]

theorem appendRaw_nil_stale (c : Chunk) (he : c.rev = []) (t : Int) (h : Hist) (hs : h.stale = true) :
    c.appendRaw t h =
      { c with schema := 0, zt := 0, custom := [], pSpans := [], nSpans := [], rev := [⟨t, 0, 0, h.sum, [], []⟩] } := by
  simp [Chunk.appendRaw, hs, he, Hist.blank]

/-- the first sample of a chunk (any header) -/
theorem CInv.first (c0 : Chunk) (he : c0.rev = []) (t : Int) (h : Hist) (hwf : WFs h) (hfl : h.float = c0.float)
    (hdr : Hdr) : CInv { c0.appendRaw t h with hdr := hdr } [(t, h)] := by
  cases hs : h.stale with
  | true =>
    rw [appendRaw_nil_stale c0 he t h hs]
    have hsum : h.sum = staleBits := by simpa [Hist.stale] using hs
    refine ⟨?_, by simp [idxs_nil], by simp [idxs_nil], by simpa using hwf, by simpa using hfl, by simp [AdjOk],
      ?_, fun _ _ _ => ⟨rfl, rfl, rfl, rfl, rfl⟩, fun _ => ⟨⟨by simp, by simp⟩, trivial⟩⟩
    · refine ⟨?_, trivial⟩
      exact ⟨rfl, fun _ => hsum, fun h' => by simp [hs] at h'⟩
    · intro s hs' _
      simp only [List.mem_singleton] at hs'
      subst hs'; exact ⟨rfl, rfl, rfl, rfl⟩
  | false =>
    rw [appendRaw_nil c0 he t h hs]
    have hsum : h.sum ≠ staleBits := by simpa [Hist.stale] using hs
    have w := hwf hs
    refine ⟨?_, w.pSorted, w.nSorted, by simpa using hwf, by simpa using hfl, by simp [AdjOk], ?_, ?_,
      fun _ => ⟨⟨fun v hv => Or.inr hv, fun v hv => Or.inr hv⟩, trivial⟩⟩
    · refine ⟨?_, trivial⟩
      refine ⟨rfl, fun h' => by simp [hs] at h', fun _ => ⟨hsum, ?_, w.pLen, w.nLen⟩⟩
      simp [Chunk.histOf, hsum, Hist.sem, hfl]
    · intro s hs' hst
      simp only [List.mem_singleton] at hs'
      subst hs'; exact absurd hst hsum
    · intro s hs' hst
      simp only [List.getLast?_singleton, Option.some.injEq] at hs'
      subst hs'; exact absurd hst hsum

/-! ## All2 -/

theorem All2.snoc {α β : Type} {R : α → β → Prop} : ∀ {as : List α} {bs : List β} {a : α} {b : β},
    All2 R as bs → R a b → All2 R (as ++ [a]) (bs ++ [b])
  | [], [], _, _, _, h => ⟨h, trivial⟩
  | [], _ :: _, _, _, h, _ => h.elim
  | _ :: _, [], _, _, h, _ => h.elim
  | _ :: _, _ :: _, _, _, h, hr => ⟨h.1, All2.snoc h.2 hr⟩

theorem All2.reverse {α β : Type} {R : α → β → Prop} : ∀ {as : List α} {bs : List β},
    All2 R as bs → All2 R as.reverse bs.reverse
  | [], [], _ => trivial
  | [], _ :: _, h => h.elim
  | _ :: _, [], h => h.elim
  | a :: as, b :: bs, h => by
    simp only [List.reverse_cons]
    exact All2.snoc (All2.reverse h.2) h.1

theorem All2.length {α β : Type} {R : α → β → Prop} : ∀ {as : List α} {bs : List β}, All2 R as bs → as.length = bs.length
  | [], [], _ => rfl
  | [], _ :: _, h => h.elim
  | _ :: _, [], h => h.elim
  | _ :: _, _ :: _, h => by simp [All2.length h.2]

theorem All2.imp {α β : Type} {R S : α → β → Prop} : ∀ {as : List α} {bs : List β},
    All2 R as bs → (∀ a ∈ as, ∀ b ∈ bs, R a b → S a b) → All2 S as bs
  | [], [], _, _ => trivial
  | [], _ :: _, h, _ => h.elim
  | _ :: _, [], h, _ => h.elim
  | a :: as, b :: bs, h, f =>
    ⟨f a (by simp) b (by simp) h.1, All2.imp h.2 fun a' ha b' hb => f a' (by simp [ha]) b' (by simp [hb])⟩

theorem All2.mem_left {α β : Type} {R : α → β → Prop} : ∀ {as : List α} {bs : List β},
    All2 R as bs → ∀ a ∈ as, ∃ b ∈ bs, R a b
  | [], [], _, _, h => by simp at h
  | [], _ :: _, h, _, _ => h.elim
  | _ :: _, [], h, _, _ => h.elim
  | x :: as, y :: bs, h, a, ha => by
    rcases List.mem_cons.1 ha with rfl | ha
    · exact ⟨y, by simp, h.1⟩
    · obtain ⟨b, hb, hr⟩ := All2.mem_left h.2 a ha
      exact ⟨b, by simp [hb], hr⟩

/-! ## recode -/

/-- a recoded stored sample vs. the old one -/
def RecRel (float : Bool) (oP oN nP nN : List Span) (s1 s : Stored) : Prop :=
  s1.t = s.t ∧ s1.sum = s.sum ∧ s1.count = s.count ∧ s1.zcount = s.zcount ∧
  bucketMap float nP s1.pB = bucketMap float oP s.pB ∧ bucketMap float nN s1.nB = bucketMap float oN s.nB ∧
  s1.pB.length = (idxs nP).length ∧ s1.nB.length = (idxs nN).length ∧
  (float = true → (∀ v ∈ s1.pB, v = 0 ∨ v ∈ s.pB) ∧ (∀ v ∈ s1.nB, v = 0 ∨ v ∈ s.nB))

theorem recodeGo_cons_live (c : Chunk) (pf nf : List Insert) (S1 S2 : List Span) (s : Stored) (rest : List Stored)
    (acc : Chunk) (hlive : s.sum ≠ staleBits) :
    recodeGo c pf nf S1 S2 (s :: rest) acc =
      (applyIns c.float s.pB (countSpans S1) pf >>= fun pB =>
        applyIns c.float s.nB (countSpans S2) nf >>= fun nB =>
          recodeGo c pf nf S1 S2 rest (acc.appendRaw s.t
            (Hist.mk c.float .unknown c.schema c.zt s.count s.zcount s.sum S1 S2 pB nB c.custom))) := by
  rw [recodeGo]
  simp only [Chunk.histOf, hlive, if_false, applyIns]
  cases pf.isEmpty <;> cases nf.isEmpty <;> rfl

theorem recodeGo_spec (c : Chunk) (pf nf : List Insert) (S1 S2 : List Span) (Bp Bn : List Int)
    (hS1 : idxs S1 = mergeU (idxs c.pSpans) Bp) (hS2 : idxs S2 = mergeU (idxs c.nSpans) Bn)
    (hpp : AllPos pf) (hpn : AllPos nf)
    (hfp : posOf pf = (specF 0 (idxs c.pSpans) Bp).map (·.1)) (hfn : posOf nf = (specF 0 (idxs c.nSpans) Bn).map (·.1)) :
    ∀ (rest : List Stored) (acc c1 : Chunk), recodeGo c pf nf S1 S2 rest acc = .ok c1 →
      (∀ s ∈ rest, s.sum ≠ staleBits ∧ s.pB.length = (idxs c.pSpans).length ∧ s.nB.length = (idxs c.nSpans).length) →
      ∃ new, c1.rev = new ++ acc.rev ∧ All2 (RecRel c.float c.pSpans c.nSpans S1 S2) new.reverse rest ∧
        c1.float = acc.float ∧ c1.hdr = acc.hdr ∧
        (acc.rev ≠ [] → c1.schema = acc.schema ∧ c1.zt = acc.zt ∧ c1.custom = acc.custom ∧
          c1.pSpans = acc.pSpans ∧ c1.nSpans = acc.nSpans) ∧
        (acc.rev = [] → rest ≠ [] → c1.schema = c.schema ∧ c1.zt = c.zt ∧ c1.custom = c.custom ∧
          c1.pSpans = S1 ∧ c1.nSpans = S2) := by
  intro rest
  induction rest with
  | nil =>
    intro acc c1 h _
    simp [recodeGo] at h; subst h
    exact ⟨[], by simp, trivial, rfl, rfl, fun _ => ⟨rfl, rfl, rfl, rfl, rfl⟩, fun _ h => absurd rfl h⟩
  | cons s rest ih =>
    intro acc c1 h hall
    obtain ⟨hlive, hlp, hln⟩ := hall s (by simp)
    rw [recodeGo_cons_live _ _ _ _ _ _ _ _ hlive] at h
    cases hp : applyIns c.float s.pB (countSpans S1) pf with
    | error e => simp [hp, bind, Except.bind] at h
    | ok pB =>
      cases hn : applyIns c.float s.nB (countSpans S2) nf with
      | error e => simp [hp, hn, bind, Except.bind] at h
      | ok nB =>
        simp only [hp, hn, bind, Except.bind] at h
        have bp := applyIns_bucketMap c.float c.pSpans S1 Bp hS1 s.pB hlp pf hpp hfp pB hp
        have bn := applyIns_bucketMap c.float c.nSpans S2 Bn hS2 s.nB hln nf hpn hfn nB hn
        have hmem : c.float = true → (∀ v ∈ pB, v = 0 ∨ v ∈ s.pB) ∧ (∀ v ∈ nB, v = 0 ∨ v ∈ s.nB) := by
          intro hf; rw [hf] at hp hn
          exact ⟨applyIns_mem _ _ _ _ hpp hp, applyIns_mem _ _ _ _ hpn hn⟩
        have hst : (Hist.mk c.float .unknown c.schema c.zt s.count s.zcount s.sum S1 S2 pB nB c.custom).stale = false := by
          simpa [Hist.stale] using hlive
        obtain ⟨new, hrev, hall2, hfl, hhdr, hk1, hk2⟩ := ih _ c1 h (fun s' hs' => hall s' (by simp [hs']))
        by_cases hacc : acc.rev = []
        · rw [appendRaw_nil acc hacc _ _ hst] at hrev hfl hhdr hk1
          simp only at hrev hfl hhdr hk1
          refine ⟨new ++ [⟨s.t, s.count, s.zcount, s.sum, pB, nB⟩], by simp [hrev, hacc], ?_, hfl, hhdr,
            fun h' => absurd hacc h', fun _ _ => ?_⟩
          · simp only [List.reverse_append, List.reverse_cons, List.reverse_nil, List.nil_append, List.cons_append]
            exact ⟨⟨rfl, rfl, rfl, rfl, bp.1, bn.1, bp.2, bn.2, hmem⟩, hall2⟩
          · exact hk1 (by simp)
        · rw [appendRaw_cons acc hacc _ _ hst] at hrev hfl hhdr hk1
          simp only at hrev hfl hhdr hk1
          refine ⟨new ++ [⟨s.t, s.count, s.zcount, s.sum, pB, nB⟩], by simp [hrev], ?_, hfl, hhdr,
            fun _ => hk1 (by simp), fun h' => absurd h' hacc⟩
          simp only [List.reverse_append, List.reverse_cons, List.reverse_nil, List.nil_append, List.cons_append]
          exact ⟨⟨rfl, rfl, rfl, rfl, bp.1, bn.1, bp.2, bn.2, hmem⟩, hall2⟩

/-- `recode` of a chunk whose samples are all live: header, flavour and key are kept, the layout becomes
    `S1`/`S2`, every sample keeps its meaning. -/
theorem recode_spec (c : Chunk) (pf nf : List Insert) (S1 S2 : List Span) (Bp Bn : List Int)
    (hS1 : idxs S1 = mergeU (idxs c.pSpans) Bp) (hS2 : idxs S2 = mergeU (idxs c.nSpans) Bn)
    (hpp : AllPos pf) (hpn : AllPos nf)
    (hfp : posOf pf = (specF 0 (idxs c.pSpans) Bp).map (·.1)) (hfn : posOf nf = (specF 0 (idxs c.nSpans) Bn).map (·.1))
    (c1 : Chunk) (hr : c.recode pf nf S1 S2 = .ok c1) (hne : c.rev ≠ [])
    (hall : ∀ s ∈ c.rev, s.sum ≠ staleBits ∧ s.pB.length = (idxs c.pSpans).length ∧ s.nB.length = (idxs c.nSpans).length) :
    All2 (RecRel c.float c.pSpans c.nSpans S1 S2) c1.rev c.rev ∧ c1.float = c.float ∧ c1.hdr = c.hdr ∧
      c1.schema = c.schema ∧ c1.zt = c.zt ∧ c1.custom = c.custom ∧ c1.pSpans = S1 ∧ c1.nSpans = S2 := by
  unfold Chunk.recode at hr
  obtain ⟨new, hrev, hall2, hfl, hhdr, _, hk⟩ :=
    recodeGo_spec c pf nf S1 S2 Bp Bn hS1 hS2 hpp hpn hfp hfn _ _ c1 hr (fun s hs => hall s (by simpa using hs))
  have hk' := hk (by simp [Chunk.empty]) (by simpa using hne)
  simp only [Chunk.empty, List.append_nil] at hrev hfl hhdr
  refine ⟨?_, hfl, hhdr, hk'⟩
  rw [hrev]
  have := All2.reverse hall2
  simpa using this

/-! ## one append into a non-empty chunk -/

theorem noReset_sem (a a' b b' : Hist) (ha : a.sem = a'.sem) (hb : b.sem = b'.sem) : noReset a b = noReset a' b' := by
  have a1 : a.float = a'.float := congrArg Sem.float ha
  have a2 : a.schema = a'.schema := congrArg Sem.schema ha
  have a3 : a.zt = a'.zt := congrArg Sem.zt ha
  have a4 : a.count = a'.count := congrArg Sem.count ha
  have a5 : a.zcount = a'.zcount := congrArg Sem.zcount ha
  have a6 : a.sum = a'.sum := congrArg Sem.sum ha
  have a7 : a.custom = a'.custom := congrArg Sem.custom ha
  have b1 : b.float = b'.float := congrArg Sem.float hb
  have b2 : b.schema = b'.schema := congrArg Sem.schema hb
  have b3 : b.zt = b'.zt := congrArg Sem.zt hb
  have b4 : b.count = b'.count := congrArg Sem.count hb
  have b5 : b.zcount = b'.zcount := congrArg Sem.zcount hb
  have b7 : b.custom = b'.custom := congrArg Sem.custom hb
  simp only [noReset, sameKey, Hist.stale, a1, a2, a3, a4, a5, a6, a7, b1, b2, b3, b4, b5, b7, ha, hb]

theorem All2.trans {α β γ : Type} {R : α → β → Prop} {S : β → γ → Prop} {T : α → γ → Prop}
    (f : ∀ a b c, R a b → S b c → T a c) : ∀ {as : List α} {bs : List β} {cs : List γ},
    All2 R as bs → All2 S bs cs → All2 T as cs
  | [], [], [], _, _ => trivial
  | [], [], _ :: _, _, h => h.elim
  | [], _ :: _, _, h, _ => h.elim
  | _ :: _, [], _, h, _ => h.elim
  | _ :: _, _ :: _, [], _, h => h.elim
  | _ :: _, _ :: _, _ :: _, h1, h2 => ⟨f _ _ _ h1.1 h2.1, All2.trans f h1.2 h2.2⟩

theorem All2.live {c : Chunk} : ∀ {rev : List Stored} {l : List (Int × Hist)}, All2 (Rep c) rev l →
    (∀ p ∈ l, p.2.stale = false) →
    ∀ s ∈ rev, s.sum ≠ staleBits ∧ s.pB.length = (idxs c.pSpans).length ∧ s.nB.length = (idxs c.nSpans).length
  | [], [], _, _ => by simp
  | [], _ :: _, h, _ => h.elim
  | _ :: _, [], h, _ => h.elim
  | s :: rev, th :: l, h, hl => by
    intro s' hs'
    rcases List.mem_cons.1 hs' with rfl | hs'
    · have := h.1.2.2 (hl th (by simp))
      exact ⟨this.1, this.2.2.1, this.2.2.2⟩
    · exact All2.live h.2 (fun p hp => hl p (by simp [hp])) s' hs'

/-- a recoded sample represents what the old one did -/
theorem Rep_of_RecRel (c c1 : Chunk) (hfl : c1.float = c.float) (hsch : c1.schema = c.schema) (hzt : c1.zt = c.zt)
    (hcu : c1.custom = c.custom) (s1 s : Stored) (th : Int × Hist)
    (hr : RecRel c.float c.pSpans c.nSpans c1.pSpans c1.nSpans s1 s) (hrep : Rep c s th) : Rep c1 s1 th := by
  obtain ⟨ht, hsum, hcnt, hz, hp, hn, hlp, hln, _⟩ := hr
  refine ⟨by rw [ht]; exact hrep.1, fun hs => by rw [hsum]; exact hrep.2.1 hs, fun hs => ?_⟩
  obtain ⟨hlive, hsem, _, _⟩ := hrep.2.2 hs
  refine ⟨by rw [hsum]; exact hlive, ?_, hlp, hln⟩
  rw [← hsem]
  simp [Chunk.histOf, hlive, Hist.sem, hfl, hsch, hzt, hcu, hsum, hcnt, hz, hp, hn]

/-- the freshly stored sample represents the appended histogram -/
theorem Rep_new (c' : Chunk) (t : Int) (h : Hist) (hns : h.stale = false) (pB1 nB1 : List Int)
    (hfl : c'.float = h.float) (hsch : c'.schema = h.schema) (hzt : c'.zt = h.zt) (hcu : c'.custom = h.custom)
    (hp : bucketMap h.float c'.pSpans pB1 = bucketMap h.float h.pSpans h.pB)
    (hn : bucketMap h.float c'.nSpans nB1 = bucketMap h.float h.nSpans h.nB)
    (hlp : pB1.length = (idxs c'.pSpans).length) (hln : nB1.length = (idxs c'.nSpans).length) :
    Rep c' ⟨t, h.count, h.zcount, h.sum, pB1, nB1⟩ (t, h) := by
  have hsum : h.sum ≠ staleBits := by simpa [Hist.stale] using hns
  refine ⟨rfl, fun hs => by simp [hns] at hs, fun _ => ⟨hsum, ?_, hlp, hln⟩⟩
  simp [Chunk.histOf, hsum, Hist.sem, hfl, hsch, hzt, hcu, hp, hn]

theorem Chunk.last_eq (c : Chunk) (s : Stored) (r : List Stored) (h : c.rev = s :: r) : c.last = s := by
  simp [Chunk.last, h]

/-- **One accepted append into a non-empty chunk** (counter or gauge path, with or without forward recoding of
    the chunk and backward recoding of the histogram), in normal form: the histogram handed back is
    `{h with spans := S1/S2, buckets := pB1/nB1}`, the chunk is `c` or its recoding, plus the new sample. -/
theorem CInv.step (c : Chunk) (l : List (Int × Hist)) (inv : CInv c l) (t : Int) (h : Hist)
    (hns : h.stale = false) (hwf : WF h) (hfl : h.float = c.float) (hlast : c.last.sum ≠ staleBits)
    (hne : c.rev ≠ []) (hsch : h.schema = c.schema) (hzt : h.zt = c.zt) (hcu : h.custom = c.custom)
    (pf nf pb nb : List Insert)
    (pp : SidePlan (idxs c.pSpans) (idxs h.pSpans) pf pb) (pn : SidePlan (idxs c.nSpans) (idxs h.nSpans) nf nb)
    (S1 S2 : List Span) (hS1 : idxs S1 = mergeU (idxs c.pSpans) (idxs h.pSpans))
    (hS2 : idxs S2 = mergeU (idxs c.nSpans) (idxs h.nSpans))
    (pB1 nB1 : List Int) (hp1 : applyIns h.float h.pB (countSpans S1) pb = .ok pB1)
    (hn1 : applyIns h.float h.nB (countSpans S2) nb = .ok nB1)
    (hadj : ∀ th0 ∈ l.head?, (c.hdr == .gauge) = false → noReset th0.2 h = true)
    (h1 : Hist) (hh1 : h1 = { h with pSpans := S1, nSpans := S2, pB := pB1, nB := nB1 })
    (c' : Chunk)
    (hc' : (pf = [] ∧ nf = [] ∧ c' = c.appendRaw t h1) ∨ (∃ c1, c.recode pf nf S1 S2 = .ok c1 ∧ c' = c1.appendRaw t h1)) :
    CInv c' ((t, h) :: l) ∧ h1.sem = h.sem ∧
      ((c'.pSpans = c.pSpans ∧ c'.nSpans = c.nSpans) ∨ (c'.pSpans = S1 ∧ c'.nSpans = S2)) := by
  -- the incoming histogram, recoded backwards, means the same
  have hS1' : idxs S1 = mergeU (idxs h.pSpans) (idxs c.pSpans) := by rw [hS1, mergeU_comm]
  have hS2' : idxs S2 = mergeU (idxs h.nSpans) (idxs c.nSpans) := by rw [hS2, mergeU_comm]
  have bp := applyIns_bucketMap h.float h.pSpans S1 _ hS1' h.pB hwf.pLen pb pp.bpos pp.b pB1 hp1
  have bn := applyIns_bucketMap h.float h.nSpans S2 _ hS2' h.nB hwf.nLen nb pn.bpos pn.b nB1 hn1
  have hsem : h1.sem = h.sem := by subst hh1; simp [Hist.sem, bp.1, bn.1]
  have h1ns : h1.stale = false := by subst hh1; simpa [Hist.stale] using hns
  suffices hmain : CInv c' ((t, h) :: l) ∧
      ((c'.pSpans = c.pSpans ∧ c'.nSpans = c.nSpans) ∨ (c'.pSpans = S1 ∧ c'.nSpans = S2)) from
    ⟨hmain.1, hsem, hmain.2⟩
  -- all samples of the chunk are live
  obtain ⟨s0, r0, hrev⟩ := List.exists_cons_of_ne_nil hne
  have hl0 : c.last = s0 := c.last_eq s0 r0 hrev
  cases l with
  | nil => have := inv.rep; rw [hrev] at this; exact this.elim
  | cons th0 l0 =>
    have hrep := inv.rep
    have hth0 : th0.2.stale = false := by
      cases hs : th0.2.stale with
      | false => rfl
      | true =>
        rw [hrev] at hrep
        have := hrep.1.2.1 hs
        rw [hl0] at hlast; exact absurd this hlast
    have hlive := AdjOk.all_live inv.adj hth0
    have hall := All2.live hrep hlive
    have hwfs : ∀ p ∈ (t, h) :: th0 :: l0, WFs p.2 := by
      intro p hp; rcases List.mem_cons.1 hp with rfl | hp
      · exact fun _ => hwf
      · exact inv.wf p hp
    have hadj' : ∀ g : Bool, g = (c.hdr == .gauge) → AdjOk g ((t, h) :: th0 :: l0) := by
      intro g hg; subst hg
      exact ⟨fun hs => by simp [hth0] at hs, fun hg _ => hadj th0 (by simp) hg, inv.adj⟩
    rcases hc' with ⟨hpf, hnf, rfl⟩ | ⟨c1, hrec, rfl⟩
    · -- no forward recoding: the chunk's layout is the merged one already
      have e1 : idxs S1 = idxs c.pSpans := by rw [hS1, pp.merge_of_f_nil hpf]
      have e2 : idxs S2 = idxs c.nSpans := by rw [hS2, pn.merge_of_f_nil hnf]
      rw [appendRaw_cons c hne t h1 h1ns]
      subst hh1
      have hsumne : h.sum ≠ staleBits := by simpa [Hist.stale] using hns
      have hlive' : ∀ s ∈ (⟨t, h.count, h.zcount, h.sum, pB1, nB1⟩ : Stored) :: c.rev, s.sum ≠ staleBits := by
        intro s hs; rcases List.mem_cons.1 hs with rfl | hs
        · exact hsumne
        · exact (hall s hs).1
      have hvnew : c.float = true → ValRel ⟨t, h.count, h.zcount, h.sum, pB1, nB1⟩ (t, h) := by
        intro hf; rw [← hfl] at hf; rw [hf] at hp1 hn1
        exact ⟨applyIns_mem _ _ _ _ pp.bpos hp1, applyIns_mem _ _ _ _ pn.bpos hn1⟩
      refine ⟨⟨⟨?_, ?_⟩, inv.pS, inv.nS, hwfs, ?_, hadj' _ rfl, fun s hs hst => absurd hst (hlive' s hs),
        fun s hs hst => absurd hst (hlive' s (List.mem_of_getLast? hs)),
        fun hf => ⟨hvnew hf, inv.vals hf⟩⟩, Or.inl ⟨rfl, rfl⟩⟩
      · refine Rep_new _ t h hns pB1 nB1 hfl.symm hsch.symm hzt.symm hcu.symm ?_ ?_ ?_ ?_
        · rw [← bp.1]; exact bucketMap_congr _ _ _ _ e1.symm
        · rw [← bn.1]; exact bucketMap_congr _ _ _ _ e2.symm
        · show pB1.length = (idxs c.pSpans).length
          rw [bp.2, e1]
        · show nB1.length = (idxs c.nSpans).length
          rw [bn.2, e2]
      · exact hrep
      · intro p hp; rcases List.mem_cons.1 hp with rfl | hp
        · exact hfl
        · exact inv.flt p hp
    · -- forward recoding of the chunk
      obtain ⟨hall2, rfl1, rhdr, rsch, rzt, rcu, rp, rn⟩ :=
        recode_spec c pf nf S1 S2 _ _ hS1 hS2 pp.fpos pn.fpos pp.f pn.f c1 hrec hne hall
      have hne1 : c1.rev ≠ [] := by
        intro he; have := All2.length hall2; rw [he, hrev] at this; simp at this
      rw [appendRaw_cons c1 hne1 t h1 h1ns]
      subst hh1
      have hsumne : h.sum ≠ staleBits := by simpa [Hist.stale] using hns
      have hlive' : ∀ s ∈ (⟨t, h.count, h.zcount, h.sum, pB1, nB1⟩ : Stored) :: c1.rev, s.sum ≠ staleBits := by
        intro s hs; rcases List.mem_cons.1 hs with rfl | hs
        · exact hsumne
        · obtain ⟨s', hs', hr⟩ := All2.mem_left hall2 s hs
          rw [hr.2.1]; exact (hall s' hs').1
      have hvnew : c.float = true → ValRel ⟨t, h.count, h.zcount, h.sum, pB1, nB1⟩ (t, h) := by
        intro hf; rw [← hfl] at hf; rw [hf] at hp1 hn1
        exact ⟨applyIns_mem _ _ _ _ pp.bpos hp1, applyIns_mem _ _ _ _ pn.bpos hn1⟩
      have hvold : c.float = true → All2 ValRel c1.rev (th0 :: l0) := by
        intro hf
        refine All2.trans (fun s1 s th hr hv => ?_) hall2 (inv.vals hf)
        obtain ⟨m1, m2⟩ := hr.2.2.2.2.2.2.2.2 hf
        refine ⟨fun v hv' => ?_, fun v hv' => ?_⟩
        · rcases m1 v hv' with h0 | hm
          · exact Or.inl h0
          · exact hv.1 v hm
        · rcases m2 v hv' with h0 | hm
          · exact Or.inl h0
          · exact hv.2 v hm
      refine ⟨⟨⟨?_, ?_⟩, ?_, ?_, hwfs, ?_, ?_, fun s hs hst => absurd hst (hlive' s hs),
        fun s hs hst => absurd hst (hlive' s (List.mem_of_getLast? hs)),
        fun hf => ⟨hvnew (by rw [← rfl1]; exact hf), hvold (by rw [← rfl1]; exact hf)⟩⟩, Or.inr ⟨rp, rn⟩⟩
      · refine Rep_new _ t h hns pB1 nB1 (by simp [rfl1, hfl]) (by simp [rsch, hsch]) (by simp [rzt, hzt])
          (by simp [rcu, hcu]) ?_ ?_ ?_ ?_
        · show bucketMap h.float c1.pSpans pB1 = _
          rw [rp]; exact bp.1
        · show bucketMap h.float c1.nSpans nB1 = _
          rw [rn]; exact bn.1
        · show pB1.length = (idxs c1.pSpans).length
          rw [rp]; exact bp.2
        · show nB1.length = (idxs c1.nSpans).length
          rw [rn]; exact bn.2
      · show All2 (Rep _) c1.rev (th0 :: l0)
        rw [← rp, ← rn] at hall2
        exact All2.trans (fun s1 s th hr hrp => Rep_of_RecRel c c1 rfl1 rsch rzt rcu s1 s th hr hrp) hall2 hrep
      · show (idxs c1.pSpans).Pairwise (· < ·)
        rw [rp, hS1]; exact mergeU_sorted _ _ inv.pS hwf.pSorted
      · show (idxs c1.nSpans).Pairwise (· < ·)
        rw [rn, hS2]; exact mergeU_sorted _ _ inv.nS hwf.nSorted
      · intro p hp; rcases List.mem_cons.1 hp with rfl | hp
        · show h.float = c1.float
          rw [rfl1]; exact hfl
        · show p.2.float = c1.float
          rw [rfl1]; exact inv.flt p hp
      · show AdjOk (c1.hdr == .gauge) _
        rw [rhdr]; exact hadj' _ rfl

end Prom.Hist
