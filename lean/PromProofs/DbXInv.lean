import PromProofs.DbMaxBlk
/-
  C01 refinement, restart: every operation of the model preserves the window facts `XInv`.
-/
namespace Prom.Db
open Prom.Intervals

/-- Replacing the open appender: only `appMV` has to be re-established. -/
theorem XInv.setApp {d : Db} (h : XInv d) (x : Option App)
    (hx : ∀ a, x = some a → a.init = false → d.minValid ≤ a.minValid) : XInv { d with app := x } :=
  ⟨h.x1, h.x2, h.x3, h.blkMaxt, hx⟩

/-! ### init / begin / rollback -/

theorem xinv_init (cfg : Cfg) : XInv { cfg := cfg } := by
  refine ⟨?_, fun _ => rfl, Int.le_refl _, Int.le_refl _, fun a ha => by simp at ha⟩
  show MinI64 ≤ MaxI64
  unfold MinI64 MaxI64; omega

theorem begin_xinv {d : Db} (h : XInv d) : XInv d.begin := by
  unfold Db.begin
  split
  · apply h.setApp
    intro a ha _
    simp only [Option.some.injEq] at ha
    subst ha
    simp only [Db.appendableMinValid]
    omega
  · apply h.setApp
    intro a ha hi
    simp only [Option.some.injEq] at ha
    subst ha
    simp at hi

theorem rollback_xinv {d : Db} (h : XInv d) : XInv d.rollback.1 := by
  unfold Db.rollback
  split
  · exact h
  · exact h.setApp none (fun a ha => by simp at ha)

/-! ### append -/

theorem initTime_app (d : Db) (t : Int) : (initTime d t).app = d.app := by
  unfold initTime; split <;> rfl

theorem initTime_xinv {d : Db} (h : XInv d) (t : Int) (ht : MinI64 ≤ t) : XInv (initTime d t) := by
  unfold initTime
  split
  · rename_i hmax
    have hmv := h.x2 hmax
    refine ⟨?_, fun _ => hmv, ht, h.blkMaxt, h.appMV⟩
    have := h.x1
    simp only
    split <;> omega
  · exact h

theorem appD_xinv {d : Db} (h : XInv d) (a : App) (t : Int) (ht : MinI64 ≤ t) : XInv (appD d a t) := by
  unfold appD
  split
  · exact initTime_xinv h t ht
  · exact h

theorem appA_minValid_ge {d : Db} {a : App} (h : XInv d) (happ : d.app = some a) (t : Int) :
    (appD d a t).minValid ≤ (appA d a t).minValid := by
  rw [appD_minValid]
  unfold appA
  cases hi : a.init
  · simp only [Bool.false_eq_true, if_false]
    exact h.appMV a happ hi
  · simp only [if_true, Db.appendableMinValid, initTime_minValid]
    omega

theorem append_xinv {d : Db} (h : XInv d) (i : Nat) (t : Int) (v : Nat) (ht : MinI64 ≤ t) :
    XInv (d.append i t v).1 := by
  cases happ : d.app with
  | none =>
    have : d.append i t v = (d, .error .noapp) := by unfold Db.append; rw [happ]
    rw [this]; exact h
  | some a =>
    have hD : XInv (appD d a t) := appD_xinv h a t ht
    have hA := appA_minValid_ge h happ t
    rcases append_some happ i t v with ⟨e, he⟩ | ⟨he, _⟩
    · rw [he]
      refine hD.setApp _ (fun a' ha' _ => ?_)
      simp only [Option.some.injEq] at ha'
      subst ha'
      exact hA
    · rw [he]
      refine hD.setApp _ (fun a' ha' _ => ?_)
      simp only [Option.some.injEq] at ha'
      subst ha'
      exact hA

/-! ### commit -/

theorem commitStep_scalars (a : App) (acc : Db × Int × Int) (p : Nat × Smp) :
    (commitStep a acc p).1.minT = acc.1.minT ∧ (commitStep a acc p).1.maxT = acc.1.maxT ∧
    (commitStep a acc p).1.minValid = acc.1.minValid := by
  unfold commitStep
  simp only
  split
  · simp
  · exact ⟨rfl, rfl, rfl⟩

theorem commitStep_lo (a : App) (acc : Db × Int × Int) (p : Nat × Smp) (B : Int)
    (h1 : B ≤ acc.2.1) (h2 : B ≤ p.2.t) : B ≤ (commitStep a acc p).2.1 := by
  unfold commitStep
  simp only
  split
  · simp only; omega
  · exact h1

/-- The commit loop keeps the window scalars, and the running minimum stays above any bound that is
    below the start value and below every batch timestamp. -/
theorem commitFold_x (a : App) (B : Int) : ∀ (ps : List (Nat × Smp)) (acc : Db × Int × Int),
    B ≤ acc.2.1 → (∀ p ∈ ps, B ≤ p.2.t) →
    (ps.foldl (commitStep a) acc).1.minT = acc.1.minT ∧
    (ps.foldl (commitStep a) acc).1.maxT = acc.1.maxT ∧
    (ps.foldl (commitStep a) acc).1.minValid = acc.1.minValid ∧
    B ≤ (ps.foldl (commitStep a) acc).2.1
  | [], _, h1, _ => ⟨rfl, rfl, rfl, h1⟩
  | p :: ps, acc, h1, h2 => by
    rw [List.foldl_cons]
    obtain ⟨e1, e2, e3⟩ := commitStep_scalars a acc p
    have ih := commitFold_x a B ps (commitStep a acc p)
      (commitStep_lo a acc p B h1 (h2 p (by simp))) (fun q hq => h2 q (by simp [hq]))
    rw [e1, e2, e3] at ih
    exact ih

theorem commit_xinv {d : Db} (hI : Inv d) (_hT : TInv d) (h : XInv d) : XInv d.commit.1 := by
  cases happ : d.app with
  | none =>
    have : d.commit = (d, .error .noapp) := by unfold Db.commit; rw [happ]
    rw [this]; exact h
  | some a =>
    by_cases hb : a.batch = []
    · have : d.commit = ({ d with app := none }, .ok ()) := by
        unfold Db.commit; rw [happ]; simp [hb]
      rw [this]
      exact h.setApp none (fun a ha => by simp at ha)
    · rw [Db.commit_some d a happ hb]
      have hA := hI.appInv a happ
      have hinit : a.init = false := by
        cases hi : a.init with
        | false => rfl
        | true => exact absurd (hA.initBatch hi) hb
      have hmv := h.appMV a happ hinit
      have hge : ∀ p ∈ a.batch, d.minValid ≤ p.2.t := fun p hp => by
        have := (hA.batchGe p hp).1; omega
      have hB : d.minValid ≤ MaxI64 := by
        cases hbb : a.batch with
        | nil => exact absurd hbb hb
        | cons p ps =>
          have := hA.batchGe p (by rw [hbb]; simp)
          omega
      have hF := commitFold_x a d.minValid a.batch
        ({ d with wal := d.wal ++ [Rec.samples a.batch] }, MaxI64, MinI64) hB hge
      have hblk := commitFold_blocks a a.batch
        ({ d with wal := d.wal ++ [Rec.samples a.batch] }, MaxI64, MinI64)
      dsimp only
      generalize a.batch.foldl (commitStep a)
        ({ d with wal := d.wal ++ [Rec.samples a.batch] }, MaxI64, MinI64) = acc at hF hblk
      obtain ⟨dF, lo, hi⟩ := acc
      simp only at hF hblk ⊢
      obtain ⟨e1, e2, e3, e4⟩ := hF
      have h1 := h.x1
      have h3 := h.x3
      refine ⟨?_, ?_, ?_, ?_, fun a ha => by simp at ha⟩
      · show dF.minValid ≤ if lo < dF.minT then lo else dF.minT
        rw [e1, e3]
        split <;> omega
      · show (if hi > dF.maxT then hi else dF.maxT) = MinI64 → dF.minValid = MinI64
        rw [e2, e3]
        intro hm
        apply h.x2
        split at hm <;> omega
      · show MinI64 ≤ if hi > dF.maxT then hi else dF.maxT
        rw [e2]
        split <;> omega
      · show maxBlk dF.blocks ≤ dF.minValid
        rw [hblk, e3]
        exact h.blkMaxt

/-! ### delete / CleanTombstones -/

theorem delete_xinv {d : Db} (h : XInv d) (a b : Int) (sel : Option Nat) : XInv (d.delete a b sel) := by
  obtain ⟨_, e1, e2, e3, e4⟩ := delete_scalars d a b sel
  refine ⟨by rw [e3, e1]; exact h.x1, by rw [e2, e3]; exact h.x2, by rw [e2]; exact h.x3, ?_,
    by rw [e4, e3]; exact h.appMV⟩
  rw [e3, delete_blocks]
  refine Int.le_trans (maxBlk_mono ?_) h.blkMaxt
  intro b' hb'
  rw [List.mem_map] at hb'
  obtain ⟨blk, hblk, rfl⟩ := hb'
  exact ⟨blk, hblk, rfl⟩

theorem cleantomb_xinv {d : Db} (h : XInv d) : XInv d.cleanTombstones := by
  rw [cleanTombstones_eq]
  refine ⟨h.x1, h.x2, h.x3, ?_, h.appMV⟩
  show maxBlk (d.blocks.filterMap cleanBlock) ≤ d.minValid
  refine Int.le_trans (maxBlk_mono ?_) h.blkMaxt
  intro b' hb'
  rw [List.mem_filterMap] at hb'
  obtain ⟨b, hb, hbb⟩ := hb'
  rcases cleanBlock_cases hbb with rfl | ⟨_, h2, _⟩
  · exact ⟨b', hb, rfl⟩
  · exact ⟨b, hb, h2⟩

/-! ### head compaction -/

theorem adjust_maxT (d3 : Db) : (adjust d3).maxT = d3.maxT := by
  unfold adjust; split
  · split <;> rfl
  · rfl

theorem adjust_wal (d3 : Db) : (adjust d3).wal = d3.wal := by
  unfold adjust; split
  · split <;> rfl
  · rfl

theorem adjust_mv_eq {d3 : Db} (hv : d3.minValid = d3.minT) :
    (adjust d3).minValid = (adjust d3).minT ∧ d3.minT ≤ (adjust d3).minT := by
  unfold adjust
  split
  · split
    · refine ⟨rfl, ?_⟩
      simp only; omega
    · refine ⟨rfl, ?_⟩
      simp only [Db.appendableMinValid]; omega
  · exact ⟨hv, Int.le_refl _⟩

theorem maxBlk_cBlocks (d : Db) : maxBlk (cBlocks d) ≤ max (maxBlk d.blocks) (cMaxt d) := by
  unfold cBlocks
  split
  · omega
  · rw [maxBlk_append_one]
    exact Int.le_refl _

/-- What one head compaction does to the window scalars (no invariant needed). -/
theorem compactHeadOnce_facts {d : Db} (hcr : 0 < d.cfg.chunkRange) :
    d.compactHeadOnce.minValid = d.compactHeadOnce.minT ∧ cMaxt d ≤ d.compactHeadOnce.minT ∧
    cMaxt d ≤ d.compactHeadOnce.maxT ∧ d.compactHeadOnce.blocks = cBlocks d ∧
    d.compactHeadOnce.app = d.app ∧ d.compactHeadOnce.wal = d.wal ∧ d.minT < cMaxt d := by
  have hlt : d.minT < cMaxt d := lt_rangeFor d.minT d.cfg.chunkRange hcr
  rw [compactHeadOnce_eq d hlt]
  obtain ⟨m1, m2⟩ := adjust_mv_eq
    (d3 := { d with blocks := cBlocks d, series := cSeries d, minT := cMaxt d, minValid := cMaxt d,
                    maxT := if d.maxT < cMaxt d then cMaxt d else d.maxT }) rfl
  refine ⟨m1, m2, ?_, ?_, ?_, ?_, hlt⟩
  · rw [adjust_maxT]
    show cMaxt d ≤ if d.maxT < cMaxt d then cMaxt d else d.maxT
    split <;> omega
  · rw [adjust_blocks]
  · rw [adjust_app]
  · rw [adjust_wal]

theorem compactHeadOnce_minValid_ge {d : Db} (h : XInv d) (hcr : 0 < d.cfg.chunkRange) :
    d.minValid ≤ d.compactHeadOnce.minValid ∧ cMaxt d ≤ d.compactHeadOnce.minValid ∧
    d.compactHeadOnce.wal = d.wal := by
  obtain ⟨f1, f2, _, _, _, f6, f7⟩ := compactHeadOnce_facts hcr
  have := h.x1
  exact ⟨by omega, by omega, f6⟩

theorem compactHeadOnce_xinv {d : Db} (_hI : Inv d) (h : XInv d) (hcr : 0 < d.cfg.chunkRange)
    (happ : d.app = none) (_hc : d.compactable = true) : XInv d.compactHeadOnce := by
  obtain ⟨f1, f2, f3, f4, f5, _, f7⟩ := compactHeadOnce_facts hcr
  have h1 := h.x1
  have hb := h.blkMaxt
  have hg := maxBlk_ge d.blocks
  refine ⟨by omega, ?_, by omega, ?_, ?_⟩
  · intro e; omega
  · rw [f4]
    have := maxBlk_cBlocks d
    omega
  · intro a ha
    rw [f5, happ] at ha
    simp at ha

/-! ### the compaction loop -/

theorem compactGo_xinv {r : Ref} : ∀ (fuel : Nat) (d : Db), Good d r → XInv d → d.app = none →
    XInv (Db.compact.go fuel d)
  | 0, _, _, h, _ => h
  | fuel + 1, d, hG, h, happ => by
    unfold Db.compact.go
    split
    · rename_i hc
      have := compactHeadOnce_preserves hG happ
      exact compactGo_xinv fuel _ this.1 (compactHeadOnce_xinv hG.inv h hG.cr happ hc) this.2
    · exact h

theorem compact_xinv {d : Db} {r : Ref} (hG : Good d r) (h : XInv d) (happ : d.app = none) :
    XInv d.compact :=
  compactGo_xinv 64 d hG h happ

end Prom.Db
