import PromModel.Labels.StableHash
/-
  Helper lemmas for C18: the streaming xxhash digest computes the one-shot hash; the Go code path of
  `labels.StableHash` equals `xxhash64 ∘ serialise`; the serialisation is injective on 0xFF-free labels.
-/
namespace Prom.StableHash

/-! ## serialisation -/

theorem serialise_append (a b : Labels) : serialise (a ++ b) = serialise a ++ serialise b := by
  induction a with
  | nil => rfl
  | cons l ls ih => simp [serialise, ih]

theorem serialise_cons (l : Label) (ls : Labels) :
    serialise (l :: ls) = l.name ++ sep :: (l.value ++ sep :: serialise ls) := by
  simp [serialise, serialiseLabel]

/-- splitting at the first separator is unambiguous when the prefixes do not contain it -/
theorem split_at_sep {a b r r' : Bytes} (ha : sep ∉ a) (hb : sep ∉ b)
    (h : a ++ sep :: r = b ++ sep :: r') : a = b ∧ r = r' := by
  induction a generalizing b with
  | nil =>
    cases b with
    | nil => simpa using h
    | cons y ys =>
      simp only [List.nil_append, List.cons_append, List.cons.injEq] at h
      exact absurd (h.1 ▸ List.mem_cons_self) hb
  | cons x xs ih =>
    cases b with
    | nil =>
      simp only [List.nil_append, List.cons_append, List.cons.injEq] at h
      exact absurd (h.1 ▸ List.mem_cons_self) ha
    | cons y ys =>
      simp only [List.cons_append, List.cons.injEq] at h
      have := ih (b := ys) (fun hm => ha (List.mem_cons_of_mem _ hm)) (fun hm => hb (List.mem_cons_of_mem _ hm)) h.2
      exact ⟨by rw [h.1, this.1], this.2⟩

/-- a label set whose names and values are free of the separator byte (valid UTF-8 never contains 0xFF) -/
def SepFree (ls : Labels) : Prop := ∀ l ∈ ls, sep ∉ l.name ∧ sep ∉ l.value

theorem serialise_injective_of_sepFree (a b : Labels) (ha : SepFree a) (hb : SepFree b)
    (h : serialise a = serialise b) : a = b := by
  induction a generalizing b with
  | nil =>
    cases b with
    | nil => rfl
    | cons l ls =>
      rw [serialise_cons] at h
      have := congrArg List.length h
      simp [serialise] at this
  | cons x xs ih =>
    cases b with
    | nil =>
      rw [serialise_cons] at h
      have := congrArg List.length h
      simp [serialise] at this
    | cons y ys =>
      rw [serialise_cons, serialise_cons] at h
      have hx := ha x List.mem_cons_self
      have hy := hb y List.mem_cons_self
      obtain ⟨hn, h2⟩ := split_at_sep hx.1 hy.1 h
      obtain ⟨hv, h3⟩ := split_at_sep hx.2 hy.2 h2
      have := ih ys (fun l hl => ha l (List.mem_cons_of_mem _ hl)) (fun l hl => hb l (List.mem_cons_of_mem _ hl)) h3
      cases x; cases y; simp_all

/-! ## the streaming digest computes the one-shot hash -/

theorem blocks_short (a : Acc) (x : Bytes) (h : x.length < 32) : blocks a x = (a, x) := by
  rw [blocks]; simp [Nat.not_le.mpr h]

theorem blocks_tail_lt (a : Acc) (x : Bytes) : (blocks a x).2.length < 32 := by
  fun_induction blocks a x with
  | case1 a x h ih => exact ih
  | case2 a x h => simpa using h

theorem blocks_append (a : Acc) (x y : Bytes) :
    blocks a (x ++ y) = blocks (blocks a x).1 ((blocks a x).2 ++ y) := by
  fun_induction blocks a x with
  | case1 a x h ih =>
    have h' : 32 ≤ (x ++ y).length := by simp; omega
    rw [blocks, if_pos h', List.take_append_of_le_length h, List.drop_append_of_le_length h, ih]
  | case2 a x h => rfl

theorem blocks_stripe (a : Acc) (m r : Bytes) (hm : m.length = 32) :
    blocks a (m ++ r) = blocks (a.block m) r := by
  have h' : 32 ≤ (m ++ r).length := by simp; omega
  rw [blocks, if_pos h', List.take_append_of_le_length (by omega), List.drop_append_of_le_length (by omega)]
  simp [← hm]

/-- the digest `d` has absorbed exactly the bytes `x` -/
def Rep (d : Digest) (x : Bytes) : Prop := d.total = x.length ∧ blocks Acc.init x = (d.acc, d.mem)

theorem rep_new : Rep Digest.new [] := by
  refine ⟨rfl, ?_⟩
  rw [blocks_short _ _ (by simp)]; rfl

theorem rep_write {d : Digest} {x : Bytes} (h : Rep d x) (b : Bytes) : Rep (d.write b) (x ++ b) := by
  obtain ⟨ht, hb⟩ := h
  have hmem : d.mem.length < 32 := by
    have := blocks_tail_lt Acc.init x
    rw [hb] at this; exact this
  refine ⟨by simp [Digest.write, ht]; split <;> rfl, ?_⟩
  rw [blocks_append, hb]
  simp only [Digest.write]
  by_cases hs : d.mem.length + b.length < 32
  · rw [if_pos hs, blocks_short _ _ (by simpa using hs)]
  · rw [if_neg hs]
    by_cases h0 : 0 < d.mem.length
    · have hsplit : d.mem ++ b = (d.mem ++ b.take (32 - d.mem.length)) ++ b.drop (32 - d.mem.length) := by
        simp
      have hlen : (d.mem ++ b.take (32 - d.mem.length)).length = 32 := by
        simp; omega
      rw [hsplit, blocks_stripe _ _ _ hlen]
      simp only [if_pos h0]
      by_cases hr : 32 ≤ (b.drop (32 - d.mem.length)).length
      · simp only [if_pos hr]
      · simp only [if_neg hr]
        rw [blocks_short _ _ (by omega)]
    · have hnil : d.mem = [] := by
        cases hm : d.mem with
        | nil => rfl
        | cons _ _ => simp [hm] at h0
      simp only [if_neg h0]
      simp only [hnil, List.nil_append]
      by_cases hr : 32 ≤ b.length
      · simp only [if_pos hr]
      · simp only [if_neg hr]
        rw [blocks_short _ _ (by omega)]

theorem rep_sum64 {d : Digest} {x : Bytes} (h : Rep d x) : d.sum64 = xxhash64 x := by
  obtain ⟨ht, hb⟩ := h
  unfold Digest.sum64 xxhash64
  rw [ht]
  by_cases hl : 32 ≤ x.length
  · simp only [if_pos hl, hb]
  · simp only [if_neg hl]
    rw [blocks_short _ _ (by omega)] at hb
    have h1 : d.acc = Acc.init := by injection hb with h1 _; exact h1.symm
    have h2 : d.mem = x := by injection hb with _ h2; exact h2.symm
    rw [h1, h2]
    simp [Acc.init]

theorem rep_stream {d : Digest} {x : Bytes} (h : Rep d x) (ls : Labels) :
    Rep (streamLabels d ls) (x ++ serialise ls) := by
  induction ls generalizing d x with
  | nil => simpa [streamLabels, serialise] using h
  | cons l ls ih =>
    have := ih (rep_write (rep_write (rep_write (rep_write h l.name) [sep]) l.value) [sep])
    simpa [streamLabels, serialise, serialiseLabel] using this

/-- writing a sequence of pieces and summing = hashing the concatenation -/
theorem digest_writes_eq_oneshot (pieces : List Bytes) :
    (pieces.foldl Digest.write Digest.new).sum64 = xxhash64 pieces.flatten := by
  have : ∀ (d : Digest) (x : Bytes), Rep d x → Rep (pieces.foldl Digest.write d) (x ++ pieces.flatten) := by
    induction pieces with
    | nil => intro d x h; simpa using h
    | cons p ps ih =>
      intro d x h
      have := ih _ _ (rep_write h p)
      simpa using this
  simpa using rep_sum64 (this _ _ rep_new)

theorem stableHashLoop_eq (b : Bytes) (ls : Labels) :
    stableHashLoop b ls = xxhash64 (b ++ serialise ls) := by
  induction ls generalizing b with
  | nil => simp [stableHashLoop, serialise]
  | cons l ls ih =>
    rw [stableHashLoop]
    split
    · have h := rep_stream (rep_write rep_new b) (l :: ls)
      simpa using rep_sum64 h
    · rw [ih]; simp [serialise]

theorem stableHashGo_eq (ls : Labels) : stableHashGo ls = stableHash ls := by
  simp [stableHashGo, stableHash, stableHashLoop_eq]

end Prom.StableHash
