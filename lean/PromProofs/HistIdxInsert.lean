import PromModel.Tsdb.HistLayout
import PromProofs.HistLayout
import PromProofs.HistIdx
/-
  `insert` (both variants) = `weave` of the positions the insert list stands for.
-/
namespace Prom.Hist

theorem weave_nil_right (i : Nat) (xs : List Int) : weave i xs [] = xs := by
  rw [weave]

theorem weave_nil_left (i : Nat) (P : List Nat) : weave i [] P = List.replicate P.length 0 := by
  induction P with
  | nil => rw [weave]; rfl
  | cons p P ih => rw [weave, ih]; simp [List.replicate_succ]

theorem weave_cons_eq (i : Nat) (x : Int) (xs : List Int) (P : List Nat) :
    weave i (x :: xs) (i :: P) = 0 :: weave i (x :: xs) P := by
  rw [weave]; simp

theorem weave_cons_ne (i p : Nat) (x : Int) (xs : List Int) (P : List Nat) (h : p ≠ i) :
    weave i (x :: xs) (p :: P) = x :: weave (i + 1) xs (p :: P) := by
  rw [weave]; simp [h]

theorem weave_replicate (i : Nat) (x : Int) (xs : List Int) (n : Nat) (P : List Nat) :
    weave i (x :: xs) (List.replicate n i ++ P) = List.replicate n 0 ++ weave i (x :: xs) P := by
  induction n with
  | zero => simp
  | succ n ih => simp [List.replicate_succ, weave_cons_eq, ih]

theorem weave_skip_hd (i : Nat) (x : Int) (xs : List Int) (Q : List Nat) (h : Q.head? ≠ some i) :
    weave i (x :: xs) Q = x :: weave (i + 1) xs Q := by
  cases Q with
  | nil => simp [weave_nil_right]
  | cons p P =>
    have hp : p ≠ i := by simpa using h
    exact weave_cons_ne i p x xs P hp

theorem weave_length (i : Nat) (xs : List Int) (P : List Nat) :
    (weave i xs P).length = xs.length + P.length := by
  induction xs generalizing i P with
  | nil => simp [weave_nil_left]
  | cons x xs ihx =>
    induction P with
    | nil => simp [weave_nil_right]
    | cons p P ihp =>
      by_cases hp : p = i
      · subst hp; rw [weave_cons_eq]; simp [ihp]; omega
      · rw [weave_cons_ne _ _ _ _ _ hp]; simp [ihx]; omega

theorem posOf_nil : posOf [] = [] := rfl

theorem posOf_cons (x : Insert) (r : List Insert) :
    posOf (x :: r) = List.replicate x.num x.pos ++ posOf r := by
  simp [posOf]

theorem AllPos_cons (x : Insert) (r : List Insert) : AllPos (x :: r) ↔ 0 < x.num ∧ AllPos r := by
  simp [AllPos]

theorem AllPos_nil : AllPos [] := by simp [AllPos]

/-- `takeAt` after the first emitted value: zeros, one per position `i` at the front of `posOf` -/
theorem takeAt_aux (dl : Bool) (v : Int) (i : Nat) (ins : List Insert) (hp : AllPos ins) :
    ∃ n, (takeAt dl v i false ins).1 = List.replicate n 0 ∧
      posOf ins = List.replicate n i ++ posOf (takeAt dl v i false ins).2 ∧
      AllPos (takeAt dl v i false ins).2 ∧
      (posOf (takeAt dl v i false ins).2).head? ≠ some i := by
  induction ins with
  | nil => exact ⟨0, by simp [takeAt, posOf_nil, AllPos_nil]⟩
  | cons x rest ih =>
    rw [AllPos_cons] at hp
    obtain ⟨hx0, hr⟩ := hp
    by_cases hx : x.pos = i
    · obtain ⟨n, h1, h2, h3, h4⟩ := ih hr
      refine ⟨x.num + n, ?_, ?_, ?_, ?_⟩
      · obtain ⟨k, hk⟩ : ∃ k, x.num = k + 1 := ⟨x.num - 1, by omega⟩
        simp [takeAt, hx, h1, hk, List.replicate_append_replicate]
        rw [show k + 1 + n = (k + n) + 1 by omega, List.replicate_succ]
      · simp only [takeAt, hx, if_true]
        rw [posOf_cons, hx, h2, ← List.append_assoc, List.replicate_append_replicate]
      · simpa [takeAt, hx] using h3
      · simpa [takeAt, hx] using h4
    · refine ⟨0, by simp [takeAt, hx], by simp [takeAt, hx], ?_, ?_⟩
      · simp [takeAt, hx, AllPos_cons, hx0, hr]
      · obtain ⟨k, hk⟩ : ∃ k, x.num = k + 1 := ⟨x.num - 1, by omega⟩
        simp [takeAt, hx, posOf_cons, hk, List.replicate_succ]

/-- `takeAt` when the head insert is at position `i` -/
theorem takeAt_head (dl : Bool) (v : Int) (i : Nat) (first : Bool) (x : Insert) (rest : List Insert)
    (hx : x.pos = i) (hp : AllPos (x :: rest)) :
    ∃ m, (takeAt dl v i first (x :: rest)).1 = (if dl && first then -v else 0) :: List.replicate m 0 ∧
      posOf (x :: rest) = List.replicate (m + 1) i ++ posOf (takeAt dl v i first (x :: rest)).2 ∧
      AllPos (takeAt dl v i first (x :: rest)).2 ∧
      (posOf (takeAt dl v i first (x :: rest)).2).head? ≠ some i := by
  rw [AllPos_cons] at hp
  obtain ⟨hx0, hr⟩ := hp
  obtain ⟨n, h1, h2, h3, h4⟩ := takeAt_aux dl v i rest hr
  obtain ⟨k, hk⟩ : ∃ k, x.num = k + 1 := ⟨x.num - 1, by omega⟩
  refine ⟨k + n, ?_, ?_, ?_, ?_⟩
  · simp [takeAt, hx, h1, hk, List.replicate_append_replicate]
  · simp only [takeAt, hx, if_true]
    rw [posOf_cons, hx, h2, ← List.append_assoc, List.replicate_append_replicate, hk]
    rw [show k + 1 + n = k + n + 1 by omega]
  · simpa [takeAt, hx] using h3
  · simpa [takeAt, hx] using h4

theorem leftover_abs_weave (len : Nat) (ins : List Insert) (v : Int) (out : List Int)
    (hp : AllPos ins) (h : leftover false len v ins = .ok out) :
    out = List.replicate (posOf ins).length 0 := by
  induction ins generalizing v out with
  | nil => simp [leftover] at h; subst h; simp [posOf_nil]
  | cons x r ih =>
    rw [AllPos_cons] at hp
    obtain ⟨hx0, hr⟩ := hp
    unfold leftover at h
    split at h
    · simp at h
    · cases hrec : leftover false len 0 r with
      | error e => simp [hrec] at h
      | ok tl =>
        simp [hrec] at h; subst h
        obtain ⟨k, hk⟩ : ∃ k, x.num = k + 1 := ⟨x.num - 1, by omega⟩
        rw [ih 0 tl hr hrec, posOf_cons, hk]
        simp [List.replicate_append_replicate]
        rw [show k + 1 + (posOf r).length = (k + (posOf r).length) + 1 by omega, List.replicate_succ]

theorem leftover_deltas_weave (len : Nat) (ins : List Insert) (v : Int) (out : List Int)
    (hp : AllPos ins) (h : leftover true len v ins = .ok out) :
    prefixFrom v out = List.replicate (posOf ins).length 0 := by
  induction ins generalizing v out with
  | nil => simp [leftover] at h; subst h; simp [posOf_nil, prefixFrom]
  | cons x r ih =>
    rw [AllPos_cons] at hp
    obtain ⟨hx0, hr⟩ := hp
    unfold leftover at h
    split at h
    · simp at h
    · cases hrec : leftover true len 0 r with
      | error e => simp [hrec] at h
      | ok tl =>
        simp [hrec] at h; subst h
        obtain ⟨k, hk⟩ : ∃ k, x.num = k + 1 := ⟨x.num - 1, by omega⟩
        have hv : v + -v = 0 := by omega
        simp only [prefixFrom, hv, prefixFrom_zeros, ih 0 tl hr hrec, posOf_cons, hk]
        simp [List.replicate_append_replicate]
        rw [show k + 1 + (posOf r).length = (k + (posOf r).length) + 1 by omega, List.replicate_succ]

/-- absolute variant of `insert` = `weave` -/
theorem insertLoop_abs_weave (len : Nat) (xs : List Int) (i : Nat) (v : Int) (ins : List Insert) (out : List Int)
    (hp : AllPos ins) (h : insertLoop false len i v xs ins = .ok out) : out = weave i xs (posOf ins) := by
  induction xs generalizing i v ins out with
  | nil =>
    simp only [insertLoop] at h
    rw [leftover_abs_weave len ins v out hp h, weave_nil_left]
  | cons d rest ih =>
    unfold insertLoop at h
    split at h
    · cases hrec : insertLoop false len (i + 1) (v + d) rest [] with
      | error e => simp [hrec] at h
      | ok tl =>
        simp [hrec] at h; subst h
        have := ih _ _ _ _ AllPos_nil hrec
        simp [posOf_nil, weave_nil_right] at this ⊢
        exact this
    · rename_i x xr
      by_cases hx : x.pos = i
      · simp only [hx, ne_eq, not_true_eq_false, if_false] at h
        cases hrec : insertLoop false len (i + 1) (v + d) rest (takeAt false v i true (x :: xr)).snd with
        | error e => simp [hrec] at h
        | ok tl =>
          simp [hrec] at h; subst h
          obtain ⟨m, h1, h2, h3, h4⟩ := takeAt_head false v i true x xr hx hp
          have := ih _ _ _ _ h3 hrec
          rw [h2, weave_replicate, weave_skip_hd _ _ _ _ h4, ← this, h1]
          simp [List.replicate_succ]
      · simp only [ne_eq, hx, not_false_eq_true, if_true] at h
        cases hrec : insertLoop false len (i + 1) (v + d) rest (x :: xr) with
        | error e => simp [hrec] at h
        | ok tl =>
          simp [hrec] at h; subst h
          have := ih _ _ _ _ hp hrec
          have hh : (posOf (x :: xr)).head? ≠ some i := by
            obtain ⟨k, hk⟩ : ∃ k, x.num = k + 1 := ⟨x.num - 1, by have := (AllPos_cons x xr).1 hp; omega⟩
            simp [posOf_cons, hk, List.replicate_succ, hx]
          rw [weave_skip_hd _ _ _ _ hh, ← this]

/-- delta variant of `insert`: the running sums of the output = `weave` of the running sums -/
theorem insertLoop_deltas_weave (len : Nat) (xs : List Int) (i : Nat) (v : Int) (ins : List Insert) (out : List Int)
    (hp : AllPos ins) (h : insertLoop true len i v xs ins = .ok out) :
    prefixFrom v out = weave i (prefixFrom v xs) (posOf ins) := by
  induction xs generalizing i v ins out with
  | nil =>
    simp only [insertLoop] at h
    rw [leftover_deltas_weave len ins v out hp h, prefixFrom, weave_nil_left]
  | cons d rest ih =>
    unfold insertLoop at h
    split at h
    · cases hrec : insertLoop true len (i + 1) (v + d) rest [] with
      | error e => simp [hrec] at h
      | ok tl =>
        simp [hrec] at h; subst h
        have := ih _ _ _ _ AllPos_nil hrec
        simp [posOf_nil, weave_nil_right, prefixFrom] at this ⊢
        exact this
    · rename_i x xr
      by_cases hx : x.pos = i
      · simp only [hx, ne_eq, not_true_eq_false, if_false] at h
        cases hrec : insertLoop true len (i + 1) (v + d) rest (takeAt true v i true (x :: xr)).snd with
        | error e => simp [hrec] at h
        | ok tl =>
          simp [hrec] at h; subst h
          obtain ⟨m, h1, h2, h3, h4⟩ := takeAt_head true v i true x xr hx hp
          have := ih _ _ _ _ h3 hrec
          have hv : v + -v = 0 := by omega
          have hdv : (0 : Int) + (d + v) = v + d := by omega
          rw [h2, prefixFrom, weave_replicate, weave_skip_hd _ _ _ _ h4, ← this, h1]
          simp only [Bool.and_self, if_true, List.cons_append, prefixFrom, hv, prefixFrom_zeros, hdv]
          simp [List.replicate_succ]
      · simp only [ne_eq, hx, not_false_eq_true, if_true] at h
        cases hrec : insertLoop true len (i + 1) (v + d) rest (x :: xr) with
        | error e => simp [hrec] at h
        | ok tl =>
          simp [hrec] at h; subst h
          have := ih _ _ _ _ hp hrec
          have hh : (posOf (x :: xr)).head? ≠ some i := by
            obtain ⟨k, hk⟩ : ∃ k, x.num = k + 1 := ⟨x.num - 1, by have := (AllPos_cons x xr).1 hp; omega⟩
            simp [posOf_cons, hk, List.replicate_succ, hx]
          rw [prefixFrom, prefixFrom, weave_skip_hd _ _ _ _ hh, ← this]

end Prom.Hist
