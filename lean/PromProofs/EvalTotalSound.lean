import PromModel.Promql.EvalTotal
/-
  C33 — helper lemmas for type soundness of `Prom.EvalTotal.evalT`.
  `NoInt r` : the computation `r` does not end in `EvalErr.internal`.
  `Safe τ r` : `NoInt r`, and a successful result has value type `τ`.
-/
namespace Prom.EvalTotal
open Prom.Promql (VT FuncSig functionTable)
open Prom.RangeEval (AtMod Cfg refTime multiplesIn subStep)

variable {ν : Type}

def NoInt {α} : Except EvalErr α → Prop
  | .ok _ => True
  | .error e => e ≠ .internal

def Safe (τ : VT) : Except EvalErr (Value ν) → Prop
  | .ok v => v.vt = τ
  | .error e => e ≠ .internal

theorem NoInt.bind {α β} {r : Except EvalErr α} {f : α → Except EvalErr β}
    (h1 : NoInt r) (h2 : ∀ a, r = .ok a → NoInt (f a)) : NoInt (r >>= f) := by
  cases r with
  | error e => exact h1
  | ok a => exact h2 a rfl

theorem NoInt.map {α β} {r : Except EvalErr α} (g : α → β) (h : NoInt r) : NoInt (r.map g) := by
  cases r with
  | error e => exact h
  | ok a => trivial

theorem Safe.of_bind {α} {τ : VT} {r : Except EvalErr α} {f : α → Except EvalErr (Value ν)}
    (h1 : NoInt r) (h2 : ∀ a, r = .ok a → Safe τ (f a)) : Safe τ (r >>= f) := by
  cases r with
  | error e => exact h1
  | ok a => exact h2 a rfl

theorem Safe.of_map {α} {τ : VT} {r : Except EvalErr α} (g : α → Value ν)
    (h : NoInt r) (hg : ∀ a, (g a).vt = τ) : Safe τ (r.map g) := by
  cases r with
  | error e => exact h
  | ok a => exact hg a

theorem Safe.noInt {τ : VT} {r : Except EvalErr (Value ν)} (h : Safe τ r) : NoInt r := by
  cases r with
  | error e => exact h
  | ok a => trivial

theorem liftU_noInt {α} (r : Except String α) : NoInt (liftU r) := by
  cases r <;> simp [liftU, NoInt]

theorem checkDup_noInt (out : List (Sample ν)) : NoInt (checkDup out) := by
  unfold checkDup; split <;> simp [NoInt]

theorem mapE_noInt {α β} (f : α → Except EvalErr β) (l : List α) (h : ∀ a ∈ l, NoInt (f a)) :
    NoInt (mapE f l) := by
  induction l with
  | nil => simp [mapE, NoInt]
  | cons a as ih =>
    have ha := h a (by simp)
    have ih' := ih (fun x hx => h x (by simp [hx]))
    unfold mapE
    cases hfa : f a with
    | error e => simpa [hfa, NoInt] using ha
    | ok b =>
      cases hr : mapE f as with
      | error e => simpa [hr, NoInt] using ih'
      | ok bs => simp [NoInt]

theorem filterMapE_noInt {α β} (f : α → Except EvalErr (Option β)) (l : List α) (h : ∀ a ∈ l, NoInt (f a)) :
    NoInt (filterMapE f l) := by
  induction l with
  | nil => simp [filterMapE, NoInt]
  | cons a as ih =>
    have ha := h a (by simp)
    have ih' := ih (fun x hx => h x (by simp [hx]))
    unfold filterMapE
    cases hfa : f a with
    | error e => simpa [hfa, NoInt] using ha
    | ok b =>
      cases hr : filterMapE f as with
      | error e => simpa [hr, NoInt] using ih'
      | ok bs => simp [NoInt]

theorem foldlE_noInt {α σ} (f : σ → α → Except EvalErr σ) (l : List α) (h : ∀ s, ∀ a ∈ l, NoInt (f s a)) :
    ∀ s, NoInt (foldlE f s l) := by
  induction l with
  | nil => intro s; simp [foldlE, NoInt]
  | cons a as ih =>
    intro s
    have ha := h s a (by simp)
    unfold foldlE
    cases hfa : f s a with
    | error e => simpa [hfa, NoInt] using ha
    | ok s' => exact ih (fun s x hx => h s x (by simp [hx])) s'

/-! ### node-level lemmas -/

variable (K : Kernel ν)

theorem evalNeg_safe_scalar (v : Value ν) (h : v.vt = .scalar) : Safe .scalar (evalNeg K v) := by
  cases v <;> simp [Value.vt] at h
  simp [evalNeg, Safe, Value.vt]

theorem evalNeg_safe_vector (v : Value ν) (h : v.vt = .vector) : Safe .vector (evalNeg K v) := by
  cases v <;> simp [Value.vt] at h
  unfold evalNeg
  exact Safe.of_map _ (checkDup_noInt _) (fun _ => rfl)

theorem asVector_noInt (v : Value ν) (h : v.vt = .scalar ∨ v.vt = .vector) : NoInt (asVector v) := by
  cases v <;> simp [Value.vt] at h <;> simp [asVector, NoInt]

theorem vecScalar_noInt (op : BinOp) (b swap : Bool) (v : List (Sample ν)) (s : ν) :
    NoInt (vecScalar K op b swap v s) := by
  unfold vecScalar
  apply NoInt.bind
  · apply filterMapE_noInt
    intro e _
    apply NoInt.bind (liftU_noInt _)
    intro r _
    cases r with
    | none => simp [NoInt, pure, Except.pure]
    | some p =>
      obtain ⟨val, keep⟩ := p
      simp only []
      split
      · simp [NoInt, pure, Except.pure]
      · split <;> simp [NoInt, pure, Except.pure]
  · intro out _; exact checkDup_noInt _

theorem doBinOp_noInt (op : BinOp) (b : Bool) (vm : VM) (st : BinState ν) (ls rs : Sample ν) (sig : Labels) :
    NoInt (doBinOp K op b vm st ls rs sig) := by
  unfold doBinOp
  apply NoInt.bind (liftU_noInt _)
  intro r _
  cases r with
  | none => simp [NoInt, pure, Except.pure]
  | some p =>
    obtain ⟨val, keep⟩ := p
    simp only []
    split
    · simp [NoInt]
    · split
      · simp [NoInt]
      · split <;> simp [NoInt, pure, Except.pure]

theorem buildRightSigs_noInt (sigf : Labels → Labels) (rhs : List (Sample ν)) :
    ∀ acc, NoInt (buildRightSigs sigf rhs acc) := by
  induction rhs with
  | nil => intro acc; simp [buildRightSigs, NoInt]
  | cons r rest ih =>
    intro acc
    unfold buildRightSigs
    simp only []
    split
    · simp [NoInt]
    · exact ih _

theorem vecVecCore_noInt (op : BinOp) (b : Bool) (vm : VM) (lhs rhs : List (Sample ν)) (fillL fillR : Option UInt64) :
    NoInt (vecVecCore K op b vm lhs rhs fillL fillR) := by
  unfold vecVecCore
  apply NoInt.bind (buildRightSigs_noInt _ _ _)
  intro rightSigs _
  apply NoInt.bind
  · unfold vvLeft
    apply foldlE_noInt
    intro s a _
    split
    · exact doBinOp_noInt K ..
    · split
      · simp [NoInt]
      · exact doBinOp_noInt K ..
  · intro st _
    apply NoInt.bind
    · unfold vvRight
      split
      · simp [NoInt]
      · apply foldlE_noInt
        intro s a _
        split
        · simp [NoInt]
        · exact doBinOp_noInt K ..
    · intro st _; exact checkDup_noInt _

theorem vecVec_noInt (op : BinOp) (b : Bool) (vm : VM) (lhs rhs : List (Sample ν)) :
    NoInt (vecVec K op b vm lhs rhs) := by
  unfold vecVec
  split
  · simp [NoInt]
  · split <;> exact vecVecCore_noInt K ..

theorem vecSet_noInt (op : BinOp) (vm : VM) (l r : List (Sample ν)) (h : op.isSet = true) :
    NoInt (vecSet op vm l r) := by
  cases op <;> simp [BinOp.isSet] at h <;> simp only [vecSet] <;> exact checkDup_noInt _

theorem evalAgg_noInt (op : AggOp) (wo : Bool) (ls : List String) (pv : Option ν) (ps : Option String)
    (v : List (Sample ν))
    (h1 : op.paramKind = .scalar → pv.isSome) (h2 : op.paramKind = .string → ps.isSome) :
    NoInt (evalAgg K op wo ls pv ps v) := by
  cases op <;> simp [AggOp.paramKind] at h1 h2 <;> simp only [evalAgg]
  all_goals first
    | (simp [NoInt, pure, Except.pure]; done)
    | (obtain ⟨p, rfl⟩ := Option.isSome_iff_exists.mp h1
       simp only []
       first
         | (simp [NoInt, pure, Except.pure]; done)
         | (apply NoInt.bind (liftU_noInt _)
            intro k _
            first
              | (split <;> simp [NoInt, pure, Except.pure]; done)
              | (simp [NoInt, pure, Except.pure]; done)))
    | (obtain ⟨p, rfl⟩ := Option.isSome_iff_exists.mp h2
       simp only []
       split <;> simp [NoInt, pure, Except.pure])


theorem binType_ret {op : BinOp} {b : Bool} {vm : VM} {lt rt τ : VT} (h : binType op b vm lt rt = some τ) :
    τ = .scalar ∨ τ = .vector := by
  unfold binType at h
  repeat' split at h
  all_goals simp at h
  all_goals simp [← h]

theorem evalBin_safe (op : BinOp) (b : Bool) (vm : VM) (lv rv : Value ν) (τ : VT)
    (h : binType op b vm lv.vt rv.vt = some τ) : Safe τ (evalBin K op b vm lv rv) := by
  cases lv <;> cases rv <;> simp [binType, Value.vt] at h <;> unfold evalBin
  · -- scalar, scalar
    obtain ⟨h1, h2, h3, h4, h5⟩ := h
    simp [h4.1, Safe, Value.vt, h5]
  · -- scalar, vector
    obtain ⟨h1, h2, h3, h4⟩ := h
    simp only [h3.1.1.1.1]
    rw [← h4]
    exact Safe.of_map _ (vecScalar_noInt K ..) (fun _ => rfl)
  · -- vector, scalar
    obtain ⟨h1, h2, h3, h4⟩ := h
    simp only [h3.1.1.1.1]
    rw [← h4]
    exact Safe.of_map _ (vecScalar_noInt K ..) (fun _ => rfl)
  · -- vector, vector
    obtain ⟨h1, h2, h3⟩ := h
    simp only []
    by_cases hs : op.isSet = true
    · rw [if_pos hs] at h3 ⊢
      by_cases hc : (vm.card = Card.manyToMany ∧ vm.fillL = none) ∧ vm.fillR = none
      · rw [if_pos hc] at h3
        have hτ : τ = .vector := by simpa using h3.symm
        subst hτ
        have : (vm.card != Card.manyToMany) = false := by simp [hc.1.1]
        simp only [this]
        exact Safe.of_map _ (vecSet_noInt _ _ _ _ hs) (fun _ => rfl)
      · rw [if_neg hc] at h3; simp at h3
    · rw [if_neg hs] at h3 ⊢
      by_cases hc : vm.card = Card.manyToMany
      · rw [if_pos hc] at h3; simp at h3
      · rw [if_neg hc] at h3
        have hτ : τ = .vector := by simpa using h3.symm
        subst hτ
        have : (vm.card == Card.manyToMany) = false := by simp [hc]
        simp only [this]
        exact Safe.of_map _ (vecVec_noInt K ..) (fun _ => rfl)

theorem table_ret : ∀ s ∈ functionTable, s.ret = .scalar ∨ s.ret = .vector := by
  simp [functionTable]

theorem sigOf_ret {fn : String} {sig : FuncSig} (h : sigOf fn = some sig) : sig.ret = .scalar ∨ sig.ret = .vector :=
  table_ret sig (List.mem_of_find?_eq_some h)

theorem applyFn_safe (sig : FuncSig) (fn : String) (args : List Expr) (vals : List (Value ν)) (t : Int)
    (hret : sig.ret = .scalar ∨ sig.ret = .vector) (hstr : strLits args vals ≠ none) :
    Safe sig.ret (applyFn K sig fn args vals t) := by
  unfold applyFn
  rcases hret with hr | hr <;> rw [hr] <;> simp only []
  · split <;> simp [Safe, Value.vt]
  · split
    · -- range-vector function
      apply Safe.of_bind
      · apply filterMapE_noInt
        intro ser _
        apply NoInt.bind (liftU_noInt _)
        intro r _
        simp [NoInt, pure, Except.pure]
      · intro out _
        split
        · simp [Safe, Value.vt, pure, Except.pure]
        · exact Safe.of_map _ (checkDup_noInt _) (fun _ => rfl)
    · split
      · exact absurd ‹_› hstr
      · split
        · simp [Safe, Value.vt]
        · simp [Safe, Value.vt]
        · split
          · exact Safe.of_map _ (checkDup_noInt _) (fun _ => rfl)
          · apply Safe.of_bind (liftU_noInt _)
            intro out _
            exact Safe.of_map _ (checkDup_noInt _) (fun _ => rfl)

end Prom.EvalTotal
