import PromProofs.PromqlQuote
import PromModel.Promql.Lexer
/-
  Property C26, lexical layer: the PromQL lexer reads back what `strconv.Quote` printed.

  `lexStringTok 34`, positioned just after the opening double quote, consumes exactly
  `quoteBody s ++ "\""` and returns the whole quoted text as a STRING token, provided `s` holds no
  validly encoded U+FFFD (the Go lexer rejects a literal `utf8.RuneError`).

  Route: every chunk `c` that `quoteBody` emits is consumed by exactly one step of `lexStringBody`
  which pushes `c.reverse` on the accumulator (`LexStep`); induction over the fuel of `quoteBody`.
-/
namespace Prom.Promql

/-- the string contains a validly encoded U+FFFD (bytes EF BF BD) -/
def hasRC : Bytes → Bool
  | 0xEF :: 0xBF :: 0xBD :: _ => true
  | _ :: rest => hasRC rest
  | [] => false

theorem hasRC_tail (b : UInt8) (rest : Bytes) (h : hasRC (b :: rest) = false) : hasRC rest = false := by
  unfold hasRC at h
  split at h
  · exact absurd h (by decide)
  · rename_i heq
    cases heq
    exact h
  · rename_i heq
    cases heq

theorem hasRC_drop : ∀ (w : Nat) (s : Bytes), hasRC s = false → hasRC (s.drop w) = false := by
  intro w
  induction w with
  | zero => intro s h; simpa using h
  | succ w ih =>
    intro s h
    cases s with
    | nil => simpa using h
    | cons b rest => simpa using ih rest (hasRC_tail b rest h)

theorem hasRC_head (t : Bytes) : hasRC (0xEF :: 0xBF :: 0xBD :: t) = true := by
  simp [hasRC]

/-! ### escapes -/

theorem bs_escset : bs "abfnrtv\\" = [97, 98, 102, 110, 114, 116, 118, 92] := by with_unfolding_all rfl

theorem hexN_length (n r : Nat) : (hexN n r).length = n := by simp [hexN]

theorem take_hexN (n r : Nat) (t : Bytes) : (hexN n r ++ t).take n = hexN n r := by
  have := hexN_length n r
  rw [List.take_append_of_le_length (by omega), List.take_of_length_le (by omega)]

theorem lexEscape_simple (c : UInt8) (hc : c ∈ [97, 98, 102, 110, 114, 116, 118, 92, 34]) (acc t : Bytes) :
    lexEscape 34 acc (c :: t) = some (c :: acc, t) := by
  have : (inSet (bs "abfnrtv\\") c || c == 34) = true := by
    rw [bs_escset]
    simp only [List.mem_cons, List.not_mem_nil, or_false] at hc
    rcases hc with h | h | h | h | h | h | h | h | h <;> subst h <;> decide
  simp only [lexEscape, this, if_true]

theorem lexEscape_x (n : Nat) (acc t : Bytes) :
    lexEscape 34 acc (120 :: (hexN 2 n ++ t)) = some ((hexN 2 n).reverse ++ 120 :: acc, t) := by
  have h1 : (inSet (bs "abfnrtv\\") 120 || (120 : UInt8) == 34) = false := by rw [bs_escset]; decide
  have h2 : (decide ((48 : UInt8) ≤ 120) && decide ((120 : UInt8) ≤ 55)) = false := by decide
  simp only [lexEscape, h1, h2, Bool.false_eq_true, if_false, beq_self_eq_true, if_true,
    hexRun_hexN, take_hexN]

theorem lexEscape_u (v : Nat) (hs : ¬(0xD800 ≤ v ∧ v < 0xE000)) (hv : v < 0x10000) (acc t : Bytes) :
    lexEscape 34 acc (117 :: (hexN 4 v ++ t)) = some ((hexN 4 v).reverse ++ 117 :: acc, t) := by
  have h1 : (inSet (bs "abfnrtv\\") 117 || (117 : UInt8) == 34) = false := by rw [bs_escset]; decide
  have h2 : (decide ((48 : UInt8) ≤ 117) && decide ((117 : UInt8) ≤ 55)) = false := by decide
  have h3 : ((117 : UInt8) == 120) = false := by decide
  have hm : v % 16 ^ 4 = v := Nat.mod_eq_of_lt (by omega)
  have h4 : (decide (0xD800 ≤ v) && decide (v < 0xE000)) = false := by simp; omega
  simp only [lexEscape, h1, h2, h3, Bool.false_eq_true, if_false, beq_self_eq_true, if_true,
    hexRun_hexN, take_hexN, hm, h4]

theorem lexEscape_U (v : Nat) (hs : ¬(0xD800 ≤ v ∧ v < 0xE000)) (hv : v ≤ 0x10FFFF) (acc t : Bytes) :
    lexEscape 34 acc (85 :: (hexN 8 v ++ t)) = some ((hexN 8 v).reverse ++ 85 :: acc, t) := by
  have h1 : (inSet (bs "abfnrtv\\") 85 || (85 : UInt8) == 34) = false := by rw [bs_escset]; decide
  have h2 : (decide ((48 : UInt8) ≤ 85) && decide ((85 : UInt8) ≤ 55)) = false := by decide
  have h3 : ((85 : UInt8) == 120) = false := by decide
  have h3' : ((85 : UInt8) == 117) = false := by decide
  have hm : v % 16 ^ 8 = v := Nat.mod_eq_of_lt (by omega)
  have h4 : (decide (v > 0x10FFFF) || (decide (0xD800 ≤ v) && decide (v < 0xE000))) = false := by simp; omega
  simp only [lexEscape, h1, h2, h3, h3', Bool.false_eq_true, if_false, beq_self_eq_true, if_true,
    hexRun_hexN, take_hexN, hm, h4]

/-- One chunk `c` is consumed by exactly one step of `lexStringBody 34`, pushing `c.reverse`. -/
structure LexStep (c : Bytes) : Prop where
  ne : c ≠ []
  step : ∀ fuel acc t, lexStringBody 34 (fuel + 1) acc (c ++ t) = lexStringBody 34 fuel (c.reverse ++ acc) t

theorem lexStep_esc (e : Bytes)
    (h : ∀ acc t, lexEscape 34 acc (e ++ t) = some (e.reverse ++ acc, t)) : LexStep (92 :: e) := by
  refine ⟨by simp, fun fuel acc t => ?_⟩
  simp only [List.cons_append, lexStringBody, beq_self_eq_true, if_true, h]
  simp

theorem lexStep_hex2 (n : Nat) : LexStep (92 :: 120 :: hexN 2 n) :=
  lexStep_esc (120 :: hexN 2 n) (fun acc t => by simp [lexEscape_x])

theorem lexStep_simple (c : UInt8) (hc : c ∈ [97, 98, 102, 110, 114, 116, 118, 92, 34]) : LexStep [92, c] :=
  lexStep_esc [c] (fun acc t => by simp [lexEscape_simple c hc])

theorem lexStep_ascii (b0 : UInt8) (h : b0.toNat < 0x80) : LexStep (escapeRune b0.toNat) := by
  generalize hr : b0.toNat = r at h
  have hb := u8_of_toNat b0 r hr
  subst hb
  by_cases h1 : r = 34
  · subst h1; exact lexStep_simple 34 (by decide)
  by_cases h2 : r = 92
  · subst h2; exact lexStep_simple 92 (by decide)
  by_cases hp : isPrintRune r = true
  · have e : escapeRune r = [UInt8.ofNat r] := by
      simp [escapeRune, h1, h2, hp, enc1 r h]
    have hp' : 0x20 ≤ r ∧ r < 0x7F := by simpa [isPrintRune, h] using hp
    rw [e]
    refine ⟨by simp, fun fuel acc t => ?_⟩
    have a0 : (UInt8.ofNat r == 92) = false := by
      simp [← UInt8.toNat_inj]; omega
    have a1 : (UInt8.ofNat r == 10) = false := by
      simp [← UInt8.toNat_inj]; omega
    have a2 : (UInt8.ofNat r == 34) = false := by
      simp [← UInt8.toNat_inj]; omega
    have a3 : UInt8.ofNat r < 0x80 := by
      simp [UInt8.lt_iff_toNat_lt]; omega
    simp [lexStringBody, a0, a1, a2, a3]
  have hp' : r < 0x20 ∨ r = 0x7F := by
    simp [isPrintRune, h] at hp; omega
  by_cases h7 : r = 7
  · subst h7
    have e : escapeRune 7 = [92, 97] := by simp [escapeRune, isPrintRune, bs_a]
    rw [e]; exact lexStep_simple 97 (by decide)
  by_cases h8 : r = 8
  · subst h8
    have e : escapeRune 8 = [92, 98] := by simp [escapeRune, isPrintRune, bs_b]
    rw [e]; exact lexStep_simple 98 (by decide)
  by_cases h12 : r = 12
  · subst h12
    have e : escapeRune 12 = [92, 102] := by simp [escapeRune, isPrintRune, bs_f]
    rw [e]; exact lexStep_simple 102 (by decide)
  by_cases h10 : r = 10
  · subst h10
    have e : escapeRune 10 = [92, 110] := by simp [escapeRune, isPrintRune, bs_n]
    rw [e]; exact lexStep_simple 110 (by decide)
  by_cases h13 : r = 13
  · subst h13
    have e : escapeRune 13 = [92, 114] := by simp [escapeRune, isPrintRune, bs_r]
    rw [e]; exact lexStep_simple 114 (by decide)
  by_cases h9 : r = 9
  · subst h9
    have e : escapeRune 9 = [92, 116] := by simp [escapeRune, isPrintRune, bs_t]
    rw [e]; exact lexStep_simple 116 (by decide)
  by_cases h11 : r = 11
  · subst h11
    have e : escapeRune 11 = [92, 118] := by simp [escapeRune, isPrintRune, bs_v]
    rw [e]; exact lexStep_simple 118 (by decide)
  have hx : (decide (r < 0x20) || r == 0x7F) = true := by simp; omega
  have e : escapeRune r = 92 :: 120 :: hexN 2 r := by
    simp [escapeRune, h1, h2, hp, h7, h8, h12, h10, h13, h9, h11, hx]
  rw [e]; exact lexStep_hex2 r

theorem lexStep_high {s : Bytes} {r w : Nat} (h : Dec s r w) (hr : 0x80 ≤ r) (hrc : r ≠ 0xFFFD) :
    LexStep (escapeRune r) := by
  obtain ⟨hmax, hsur, hw1, hwl⟩ := h.range
  have h1 : (r == 34 || r == 92) = false := by simp; omega
  by_cases hp : isPrintRune r = true
  · have e : escapeRune r = s.take w := by
      simp [escapeRune, h1, hp, h.encode]
    rw [e]
    have hlen : (s.take w).length = w := by simp; omega
    refine ⟨fun h0 => by rw [h0] at hlen; simp at hlen; omega, fun fuel acc t => ?_⟩
    have hd := h.decode_take t
    have hh := h.high hr
    cases hs : s.take w with
    | nil => simp [hs] at hlen; omega
    | cons c tl =>
      have hc : 0x80 ≤ c.toNat := hh c (by simp [hs])
      rw [hs] at hd hlen
      have a0 : (c == 92) = false := by
        simp [← UInt8.toNat_inj]; omega
      have a1 : (c == 10) = false := by
        simp [← UInt8.toNat_inj]; omega
      have a2 : (c == 34) = false := by
        simp [← UInt8.toNat_inj]; omega
      have a3 : ¬ (c < 0x80) := by
        simp [UInt8.lt_iff_toNat_lt]; omega
      have hdrop : List.drop w (c :: (tl ++ t)) = t := by
        have : c :: (tl ++ t) = (c :: tl) ++ t := rfl
        rw [this, ← hlen, List.drop_left]
      have htake : List.take w (c :: (tl ++ t)) = c :: tl := by
        have : c :: (tl ++ t) = (c :: tl) ++ t := rfl
        rw [this, ← hlen, List.take_left]
      have a4 : (r == 0xFFFD) = false := by simp; exact hrc
      simp only [List.cons_append] at hd
      simp only [lexStringBody, List.cons_append, a0, a1, a2, a3, Bool.false_eq_true, if_false, hd, a4,
        hdrop, htake]
  · have hx : (decide (r < 0x20) || r == 0x7F) = false := by simp; omega
    have hs' : ((decide (0xD800 ≤ r) && decide (r < 0xE000)) || decide (r > 0x10FFFF)) = false := by simp; omega
    have hne : r ≠ 7 ∧ r ≠ 8 ∧ r ≠ 12 ∧ r ≠ 10 ∧ r ≠ 13 ∧ r ≠ 9 ∧ r ≠ 11 := by omega
    by_cases h4 : r < 0x10000
    · have e : escapeRune r = 92 :: 117 :: hexN 4 r := by
        simp [escapeRune, h1, hp, hx, hs', hne, h4]
      rw [e]
      exact lexStep_esc (117 :: hexN 4 r) (fun acc t => by simp [lexEscape_u r hsur h4])
    · have e : escapeRune r = 92 :: 85 :: hexN 8 r := by
        simp [escapeRune, h1, hp, hx, hs', hne, h4]
      rw [e]
      exact lexStep_esc (85 :: hexN 8 r) (fun acc t => by simp [lexEscape_U r hsur hmax])

/-- A rune that decodes validly to U+FFFD is the byte sequence EF BF BD. -/
theorem Dec.hasRC_of_fffd {s : Bytes} {r w : Nat} (h : Dec s r w) (hr : r = 0xFFFD) : hasRC s = true := by
  cases h with
  | ascii b0 rest h => omega
  | two b0 b1 rest h1 h2 h3 h4 => omega
  | three b0 b1 b2 rest h1 h2 h3 h4 h5 h6 h7 h8 =>
    have e0 : b0 = 0xEF := by
      rw [← UInt8.toNat_inj]; simp only [UInt8.toNat_ofNat]; omega
    have e1 : b1 = 0xBF := by
      rw [← UInt8.toNat_inj]; simp only [UInt8.toNat_ofNat]; omega
    have e2 : b2 = 0xBD := by
      rw [← UInt8.toNat_inj]; simp only [UInt8.toNat_ofNat]; omega
    subst e0; subst e1; subst e2
    exact hasRC_head rest
  | four b0 b1 b2 b3 rest h1 h2 h3 h4 h5 h6 h7 h8 h9 h10 => omega

theorem lexStep_chunk (b0 : UInt8) (rest : Bytes) (hrc : hasRC (b0 :: rest) = false) :
    LexStep (chunkOf b0 (decodeRune (b0 :: rest))) := by
  refine decodeRune_ind b0 rest (fun p => LexStep (chunkOf b0 p)) ?_ ?_
  · simpa [chunkOf] using lexStep_hex2 b0.toNat
  · intro r w h
    have hne : (w == 1 && r == 0xFFFD) = false := by
      cases h <;> simp <;> omega
    have hr' : r ≠ 0xFFFD := by
      intro e
      have := h.hasRC_of_fffd e
      rw [hrc] at this
      exact absurd this (by decide)
    simp only [chunkOf, hne, Bool.false_eq_true, if_false]
    by_cases hr : r < 0x80
    · obtain ⟨c0, rest', hs, hc, hw⟩ := h.ascii_inv hr
      cases hs; subst hw; subst hc
      exact lexStep_ascii b0 hr
    · exact lexStep_high h (by omega) hr'

theorem lexStringBody_quoteBody (rest : Bytes) : ∀ (f : Nat) (s : Bytes), s.length ≤ f → hasRC s = false →
    ∀ fuel acc, (quoteBody f s).length + 1 ≤ fuel →
      lexStringBody 34 fuel acc (quoteBody f s ++ 34 :: rest) =
        some ((34 :: ((quoteBody f s).reverse ++ acc)).reverse, rest) := by
  have hend : ∀ fuel acc, 1 ≤ fuel →
      lexStringBody 34 fuel acc (34 :: rest) = some ((34 :: acc).reverse, rest) := by
    intro fuel acc hf
    cases fuel with
    | zero => omega
    | succ fuel =>
      have a0 : ((34 : UInt8) == 92) = false := by decide
      have a1 : ((34 : UInt8) == 10) = false := by decide
      simp only [lexStringBody, a0, a1, Bool.false_eq_true, if_false, beq_self_eq_true, if_true]
  intro f
  induction f with
  | zero =>
    intro s hs _ fuel acc hf
    simpa [quoteBody] using hend fuel acc (by simpa [quoteBody] using hf)
  | succ f ih =>
    intro s hs hrc fuel acc hf
    cases s with
    | nil => simpa [quoteBody] using hend fuel acc (by simpa [quoteBody] using hf)
    | cons b0 tl =>
      obtain ⟨_, hw⟩ := chunk_step b0 tl
      have hc := lexStep_chunk b0 tl hrc
      rw [quoteBody_step] at hf ⊢
      generalize hcd : chunkOf b0 (decodeRune (b0 :: tl)) = c at hc hf ⊢
      generalize hwd : (decodeRune (b0 :: tl)).2 = w at hw hf ⊢
      have hclen : 1 ≤ c.length := by
        cases c with
        | nil => exact absurd rfl hc.ne
        | cons _ _ => simp
      simp only [List.length_append] at hf
      cases fuel with
      | zero => omega
      | succ fuel =>
        have hdl : ((b0 :: tl).drop w).length ≤ f := by
          rw [List.length_drop]; simp only [List.length_cons] at hs ⊢; omega
        have hrec := ih ((b0 :: tl).drop w) hdl (hasRC_drop w _ hrc) fuel (c.reverse ++ acc) (by omega)
        rw [List.append_assoc, hc.step, hrec]
        simp

/-- The lexer, positioned just after the opening double quote, consumes exactly the text
    `strconv.Quote` printed and returns it (with both quotes) as a STRING token. -/
theorem lexStringTok_quote (s rest : Bytes) (h : hasRC s = false) :
    lexStringTok 34 (quoteBody s.length s ++ 34 :: rest) = some (.string (quote s), rest) := by
  have hb := lexStringBody_quoteBody rest s.length s (Nat.le_refl _) h
    ((quoteBody s.length s ++ 34 :: rest).length + 1) [34]
    (by simp only [List.length_append, List.length_cons]; omega)
  have hq : ((34 : UInt8) == 96) = false := by decide
  simp only [lexStringTok, hq, Bool.false_eq_true, if_false, hb, Option.map_some, quote]
  simp

end Prom.Promql
