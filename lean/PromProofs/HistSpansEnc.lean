import PromProofs.HistIdxBoth
import PromProofs.HistSide
import PromModel.Prelude.Bits
/-
  C11 stage 2: the span lists built by `adjustForInserts` / `expandSpansBothWays` (`addBucket`) consist of
  non-empty spans; with bounded, strictly increasing bucket indices such span lists fit the chunk layout
  encoding (offsets and lengths far inside 64 bits).
-/
namespace Prom.Hist

theorem MS.add_lenPos (m : MS) (b : Int) (h : LenPos m.rev) : LenPos (m.add b).rev := by
  unfold MS.add
  cases hr : m.rev with
  | nil => intro s hs; simp at hs; subst hs; simp
  | cons s0 r =>
    rw [hr] at h
    simp only
    split
    · intro s hs
      simp only [List.mem_cons] at hs
      rcases hs with rfl | hs
      · simp
      · exact h s (by simp [hs])
    · intro s hs
      simp only [List.mem_cons] at hs
      rcases hs with rfl | rfl | hs
      · simp
      · exact h _ (by simp)
      · exact h s (by simp [hs])

theorem adjGo_lenPos (B I : List Int) (m : MS) (h : LenPos m.rev) : LenPos (adjGo B I m).rev := by
  fun_induction adjGo B I m with
  | case1 b bs i is m hlt ih => exact ih (MS.add_lenPos m i h)
  | case2 b bs i is m hlt ih => exact ih (MS.add_lenPos m b h)
  | case3 b bs m ih => exact ih (MS.add_lenPos m b h)
  | case4 i is m ih => exact ih (MS.add_lenPos m i h)
  | case5 m => exact h

theorem BW.flushF_m' (s : BW) : s.flushF.m = s.m := by unfold BW.flushF; split <;> rfl
theorem BW.flushB_m' (s : BW) : s.flushB.m = s.m := by unfold BW.flushB; split <;> rfl

theorem bothGo_lenPos (A B : List Int) (s : BW) (h : LenPos s.m.rev) : LenPos (bothGo A B s).m.rev := by
  fun_induction bothGo A B s with
  | case1 a bv b s s1 ih =>
    apply ih
    show LenPos (s1.m.add bv).rev
    apply MS.add_lenPos
    show LenPos s.flushF.flushB.m.rev
    rw [BW.flushB_m', BW.flushF_m']; exact h
  | case2 av a bv b s hne hlt s1 ih =>
    apply ih
    show LenPos (s1.m.add av).rev
    apply MS.add_lenPos
    show LenPos (BW.flushF { s with bNum := s.bNum + 1 }).m.rev
    rw [BW.flushF_m']; exact h
  | case3 av a bv b s hne hlt s1 ih =>
    apply ih
    show LenPos (s1.m.add bv).rev
    apply MS.add_lenPos
    show LenPos (BW.flushB { s with fNum := s.fNum + 1 }).m.rev
    rw [BW.flushB_m']; exact h
  | case4 av a s ih => exact ih (MS.add_lenPos s.m av h)
  | case5 bv b s ih => exact ih (MS.add_lenPos s.m bv h)
  | case6 s =>
    show LenPos s.flushF.flushB.m.rev
    rw [BW.flushB_m', BW.flushF_m']; exact h

theorem LenPos.reverse {sp : List Span} (h : LenPos sp) : LenPos sp.reverse := fun s hs => h s (by simpa using hs)

theorem adjustForInserts_lenPos (spans : List Span) (ins : List Insert) (hne : ins ≠ []) :
    LenPos (adjustForInserts spans ins) := by
  unfold adjustForInserts
  have : ins.isEmpty = false := by cases ins <;> simp_all
  simp only [this, Bool.false_eq_true, if_false, MS.spans]
  exact (adjGo_lenPos _ _ MS.empty (by intro s hs; simp [MS.empty] at hs)).reverse

theorem expandBoth_lenPos (a b : List Span) : LenPos (expandBoth a b).2.2 := by
  show LenPos (bothGo (idxs a) (idxs b) BW.init).m.spans
  exact (bothGo_lenPos _ _ BW.init (by intro s hs; simp [BW.init, MS.empty] at hs)).reverse

/-! ## bounds from non-empty spans over bounded indices -/

theorem sorted_length_le : ∀ (l : List Int) (lo hi : Int), lo ≤ hi → l.Pairwise (· < ·) → (∀ x ∈ l, lo < x ∧ x < hi) →
    (l.length : Int) ≤ hi - lo
  | [], lo, hi, h, _, _ => by simp; omega
  | x :: l, lo, hi, _, hs, hb => by
    have hx := hb x (by simp)
    have hs' := List.pairwise_cons.1 hs
    have ih := sorted_length_le l x hi (by omega) hs'.2 (fun y hy => ⟨hs'.1 y hy, (hb y (by simp [hy])).2⟩)
    simp only [List.length_cons, Int.natCast_add, Int.cast_ofNat_Int]
    omega

theorem runIdx_mem (b : Int) (n : Nat) (hn : 1 ≤ n) : b ∈ runIdx b n ∧ (b + n - 1) ∈ runIdx b n := by
  induction n generalizing b with
  | zero => omega
  | succ n ih =>
    refine ⟨by simp [runIdx], ?_⟩
    by_cases h1 : n = 0
    · subst h1; simp [runIdx]
    · have := (ih (b + 1) (by omega)).2
      simp only [runIdx, List.mem_cons]
      right
      have e : b + 1 + (n : Int) - 1 = b + ((n + 1 : Nat) : Int) - 1 := by omega
      rw [← e]; exact this

/-- non-empty spans over indices inside `(lo, hi)`: offsets and lengths are bounded by the width -/
theorem spans_bounds : ∀ (sp : List Span) (cur lo hi : Int), LenPos sp → (∀ i ∈ idxsFrom cur sp, lo < i ∧ i < hi) →
    (lo < cur ∧ cur ≤ hi) →
    (∀ s ∈ sp, lo - hi < s.offset ∧ s.offset < hi - lo ∧ (s.length : Int) ≤ hi - lo) ∧
      sp.length ≤ (idxsFrom cur sp).length
  | [], _, _, _, _, _, _ => by simp
  | s :: sp, cur, lo, hi, hlp, hb, hc => by
    have hl := hlp s (by simp)
    obtain ⟨m1, m2⟩ := runIdx_mem (cur + s.offset) s.length hl
    have b1 := hb (cur + s.offset) (by simp [idxsFrom, m1])
    have b2 := hb (cur + s.offset + s.length - 1) (by simp [idxsFrom, m2])
    obtain ⟨ih1, ih2⟩ := spans_bounds sp (cur + s.offset + (s.length : Int)) lo hi (fun x hx => hlp x (by simp [hx]))
      (fun i hi' => hb i (by simp [idxsFrom, hi'])) (by omega)
    refine ⟨?_, ?_⟩
    · intro x hx
      rcases List.mem_cons.1 hx with rfl | hx
      · omega
      · exact ih1 x hx
    · simp only [List.length_cons, idxsFrom, List.length_append, runIdx_length]
      omega

/-- a span list that fits the chunk layout encoding -/
def SpanListEnc (sp : List Span) : Prop :=
  (∀ s ∈ sp, Prom.Bits.I64 s.offset ∧ s.length < 2 ^ 64) ∧ sp.length < 2 ^ 64

theorem spanListEnc_of_lenPos (sp : List Span) (hlp : LenPos sp) (hs : (idxs sp).Pairwise (· < ·))
    (hb : ∀ i ∈ idxs sp, -(2 ^ 40 : Int) < i ∧ i < 2 ^ 40) : SpanListEnc sp := by
  obtain ⟨h1, h2⟩ := spans_bounds sp 0 (-(2 ^ 40)) (2 ^ 40) hlp hb (by omega)
  have h3 := sorted_length_le (idxs sp) (-(2 ^ 40)) (2 ^ 40) (by omega) hs hb
  refine ⟨fun s hs' => ?_, ?_⟩
  · obtain ⟨a, b, c⟩ := h1 s hs'
    refine ⟨by simp only [Prom.Bits.I64, Prom.Bits.two63]; omega, ?_⟩
    have : (s.length : Int) < 2 ^ 64 := by omega
    exact_mod_cast this
  · have : (sp.length : Int) < 2 ^ 64 := by
      have : (sp.length : Int) ≤ ((idxs sp).length : Int) := by exact_mod_cast h2
      omega
    exact_mod_cast this

end Prom.Hist
