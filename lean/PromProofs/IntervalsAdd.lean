import PromProofs.Intervals
/-
  Helper lemmas for C20: the transcribed `Intervals.Add` computes the abstract insert/merge of
  PromProofs.Intervals (xs = take mini ++ (drop mini).take maxi ++ (drop mini).drop maxi).
-/
namespace Prom.Intervals

/-! ### the two searches of `Intervals.Add` -/

def miniOf (xs : Intervals) (n : Interval) : Nat :=
  if n.mint ≠ MinI64 then goSearch xs.length (fun i => decide ((xs[i]?.getD default).maxt ≥ n.mint - 1))
  else 0

def maxiOf (xs : Intervals) (n : Interval) (mini : Nat) : Nat :=
  if n.maxt ≠ MaxI64 then
    goSearch (xs.length - mini) (fun i => decide ((xs[mini + i]?.getD default).mint > n.maxt + 1))
  else xs.length - mini

theorem add_unfold (xs : Intervals) (n : Interval) :
    add xs n =
      if xs.length = 0 then .ok [n] else
      if n.mint ≠ MinI64 ∧ miniOf xs n = xs.length then .ok (xs ++ [n]) else
      if n.maxt ≠ MaxI64 ∧ maxiOf xs n (miniOf xs n) = 0 then
        .ok (xs.take (miniOf xs n) ++ n :: xs.drop (miniOf xs n)) else
      (idx xs (miniOf xs n)) >>= fun a =>
      (idx xs (maxiOf xs n (miniOf xs n) + miniOf xs n - 1)) >>= fun b =>
        if maxiOf xs n (miniOf xs n) + miniOf xs n > xs.length then .error .panic else
        .ok (xs.take (miniOf xs n) ++
          (⟨if n.mint < a.mint then n.mint else a.mint, max n.maxt b.maxt⟩ : Interval) ::
            xs.drop (maxiOf xs n (miniOf xs n) + miniOf xs n)) := by
  rfl

def AllI64 (xs : Intervals) : Prop := ∀ x ∈ xs, I64 x.mint ∧ I64 x.maxt

theorem mini_split (xs : Intervals) (n : Interval) (hc : Canon xs) (hr : AllI64 xs) :
    miniOf xs n ≤ xs.length ∧
    (∀ x ∈ xs.take (miniOf xs n), x.maxt + 1 < n.mint) ∧
    (∀ x ∈ xs.drop (miniOf xs n), n.mint ≤ x.maxt + 1) := by
  unfold miniOf
  by_cases h : n.mint ≠ MinI64
  · rw [if_pos h]
    have mono : xs.Pairwise (fun x y => (fun z : Interval => decide (z.maxt ≥ n.mint - 1)) x = true →
        (fun z : Interval => decide (z.maxt ≥ n.mint - 1)) y = true) := by
      refine List.Pairwise.imp_of_mem ?_ hc.pw
      intro x y _ hy hxy
      have := hc.valid y hy
      simp only [decide_eq_true_eq]; omega
    obtain ⟨h1, h2, h3⟩ := goSearch_split default xs _ mono
    refine ⟨h1, ?_, ?_⟩
    · intro x hx; have := h2 x hx; simp only [decide_eq_false_iff_not] at this; omega
    · intro x hx; have := h3 x hx; simp only [decide_eq_true_eq] at this; omega
  · rw [if_neg h]; simp only [List.take_zero, List.drop_zero]
    have h' : n.mint = MinI64 := by simpa using h
    refine ⟨Nat.zero_le _, by simp, ?_⟩
    intro x hx
    have := (hr x hx).2.1
    omega

theorem maxi_split (xs : Intervals) (n : Interval) (m : Nat) (hc : Canon xs) (hr : AllI64 xs) :
    maxiOf xs n m ≤ xs.length - m ∧
    (∀ x ∈ (xs.drop m).take (maxiOf xs n m), x.mint ≤ n.maxt + 1) ∧
    (∀ x ∈ (xs.drop m).drop (maxiOf xs n m), n.maxt + 1 < x.mint) := by
  have hcR : Canon (xs.drop m) := by
    have : Canon (xs.take m ++ xs.drop m) := by rw [List.take_append_drop]; exact hc
    exact (canon_append.mp this).2.1
  unfold maxiOf
  by_cases h : n.maxt ≠ MaxI64
  · rw [if_pos h]
    have mono : (xs.drop m).Pairwise (fun x y => (fun z : Interval => decide (z.mint > n.maxt + 1)) x = true →
        (fun z : Interval => decide (z.mint > n.maxt + 1)) y = true) := by
      refine List.Pairwise.imp_of_mem ?_ hcR.pw
      intro x y hx _ hxy
      have := hcR.valid x hx
      simp only [decide_eq_true_eq]; omega
    obtain ⟨h1, h2, h3⟩ := goSearch_split default (xs.drop m) _ mono
    simp only [List.length_drop, List.getElem?_drop] at h1 h2 h3
    refine ⟨h1, ?_, ?_⟩
    · intro x hx; have := h2 x hx; simp only [decide_eq_false_iff_not] at this; omega
    · intro x hx; have := h3 x hx; simp only [decide_eq_true_eq] at this; omega
  · rw [if_neg h]
    have h' : n.maxt = MaxI64 := by simpa using h
    refine ⟨Nat.le_refl _, ?_, ?_⟩
    · intro x hx
      have hx' : x ∈ xs := List.mem_of_mem_drop (List.mem_of_mem_take hx)
      have := (hr x hx').1.2
      omega
    · intro x hx
      have : (xs.drop m).drop (xs.length - m) = [] := by
        apply List.drop_eq_nil_of_le; simp
      rw [this] at hx; simp at hx


theorem idx_ok (xs : Intervals) (i : Nat) (h : i < xs.length) : idx xs i = .ok xs[i] := by
  simp [idx, List.getElem?_eq_getElem h]

/-- Main lemma: the fixed `Intervals.Add` on a canonical in-range set and a valid interval never
    panics, returns a canonical set, and covers exactly the old coverage plus the new interval. -/
theorem add_correct (xs : Intervals) (n : Interval) (hc : Canon xs) (hr : AllI64 xs)
    (hn : n.mint ≤ n.maxt) :
    ∃ ys, add xs n = .ok ys ∧ Canon ys ∧
      ∀ t, covers ys t ↔ covers xs t ∨ (n.mint ≤ t ∧ t ≤ n.maxt) := by
  rw [add_unfold]
  obtain ⟨hm1, hm2, hm3⟩ := mini_split xs n hc hr
  obtain ⟨hk1, hk2, hk3⟩ := maxi_split xs n (miniOf xs n) hc hr
  have hmin0 : n.mint = MinI64 → miniOf xs n = 0 := by
    intro h; unfold miniOf; rw [if_neg (by simpa using h)]
  have hmaxN : n.maxt = MaxI64 → maxiOf xs n (miniOf xs n) = xs.length - miniOf xs n := by
    intro h; unfold maxiOf; rw [if_neg (by simpa using h)]
  generalize miniOf xs n = m at *
  generalize maxiOf xs n m = k at *
  by_cases h0 : xs.length = 0
  · rw [if_pos h0]
    have : xs = [] := List.eq_nil_of_length_eq_zero h0
    subst this
    refine ⟨[n], rfl, ?_, ?_⟩
    · exact canon_cons.mpr ⟨hn, canon_nil, by simp⟩
    · intro t; simp [covers]
  rw [if_neg h0]
  by_cases h1 : n.mint ≠ MinI64 ∧ m = xs.length
  · rw [if_pos h1]
    obtain ⟨_, rfl⟩ := h1
    rw [List.take_length] at hm2
    have := insert_core xs [] n (by simpa using hc) hn hm2 (by simp)
    simpa using this
  rw [if_neg h1]
  have hxs : xs = xs.take m ++ ((xs.drop m).take k ++ (xs.drop m).drop k) := by
    rw [List.take_append_drop, List.take_append_drop]
  by_cases h2 : n.maxt ≠ MaxI64 ∧ k = 0
  · rw [if_pos h2]
    obtain ⟨_, rfl⟩ := h2
    simp only [List.drop_zero] at hk3
    have := insert_core (xs.take m) (xs.drop m) n (by rw [List.take_append_drop]; exact hc) hn hm2 hk3
    rw [List.take_append_drop] at this
    exact ⟨_, rfl, this⟩
  rw [if_neg h2]
  have hmlt : m < xs.length := by
    by_cases hq : n.mint = MinI64
    · have := hmin0 hq; omega
    · have : m ≠ xs.length := fun h => h1 ⟨hq, h⟩
      omega
  have hk0 : 0 < k := by
    by_cases hq : n.maxt = MaxI64
    · have := hmaxN hq; omega
    · have : k ≠ 0 := fun h => h2 ⟨hq, h⟩
      omega
  have hi1 : m < xs.length := hmlt
  have hi2 : k + m - 1 < xs.length := by omega
  rw [idx_ok xs m hi1, idx_ok xs (k + m - 1) hi2]
  simp only [bind, Except.bind]
  rw [if_neg (by omega)]
  have hdd : xs.drop (k + m) = (xs.drop m).drop k := by
    rw [List.drop_drop]; congr 1; omega
  rw [hdd]
  have hhead : ((xs.drop m).take k).head? = some xs[m] := by
    rw [List.head?_take, if_neg (by omega), List.head?_drop, List.getElem?_eq_getElem hi1]
  have hlast : ((xs.drop m).take k).getLast? = some xs[k + m - 1] := by
    rw [List.getLast?_eq_getElem?, List.length_take, List.length_drop, List.getElem?_take,
      if_pos (by omega), List.getElem?_drop]
    have : m + (min k (xs.length - m) - 1) = k + m - 1 := by omega
    rw [this, List.getElem?_eq_getElem hi2]
  have hB1 : ∀ x ∈ (xs.drop m).take k, n.mint ≤ x.maxt + 1 :=
    fun x hx => hm3 x (List.mem_of_mem_take hx)
  have hc' : Canon (xs.take m ++ (xs.drop m).take k ++ (xs.drop m).drop k) := by
    rw [List.append_assoc, ← hxs]; exact hc
  have := merge_core (xs.take m) ((xs.drop m).take k) ((xs.drop m).drop k) n xs[m] xs[k + m - 1]
    hc' hn hm2 hB1 hk2 hk3 hhead hlast
  rw [List.append_assoc, ← hxs] at this
  exact ⟨_, rfl, this⟩

theorem idx_mem {xs : Intervals} {i : Nat} {a : Interval} (h : idx xs i = .ok a) : a ∈ xs := by
  unfold idx at h
  split at h
  · rename_i x hx
    cases h
    exact List.mem_of_getElem? hx
  · cases h

/-- Every endpoint of the result is an endpoint of the input set or of the new interval
    (needs no canonicity): `Add` never invents timestamps, so int64 range is preserved. -/
theorem add_range (xs ys : Intervals) (n : Interval) (hr : AllI64 xs) (hn : I64 n.mint ∧ I64 n.maxt)
    (h : add xs n = .ok ys) : AllI64 ys := by
  rw [add_unfold] at h
  have htake : ∀ k, ∀ x ∈ xs.take k, I64 x.mint ∧ I64 x.maxt := fun k x hx => hr x (List.mem_of_mem_take hx)
  have hdrop : ∀ k, ∀ x ∈ xs.drop k, I64 x.mint ∧ I64 x.maxt := fun k x hx => hr x (List.mem_of_mem_drop hx)
  split at h
  · cases h; intro x hx; simp only [List.mem_singleton] at hx; subst hx; exact hn
  split at h
  · cases h; intro x hx
    rcases List.mem_append.mp hx with hx | hx
    · exact hr x hx
    · simp only [List.mem_singleton] at hx; subst hx; exact hn
  split at h
  · cases h; intro x hx
    rcases List.mem_append.mp hx with hx | hx
    · exact htake _ x hx
    · rcases List.mem_cons.mp hx with rfl | hx
      · exact hn
      · exact hdrop _ x hx
  cases ha : idx xs (miniOf xs n) with
  | error e => rw [ha] at h; cases h
  | ok a =>
    cases hb : idx xs (maxiOf xs n (miniOf xs n) + miniOf xs n - 1) with
    | error e => rw [ha, hb] at h; cases h
    | ok b =>
      rw [ha, hb] at h
      simp only [bind, Except.bind] at h
      split at h
      · cases h
      · cases h
        have ha' := hr a (idx_mem ha)
        have hb' := hr b (idx_mem hb)
        intro x hx
        rcases List.mem_append.mp hx with hx | hx
        · exact htake _ x hx
        · rcases List.mem_cons.mp hx with rfl | hx
          · refine ⟨?_, ?_⟩
            · show I64 (if n.mint < a.mint then n.mint else a.mint)
              split
              · exact hn.1
              · exact ha'.1
            · show I64 (max n.maxt b.maxt)
              rcases Int.le_total n.maxt b.maxt with hle | hle
              · rw [Int.max_eq_right hle]; exact hb'.2
              · rw [Int.max_eq_left hle]; exact hn.2
          · exact hdrop _ x hx

end Prom.Intervals
