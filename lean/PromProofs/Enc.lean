import PromModel.Prelude.Enc
/-
  Lemmas about the byte-level prelude: round trips of BE64, uvarint, zig-zag varint, strings,
  `readN`, the decoder loop, and the 64-bit wrap-around identities used by delta encodings.
-/
namespace Prom.Enc

/-! ## two's complement -/

theorem toU64_lt (x : Int) : toU64 x < 18446744073709551616 := by
  unfold toU64; omega

theorem toU64_ofNat {n : Nat} (h : U64 n) : toU64 (n : Int) = n := by
  unfold U64 at h; unfold toU64; omega

theorem toI64_I64 (n : Nat) : I64 (toI64 n) := by
  unfold toI64 I64; simp only; split <;> omega

theorem wrap64_I64 (x : Int) : I64 (wrap64 x) := toI64_I64 _

theorem toI64_toU64 {x : Int} (h : I64 x) : toI64 (toU64 x) = x := by
  unfold I64 at h; unfold toI64 toU64; simp only; split <;> omega

theorem wrap64_id {x : Int} (h : I64 x) : wrap64 x = x := toI64_toU64 h

theorem toU64_toI64 {n : Nat} (h : U64 n) : toU64 (toI64 n) = n := by
  unfold U64 at h; unfold toI64 toU64; simp only; split <;> omega

/-- Reference deltas: `uint64(int64(base) + (int64(ref) - int64(base))) = ref`, whatever wraps. -/
theorem ref_delta_roundtrip {r : Nat} (b : Int) (h : U64 r) :
    toU64 (b + wrap64 ((r : Int) - b)) = r := by
  unfold U64 at h; unfold wrap64 toI64 toU64; simp only; split <;> omega

/-- Timestamp deltas: `base + (t - base) = t` in `int64` arithmetic, whatever wraps. -/
theorem time_delta_roundtrip {t : Int} (b : Int) (h : I64 t) :
    wrap64 (b + wrap64 (t - b)) = t := by
  unfold I64 at h
  have h1 : ∀ y : Int, wrap64 y = y % 18446744073709551616 ∨ wrap64 y = y % 18446744073709551616 - 18446744073709551616 := by
    intro y; unfold wrap64 toI64 toU64; simp only; split <;> omega
  have h2 := wrap64_I64 (b + wrap64 (t - b))
  unfold I64 at h2
  rcases h1 (t - b) with e1 | e1 <;> rcases h1 (b + wrap64 (t - b)) with e2 | e2 <;> omega

/-- `uint64(b + (int64(ref) - b)) = ref` (the form `Encoder/Decoder.samplesV1` uses). -/
theorem ref_delta_roundtrip_i {r : Nat} (b : Int) (h : U64 r) :
    toU64 (b + wrap64 (toI64 r - b)) = r := by
  unfold U64 at h; unfold wrap64 toI64 toU64; simp only; split <;> split <;> omega

/-- `base + uint64(int64(ref) - int64(base)) = ref` in `uint64` arithmetic (exemplars, histograms V1). -/
theorem ref_delta_roundtrip_u {r base : Nat} (h : U64 r) (hb : U64 base) :
    (base + toU64 (wrap64 (toI64 r - toI64 base))) % 18446744073709551616 = r := by
  unfold U64 at h hb; unfold wrap64 toI64 toU64; simp only; split <;> split <;> split <;> omega

theorem wrap32_id {x : Int} (h : I32 x) : wrap32 x = x := by
  unfold I32 at h; unfold wrap32; simp only; split <;> omega

/-! ## BE64 -/

theorem byteAt_toNat (n s : Nat) : (byteAt n s).toNat = n / 2 ^ s % 256 := by
  unfold byteAt; rw [UInt8.toNat_ofNat']; omega

theorem getBE64_putBE64 {n : Nat} (h : U64 n) (rest : Bytes) :
    getBE64 (putBE64 n ++ rest) = .ok (n, rest) := by
  unfold U64 at h
  simp only [putBE64, List.cons_append, List.nil_append, getBE64, byteAt_toNat]
  congr 2
  omega

theorem putBE64_length (n : Nat) : (putBE64 n).length = 8 := rfl

/-! ## uvarint -/

theorem getUvarintAux_put (f : Nat) : ∀ (mul acc n : Nat) (rest : Bytes), n < 2 * 128 ^ f →
    getUvarintAux (f + 1) mul acc (putUvarintAux f n ++ rest) = some (acc + n * mul, rest) := by
  induction f with
  | zero =>
    intro mul acc n rest h
    have h2 : n < 2 := by simpa using h
    have hb : (UInt8.ofNat n).toNat = n := by rw [UInt8.toNat_ofNat']; omega
    simp only [putUvarintAux, List.cons_append, List.nil_append, getUvarintAux, hb]
    rw [if_pos (by omega), if_neg (by omega)]
  | succ f ih =>
    intro mul acc n rest h
    unfold putUvarintAux
    split
    · rename_i hn
      have hb : (UInt8.ofNat n).toNat = n := by rw [UInt8.toNat_ofNat']; omega
      simp only [List.cons_append, List.nil_append, getUvarintAux, hb]
      rw [if_pos hn, if_neg (by omega)]
    · rename_i hn
      have hb : (UInt8.ofNat (n % 128 + 128)).toNat = n % 128 + 128 := by
        rw [UInt8.toNat_ofNat']; omega
      simp only [List.cons_append, getUvarintAux, hb]
      rw [if_neg (by omega)]
      have hdiv : n / 128 < 2 * 128 ^ f := by
        have : 2 * 128 ^ (f + 1) = 128 * (2 * 128 ^ f) := by rw [Nat.pow_succ]; omega
        omega
      rw [ih (mul * 128) (acc + (n % 128 + 128 - 128) * mul) (n / 128) rest hdiv]
      congr 2
      have e1 : n % 128 + 128 - 128 = n % 128 := by omega
      rw [e1]
      have e2 : n / 128 * (mul * 128) = 128 * (n / 128) * mul := by
        rw [Nat.mul_comm mul 128, ← Nat.mul_assoc, Nat.mul_comm (n / 128) 128]
      rw [e2, Nat.add_assoc, ← Nat.add_mul, Nat.mod_add_div]

/-- `binary.Uvarint(binary.PutUvarint(n) ++ rest) = (n, rest)` for every `uint64`. -/
theorem getUvarint_putUvarint {n : Nat} (h : U64 n) (rest : Bytes) :
    getUvarint (putUvarint n ++ rest) = some (n, rest) := by
  unfold U64 at h
  unfold getUvarint putUvarint
  rw [getUvarintAux_put 9 1 0 n rest (by omega)]
  simp

theorem decUvarint_put {n : Nat} (h : U64 n) (rest : Bytes) :
    decUvarint (putUvarint n ++ rest) = .ok (n, rest) := by
  unfold decUvarint; rw [getUvarint_putUvarint h]

theorem putUvarintAux_ne_nil (f n : Nat) : putUvarintAux f n ≠ [] := by
  cases f <;> unfold putUvarintAux <;> try split
  all_goals simp

theorem putUvarint_ne_nil (n : Nat) : putUvarint n ≠ [] := putUvarintAux_ne_nil _ _

/-! ## zig-zag -/

theorem zigzag_U64 {x : Int} (h : I64 x) : U64 (zigzag x) := by
  unfold I64 at h; unfold zigzag U64; split <;> omega

theorem unzigzag_zigzag (x : Int) : unzigzag (zigzag x) = x := by
  unfold zigzag unzigzag; split <;> split <;> omega

theorem unzigzag_I64 {u : Nat} (h : U64 u) : I64 (unzigzag u) := by
  unfold U64 at h; unfold unzigzag I64; split <;> omega

/-- `binary.Varint(binary.PutVarint(x) ++ rest) = (x, rest)` for every `int64`. -/
theorem getVarint_putVarint {x : Int} (h : I64 x) (rest : Bytes) :
    getVarint (putVarint x ++ rest) = some (x, rest) := by
  unfold getVarint putVarint
  rw [getUvarint_putUvarint (zigzag_U64 h)]
  simp only [unzigzag_zigzag]

theorem decVarint_put {x : Int} (h : I64 x) (rest : Bytes) :
    decVarint (putVarint x ++ rest) = .ok (x, rest) := by
  unfold decVarint; rw [getVarint_putVarint h]

theorem putVarint_ne_nil (x : Int) : putVarint x ≠ [] := putUvarint_ne_nil _

/-! ## strings -/

theorem decUvarintStr_put {s : Bytes} (h : s.length < 9223372036854775808) (rest : Bytes) :
    decUvarintStr (putUvarintStr s ++ rest) = .ok (s, rest) := by
  unfold decUvarintStr putUvarintStr
  rw [List.append_assoc, decUvarint_put (by unfold U64; omega)]
  simp only
  rw [if_neg (by omega), if_neg (by simp)]
  simp

/-! ## readN -/

theorem readN_flatMap {α} (get : Bytes → Res α) (put : α → Bytes) (P : α → Prop)
    (hget : ∀ x rest, P x → get (put x ++ rest) = .ok (x, rest)) :
    ∀ (xs : List α) (rest : Bytes), (∀ x ∈ xs, P x) →
      readN get xs.length (xs.flatMap put ++ rest) = .ok (xs, rest) := by
  intro xs
  induction xs with
  | nil => intro rest _; simp [readN]
  | cons x xs ih =>
    intro rest h
    simp only [List.length_cons, List.flatMap_cons, List.append_assoc, readN]
    rw [hget x _ (h x (by simp))]
    simp only
    rw [ih rest (fun y hy => h y (by simp [hy]))]

/-! ## decoder loop -/

theorem loopFuel_encAll {σ α β} (step : σ → Bytes → Except DecErr (σ × Option β × Bytes))
    (enc : σ → α → Bytes) (next : σ → α → σ) (out : σ → α → Option β)
    (Inv : σ → Prop) (WF : α → Prop)
    (hstep : ∀ s x rest, Inv s → WF x → step s (enc s x ++ rest) = .ok (next s x, out s x, rest))
    (hinv : ∀ s x, Inv s → WF x → Inv (next s x))
    (hne : ∀ s x, Inv s → WF x → enc s x ≠ []) :
    ∀ (xs : List α) (s : σ) (fuel : Nat), Inv s → (∀ x ∈ xs, WF x) →
      (encAll enc next s xs).length ≤ fuel →
      loopFuel step fuel s (encAll enc next s xs) = .ok (outAll out next s xs) := by
  intro xs
  induction xs with
  | nil => intro s fuel _ _ _; simp [encAll, outAll, loopFuel]
  | cons x xs ih =>
    intro s fuel hs hwf hfuel
    have hx := hwf x (by simp)
    simp only [encAll, outAll] at hfuel ⊢
    have hne' := hne s x hs hx
    -- expose the head byte and the fuel successor
    cases hE : enc s x with
    | nil => exact absurd hE hne'
    | cons b bs =>
      cases fuel with
      | zero => simp [hE] at hfuel
      | succ fuel =>
        have hlen : (encAll enc next (next s x) xs).length ≤ fuel := by
          simp [hE] at hfuel; omega
        have h1 := hstep s x (encAll enc next (next s x) xs) hs hx
        rw [hE] at h1
        simp only [List.cons_append] at h1 ⊢
        simp only [loopFuel, h1]
        rw [ih (next s x) fuel (hinv s x hs hx) (fun y hy => hwf y (by simp [hy])) hlen]
        cases out s x <;> simp

end Prom.Enc
