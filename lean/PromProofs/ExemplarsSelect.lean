import PromProofs.ExemplarsLinks
/-
  `Select` walks a well-formed per-series list: what the inner loop returns.
-/
namespace Prom.Exemplars

def inRange (start stop : Int) (x : Ex) : Bool := decide (start ≤ x.ts) && decide (x.ts ≤ stop)

/-- The inner loop of `Select` on a linked list `a :: c` returns the prefix with `ts ≤ stop`,
    filtered by `ts ≥ start`. -/
theorem walk_chain (r : Ring) (start stop : Int) :
    ∀ (c : List Nat) (a : Nat) (p : Option Nat) (fuel : Nat), LinkedFrom r p (a :: c) → c.length < fuel →
      walk r start stop fuel (r.getN a) =
        ((((a :: c).map fun i => (r.getN i).ex).takeWhile fun x => decide (x.ts ≤ stop)).filter
          fun x => decide (start ≤ x.ts)) := by
  intro c
  induction c with
  | nil =>
    intro a p fuel hl hf
    obtain ⟨_, hn⟩ := hl
    cases fuel with
    | zero => omega
    | succ f =>
      simp only [walk, hn, List.map_cons, List.map_nil, List.takeWhile_cons, List.takeWhile_nil]
      by_cases h1 : (r.getN a).ex.ts ≤ stop <;> by_cases h2 : start ≤ (r.getN a).ex.ts <;> simp [h1, h2]
  | cons b t ih =>
    intro a p fuel hl hf
    obtain ⟨_, hn, hrest⟩ := hl
    cases fuel with
    | zero => omega
    | succ f =>
      have := ih b (some a) f hrest (by simp at hf ⊢; omega)
      simp only [walk, hn, this, List.map_cons, List.takeWhile_cons]
      by_cases h1 : (r.getN a).ex.ts ≤ stop <;> by_cases h2 : start ≤ (r.getN a).ex.ts <;> simp [h1, h2]

/-- On a time-sorted list, "prefix with `ts ≤ stop`" is "all with `ts ≤ stop`". -/
theorem takeWhile_eq_filter_sorted (stop : Int) :
    ∀ (xs : List Ex), (xs.map (·.ts)).Pairwise (· ≤ ·) →
      xs.takeWhile (fun x => decide (x.ts ≤ stop)) = xs.filter (fun x => decide (x.ts ≤ stop)) := by
  intro xs
  induction xs with
  | nil => intro _; rfl
  | cons x t ih =>
    intro hs
    simp only [List.map_cons, List.pairwise_cons] at hs
    by_cases h1 : x.ts ≤ stop
    · simp [h1, ih hs.2]
    · simp only [List.takeWhile_cons, List.filter_cons, h1, decide_false, Bool.false_eq_true, if_false]
      symm; rw [List.filter_eq_nil_iff]
      intro y hy
      have := hs.1 y.ts (List.mem_map.mpr ⟨y, hy, rfl⟩)
      simp; omega

/-- **Select on a well-formed list.** For the list `a :: c` of series `s`, the loop returns exactly
    the stored exemplars of the series with `start ≤ ts ≤ stop`, in list (= time) order. -/
theorem walk_chainOK (r : Ring) (s : Nat) (a : Nat) (c : List Nat) (start stop : Int)
    (h : ChainOK r s (a :: c)) :
    walk r start stop (r.exs.length + 1) (r.getN a) =
      ((a :: c).map fun i => (r.getN i).ex).filter (inRange start stop) := by
  have hlen : (a :: c).length ≤ r.exs.length := by
    have hsub : ∀ i ∈ (a :: c), i ∈ List.range r.exs.length := by
      intro i hi; simp; exact ((h.covers i).mp hi).1
    have := List.Nodup.length_le_of_subset h.nodup hsub
    simpa using this
  rw [walk_chain r start stop c a none _ h.linked (by simp at hlen; omega)]
  rw [takeWhile_eq_filter_sorted stop _ (by simpa [List.map_map, Function.comp_def] using h.sorted)]
  rw [List.filter_filter]
  rfl

theorem filterMap_fst_sublist {β} (f : Nat → Option (Nat × β)) (hf : ∀ s p, f s = some p → p.1 = s) :
    ∀ l : List Nat, ((l.filterMap f).map (·.1)).Sublist l := by
  intro l
  induction l with
  | nil => simp
  | cons a t ih =>
    simp only [List.filterMap_cons]
    cases hfa : f a with
    | none => exact ih.cons _
    | some p =>
      simp only [List.map_cons, hf a p hfa]
      exact ih.cons_cons _

/-- The series of a `Select` result are strictly ascending (sorted by series labels), each at most once. -/
theorem select_series_ascending (r : Ring) (start stop : Int) (sel : Nat → Bool) :
    ((select r start stop sel).map (·.1)).Pairwise (· < ·) := by
  unfold select
  split
  · simp
  · refine List.Pairwise.sublist (filterMap_fst_sublist _ ?_ _) List.pairwise_lt_range
    intro s p
    split
    · intro h; cases h
    · simp only []
      split
      · intro h; cases h
      · split
        · intro h; cases h
        · split
          · intro h; cases h
          · intro h; cases h; rfl

/-- Every entry of a `Select` result is the walk over the list of a series that has an index entry and
    matches, and is non-empty. -/
theorem select_mem (r : Ring) (start stop : Int) (sel : Nat → Bool) (s : Nat) (xs : List Ex)
    (h : (s, xs) ∈ select r start stop sel) :
    sel s = true ∧ xs ≠ [] ∧ ∃ ie, r.index s = some ie ∧
      xs = walk r start stop (r.exs.length + 1) (r.getO ie.oldest) := by
  unfold select at h
  split at h
  · simp at h
  · simp only [List.mem_filterMap, List.mem_range] at h
    obtain ⟨s', _, h⟩ := h
    split at h
    · cases h
    · rename_i ie hie
      split at h
      · cases h
      · split at h
        · cases h
        · split at h
          · cases h
          · rename_i hsel hne
            cases h
            refine ⟨by simpa using hsel, ?_, ie, hie, rfl⟩
            intro hnil; simp [hnil] at hne
end Prom.Exemplars
