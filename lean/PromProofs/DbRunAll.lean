import PromProofs.DbWalDelete
import PromProofs.DbWalCompact
import PromProofs.DbReopen
/-
  C01 refinement: every operation (incl. restart) preserves `WGood` under decidable side conditions;
  assembly along a history.
-/
namespace Prom.Db
open Prom.Intervals

theorem WalInv.congr {d d' : Db} (h : WalInv d) (hs : d'.series = d.series) (hb : d'.blocks = d.blocks)
    (hw : d'.wal = d.wal) (hm : d'.minValid = d.minValid) : WalInv d' := by
  intro c hc
  rw [hb] at hc
  rw [hw]
  exact (h c hc).congr hs hm

theorem initTime_wal (d : Db) (t : Int) : (initTime d t).wal = d.wal := by
  unfold initTime; split <;> rfl
theorem appD_wal (d : Db) (a : App) (t : Int) : (appD d a t).wal = d.wal := by
  unfold appD; split; exact initTime_wal d t; rfl

theorem append_wal_mv (d : Db) (i : Nat) (t : Int) (v : Nat) :
    (d.append i t v).1.wal = d.wal ∧ (d.append i t v).1.minValid = d.minValid := by
  cases happ : d.app with
  | none =>
    have : d.append i t v = (d, .error .noapp) := by unfold Db.append; rw [happ]
    rw [this]; exact ⟨rfl, rfl⟩
  | some a =>
    rcases append_some happ i t v with ⟨e, he⟩ | ⟨he, _⟩ <;> rw [he] <;>
      exact ⟨appD_wal d a t, appD_minValid d a t⟩

/-- The decidable side conditions of one step, evaluated on the model state before it:
    * `app`: the timestamp is an int64 other than the MaxInt64 sentinel and the append does not
      re-submit the newest physical sample of its series while a tombstone hides it (finding F28);
    * `del`, `compact`: no appender is open (single-threaded histories of the real system);
    * `cleantomb`: cleaning does not lower the largest block maxt, i.e. it does not remove the newest
      block (finding F30: the WAL still holds that block's samples and the next restart replays them). -/
def stepOkB (d : Db) : Op → Bool
  | .app s t _ => decide (MinI64 ≤ t ∧ t < MaxI64) && !resubmitsB d s t
  | .del _ _ _ => d.app.isNone
  | .compact => d.app.isNone
  | .cleantomb => decide (maxBlk d.blocks ≤ maxBlk d.cleanTombstones.blocks)
  | _ => true

def runOkB (d : Db) : List Op → Bool
  | [] => true
  | op :: ops => stepOkB d op && runOkB (d.step op).1 ops

theorem wgood_init (cfg : Cfg) (h0 : cfg.oooWin = 0) (h1 : 0 < cfg.chunkRange) : WGood { cfg := cfg } {} := by
  refine ⟨good_init cfg h0 h1, tinv_init cfg, xinv_init cfg, ?_⟩
  intro c _
  have hr : rep c ({ cfg := cfg } : Db).wal = { cfg := ⟨0, 0⟩ } := rfl
  rw [hr]
  refine ⟨RInv.of_nil c rfl, ?_, ?_, ?_, ?_, ?_, ?_⟩
  · intro i x hx; simp [Db.getSeries] at hx
  · intro i x hx; simp [Db.getSeries] at hx
  · intro i x hx; simp [Db.getSeries] at hx
  · intro i iv hiv; simp [Db.getSeries] at hiv
  · intro i; exact tombsOk_nil
  · intro i x hx; simp [Db.getSeries] at hx

theorem isNone_eq {α} {o : Option α} (h : o.isNone = true) : o = none := by
  cases o <;> simp_all

theorem step_wgood {d : Db} {r : Ref} (hW : WGood d r) (op : Op) (hok : stepOkB d op = true) :
    ∃ r', Ref.step r op (d.step op).2 = some r' ∧ WGood (d.step op).1 r' := by
  have hG2 : Good2 d r := ⟨hW.good, hW.tinv⟩
  cases op with
  | reopen => exact ⟨_, rfl, reopen_wgood hW⟩
  | begin =>
    obtain ⟨r', hr', hG'⟩ := step_preserves2 hG2 .begin (by simp) trivial
    refine ⟨r', hr', hG'.good, hG'.tinv, begin_xinv hW.xinv, ?_⟩
    show WalInv d.begin
    apply hW.wal.congr <;> (unfold Db.begin; split <;> rfl)
  | rollback =>
    obtain ⟨r', hr', hG'⟩ := step_preserves2 hG2 .rollback (by simp) trivial
    refine ⟨r', hr', hG'.good, hG'.tinv, rollback_xinv hW.xinv, ?_⟩
    show WalInv d.rollback.1
    apply hW.wal.congr <;> (unfold Db.rollback; split <;> rfl)
  | app s t v =>
    simp only [stepOkB, Bool.and_eq_true, decide_eq_true_eq, Bool.not_eq_true'] at hok
    have hres : ¬ resubmits d s t := by
      rw [← resubmitsB_iff]; simp [hok.2]
    obtain ⟨r', hr', hG'⟩ := step_preserves2 hG2 (.app s t v) (by simp) ⟨hok.1, hres⟩
    refine ⟨r', hr', hG'.good, hG'.tinv, append_xinv hW.xinv s t v hok.1.1, ?_⟩
    show WalInv (d.append s t v).1
    exact hW.wal.congr (append_series d s t v) (append_blocks d s t v) (append_wal_mv d s t v).1
      (append_wal_mv d s t v).2
  | commit =>
    obtain ⟨r', hr', hG'⟩ := step_preserves2 hG2 .commit (by simp) trivial
    exact ⟨r', hr', hG'.good, hG'.tinv, commit_xinv hW.good.inv hW.tinv hW.xinv,
      commit_walInv hW.good.inv hW.tinv hW.xinv hW.good.ooo hW.wal⟩
  | del a b sel =>
    have happ : d.app = none := isNone_eq hok
    obtain ⟨r', hr', hG'⟩ := step_preserves2 hG2 (.del a b sel) (by simp) happ
    exact ⟨r', hr', hG'.good, hG'.tinv, delete_xinv hW.xinv a b sel,
      delete_walInv hW.good.inv hW.tinv a b sel (stonesValid_holds d a b sel) hW.wal⟩
  | compact =>
    have happ : d.app = none := isNone_eq hok
    obtain ⟨r', hr', hG'⟩ := step_preserves2 hG2 .compact (by simp) happ
    exact ⟨r', hr', hG'.good, hG'.tinv, compact_xinv hW.good hW.xinv happ,
      compact_walInv hW.good hW.xinv happ hW.wal⟩
  | cleantomb =>
    simp only [stepOkB, decide_eq_true_eq] at hok
    obtain ⟨r', hr', hG'⟩ := step_preserves2 hG2 .cleantomb (by simp) trivial
    exact ⟨r', hr', hG'.good, hG'.tinv, cleantomb_xinv hW.xinv, cleantomb_walInv hW.wal hok⟩
  | q a b =>
    obtain ⟨r', hr', hG'⟩ := step_preserves2 hG2 (.q a b) (by simp) trivial
    exact ⟨r', hr', hG'.good, hG'.tinv, hW.xinv, hW.wal⟩
  | win =>
    obtain ⟨r', hr', hG'⟩ := step_preserves2 hG2 .win (by simp) trivial
    exact ⟨r', hr', hG'.good, hG'.tinv, hW.xinv, hW.wal⟩

theorem holdsFrom_runOkB : ∀ (ops : List Op) (d : Db) (r : Ref) (k : Nat), WGood d r → runOkB d ops = true →
    holdsFrom r (ops.zip (d.run ops)) k = none
  | [], _, _, _, _, _ => rfl
  | op :: ops, d, r, k, hW, hok => by
    simp only [runOkB, Bool.and_eq_true] at hok
    obtain ⟨r', hr', hW'⟩ := step_wgood hW op hok.1
    have hrun : d.run (op :: ops) = (d.step op).2 :: Db.run (d.step op).1 ops := rfl
    rw [hrun, List.zip_cons_cons]
    simp only [holdsFrom, hr']
    exact holdsFrom_runOkB ops _ r' (k + 1) hW' hok.2

end Prom.Db
