import PromModel.Tsdb.Appendable
/-
  Helper lemmas for PromProps/C02.lean (model: PromModel/Tsdb/Appendable.lean).
-/
namespace Prom.Admit

/-! ### OOO chunk -/

/-- strictly increasing timestamps -/
def SortedStrict : List Sample → Prop
  | [] => True
  | [_] => True
  | a :: b :: rest => a.t < b.t ∧ SortedStrict (b :: rest)

theorem SortedStrict.tail {a : Sample} {l : List Sample} (h : SortedStrict (a :: l)) : SortedStrict l := by
  cases l with
  | nil => trivial
  | cons b rest => exact h.2

theorem SortedStrict.head_lt {a : Sample} {l : List Sample} (h : SortedStrict (a :: l)) :
    ∀ y ∈ l, a.t < y.t := by
  induction l generalizing a with
  | nil => intro y hy; cases hy
  | cons b rest ih =>
    intro y hy
    rcases List.mem_cons.mp hy with rfl | hy
    · exact h.1
    · have := ih h.2 y hy
      have := h.1
      omega

theorem SortedStrict.cons_of {a : Sample} {l : List Sample} (hl : SortedStrict l) (h : ∀ y ∈ l, a.t < y.t) :
    SortedStrict (a :: l) := by
  cases l with
  | nil => trivial
  | cons b rest => exact ⟨h b (List.mem_cons_self), hl⟩

theorem oooInsert_some {l : List Sample} {x : Sample} {l' : List Sample} (hs : SortedStrict l)
    (h : oooInsert l x = some l') :
    SortedStrict l' ∧ (∀ y, y ∈ l' ↔ y = x ∨ y ∈ l) ∧ (∀ y ∈ l, y.t ≠ x.t) := by
  induction l generalizing l' with
  | nil =>
    simp [oooInsert] at h; subst h
    exact ⟨trivial, by simp, by simp⟩
  | cons a rest ih =>
    unfold oooInsert at h
    by_cases h1 : x.t < a.t
    · simp [h1] at h; subst h
      refine ⟨⟨h1, hs⟩, by simp, ?_⟩
      intro y hy
      rcases List.mem_cons.mp hy with rfl | hy
      · omega
      · have := hs.head_lt y hy; omega
    · by_cases h2 : x.t = a.t
      · simp [h2] at h
      · simp [h1, h2] at h
        obtain ⟨r, hr, rfl⟩ := h
        obtain ⟨s1, s2, s3⟩ := ih hs.tail hr
        refine ⟨?_, ?_, ?_⟩
        · apply SortedStrict.cons_of s1
          intro y hy
          rcases (s2 y).mp hy with rfl | hy
          · omega
          · exact hs.head_lt y hy
        · intro y; simp [s2 y]
          constructor
          · rintro (h | h | h) <;> simp [h]
          · rintro (h | h | h) <;> simp [h]
        · intro y hy
          rcases List.mem_cons.mp hy with rfl | hy
          · omega
          · exact s3 y hy

theorem oooInsert_none {l : List Sample} {x : Sample} (h : oooInsert l x = none) : ∃ y ∈ l, y.t = x.t := by
  induction l with
  | nil => simp [oooInsert] at h
  | cons a rest ih =>
    unfold oooInsert at h
    by_cases h1 : x.t < a.t
    · simp [h1] at h
    · by_cases h2 : x.t = a.t
      · exact ⟨a, List.mem_cons_self, h2.symm⟩
      · simp [h1, h2] at h
        obtain ⟨y, hy, e⟩ := ih h
        exact ⟨y, List.mem_cons_of_mem _ hy, e⟩

/-- Insert every sample of a sequence, ignoring refused ones (what `memSeries.insert` does with the
    result of `OOOChunk.Insert`). -/
def insertAll (l : List Sample) : List Sample → List Sample
  | [] => l
  | x :: xs => insertAll ((oooInsert l x).getD l) xs

theorem insertAll_spec (l xs : List Sample) (hs : SortedStrict l) :
    SortedStrict (insertAll l xs) ∧
    ∀ y, y ∈ insertAll l xs ↔
      y ∈ l ∨ ((∀ z ∈ l, z.t ≠ y.t) ∧ xs.find? (fun z => z.t == y.t) = some y) := by
  induction xs generalizing l with
  | nil => simp [insertAll, hs]
  | cons x xs ih =>
    unfold insertAll
    cases h : oooInsert l x with
    | none =>
      obtain ⟨z0, hz0, ez0⟩ := oooInsert_none h
      obtain ⟨i1, i2⟩ := ih l hs
      refine ⟨by simpa using i1, ?_⟩
      intro y
      simp only [Option.getD_none]
      rw [i2 y]
      constructor
      · rintro (h1 | ⟨h1, h2⟩)
        · exact Or.inl h1
        · right; refine ⟨h1, ?_⟩
          have : (x.t == y.t) = false := by
            have := h1 z0 hz0
            simp; omega
          simp [List.find?, this, h2]
      · rintro (h1 | ⟨h1, h2⟩)
        · exact Or.inl h1
        · right; refine ⟨h1, ?_⟩
          have : (x.t == y.t) = false := by
            have := h1 z0 hz0
            simp; omega
          simpa [List.find?, this] using h2
    | some l' =>
      obtain ⟨s1, s2, s3⟩ := oooInsert_some hs h
      obtain ⟨i1, i2⟩ := ih l' s1
      refine ⟨by simpa using i1, ?_⟩
      intro y
      simp only [Option.getD_some]
      rw [i2 y]
      constructor
      · rintro (h1 | ⟨h1, h2⟩)
        · rcases (s2 y).mp h1 with rfl | h1
          · right; exact ⟨fun z hz => s3 z hz, by simp [List.find?]⟩
          · exact Or.inl h1
        · right
          have hx : x.t ≠ y.t := h1 x ((s2 x).mpr (Or.inl rfl))
          refine ⟨fun z hz => h1 z ((s2 z).mpr (Or.inr hz)), ?_⟩
          have : (x.t == y.t) = false := by simp; omega
          simp [List.find?, this, h2]
      · rintro (h1 | ⟨h1, h2⟩)
        · exact Or.inl ((s2 y).mpr (Or.inr h1))
        · by_cases hx : x.t = y.t
          · have : (x.t == y.t) = true := by simp [hx]
            simp [List.find?, this] at h2
            subst h2
            exact Or.inl ((s2 x).mpr (Or.inl rfl))
          · right
            have : (x.t == y.t) = false := by simp; omega
            simp [List.find?, this] at h2
            refine ⟨?_, h2⟩
            intro z hz
            rcases (s2 z).mp hz with rfl | hz
            · exact hx
            · exact h1 z hz

/-! ### store -/

theorem Store.get_set_same (st : Store) (n : String) (s : Series) : (st.set n s).get n = s := by
  induction st with
  | nil => simp [Store.set, Store.get]
  | cons p rest ih =>
    obtain ⟨m, s'⟩ := p
    unfold Store.set
    by_cases h : m = n
    · simp [h, Store.get]
    · simp [h, Store.get, ih]

theorem Store.get_set_other (st : Store) (n m : String) (s : Series) (hne : m ≠ n) :
    (st.set n s).get m = st.get m := by
  induction st with
  | nil =>
    have : ¬ n = m := fun e => hne e.symm
    simp [Store.set, Store.get, this]
  | cons p rest ih =>
    obtain ⟨k, s'⟩ := p
    unfold Store.set
    by_cases h : k = n
    · subst h
      have : ¬ k = m := fun e => hne e.symm
      simp [Store.get, this]
    · by_cases h2 : k = m
      · subst h2; simp [h, Store.get]
      · simp [h, Store.get, h2, ih]

theorem CommitAcc.apply_get_same (acc : CommitAcc) (w : Window) (cap : Nat) (n : String) (x : Sample) :
    (acc.apply w cap n x).store.get n = (commitOne w cap (acc.store.get n) x).1 := by
  simp [CommitAcc.apply, Store.get_set_same]

theorem CommitAcc.apply_get_other (acc : CommitAcc) (w : Window) (cap : Nat) (n m : String) (x : Sample)
    (hne : m ≠ n) : (acc.apply w cap n x).store.get m = acc.store.get m := by
  simp [CommitAcc.apply, Store.get_set_other _ _ _ _ hne]

/-- the sequential, per-series reading of a commit: fold `commitOne` over the samples in list order -/
def seqSeries (w : Window) (cap : Nat) (s : Series) : List Sample → Series
  | [] => s
  | x :: xs => seqSeries w cap (commitOne w cap s x).1 xs

def samplesFor (n : String) (xs : List (String × Sample)) : List Sample :=
  (xs.filter (fun p => p.1 = n)).map (·.2)

theorem commitList_get (w : Window) (cap : Nat) (xs : List (String × Sample)) (acc : CommitAcc) (n : String) :
    (commitList w cap xs acc).store.get n = seqSeries w cap (acc.store.get n) (samplesFor n xs) := by
  induction xs generalizing acc with
  | nil => simp [commitList, samplesFor, seqSeries]
  | cons p rest ih =>
    obtain ⟨m, x⟩ := p
    unfold commitList
    rw [ih]
    by_cases h : m = n
    · subst h
      simp [samplesFor, seqSeries, CommitAcc.apply_get_same]
    · have hne : n ≠ m := fun e => h e.symm
      simp [samplesFor, h, CommitAcc.apply_get_other _ _ _ _ _ _ hne]

theorem commitList_append (w : Window) (cap : Nat) (l1 l2 : List (String × Sample)) (acc : CommitAcc) :
    commitList w cap (l1 ++ l2) acc = commitList w cap l2 (commitList w cap l1 acc) := by
  induction l1 generalizing acc with
  | nil => simp [commitList]
  | cons p rest ih => obtain ⟨m, x⟩ := p; simp [commitList, ih]

theorem commitFloats_nonstale (w : Window) (cap : Nat) (fs : List (String × Sample)) (acc : CommitAcc)
    (hs fhs : List (String × Sample)) (hns : ∀ p ∈ fs, isStale .f p.2.v = false) :
    commitFloats w cap fs acc hs fhs = (commitList w cap fs acc, hs, fhs) := by
  induction fs generalizing acc with
  | nil => simp [commitFloats, commitList]
  | cons p rest ih =>
    obtain ⟨m, x⟩ := p
    have hx : isStale .f x.v = false := hns (m, x) List.mem_cons_self
    unfold commitFloats
    simp only [hx, Bool.false_eq_true, if_false]
    rw [ih]
    · simp [commitList]
    · intro q hq; exact hns q (List.mem_cons_of_mem _ hq)

/-! ### batches -/

def pushAll (a : Appender) : List (String × Sample) → Appender
  | [] => a
  | (n, x) :: rest => pushAll (a.push n x) rest

theorem modifyLast_flatMap_append {α : Type} (bs : List Batch) (f : Batch → Batch) (sel : Batch → List α)
    (e : List α) (hne : bs ≠ []) (hf : ∀ b, sel (f b) = sel b ++ e) :
    (modifyLast bs f).flatMap sel = bs.flatMap sel ++ e := by
  induction bs with
  | nil => exact absurd rfl hne
  | cons b rest ih =>
    cases rest with
    | nil => simp [modifyLast, hf]
    | cons c rest' =>
      have := ih (by simp)
      simp only [modifyLast, List.flatMap_cons] at this ⊢
      rw [this]; simp

theorem modifyLast_flatMap_same {α : Type} (bs : List Batch) (f : Batch → Batch) (sel : Batch → List α)
    (hf : ∀ b, sel (f b) = sel b) :
    (modifyLast bs f).flatMap sel = bs.flatMap sel := by
  induction bs with
  | nil => simp [modifyLast]
  | cons b rest ih =>
    cases rest with
    | nil => simp [modifyLast, hf]
    | cons c rest' =>
      simp only [modifyLast, List.flatMap_cons] at ih ⊢
      rw [ih]

theorem pushInto_floats (b : Batch) (n : String) (x : Sample) :
    (pushInto b n x).floats = b.floats ++ (if x.kind = .f then [(n, x)] else []) := by
  unfold pushInto; cases h : x.kind <;> simp

theorem pushInto_hists (b : Batch) (n : String) (x : Sample) :
    (pushInto b n x).hists = b.hists ++ (if x.kind = .h then [(n, x)] else []) := by
  unfold pushInto; cases h : x.kind <;> simp

theorem pushInto_fhists (b : Batch) (n : String) (x : Sample) :
    (pushInto b n x).fhists = b.fhists ++ (if x.kind = .fh then [(n, x)] else []) := by
  unfold pushInto; cases h : x.kind <;> simp

theorem batchDecision_noBatch (types : List (String × SType)) (st : SType) (n : String) :
    (batchDecision true types st n).1 = true := by
  simp [batchDecision]

/-- Pushing a sample extends exactly one of the three flattened slices, at its end. -/
theorem push_flat {α : Type} (a : Appender) (n : String) (x : Sample) (sel : Batch → List α) (e : List α)
    (hsel : ∀ b, sel (pushInto b n x) = sel b ++ e) (hemp : sel {} = []) :
    (a.push n x).batches.flatMap sel = a.batches.flatMap sel ++ e := by
  unfold Appender.push
  cases hd : batchDecision a.batches.isEmpty a.types (stypeOf x.kind x.v) n with
  | mk isNew types =>
    cases isNew with
    | true => simp [hsel, hemp]
    | false =>
      have hne : a.batches ≠ [] := by
        intro he
        have := batchDecision_noBatch a.types (stypeOf x.kind x.v) n
        simp [he] at hd
        rw [hd] at this
        simp at this
      simp only [Bool.false_eq_true, if_false]
      exact modifyLast_flatMap_append _ _ _ _ hne hsel

theorem push_floats (a : Appender) (n : String) (x : Sample) :
    (a.push n x).batches.flatMap (·.floats) = a.batches.flatMap (·.floats) ++ (if x.kind = .f then [(n, x)] else []) :=
  push_flat a n x _ _ (fun b => pushInto_floats b n x) rfl

theorem push_hists (a : Appender) (n : String) (x : Sample) :
    (a.push n x).batches.flatMap (·.hists) = a.batches.flatMap (·.hists) ++ (if x.kind = .h then [(n, x)] else []) :=
  push_flat a n x _ _ (fun b => pushInto_hists b n x) rfl

theorem push_fhists (a : Appender) (n : String) (x : Sample) :
    (a.push n x).batches.flatMap (·.fhists) = a.batches.flatMap (·.fhists) ++ (if x.kind = .fh then [(n, x)] else []) :=
  push_flat a n x _ _ (fun b => pushInto_fhists b n x) rfl

theorem pushAll_flat (a : Appender) (xs : List (String × Sample)) :
    (pushAll a xs).batches.flatMap (·.floats) = a.batches.flatMap (·.floats) ++ xs.filter (fun p => p.2.kind = .f) ∧
    (pushAll a xs).batches.flatMap (·.hists) = a.batches.flatMap (·.hists) ++ xs.filter (fun p => p.2.kind = .h) ∧
    (pushAll a xs).batches.flatMap (·.fhists) = a.batches.flatMap (·.fhists) ++ xs.filter (fun p => p.2.kind = .fh) := by
  induction xs generalizing a with
  | nil => simp [pushAll]
  | cons p rest ih =>
    obtain ⟨n, x⟩ := p
    obtain ⟨i1, i2, i3⟩ := ih (a.push n x)
    unfold pushAll
    rw [i1, i2, i3, push_floats, push_hists, push_fhists]
    cases hk : x.kind <;> simp [List.filter, hk]

/-- With only one slice populated (and no float staleness marker), committing the batches is committing
    the flattened slice in order. -/
theorem commitBatches_single (w : Window) (cap : Nat) (bs : List Batch) (acc : CommitAcc)
    (hns : ∀ b ∈ bs, ∀ p ∈ b.floats, isStale .f p.2.v = false) :
    commitBatches w cap bs acc =
      bs.foldl (fun acc b =>
        commitList w cap b.fhists (commitList w cap b.hists (commitList w cap b.floats acc))) acc := by
  induction bs generalizing acc with
  | nil => simp [commitBatches]
  | cons b rest ih =>
    unfold commitBatches
    rw [ih _ (fun b' hb' => hns b' (List.mem_cons_of_mem _ hb'))]
    simp only [List.foldl_cons, commitBatch]
    rw [commitFloats_nonstale _ _ _ _ _ _ (hns b List.mem_cons_self)]

/-- batches whose `floats` and `fhists` slices are all empty -/
theorem foldl_only (w : Window) (cap : Nat) (bs : List Batch) (acc : CommitAcc)
    (sel : Batch → List (String × Sample))
    (hstep : ∀ b ∈ bs, ∀ acc, commitList w cap b.fhists (commitList w cap b.hists (commitList w cap b.floats acc))
        = commitList w cap (sel b) acc) :
    bs.foldl (fun acc b =>
        commitList w cap b.fhists (commitList w cap b.hists (commitList w cap b.floats acc))) acc
      = commitList w cap (bs.flatMap sel) acc := by
  induction bs generalizing acc with
  | nil => simp [commitList]
  | cons b rest ih =>
    simp only [List.foldl_cons, List.flatMap_cons, commitList_append]
    rw [hstep b List.mem_cons_self, ih _ (fun b' hb' => hstep b' (List.mem_cons_of_mem _ hb'))]

theorem flatMap_nil_mem {α : Type} {bs : List Batch} {sel : Batch → List α} (h : bs.flatMap sel = []) :
    ∀ b ∈ bs, sel b = [] := by
  intro b hb
  have := List.flatMap_eq_nil_iff.mp h
  exact this b hb

end Prom.Admit
