import PromModel.Tsdb.Appendable
/-
  Helper lemmas for PromProps/C02.lean (model: PromModel/Tsdb/Appendable.lean).
-/
namespace Prom.Admit

/-! ### OOO chunk -/

/-- strictly increasing timestamps -/
def SortedStrict : List Sample → Prop
  | [] => True
  | [_] => True
  | a :: b :: rest => a.t < b.t ∧ SortedStrict (b :: rest)

theorem SortedStrict.tail {a : Sample} {l : List Sample} (h : SortedStrict (a :: l)) : SortedStrict l := by
  cases l with
  | nil => trivial
  | cons b rest => exact h.2

theorem SortedStrict.head_lt {a : Sample} {l : List Sample} (h : SortedStrict (a :: l)) :
    ∀ y ∈ l, a.t < y.t := by
  induction l generalizing a with
  | nil => intro y hy; cases hy
  | cons b rest ih =>
    intro y hy
    rcases List.mem_cons.mp hy with rfl | hy
    · exact h.1
    · have := ih h.2 y hy
      have := h.1
      omega

theorem SortedStrict.cons_of {a : Sample} {l : List Sample} (hl : SortedStrict l) (h : ∀ y ∈ l, a.t < y.t) :
    SortedStrict (a :: l) := by
  cases l with
  | nil => trivial
  | cons b rest => exact ⟨h b (List.mem_cons_self), hl⟩

theorem oooInsert_some {l : List Sample} {x : Sample} {l' : List Sample} (hs : SortedStrict l)
    (h : oooInsert l x = some l') :
    SortedStrict l' ∧ (∀ y, y ∈ l' ↔ y = x ∨ y ∈ l) ∧ (∀ y ∈ l, y.t ≠ x.t) := by
  induction l generalizing l' with
  | nil =>
    simp [oooInsert] at h; subst h
    exact ⟨trivial, by simp, by simp⟩
  | cons a rest ih =>
    unfold oooInsert at h
    by_cases h1 : x.t < a.t
    · simp [h1] at h; subst h
      refine ⟨⟨h1, hs⟩, by simp, ?_⟩
      intro y hy
      rcases List.mem_cons.mp hy with rfl | hy
      · omega
      · have := hs.head_lt y hy; omega
    · by_cases h2 : x.t = a.t
      · simp [h2] at h
      · simp [h1, h2] at h
        obtain ⟨r, hr, rfl⟩ := h
        obtain ⟨s1, s2, s3⟩ := ih hs.tail hr
        refine ⟨?_, ?_, ?_⟩
        · apply SortedStrict.cons_of s1
          intro y hy
          rcases (s2 y).mp hy with rfl | hy
          · omega
          · exact hs.head_lt y hy
        · intro y; simp [s2 y]
          constructor
          · rintro (h | h | h) <;> simp [h]
          · rintro (h | h | h) <;> simp [h]
        · intro y hy
          rcases List.mem_cons.mp hy with rfl | hy
          · omega
          · exact s3 y hy

theorem oooInsert_none {l : List Sample} {x : Sample} (h : oooInsert l x = none) : ∃ y ∈ l, y.t = x.t := by
  induction l with
  | nil => simp [oooInsert] at h
  | cons a rest ih =>
    unfold oooInsert at h
    by_cases h1 : x.t < a.t
    · simp [h1] at h
    · by_cases h2 : x.t = a.t
      · exact ⟨a, List.mem_cons_self, h2.symm⟩
      · simp [h1, h2] at h
        obtain ⟨y, hy, e⟩ := ih h
        exact ⟨y, List.mem_cons_of_mem _ hy, e⟩

/-- Insert every sample of a sequence, ignoring refused ones (what `memSeries.insert` does with the
    result of `OOOChunk.Insert`). -/
def insertAll (l : List Sample) : List Sample → List Sample
  | [] => l
  | x :: xs => insertAll ((oooInsert l x).getD l) xs

theorem insertAll_spec (l xs : List Sample) (hs : SortedStrict l) :
    SortedStrict (insertAll l xs) ∧
    ∀ y, y ∈ insertAll l xs ↔
      y ∈ l ∨ ((∀ z ∈ l, z.t ≠ y.t) ∧ xs.find? (fun z => z.t == y.t) = some y) := by
  induction xs generalizing l with
  | nil => simp [insertAll, hs]
  | cons x xs ih =>
    unfold insertAll
    cases h : oooInsert l x with
    | none =>
      obtain ⟨z0, hz0, ez0⟩ := oooInsert_none h
      obtain ⟨i1, i2⟩ := ih l hs
      refine ⟨by simpa using i1, ?_⟩
      intro y
      simp only [Option.getD_none]
      rw [i2 y]
      constructor
      · rintro (h1 | ⟨h1, h2⟩)
        · exact Or.inl h1
        · right; refine ⟨h1, ?_⟩
          have : (x.t == y.t) = false := by
            have := h1 z0 hz0
            simp; omega
          simp [List.find?, this, h2]
      · rintro (h1 | ⟨h1, h2⟩)
        · exact Or.inl h1
        · right; refine ⟨h1, ?_⟩
          have : (x.t == y.t) = false := by
            have := h1 z0 hz0
            simp; omega
          simpa [List.find?, this] using h2
    | some l' =>
      obtain ⟨s1, s2, s3⟩ := oooInsert_some hs h
      obtain ⟨i1, i2⟩ := ih l' s1
      refine ⟨by simpa using i1, ?_⟩
      intro y
      simp only [Option.getD_some]
      rw [i2 y]
      constructor
      · rintro (h1 | ⟨h1, h2⟩)
        · rcases (s2 y).mp h1 with rfl | h1
          · right; exact ⟨fun z hz => s3 z hz, by simp [List.find?]⟩
          · exact Or.inl h1
        · right
          have hx : x.t ≠ y.t := h1 x ((s2 x).mpr (Or.inl rfl))
          refine ⟨fun z hz => h1 z ((s2 z).mpr (Or.inr hz)), ?_⟩
          have : (x.t == y.t) = false := by simp; omega
          simp [List.find?, this, h2]
      · rintro (h1 | ⟨h1, h2⟩)
        · exact Or.inl ((s2 y).mpr (Or.inr h1))
        · by_cases hx : x.t = y.t
          · have : (x.t == y.t) = true := by simp [hx]
            simp [List.find?, this] at h2
            subst h2
            exact Or.inl ((s2 x).mpr (Or.inl rfl))
          · right
            have : (x.t == y.t) = false := by simp; omega
            simp [List.find?, this] at h2
            refine ⟨?_, h2⟩
            intro z hz
            rcases (s2 z).mp hz with rfl | hz
            · exact hx
            · exact h1 z hz

/-! ### store -/

theorem Store.get_set_same (st : Store) (n : String) (s : Series) : (st.set n s).get n = s := by
  induction st with
  | nil => simp [Store.set, Store.get]
  | cons p rest ih =>
    obtain ⟨m, s'⟩ := p
    unfold Store.set
    by_cases h : m = n
    · simp [h, Store.get]
    · simp [h, Store.get, ih]

theorem Store.get_set_other (st : Store) (n m : String) (s : Series) (hne : m ≠ n) :
    (st.set n s).get m = st.get m := by
  induction st with
  | nil =>
    have : ¬ n = m := fun e => hne e.symm
    simp [Store.set, Store.get, this]
  | cons p rest ih =>
    obtain ⟨k, s'⟩ := p
    unfold Store.set
    by_cases h : k = n
    · subst h
      have : ¬ k = m := fun e => hne e.symm
      simp [Store.get, this]
    · by_cases h2 : k = m
      · subst h2; simp [h, Store.get]
      · simp [h, Store.get, h2, ih]

theorem CommitAcc.apply_get_same (acc : CommitAcc) (w : Window) (cap : Nat) (n : String) (x : Sample) :
    (acc.apply w cap n x).store.get n = (commitOne w cap (acc.store.get n) x).1 := by
  simp [CommitAcc.apply, Store.get_set_same]

theorem CommitAcc.apply_get_other (acc : CommitAcc) (w : Window) (cap : Nat) (n m : String) (x : Sample)
    (hne : m ≠ n) : (acc.apply w cap n x).store.get m = acc.store.get m := by
  simp [CommitAcc.apply, Store.get_set_other _ _ _ _ hne]

/-- the sequential, per-series reading of a commit: fold `commitOne` over the samples in list order -/
def seqSeries (w : Window) (cap : Nat) (s : Series) : List Sample → Series
  | [] => s
  | x :: xs => seqSeries w cap (commitOne w cap s x).1 xs

def samplesFor (n : String) (xs : List (String × Sample)) : List Sample :=
  (xs.filter (fun p => p.1 = n)).map (·.2)

theorem commitList_get (w : Window) (cap : Nat) (xs : List (String × Sample)) (acc : CommitAcc) (n : String) :
    (commitList w cap xs acc).store.get n = seqSeries w cap (acc.store.get n) (samplesFor n xs) := by
  induction xs generalizing acc with
  | nil => simp [commitList, samplesFor, seqSeries]
  | cons p rest ih =>
    obtain ⟨m, x⟩ := p
    unfold commitList
    rw [ih]
    by_cases h : m = n
    · subst h
      simp [samplesFor, seqSeries, CommitAcc.apply_get_same]
    · have hne : n ≠ m := fun e => h e.symm
      simp [samplesFor, h, CommitAcc.apply_get_other _ _ _ _ _ _ hne]

theorem commitList_append (w : Window) (cap : Nat) (l1 l2 : List (String × Sample)) (acc : CommitAcc) :
    commitList w cap (l1 ++ l2) acc = commitList w cap l2 (commitList w cap l1 acc) := by
  induction l1 generalizing acc with
  | nil => simp [commitList]
  | cons p rest ih => obtain ⟨m, x⟩ := p; simp [commitList, ih]

theorem commitFloats_nonstale (w : Window) (cap : Nat) (fs : List (String × Sample)) (acc : CommitAcc)
    (hs fhs : List (String × Sample)) (hns : ∀ p ∈ fs, isStale .f p.2.v = false) :
    commitFloats w cap fs acc hs fhs = (commitList w cap fs acc, hs, fhs) := by
  induction fs generalizing acc with
  | nil => simp [commitFloats, commitList]
  | cons p rest ih =>
    obtain ⟨m, x⟩ := p
    have hx : isStale .f x.v = false := hns (m, x) List.mem_cons_self
    unfold commitFloats
    simp only [hx, Bool.false_eq_true, if_false]
    rw [ih]
    · simp [commitList]
    · intro q hq; exact hns q (List.mem_cons_of_mem _ hq)

/-! ### batches -/

def pushAll (a : Appender) : List (String × Sample) → Appender
  | [] => a
  | (n, x) :: rest => pushAll (a.push n x) rest

theorem modifyLast_flatMap_append {α : Type} (bs : List Batch) (f : Batch → Batch) (sel : Batch → List α)
    (e : List α) (hne : bs ≠ []) (hf : ∀ b, sel (f b) = sel b ++ e) :
    (modifyLast bs f).flatMap sel = bs.flatMap sel ++ e := by
  induction bs with
  | nil => exact absurd rfl hne
  | cons b rest ih =>
    cases rest with
    | nil => simp [modifyLast, hf]
    | cons c rest' =>
      have := ih (by simp)
      simp only [modifyLast, List.flatMap_cons] at this ⊢
      rw [this]; simp

theorem modifyLast_flatMap_same {α : Type} (bs : List Batch) (f : Batch → Batch) (sel : Batch → List α)
    (hf : ∀ b, sel (f b) = sel b) :
    (modifyLast bs f).flatMap sel = bs.flatMap sel := by
  induction bs with
  | nil => simp [modifyLast]
  | cons b rest ih =>
    cases rest with
    | nil => simp [modifyLast, hf]
    | cons c rest' =>
      simp only [modifyLast, List.flatMap_cons] at ih ⊢
      rw [ih]

theorem pushInto_floats (b : Batch) (n : String) (x : Sample) :
    (pushInto b n x).floats = b.floats ++ (if x.kind = .f then [(n, x)] else []) := by
  unfold pushInto; cases h : x.kind <;> simp

theorem pushInto_hists (b : Batch) (n : String) (x : Sample) :
    (pushInto b n x).hists = b.hists ++ (if x.kind = .h then [(n, x)] else []) := by
  unfold pushInto; cases h : x.kind <;> simp

theorem pushInto_fhists (b : Batch) (n : String) (x : Sample) :
    (pushInto b n x).fhists = b.fhists ++ (if x.kind = .fh then [(n, x)] else []) := by
  unfold pushInto; cases h : x.kind <;> simp

theorem batchDecision_noBatch (types : List (String × SType)) (st : SType) (n : String) :
    (batchDecision true types st n).1 = true := by
  simp [batchDecision]

/-- Pushing a sample extends exactly one of the three flattened slices, at its end. -/
theorem push_flat {α : Type} (a : Appender) (n : String) (x : Sample) (sel : Batch → List α) (e : List α)
    (hsel : ∀ b, sel (pushInto b n x) = sel b ++ e) (hemp : sel {} = []) :
    (a.push n x).batches.flatMap sel = a.batches.flatMap sel ++ e := by
  unfold Appender.push
  cases hd : batchDecision a.batches.isEmpty a.types (stypeOf x.kind x.v) n with
  | mk isNew types =>
    cases isNew with
    | true => simp [hsel, hemp]
    | false =>
      have hne : a.batches ≠ [] := by
        intro he
        have := batchDecision_noBatch a.types (stypeOf x.kind x.v) n
        simp [he] at hd
        rw [hd] at this
        simp at this
      simp only [Bool.false_eq_true, if_false]
      exact modifyLast_flatMap_append _ _ _ _ hne hsel

theorem push_floats (a : Appender) (n : String) (x : Sample) :
    (a.push n x).batches.flatMap (·.floats) = a.batches.flatMap (·.floats) ++ (if x.kind = .f then [(n, x)] else []) :=
  push_flat a n x _ _ (fun b => pushInto_floats b n x) rfl

theorem push_hists (a : Appender) (n : String) (x : Sample) :
    (a.push n x).batches.flatMap (·.hists) = a.batches.flatMap (·.hists) ++ (if x.kind = .h then [(n, x)] else []) :=
  push_flat a n x _ _ (fun b => pushInto_hists b n x) rfl

theorem push_fhists (a : Appender) (n : String) (x : Sample) :
    (a.push n x).batches.flatMap (·.fhists) = a.batches.flatMap (·.fhists) ++ (if x.kind = .fh then [(n, x)] else []) :=
  push_flat a n x _ _ (fun b => pushInto_fhists b n x) rfl

theorem pushAll_flat (a : Appender) (xs : List (String × Sample)) :
    (pushAll a xs).batches.flatMap (·.floats) = a.batches.flatMap (·.floats) ++ xs.filter (fun p => p.2.kind = .f) ∧
    (pushAll a xs).batches.flatMap (·.hists) = a.batches.flatMap (·.hists) ++ xs.filter (fun p => p.2.kind = .h) ∧
    (pushAll a xs).batches.flatMap (·.fhists) = a.batches.flatMap (·.fhists) ++ xs.filter (fun p => p.2.kind = .fh) := by
  induction xs generalizing a with
  | nil => simp [pushAll]
  | cons p rest ih =>
    obtain ⟨n, x⟩ := p
    obtain ⟨i1, i2, i3⟩ := ih (a.push n x)
    unfold pushAll
    rw [i1, i2, i3, push_floats, push_hists, push_fhists]
    cases hk : x.kind <;> simp [List.filter, hk]

/-- With only one slice populated (and no float staleness marker), committing the batches is committing
    the flattened slice in order. -/
theorem commitBatches_single (w : Window) (cap : Nat) (bs : List Batch) (acc : CommitAcc)
    (hns : ∀ b ∈ bs, ∀ p ∈ b.floats, isStale .f p.2.v = false) :
    commitBatches w cap bs acc =
      bs.foldl (fun acc b =>
        commitList w cap b.fhists (commitList w cap b.hists (commitList w cap b.floats acc))) acc := by
  induction bs generalizing acc with
  | nil => simp [commitBatches]
  | cons b rest ih =>
    unfold commitBatches
    rw [ih _ (fun b' hb' => hns b' (List.mem_cons_of_mem _ hb'))]
    simp only [List.foldl_cons, commitBatch]
    rw [commitFloats_nonstale _ _ _ _ _ _ (hns b List.mem_cons_self)]

/-- batches whose `floats` and `fhists` slices are all empty -/
theorem foldl_only (w : Window) (cap : Nat) (bs : List Batch) (acc : CommitAcc)
    (sel : Batch → List (String × Sample))
    (hstep : ∀ b ∈ bs, ∀ acc, commitList w cap b.fhists (commitList w cap b.hists (commitList w cap b.floats acc))
        = commitList w cap (sel b) acc) :
    bs.foldl (fun acc b =>
        commitList w cap b.fhists (commitList w cap b.hists (commitList w cap b.floats acc))) acc
      = commitList w cap (bs.flatMap sel) acc := by
  induction bs generalizing acc with
  | nil => simp [commitList]
  | cons b rest ih =>
    simp only [List.foldl_cons, List.flatMap_cons, commitList_append]
    rw [hstep b List.mem_cons_self, ih _ (fun b' hb' => hstep b' (List.mem_cons_of_mem _ hb'))]

theorem flatMap_nil_mem {α : Type} {bs : List Batch} {sel : Batch → List α} (h : bs.flatMap sel = []) :
    ∀ b ∈ bs, sel b = [] := by
  intro b hb
  have := List.flatMap_eq_nil_iff.mp h
  exact this b hb

/-- every sample a series holds: in-order chunk(s), OOO head chunk, flushed OOO chunks -/
def Series.all (s : Series) : List Sample := s.inorder ++ (s.oooHead.getD []) ++ s.oooMmapped.flatten

theorem oooInsert_mem_sub {l l' : List Sample} {x y : Sample} (h : oooInsert l x = some l') (hy : y ∈ l') :
    y = x ∨ y ∈ l := by
  induction l generalizing l' with
  | nil => simp [oooInsert] at h; subst h; simpa using hy
  | cons a rest ih =>
    unfold oooInsert at h
    by_cases h1 : x.t < a.t
    · simp [h1] at h; subst h; simpa using hy
    · by_cases h2 : x.t = a.t
      · simp [h2] at h
      · simp [h1, h2] at h
        obtain ⟨r, hr, rfl⟩ := h
        rcases List.mem_cons.mp hy with rfl | hy
        · exact Or.inr List.mem_cons_self
        · rcases ih hr hy with e | e
          · exact Or.inl e
          · exact Or.inr (List.mem_cons_of_mem _ e)

theorem insertOOO_mem (s : Series) (cap : Nat) (x y : Sample) (hy : y ∈ (s.insertOOO cap x).1.all) :
    y = x ∨ y ∈ s.all := by
  unfold Series.insertOOO at hy
  cases ho : s.oooHead with
  | none =>
    simp only [ho] at hy
    simp [oooInsert, Series.all, ho] at hy ⊢
    rcases hy with h | h | h
    · exact Or.inr (Or.inl h)
    · exact Or.inl h
    · exact Or.inr (Or.inr h)
  | some c =>
    simp only [ho] at hy
    by_cases hc : c.length = cap
    · simp only [hc, if_true] at hy
      simp [oooInsert, Series.all, ho] at hy ⊢
      rcases hy with h | h | h | h
      · exact Or.inr (Or.inl h)
      · exact Or.inl h
      · exact Or.inr (Or.inr (Or.inr h))
      · exact Or.inr (Or.inr (Or.inl h))
    · simp only [hc, if_false] at hy
      cases hi : oooInsert c x with
      | none =>
        simp [hi, Series.all, ho] at hy ⊢
        exact Or.inr hy
      | some c' =>
        simp [hi, Series.all, ho] at hy ⊢
        rcases hy with h | h | h
        · simp [h]
        · rcases oooInsert_mem_sub hi h with e | e <;> simp [e]
        · simp [h]

theorem appendInOrder_mem (s : Series) (x y : Sample) (hy : y ∈ (s.appendInOrder x).1.all) :
    y = x ∨ y ∈ s.all := by
  unfold Series.appendInOrder at hy
  cases hi : s.inorder with
  | nil =>
    simp [hi, Series.all] at hy ⊢
    rcases hy with h | h | h <;> simp [h]
  | cons a rest =>
    simp only [hi] at hy
    by_cases hc : a.t ≥ x.t
    · simp only [hc, if_true] at hy; exact Or.inr hy
    · simp only [hc, if_false] at hy
      simp [Series.all, hi] at hy ⊢
      rcases hy with h | h | h | h | h <;> simp [h]

theorem commitOne_mem (w : Window) (cap : Nat) (s : Series) (x y : Sample)
    (hy : y ∈ (commitOne w cap s x).1.all) : y = x ∨ y ∈ s.all := by
  unfold commitOne at hy
  cases ha : appendable x.kind x.t x.v s.view w with
  | error e => simp [ha] at hy; exact Or.inr hy
  | ok ad =>
    cases ad with
    | ooo => simp [ha] at hy; exact insertOOO_mem _ _ _ _ hy
    | inOrder => simp [ha] at hy; exact appendInOrder_mem _ _ _ hy

theorem seqSeries_mem (w : Window) (cap : Nat) (s : Series) (xs : List Sample) (y : Sample)
    (hy : y ∈ (seqSeries w cap s xs).all) : y ∈ xs ∨ y ∈ s.all := by
  induction xs generalizing s with
  | nil => exact Or.inr hy
  | cons x rest ih =>
    rcases ih _ hy with h | h
    · exact Or.inl (List.mem_cons_of_mem _ h)
    · rcases commitOne_mem _ _ _ _ _ h with e | e
      · exact Or.inl (e ▸ List.mem_cons_self)
      · exact Or.inr e

theorem commitList_mem (w : Window) (cap : Nat) (xs : List (String × Sample)) (acc : CommitAcc) (n : String)
    (y : Sample) (hy : y ∈ ((commitList w cap xs acc).store.get n).all) :
    (n, y) ∈ xs ∨ y ∈ (acc.store.get n).all := by
  rw [commitList_get] at hy
  rcases seqSeries_mem _ _ _ _ _ hy with h | h
  · left
    simp [samplesFor] at h
    exact h
  · exact Or.inr h

/-- the histogram / float-histogram staleness marker a float staleness marker may be converted into -/
def lateConv (x : Sample) (k : Kind) : Sample := { x with kind := k, v := 0 }

theorem commitFloats_mem (w : Window) (cap : Nat) (fs : List (String × Sample)) (acc : CommitAcc)
    (hs fhs : List (String × Sample)) :
    let r := commitFloats w cap fs acc hs fhs
    (∀ n y, y ∈ (r.1.store.get n).all → (n, y) ∈ fs ∨ y ∈ (acc.store.get n).all) ∧
    (∀ p ∈ r.2.1, p ∈ hs ∨ ∃ x, (p.1, x) ∈ fs ∧ isStale .f x.v = true ∧ p.2 = lateConv x .h) ∧
    (∀ p ∈ r.2.2, p ∈ fhs ∨ ∃ x, (p.1, x) ∈ fs ∧ isStale .f x.v = true ∧ p.2 = lateConv x .fh) := by
  induction fs generalizing acc hs fhs with
  | nil => simp [commitFloats]
  | cons q rest ih =>
    obtain ⟨m, x⟩ := q
    have step : ∀ (acc' : CommitAcc), acc' = acc.apply w cap m x →
        ∀ n y, y ∈ (acc'.store.get n).all → (n, y) = (m, x) ∨ y ∈ (acc.store.get n).all := by
      intro acc' e n y hy
      subst e
      by_cases hn : n = m
      · subst hn
        rw [CommitAcc.apply_get_same] at hy
        rcases commitOne_mem _ _ _ _ _ hy with e | e
        · exact Or.inl (by rw [e])
        · exact Or.inr e
      · rw [CommitAcc.apply_get_other _ _ _ _ _ _ hn] at hy
        exact Or.inr hy
    have plain : ∀ r, r = commitFloats w cap rest (acc.apply w cap m x) hs fhs →
        (∀ n y, y ∈ (r.1.store.get n).all → (n, y) ∈ (m, x) :: rest ∨ y ∈ (acc.store.get n).all) ∧
        (∀ p ∈ r.2.1, p ∈ hs ∨ ∃ x', (p.1, x') ∈ (m, x) :: rest ∧ isStale .f x'.v = true ∧ p.2 = lateConv x' .h) ∧
        (∀ p ∈ r.2.2, p ∈ fhs ∨ ∃ x', (p.1, x') ∈ (m, x) :: rest ∧ isStale .f x'.v = true ∧ p.2 = lateConv x' .fh) := by
      intro r hr
      obtain ⟨i1, i2, i3⟩ := ih (acc.apply w cap m x) hs fhs
      subst hr
      refine ⟨?_, ?_, ?_⟩
      · intro n y hy
        rcases i1 n y hy with h | h
        · exact Or.inl (List.mem_cons_of_mem _ h)
        · rcases step _ rfl n y h with e | e
          · exact Or.inl (e ▸ List.mem_cons_self)
          · exact Or.inr e
      · intro p hp
        rcases i2 p hp with h | ⟨x', h1, h2, h3⟩
        · exact Or.inl h
        · exact Or.inr ⟨x', List.mem_cons_of_mem _ h1, h2, h3⟩
      · intro p hp
        rcases i3 p hp with h | ⟨x', h1, h2, h3⟩
        · exact Or.inl h
        · exact Or.inr ⟨x', List.mem_cons_of_mem _ h1, h2, h3⟩
    intro r
    show _ ∧ _ ∧ _
    have hr : r = commitFloats w cap ((m, x) :: rest) acc hs fhs := rfl
    unfold commitFloats at hr
    by_cases hst : isStale .f x.v = true
    · simp only [hst, if_true] at hr
      by_cases c1 : (acc.store.get m).view.hasHead = true ∧ (acc.store.get m).view.lastKind = Kind.h
      · simp only [c1, and_self, if_true] at hr
        obtain ⟨i1, i2, i3⟩ := ih acc (hs ++ [(m, { x with kind := .h, v := 0 })]) fhs
        rw [hr]
        refine ⟨?_, ?_, ?_⟩
        · intro n y hy
          rcases i1 n y hy with h | h
          · exact Or.inl (List.mem_cons_of_mem _ h)
          · exact Or.inr h
        · intro p hp
          rcases i2 p hp with h | ⟨x', h1, h2, h3⟩
          · rcases List.mem_append.mp h with h | h
            · exact Or.inl h
            · simp at h; subst h
              exact Or.inr ⟨x, List.mem_cons_self, hst, rfl⟩
          · exact Or.inr ⟨x', List.mem_cons_of_mem _ h1, h2, h3⟩
        · intro p hp
          rcases i3 p hp with h | ⟨x', h1, h2, h3⟩
          · exact Or.inl h
          · exact Or.inr ⟨x', List.mem_cons_of_mem _ h1, h2, h3⟩
      · simp only [c1, if_false] at hr
        by_cases c2 : (acc.store.get m).view.hasHead = true ∧ (acc.store.get m).view.lastKind = Kind.fh
        · simp only [c2, and_self, if_true] at hr
          obtain ⟨i1, i2, i3⟩ := ih acc hs (fhs ++ [(m, { x with kind := .fh, v := 0 })])
          rw [hr]
          refine ⟨?_, ?_, ?_⟩
          · intro n y hy
            rcases i1 n y hy with h | h
            · exact Or.inl (List.mem_cons_of_mem _ h)
            · exact Or.inr h
          · intro p hp
            rcases i2 p hp with h | ⟨x', h1, h2, h3⟩
            · exact Or.inl h
            · exact Or.inr ⟨x', List.mem_cons_of_mem _ h1, h2, h3⟩
          · intro p hp
            rcases i3 p hp with h | ⟨x', h1, h2, h3⟩
            · rcases List.mem_append.mp h with h | h
              · exact Or.inl h
              · simp at h; subst h
                exact Or.inr ⟨x, List.mem_cons_self, hst, rfl⟩
            · exact Or.inr ⟨x', List.mem_cons_of_mem _ h1, h2, h3⟩
        · simp only [c2, if_false] at hr
          exact plain r hr
    · simp only [hst, Bool.false_eq_true, if_false] at hr
      exact plain r hr

/-- `(n, y)` is a sample handed to `Commit` in batch `b`, or the staleness-marker conversion of one -/
def Batch.offers (b : Batch) (n : String) (y : Sample) : Prop :=
  (n, y) ∈ b.floats ∨ (n, y) ∈ b.hists ∨ (n, y) ∈ b.fhists ∨
  ∃ x, (n, x) ∈ b.floats ∧ isStale .f x.v = true ∧ (y = lateConv x .h ∨ y = lateConv x .fh)

theorem commitBatch_mem (w : Window) (cap : Nat) (acc : CommitAcc) (b : Batch) (n : String) (y : Sample)
    (hy : y ∈ ((commitBatch w cap acc b).store.get n).all) : b.offers n y ∨ y ∈ (acc.store.get n).all := by
  unfold commitBatch at hy
  have hm := commitFloats_mem w cap b.floats acc b.hists b.fhists
  cases hr : commitFloats w cap b.floats acc b.hists b.fhists with
  | mk acc1 rest =>
    obtain ⟨hs', fhs'⟩ := rest
    simp only [hr] at hy hm
    obtain ⟨m1, m2, m3⟩ := hm
    rcases commitList_mem _ _ _ _ _ _ hy with h | h
    · rcases m3 _ h with h | ⟨x, h1, h2, h3⟩
      · exact Or.inl (Or.inr (Or.inr (Or.inl h)))
      · exact Or.inl (Or.inr (Or.inr (Or.inr ⟨x, h1, h2, Or.inr h3⟩)))
    · rcases commitList_mem _ _ _ _ _ _ h with h | h
      · rcases m2 _ h with h | ⟨x, h1, h2, h3⟩
        · exact Or.inl (Or.inr (Or.inl h))
        · exact Or.inl (Or.inr (Or.inr (Or.inr ⟨x, h1, h2, Or.inl h3⟩)))
      · rcases m1 n y h with h | h
        · exact Or.inl (Or.inl h)
        · exact Or.inr h

theorem commitBatches_mem (w : Window) (cap : Nat) (bs : List Batch) (acc : CommitAcc) (n : String) (y : Sample)
    (hy : y ∈ ((commitBatches w cap bs acc).store.get n).all) :
    (∃ b ∈ bs, b.offers n y) ∨ y ∈ (acc.store.get n).all := by
  induction bs generalizing acc with
  | nil => exact Or.inr hy
  | cons b rest ih =>
    unfold commitBatches at hy
    rcases ih _ hy with ⟨b', hb', ho⟩ | h
    · exact Or.inl ⟨b', List.mem_cons_of_mem _ hb', ho⟩
    · rcases commitBatch_mem _ _ _ _ _ _ h with h | h
      · exact Or.inl ⟨b, List.mem_cons_self, h⟩
      · exact Or.inr h

/-! ### Append: a rejected sample leaves the appender untouched -/

theorem rejStr_ne_ok (e : Reject) : rejStr e ≠ "ok" := by cases e <;> decide

theorem append_rejected (a : Appender) (st : Store) (n : String) (x : Sample)
    (h : (a.append st n x).2.2 ≠ "ok") : (a.append st n x).1 = a := by
  unfold Appender.append Appender.appendWith at h ⊢
  by_cases c : a.w.oooWin = 0 ∧ x.t < a.w.minValid
  · simp [c]
  · simp only [c, if_false] at h ⊢
    split at h <;> split <;> simp_all

theorem append_store_all (a : Appender) (st : Store) (n : String) (x : Sample) (m : String) :
    ((a.append st n x).2.1.get m).all = (st.get m).all := by
  have key : ∀ st' : Store, (st' = match st.find? (·.1 = n) with | some _ => st | none => st ++ [(n, {})]) →
      (st'.get m).all = (st.get m).all := by
    intro st' e
    subst e
    cases hf : st.find? (·.1 = n) with
    | some _ => rfl
    | none =>
      simp only
      have : ∀ (l : Store), l.find? (·.1 = n) = none → ((l ++ [(n, ({} : Series))]).get m).all = (l.get m).all := by
        intro l
        induction l with
        | nil => intro _; by_cases e : n = m <;> simp [Store.get, e, Series.all]
        | cons p rest ih =>
          intro hl
          obtain ⟨k, s⟩ := p
          simp [List.find?] at hl
          by_cases e : k = m
          · simp [Store.get, e]
          · simp [Store.get, e]
            apply ih
            by_cases e2 : k = n
            · simp [e2] at hl
            · simpa [e2] using hl
      exact this st hf
  unfold Appender.append Appender.appendWith
  by_cases c : a.w.oooWin = 0 ∧ x.t < a.w.minValid
  · simp [c]
  · simp only [c, if_false]
    split <;> exact key _ rfl


theorem materialise_store (h : Head) (a : Appender) (t : Int) : (materialise h a t).1.store = h.store := by
  unfold materialise
  by_cases c : a.live = true
  · simp [c]
  · simp only [c]
    by_cases c2 : h.initialized = true <;> simp [c2]

theorem only_commit_stores_aux0 (s : State) (hc : s.cfg = true) (tk : List String) (hne : tk ≠ ["commit"])
    (m : String) : ((stepT0 s tk).1.head.store.get m).all = (s.head.store.get m).all := by
  unfold stepT0
  split
  · -- cfg
    simp only [hc]
  · simp only [hc, Bool.not_true, Bool.false_eq_true, if_false]
    split
    · split
      · split <;> rfl
      · rfl
    · split <;> rfl
    · split
      · rfl
      · split <;> rfl
    · split <;> rfl
    · split
      · rfl
      · split
        · rfl
        · split
          · rfl
          · simp only
            rw [append_store_all, materialise_store]
    · exact absurd rfl hne
    · split <;> rfl
    · rfl
    · rfl

/-- the same for the slot-addressed machine: only `commit`, `@1 commit`, `@2 commit` store -/
theorem only_commit_stores_aux (s : State) (hc : s.cfg = true) (tk : List String)
    (hne : tk ≠ ["commit"] ∧ tk ≠ ["@1", "commit"] ∧ tk ≠ ["@2", "commit"])
    (m : String) : ((stepT s tk).1.head.store.get m).all = (s.head.store.get m).all := by
  unfold stepT
  split
  · rename_i rest
    by_cases c : slotOp rest = true
    · simp only [c, if_true]
      have hr : rest ≠ ["commit"] := fun e => hne.2.1 (by rw [e])
      exact only_commit_stores_aux0 s.swap1 hc rest hr m
    · simp [c]
  · rename_i rest
    by_cases c : slotOp rest = true
    · simp only [c, if_true]
      have hr : rest ≠ ["commit"] := fun e => hne.2.2 (by rw [e])
      exact only_commit_stores_aux0 s.swap2 hc rest hr m
    · simp [c]
  · exact only_commit_stores_aux0 s hc tk hne.1 m

/-! ### overlapping appenders: an op touches only the appender slot it addresses -/

theorem stepT0_other_slots (s : State) (tk : List String) :
    (stepT0 s tk).1.app1 = s.app1 ∧ (stepT0 s tk).1.app2 = s.app2 := by
  unfold stepT0
  repeat' split
  all_goals exact ⟨rfl, rfl⟩

theorem stepT0_cfg (s : State) (hc : s.cfg = true) (tk : List String) : (stepT0 s tk).1.cfg = true := by
  unfold stepT0
  repeat' split
  all_goals first | exact hc | rfl

theorem stepT_cfg (s : State) (hc : s.cfg = true) (tk : List String) : (stepT s tk).1.cfg = true := by
  unfold stepT
  split
  · split
    · exact stepT0_cfg s.swap1 hc _
    · exact hc
  · split
    · exact stepT0_cfg s.swap2 hc _
    · exact hc
  · exact stepT0_cfg s hc tk

/-- the run of a list of tokenised ops -/
def runT (s : State) (ops : List (List String)) : State := ops.foldl (fun s tk => (stepT s tk).1) s

theorem runT_cfg (s : State) (hc : s.cfg = true) (ops : List (List String)) : (runT s ops).cfg = true := by
  induction ops generalizing s with
  | nil => exact hc
  | cons tk rest ih => exact ih _ (stepT_cfg s hc tk)

end Prom.Admit
