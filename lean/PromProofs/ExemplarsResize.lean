import PromProofs.ExemplarsOrd
/-
  `Resize` preserves the ring-order invariant: the resized ring holds the last `l` retained exemplars
  in acceptance order (`resize_ringOrd`), for the no-op, `grow` and `shrink` paths.
-/
namespace Prom.Exemplars

/-- what `contents` sees of an entry -/
def cOf (e : Entry) : Option (Nat × Ex) := e.ref.map fun s => (s, e.ex)

theorem contents_eq_cOf (r : Ring) : contents r = r.exs.map cOf := rfl

theorem cOf_zero : cOf Entry.zero = none := rfl

/-- The slots `copyRanges` copies. -/
def copiedOf (src : List Entry) (ranges : List (Nat × Nat)) (l : Nat) : List Entry :=
  (ranges.flatMap fun rg => (src.drop rg.1).take (rg.2 - rg.1)).take l

theorem copyRanges_cOf (index : Nat → Option IdxEntry) (src : List Entry) (ranges : List (Nat × Nat)) (l : Nat) :
    (copyRanges index src ranges l).1.map cOf
      = (copiedOf src ranges l).map cOf ++ List.replicate (l - (copiedOf src ranges l).length) none := by
  simp only [copyRanges, copiedOf, List.map_append, List.map_replicate, cOf_zero, List.map_map]
  congr 1
  apply List.map_congr_left
  intro e _
  simp only [Function.comp]
  split
  · rfl
  · rfl

theorem copyRanges_total (index : Nat → Option IdxEntry) (src : List Entry) (ranges : List (Nat × Nat)) (l : Nat) :
    (copyRanges index src ranges l).2.2.1 = (copiedOf src ranges l).length := rfl

theorem copiedOf_length_le (src : List Entry) (ranges : List (Nat × Nat)) (l : Nat) :
    (copiedOf src ranges l).length ≤ l := by
  simp [copiedOf]; omega

theorem copyRanges_length (index : Nat → Option IdxEntry) (src : List Entry) (ranges : List (Nat × Nat)) (l : Nat) :
    (copyRanges index src ranges l).1.length = l := by
  have := copiedOf_length_le src ranges l
  simp only [copyRanges, List.length_append, List.length_map, List.length_replicate]
  simp only [copiedOf] at this
  omega


/-! ### grow -/

theorem grow_exs (r : Ring) (l : Nat) :
    (grow r l).1.exs = (copyRanges r.index r.exs [(r.nextIndex, r.exs.length), (0, r.nextIndex)] l).1 := rfl
theorem grow_nextIndex (r : Ring) (l : Nat) :
    (grow r l).1.nextIndex = (copyRanges r.index r.exs [(r.nextIndex, r.exs.length), (0, r.nextIndex)] l).2.2.1 := rfl
theorem grow_window (r : Ring) (l : Nat) : (grow r l).1.window = r.window := rfl

theorem copiedOf_grow (exs : List Entry) (ni l : Nat) (h1 : ni ≤ exs.length) (h2 : exs.length ≤ l) :
    copiedOf exs [(ni, exs.length), (0, ni)] l = exs.drop ni ++ exs.take ni := by
  simp only [copiedOf, List.flatMap_cons, List.flatMap_nil, List.append_nil, List.drop_zero, Nat.sub_zero]
  rw [List.take_of_length_le (l := exs.drop ni) (by simp), List.take_of_length_le]
  simp; omega

theorem RingOrdW.ni_le {r : Ring} {k acc} (h : RingOrdW r k acc) : r.nextIndex ≤ r.exs.length := by
  rcases h.1 with h | h <;> omega

theorem resize_ringOrd_grow (r : Ring) (l : Nat) (k : Nat) (acc : List (Nat × Ex))
    (h : RingOrdW r k acc) (hl : r.exs.length < l) :
    (grow r l).1.exs.length = l ∧ (grow r l).1.window = r.window ∧
    RingOrdW (grow r l).1 (l - r.exs.length + k) acc := by
  have hni := h.ni_le
  have hcop := copiedOf_grow r.exs r.nextIndex l hni (Nat.le_of_lt hl)
  have hcl : (copiedOf r.exs [(r.nextIndex, r.exs.length), (0, r.nextIndex)] l).length = r.exs.length := by
    rw [hcop]; simp; omega
  have hlen : (grow r l).1.exs.length = l := by rw [grow_exs, copyRanges_length]
  refine ⟨hlen, grow_window r l, ?_, ?_⟩
  · left; rw [grow_nextIndex, copyRanges_total, hcl, hlen]; exact hl
  · have hrot : rot r = (r.exs.drop r.nextIndex ++ r.exs.take r.nextIndex).map cOf := by
      simp [rot, contents_eq_cOf]
    rw [rot, contents_eq_cOf, grow_nextIndex, copyRanges_total, grow_exs, copyRanges_cOf, hcl, hcop, ← hrot]
    have hrl : (rot r).length = r.exs.length := rot_length r hni
    rw [List.drop_left' hrl, List.take_left' hrl, h.2, ← List.append_assoc, List.replicate_append_replicate]


/-! ### shrink -/

/-- One iteration of the removal loop of `shrink`. -/
def shrinkStep (r : Ring) (idx : Nat) : Ring :=
  if (removeEx r idx).2 then
    (match (r.getN idx).ref with | some s => (removeEx r idx).1.setIndex s none | none => (removeEx r idx).1)
  else (removeEx r idx).1

theorem shrinkRemove_succ (r : Ring) (start old i k : Nat) :
    shrinkRemove r start old i (k + 1) = shrinkRemove (shrinkStep r ((start + i) % old)) start old (i + 1) k := rfl

theorem shrinkStep_slots (r : Ring) (idx : Nat) :
    slots (shrinkStep r idx) = (slots r).modify idx (fun p => (p.1, none)) := by
  rw [← removeEx_slots]; unfold shrinkStep
  split
  · split <;> rfl
  · rfl

theorem shrinkStep_length (r : Ring) (idx : Nat) : (shrinkStep r idx).exs.length = r.exs.length := by
  rw [← removeEx_length r idx]; unfold shrinkStep
  split
  · split <;> rfl
  · rfl

theorem shrinkStep_nextIndex (r : Ring) (idx : Nat) : (shrinkStep r idx).nextIndex = r.nextIndex := by
  rw [← removeEx_nextIndex r idx]; unfold shrinkStep
  split
  · split <;> rfl
  · rfl

theorem shrinkStep_window (r : Ring) (idx : Nat) : (shrinkStep r idx).window = r.window := by
  rw [← removeEx_window r idx]; unfold shrinkStep
  split
  · split <;> rfl
  · rfl

theorem shrinkRemove_props (start old : Nat) : ∀ (n i : Nat) (r : Ring),
    (shrinkRemove r start old i n).exs.length = r.exs.length ∧
    (shrinkRemove r start old i n).nextIndex = r.nextIndex ∧
    (shrinkRemove r start old i n).window = r.window ∧
    ∀ j, (∀ i', i ≤ i' → i' < i + n → j ≠ (start + i') % old) →
      (slots (shrinkRemove r start old i n))[j]? = (slots r)[j]? := by
  intro n
  induction n with
  | zero => intro i r; exact ⟨rfl, rfl, rfl, fun _ _ => rfl⟩
  | succ n ih =>
    intro i r
    rw [shrinkRemove_succ]
    obtain ⟨h1, h2, h3, h4⟩ := ih (i + 1) (shrinkStep r ((start + i) % old))
    refine ⟨by rw [h1, shrinkStep_length], by rw [h2, shrinkStep_nextIndex], by rw [h3, shrinkStep_window], ?_⟩
    intro j hj
    rw [h4 j (fun i' hi1 hi2 => hj i' (by omega) (by omega)), shrinkStep_slots, List.getElem?_modify]
    have : (start + i) % old ≠ j := fun e => hj i (Nat.le_refl _) (by omega) e.symm
    simp [this]

theorem shrinkRemove_contents (start old n : Nat) (r : Ring) (j : Nat)
    (hj : ∀ i', i' < n → j ≠ (start + i') % old) :
    (contents (shrinkRemove r start old 0 n))[j]? = (contents r)[j]? := by
  rw [contents_eq_slots, contents_eq_slots, List.getElem?_map, List.getElem?_map,
    (shrinkRemove_props start old n 0 r).2.2.2 j (fun i' _ h => hj i' (by omega))]


theorem keep_lt {α} (c c1 : List α) (ds diff : Nat) (hds : ds + diff ≤ c.length)
    (agree : ∀ j, j < ds ∨ ds + diff ≤ j → c1[j]? = c[j]?) :
    c1.drop (ds + diff) ++ c1.take ds = (c.drop ds ++ c.take ds).drop diff := by
  have e1 : c1.drop (ds + diff) = c.drop (ds + diff) := by
    apply List.ext_getElem?; intro j
    rw [List.getElem?_drop, List.getElem?_drop]; exact agree _ (by omega)
  have e2 : c1.take ds = c.take ds := by
    apply List.ext_getElem?; intro j
    rw [List.getElem?_take, List.getElem?_take]
    split
    · exact agree _ (by omega)
    · rfl
  rw [e1, e2, List.drop_append, List.drop_drop, List.length_drop,
    Nat.sub_eq_zero_of_le (by omega : diff ≤ c.length - ds), List.drop_zero]

theorem keep_gt {α} (c c1 : List α) (ds diff de : Nat) (hds : ds ≤ c.length) (hde : de + c.length = ds + diff)
    (agree : ∀ j, de ≤ j → j < ds → c1[j]? = c[j]?) :
    (c1.drop de).take (ds - de) = (c.drop ds ++ c.take ds).drop diff := by
  rw [List.drop_append, List.drop_drop, List.length_drop, List.drop_of_length_le (by omega : c.length ≤ ds + diff),
    List.nil_append, (by omega : diff - (c.length - ds) = de)]
  apply List.ext_getElem?; intro j
  rw [List.getElem?_take, List.getElem?_drop, List.getElem?_drop, List.getElem?_take]
  by_cases hj : j < ds - de
  · rw [if_pos hj, if_pos (by omega)]; exact agree _ (by omega) (by omega)
  · rw [if_neg hj, if_neg (by omega)]

theorem mod_cases (a b : Nat) (h : a < 2 * b) : (a < b ∧ a % b = a) ∨ (b ≤ a ∧ a % b = a - b) := by
  rcases Nat.lt_or_ge a b with h1 | h1
  · exact Or.inl ⟨h1, Nat.mod_eq_of_lt h1⟩
  · refine Or.inr ⟨h1, ?_⟩
    rw [Nat.mod_eq_sub_mod h1, Nat.mod_eq_of_lt (by omega)]


theorem shrink_eq (r : Ring) (l : Nat) : shrink r l =
    if r.nextIndex = (r.nextIndex + (r.exs.length - l)) % r.exs.length then
      ({ shrinkRemove r r.nextIndex r.exs.length 0 (r.exs.length - l) with
          exs := List.replicate l Entry.zero, nextIndex := 0 }, 0)
    else
      ({ shrinkRemove r r.nextIndex r.exs.length 0 (r.exs.length - l) with
          exs := (copyRanges (shrinkRemove r r.nextIndex r.exs.length 0 (r.exs.length - l)).index
            (shrinkRemove r r.nextIndex r.exs.length 0 (r.exs.length - l)).exs
            (if r.nextIndex < (r.nextIndex + (r.exs.length - l)) % r.exs.length
              then [((r.nextIndex + (r.exs.length - l)) % r.exs.length, r.exs.length), (0, r.nextIndex)]
              else [((r.nextIndex + (r.exs.length - l)) % r.exs.length, r.nextIndex)]) l).1,
          index := (copyRanges (shrinkRemove r r.nextIndex r.exs.length 0 (r.exs.length - l)).index
            (shrinkRemove r r.nextIndex r.exs.length 0 (r.exs.length - l)).exs
            (if r.nextIndex < (r.nextIndex + (r.exs.length - l)) % r.exs.length
              then [((r.nextIndex + (r.exs.length - l)) % r.exs.length, r.exs.length), (0, r.nextIndex)]
              else [((r.nextIndex + (r.exs.length - l)) % r.exs.length, r.nextIndex)]) l).2.1,
          nextIndex := (copyRanges (shrinkRemove r r.nextIndex r.exs.length 0 (r.exs.length - l)).index
            (shrinkRemove r r.nextIndex r.exs.length 0 (r.exs.length - l)).exs
            (if r.nextIndex < (r.nextIndex + (r.exs.length - l)) % r.exs.length
              then [((r.nextIndex + (r.exs.length - l)) % r.exs.length, r.exs.length), (0, r.nextIndex)]
              else [((r.nextIndex + (r.exs.length - l)) % r.exs.length, r.nextIndex)]) l).2.2.1 % l },
        (copyRanges (shrinkRemove r r.nextIndex r.exs.length 0 (r.exs.length - l)).index
            (shrinkRemove r r.nextIndex r.exs.length 0 (r.exs.length - l)).exs
            (if r.nextIndex < (r.nextIndex + (r.exs.length - l)) % r.exs.length
              then [((r.nextIndex + (r.exs.length - l)) % r.exs.length, r.exs.length), (0, r.nextIndex)]
              else [((r.nextIndex + (r.exs.length - l)) % r.exs.length, r.nextIndex)]) l).2.2.2) := by
  rfl

theorem copiedOf_two (exs : List Entry) (a b old l : Nat) (hold : exs.length = old) (hb : b ≤ old)
    (h : old - a + b ≤ l) :
    copiedOf exs [(a, old), (0, b)] l = exs.drop a ++ exs.take b := by
  simp only [copiedOf, List.flatMap_cons, List.flatMap_nil, List.append_nil, List.drop_zero, Nat.sub_zero]
  rw [List.take_of_length_le (l := exs.drop a) (by simp; omega), List.take_of_length_le]
  simp; omega

theorem copiedOf_one (exs : List Entry) (a b l : Nat) (h : b - a ≤ l) :
    copiedOf exs [(a, b)] l = (exs.drop a).take (b - a) := by
  simp only [copiedOf, List.flatMap_cons, List.flatMap_nil, List.append_nil]
  rw [List.take_of_length_le]
  simp; omega

theorem rot_zero (r : Ring) (h : r.nextIndex = 0) : rot r = r.exs.map cOf := by
  simp [rot, h, contents_eq_cOf]

/-- `rot` after a `copyRanges` that fills the destination exactly. -/
theorem copy_full (index : Nat → Option IdxEntry) (src : List Entry) (ranges : List (Nat × Nat)) (l : Nat)
    (hfull : (copiedOf src ranges l).length = l) :
    (copyRanges index src ranges l).1.map cOf = (copiedOf src ranges l).map cOf ∧
    (copyRanges index src ranges l).2.2.1 % l = 0 := by
  rw [copyRanges_cOf, copyRanges_total, hfull, Nat.sub_self, Nat.mod_self]
  simp

theorem shrink_core (r : Ring) (l : Nat) (hni : r.nextIndex < r.exs.length) (hl : l < r.exs.length) :
    (shrink r l).1.exs.length = l ∧ (shrink r l).1.window = r.window ∧ (shrink r l).1.nextIndex = 0 ∧
    rot (shrink r l).1 = (rot r).drop (r.exs.length - l) := by
  obtain ⟨p1, p2, p3, _⟩ := shrinkRemove_props r.nextIndex r.exs.length (r.exs.length - l) 0 r
  have hc := shrinkRemove_contents r.nextIndex r.exs.length (r.exs.length - l) r
  have hrl : (rot r).length = r.exs.length := rot_length r (Nat.le_of_lt hni)
  have hcl : (contents r).length = r.exs.length := by simp [contents]
  rw [shrink_eq]
  rcases mod_cases (r.nextIndex + (r.exs.length - l)) r.exs.length (by omega) with ⟨hlt, hde⟩ | ⟨hge, hde⟩
  · -- no wrap: keep [de, old) ++ [0, ds)
    rw [hde, if_neg (by omega), if_pos (by omega)]
    have hcop := copiedOf_two (shrinkRemove r r.nextIndex r.exs.length 0 (r.exs.length - l)).exs
      (r.nextIndex + (r.exs.length - l)) r.nextIndex r.exs.length l p1 (Nat.le_of_lt hni) (by omega)
    have hfull : (copiedOf (shrinkRemove r r.nextIndex r.exs.length 0 (r.exs.length - l)).exs
        [(r.nextIndex + (r.exs.length - l), r.exs.length), (0, r.nextIndex)] l).length = l := by
      rw [hcop]; simp; omega
    obtain ⟨c1, c2⟩ := copy_full (shrinkRemove r r.nextIndex r.exs.length 0 (r.exs.length - l)).index _ _ l hfull
    refine ⟨by dsimp only; exact copyRanges_length _ _ _ _, p3, c2, ?_⟩
    rw [rot_zero _ c2]
    dsimp only
    rw [c1, hcop, List.map_append, List.map_drop, List.map_take, ← contents_eq_cOf, rot]
    apply keep_lt
    · omega
    · intro j hj
      apply hc
      intro i' hi'
      rw [Nat.mod_eq_of_lt (by omega)]; omega
  · rw [hde]
    by_cases heq : r.nextIndex = r.nextIndex + (r.exs.length - l) - r.exs.length
    · -- everything is removed
      rw [if_pos heq]
      have hl0 : l = 0 := by omega
      subst hl0
      refine ⟨by simp, p3, rfl, ?_⟩
      rw [rot_zero _ rfl, List.drop_of_length_le (by omega)]
      rfl
    · rw [if_neg heq, if_neg (by omega)]
      have hcop := copiedOf_one (shrinkRemove r r.nextIndex r.exs.length 0 (r.exs.length - l)).exs
        (r.nextIndex + (r.exs.length - l) - r.exs.length) r.nextIndex l (by omega)
      have hfull : (copiedOf (shrinkRemove r r.nextIndex r.exs.length 0 (r.exs.length - l)).exs
          [(r.nextIndex + (r.exs.length - l) - r.exs.length, r.nextIndex)] l).length = l := by
        rw [hcop]; simp; omega
      obtain ⟨c1, c2⟩ := copy_full (shrinkRemove r r.nextIndex r.exs.length 0 (r.exs.length - l)).index _ _ l hfull
      refine ⟨by dsimp only; exact copyRanges_length _ _ _ _, p3, c2, ?_⟩
      rw [rot_zero _ c2]
      dsimp only
      rw [c1, hcop, List.map_take, List.map_drop, ← contents_eq_cOf, rot]
      apply keep_gt
      · omega
      · omega
      · intro j hj1 hj2
        apply hc
        intro i' hi'
        rcases mod_cases (r.nextIndex + i') r.exs.length (by omega) with ⟨_, e⟩ | ⟨_, e⟩ <;> rw [e] <;> omega

theorem resize_ringOrd_shrink (r : Ring) (l : Nat) (k : Nat) (acc : List (Nat × Ex))
    (h : RingOrdW r k acc) (hl : l < r.exs.length) :
    (shrink r l).1.exs.length = l ∧ (shrink r l).1.window = r.window ∧
    RingOrdW (shrink r l).1 (k - (r.exs.length - l)) (lastN l acc) := by
  have hni : r.nextIndex < r.exs.length := by rcases h.1 with h | h <;> omega
  obtain ⟨s1, s2, s3, s4⟩ := shrink_core r l hni hl
  refine ⟨s1, s2, ?_, ?_⟩
  · rw [s1, s3]; omega
  · have hlen := h.len
    rw [s4, h.2, List.drop_append, List.drop_replicate, List.length_replicate, ← List.map_drop, lastN,
      (by omega : acc.length - l = r.exs.length - l - k)]

theorem lastN_of_length_le {α} (n : Nat) (xs : List α) (h : xs.length ≤ n) : lastN n xs = xs := by
  rw [lastN, Nat.sub_eq_zero_of_le h, List.drop_zero]

theorem resize_ringOrd (r : Ring) (l : Int) (k : Nat) (acc : List (Nat × Ex)) (h : RingOrdW r k acc) :
    let l' : Nat := if l ≤ 0 then 0 else l.toNat
    (resize r l).1.exs.length = l' ∧ (resize r l).1.window = r.window ∧
    ∃ k', RingOrdW (resize r l).1 k' (lastN l' acc) := by
  intro l'
  have hlen := h.len
  show (resize r l).1.exs.length = l' ∧ (resize r l).1.window = r.window ∧
    ∃ k', RingOrdW (if l' = r.exs.length then (r, 0) else if l' > r.exs.length then grow r l' else shrink r l').1
      k' (lastN l' acc)
  have hres : resize r l = if l' = r.exs.length then (r, 0) else if l' > r.exs.length then grow r l' else shrink r l' := rfl
  rw [hres]
  by_cases h1 : l' = r.exs.length
  · rw [if_pos h1, lastN_of_length_le _ _ (by omega)]
    exact ⟨h1.symm, rfl, k, h⟩
  · rw [if_neg h1]
    by_cases h2 : l' > r.exs.length
    · rw [if_pos h2, lastN_of_length_le _ _ (by omega)]
      obtain ⟨g1, g2, g3⟩ := resize_ringOrd_grow r l' k acc h h2
      exact ⟨g1, g2, _, g3⟩
    · rw [if_neg h2]
      obtain ⟨g1, g2, g3⟩ := resize_ringOrd_shrink r l' k acc h (by omega)
      exact ⟨g1, g2, _, g3⟩

end Prom.Exemplars
