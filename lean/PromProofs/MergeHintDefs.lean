import PromModel.Tsdb.Merge
/-
  C12 through C19's chain iterator: trace-level statement "a hint that survives `At*` belongs to a sample
  that directly follows the previously returned sample inside one input".
-/
namespace Prom.Merge

/-- `p` is directly followed by `s` in one of the inputs -/
def Adj (srcs : List (List Sample)) (p s : Sample) : Prop :=
  ∃ (j : Nat) (pre post : List Sample), srcs[j]? = some (pre ++ p :: s :: post)

/-- raw samples returned by successive `Next` calls (`prev` = the one returned before) and what `At*` handed out:
    each handed-out sample is the raw one, possibly with its hint cleared, and a histogram sample that keeps
    NotCounterReset (payload mod 4 = 2) directly follows the previous returned sample inside one input. -/
inductive Tr (srcs : List (List Sample)) : Option Sample → List Sample → List Sample → Prop
  | nil (prev : Option Sample) : Tr srcs prev [] []
  | cons (prev : Option Sample) (s o : Sample) (raws outs : List Sample)
      (ho : o = s ∨ o = { s with payload := s.payload / 4 * 4 })
      (hadj : s.kind ≠ .float → o.payload % 4 = 2 → ∃ p, prev = some p ∧ Adj srcs p s)
      (tl : Tr srcs (some s) raws outs) : Tr srcs prev (s :: raws) (o :: outs)

end Prom.Merge
