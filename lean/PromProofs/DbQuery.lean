import PromProofs.DbBasic
/-
  C01 refinement: the invariant `Inv` of the mechanism model, the simulation relation `Sim`
  between `Db` and the reference store `Ref`, and `query_matches`.
-/
namespace Prom.Db
open Prom.Intervals

/-- `x` is a visible (physically present, not tombstoned) sample of series `i`, in the head or in a block. -/
def Db.mem (d : Db) (i : Nat) (x : Smp) : Prop :=
  (∃ s ∈ d.series, s.idx = i ∧ x ∈ s.phys ∧ visible s.tombs x = true) ∨
  (∃ b ∈ d.blocks, ∃ s ∈ b.series, s.idx = i ∧ x ∈ s.smps ∧ visible s.tombs x = true)

/-- Every physical block sample satisfies `P`. -/
def Db.blkAll (d : Db) (P : Smp → Prop) : Prop :=
  ∀ b ∈ d.blocks, ∀ s ∈ b.series, ∀ x ∈ s.smps, P x

/-- Invariant of the open appender `a` (relative to the database it belongs to). -/
structure AppInv (d : Db) (a : App) : Prop where
  initBatch : a.init = true → a.batch = []
  blkLt : a.init = false → d.blkAll (fun x => x.t < a.minValid)
  batchGe : ∀ p ∈ a.batch, a.minValid ≤ p.2.t ∧ p.2.t < MaxI64

/-- The invariant of the mechanism model, state part (independent of the open appender). -/
structure InvS (d : Db) : Prop where
  idxNodup : d.series.Pairwise (fun s s' => s.idx ≠ s'.idx)
  physInc : ∀ s ∈ d.series, SInc s.phys
  physNe : ∀ s ∈ d.series, s.phys ≠ []
  physLo : ∀ s ∈ d.series, ∀ x ∈ s.phys, d.minT ≤ x.t
  physHi : ∀ s ∈ d.series, ∀ x ∈ s.phys, x.t ≤ d.maxT
  physMax : ∀ s ∈ d.series, ∀ x ∈ s.phys, x.t < MaxI64
  tombHi : ∀ s ∈ d.series, ∀ iv ∈ s.tombs, ∀ l, s.phys.getLast? = some l → iv.maxt ≤ l.t
  blkInc : ∀ b ∈ d.blocks, ∀ s ∈ b.series, SInc s.smps
  blkRange : ∀ b ∈ d.blocks, ∀ s ∈ b.series, ∀ x ∈ s.smps, b.mint ≤ x.t ∧ x.t < b.maxt
  blkLtMinT : d.blkAll (fun x => x.t < d.minT)
  blkLtMinValid : d.blkAll (fun x => x.t < d.minValid)
  blkLtMaxT : d.blkAll (fun x => x.t < d.maxT)
  blkMax : d.blkAll (fun x => x.t < MaxI64)

/-- The invariant of the mechanism model. -/
structure Inv (d : Db) : Prop extends InvS d where
  appInv : ∀ a, d.app = some a → AppInv d a

/-- The pending batch of the open appender. -/
def pendingOf (d : Db) : List (Nat × Smp) :=
  match d.app with
  | some a => a.batch
  | none => []

/-- The newest physical sample of every head series is not tombstoned, or else every pending batch
    element of that series is strictly newer (so the commit-time duplicate rule never meets a
    hidden sample). Trivial while no appender is open. -/
def LastOk (d : Db) : Prop :=
  ∀ s ∈ d.series, ∀ l, s.phys.getLast? = some l →
    visible s.tombs l = true ∨ ∀ p ∈ pendingOf d, p.1 = s.idx → l.t < p.2.t

/-- Simulation: the visible samples of the mechanism state are exactly the reference store. -/
structure Sim (d : Db) (r : Ref) : Prop where
  sinc : ∀ i, SInc (r.get i)
  mem : ∀ i x, d.mem i x ↔ x ∈ r.get i
  app : match d.app with
    | none => r.open_ = false
    | some a => r.open_ = true ∧ r.pending = a.batch

/-! ### the query, restated -/

def Db.allParts (d : Db) (mint maxt : Int) : List (Nat × List Smp) :=
  (if maxt ≥ d.minT then
      d.series.map fun s => (s.idx, s.phys.filter fun x => decide (mint ≤ x.t ∧ x.t ≤ maxt) && visible s.tombs x)
    else []) ++
  d.blocks.flatMap fun b =>
    if b.mint ≤ maxt ∧ mint < b.maxt then
      b.series.map fun s => (s.idx, s.smps.filter fun x => decide (mint ≤ x.t ∧ x.t ≤ maxt) && visible s.tombs x)
    else []

def mergeRows (all : List (Nat × List Smp)) (i : Nat) : List Smp :=
  (all.filter (·.1 = i)).foldl (fun acc p => mergeSmps acc p.2) []

def rowOf (f : Nat → List Smp) (i : Nat) : Option (Nat × List Smp) :=
  let xs := f i
  if xs.isEmpty then none else some (i, xs)

theorem Db.query_eq (d : Db) (a b : Int) :
    d.query a b = (sortIdxs ((d.allParts a b).map (·.1))).filterMap (rowOf (mergeRows (d.allParts a b))) := rfl

theorem Ref.query_eq (r : Ref) (a b : Int) :
    r.query a b = (sortIdxs (r.store.map (·.1))).filterMap
      (rowOf fun i => (r.get i).filter fun x => decide (a ≤ x.t ∧ x.t ≤ b)) := rfl

theorem Ref.get_nil_of_not_mem (r : Ref) (i : Nat) (h : i ∉ r.store.map (·.1)) : r.get i = [] := by
  unfold Ref.get
  have : r.store.find? (fun p => decide (p.1 = i)) = none := by
    rw [List.find?_eq_none]
    intro p hp hpi
    apply h
    simp at hpi
    exact List.mem_map.2 ⟨p, hp, hpi⟩
  rw [this]; rfl

/-- Folding `mergeSmps` over compatible strictly increasing lists: sorted union. -/
theorem foldl_merge (U : Smp → Prop) (hU : ∀ x y, U x → U y → x.t = y.t → x = y) :
    ∀ (ps : List (Nat × List Smp)) (acc : List Smp),
      SInc acc → (∀ x ∈ acc, U x) → (∀ p ∈ ps, SInc p.2 ∧ ∀ x ∈ p.2, U x) →
      SInc (ps.foldl (fun acc p => mergeSmps acc p.2) acc) ∧
      ∀ z, z ∈ ps.foldl (fun acc p => mergeSmps acc p.2) acc ↔ z ∈ acc ∨ ∃ p ∈ ps, z ∈ p.2
  | [], acc, h, _, _ => by simp [h]
  | p :: ps, acc, h, hu, hp => by
    have hp1 := hp p (by simp)
    have hc : ∀ x ∈ acc, ∀ y ∈ p.2, x.t = y.t → x = y :=
      fun x hx y hy e => hU x y (hu x hx) (hp1.2 y hy) e
    have hm := mem_mergeSmps hc
    have ih := foldl_merge U hU ps (mergeSmps acc p.2) (sinc_mergeSmps h hp1.1)
      (by intro x hx; rcases (hm x).1 hx with h | h; exact hu x h; exact hp1.2 x h)
      (fun q hq => hp q (by simp [hq]))
    refine ⟨ih.1, ?_⟩
    intro z
    rw [List.foldl_cons, ih.2 z, hm z]
    simp only [List.mem_cons, exists_eq_or_imp]
    grind

theorem mem_allParts {d : Db} (hI : Inv d) (a b : Int) (i : Nat) (x : Smp) :
    (∃ p ∈ d.allParts a b, p.1 = i ∧ x ∈ p.2) ↔ (d.mem i x ∧ a ≤ x.t ∧ x.t ≤ b) := by
  unfold Db.allParts Db.mem
  constructor
  · rintro ⟨p, hp, hpi, hx⟩
    rw [List.mem_append] at hp
    rcases hp with hp | hp
    · split at hp
      · rw [List.mem_map] at hp
        obtain ⟨s, hs, rfl⟩ := hp
        simp only [List.mem_filter, Bool.and_eq_true, decide_eq_true_eq] at hx
        exact ⟨Or.inl ⟨s, hs, hpi, hx.1, hx.2.2⟩, hx.2.1⟩
      · simp at hp
    · rw [List.mem_flatMap] at hp
      obtain ⟨blk, hb, hp⟩ := hp
      split at hp
      · rw [List.mem_map] at hp
        obtain ⟨s, hs, rfl⟩ := hp
        simp only [List.mem_filter, Bool.and_eq_true, decide_eq_true_eq] at hx
        exact ⟨Or.inr ⟨blk, hb, s, hs, hpi, hx.1, hx.2.2⟩, hx.2.1⟩
      · simp at hp
  · rintro ⟨hm, hab⟩
    rcases hm with ⟨s, hs, hsi, hx, hv⟩ | ⟨blk, hb, s, hs, hsi, hx, hv⟩
    · refine ⟨(s.idx, s.phys.filter fun x => decide (a ≤ x.t ∧ x.t ≤ b) && visible s.tombs x), ?_, hsi, ?_⟩
      · rw [List.mem_append]; left
        have : b ≥ d.minT := by have := hI.physLo s hs x hx; omega
        rw [if_pos this]
        exact List.mem_map.2 ⟨s, hs, rfl⟩
      · simp only [List.mem_filter, Bool.and_eq_true, decide_eq_true_eq]
        exact ⟨hx, hab, hv⟩
    · refine ⟨(s.idx, s.smps.filter fun x => decide (a ≤ x.t ∧ x.t ≤ b) && visible s.tombs x), ?_, hsi, ?_⟩
      · rw [List.mem_append]; right
        rw [List.mem_flatMap]
        refine ⟨blk, hb, ?_⟩
        have : blk.mint ≤ b ∧ a < blk.maxt := by have := hI.blkRange blk hb s hs x hx; omega
        rw [if_pos this]
        exact List.mem_map.2 ⟨s, hs, rfl⟩
      · simp only [List.mem_filter, Bool.and_eq_true, decide_eq_true_eq]
        exact ⟨hx, hab, hv⟩

theorem sinc_allParts {d : Db} (hI : Inv d) (a b : Int) : ∀ p ∈ d.allParts a b, SInc p.2 := by
  intro p hp
  unfold Db.allParts at hp
  rw [List.mem_append] at hp
  rcases hp with hp | hp
  · split at hp
    · rw [List.mem_map] at hp
      obtain ⟨s, hs, rfl⟩ := hp
      exact (hI.physInc s hs).filter _
    · simp at hp
  · rw [List.mem_flatMap] at hp
    obtain ⟨blk, hb, hp⟩ := hp
    split at hp
    · rw [List.mem_map] at hp
      obtain ⟨s, hs, rfl⟩ := hp
      exact (hI.blkInc blk hb s hs).filter _
    · simp at hp

/-- (a) A query on the mechanism state returns exactly the reference rows. -/
theorem query_matches {d : Db} {r : Ref} (hI : Inv d) (hS : Sim d r) (a b : Int) :
    d.query a b = r.query a b := by
  rw [Db.query_eq, Ref.query_eq]
  have key : ∀ i, mergeRows (d.allParts a b) i = (r.get i).filter fun x => decide (a ≤ x.t ∧ x.t ≤ b) := by
    intro i
    have hf := foldl_merge (fun x => x ∈ r.get i) (fun x y hx hy e => (hS.sinc i).t_inj hx hy e)
      ((d.allParts a b).filter (·.1 = i)) [] (by simp [SInc]) (by simp)
      (by
        intro p hp
        rw [List.mem_filter] at hp
        have hpi : p.1 = i := by simpa using hp.2
        refine ⟨sinc_allParts hI a b p hp.1, ?_⟩
        intro x hx
        exact (hS.mem i x).1 ((mem_allParts hI a b i x).1 ⟨p, hp.1, hpi, hx⟩).1)
    apply SInc.ext hf.1 ((hS.sinc i).filter _)
    intro z
    rw [hf.2 z]
    simp only [List.not_mem_nil, false_or, List.mem_filter, decide_eq_true_eq]
    constructor
    · rintro ⟨p, ⟨hp, hpi⟩, hz⟩
      have := (mem_allParts hI a b i z).1 ⟨p, hp, hpi, hz⟩
      exact ⟨(hS.mem i z).1 this.1, this.2⟩
    · rintro ⟨hz, hab⟩
      obtain ⟨p, hp, hpi, hz'⟩ := (mem_allParts hI a b i z).2 ⟨(hS.mem i z).2 hz, hab⟩
      exact ⟨p, ⟨hp, hpi⟩, hz'⟩
  have hfun : rowOf (mergeRows (d.allParts a b)) =
      rowOf (fun i => (r.get i).filter fun x => decide (a ≤ x.t ∧ x.t ≤ b)) := by
    funext i; simp only [rowOf, key]
  rw [hfun]
  apply filterMap_sortIdxs_congr
  · intro i hi
    have : (r.get i).filter (fun x => decide (a ≤ x.t ∧ x.t ≤ b)) = [] := by
      rw [← key i]
      unfold mergeRows
      have : (d.allParts a b).filter (fun p => decide (p.1 = i)) = [] := by
        rw [List.filter_eq_nil_iff]
        intro p hp hpi
        apply hi
        simp at hpi
        exact List.mem_map.2 ⟨p, hp, hpi⟩
      rw [this]; rfl
    show (let xs := (r.get i).filter (fun x => decide (a ≤ x.t ∧ x.t ≤ b)); if xs.isEmpty then none else some (i, xs)) = none
    rw [this]; rfl
  · intro i hi
    simp [rowOf, Ref.get_nil_of_not_mem r i hi]

end Prom.Db
