import PromModel.Rules.Recording
/-
  Helper lemmas for property C45 about the storage of `Prom.Recording` (a committed log with the in-order
  acceptance rule): commits only add the committed sample, never remove one, and store every accepted
  sample of a batch with pairwise distinct label sets.
-/
namespace Prom.Recording.Lemmas
open Prom.Recording
open Prom.Alerting (Labels hasDup)

/-! ### storage lemmas -/

theorem commit1_mono (s : Store) (l : Labels) (t : Int) (v : Nat) (e : Entry) (h : e ∈ s.log) :
    e ∈ (commit1 s l t v).log := by
  unfold commit1; split
  · simp [h]
  · split <;> simp [h]

theorem commit1_new (s : Store) (l : Labels) (t : Int) (v : Nat) (e : Entry) (h : e ∈ (commit1 s l t v).log) :
    e ∈ s.log ∨ e = ⟨l, t, v⟩ := by
  unfold commit1 at h; split at h
  · simp at h; exact h.symm
  · split at h
    · simp at h; exact h.symm
    · exact Or.inl h

theorem commit1_last_ne (s : Store) (l l' : Labels) (t : Int) (v : Nat) (h : l' ≠ l) :
    (commit1 s l t v).last l' = s.last l' := by
  unfold commit1; split
  · simp [Store.last, List.find?, Ne.symm h]
  · split
    · simp [Store.last, List.find?, Ne.symm h]
    · rfl

theorem last_mem (s : Store) (l : Labels) (e : Entry) (h : s.last l = some e) : e ∈ s.log ∧ e.l = l := by
  unfold Store.last at h
  exact ⟨List.mem_of_find?_eq_some h, by simpa using List.find?_some h⟩

/-- An accepted sample is in the log after its own commit. -/
theorem commit1_stores (s acc : Store) (mv : Int) (l : Labels) (t : Int) (v : Nat)
    (hok : check s mv l t v = .ok) (hl : acc.last l = s.last l) :
    (⟨l, t, v⟩ : Entry) ∈ (commit1 acc l t v).log := by
  unfold check at hok
  unfold commit1
  rw [hl]
  split at hok
  · cases hok
  · cases hs : s.last l with
    | none => simp
    | some e =>
      simp only [hs] at hok ⊢
      by_cases h1 : t > e.t
      · simp [h1]
      · simp only [h1, if_false] at hok ⊢
        by_cases h2 : t = e.t
        · simp only [h2, if_true] at hok
          by_cases h3 : e.v = v
          · have := last_mem acc l e (hl ▸ hs)
            obtain ⟨hm, hel⟩ := this
            have : e = ⟨l, t, v⟩ := by cases e; simp_all
            rw [← this]; exact hm
          · simp [h3] at hok
        · simp [h2] at hok

abbrev foldCommit (t : Int) (acc : Store) (items : List (Labels × Nat)) : Store :=
  items.foldl (fun acc (x : Labels × Nat) => commit1 acc x.1 t x.2) acc

theorem foldCommit_mono (t : Int) (items : List (Labels × Nat)) (acc : Store) (e : Entry) (h : e ∈ acc.log) :
    e ∈ (foldCommit t acc items).log := by
  induction items generalizing acc with
  | nil => exact h
  | cons x rest ih => exact ih _ (commit1_mono _ _ _ _ _ h)

theorem foldCommit_new (t : Int) (items : List (Labels × Nat)) (acc : Store) (e : Entry)
    (h : e ∈ (foldCommit t acc items).log) : e ∈ acc.log ∨ ∃ x ∈ items, e = ⟨x.1, t, x.2⟩ := by
  induction items generalizing acc with
  | nil => exact Or.inl h
  | cons x rest ih =>
    rcases ih _ h with h' | ⟨y, hy, rfl⟩
    · rcases commit1_new _ _ _ _ _ h' with h'' | rfl
      · exact Or.inl h''
      · exact Or.inr ⟨x, by simp, rfl⟩
    · exact Or.inr ⟨y, by simp [hy], rfl⟩

/-- Folding the commits of accepted samples with pairwise distinct label sets stores every one of them. -/
theorem foldCommit_stores (s : Store) (mv t : Int) (items : List (Labels × Nat)) (acc : Store)
    (hnd : (items.map (·.1)).Nodup)
    (hok : ∀ x ∈ items, check s mv x.1 t x.2 = .ok)
    (hl : ∀ x ∈ items, acc.last x.1 = s.last x.1) :
    ∀ x ∈ items, (⟨x.1, t, x.2⟩ : Entry) ∈ (foldCommit t acc items).log := by
  induction items generalizing acc with
  | nil => intro x hx; cases hx
  | cons y rest ih =>
    intro x hx
    simp only [List.map_cons, List.nodup_cons] at hnd
    rcases List.mem_cons.mp hx with rfl | hx'
    · exact foldCommit_mono t rest _ _ (commit1_stores s acc mv _ t _ (hok _ (by simp)) (hl _ (by simp)))
    · refine ih (commit1 acc y.1 t y.2) hnd.2 (fun z hz => hok z (by simp [hz])) ?_ x hx'
      intro z hz
      have hne : z.1 ≠ y.1 := fun h => hnd.1 (h ▸ List.mem_map_of_mem (f := (·.1)) hz)
      rw [commit1_last_ne _ _ _ _ _ hne]
      exact hl z (by simp [hz])


theorem nodup_of_hasDup_false : ∀ (ls : List Labels), hasDup ls = false → ls.Nodup
  | [], _ => List.nodup_nil
  | k :: rest, h => by
    simp only [hasDup, Bool.or_eq_false_iff] at h
    refine List.nodup_cons.mpr ⟨?_, nodup_of_hasDup_false rest h.2⟩
    intro hm
    have := h.1
    simp [hm] at this

theorem appendBatch_log (s : Store) (t : Int) (items : List (Labels × Nat)) :
    (appendBatch s t items).log =
      (foldCommit t { s with maxt := some (s.maxt.getD t) } (accepted s t items)).log := by
  unfold appendBatch
  by_cases he : items.isEmpty
  · have : items = [] := List.isEmpty_iff.mp he
    subst this; simp [accepted, foldCommit]
  · simp only [he, Bool.false_eq_true, if_false]
    split <;> rfl

theorem accepted_append (s : Store) (t : Int) (a b : List (Labels × Nat)) :
    accepted s t (a ++ b) = accepted s t a ++ accepted s t b := by
  simp [accepted]

theorem appendBatch_mono (s : Store) (t : Int) (items : List (Labels × Nat)) (e : Entry) (h : e ∈ s.log) :
    e ∈ (appendBatch s t items).log := by
  rw [appendBatch_log]; exact foldCommit_mono _ _ _ _ h

theorem appendBatch_new (s : Store) (t : Int) (items : List (Labels × Nat)) (e : Entry)
    (h : e ∈ (appendBatch s t items).log) :
    e ∈ s.log ∨ ∃ x ∈ items, check s (minValidOf s t) x.1 t x.2 = .ok ∧ e = ⟨x.1, t, x.2⟩ := by
  rw [appendBatch_log] at h
  rcases foldCommit_new _ _ _ _ h with h | ⟨x, hx, rfl⟩
  · exact Or.inl h
  · simp only [accepted, List.mem_filter, decide_eq_true_eq] at hx
    exact Or.inr ⟨x, hx.1, hx.2, rfl⟩

/-- Every accepted sample of a prefix with pairwise distinct label sets is in the log after the batch. -/
theorem appendBatch_stores (s : Store) (t : Int) (a b : List (Labels × Nat))
    (hnd : (a.map (·.1)).Nodup) :
    ∀ x ∈ a, check s (minValidOf s t) x.1 t x.2 = .ok → (⟨x.1, t, x.2⟩ : Entry) ∈ (appendBatch s t (a ++ b)).log := by
  intro x hx hok
  rw [appendBatch_log, accepted_append]
  unfold foldCommit
  rw [List.foldl_append]
  apply foldCommit_mono
  have hnd' : ((accepted s t a).map (·.1)).Nodup := by
    unfold accepted
    exact (List.Sublist.map _ List.filter_sublist).nodup hnd
  refine foldCommit_stores s (minValidOf s t) t (accepted s t a) _ hnd' ?_ ?_ x ?_
  · intro y hy; simp only [accepted, List.mem_filter, decide_eq_true_eq] at hy; exact hy.2
  · intro y _; rfl
  · simp only [accepted, List.mem_filter, decide_eq_true_eq]; exact ⟨hx, hok⟩

end Prom.Recording.Lemmas
