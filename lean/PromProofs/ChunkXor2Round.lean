import PromProofs.ChunkXor2Sim
/-
  C10: XOR2 chunk — from the single-sample simulation to whole sample sequences and chunk bytes.
-/
namespace Prom.ChunkXor2
open Prom.Bits Prom.Varbit Prom.ChunkXor

/-- The single-sample simulation for samples ≥ 2 (`Append`'s `default:` case against `Next`). -/
def StepN : Prop :=
  ∀ (K : Bool) (F k : Nat), 2 ≤ k → ∀ (a : App) (d : Dec) (st t : Int) (v : Nat) (rest : Bits),
    StRel K F k a d → I64 st → I64 t → v < 2 ^ 64 → Post K F (k + 1) (encNext k a st t v).2 →
    ∃ d', decNext F k d ((encNext k a st t v).1 ++ rest) = some (d', rest) ∧
      StRel K F (k + 1) (encNext k a st t v).2 d' ∧ d'.st = st ∧ d'.t = t ∧ d'.val = v

/-! ### whole sample sequences -/

theorem step (hN : StepN) (K : Bool) (F k : Nat) (a : App) (d : Dec) (st t : Int) (v : Nat) (rest : Bits)
    (hrel : StRel K F k a d) (hst : I64 st) (ht : I64 t) (hv : v < 2 ^ 64)
    (hpost : Post K F (k + 1) (encSample k a st t v).2) :
    ∃ d', decSample K F k d ((encSample k a st t v).1 ++ rest) = some (d', rest) ∧
      StRel K F (k + 1) (encSample k a st t v).2 d' ∧ d'.st = st ∧ d'.t = t ∧ d'.val = v := by
  match k with
  | 0 => exact step0 K F a d st t v rest hrel hst ht hv hpost
  | 1 => exact step1 K F a d st t v rest hrel hst ht hv hpost
  | n + 2 => exact hN K F (n + 2) (by omega) a d st t v rest hrel hst ht hv hpost

/-- How one `Append` moves `firstSTChangeOn` / `firstSTKnown`. -/
theorem encSample_hdr (k : Nat) (a : App) (st t : Int) (v : Nat) (hlt : a.fsco ≠ 0 → a.fsco < k) :
    (a.fsco ≠ 0 → (encSample k a st t v).2.fsco = a.fsco) ∧
    (a.fsco = 0 → (encSample k a st t v).2.fsco = 0 ∨ ((encSample k a st t v).2.fsco = k ∧ 1 ≤ k)) ∧
    (a.fsco = 0 → k = 127 → (encSample k a st t v).2.fsco = 127) ∧
    (1 ≤ k → (encSample k a st t v).2.known = a.known) := by
  match k with
  | 0 => simp [encSample]
  | 1 =>
    have h0 : a.fsco = 0 := by
      by_cases h : a.fsco = 0
      · exact h
      · have := hlt h; omega
    simp only [encSample]
    by_cases h : st = a.st <;> simp [h, h0]
  | n + 2 =>
    show (a.fsco ≠ 0 → (encNext (n + 2) a st t v).2.fsco = a.fsco) ∧
      (a.fsco = 0 → (encNext (n + 2) a st t v).2.fsco = 0 ∨ ((encNext (n + 2) a st t v).2.fsco = n + 2 ∧ 1 ≤ n + 2)) ∧
      (a.fsco = 0 → n + 2 = 127 → (encNext (n + 2) a st t v).2.fsco = 127) ∧
      (1 ≤ n + 2 → (encNext (n + 2) a st t v).2.known = a.known)
    by_cases hc : a.fsco = 0 ∧ st = a.st ∧ n + 2 ≠ 127
    · rw [encNext_fast _ a st t v hc]
      exact ⟨fun _ => rfl, fun h => Or.inl h, fun _ h => absurd h hc.2.2, fun _ => rfl⟩
    · by_cases hpos : a.fsco > 0
      · rw [encNext_active _ a st t v hc hpos]
        exact ⟨fun _ => rfl, fun h => absurd h (by omega), fun h => absurd h (by omega), fun _ => rfl⟩
      · rw [encNext_slow _ a st t v hc hpos]
        exact ⟨fun h => absurd h (by omega), fun _ => Or.inr ⟨rfl, by omega⟩,
          fun _ h => (rfl : (encSlow (n + 2) true a st t v).2.fsco = n + 2).trans h, fun _ => rfl⟩

theorem inv_next (k : Nat) (a : App) (st t : Int) (v : Nat) (hlt : a.fsco ≠ 0 → a.fsco < k) :
    (encSample k a st t v).2.fsco ≠ 0 → (encSample k a st t v).2.fsco < k + 1 := by
  obtain ⟨p1, p2, _, _⟩ := encSample_hdr k a st t v hlt
  intro h
  by_cases hz : a.fsco = 0
  · rcases p2 hz with q | ⟨q, _⟩
    · exact absurd q h
    · omega
  · have := p1 hz
    have := hlt hz
    omega

theorem final_fsco (ss : List Sample3) : ∀ (k : Nat) (a : App), a.fsco ≠ 0 → a.fsco < k →
    (encState k a ss).fsco = a.fsco := by
  induction ss with
  | nil => intro k a _ _; rfl
  | cons s ss ih =>
    intro k a h hlt
    obtain ⟨st, t, v⟩ := s
    have h1 := (encSample_hdr k a st t v (fun _ => hlt)).1 h
    simp only [encState]
    rw [ih (k + 1) _ (by rw [h1]; exact h) (by rw [h1]; omega), h1]

theorem final_fsco0 (ss : List Sample3) : ∀ (k : Nat) (a : App), a.fsco = 0 →
    (encState k a ss).fsco = 0 ∨ k ≤ (encState k a ss).fsco := by
  induction ss with
  | nil => intro k a h; exact Or.inl h
  | cons s ss ih =>
    intro k a h
    obtain ⟨st, t, v⟩ := s
    simp only [encState]
    rcases (encSample_hdr k a st t v (fun h' => absurd h h')).2.1 h with h1 | ⟨h1, h2⟩
    · rcases ih (k + 1) _ h1 with h3 | h3
      · exact Or.inl h3
      · exact Or.inr (by omega)
    · have hne : (encSample k a st t v).2.fsco ≠ 0 := by omega
      rw [final_fsco ss (k + 1) _ hne (by omega), h1]
      exact Or.inr (Nat.le_refl _)

theorem final_known (ss : List Sample3) : ∀ (k : Nat) (a : App), 1 ≤ k → (a.fsco ≠ 0 → a.fsco < k) →
    (encState k a ss).known = a.known := by
  induction ss with
  | nil => intro k a _ _; rfl
  | cons s ss ih =>
    intro k a h hlt
    obtain ⟨st, t, v⟩ := s
    simp only [encState]
    rw [ih (k + 1) _ (by omega) (inv_next k a st t v hlt), (encSample_hdr k a st t v hlt).2.2.2 h]

/-- Well-formed input: int64 start timestamps and timestamps, 64-bit value patterns. -/
def WF3 (ss : List Sample3) : Prop := ∀ s ∈ ss, I64 s.1 ∧ I64 s.2.1 ∧ s.2.2 < 2 ^ 64

theorem decodeFrom_encodeFrom (hN : StepN) (ss : List Sample3) :
    ∀ (k : Nat) (a : App) (d : Dec) (rest : Bits),
      StRel (encState k a ss).known (encState k a ss).fsco k a d → (ss ≠ [] ∨ 1 ≤ k) → WF3 ss →
      ∃ d', decodeFrom (encState k a ss).known (encState k a ss).fsco ss.length k d (encodeFrom k a ss ++ rest)
        = (ss, d', rest, true) := by
  induction ss with
  | nil => intro k a d rest _ _ _; exact ⟨d, rfl⟩
  | cons s ss ih =>
    intro k a d rest hrel _ hwf
    obtain ⟨st, t, v⟩ := s
    obtain ⟨h1, h2, h3⟩ := hwf (st, t, v) List.mem_cons_self
    simp only [encState] at hrel ⊢
    have hlt : a.fsco ≠ 0 → a.fsco < k := fun h => (hrel.act h).2.1
    have hpost : Post (encState (k + 1) (encSample k a st t v).2 ss).known
        (encState (k + 1) (encSample k a st t v).2 ss).fsco (k + 1) (encSample k a st t v).2 :=
      ⟨fun h => (final_fsco ss (k + 1) _ h (inv_next k a st t v hlt h)).symm, fun h => final_fsco0 ss (k + 1) _ h,
        (final_known ss (k + 1) _ (by omega) (inv_next k a st t v hlt)).symm⟩
    obtain ⟨d1, hd1, hrel1, e1, e2, e3⟩ := step hN _ _ k a d st t v
      (encodeFrom (k + 1) (encSample k a st t v).2 ss ++ rest) hrel h1 h2 h3 hpost
    obtain ⟨d2, hd2⟩ := ih (k + 1) (encSample k a st t v).2 d1 rest hrel1 (Or.inr (by omega))
      (fun s hs => hwf s (List.mem_cons_of_mem _ hs))
    refine ⟨d2, ?_⟩
    simp only [encodeFrom, List.length_cons, decodeFrom, List.append_assoc, hd1, hd2, e1, e2, e3]

theorem StRel_init (K : Bool) (F : Nat) : StRel K F 0 appInit decInit :=
  ⟨Or.inl rfl, ⟨rfl, by decide⟩, fun h => absurd h (by decide), fun h => absurd h (by decide),
    ⟨rfl, by decide⟩, fun _ => ⟨rfl, rfl⟩, fun h => absurd h (by decide), fun h => absurd rfl h,
    fun _ => ⟨by omega, by decide⟩⟩

/-- Samples-level round trip: with the chunk's final ST header, the iterator returns what was appended. -/
theorem decode_encode (hN : StepN) (ss : List Sample3) (rest : Bits) (hwf : WF3 ss) :
    ∃ d', decodeFrom (encState 0 appInit ss).known (encState 0 appInit ss).fsco ss.length 0 decInit
        (encode ss ++ rest) = (ss, d', rest, true) := by
  match ss with
  | [] => exact ⟨decInit, rfl⟩
  | s :: ss =>
    exact decodeFrom_encodeFrom hN (s :: ss) 0 appInit decInit rest (StRel_init _ _) (Or.inl (by simp)) hwf

/-- `firstSTChangeOn` always fits the 7 header bits: it is forced at index 127. -/
theorem fsco_le (ss : List Sample3) : ∀ (k : Nat) (a : App), a.fsco ≤ 127 → (a.fsco = 0 → k ≤ 127) →
    (a.fsco ≠ 0 → a.fsco < k) → (encState k a ss).fsco ≤ 127 := by
  induction ss with
  | nil => intro k a h _ _; exact h
  | cons s ss ih =>
    intro k a h h0 hlt
    obtain ⟨st, t, v⟩ := s
    simp only [encState]
    obtain ⟨p1, p2, p3, _⟩ := encSample_hdr k a st t v hlt
    have hn := inv_next k a st t v hlt
    by_cases hz : a.fsco = 0
    · rcases p2 hz with q | ⟨q, _⟩
      · refine ih (k + 1) _ (by omega) (fun _ => ?_) hn
        have := h0 hz
        by_cases h127 : k = 127
        · have := p3 hz h127; omega
        · omega
      · exact ih (k + 1) _ (by have := h0 hz; omega) (fun h' => by omega) hn
    · have := p1 hz
      exact ih (k + 1) _ (by omega) (fun h' => by omega) hn

theorem hdr_parse (a : App) (h : a.fsco ≤ 127) :
    decide (hdrByte a ≥ 128) = a.known ∧ hdrByte a % 128 = a.fsco := by
  unfold hdrByte
  rw [if_pos h]
  cases a.known <;> simp <;> omega

/-- Chunk-level round trip on the bytes. -/
theorem roundtrip_bytes (hN : StepN) (ss : List Sample3) (hlen : ss.length ≤ 65535) (hwf : WF3 ss) :
    decodeChunk (encodeBytes ss) = (ss, true) := by
  obtain ⟨d', hd⟩ := decode_encode hN ss (List.replicate (padLen (encode ss).length) false) hwf
  have hF := fsco_le ss 0 appInit (by decide) (fun _ => by decide) (fun h => absurd rfl h)
  obtain ⟨hK1, hK2⟩ := hdr_parse _ hF
  have hn : ss.length / 256 % 256 * 256 + ss.length % 256 = ss.length := by omega
  simp only [decodeChunk, encodeBytes, chunkBytes, hn, fromBytes_toBytes, padTo8, hK1, hK2, hd]

end Prom.ChunkXor2

/- UNFINISHED: proof script for `StepN` (three paths of `encNext`), elaboration did not terminate in time.


theorem encFast_fst (a : App) (t : Int) (v : Nat) :
    (encFast a t v).1 = (tvBits a.v a.leading a.trailing (dodOf a t) v).1 := rfl
theorem encFast_snd (a : App) (t : Int) (v : Nat) :
    (encFast a t v).2 = { a with t := t, v := baseOf a.v v, tDelta := toU (t - a.t),
            leading := (tvBits a.v a.leading a.trailing (dodOf a t) v).2.1,
            trailing := (tvBits a.v a.leading a.trailing (dodOf a t) v).2.2 } := rfl
theorem encActive_fst (a : App) (st t : Int) (v : Nat) :
    (encActive a st t v).1 = (tvBits a.v a.leading a.trailing (dodOf a t) v).1 ++
      putVarbitInt (wrapI (wrapI (a.t - st) - a.stDiff)) := rfl
theorem encActive_snd (a : App) (st t : Int) (v : Nat) :
    (encActive a st t v).2 = { a with st := st, t := t, v := baseOf a.v v, tDelta := toU (t - a.t), stDiff := wrapI (a.t - st),
            leading := (tvBits a.v a.leading a.trailing (dodOf a t) v).2.1,
            trailing := (tvBits a.v a.leading a.trailing (dodOf a t) v).2.2 } := rfl
theorem encSlow_fst (k : Nat) (a : App) (st t : Int) (v : Nat) :
    (encSlow k true a st t v).1 = (encodeJoint a.v a.leading a.trailing (dodOf a t) v).1 ++
      putVarbitInt (wrapI (a.t - st)) := rfl
theorem encSlow_snd (k : Nat) (a : App) (st t : Int) (v : Nat) :
    (encSlow k true a st t v).2 = { a with st := st, t := t, v := baseOf a.v v, tDelta := toU (t - a.t),
            stDiff := wrapI (a.t - st),
            leading := (encodeJoint a.v a.leading a.trailing (dodOf a t) v).2.1,
            trailing := (encodeJoint a.v a.leading a.trailing (dodOf a t) v).2.2, fsco := k } := rfl

theorem stepN_fast (K : Bool) (F k : Nat) (hk : 2 ≤ k) (a : App) (d : Dec) (st t : Int) (v : Nat) (rest : Bits)
    (hrel : StRel K F k a d) (hst : I64 st) (ht : I64 t) (hv : v < 2 ^ 64)
    (hc : a.fsco = 0 ∧ st = a.st ∧ k ≠ 127)
    (hpost : Post K F (k + 1) (encNext k a st t v).2) :
    ∃ d', decNext F k d ((encNext k a st t v).1 ++ rest) = some (d', rest) ∧
      StRel K F (k + 1) (encNext k a st t v).2 d' ∧ d'.st = st ∧ d'.t = t ∧ d'.val = v := by
  obtain ⟨hw, ⟨hb, hbl⟩, hts, htd, ⟨hs, hsi⟩, _, hkn, hact, hpas⟩ := hrel
  obtain ⟨e1, i1⟩ := hts (by omega)
  obtain ⟨e2, i2⟩ := htd hk
  have hkn' := hkn (by omega)
  have htv : TVRel a d := ⟨hw, hb, hbl, e1, i1, e2, i2⟩
  rw [encNext_fast k a st t v hc] at hpost ⊢
  rw [encFast_fst, encFast_snd] at hpost ⊢
  obtain ⟨p1, p2, p3⟩ := hpost
  obtain ⟨hf0, hsa, hn⟩ := hc
  obtain ⟨dl', dt', hx, hw'⟩ := decTV_tvBits a d t v rest htv ht hv
  have hF : F = 0 ∨ k + 1 ≤ F := p2 hf0
  have hcond : ¬ (F > 0 ∧ k ≥ F) := by omega
  have h127 : k ≤ 127 := (hpas hf0).2
  refine ⟨{ d with t := t, val := v, base := baseOf a.v v, tDelta := toU (t - a.t), leading := dl', trailing := dt' },
    ?_, ?_, ?_, rfl, rfl⟩
  · rw [decNext_of F k d _ _ _ _ _ _ _ _ hx, decST_skip _ _ _ _ _ hcond]
  · exact ⟨hw', ⟨rfl, baseOf_lt hbl hv⟩, fun _ => ⟨rfl, ht⟩, fun _ => ⟨rfl, toU_lt _⟩, ⟨hs, hsi⟩,
      fun h => absurd h (by omega), fun _ => hkn', fun h => absurd hf0 h,
      fun _ => ⟨hF, by omega⟩⟩
  · show d.st = st
    rw [← hs, hsa]


theorem stepN_active (K : Bool) (F k : Nat) (hk : 2 ≤ k) (a : App) (d : Dec) (st t : Int) (v : Nat) (rest : Bits)
    (hrel : StRel K F k a d) (hst : I64 st) (ht : I64 t) (hv : v < 2 ^ 64)
    (hc : ¬ (a.fsco = 0 ∧ st = a.st ∧ k ≠ 127)) (hpos : a.fsco > 0)
    (hpost : Post K F (k + 1) (encNext k a st t v).2) :
    ∃ d', decNext F k d ((encNext k a st t v).1 ++ rest) = some (d', rest) ∧
      StRel K F (k + 1) (encNext k a st t v).2 d' ∧ d'.st = st ∧ d'.t = t ∧ d'.val = v := by
  obtain ⟨hw, ⟨hb, hbl⟩, hts, htd, ⟨hs, hsi⟩, _, hkn, hact, hpas⟩ := hrel
  obtain ⟨e1, i1⟩ := hts (by omega)
  obtain ⟨e2, i2⟩ := htd hk
  have hkn' := hkn (by omega)
  have htv : TVRel a d := ⟨hw, hb, hbl, e1, i1, e2, i2⟩
  rw [encNext_active k a st t v hc hpos] at hpost ⊢
  rw [encActive_fst, encActive_snd] at hpost ⊢
  obtain ⟨p1, p2, p3⟩ := hpost
  have hne : a.fsco ≠ 0 := by omega
  obtain ⟨hF, hlt, hsd, hsdi⟩ := hact hne
  obtain ⟨dl', dt', hx, hw'⟩ := decTV_tvBits a d t v
    (putVarbitInt (wrapI (wrapI (a.t - st) - a.stDiff)) ++ rest) htv ht hv
  have hcond : F > 0 ∧ k ≥ F := by omega
  have hneq : ¬ (k = F) := by omega
  have hsd' : wrapI (d.stDiff + wrapI (wrapI (a.t - st) - a.stDiff)) = wrapI (a.t - st) := by
    rw [← hsd, sd_rt (wrapI_I64 _)]
  have hst' : wrapI (d.t - wrapI (a.t - st)) = st := by rw [← e1, st_rt hst]
  refine ⟨{ d with t := t, val := v, base := baseOf a.v v, tDelta := toU (t - a.t), leading := dl', trailing := dt',
                   stDiff := wrapI (a.t - st), st := st }, ?_, ?_, rfl, rfl, rfl⟩
  · rw [List.append_assoc, decNext_of F k d _ _ _ _ _ _ _ _ hx,
      decST_read _ _ _ _ _ _ _ hcond (readVarbitInt_put _ rest (wrapI_I64 _))]
    simp only [if_neg hneq, hsd', hst']
  · exact ⟨hw', ⟨rfl, baseOf_lt hbl hv⟩, fun _ => ⟨rfl, ht⟩, fun _ => ⟨rfl, toU_lt _⟩,
      ⟨rfl, hst⟩, fun h => absurd h (by omega), fun _ => hkn',
      fun _ => ⟨hF, by show a.fsco < k + 1; omega, rfl, wrapI_I64 _⟩, fun h => absurd h hne⟩


theorem stepN_slow (K : Bool) (F k : Nat) (hk : 2 ≤ k) (a : App) (d : Dec) (st t : Int) (v : Nat) (rest : Bits)
    (hrel : StRel K F k a d) (hst : I64 st) (ht : I64 t) (hv : v < 2 ^ 64)
    (hc : ¬ (a.fsco = 0 ∧ st = a.st ∧ k ≠ 127)) (hpos : ¬ a.fsco > 0)
    (hpost : Post K F (k + 1) (encNext k a st t v).2) :
    ∃ d', decNext F k d ((encNext k a st t v).1 ++ rest) = some (d', rest) ∧
      StRel K F (k + 1) (encNext k a st t v).2 d' ∧ d'.st = st ∧ d'.t = t ∧ d'.val = v := by
  obtain ⟨hw, ⟨hb, hbl⟩, hts, htd, ⟨hs, hsi⟩, _, hkn, hact, hpas⟩ := hrel
  obtain ⟨e1, i1⟩ := hts (by omega)
  obtain ⟨e2, i2⟩ := htd hk
  have hkn' := hkn (by omega)
  have htv : TVRel a d := ⟨hw, hb, hbl, e1, i1, e2, i2⟩
  rw [encNext_slow k a st t v hc hpos] at hpost ⊢
  rw [encSlow_fst, encSlow_snd] at hpost ⊢
  obtain ⟨p1, p2, p3⟩ := hpost
  have hF : k = F := p1 (by show ¬ (k = 0); omega)
  obtain ⟨dl', dt', hx, hw'⟩ := decTV_encodeJoint a d t v (putVarbitInt (wrapI (a.t - st)) ++ rest) htv ht hv
  have hcond : F > 0 ∧ k ≥ F := by omega
  have hst' : wrapI (d.t - wrapI (a.t - st)) = st := by rw [← e1, st_rt hst]
  refine ⟨{ d with t := t, val := v, base := baseOf a.v v, tDelta := toU (t - a.t), leading := dl', trailing := dt',
                   stDiff := wrapI (a.t - st), st := st }, ?_, ?_, rfl, rfl, rfl⟩
  · rw [List.append_assoc, decNext_of F k d _ _ _ _ _ _ _ _ hx,
      decST_read _ _ _ _ _ _ _ hcond (readVarbitInt_put _ rest (wrapI_I64 _))]
    simp only [if_pos hF, hst']
  · exact ⟨hw', ⟨rfl, baseOf_lt hbl hv⟩, fun _ => ⟨rfl, ht⟩, fun _ => ⟨rfl, toU_lt _⟩,
      ⟨rfl, hst⟩, fun h => absurd h (by omega), fun _ => hkn',
      fun _ => ⟨hF, by show k < k + 1; omega, rfl, wrapI_I64 _⟩,
      fun h => absurd h (by show ¬ (k = 0); omega)⟩


-/
