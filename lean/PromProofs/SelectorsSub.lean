import PromModel.Promql.Selectors
/-
  Lemmas about evaluation steps and `subqueryTimeRange` (all of `Int`, negative times included).
-/
namespace Prom.Selectors

theorem mem_stepsFrom (i : Int) : ∀ (n : Nat) (s t : Int),
    t ∈ stepsFrom s i n ↔ ∃ j : Nat, j < n ∧ t = s + j * i := by
  intro n
  induction n with
  | zero => intro s t; simp [stepsFrom]
  | succ n ih =>
    intro s t
    simp only [stepsFrom, List.mem_cons, ih]
    constructor
    · rintro (rfl | ⟨j, hj, rfl⟩)
      · exact ⟨0, by omega, by simp⟩
      · refine ⟨j + 1, by omega, ?_⟩
        rw [Int.natCast_add, Int.add_mul]; simp; omega
    · rintro ⟨j, hj, rfl⟩
      cases j with
      | zero => left; simp
      | succ j =>
        right
        refine ⟨j, by omega, ?_⟩
        rw [Int.natCast_add, Int.add_mul]; simp; omega

/-- the evaluator's step loop `for ts := start; ts <= end; ts += interval` -/
theorem mem_steps {start end_ interval : Int} (hi : 0 < interval) (t : Int) :
    t ∈ steps start end_ interval ↔ ∃ j : Nat, t = start + j * interval ∧ t ≤ end_ := by
  unfold steps numSteps
  rw [mem_stepsFrom]
  by_cases h : end_ < start
  · simp only [h, if_true]
    constructor
    · rintro ⟨j, hj, _⟩; omega
    · rintro ⟨j, rfl, hle⟩
      have : 0 ≤ (j : Int) * interval := Int.mul_nonneg (by omega) (by omega)
      omega
  · simp only [h, if_false]
    have hnn : 0 ≤ (end_ - start) / interval := Int.ediv_nonneg (by omega) (by omega)
    constructor
    · rintro ⟨j, hj, rfl⟩
      refine ⟨j, rfl, ?_⟩
      have : (j : Int) ≤ (end_ - start) / interval := by omega
      have := (Int.le_ediv_iff_mul_le hi).mp this
      omega
    · rintro ⟨j, rfl, hle⟩
      refine ⟨j, ?_, rfl⟩
      have : (j : Int) * interval ≤ end_ - start := by omega
      have := (Int.le_ediv_iff_mul_le hi).mpr this
      omega

/-- `interval * (lo / interval)` (Go's truncated division) bumped by one interval when it is not above `lo`
    is the least multiple of `interval` strictly above `lo` — also for negative `lo`. -/
theorem subquery_start_spec (lo interval : Int) (hi : 0 < interval) :
    let s0 := interval * (Int.tdiv lo interval)
    let start := if s0 ≤ lo then s0 + interval else s0
    (∃ k, start = interval * k) ∧ lo < start ∧ start - interval ≤ lo := by
  intro s0 start
  have hdm : interval * (Int.tdiv lo interval) + Int.tmod lo interval = lo := Int.mul_tdiv_add_tmod lo interval
  have hlt : Int.tmod lo interval < interval := Int.tmod_lt_of_pos lo hi
  have hgt : -interval < Int.tmod lo interval := by
    have := Int.lt_tmod_of_pos lo hi  -- -b < tmod a b
    omega
  by_cases hneg : 0 ≤ lo
  · have hm : 0 ≤ Int.tmod lo interval := Int.tmod_nonneg interval hneg
    have hle : s0 ≤ lo := by show interval * (Int.tdiv lo interval) ≤ lo; omega
    refine ⟨⟨Int.tdiv lo interval + 1, ?_⟩, ?_, ?_⟩
    · show (if s0 ≤ lo then s0 + interval else s0) = _
      rw [if_pos hle, Int.mul_add, Int.mul_one]
    · show lo < (if s0 ≤ lo then s0 + interval else s0)
      rw [if_pos hle]; show lo < interval * (Int.tdiv lo interval) + interval; omega
    · show (if s0 ≤ lo then s0 + interval else s0) - interval ≤ lo
      rw [if_pos hle]; show interval * (Int.tdiv lo interval) + interval - interval ≤ lo; omega
  · have hm : Int.tmod lo interval ≤ 0 := by
      have h1 : (-lo).tmod interval = -lo.tmod interval := Int.neg_tmod lo interval
      have h2 := Int.tmod_nonneg interval (show 0 ≤ -lo by omega)
      omega
    by_cases hz : Int.tmod lo interval = 0
    · have hle : s0 ≤ lo := by show interval * (Int.tdiv lo interval) ≤ lo; omega
      refine ⟨⟨Int.tdiv lo interval + 1, ?_⟩, ?_, ?_⟩
      · show (if s0 ≤ lo then s0 + interval else s0) = _
        rw [if_pos hle, Int.mul_add, Int.mul_one]
      · show lo < (if s0 ≤ lo then s0 + interval else s0)
        rw [if_pos hle]; show lo < interval * (Int.tdiv lo interval) + interval; omega
      · show (if s0 ≤ lo then s0 + interval else s0) - interval ≤ lo
        rw [if_pos hle]; show interval * (Int.tdiv lo interval) + interval - interval ≤ lo; omega
    · have hnle : ¬ s0 ≤ lo := by show ¬ interval * (Int.tdiv lo interval) ≤ lo; omega
      refine ⟨⟨Int.tdiv lo interval, ?_⟩, ?_, ?_⟩
      · show (if s0 ≤ lo then s0 + interval else s0) = _
        rw [if_neg hnle]
      · show lo < (if s0 ≤ lo then s0 + interval else s0)
        rw [if_neg hnle]; show lo < interval * (Int.tdiv lo interval); omega
      · show (if s0 ≤ lo then s0 + interval else s0) - interval ≤ lo
        rw [if_neg hnle]; show interval * (Int.tdiv lo interval) - interval ≤ lo; omega

theorem stepsFrom_ge (i : Int) (hi : 0 ≤ i) (n : Nat) (s y : Int) (hy : y ∈ stepsFrom s i n) : s ≤ y := by
  rw [mem_stepsFrom] at hy
  obtain ⟨j, _, rfl⟩ := hy
  have : 0 ≤ (j : Int) * i := Int.mul_nonneg (by omega) hi
  omega

theorem stepsFrom_pairwise (i : Int) (hi : 0 ≤ i) : ∀ (n : Nat) (s : Int), (stepsFrom s i n).Pairwise (· ≤ ·) := by
  intro n
  induction n with
  | zero => intro s; simp [stepsFrom]
  | succ n ih =>
    intro s
    simp only [stepsFrom, List.pairwise_cons]
    refine ⟨fun y hy => ?_, ih (s + i)⟩
    have := stepsFrom_ge i hi n (s + i) y hy
    omega


end Prom.Selectors
