import PromProofs.QuantileNative
/-
  Helper lemmas for C32, part 6: `HistogramQuantile` of a consistent native histogram is the value of the
  (abstract, monotone) interpolant in the rank bucket; monotonicity in `q` across the forward/reverse
  iteration switch at q = 1/2.
-/
namespace Prom.Quantile
open FOps

theorem XR.isNaN_fin (x : Rat) : XR.isNaN (.fin x) = false := rfl

@[simp] theorem fops_half : (FOps.half : XR) = .fin (1 / 2) := rfl

/-- rational view of a consistent native histogram -/
structure RHist (h : NHist XR) (L : List RB) (N : Rat) : Prop where
  fwd : h.fwd = L.map RB.toN
  rev : h.rev = L.reverse.map RB.toN
  count : h.count = .fin N
  pos : 0 < N
  tot : total L = N
  ok : ∀ b ∈ L, b.l ≤ b.u ∧ 0 ≤ b.c

/-- `b` (preceded by `pre`) is the bucket `HistogramQuantile` interpolates in for quantile `q`:
    cumulative count before `b` ≤ q·N ≤ cumulative count including `b`, `b` non-empty; `tie` records
    which neighbour is taken when the rank falls on a bucket boundary (forward iteration for q < 1/2,
    reverse iteration otherwise; forward iteration for every q when Sum is NaN, `nanSum`). -/
structure Pick (nanSum : Bool) (L : List RB) (N q : Rat) (pre : List RB) (b : RB) (rem : List RB) : Prop where
  split : L = pre ++ b :: rem
  cpos : 0 < b.c
  lo : total pre ≤ q * N
  hi : q * N ≤ total pre + b.c
  tie : ((nanSum = true ∨ q < 1 / 2) ∧ (total pre < q * N ∨ total pre = 0)) ∨
        ((nanSum = false ∧ 1 / 2 ≤ q) ∧ (q * N < total pre + b.c ∨ total pre + b.c = N))

theorem hq_unfold (fixed : Bool) (h : NHist XR) (N q : Rat) (hN : h.count = .fin N) (hpos : 0 < N)
    (h0 : 0 ≤ q) (h1 : q ≤ 1) :
    histogramQuantileWith fixed (.fin q) h =
      if XR.isNaN h.sum = true ∨ q < 1 / 2 then
        hqTail fixed h true (.fin (q * N)) (hqWalk (.fin (q * N)) ⟨.fin 0, .fin 0, .fin 0⟩ (.fin 0) h.fwd)
      else hqTail fixed h false (.fin ((1 - q) * N)) (hqWalk (.fin ((1 - q) * N)) ⟨.fin 0, .fin 0, .fin 0⟩ (.fin 0) h.rev) := by
  have a : ¬ q < 0 := by grind
  have b : ¬ 1 < q := by grind
  have c : ¬ N = 0 := by grind
  rw [histogramQuantile_eq]
  cases hs : XR.isNaN h.sum <;> by_cases hq : q < 1 / 2 <;>
    simp [hN, hs, a, b, c, hq, XR.isNaN_fin]

theorem total_split_le {L pre rem : List RB} {b : RB} (hL : L = pre ++ b :: rem) (ok : ∀ x ∈ L, 0 ≤ x.c) :
    0 ≤ total pre ∧ 0 ≤ total rem ∧ total L = total pre + b.c + total rem := by
  subst hL
  refine ⟨total_nonneg _ (fun x hx => ok x (by simp [hx])), total_nonneg _ (fun x hx => ok x (by simp [hx])), ?_⟩
  simp only [total_append, total]; grind

theorem hq_eval (fixed : Bool) {h : NHist XR} {L : List RB} {N : Rat} (R : RHist h L N) (hs : fixed = true ∨ h.sum ≠ .nan)
    (q : Rat) (h0 : 0 ≤ q) (h1 : q ≤ 1) :
    ∃ pre b rem, Pick (XR.isNaN h.sum) L N q pre b rem ∧
      histogramQuantileWith fixed (.fin q) h = hqOut h b ((q * N - total pre) / b.c) := by
  have okc : ∀ x ∈ L, 0 ≤ x.c := fun x hx => (R.ok x hx).2
  have hqN : q * N ≤ N := by
    have := Rat.mul_le_mul_of_nonneg_right h1 (Rat.le_of_lt R.pos)
    grind
  have hqN0 : 0 ≤ q * N := Rat.mul_nonneg h0 (Rat.le_of_lt R.pos)
  rw [hq_unfold fixed h N q R.count R.pos h0 h1]
  by_cases hq : XR.isNaN h.sum = true ∨ q < 1 / 2
  · simp only [hq, if_true, R.fwd]
    obtain ⟨pre, b, rem, e, hw, c1, c2, c3⟩ := hqWalk_spec (q * N) L 0 ⟨.fin 0, .fin 0, .fin 0⟩ okc
      (by rw [R.tot]; grind) (by rw [R.tot]; exact R.pos)
    obtain ⟨t1, t2, t3⟩ := total_split_le e okc
    rw [R.tot] at t3
    refine ⟨pre, b, rem, ⟨e, c1, ?_, by grind, Or.inl ⟨hq, by grind⟩⟩, ?_⟩
    · rcases c3 with c3 | c3 <;> grind
    · rw [hw, hqTail_eval fixed h hs N R.count true _ _ b _ c1 (by grind) c2]
      congr 1
      simp only [if_true]
      congr 1; grind
  · simp only [hq, if_false, R.rev]
    have hq' : XR.isNaN h.sum = false ∧ 1 / 2 ≤ q := by
      constructor
      · cases hh : XR.isNaN h.sum
        · rfl
        · exact absurd (Or.inl hh) hq
      · have : ¬ q < 1 / 2 := fun hh => hq (Or.inr hh)
        grind
    have hr : (1 - q) * N = N - q * N := by grind
    obtain ⟨pre, b, rem, e, hw, c1, c2, c3⟩ := hqWalk_spec ((1 - q) * N) L.reverse 0 ⟨.fin 0, .fin 0, .fin 0⟩
      (fun x hx => okc x (by simpa using hx)) (by rw [total_reverse, R.tot]; grind) (by rw [total_reverse, R.tot]; exact R.pos)
    have e' : L = rem.reverse ++ b :: pre.reverse := by
      have := congrArg List.reverse e
      simpa using this
    obtain ⟨t1, t2, t3⟩ := total_split_le e' okc
    rw [R.tot, total_reverse, total_reverse] at t3
    rw [total_reverse] at t1 t2
    refine ⟨rem.reverse, b, pre.reverse, ⟨e', c1, ?_, ?_, Or.inr ⟨hq', ?_⟩⟩, ?_⟩
    · rw [total_reverse]; grind
    · rw [total_reverse]; grind
    · rw [total_reverse]
      rcases c3 with c3 | c3
      · left; grind
      · right; grind
    · rw [hw, hqTail_eval fixed h hs N R.count false _ _ b _ c1 (by grind) c2]
      congr 1
      rw [total_reverse]
      simp only [Bool.false_eq_true, if_false]
      congr 1; grind

/-! ### values -/

def evalR (interp : XR → XR → XR → XR) : HQRes XR → XR
  | .val v => v
  | .expo l u f => interp l u f

theorem hqOut_bounds (interp : XR → XR → XR → XR)
    (G : ∀ l u f1 f2 : Rat, l ≤ u → 0 ≤ f1 → f1 ≤ f2 → f2 ≤ 1 →
      ∃ v1 v2, interp (.fin l) (.fin u) (.fin f1) = .fin v1 ∧ interp (.fin l) (.fin u) (.fin f2) = .fin v2 ∧ l ≤ v1 ∧ v1 ≤ v2 ∧ v2 ≤ u)
    (h : NHist XR) (b : RB) (hb : b.l ≤ b.u) (f1 f2 : Rat) (h0 : 0 ≤ f1) (h12 : f1 ≤ f2) (h1 : f2 ≤ 1) :
    ∃ v1 v2, evalR interp (hqOut h b f1) = .fin v1 ∧ evalR interp (hqOut h b f2) = .fin v2 ∧
      adjLo h b ≤ v1 ∧ v1 ≤ v2 ∧ v2 ≤ adjHi h b := by
  obtain ⟨_, hlh, _⟩ := adj_bounds h b hb
  unfold hqOut
  split
  · refine ⟨_, _, rfl, rfl, ?_, interp_mono hlh h12, ?_⟩
    · exact (interp_bounds hlh h0 (by grind)).1
    · exact (interp_bounds hlh (by grind) h1).2
  · exact G _ _ f1 f2 hlh h0 h12 h1

theorem decomp_tri {α : Type} {pre1 pre2 rem1 rem2 : List α} {b1 b2 : α}
    (h : pre1 ++ b1 :: rem1 = pre2 ++ b2 :: rem2) :
    (pre1 = pre2 ∧ b1 = b2 ∧ rem1 = rem2) ∨
    (∃ mid, pre2 = pre1 ++ b1 :: mid ∧ rem1 = mid ++ b2 :: rem2) ∨
    (∃ mid, pre1 = pre2 ++ b2 :: mid ∧ rem2 = mid ++ b1 :: rem1) := by
  rcases List.append_eq_append_iff.mp h with ⟨a', e1, e2⟩ | ⟨c', e1, e2⟩
  · cases a' with
    | nil => simp at e1 e2; exact Or.inl ⟨e1.symm, e2.1, e2.2⟩
    | cons x xs =>
      simp at e2
      right; left
      exact ⟨xs, by rw [e1, e2.1], e2.2⟩
  · cases c' with
    | nil => simp at e1 e2; exact Or.inl ⟨e1, e2.1.symm, e2.2.symm⟩
    | cons x xs =>
      simp at e2
      right; right
      exact ⟨xs, by rw [e1, e2.1], e2.2⟩

theorem pairwise_decomp {α : Type} {R : α → α → Prop} {pre mid rem : List α} {b1 b2 : α}
    (P : (pre ++ b1 :: (mid ++ b2 :: rem)).Pairwise R) : R b1 b2 := by
  have := (List.pairwise_append.mp P).2.1
  exact (List.pairwise_cons.mp this).1 b2 (by simp)

theorem pick_frac {ns : Bool} {L : List RB} {N q : Rat} {pre rem : List RB} {b : RB} (P : Pick ns L N q pre b rem) :
    0 ≤ (q * N - total pre) / b.c ∧ (q * N - total pre) / b.c ≤ 1 :=
  ⟨rat_div_nonneg (by have := P.lo; grind) P.cpos, rat_div_le_one (by have := P.hi; grind) P.cpos⟩

/-- the native quantile is a number inside the (adjusted) bounds of the rank bucket -/
theorem hq_in_bucket_core (interp : XR → XR → XR → XR)
    (G : ∀ l u f1 f2 : Rat, l ≤ u → 0 ≤ f1 → f1 ≤ f2 → f2 ≤ 1 →
      ∃ v1 v2, interp (.fin l) (.fin u) (.fin f1) = .fin v1 ∧ interp (.fin l) (.fin u) (.fin f2) = .fin v2 ∧ l ≤ v1 ∧ v1 ≤ v2 ∧ v2 ≤ u)
    (fixed : Bool) {h : NHist XR} {L : List RB} {N : Rat} (R : RHist h L N) (hs : fixed = true ∨ h.sum ≠ .nan)
    (q : Rat) (h0 : 0 ≤ q) (h1 : q ≤ 1) :
    ∃ pre b rem, Pick (XR.isNaN h.sum) L N q pre b rem ∧ ∃ v, evalR interp (histogramQuantileWith fixed (.fin q) h) = .fin v ∧
      adjLo h b ≤ v ∧ v ≤ adjHi h b := by
  obtain ⟨pre, b, rem, P, e⟩ := hq_eval fixed R hs q h0 h1
  have hb : b.l ≤ b.u := (R.ok b (by rw [P.split]; simp)).1
  obtain ⟨f0, f1⟩ := pick_frac P
  obtain ⟨v1, _, e1, _, l1, _, u1⟩ := hqOut_bounds interp G h b hb _ _ f0 Rat.le_refl f1
  exact ⟨pre, b, rem, P, v1, by rw [e]; exact e1, l1, by grind⟩

/-- the native quantile never decreases with `q` (and is never NaN) -/
theorem hq_mono_core (interp : XR → XR → XR → XR)
    (G : ∀ l u f1 f2 : Rat, l ≤ u → 0 ≤ f1 → f1 ≤ f2 → f2 ≤ 1 →
      ∃ v1 v2, interp (.fin l) (.fin u) (.fin f1) = .fin v1 ∧ interp (.fin l) (.fin u) (.fin f2) = .fin v2 ∧ l ≤ v1 ∧ v1 ≤ v2 ∧ v2 ≤ u)
    (fixed : Bool) {h : NHist XR} {L : List RB} {N : Rat} (R : RHist h L N) (hs : fixed = true ∨ h.sum ≠ .nan)
    (PW : L.Pairwise (fun a b => a.u ≤ b.l))
    (q1 q2 : Rat) (h0 : 0 ≤ q1) (h12 : q1 ≤ q2) (h1 : q2 ≤ 1) :
    ∃ v1 v2, evalR interp (histogramQuantileWith fixed (.fin q1) h) = .fin v1 ∧
      evalR interp (histogramQuantileWith fixed (.fin q2) h) = .fin v2 ∧ v1 ≤ v2 := by
  have okc : ∀ x ∈ L, 0 ≤ x.c := fun x hx => (R.ok x hx).2
  obtain ⟨pre1, b1, rem1, P1, e1⟩ := hq_eval fixed R hs q1 h0 (by grind)
  obtain ⟨pre2, b2, rem2, P2, e2⟩ := hq_eval fixed R hs q2 (by grind) h1
  have hb1 : b1.l ≤ b1.u := (R.ok b1 (by rw [P1.split]; simp)).1
  have hb2 : b2.l ≤ b2.u := (R.ok b2 (by rw [P2.split]; simp)).1
  have hρ : q1 * N ≤ q2 * N := Rat.mul_le_mul_of_nonneg_right h12 (Rat.le_of_lt R.pos)
  obtain ⟨f10, f11⟩ := pick_frac P1
  obtain ⟨f20, f21⟩ := pick_frac P2
  rw [e1, e2]
  rcases decomp_tri (P1.split.symm.trans P2.split) with ⟨ep, eb, _⟩ | ⟨mid, ep, er⟩ | ⟨mid, ep, er⟩
  · subst ep; subst eb
    have hf : (q1 * N - total pre1) / b1.c ≤ (q2 * N - total pre1) / b1.c :=
      rat_div_mono (by grind) P1.cpos
    obtain ⟨v1, v2, a1, a2, _, a3, _⟩ := hqOut_bounds interp G h b1 hb1 _ _ f10 hf f21
    exact ⟨v1, v2, a1, a2, a3⟩
  · have hsep : b1.u ≤ b2.l := by
      have := PW
      rw [P1.split, er] at this
      exact pairwise_decomp (R := fun a b : RB => a.u ≤ b.l) this
    obtain ⟨v1, _, a1, _, _, _, u1⟩ := hqOut_bounds interp G h b1 hb1 _ _ f10 Rat.le_refl f11
    obtain ⟨v2, _, a2, _, l2, _, _⟩ := hqOut_bounds interp G h b2 hb2 _ _ f20 Rat.le_refl f21
    have A1 := adj_bounds h b1 hb1
    have A2 := adj_bounds h b2 hb2
    exact ⟨v1, v2, a1, a2, by grind⟩
  · -- the bucket of the larger quantile cannot precede the bucket of the smaller one
    exfalso
    obtain ⟨s1, _, _⟩ := total_split_le P2.split okc
    obtain ⟨_, r1, t1⟩ := total_split_le P1.split okc
    rw [R.tot] at t1
    have hS : total pre1 = total pre2 + b2.c + total mid := by
      rw [ep]; simp only [total_append, total]; grind
    have hmid : 0 ≤ total mid := total_nonneg _ (fun x hx => okc x (by rw [P1.split, ep]; simp [hx]))
    have l1 := P1.lo
    have u2 := P2.hi
    have c1 := P1.cpos
    have c2 := P2.cpos
    rcases P1.tie with ⟨hq1, t⟩ | ⟨hq1, _⟩
    · rcases t with t | t <;> grind
    · rcases P2.tie with ⟨hq2, _⟩ | ⟨_, t⟩
      · grind
      · rcases t with t | t <;> grind

end Prom.Quantile

namespace Prom.Quantile

/-- the components of `ConsistentHist` give the rational view -/
theorem rhist_of (h : NHist XR) (hrev : h.rev = h.fwd.reverse)
    (hcnt : ∃ N, h.count = .fin N ∧ 0 < N ∧ sumCounts (.fin 0) h.fwd = .fin N)
    (hb : ∀ b ∈ h.fwd, ∃ l u c, b.lower = .fin l ∧ b.upper = .fin u ∧ b.count = .fin c ∧ l ≤ u ∧ 0 ≤ c)
    (hp : h.fwd.Pairwise (fun a b => XR.le a.upper b.lower = true)) :
    ∃ L N, RHist h L N ∧ L.Pairwise (fun a b => a.u ≤ b.l) := by
  obtain ⟨L, e, ok⟩ := lift_buckets h.fwd hb
  obtain ⟨N, hN, hpos, hsumc⟩ := hcnt
  refine ⟨L, N, ⟨e, by rw [hrev, e, List.map_reverse], hN, hpos, ?_, ok⟩, ?_⟩
  · rw [e, sumCounts_map] at hsumc
    injection hsumc with hh
    grind
  · rw [e] at hp
    have := List.pairwise_map.mp hp
    refine this.imp ?_
    intro a b hab
    simpa [RB.toN] using hab

end Prom.Quantile
