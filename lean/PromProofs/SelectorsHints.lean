import PromModel.Promql.Selectors
import PromProofs.SelectorsMemo
import PromProofs.SelectorsWin
/-
  The querier range (`getTimeRangesForSelector`) never hides a sample the evaluator needs.
-/
namespace Prom.Selectors

theorem mem_visible (rg : Int × Int) (series : Series) (s : Sample) :
    s ∈ visible rg series ↔ s ∈ series ∧ rg.1 ≤ s.t ∧ s.t ≤ rg.2 := by
  unfold visible
  rw [List.mem_filter]
  simp

theorem sorted_visible {series : Series} (hs : Sorted series) (rg : Int × Int) : Sorted (visible rg series) :=
  sorted_filter hs _

/-- restricting the series to a range that covers `(r - lb, r]` does not change the instant lookup -/
theorem instantSpec_visible {series : Series} (hs : Sorted series) (rg : Int × Int) (r lb : Int)
    (hlo : rg.1 ≤ r - lb + 1) (hhi : r ≤ rg.2) :
    instantSpec (visible rg series) r lb = instantSpec series r lb := by
  apply Option.ext
  intro s
  rw [instantSpec_iff (sorted_visible hs rg), instantSpec_iff hs]
  simp only [mem_visible]
  constructor
  · rintro ⟨⟨h1, h2, h3⟩, h4, h5, h6, h7⟩
    refine ⟨h1, h4, h5, h6, ?_⟩
    intro x hx hxr
    by_cases hxl : rg.1 ≤ x.t
    · exact h7 x ⟨hx, hxl, by omega⟩ hxr
    · omega
  · rintro ⟨h1, h4, h5, h6, h7⟩
    exact ⟨⟨h1, by omega, by omega⟩, h4, h5, h6, fun x hx hxr => h7 x hx.1 hxr⟩

/-- restricting the series to a range that covers `(mint, maxt]` does not change the range window -/
theorem winSpec_visible (series : Series) (rg : Int × Int) (mint maxt : Int)
    (hlo : rg.1 ≤ mint + 1) (hhi : maxt ≤ rg.2) :
    winSpec (visible rg series) mint maxt = winSpec series mint maxt := by
  unfold winSpec visible
  simp only [List.filter_filter]
  congr 1
  · apply List.filter_congr
    intro x _
    by_cases a : mint < x.t <;> by_cases b : x.t ≤ maxt <;> simp [a, b] <;> omega
  · apply List.filter_congr
    intro x _
    by_cases a : mint < x.t <;> by_cases b : x.t ≤ maxt <;> simp [a, b] <;> omega

end Prom.Selectors
