import PromModel.Tsdb.Tombstones
import PromProofs.IntervalsAdd
/-
  C20: the tombstone codec reads back exactly what was written (`decode ∘ encode`, and the file with
  magic and CRC for an arbitrary CRC function); `TruncateBefore` on canonical sets.
-/
namespace Prom.Tombstones
open Prom.Intervals

/-! ### varints -/

theorem putUvarintAux_ne_nil (fuel x : Nat) : putUvarintAux fuel x ≠ [] := by
  cases fuel with
  | zero => simp [putUvarintAux]
  | succ f => unfold putUvarintAux; split <;> simp

theorem getUvarintAux_put : ∀ (fuel i acc x : Nat) (rest : Bytes), i + fuel = 9 → x * 2 ^ (7 * i) < 2 ^ 64 →
    getUvarintAux i acc (putUvarintAux fuel x ++ rest) = some (acc + x * 2 ^ (7 * i), rest) := by
  intro fuel
  induction fuel with
  | zero =>
    intro i acc x rest hi hx
    have hi9 : i = 9 := by omega
    subst hi9
    have hx2 : x < 2 := by
      have : (2 : Nat) ^ (7 * 9) = 9223372036854775808 := by decide
      rw [this] at hx; omega
    have hb : (UInt8.ofNat x).toNat = x := by
      rw [UInt8.toNat_ofNat']; omega
    simp only [putUvarintAux, List.singleton_append, getUvarintAux, hb]
    rw [if_pos (by omega), if_neg (by omega)]
  | succ f ih =>
    intro i acc x rest hi hx
    have hi8 : i ≤ 8 := by omega
    unfold putUvarintAux
    by_cases hlt : x < 128
    · rw [if_pos hlt]
      have hb : (UInt8.ofNat x).toNat = x := by
        rw [UInt8.toNat_ofNat']; omega
      simp only [List.singleton_append, getUvarintAux, hb]
      rw [if_pos hlt, if_neg (by omega)]
    · rw [if_neg hlt]
      have hb : (UInt8.ofNat (x % 128 + 128)).toNat = x % 128 + 128 := by
        rw [UInt8.toNat_ofNat']; omega
      simp only [List.cons_append, getUvarintAux, hb]
      rw [if_neg (by omega), if_neg (by omega)]
      have hp : 2 ^ (7 * (i + 1)) = 2 ^ (7 * i) * 128 := by
        rw [Nat.mul_add, Nat.pow_add]
      have hdm : x = 128 * (x / 128) + x % 128 := (Nat.div_add_mod x 128).symm
      have hbound : x / 128 * 2 ^ (7 * (i + 1)) < 2 ^ 64 := by
        rw [hp]
        have h1 : x / 128 * (2 ^ (7 * i) * 128) = (x / 128 * 128) * 2 ^ (7 * i) := by ac_rfl
        rw [h1]
        have h2 : x / 128 * 128 ≤ x := Nat.div_mul_le_self x 128
        exact Nat.lt_of_le_of_lt (Nat.mul_le_mul_right _ h2) hx
      rw [ih (i + 1) _ (x / 128) rest (by omega) hbound, hp]
      congr 2
      have e : x % 128 + 128 - 128 = x % 128 := by omega
      rw [e]
      have key : ∀ P q r acc : Nat, acc + r * P + q * (P * 128) = acc + (128 * q + r) * P := by
        intro P q r acc
        have e1 : q * (P * 128) = 128 * q * P := by
          rw [Nat.mul_comm P 128, ← Nat.mul_assoc, Nat.mul_comm q 128]
        rw [e1, Nat.add_mul]; omega
      rw [key, ← hdm]

theorem getUvarint_put (x : Nat) (rest : Bytes) (hx : x < 2 ^ 64) :
    getUvarint (putUvarint x ++ rest) = some (x, rest) := by
  have := getUvarintAux_put 9 0 0 x rest (by omega)
    (by rw [Nat.mul_zero, Nat.pow_zero, Nat.mul_one]; exact hx)
  rw [Nat.mul_zero, Nat.pow_zero, Nat.mul_one, Nat.zero_add] at this
  exact this

theorem zigzag_lt (x : Int) (h : I64 x) : zigzag x < 2 ^ 64 := by
  unfold zigzag I64 MinI64 MaxI64 at *
  split <;> omega

theorem unzigzag_zigzag (x : Int) : unzigzag (zigzag x) = x := by
  unfold unzigzag zigzag
  split <;> split <;> omega

theorem getVarint_put (x : Int) (rest : Bytes) (hx : I64 x) :
    getVarint (putVarint x ++ rest) = some (x, rest) := by
  unfold getVarint putVarint
  rw [getUvarint_put _ _ (zigzag_lt x hx)]
  simp [unzigzag_zigzag]

/-! ### records -/

/-- `Decode`'s loop seen on already-parsed records. -/
def addRecs : Stones → List (Nat × Interval) → Except DecErr Stones
  | st, [] => .ok st
  | st, (r, iv) :: rest =>
    match addInterval st r iv with
    | .error _ => .error .panic
    | .ok st' => addRecs st' rest

def records (st : Stones) : List (Nat × Interval) := st.flatMap fun p => p.2.map fun iv => (p.1, iv)

theorem encode_eq (st : Stones) : encode st = 1 :: (records st).flatMap fun q => encRec q.1 q.2 := by
  unfold encode records
  congr 1
  induction st with
  | nil => rfl
  | cons p st ih =>
    simp only [List.flatMap_cons, List.flatMap_append, ih]
    congr 1
    simp [List.flatMap_map]

theorem decLoop_records : ∀ (recs : List (Nat × Interval)) (fuel : Nat) (st : Stones),
    (recs.flatMap fun q => encRec q.1 q.2).length ≤ fuel →
    (∀ q ∈ recs, q.1 < 2 ^ 64 ∧ I64 q.2.mint ∧ I64 q.2.maxt) →
    decLoop fuel (recs.flatMap fun q => encRec q.1 q.2) st = addRecs st recs
  | [], fuel, st, _, _ => by
    cases fuel <;> simp [decLoop, addRecs]
  | (r, iv) :: recs, fuel, st, hf, hr => by
    obtain ⟨h1, h2, h3⟩ := hr (r, iv) List.mem_cons_self
    have hr' : ∀ q ∈ recs, q.1 < 2 ^ 64 ∧ I64 q.2.mint ∧ I64 q.2.maxt :=
      fun q hq => hr q (List.mem_cons_of_mem _ hq)
    simp only [List.flatMap_cons] at hf ⊢
    have hne : putUvarint r ≠ [] := putUvarintAux_ne_nil 9 r
    have hlen : 0 < (encRec r iv).length := by
      unfold encRec
      simp only [List.length_append]
      have := List.length_pos_iff.mpr hne
      omega
    cases fuel with
    | zero => simp only [List.length_append] at hf; omega
    | succ f =>
      have hnotempty : (encRec r iv ++ recs.flatMap fun q => encRec q.1 q.2).isEmpty = false := by
        cases hq : encRec r iv with
        | nil => rw [hq] at hlen; simp at hlen
        | cons b bs => rfl
      unfold decLoop
      rw [hnotempty]
      simp only [Bool.false_eq_true, if_false]
      have hassoc : encRec r iv ++ (recs.flatMap fun q => encRec q.1 q.2) =
          putUvarint r ++ (putVarint iv.mint ++ (putVarint iv.maxt ++ recs.flatMap fun q => encRec q.1 q.2)) := by
        unfold encRec; simp only [List.append_assoc]
      rw [hassoc, getUvarint_put r _ h1]
      simp only
      rw [getVarint_put iv.mint _ h2]
      simp only
      rw [getVarint_put iv.maxt _ h3]
      simp only
      unfold addRecs
      cases hadd : addInterval st r ⟨iv.mint, iv.maxt⟩ with
      | error e => simp
      | ok st' =>
        simp only
        apply decLoop_records recs f st' _ hr'
        simp only [List.length_append] at hf
        omega

/-! ### rebuilding a well-formed store by `AddInterval` in order -/

theorem getIvs_lt (P : Stones) (r : Nat) (h : ∀ p ∈ P, p.1 < r) : getIvs P r = [] := by
  induction P with
  | nil => rfl
  | cons p P ih =>
    obtain ⟨r', ivs⟩ := p
    have h1 : r' < r := h (r', ivs) List.mem_cons_self
    unfold getIvs
    rw [if_neg (by omega)]
    exact ih fun q hq => h q (List.mem_cons_of_mem _ hq)

theorem setIvs_lt (P : Stones) (r : Nat) (ys : Intervals) (h : ∀ p ∈ P, p.1 < r) :
    setIvs P r ys = P ++ [(r, ys)] := by
  induction P with
  | nil => rfl
  | cons p P ih =>
    obtain ⟨r', ivs⟩ := p
    have h1 : r' < r := h (r', ivs) List.mem_cons_self
    unfold setIvs
    rw [if_neg (by omega), if_neg (by omega), ih fun q hq => h q (List.mem_cons_of_mem _ hq)]
    rfl

theorem getIvs_last (P : Stones) (r : Nat) (pre : Intervals) (h : ∀ p ∈ P, p.1 < r) :
    getIvs (P ++ [(r, pre)]) r = pre := by
  induction P with
  | nil => simp [getIvs]
  | cons p P ih =>
    obtain ⟨r', ivs⟩ := p
    have h1 : r' < r := h (r', ivs) List.mem_cons_self
    simp only [List.cons_append]
    unfold getIvs
    rw [if_neg (by omega)]
    exact ih fun q hq => h q (List.mem_cons_of_mem _ hq)

theorem setIvs_last (P : Stones) (r : Nat) (pre ys : Intervals) (h : ∀ p ∈ P, p.1 < r) :
    setIvs (P ++ [(r, pre)]) r ys = P ++ [(r, ys)] := by
  induction P with
  | nil => simp [setIvs]
  | cons p P ih =>
    obtain ⟨r', ivs⟩ := p
    have h1 : r' < r := h (r', ivs) List.mem_cons_self
    simp only [List.cons_append]
    unfold setIvs
    rw [if_neg (by omega), if_neg (by omega), ih fun q hq => h q (List.mem_cons_of_mem _ hq)]

/-- Adding an interval that lies strictly after (and not adjacent to) everything appends it. -/
theorem add_append (pre : Intervals) (iv : Interval) (hc : Canon (pre ++ [iv]))
    (hr : AllI64 (pre ++ [iv])) : add pre iv = .ok (pre ++ [iv]) := by
  obtain ⟨hcp, _, hlt⟩ := canon_append.mp hc
  have hrp : AllI64 pre := fun x hx => hr x (List.mem_append.mpr (Or.inl hx))
  rw [add_unfold]
  by_cases h0 : pre.length = 0
  · rw [if_pos h0]
    have : pre = [] := List.eq_nil_of_length_eq_zero h0
    subst this; rfl
  rw [if_neg h0]
  have hpos : 0 < pre.length := by omega
  have hmin : iv.mint ≠ MinI64 := by
    have hx := List.getElem_mem hpos
    have h1 := hlt _ hx iv (by simp)
    have h2 := (hrp _ hx).2.1
    omega
  obtain ⟨hm1, _, hm3⟩ := mini_split pre iv hcp hrp
  have hm : miniOf pre iv = pre.length := by
    have hnil : pre.drop (miniOf pre iv) = [] := by
      cases hq : pre.drop (miniOf pre iv) with
      | nil => rfl
      | cons y ys =>
        have hy : y ∈ pre.drop (miniOf pre iv) := by rw [hq]; exact List.mem_cons_self
        have h1 := hm3 y hy
        have h2 := hlt y (List.mem_of_mem_drop hy) iv (by simp)
        omega
    have := List.drop_eq_nil_iff.mp hnil
    omega
  rw [if_pos ⟨hmin, hm⟩]

theorem addRecs_same_ref (P : Stones) (r : Nat) (h : ∀ p ∈ P, p.1 < r) :
    ∀ (post pre : Intervals), Canon (pre ++ post) → AllI64 (pre ++ post) →
    addRecs (P ++ [(r, pre)]) (post.map fun iv => (r, iv)) = .ok (P ++ [(r, pre ++ post)])
  | [], pre, _, _ => by simp [addRecs]
  | iv :: post, pre, hc, hr => by
    have hc' : Canon ((pre ++ [iv]) ++ post) := by simpa using hc
    have hr' : AllI64 ((pre ++ [iv]) ++ post) := by simpa using hr
    have hc1 : Canon (pre ++ [iv]) := (canon_append.mp hc').1
    have hr1 : AllI64 (pre ++ [iv]) := fun x hx => hr' x (List.mem_append.mpr (Or.inl hx))
    simp only [List.map_cons]
    unfold addRecs
    have : addInterval (P ++ [(r, pre)]) r iv = .ok (P ++ [(r, pre ++ [iv])]) := by
      unfold addInterval
      rw [getIvs_last P r pre h, add_append pre iv hc1 hr1]
      simp only
      rw [setIvs_last P r pre _ h]
    rw [this]
    simp only
    have ih := addRecs_same_ref P r h post (pre ++ [iv]) hc' hr'
    rw [ih]
    simp

theorem addRecs_append (st : Stones) (a b : List (Nat × Interval)) (st' : Stones)
    (h : addRecs st a = .ok st') : addRecs st (a ++ b) = addRecs st' b := by
  induction a generalizing st with
  | nil => simp only [addRecs] at h; cases h; rfl
  | cons q a ih =>
    obtain ⟨r, iv⟩ := q
    simp only [List.cons_append, addRecs] at h ⊢
    revert h
    cases hadd : addInterval st r iv with
    | error e => intro h; cases h
    | ok s1 => intro h; exact ih s1 h

theorem addRecs_records : ∀ (Q P : Stones), WF (P ++ Q) → addRecs P (records Q) = .ok (P ++ Q)
  | [], P, _ => by simp [records, addRecs]
  | (r, ivs) :: Q, P, hwf => by
    obtain ⟨hpw, hall⟩ := hwf
    obtain ⟨_, hne, hcan, hrange⟩ := hall (r, ivs) (by simp)
    have hlt : ∀ p ∈ P, p.1 < r := by
      intro p hp
      have := (List.pairwise_append.mp hpw).2.2 p hp (r, ivs) List.mem_cons_self
      exact this
    cases ivs with
    | nil => exact absurd rfl hne
    | cons iv0 post =>
      have hrec : records ((r, iv0 :: post) :: Q) = (r, iv0) :: ((post.map fun iv => (r, iv)) ++ records Q) := by
        simp [records]
      rw [hrec]
      unfold addRecs
      have h0 : addInterval P r iv0 = .ok (P ++ [(r, [iv0])]) := by
        unfold addInterval
        rw [getIvs_lt P r hlt]
        have : add [] iv0 = .ok [iv0] := by simp [add, addG]
        rw [this]
        simp only
        rw [setIvs_lt P r _ hlt]
      rw [h0]
      simp only
      have h1 := addRecs_same_ref P r hlt post [iv0] hcan hrange
      rw [addRecs_append _ _ _ _ h1]
      have hwf' : WF ((P ++ [(r, [iv0] ++ post)]) ++ Q) := by
        have : (P ++ [(r, [iv0] ++ post)]) ++ Q = P ++ (r, iv0 :: post) :: Q := by simp
        rw [this]; exact ⟨hpw, hall⟩
      have := addRecs_records Q (P ++ [(r, [iv0] ++ post)]) hwf'
      rw [this]
      simp

/-- The codec reads back exactly what was written. -/
theorem decode_encode (st : Stones) (h : WF st) : decode (encode st) = .ok st := by
  rw [encode_eq]
  unfold decode
  simp only [ne_eq, not_true_eq_false, if_false]
  rw [decLoop_records (records st) _ [] (Nat.le_refl _)]
  · have := addRecs_records st [] (by simpa using h)
    simpa using this
  · intro q hq
    unfold records at hq
    simp only [List.mem_flatMap, List.mem_map] at hq
    obtain ⟨p, hp, iv, hiv, rfl⟩ := hq
    obtain ⟨h1, _, _, h4⟩ := h.2 p hp
    exact ⟨h1, h4 iv hiv⟩


/-! ### the file: magic ++ Encode ++ CRC -/

theorem be32dec_be32 (x : Nat) (h : x < 2 ^ 32) : be32dec (be32 x) = x := by
  unfold be32 be32dec
  simp only [UInt8.toNat_ofNat']
  omega

theorem be32_length (x : Nat) : (be32 x).length = 4 := rfl

/-- `ReadTombstones ∘ WriteFile` is the identity on well-formed stores, whatever the CRC function. -/
theorem readFile_encodeFile (crc : Bytes → UInt32) (st : Stones) (h : WF st) :
    readFile crc (encodeFile crc st) = .ok st := by
  have hdec := decode_encode st h
  unfold encodeFile readFile
  generalize hE : encode st = E at *
  have hE1 : 1 ≤ E.length := by rw [← hE]; simp [encode]
  generalize hC : be32 (crc (E.drop 1)).toNat = C
  have hCl : C.length = 4 := by rw [← hC]; rfl
  have hlen : (be32 magic ++ E ++ C).length = 4 + E.length + 4 := by
    simp only [List.length_append, be32_length, hCl]
  have htake : (be32 magic ++ E ++ C).take ((be32 magic ++ E ++ C).length - 4) = be32 magic ++ E := by
    rw [hlen, List.take_append_of_le_length (by simp [be32_length])]
    apply List.take_of_length_le; simp [be32_length]
  have hdrop : (be32 magic ++ E ++ C).drop ((be32 magic ++ E ++ C).length - 4) = C := by
    rw [hlen]
    have : 4 + E.length + 4 - 4 = (be32 magic ++ E).length := by simp [be32_length]
    rw [this, List.drop_left]
  simp only [htake, hdrop]
  rw [if_neg (by rw [hlen]; omega)]
  rw [if_neg (by simp [be32_length])]
  have ht4 : (be32 magic ++ E).take 4 = be32 magic := by
    rw [List.take_append_of_le_length (by simp [be32_length])]
    exact List.take_of_length_le (by simp [be32_length])
  have hd4 : (be32 magic ++ E).drop 4 = E := by
    have : 4 = (be32 magic).length := rfl
    rw [this, List.drop_left]
  rw [ht4, hd4]
  rw [if_neg (by rw [be32dec_be32 magic (by decide)]; simp)]
  have hne : E.isEmpty = false := by
    cases E with
    | nil => simp at hE1
    | cons a b => rfl
  rw [hne]
  simp only [Bool.false_eq_true, if_false]
  rw [← hC, be32dec_be32 _ (crc (E.drop 1)).toNat_lt]
  simp only [ne_eq, not_true_eq_false, if_false]
  rw [hdec]

end Prom.Tombstones
