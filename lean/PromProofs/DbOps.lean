import PromProofs.DbCommit
/-
  C01 refinement: per-operation preservation of the refinement relation `Good`
  (invariant + simulation) for begin / append / commit / rollback / query / win.
-/
namespace Prom.Db
open Prom.Intervals

/-- The refinement relation carried along a history. -/
structure Good (d : Db) (r : Ref) : Prop where
  inv : Inv d
  lastVis : LastVis d
  sim : Sim d r
  ooo : d.cfg.oooWin = 0
  cr : 0 < d.cfg.chunkRange

theorem InvS.congr {d d' : Db} (h : InvS d) (hs : d'.series = d.series) (hb : d'.blocks = d.blocks)
    (h1 : d'.minT = d.minT) (h2 : d'.maxT = d.maxT) (h3 : d'.minValid = d.minValid) : InvS d' := by
  obtain ⟨c, a1, a2, a3, a4, a5, a6, a7⟩ := d
  obtain ⟨c', b1, b2, b3, b4, b5, b6, b7⟩ := d'
  simp only at hs hb h1 h2 h3
  subst hs hb h1 h2 h3
  exact ⟨h.idxNodup, h.physInc, h.physNe, h.physLo, h.physHi, h.physMax, h.tombHi, h.blkInc,
    h.blkRange, h.blkLtMinT, h.blkLtMinValid, h.blkLtMaxT, h.blkMax⟩

theorem Db.mem_congr {d d' : Db} (hs : d'.series = d.series) (hb : d'.blocks = d.blocks) (i : Nat) (x : Smp) :
    d'.mem i x ↔ d.mem i x := by
  unfold Db.mem; rw [hs, hb]

theorem LastVis.congr {d d' : Db} (h : LastVis d) (hs : d'.series = d.series) : LastVis d' := by
  unfold LastVis; rw [hs]; exact h

theorem Db.blkAll_congr {d d' : Db} (hb : d'.blocks = d.blocks) (P : Smp → Prop) : d'.blkAll P ↔ d.blkAll P := by
  unfold Db.blkAll; rw [hb]

/-! ### begin -/

theorem begin_preserves {d : Db} {r : Ref} (hG : Good d r) :
    Good d.begin { r with pending := [], open_ := true } := by
  have hI := hG.inv
  unfold Db.begin
  split
  · refine ⟨⟨hI.toInvS.congr rfl rfl rfl rfl rfl, ?_⟩, hG.lastVis.congr rfl, ⟨hG.sim.sinc, hG.sim.mem, ?_⟩, hG.ooo, hG.cr⟩
    · intro a ha
      simp only [Option.some.injEq] at ha
      subst ha
      refine ⟨by simp, ?_, by simp⟩
      intro _ b hb s hs x hx
      have := hI.blkLtMinValid b hb s hs x hx
      simp only [Db.appendableMinValid] at this ⊢
      omega
    · simp
  · refine ⟨⟨hI.toInvS.congr rfl rfl rfl rfl rfl, ?_⟩, hG.lastVis.congr rfl, ⟨hG.sim.sinc, hG.sim.mem, ?_⟩, hG.ooo, hG.cr⟩
    · intro a ha
      simp only [Option.some.injEq] at ha
      subst ha
      exact ⟨by simp, by simp, by simp⟩
    · simp

/-! ### rollback -/

theorem rollback_preserves {d : Db} {r : Ref} (hG : Good d r) :
    Good d.rollback.1 { r with pending := [], open_ := false } := by
  have hI := hG.inv
  unfold Db.rollback
  split
  · rename_i happ
    refine ⟨hI, hG.lastVis, ⟨hG.sim.sinc, hG.sim.mem, ?_⟩, hG.ooo, hG.cr⟩
    rw [happ]
  · refine ⟨⟨hI.toInvS.congr rfl rfl rfl rfl rfl, ?_⟩, hG.lastVis.congr rfl, ⟨hG.sim.sinc, hG.sim.mem, ?_⟩, hG.ooo, hG.cr⟩
    · intro a ha; simp at ha
    · simp

/-! ### commit -/

theorem commit_preserves {d : Db} {r : Ref} (hG : Good d r) :
    Good d.commit.1 (if (outOfRes d.commit.2).isOk then r.commit else { r with pending := [], open_ := false }) := by
  have hI := hG.inv
  have hS := hG.sim
  cases happ : d.app with
  | none =>
    have : d.commit = (d, .error .noapp) := by unfold Db.commit; rw [happ]
    rw [this]
    simp only [outOfRes, Out.isOk]
    refine ⟨hI, hG.lastVis, ⟨hS.sinc, hS.mem, ?_⟩, hG.ooo, hG.cr⟩
    rw [happ]; simp
  | some a =>
    have hSa := hS.app
    rw [happ] at hSa
    simp only at hSa
    have hA := hI.appInv a happ
    by_cases hb : a.batch = []
    · have : d.commit = ({ d with app := none }, .ok ()) := by
        unfold Db.commit; rw [happ]; simp [hb]
      rw [this]
      simp only [outOfRes, Out.isOk, if_true]
      have hr : r.commit = { r with pending := [], open_ := false } := by
        rw [Ref.commit_eq, hSa.2, hb]; rfl
      rw [hr]
      refine ⟨⟨hI.toInvS.congr rfl rfl rfl rfl rfl, ?_⟩, hG.lastVis.congr rfl, ⟨hS.sinc, hS.mem, ?_⟩, hG.ooo, hG.cr⟩
      · intro a ha; simp at ha
      · simp
    · rw [Db.commit_some d a happ hb]
      simp only [outOfRes, Out.isOk, if_true]
      have hinit : a.init = false := by
        cases hi : a.init with
        | false => rfl
        | true => exact absurd (hA.initBatch hi) hb
      have hblk := hA.blkLt hinit
      -- the loop invariant holds initially
      have h0 : FI { d with wal := d.wal ++ [Rec.samples a.batch] }
          { d with wal := d.wal ++ [Rec.samples a.batch] } MaxI64 MinI64 r :=
        { blocks := rfl, cfg := rfl, minT := rfl, maxT := rfl, minValid := rfl,
          idxNodup := hI.idxNodup, physInc := hI.physInc, physNe := hI.physNe, physMax := hI.physMax,
          tombHi := hI.tombHi, lastVis := hG.lastVis,
          physBound := fun s hs x hx => ⟨Or.inr (hI.physLo s hs x hx), Or.inr (hI.physHi s hs x hx)⟩,
          blkLo := hI.blkMax, sinc := hS.sinc, mem := hS.mem }
      have hF := commitFold_FI (d0 := { d with wal := d.wal ++ [Rec.samples a.batch] }) (a := a)
        hG.ooo hblk a.batch _ MaxI64 MinI64 r h0 hA.batchGe
      rw [Ref.commit_eq, hSa.2]
      generalize a.batch.foldl (commitStep a) ({ d with wal := d.wal ++ [Rec.samples a.batch] }, MaxI64, MinI64) = acc at hF
      obtain ⟨dF, lo, hi⟩ := acc
      simp only at hF ⊢
      generalize a.batch.foldl refStep r = rF at hF
      have hb1 : dF.blocks = d.blocks := hF.blocks
      have hm1 : dF.minT = d.minT := hF.minT
      have hm2 : dF.maxT = d.maxT := hF.maxT
      have hm3 : dF.minValid = d.minValid := hF.minValid
      have hblkAll : ∀ P, d.blkAll P → ∀ b ∈ dF.blocks, ∀ s ∈ b.series, ∀ x ∈ s.smps, P x := by
        intro P h; rw [hb1]; exact h
      refine ⟨⟨?_, ?_⟩, hF.lastVis.congr rfl, ⟨hF.sinc, ?_, ?_⟩, ?_, ?_⟩
      · refine
          { idxNodup := hF.idxNodup, physInc := hF.physInc, physNe := hF.physNe, physLo := ?_,
            physHi := ?_, physMax := hF.physMax, tombHi := hF.tombHi, blkInc := ?_, blkRange := ?_,
            blkLtMinT := ?_, blkLtMinValid := ?_, blkLtMaxT := ?_, blkMax := ?_ }
        · intro s hs x hx
          have := (hF.physBound s hs x hx).1
          simp only [hm1] at this ⊢
          split <;> omega
        · intro s hs x hx
          have := (hF.physBound s hs x hx).2
          simp only [hm2] at this ⊢
          split <;> omega
        · intro b hb; exact hI.blkInc b (hb1 ▸ hb)
        · intro b hb; exact hI.blkRange b (hb1 ▸ hb)
        · intro b hb s hs x hx
          have h1 := hblkAll _ hI.blkLtMinT b hb s hs x hx
          have h2 := hF.blkLo b (hb1 ▸ hb) s hs x hx
          simp only [hm1] at h1 h2 ⊢
          split <;> omega
        · intro b hb s hs x hx
          have h1 := hblkAll _ hI.blkLtMinValid b hb s hs x hx
          simp only [hm3] at h1 ⊢
          exact h1
        · intro b hb s hs x hx
          have h1 := hblkAll _ hI.blkLtMaxT b hb s hs x hx
          simp only [hm2] at h1 ⊢
          split <;> omega
        · exact hblkAll _ hI.blkMax
      · intro a ha; simp at ha
      · intro i x
        exact (Db.mem_congr rfl rfl i x).trans (hF.mem i x)
      · simp
      · show dF.cfg.oooWin = 0
        rw [hF.cfg]; exact hG.ooo
      · show 0 < dF.cfg.chunkRange
        rw [hF.cfg]; exact hG.cr

end Prom.Db
