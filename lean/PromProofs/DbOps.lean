import PromProofs.DbCommit
/-
  C01 refinement: per-operation preservation of the refinement relation `Good`
  (invariant + simulation) for begin / append / commit / rollback / query / win.
-/
namespace Prom.Db
open Prom.Intervals

/-- The refinement relation carried along a history. -/
structure Good (d : Db) (r : Ref) : Prop where
  inv : Inv d
  lastOk : LastOk d
  sim : Sim d r
  ooo : d.cfg.oooWin = 0
  cr : 0 < d.cfg.chunkRange

theorem InvS.congr {d d' : Db} (h : InvS d) (hs : d'.series = d.series) (hb : d'.blocks = d.blocks)
    (h1 : d'.minT = d.minT) (h2 : d'.maxT = d.maxT) (h3 : d'.minValid = d.minValid) : InvS d' := by
  obtain ⟨c, a1, a2, a3, a4, a5, a6, a7⟩ := d
  obtain ⟨c', b1, b2, b3, b4, b5, b6, b7⟩ := d'
  simp only at hs hb h1 h2 h3
  subst hs hb h1 h2 h3
  exact ⟨h.idxNodup, h.physInc, h.physNe, h.physLo, h.physHi, h.physMax, h.tombHi, h.blkInc,
    h.blkRange, h.blkLtMinT, h.blkLtMinValid, h.blkLtMaxT, h.blkMax⟩

theorem Db.mem_congr {d d' : Db} (hs : d'.series = d.series) (hb : d'.blocks = d.blocks) (i : Nat) (x : Smp) :
    d'.mem i x ↔ d.mem i x := by
  unfold Db.mem; rw [hs, hb]

theorem LastOk.congr {d d' : Db} (h : LastOk d) (hs : d'.series = d.series)
    (hp : ∀ p ∈ pendingOf d', p ∈ pendingOf d) : LastOk d' := by
  intro s hs' l hl
  rw [hs] at hs'
  exact (h s hs' l hl).imp id (fun h' p hp' => h' p (hp p hp'))

theorem LastOk.of_no_pending {d : Db} (hp : pendingOf d = []) : LastOk d := by
  intro s _ l _
  right; rw [hp]; intro p hp'; simp at hp'

theorem Db.blkAll_congr {d d' : Db} (hb : d'.blocks = d.blocks) (P : Smp → Prop) : d'.blkAll P ↔ d.blkAll P := by
  unfold Db.blkAll; rw [hb]

/-! ### begin -/

theorem begin_preserves {d : Db} {r : Ref} (hG : Good d r) :
    Good d.begin { r with pending := [], open_ := true } := by
  have hI := hG.inv
  unfold Db.begin
  split
  · refine ⟨⟨hI.toInvS.congr rfl rfl rfl rfl rfl, ?_⟩, LastOk.of_no_pending rfl, ⟨hG.sim.sinc, hG.sim.mem, ?_⟩, hG.ooo, hG.cr⟩
    · intro a ha
      simp only [Option.some.injEq] at ha
      subst ha
      refine ⟨by simp, ?_, by simp⟩
      intro _ b hb s hs x hx
      have := hI.blkLtMinValid b hb s hs x hx
      simp only [Db.appendableMinValid] at this ⊢
      omega
    · simp
  · refine ⟨⟨hI.toInvS.congr rfl rfl rfl rfl rfl, ?_⟩, LastOk.of_no_pending rfl, ⟨hG.sim.sinc, hG.sim.mem, ?_⟩, hG.ooo, hG.cr⟩
    · intro a ha
      simp only [Option.some.injEq] at ha
      subst ha
      exact ⟨by simp, by simp, by simp⟩
    · simp

/-! ### rollback -/

theorem rollback_preserves {d : Db} {r : Ref} (hG : Good d r) :
    Good d.rollback.1 { r with pending := [], open_ := false } := by
  have hI := hG.inv
  unfold Db.rollback
  split
  · rename_i happ
    refine ⟨hI, hG.lastOk, ⟨hG.sim.sinc, hG.sim.mem, ?_⟩, hG.ooo, hG.cr⟩
    rw [happ]
  · refine ⟨⟨hI.toInvS.congr rfl rfl rfl rfl rfl, ?_⟩, LastOk.of_no_pending rfl, ⟨hG.sim.sinc, hG.sim.mem, ?_⟩, hG.ooo, hG.cr⟩
    · intro a ha; simp at ha
    · simp

/-! ### commit -/

theorem commit_preserves {d : Db} {r : Ref} (hG : Good d r) :
    Good d.commit.1 (if (outOfRes d.commit.2).isOk then r.commit else { r with pending := [], open_ := false }) := by
  have hI := hG.inv
  have hS := hG.sim
  cases happ : d.app with
  | none =>
    have : d.commit = (d, .error .noapp) := by unfold Db.commit; rw [happ]
    rw [this]
    simp only [outOfRes, Out.isOk]
    refine ⟨hI, hG.lastOk, ⟨hS.sinc, hS.mem, ?_⟩, hG.ooo, hG.cr⟩
    rw [happ]; simp
  | some a =>
    have hSa := hS.app
    rw [happ] at hSa
    simp only at hSa
    have hA := hI.appInv a happ
    by_cases hb : a.batch = []
    · have : d.commit = ({ d with app := none }, .ok ()) := by
        unfold Db.commit; rw [happ]; simp [hb]
      rw [this]
      simp only [outOfRes, Out.isOk, if_true]
      have hr : r.commit = { r with pending := [], open_ := false } := by
        rw [Ref.commit_eq, hSa.2, hb]; rfl
      rw [hr]
      refine ⟨⟨hI.toInvS.congr rfl rfl rfl rfl rfl, ?_⟩, LastOk.of_no_pending rfl, ⟨hS.sinc, hS.mem, ?_⟩, hG.ooo, hG.cr⟩
      · intro a ha; simp at ha
      · simp
    · rw [Db.commit_some d a happ hb]
      simp only [outOfRes, Out.isOk, if_true]
      have hinit : a.init = false := by
        cases hi : a.init with
        | false => rfl
        | true => exact absurd (hA.initBatch hi) hb
      have hblk := hA.blkLt hinit
      -- the loop invariant holds initially
      have hpend : pendingOf d = a.batch := by unfold pendingOf; rw [happ]
      have h0 : FI { d with wal := d.wal ++ [Rec.samples a.batch] }
          { d with wal := d.wal ++ [Rec.samples a.batch] } MaxI64 MinI64 r a.batch :=
        { blocks := rfl, cfg := rfl, minT := rfl, maxT := rfl, minValid := rfl,
          idxNodup := hI.idxNodup, physInc := hI.physInc, physNe := hI.physNe, physMax := hI.physMax,
          tombHi := hI.tombHi, lastOk := fun s hs l hl => by have := hG.lastOk s hs l hl; rw [hpend] at this; exact this,
          physBound := fun s hs x hx => ⟨Or.inr (hI.physLo s hs x hx), Or.inr (hI.physHi s hs x hx)⟩,
          blkLo := hI.blkMax, sinc := hS.sinc, mem := hS.mem }
      have hF := commitFold_FI (d0 := { d with wal := d.wal ++ [Rec.samples a.batch] }) (a := a)
        hG.ooo hblk a.batch _ MaxI64 MinI64 r h0 hA.batchGe
      rw [Ref.commit_eq, hSa.2]
      generalize a.batch.foldl (commitStep a) ({ d with wal := d.wal ++ [Rec.samples a.batch] }, MaxI64, MinI64) = acc at hF
      obtain ⟨dF, lo, hi⟩ := acc
      simp only at hF ⊢
      generalize a.batch.foldl refStep r = rF at hF
      have hb1 : dF.blocks = d.blocks := hF.blocks
      have hm1 : dF.minT = d.minT := hF.minT
      have hm2 : dF.maxT = d.maxT := hF.maxT
      have hm3 : dF.minValid = d.minValid := hF.minValid
      have hblkAll : ∀ P, d.blkAll P → ∀ b ∈ dF.blocks, ∀ s ∈ b.series, ∀ x ∈ s.smps, P x := by
        intro P h; rw [hb1]; exact h
      refine ⟨⟨?_, ?_⟩, LastOk.of_no_pending rfl, ⟨hF.sinc, ?_, ?_⟩, ?_, ?_⟩
      · refine
          { idxNodup := hF.idxNodup, physInc := hF.physInc, physNe := hF.physNe, physLo := ?_,
            physHi := ?_, physMax := hF.physMax, tombHi := hF.tombHi, blkInc := ?_, blkRange := ?_,
            blkLtMinT := ?_, blkLtMinValid := ?_, blkLtMaxT := ?_, blkMax := ?_ }
        · intro s hs x hx
          have := (hF.physBound s hs x hx).1
          simp only [hm1] at this ⊢
          split <;> omega
        · intro s hs x hx
          have := (hF.physBound s hs x hx).2
          simp only [hm2] at this ⊢
          split <;> omega
        · intro b hb; exact hI.blkInc b (hb1 ▸ hb)
        · intro b hb; exact hI.blkRange b (hb1 ▸ hb)
        · intro b hb s hs x hx
          have h1 := hblkAll _ hI.blkLtMinT b hb s hs x hx
          have h2 := hF.blkLo b (hb1 ▸ hb) s hs x hx
          simp only [hm1] at h1 h2 ⊢
          split <;> omega
        · intro b hb s hs x hx
          have h1 := hblkAll _ hI.blkLtMinValid b hb s hs x hx
          simp only [hm3] at h1 ⊢
          exact h1
        · intro b hb s hs x hx
          have h1 := hblkAll _ hI.blkLtMaxT b hb s hs x hx
          simp only [hm2] at h1 ⊢
          split <;> omega
        · exact hblkAll _ hI.blkMax
      · intro a ha; simp at ha
      · intro i x
        exact (Db.mem_congr rfl rfl i x).trans (hF.mem i x)
      · simp
      · show dF.cfg.oooWin = 0
        rw [hF.cfg]; exact hG.ooo
      · show 0 < dF.cfg.chunkRange
        rw [hF.cfg]; exact hG.cr

/-! ### append -/

def initTime (d : Db) (t : Int) : Db :=
  if d.maxT = MinI64 then { d with maxT := t, minT := if d.minT = MaxI64 then t else d.minT } else d
def appD (d : Db) (a : App) (t : Int) : Db := if a.init then initTime d t else d
def appA (d : Db) (a : App) (t : Int) : App :=
  if a.init then { a with init := false, minValid := (initTime d t).appendableMinValid, headMaxt := (initTime d t).maxT } else a

def appendSpec (d : Db) (a : App) (i : Nat) (t : Int) (v : Nat) : Db × Except AppErr Unit :=
  let d2 : Db := { appD d a t with app := some (appA d a t) }
  if d2.cfg.oooWin = 0 ∧ t < (appA d a t).minValid then (d2, .error .oob) else
  match appendable (d2.getSeries i).phys t v (appA d a t).headMaxt (appA d a t).minValid d2.cfg.oooWin with
  | .error e => (d2, .error e)
  | .ok _ => ({ d2 with app := some { appA d a t with batch := (appA d a t).batch ++ [(i, ⟨t, v⟩)] } }, .ok ())

theorem initTime_series (d : Db) (t : Int) : (initTime d t).series = d.series := by
  unfold initTime; split <;> rfl
theorem initTime_blocks (d : Db) (t : Int) : (initTime d t).blocks = d.blocks := by
  unfold initTime; split <;> rfl
theorem initTime_minValid (d : Db) (t : Int) : (initTime d t).minValid = d.minValid := by
  unfold initTime; split <;> rfl
theorem initTime_cfg (d : Db) (t : Int) : (initTime d t).cfg = d.cfg := by
  unfold initTime; split <;> rfl
theorem appD_series (d : Db) (a : App) (t : Int) : (appD d a t).series = d.series := by
  unfold appD; split; exact initTime_series d t; rfl
theorem appD_blocks (d : Db) (a : App) (t : Int) : (appD d a t).blocks = d.blocks := by
  unfold appD; split; exact initTime_blocks d t; rfl
theorem appD_minValid (d : Db) (a : App) (t : Int) : (appD d a t).minValid = d.minValid := by
  unfold appD; split; exact initTime_minValid d t; rfl
theorem appD_cfg (d : Db) (a : App) (t : Int) : (appD d a t).cfg = d.cfg := by
  unfold appD; split; exact initTime_cfg d t; rfl
theorem append_eq {d : Db} {a : App} (h : d.app = some a) (i : Nat) (t : Int) (v : Nat) :
    d.append i t v = appendSpec d a i t v := by
  unfold Db.append appendSpec appD appA
  rw [h]
  simp only
  cases hinit : a.init
  · simp only [Bool.false_eq_true, if_false]; rfl
  · simp only [if_true]
    unfold initTime
    split <;> rfl

theorem appendable_ok_le {phys : List Smp} {t : Int} {v : Nat} {hm mv : Int} {b : Bool}
    (h : appendable phys t v hm mv 0 = .ok b) : ∀ l, phys.getLast? = some l → l.t ≤ t := by
  intro l hl
  apply Classical.byContradiction
  intro hn
  have h1 : ¬ t > l.t := by omega
  have h2 : ¬ t = l.t := by omega
  unfold appendable at h
  simp only [hl, h1, h2, if_false] at h
  split at h
  · rename_i heq; split at heq <;> simp at heq
  · split at h
    · rename_i hc; exact absurd hc.1 (by omega)
    · split at h <;> (try split at h) <;> cases h

theorem getSeries_congr {d d' : Db} (h : d'.series = d.series) (i : Nat) : d'.getSeries i = d.getSeries i := by
  unfold Db.getSeries; rw [h]

/-- The append re-submits the timestamp of the newest physical sample of the series while that
    sample is hidden by a tombstone (the situation of finding F28). -/
def resubmits (d : Db) (i : Nat) (t : Int) : Prop :=
  ∃ l, (d.getSeries i).phys.getLast? = some l ∧ l.t = t ∧ visible (d.getSeries i).tombs l = false

theorem append_some {d : Db} {a : App} (h : d.app = some a) (i : Nat) (t : Int) (v : Nat) :
    (∃ e, d.append i t v = ({ appD d a t with app := some (appA d a t) }, .error e)) ∨
    (d.append i t v = ({ appD d a t with app := some { appA d a t with batch := (appA d a t).batch ++ [(i, ⟨t, v⟩)] } }, .ok ())
      ∧ ((appD d a t).cfg.oooWin = 0 → (appA d a t).minValid ≤ t ∧
          ∀ l, (d.getSeries i).phys.getLast? = some l → l.t ≤ t)) := by
  rw [append_eq h]
  unfold appendSpec
  simp only
  split
  · left; exact ⟨_, rfl⟩
  · rename_i hc
    split
    · left; exact ⟨_, rfl⟩
    · rename_i bb hab
      right; refine ⟨rfl, ?_⟩
      intro h0
      refine ⟨by omega, ?_⟩
      rw [h0] at hab
      have hser : ({ appD d a t with app := some (appA d a t) } : Db).getSeries i = d.getSeries i :=
        getSeries_congr (d' := { appD d a t with app := some (appA d a t) }) (appD_series d a t) i
      rw [hser] at hab
      exact appendable_ok_le hab

theorem appA_init (d : Db) (a : App) (t : Int) : (appA d a t).init = false := by
  unfold appA; cases h : a.init <;> simp [h]
theorem appA_batch (d : Db) (a : App) (t : Int) : (appA d a t).batch = a.batch := by
  unfold appA; split <;> rfl

theorem invS_initTime {d : Db} (h : InvS d) {t : Int} (ht : MinI64 ≤ t) : InvS (initTime d t) := by
  unfold initTime
  split
  · rename_i hmax
    refine
      { idxNodup := h.idxNodup, physInc := h.physInc, physNe := h.physNe, physLo := ?_, physHi := ?_,
        physMax := h.physMax, tombHi := h.tombHi, blkInc := h.blkInc, blkRange := h.blkRange,
        blkLtMinT := ?_, blkLtMinValid := h.blkLtMinValid, blkLtMaxT := ?_, blkMax := h.blkMax }
    · intro s hs x hx
      have h1 := h.physLo s hs x hx
      have h2 := h.physMax s hs x hx
      simp only
      split <;> omega
    · intro s hs x hx
      have h1 := h.physHi s hs x hx
      simp only; omega
    · intro b hb s hs x hx
      have h1 := h.blkLtMinT b hb s hs x hx
      have h2 := h.blkLtMaxT b hb s hs x hx
      simp only at h1 h2 ⊢
      split <;> omega
    · intro b hb s hs x hx
      have h2 := h.blkLtMaxT b hb s hs x hx
      simp only at h2 ⊢
      omega
  · exact h

theorem invS_appD {d : Db} (h : InvS d) (a : App) {t : Int} (ht : MinI64 ≤ t) : InvS (appD d a t) := by
  unfold appD; split
  · exact invS_initTime h ht
  · exact h

theorem appA_blkLt {d : Db} {a : App} (hI : Inv d) (hA : AppInv d a) (t : Int) :
    d.blkAll (fun x => x.t < (appA d a t).minValid) := by
  unfold appA
  cases hinit : a.init
  · simp only [Bool.false_eq_true, if_false]; exact hA.blkLt hinit
  · simp only [if_true]
    intro b hb s hs x hx
    have := hI.blkLtMinValid b hb s hs x hx
    simp only [Db.appendableMinValid, initTime_minValid] at this ⊢
    omega

theorem appA_batchGe {d : Db} {a : App} (hA : AppInv d a) (t : Int) :
    ∀ p ∈ (appA d a t).batch, (appA d a t).minValid ≤ p.2.t ∧ p.2.t < MaxI64 := by
  unfold appA
  cases hinit : a.init
  · simp only [Bool.false_eq_true, if_false]; exact hA.batchGe
  · simp only [if_true]
    rw [hA.initBatch hinit]; simp

theorem append_preserves {d : Db} {r : Ref} (hG : Good d r) (i : Nat) (t : Int) (v : Nat)
    (ht : MinI64 ≤ t ∧ t < MaxI64) (hres : ¬ resubmits d i t) :
    Good (d.append i t v).1
      (if (outOfRes (d.append i t v).2).isOk = true ∧ r.open_ = true then
        { r with pending := r.pending ++ [(i, ⟨t, v⟩)] } else r) := by
  have hI := hG.inv
  have hS := hG.sim
  cases happ : d.app with
  | none =>
    have : d.append i t v = (d, .error .noapp) := by unfold Db.append; rw [happ]
    rw [this]
    simp only [outOfRes, Out.isOk, Bool.false_eq_true, false_and, if_false]
    exact hG
  | some a =>
    have hSa := hS.app
    rw [happ] at hSa
    simp only at hSa
    have hA := hI.appInv a happ
    have hIS : InvS (appD d a t) := invS_appD hI.toInvS a ht.1
    have hmem : ∀ (x : Option App) j z, (({ appD d a t with app := x } : Db)).mem j z ↔ d.mem j z :=
      fun x j z => Db.mem_congr (appD_series d a t) (appD_blocks d a t) j z
    rcases append_some happ i t v with ⟨e, he⟩ | ⟨he, hge⟩
    · rw [he]
      simp only [outOfRes, Out.isOk, Bool.false_eq_true, false_and, if_false]
      have hpend : pendingOf d = a.batch := by unfold pendingOf; rw [happ]
      refine ⟨⟨hIS.congr rfl rfl rfl rfl rfl, ?_⟩,
        hG.lastOk.congr (appD_series d a t) (fun p hp => by rw [hpend]; simpa [pendingOf, appA_batch] using hp),
        ⟨hS.sinc, fun j z => (hmem _ j z).trans (hS.mem j z), ?_⟩, ?_, ?_⟩
      · intro a' ha'
        simp only [Option.some.injEq] at ha'
        subst ha'
        refine ⟨fun h => by rw [appA_init] at h; simp at h, fun _ => ?_, appA_batchGe hA t⟩
        exact (Db.blkAll_congr (appD_blocks d a t) _).2 (appA_blkLt hI hA t)
      · simp only; rw [appA_batch]; exact hSa
      · show (appD d a t).cfg.oooWin = 0
        rw [appD_cfg]; exact hG.ooo
      · show 0 < (appD d a t).cfg.chunkRange
        rw [appD_cfg]; exact hG.cr
    · rw [he]
      simp only [outOfRes, Out.isOk, hSa.1, and_self, if_true]
      have hpend : pendingOf d = a.batch := by unfold pendingOf; rw [happ]
      have hge' := hge (by rw [appD_cfg]; exact hG.ooo)
      refine ⟨⟨hIS.congr rfl rfl rfl rfl rfl, ?_⟩, ?lo,
        ⟨hS.sinc, fun j z => (hmem _ j z).trans (hS.mem j z), ?_⟩, ?_, ?_⟩
      case lo =>
        intro s hs l hl
        have hs0 : s ∈ d.series := by rw [← appD_series d a t]; exact hs
        rcases hG.lastOk s hs0 l hl with hv | hn
        · exact Or.inl hv
        · by_cases hvis : visible s.tombs l = true
          · exact Or.inl hvis
          · right
            intro p hp hpi
            simp only [pendingOf, appA_batch, List.mem_append, List.mem_singleton] at hp
            rcases hp with hp | rfl
            · exact hn p (by rw [hpend]; exact hp) hpi
            · simp only at hpi ⊢
              have hgs : d.getSeries i = s := by rw [hpi]; exact getSeries_of_mem hI.idxNodup hs0
              have hle := hge'.2 l (by rw [hgs]; exact hl)
              have : l.t ≠ t := by
                intro e
                exact hres ⟨l, by rw [hgs]; exact hl, e, by rw [hgs]; simpa using hvis⟩
              omega
      · intro a' ha'
        simp only [Option.some.injEq] at ha'
        subst ha'
        refine ⟨fun h => by simp only [appA_init] at h; simp at h, fun _ => ?_, ?_⟩
        · exact (Db.blkAll_congr (appD_blocks d a t) _).2 (appA_blkLt hI hA t)
        · intro p hp
          simp only [List.mem_append, List.mem_singleton] at hp
          rcases hp with hp | rfl
          · exact appA_batchGe hA t p hp
          · exact ⟨hge'.1, ht.2⟩
      · simp only; rw [appA_batch, hSa.2]; simp [hSa.1]
      · show (appD d a t).cfg.oooWin = 0
        rw [appD_cfg]; exact hG.ooo
      · show 0 < (appD d a t).cfg.chunkRange
        rw [appD_cfg]; exact hG.cr

end Prom.Db
