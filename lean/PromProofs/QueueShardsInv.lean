import PromModel.Remote.QueueShards
/-
  Helper lemmas for C40: function update, the count of live shards, and the structural invariant
  `InvA` (what `s.running` counts; returned shards hold nothing; closed queues have no partial batch;
  closing/returning only happens after soft shutdown).
-/
namespace Prom.QueueShards

@[simp] theorem upd_same (f : Nat → Shard) (i : Nat) (sh : Shard) : upd f i sh i = sh := by simp [upd]
theorem upd_other (f : Nat → Shard) (i j : Nat) (sh : Shard) (h : j ≠ i) : upd f i sh j = f j := by simp [upd, h]

/-- Number of shards among `0 … k-1` whose `runShard` has not returned. -/
def live (f : Nat → Shard) : Nat → Nat
  | 0 => 0
  | k + 1 => live f k + (if (f k).exited then 0 else 1)

theorem live_congr (f g : Nat → Shard) (k : Nat) (h : ∀ i, i < k → (f i).exited = (g i).exited) :
    live f k = live g k := by
  induction k with
  | zero => rfl
  | succ k ih =>
    simp only [live]
    rw [ih (fun i hi => h i (by omega)), h k (by omega)]

theorem live_upd_keep (f : Nat → Shard) (i k : Nat) (sh : Shard) (h : sh.exited = (f i).exited) :
    live (upd f i sh) k = live f k := by
  apply live_congr
  intro j _
  by_cases hj : j = i
  · subst hj; simp [h]
  · rw [upd_other _ _ _ _ hj]

theorem live_upd_exit (f : Nat → Shard) (i k : Nat) (sh : Shard) (hi : i < k)
    (h0 : (f i).exited = false) (h1 : sh.exited = true) : live (upd f i sh) k + 1 = live f k := by
  induction k with
  | zero => omega
  | succ k ih =>
    simp only [live]
    by_cases hik : i = k
    · subst hik
      have : live (upd f i sh) i = live f i := by
        apply live_congr
        intro j hj
        rw [upd_other _ _ _ _ (by omega)]
      simp [this, h0, h1]
    · have := ih (by omega)
      rw [upd_other _ _ _ _ (Ne.symm hik)]
      omega

theorem live_zero (f : Nat → Shard) (k : Nat) (h : live f k = 0) : ∀ i, i < k → (f i).exited = true := by
  induction k with
  | zero => intro i hi; omega
  | succ k ih =>
    simp only [live] at h
    intro i hi
    by_cases hik : i = k
    · subst hik
      cases hx : (f i).exited with
      | true => rfl
      | false => simp [hx] at h
    · exact ih (by omega) i (by omega)

theorem live_fresh (k : Nat) : live freshShards k = k := by
  induction k with
  | zero => rfl
  | succ k ih => simp [live, ih, freshShards]

/-- The structural invariant, as a predicate on the components it talks about. -/
structure InvA' (running n : Nat) (sh : Nat → Shard) (soft hard : Bool) : Prop where
  run_eq : running = live sh n
  ex_empty : ∀ i, i < n → (sh i).exited = true → (sh i).pipe = []
  cl_part : ∀ i, i < n → (sh i).closed = true → (sh i).part = []
  cl_soft : ∀ i, i < n → ((sh i).closed = true ∨ (sh i).exited = true) → soft = true
  hard_soft : hard = true → soft = true

def InvA (s : St) : Prop := InvA' s.running s.n s.shards s.soft s.hard

/-- Replacing a live shard by one with the same flags keeps `InvA'`. -/
theorem invA_upd {running n : Nat} {sh : Nat → Shard} {soft hard : Bool} (h : InvA' running n sh soft hard)
    (i : Nat) (sh' : Shard) (hex : (sh i).exited = false) (hex' : sh'.exited = false)
    (hcl : sh'.closed = (sh i).closed) (hpart : sh'.closed = true → sh'.part = []) :
    InvA' running n (upd sh i sh') soft hard := by
  refine ⟨?_, ?_, ?_, ?_, h.hard_soft⟩
  · rw [live_upd_keep _ _ _ _ (by rw [hex, hex'])]; exact h.run_eq
  · intro j hj hx
    by_cases hji : j = i
    · subst hji; simp [hex'] at hx
    · rw [upd_other _ _ _ _ hji] at hx ⊢; exact h.ex_empty j hj hx
  · intro j hj hx
    by_cases hji : j = i
    · subst hji; simp at hx ⊢; exact hpart hx
    · rw [upd_other _ _ _ _ hji] at hx ⊢; exact h.cl_part j hj hx
  · intro j hj hx
    by_cases hji : j = i
    · subst hji
      simp [hex', hcl] at hx
      exact h.cl_soft j hj (Or.inl hx)
    · rw [upd_other _ _ _ _ hji] at hx; exact h.cl_soft j hj hx

theorem invA_init (mss cc n : Nat) : InvA (init mss cc n) := by
  refine ⟨?_, ?_, ?_, ?_, ?_⟩ <;> simp [init, live_fresh, freshShards]

theorem push_exited (sh : Shard) (mss : Nat) (x : Sample) : (sh.push mss x).exited = sh.exited := by
  unfold Shard.push; split <;> rfl

theorem push_closed (sh : Shard) (mss : Nat) (x : Sample) : (sh.push mss x).closed = sh.closed := by
  unfold Shard.push; split <;> rfl

theorem push_pipe (sh : Shard) (mss : Nat) (x : Sample) : (sh.push mss x).pipe = sh.pipe ++ [x] := by
  unfold Shard.push Shard.pipe Shard.rest; split <;> simp

theorem push_inflight (sh : Shard) (mss : Nat) (x : Sample) : (sh.push mss x).inflight = sh.inflight := by
  unfold Shard.push; split <;> rfl

theorem push_reachedF (sh : Shard) (mss : Nat) (x : Sample) : (sh.push mss x).reachedF = sh.reachedF := by
  unfold Shard.push; split <;> rfl

theorem push_rest (sh : Shard) (mss : Nat) (x : Sample) : (sh.push mss x).rest = sh.rest ++ [x] := by
  unfold Shard.push Shard.rest; split <;> simp

/-- One enabled action preserves the structural invariant. -/
theorem step_invA (s : St) (a : Act) (h : InvA s) (hen : enabled s a = true) : InvA (apply s a) := by
  unfold InvA at *
  cases a with
  | storeSeries ref keep => cases keep <;> exact h
  | seriesReset refs => exact h
  | append ref id old =>
    simp only [apply]
    split
    · exact h
    · split
      · split <;> exact h
      · rename_i hold hk
        simp only [enabled, St.admits, Bool.and_eq_true, Bool.or_eq_true, decide_eq_true_eq,
          Bool.not_eq_true', Bool.not_eq_eq_eq_not, Bool.not_true] at hen
        have hk' : s.kept.contains ref = true := by simpa using hk
        have hold' : old = false := by simpa using hold
        obtain ⟨_, hen⟩ := hen
        rcases hen with hen | ⟨⟨hn, hsoft⟩, _⟩
        · rw [hold', hk'] at hen; exact absurd hen (by decide)
        · have hlt : ref % s.n < s.n := Nat.mod_lt _ hn
          have hex : (s.shards (ref % s.n)).exited = false := by
            cases hx : (s.shards (ref % s.n)).exited with
            | false => rfl
            | true => have := h.cl_soft _ hlt (Or.inr hx); simp [hsoft] at this
          have hcl : (s.shards (ref % s.n)).closed = false := by
            cases hx : (s.shards (ref % s.n)).closed with
            | false => rfl
            | true => have := h.cl_soft _ hlt (Or.inl hx); simp [hsoft] at this
          exact invA_upd h _ _ hex (by rw [push_exited, hex]) (push_closed _ _ _)
            (by rw [push_closed, hcl]; intro hc; cases hc)
  | recv i =>
    simp only [enabled, Bool.and_eq_true, decide_eq_true_eq, Bool.not_eq_true'] at hen
    obtain ⟨⟨⟨_, hex⟩, _⟩, _⟩ := hen
    simp only [apply]
    split
    · exact invA_upd h _ _ hex hex rfl (fun hc => h.cl_part i (by assumption) hc)
    · exact h
  | timer i =>
    simp only [enabled, Bool.and_eq_true, decide_eq_true_eq, Bool.not_eq_true'] at hen
    obtain ⟨⟨hi, hex⟩, _⟩ := hen
    simp only [apply]
    split
    · exact invA_upd h _ _ hex hex rfl (fun hc => h.cl_part i hi hc)
    · exact invA_upd h _ _ hex hex rfl (fun _ => rfl)
  | sendOk i =>
    simp only [enabled, Bool.and_eq_true, decide_eq_true_eq, Bool.not_eq_true'] at hen
    obtain ⟨⟨⟨hi, hex⟩, _⟩, _⟩ := hen
    exact invA_upd h _ _ hex hex rfl (fun hc => h.cl_part i hi hc)
  | sendRecov i reached =>
    simp only [enabled, Bool.and_eq_true, decide_eq_true_eq, Bool.not_eq_true'] at hen
    obtain ⟨⟨⟨hi, hex⟩, _⟩, _⟩ := hen
    simp only [apply]
    split
    · exact invA_upd h _ _ hex hex rfl (fun hc => h.cl_part i hi hc)
    · exact h
  | sendUnrecov i =>
    simp only [enabled, Bool.and_eq_true, decide_eq_true_eq, Bool.not_eq_true'] at hen
    obtain ⟨⟨⟨hi, hex⟩, _⟩, _⟩ := hen
    exact invA_upd h _ _ hex hex rfl (fun hc => h.cl_part i hi hc)
  | softStop =>
    exact ⟨h.run_eq, h.ex_empty, h.cl_part, fun _ _ _ => rfl, fun _ => rfl⟩
  | flush i =>
    simp only [enabled, Bool.and_eq_true, decide_eq_true_eq, Bool.not_eq_true'] at hen
    obtain ⟨⟨⟨⟨hi, hsoft⟩, _⟩, hex⟩, _⟩ := hen
    refine ⟨?_, ?_, ?_, ?_, h.hard_soft⟩
    · simp only [apply]
      rw [live_upd_keep _ _ _ _ (by rfl)]; exact h.run_eq
    · intro j hj hx
      simp only [apply] at hx ⊢
      by_cases hji : j = i
      · subst hji; simp [hex] at hx
      · rw [upd_other _ _ _ _ hji] at hx ⊢; exact h.ex_empty j hj hx
    · intro j hj hx
      simp only [apply] at hx ⊢
      by_cases hji : j = i
      · subst hji; simp
      · rw [upd_other _ _ _ _ hji] at hx ⊢; exact h.cl_part j hj hx
    · intro _ _ _; exact hsoft
  | exit i =>
    simp only [enabled, Bool.and_eq_true, decide_eq_true_eq, Bool.not_eq_true', List.isEmpty_iff] at hen
    obtain ⟨⟨⟨⟨hi, hex⟩, hcl⟩, hch⟩, hin⟩ := hen
    have hsoft := h.cl_soft i hi (Or.inl hcl)
    have hpart := h.cl_part i hi hcl
    refine ⟨?_, ?_, ?_, ?_, h.hard_soft⟩
    · simp only [apply]
      have key : ∀ sh' : Shard, sh'.exited = true → s.running - 1 = live (upd s.shards i sh') s.n := by
        intro sh' h1
        have := live_upd_exit s.shards i s.n sh' hi hex h1
        have h2 := h.run_eq
        omega
      exact key _ rfl
    · intro j hj hx
      simp only [apply] at hx ⊢
      by_cases hji : j = i
      · subst hji; simp [Shard.pipe, Shard.rest, hch, hin, hpart]
      · rw [upd_other _ _ _ _ hji] at hx ⊢; exact h.ex_empty j hj hx
    · intro j hj hx
      simp only [apply] at hx ⊢
      by_cases hji : j = i
      · subst hji; simp [hpart]
      · rw [upd_other _ _ _ _ hji] at hx ⊢; exact h.cl_part j hj hx
    · intro _ _ _; exact hsoft
  | hardStop =>
    simp only [enabled, Bool.and_eq_true, Bool.not_eq_true'] at hen
    exact ⟨h.run_eq, h.ex_empty, h.cl_part, h.cl_soft, fun _ => hen.1⟩
  | hardExit i =>
    simp only [enabled, Bool.and_eq_true, decide_eq_true_eq, Bool.not_eq_true'] at hen
    obtain ⟨⟨hi, hhard⟩, hex⟩ := hen
    have hsoft := h.hard_soft hhard
    refine ⟨?_, ?_, ?_, ?_, h.hard_soft⟩
    · simp only [apply]
      have key : ∀ sh' : Shard, sh'.exited = true → s.running - 1 = live (upd s.shards i sh') s.n := by
        intro sh' h1
        have := live_upd_exit s.shards i s.n sh' hi hex h1
        have h2 := h.run_eq
        omega
      exact key _ rfl
    · intro j hj hx
      simp only [apply] at hx ⊢
      by_cases hji : j = i
      · subst hji; simp [Shard.pipe, Shard.rest]
      · rw [upd_other _ _ _ _ hji] at hx ⊢; exact h.ex_empty j hj hx
    · intro j hj hx
      simp only [apply] at hx ⊢
      by_cases hji : j = i
      · subst hji; simp
      · rw [upd_other _ _ _ _ hji] at hx ⊢; exact h.cl_part j hj hx
    · intro _ _ _; exact hsoft
  | start n =>
    simp only [apply]
    refine ⟨?_, ?_, ?_, ?_, ?_⟩
    · exact (live_fresh n).symm
    · intro j _ hx; simp [freshShards] at hx
    · intro j _ _; rfl
    · intro j _ hx; simp [freshShards] at hx
    · intro hx; cases hx

end Prom.QueueShards
