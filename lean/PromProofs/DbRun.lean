import PromProofs.DbClean
/-
  C01 refinement: assembling the per-operation theorems along a history.
-/
namespace Prom.Db
open Prom.Intervals

/-- Admissible operation arguments: appended timestamps are int64 values other than the
    `math.MaxInt64` sentinel (which the head uses for "not initialised"). -/
def opOk : Op → Prop
  | .app _ t _ => MinI64 ≤ t ∧ t < MaxI64
  | _ => True

instance : DecidablePred opOk := fun op => by
  cases op <;> simp only [opOk] <;> infer_instance

/-- Whether an appender is open after `op` (as tracked by the reference). -/
def nextOpen (o : Bool) : Op → Bool
  | .begin => true
  | .commit => false
  | .rollback => false
  | .reopen => false
  | _ => o

/-- Protocol: `Compact` is only called while no appender is open (the real `DB.Compact` waits for
    overlapping appenders, so a single-threaded history cannot do otherwise). -/
def wfFrom : Bool → List Op → Bool
  | _, [] => true
  | o, op :: ops => (match op with | .compact => !o | _ => true) && wfFrom (nextOpen o op) ops

theorem good_init (cfg : Cfg) (h0 : cfg.oooWin = 0) (h1 : 0 < cfg.chunkRange) :
    Good { cfg := cfg } {} := by
  refine ⟨⟨⟨?_, ?_, ?_, ?_, ?_, ?_, ?_, ?_, ?_, ?_, ?_, ?_, ?_⟩, ?_⟩, ?_, ⟨?_, ?_, rfl⟩, h0, h1⟩
  all_goals first
    | (intro a ha; simp at ha)
    | (intro s hs; simp at hs)
    | (intro b hb; simp at hb)
    | skip
  · exact List.Pairwise.nil
  · intro i; simp [Ref.get, SInc]
  · intro i x; simp [Db.mem, Ref.get]

theorem Sim.app_none {d : Db} {r : Ref} (h : Sim d r) (ho : r.open_ = false) : d.app = none := by
  have := h.app
  cases ha : d.app with
  | none => rfl
  | some a => rw [ha] at this; simp only at this; rw [ho] at this; simp at this

theorem Ref.step_open {r r' : Ref} {op : Op} {o : Out} (h : Ref.step r op o = some r') :
    r'.open_ = nextOpen r.open_ op := by
  cases op <;> simp only [Ref.step, Option.some.injEq] at h
  case begin => subst h; rfl
  case app s t v => subst h; simp only [nextOpen]; split <;> rfl
  case commit => subst h; simp only [nextOpen]; split <;> rfl
  case rollback => subst h; rfl
  case del a b sel => subst h; rfl
  case compact => subst h; rfl
  case cleantomb => subst h; rfl
  case reopen => subst h; rfl
  case q a b =>
    simp only [nextOpen]
    split at h
    · split at h
      · simp only [Option.some.injEq] at h; subst h; rfl
      · simp at h
    · simp at h
  case win => subst h; rfl

/-- One step of a history without `del` / `reopen`. -/
theorem step_preserves {d : Db} {r : Ref} (hG : Good d r) (op : Op) (hok : opOk op)
    (hnd : ∀ a b sel, op ≠ .del a b sel) (hnr : op ≠ .reopen)
    (hc : op = .compact → r.open_ = false) :
    ∃ r', Ref.step r op (d.step op).2 = some r' ∧ Good (d.step op).1 r' := by
  cases op with
  | begin => exact ⟨_, rfl, begin_preserves hG⟩
  | app s t v => exact ⟨_, rfl, append_preserves hG s t v hok⟩
  | commit => exact ⟨_, rfl, commit_preserves hG⟩
  | rollback => exact ⟨_, rfl, rollback_preserves hG⟩
  | del a b sel => exact absurd rfl (hnd a b sel)
  | compact => exact ⟨_, rfl, (compact_preserves hG (hG.sim.app_none (hc rfl))).1⟩
  | cleantomb => exact ⟨_, rfl, cleantomb_preserves hG⟩
  | reopen => exact absurd rfl hnr
  | q a b =>
    refine ⟨r, ?_, hG⟩
    simp only [Db.step, Ref.step, query_matches hG.inv hG.sim a b, if_true]
  | win => exact ⟨_, rfl, hG⟩

theorem holdsFrom_run : ∀ (ops : List Op) (d : Db) (r : Ref) (k : Nat), Good d r →
    (∀ op ∈ ops, opOk op ∧ (∀ a b sel, op ≠ .del a b sel) ∧ op ≠ .reopen) →
    wfFrom r.open_ ops = true →
    holdsFrom r (ops.zip (d.run ops)) k = none
  | [], _, _, _, _, _, _ => rfl
  | op :: ops, d, r, k, hG, hok, hwf => by
    have h1 := hok op (by simp)
    simp only [wfFrom, Bool.and_eq_true] at hwf
    have hc : op = .compact → r.open_ = false := by
      intro e; subst e; simpa using hwf.1
    obtain ⟨r', hr', hG'⟩ := step_preserves hG op h1.1 h1.2.1 h1.2.2 hc
    have hrun : d.run (op :: ops) = (d.step op).2 :: Db.run (d.step op).1 ops := rfl
    rw [hrun, List.zip_cons_cons]
    simp only [holdsFrom, hr']
    apply holdsFrom_run ops _ r' (k + 1) hG' (fun o ho => hok o (by simp [ho]))
    rw [Ref.step_open hr']; exact hwf.2

end Prom.Db
