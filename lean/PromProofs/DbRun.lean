import PromProofs.DbDelete
/-
  C01 refinement: assembling the per-operation theorems along a history.
-/
namespace Prom.Db
open Prom.Intervals

/-- Admissible operation arguments: appended timestamps are int64 values other than the
    `math.MaxInt64` sentinel (which the head uses for "not initialised"). -/
def opOk : Op → Prop
  | .app _ t _ => MinI64 ≤ t ∧ t < MaxI64
  | _ => True

instance : DecidablePred opOk := fun op => by
  cases op <;> simp only [opOk] <;> infer_instance

/-- Whether an appender is open after `op` (as tracked by the reference). -/
def nextOpen (o : Bool) : Op → Bool
  | .begin => true
  | .commit => false
  | .rollback => false
  | .reopen => false
  | _ => o

/-- Protocol: `Compact` is only called while no appender is open (the real `DB.Compact` waits for
    overlapping appenders, so a single-threaded history cannot do otherwise). -/
def wfFrom : Bool → List Op → Bool
  | _, [] => true
  | o, op :: ops => (match op with | .compact => !o | _ => true) && wfFrom (nextOpen o op) ops

theorem good_init (cfg : Cfg) (h0 : cfg.oooWin = 0) (h1 : 0 < cfg.chunkRange) :
    Good { cfg := cfg } {} := by
  refine ⟨⟨⟨?_, ?_, ?_, ?_, ?_, ?_, ?_, ?_, ?_, ?_, ?_, ?_, ?_⟩, ?_⟩, ?_, ⟨?_, ?_, rfl⟩, h0, h1⟩
  all_goals first
    | (intro a ha; simp at ha)
    | (intro s hs; simp at hs)
    | (intro b hb; simp at hb)
    | skip
  · exact List.Pairwise.nil
  · intro i; simp [Ref.get, SInc]
  · intro i x; simp [Db.mem, Ref.get]

theorem Sim.app_none {d : Db} {r : Ref} (h : Sim d r) (ho : r.open_ = false) : d.app = none := by
  have := h.app
  cases ha : d.app with
  | none => rfl
  | some a => rw [ha] at this; simp only at this; rw [ho] at this; simp at this

theorem Ref.step_open {r r' : Ref} {op : Op} {o : Out} (h : Ref.step r op o = some r') :
    r'.open_ = nextOpen r.open_ op := by
  cases op <;> simp only [Ref.step, Option.some.injEq] at h
  case begin => subst h; rfl
  case app s t v => subst h; simp only [nextOpen]; split <;> rfl
  case commit => subst h; simp only [nextOpen]; split <;> rfl
  case rollback => subst h; rfl
  case del a b sel => subst h; rfl
  case compact => subst h; rfl
  case cleantomb => subst h; rfl
  case reopen => subst h; rfl
  case q a b =>
    simp only [nextOpen]
    split at h
    · split at h
      · simp only [Option.some.injEq] at h; subst h; rfl
      · simp at h
    · simp at h
  case win => subst h; rfl

/-- Side conditions of one step, on the model state before it:
    * appended timestamps are int64 values other than the MaxInt64 sentinel, and the append does not
      re-submit the timestamp of a series' newest physical sample while that sample is hidden by a
      tombstone (finding F28);
    * `del` and `compact` are called while no appender is open; for `del` the coverage property of
      `Intervals.add` holds for the tombstone lists present in the state;
    * `reopen` is not covered. -/
def stepOk (d : Db) : Op → Prop
  | .app s t _ => (MinI64 ≤ t ∧ t < MaxI64) ∧ ¬ resubmits d s t
  | .del _ _ _ => d.app = none ∧ CoverHyp d
  | .compact => d.app = none
  | .reopen => False
  | _ => True

def runOk (d : Db) : List Op → Prop
  | [] => True
  | op :: ops => stepOk d op ∧ runOk (d.step op).1 ops

theorem step_preserves {d : Db} {r : Ref} (hG : Good d r) (op : Op) (hok : stepOk d op) :
    ∃ r', Ref.step r op (d.step op).2 = some r' ∧ Good (d.step op).1 r' := by
  cases op with
  | begin => exact ⟨_, rfl, begin_preserves hG⟩
  | app s t v => exact ⟨_, rfl, append_preserves hG s t v hok.1 hok.2⟩
  | commit => exact ⟨_, rfl, commit_preserves hG⟩
  | rollback => exact ⟨_, rfl, rollback_preserves hG⟩
  | del a b sel =>
    have h := delete_preserves hG.inv hG.sim hok.2 a b sel
    obtain ⟨e1, _, _, _, e5⟩ := delete_scalars d a b sel
    refine ⟨_, Ref.step_del r a b sel _, h.1, LastOk.of_no_pending ?_, h.2, ?_, ?_⟩
    · show pendingOf (d.delete a b sel) = []
      unfold pendingOf; rw [e5, hok.1]
    · show (d.delete a b sel).cfg.oooWin = 0
      rw [e1]; exact hG.ooo
    · show 0 < (d.delete a b sel).cfg.chunkRange
      rw [e1]; exact hG.cr
  | compact => exact ⟨_, rfl, (compact_preserves hG hok).1⟩
  | cleantomb => exact ⟨_, rfl, cleantomb_preserves hG⟩
  | reopen => exact absurd hok (by simp [stepOk])
  | q a b =>
    refine ⟨r, ?_, hG⟩
    simp only [Db.step, Ref.step, query_matches hG.inv hG.sim a b, if_true]
  | win => exact ⟨_, rfl, hG⟩

theorem holdsFrom_runOk : ∀ (ops : List Op) (d : Db) (r : Ref) (k : Nat), Good d r → runOk d ops →
    holdsFrom r (ops.zip (d.run ops)) k = none
  | [], _, _, _, _, _ => rfl
  | op :: ops, d, r, k, hG, hok => by
    obtain ⟨r', hr', hG'⟩ := step_preserves hG op hok.1
    have hrun : d.run (op :: ops) = (d.step op).2 :: Db.run (d.step op).1 ops := rfl
    rw [hrun, List.zip_cons_cons]
    simp only [holdsFrom, hr']
    exact holdsFrom_runOk ops _ r' (k + 1) hG' hok.2

/-! ### histories without `del` / `reopen`: no head tombstones, hence no re-submission -/

def NoTombs (d : Db) : Prop := ∀ s ∈ d.series, s.tombs = []

theorem NoTombs.getSeries {d : Db} (h : NoTombs d) (i : Nat) : (d.getSeries i).tombs = [] := by
  rcases getSeries_cases d i with hc | hc
  · exact h _ hc.1
  · rw [hc.2]

theorem NoTombs.not_resubmits {d : Db} (h : NoTombs d) (i : Nat) (t : Int) : ¬ resubmits d i t := by
  rintro ⟨l, _, _, hv⟩
  rw [h.getSeries i] at hv
  simp [visible, coversB] at hv

theorem commitOne_tombs (s : HSeries) (x : Smp) (a : App) (ow : Int) :
    (commitOne s x a ow).1.tombs = s.tombs := by
  unfold commitOne
  split
  · split
    · split <;> rfl
    · rfl
  · rfl

theorem commitStep_noTombs (a : App) (acc : Db × Int × Int) (p : Nat × Smp) (h : NoTombs acc.1) :
    NoTombs (commitStep a acc p).1 := by
  unfold commitStep
  simp only
  split
  · intro s hs
    rw [mem_setSeries] at hs
    rcases hs with rfl | hs
    · rw [commitOne_tombs]; exact h.getSeries _
    · exact h s hs.1
  · exact h

theorem commitFold_noTombs (a : App) : ∀ (ps : List (Nat × Smp)) (acc : Db × Int × Int),
    NoTombs acc.1 → NoTombs (ps.foldl (commitStep a) acc).1
  | [], _, h => h
  | p :: ps, acc, h => commitFold_noTombs a ps _ (commitStep_noTombs a acc p h)

theorem commit_noTombs {d : Db} (h : NoTombs d) : NoTombs d.commit.1 := by
  cases happ : d.app with
  | none =>
    have : d.commit = (d, .error .noapp) := by unfold Db.commit; rw [happ]
    rw [this]; exact h
  | some a =>
    by_cases hb : a.batch = []
    · have : d.commit = ({ d with app := none }, .ok ()) := by
        unfold Db.commit; rw [happ]; simp [hb]
      rw [this]; exact h
    · rw [Db.commit_some d a happ hb]
      exact commitFold_noTombs a a.batch _ h

theorem append_series (d : Db) (i : Nat) (t : Int) (v : Nat) : (d.append i t v).1.series = d.series := by
  cases happ : d.app with
  | none =>
    have : d.append i t v = (d, .error .noapp) := by unfold Db.append; rw [happ]
    rw [this]
  | some a =>
    rcases append_some happ i t v with ⟨e, he⟩ | ⟨he, _⟩ <;> rw [he] <;> exact appD_series d a t

theorem adjust_series (d3 : Db) : (adjust d3).series = d3.series := by
  unfold adjust
  split
  · split <;> rfl
  · rfl

theorem compactHeadOnce_noTombs {d : Db} (h : NoTombs d) : NoTombs d.compactHeadOnce := by
  rw [compactHeadOnce_eq0]
  have h1 : NoTombs (if (cBser d).isEmpty then d else { d with blocks := d.blocks ++ [⟨d.minT, cMaxt d, cBser d⟩] }) := by
    split <;> exact h
  revert h1
  generalize (if (cBser d).isEmpty then d else { d with blocks := d.blocks ++ [⟨d.minT, cMaxt d, cBser d⟩] }) = d1
  intro h1
  unfold trunc
  split
  · exact h1
  · intro s hs
    rw [adjust_series] at hs
    simp only [List.mem_filterMap] at hs
    obtain ⟨u, hu, hus⟩ := hs
    split at hus
    · simp at hus
    · simp only [Option.some.injEq] at hus
      subst hus
      simp only
      rw [h1 u hu]; rfl

theorem compactGo_noTombs : ∀ (fuel : Nat) (d : Db), NoTombs d → NoTombs (Db.compact.go fuel d)
  | 0, _, h => h
  | fuel + 1, d, h => by
    unfold Db.compact.go
    split
    · exact compactGo_noTombs fuel _ (compactHeadOnce_noTombs h)
    · exact h

theorem step_noTombs {d : Db} (h : NoTombs d) (op : Op) (hnd : ∀ a b sel, op ≠ .del a b sel)
    (hnr : op ≠ .reopen) : NoTombs (d.step op).1 := by
  cases op with
  | begin => show NoTombs d.begin; unfold Db.begin; split <;> exact h
  | app s t v => show NoTombs (d.append s t v).1; intro u hu; rw [append_series] at hu; exact h u hu
  | commit => show NoTombs d.commit.1; exact commit_noTombs h
  | rollback => show NoTombs d.rollback.1; unfold Db.rollback; split <;> exact h
  | del a b sel => exact absurd rfl (hnd a b sel)
  | compact => exact compactGo_noTombs 64 d h
  | cleantomb => exact h
  | reopen => exact absurd rfl hnr
  | q a b => exact h
  | win => exact h

/-- Syntactic side conditions imply the step side conditions along the run. -/
theorem runOk_of_syntactic : ∀ (ops : List Op) (d : Db) (r : Ref), Good d r → NoTombs d →
    (∀ op ∈ ops, opOk op ∧ (∀ a b sel, op ≠ .del a b sel) ∧ op ≠ .reopen) →
    wfFrom r.open_ ops = true → runOk d ops
  | [], _, _, _, _, _, _ => trivial
  | op :: ops, d, r, hG, hN, hok, hwf => by
    have h1 := hok op (by simp)
    simp only [wfFrom, Bool.and_eq_true] at hwf
    have hstep : stepOk d op := by
      cases op with
      | app s t v => exact ⟨h1.1, hN.not_resubmits s t⟩
      | del a b sel => exact absurd rfl (h1.2.1 a b sel)
      | compact => exact hG.sim.app_none (by simpa using hwf.1)
      | reopen => exact absurd rfl h1.2.2
      | _ => trivial
    obtain ⟨r', hr', hG'⟩ := step_preserves hG op hstep
    refine ⟨hstep, runOk_of_syntactic ops _ r' hG' (step_noTombs hN op h1.2.1 h1.2.2)
      (fun o ho => hok o (by simp [ho])) ?_⟩
    rw [Ref.step_open hr']; exact hwf.2

theorem holdsFrom_run (ops : List Op) (d : Db) (r : Ref) (k : Nat) (hG : Good d r) (hN : NoTombs d)
    (hok : ∀ op ∈ ops, opOk op ∧ (∀ a b sel, op ≠ .del a b sel) ∧ op ≠ .reopen)
    (hwf : wfFrom r.open_ ops = true) :
    holdsFrom r (ops.zip (d.run ops)) k = none :=
  holdsFrom_runOk ops d r k hG (runOk_of_syntactic ops d r hG hN hok hwf)

end Prom.Db
